/-
Proof development for C37 (textbuilder): Python slices, bisect, the Replacer loop, the Combiner
offset table, builder trees.  The property theorems are in GristProps/C37.lean.
-/
import GristModel.Textbuilder
namespace Grist.Textbuilder

/-! ## Specification vocabulary (independent of offset tables and bisect) -/

/-- Replace `t[start:end]` by `new_text` (positions are natural numbers here). -/
def splice (t : Str) (p : Patch) : Str :=
  t.take p.start.toNat ++ p.newText ++ t.drop p.end_.toNat

/-- "Applying the patches directly": one at a time, the LAST patch of the (ascending) list first,
    so that the positions of the earlier ones are not disturbed. -/
def applyPatches (t : Str) (ps : List Patch) : Str := ps.foldr (fun p acc => splice acc p) t

/-- The patch is a well-formed patch of `t`: in range and `old_text` is what is there. -/
def Patch.Fits (t : Str) (p : Patch) : Prop :=
  0 ≤ p.start ∧ p.start ≤ p.end_ ∧ p.end_ ≤ t.length ∧ slice t p.start p.end_ = p.oldText

/-- Ascending and non-overlapping: every patch ends no later than any later one starts. -/
def Ordered (ps : List Patch) : Prop := ps.Pairwise (fun p q => p.end_ ≤ q.start)

/-- Total change of length caused by a list of patches. -/
def shift : List Patch → Int
  | [] => 0
  | p :: ps => ((p.newText.length : Int) - (p.end_ - p.start)) + shift ps

/-- End (input coordinate) of the last patch of the list, `a` if there is none. -/
def lastEnd (a : Int) : List Patch → Int
  | [] => a
  | p :: ps => lastEnd p.end_ ps

/-! ## Python slices on natural positions -/

theorem pyIdx_nat (n a : Nat) : pyIdx n (a : Int) = min a n := by
  unfold pyIdx
  have : ¬ ((a : Int) < 0) := by omega
  simp [this]

theorem slice_nat (t : Str) (a b : Nat) : slice t a b = (t.take b).drop a := by
  unfold slice
  rw [pyIdx_nat, pyIdx_nat]
  by_cases hb : b ≤ t.length
  · rw [Nat.min_eq_left hb]
    by_cases ha : a ≤ t.length
    · rw [Nat.min_eq_left ha]
    · have h1 : min a t.length = t.length := Nat.min_eq_right (by omega)
      rw [h1]
      rw [List.drop_eq_nil_of_le (by simp; omega), List.drop_eq_nil_of_le (by simp; omega)]
  · have h1 : min b t.length = t.length := Nat.min_eq_right (by omega)
    rw [h1, List.take_of_length_le (Nat.le_refl _), List.take_of_length_le (by omega)]
    by_cases ha : a ≤ t.length
    · rw [Nat.min_eq_left ha]
    · have h2 : min a t.length = t.length := Nat.min_eq_right (by omega)
      rw [h2, List.drop_eq_nil_of_le (Nat.le_refl _), List.drop_eq_nil_of_le (by omega)]

theorem sliceFrom_nat (t : Str) (a : Nat) : sliceFrom t a = t.drop a := by
  unfold sliceFrom
  rw [pyIdx_nat]
  by_cases ha : a ≤ t.length
  · rw [Nat.min_eq_left ha]
  · have h2 : min a t.length = t.length := Nat.min_eq_right (by omega)
    rw [h2, List.drop_eq_nil_of_le (Nat.le_refl _), List.drop_eq_nil_of_le (by omega)]

theorem slice_length_nat (t : Str) (a b : Nat) (hab : a ≤ b) (hb : b ≤ t.length) :
    (slice t a b).length = b - a := by
  rw [slice_nat]; simp; omega

theorem take_glue {α} (l : List α) (a b : Nat) (h : a ≤ b) :
    l.take a ++ (l.take b).drop a = l.take b := by
  have : l.take a = (l.take b).take a := by rw [List.take_take, Nat.min_eq_left h]
  rw [this, List.take_append_drop]

theorem slice_glue (t : Str) (a b c : Nat) (hab : a ≤ b) (hbc : b ≤ c) :
    slice t a b ++ slice t b c = slice t a c := by
  rw [slice_nat, slice_nat, slice_nat]
  have h1 : (t.take b).drop a = ((t.take c).take b).drop a := by
    rw [List.take_take, Nat.min_eq_left hbc]
  rw [h1]
  -- ((X.take b).drop a) ++ X.drop b = X.drop a   with X = t.take c
  generalize t.take c = X
  have : X.drop a = (X.take b ++ X.drop b).drop a := by rw [List.take_append_drop]
  rw [this, List.drop_append]
  by_cases hx : b ≤ X.length
  · have : a - (X.take b).length = 0 := by simp; omega
    rw [this]; simp
  · have h2 : X.drop b = [] := List.drop_eq_nil_of_le (by omega)
    simp [h2]

theorem slice_glue_from (t : Str) (a b : Nat) (hab : a ≤ b) :
    slice t a b ++ sliceFrom t b = sliceFrom t a := by
  rw [slice_nat, sliceFrom_nat, sliceFrom_nat]
  have : t.drop a = (t.take b ++ t.drop b).drop a := by rw [List.take_append_drop]
  rw [this, List.drop_append]
  by_cases hx : b ≤ t.length
  · have : a - (t.take b).length = 0 := by simp; omega
    rw [this]; simp
  · have h2 : t.drop b = [] := List.drop_eq_nil_of_le (by omega)
    simp [h2]

/-- A slice of `A ++ S ++ R` lying inside `S`. -/
theorem slice_middle (A S R : Str) (i j : Nat) (hj : j ≤ S.length) :
    slice (A ++ S ++ R) ((A.length + i : Nat) : Int) ((A.length + j : Nat) : Int) = slice S i j := by
  rw [slice_nat, slice_nat]
  rw [List.append_assoc, List.take_append, List.drop_append]
  have h1 : A.length + j - A.length = j := by omega
  have h2 : A.take (A.length + j) = A := List.take_of_length_le (by omega)
  rw [h1, h2]
  have h3 : A.drop (A.length + i) = [] := List.drop_eq_nil_of_le (by omega)
  have h4 : A.length + i - A.length = i := by omega
  rw [h3, h4, List.nil_append, List.take_append_of_le_length hj]

/-- A slice of `A ++ S` starting at or after the end of `A` (the end may lie beyond the text). -/
theorem slice_right (A S : Str) (i j : Nat) :
    slice (A ++ S) ((A.length + i : Nat) : Int) ((A.length + j : Nat) : Int) = slice S i j := by
  rw [slice_nat, slice_nat]
  rw [List.take_append, List.drop_append]
  have h1 : A.length + j - A.length = j := by omega
  have h2 : A.take (A.length + j) = A := List.take_of_length_le (by omega)
  have h3 : A.drop (A.length + i) = [] := List.drop_eq_nil_of_le (by omega)
  have h4 : A.length + i - A.length = i := by omega
  rw [h1, h2, h3, h4, List.nil_append]

/-! ## bisect_right -/

theorem bisectGo_partition (pre post : List Int) (x : Int)
    (h1 : ∀ y ∈ pre, y ≤ x) (h2 : ∀ y ∈ post, x < y) :
    ∀ (fuel lo hi : Nat), lo ≤ pre.length → pre.length ≤ hi → hi ≤ (pre ++ post).length →
      hi - lo ≤ fuel → bisectGo (pre ++ post) x fuel lo hi = pre.length := by
  intro fuel
  induction fuel with
  | zero => intro lo hi a b c d; simp [bisectGo]; omega
  | succ n ih =>
    intro lo hi hlo hhi hlen hf
    simp only [bisectGo]
    by_cases hlt : lo < hi
    · simp only [hlt, if_true]
      have hm1 : lo ≤ (lo + hi) / 2 := by omega
      have hm2 : (lo + hi) / 2 < hi := by omega
      by_cases hmid : (lo + hi) / 2 < pre.length
      · have hget : (pre ++ post).getD ((lo + hi) / 2) 0 = pre[(lo + hi) / 2] := by
          simp [List.getD_eq_getElem?_getD, List.getElem?_append_left hmid, hmid]
        have hle : pre[(lo + hi) / 2] ≤ x := h1 _ (List.getElem_mem _)
        have : ¬ x < (pre ++ post).getD ((lo + hi) / 2) 0 := by rw [hget]; omega
        simp only [this, if_false]
        exact ih _ _ (by omega) hhi hlen (by omega)
      · have hge : pre.length ≤ (lo + hi) / 2 := by omega
        have hin : (lo + hi) / 2 - pre.length < post.length := by
          simp at hlen; omega
        have hget : (pre ++ post).getD ((lo + hi) / 2) 0 = post[(lo + hi) / 2 - pre.length] := by
          simp [List.getD_eq_getElem?_getD, List.getElem?_append_right hge, hin]
        have hgt : x < post[(lo + hi) / 2 - pre.length] := h2 _ (List.getElem_mem _)
        have : x < (pre ++ post).getD ((lo + hi) / 2) 0 := by rw [hget]; exact hgt
        simp only [this, if_true]
        exact ih _ _ hlo hge (by omega) (by omega)
    · simp only [hlt, if_false]; omega

/-- Binary search on a list that is partitioned with respect to `x` finds the partition point
    (the list need not be sorted). -/
theorem bisectRight_partition (pre post : List Int) (x : Int)
    (h1 : ∀ y ∈ pre, y ≤ x) (h2 : ∀ y ∈ post, x < y) :
    bisectRight (pre ++ post) x = pre.length := by
  unfold bisectRight
  exact bisectGo_partition pre post x h1 h2 _ 0 _ (by omega) (by simp) (Nat.le_refl _) (by omega)

theorem bisectGo_le (a : List Int) (x : Int) : ∀ (fuel lo hi : Nat), lo ≤ hi →
    bisectGo a x fuel lo hi ≤ hi := by
  intro fuel
  induction fuel with
  | zero => intro lo hi h; simpa [bisectGo] using h
  | succ n ih =>
    intro lo hi h
    simp only [bisectGo]
    split
    · split
      · exact Nat.le_trans (ih _ _ (by omega)) (by omega)
      · exact ih _ _ (by omega)
    · exact h

theorem bisectRight_le (a : List Int) (x : Int) : bisectRight a x ≤ a.length :=
  bisectGo_le a x _ 0 _ (Nat.zero_le _)

theorem sorted_partition (x : Int) : ∀ (a : List Int), a.Pairwise (· ≤ ·) →
    ∃ pre post, a = pre ++ post ∧ (∀ y ∈ pre, y ≤ x) ∧ (∀ y ∈ post, x < y) := by
  intro a
  induction a with
  | nil => intro _; exact ⟨[], [], rfl, by simp, by simp⟩
  | cons z zs ih =>
    intro hs
    have hs' := List.pairwise_cons.mp hs
    by_cases hz : z ≤ x
    · obtain ⟨pre, post, he, h1, h2⟩ := ih hs'.2
      refine ⟨z :: pre, post, by rw [he]; rfl, ?_, h2⟩
      intro y hy
      rcases List.mem_cons.mp hy with rfl | hin
      · exact hz
      · exact h1 y hin
    · refine ⟨[], z :: zs, rfl, by simp, ?_⟩
      intro y hy
      rcases List.mem_cons.mp hy with rfl | hin
      · omega
      · have := hs'.1 y hin; omega

/-- On a sorted list `bisect_right` splits the list into the elements `≤ x` and those `> x`. -/
theorem bisectRight_spec (a : List Int) (hs : a.Pairwise (· ≤ ·)) (x : Int) :
    ∃ pre post, a = pre ++ post ∧ pre.length = bisectRight a x ∧
      (∀ y ∈ pre, y ≤ x) ∧ (∀ y ∈ post, x < y) := by
  obtain ⟨pre, post, he, h1, h2⟩ := sorted_partition x a hs
  refine ⟨pre, post, he, ?_, h1, h2⟩
  rw [he, bisectRight_partition pre post x h1 h2]

/-! ## The Replacer loop: produced text -/

theorem rStep_inPos (t : Str) (st : RState) (p : Patch) : (rStep t st p).inPos = p.end_ := by
  unfold rStep; split <;> rfl

theorem rStep_outPos (t : Str) (st : RState) (p : Patch) :
    (rStep t st p).outPos = st.outPos + (p.start - st.inPos) + (p.newText.length : Int) := by
  unfold rStep; split <;> rfl

theorem rStep_out (t : Str) (st : RState) (p : Patch) :
    (rStep t st p).out = st.out ++ slice t st.inPos p.start ++ p.newText := by
  unfold rStep; split <;> rfl

/-- The text produced from input position `a` on: copy up to the next patch, emit its new text,
    continue after it. -/
def buildFrom (t : Str) : Int → List Patch → Str
  | a, [] => sliceFrom t a
  | a, p :: ps => slice t a p.start ++ p.newText ++ buildFrom t p.end_ ps

theorem rLoop_out (t : Str) : ∀ (ps : List Patch) (st : RState),
    (rLoop t st ps).out ++ sliceFrom t (rLoop t st ps).inPos = st.out ++ buildFrom t st.inPos ps := by
  intro ps
  induction ps with
  | nil => intro st; rfl
  | cons p ps ih =>
    intro st
    simp only [rLoop, buildFrom]
    rw [ih, rStep_out, rStep_inPos]
    simp [List.append_assoc]

theorem rLoop_append (t : Str) : ∀ (a b : List Patch) (st : RState),
    rLoop t st (a ++ b) = rLoop t (rLoop t st a) b := by
  intro a
  induction a with
  | nil => intro b st; rfl
  | cons p ps ih => intro b st; simp only [List.cons_append, rLoop]; exact ih b _

theorem rLoop_inPos (t : Str) : ∀ (ps : List Patch) (st : RState),
    (rLoop t st ps).inPos = lastEnd st.inPos ps := by
  intro ps
  induction ps with
  | nil => intro st; rfl
  | cons p ps ih => intro st; simp only [rLoop, lastEnd]; rw [ih, rStep_inPos]

theorem rLoop_shift (t : Str) : ∀ (ps : List Patch) (st : RState),
    (rLoop t st ps).outPos - (rLoop t st ps).inPos = st.outPos - st.inPos + shift ps := by
  intro ps
  induction ps with
  | nil => intro st; simp [rLoop, shift]
  | cons p ps ih =>
    intro st
    simp only [rLoop, shift]
    rw [ih, rStep_outPos, rStep_inPos]
    omega

theorem applyPatches_eq_buildFrom (t : Str) : ∀ (ps : List Patch) (a : Nat),
    (∀ p ∈ ps, p.Fits t) → Ordered ps → (∀ p ∈ ps, (a : Int) ≤ p.start) → a ≤ t.length →
    applyPatches t ps = t.take a ++ buildFrom t a ps := by
  intro ps
  induction ps with
  | nil =>
    intro a _ _ _ _
    simp [applyPatches, buildFrom, sliceFrom_nat]
  | cons p rest ih =>
    intro a hfit hord hlo ha
    obtain ⟨h0, hse, hel, _⟩ := hfit p (by simp)
    obtain ⟨s, hs⟩ := Int.eq_ofNat_of_zero_le h0
    obtain ⟨e, he⟩ := Int.eq_ofNat_of_zero_le (by omega : 0 ≤ p.end_)
    have hord' := List.pairwise_cons.mp hord
    have has : a ≤ s := by have := hlo p (by simp); omega
    have hse' : s ≤ e := by omega
    have hel' : e ≤ t.length := by omega
    have ih' := ih e (fun q hq => hfit q (by simp [hq])) hord'.2
      (fun q hq => by have := hord'.1 q hq; omega) hel'
    have hstep : applyPatches t (p :: rest) = splice (applyPatches t rest) p := rfl
    rw [hstep, ih']
    unfold splice
    simp only [buildFrom, hs, he, Int.toNat_natCast]
    have hlen : (t.take e).length = e := by simp; omega
    rw [List.take_append_of_le_length (by omega), List.take_take, Nat.min_eq_left hse']
    rw [List.drop_append_of_le_length (by omega)]
    have : (t.take e).drop e = [] := List.drop_eq_nil_of_le (by omega)
    rw [this, List.nil_append, slice_nat]
    rw [← List.append_assoc, ← List.append_assoc, take_glue t a s has]

/-! ## The Replacer loop: offset tables -/

theorem rStep_offs_changing (t : Str) (st : RState) (p : Patch)
    (h : (p.newText.length : Int) ≠ p.end_ - p.start) :
    (rStep t st p).inOffs = st.inOffs ++ [p.end_] ∧
    (rStep t st p).outOffs = st.outOffs ++ [(rStep t st p).outPos] := by
  unfold rStep; simp [h]

theorem rStep_offs_same (t : Str) (st : RState) (p : Patch)
    (h : (p.newText.length : Int) = p.end_ - p.start) :
    (rStep t st p).inOffs = st.inOffs ∧ (rStep t st p).outOffs = st.outOffs := by
  unfold rStep; simp [h]

/-- Loop invariant: the tables are parallel, every output offset is at most the current output
    position, and the last pair of offsets is "in phase" with the current positions. -/
structure RInv (st : RState) : Prop where
  ex : ∃ ib ob bi bo, st.inOffs = ib ++ [bi] ∧ st.outOffs = ob ++ [bo] ∧ ib.length = ob.length ∧
        st.inPos - bi = st.outPos - bo
  le : ∀ y ∈ st.outOffs, y ≤ st.outPos

theorem RInv_init : RInv RState.init :=
  ⟨⟨[], [], 0, 0, rfl, rfl, rfl, rfl⟩, by intro y hy; simp [RState.init] at hy; simp [RState.init, hy]⟩

theorem rStep_inv (t : Str) (st : RState) (p : Patch) (hinv : RInv st)
    (h1 : st.inPos ≤ p.start) : RInv (rStep t st p) := by
  obtain ⟨⟨ib, ob, bi, bo, hi, ho, hl, hph⟩, hle⟩ := hinv
  have hop := rStep_outPos t st p
  have hip := rStep_inPos t st p
  by_cases hc : (p.newText.length : Int) = p.end_ - p.start
  · obtain ⟨e1, e2⟩ := rStep_offs_same t st p hc
    refine ⟨⟨ib, ob, bi, bo, by rw [e1, hi], by rw [e2, ho], hl, by omega⟩, ?_⟩
    intro y hy; rw [e2] at hy; have := hle y hy; omega
  · obtain ⟨e1, e2⟩ := rStep_offs_changing t st p hc
    refine ⟨⟨st.inOffs, st.outOffs, p.end_, (rStep t st p).outPos, e1, e2, by rw [hi, ho]; simp [hl],
      by omega⟩, ?_⟩
    intro y hy
    rw [e2] at hy
    rcases List.mem_append.mp hy with h | h
    · have := hle y h; omega
    · simp at h; omega

theorem rLoop_inv (t : Str) : ∀ (ps : List Patch) (st : RState), RInv st →
    (∀ p ∈ ps, st.inPos ≤ p.start) → (∀ p ∈ ps, p.start ≤ p.end_) → Ordered ps →
    RInv (rLoop t st ps) := by
  intro ps
  induction ps with
  | nil => intro st h _ _ _; exact h
  | cons p rest ih =>
    intro st hinv hlo hse hord
    have hord' := List.pairwise_cons.mp hord
    simp only [rLoop]
    apply ih _ (rStep_inv t st p hinv (hlo p (by simp)))
    · intro q hq; rw [rStep_inPos]; exact hord'.1 q hq
    · intro q hq; exact hse q (by simp [hq])
    · exact hord'.2

/-- Everything the rest of the loop appends to the output-offset table is beyond `X`, provided `X`
    (seen in input coordinates, `xin`) is not after the start of any remaining patch and no
    remaining patch is a pure deletion starting exactly at `xin`. -/
theorem rLoop_ext (t : Str) (X : Int) : ∀ (post : List Patch) (st : RState),
    (∀ q ∈ post, q.start ≤ q.end_) → Ordered post →
    (∀ q ∈ post, st.inPos + (X - st.outPos) ≤ q.start) →
    (∀ q ∈ post, q.start = st.inPos + (X - st.outPos) → q.newText = [] → q.end_ = q.start) →
    ∃ ei eo, (rLoop t st post).inOffs = st.inOffs ++ ei ∧ (rLoop t st post).outOffs = st.outOffs ++ eo ∧
      ei.length = eo.length ∧ ∀ y ∈ eo, X < y := by
  intro post
  induction post with
  | nil => intro st _ _ _ _; exact ⟨[], [], by simp [rLoop], by simp [rLoop], rfl, by simp⟩
  | cons q rest ih =>
    intro st hse hord hhi hdel
    have hord' := List.pairwise_cons.mp hord
    have hop := rStep_outPos t st q
    have hip := rStep_inPos t st q
    have hq1 := hhi q (by simp)
    have hq2 := hse q (by simp)
    have hq3 := hdel q (by simp)
    have hlen0 : (q.newText.length : Int) = 0 → q.newText = [] := by
      intro h; exact List.length_eq_zero_iff.mp (by omega)
    simp only [rLoop]
    obtain ⟨ei, eo, h1, h2, h3, h4⟩ := ih (rStep t st q) (fun r hr => hse r (by simp [hr])) hord'.2
      (by intro r hr; have := hord'.1 r hr; omega)
      (by
        intro r hr hrs hrn
        have h5 := hord'.1 r hr
        have hz : (q.newText.length : Int) = 0 := by omega
        have hqs : q.start = st.inPos + (X - st.outPos) := by omega
        have hqe := hq3 hqs (hlen0 hz)
        exact hdel r (by simp [hr]) (by omega) hrn)
    by_cases hc : (q.newText.length : Int) = q.end_ - q.start
    · obtain ⟨e1, e2⟩ := rStep_offs_same t st q hc
      exact ⟨ei, eo, by rw [h1, e1], by rw [h2, e2], h3, h4⟩
    · obtain ⟨e1, e2⟩ := rStep_offs_changing t st q hc
      refine ⟨q.end_ :: ei, (rStep t st q).outPos :: eo, by rw [h1, e1]; simp, by rw [h2, e2]; simp,
        by simp [h3], ?_⟩
      intro y hy
      rcases List.mem_cons.mp hy with rfl | hin
      · by_cases hz : (q.newText.length : Int) = 0
        · by_cases hqs : q.start = st.inPos + (X - st.outPos)
          · have := hq3 hqs (hlen0 hz); omega
          · omega
        · omega
      · exact h4 y hin

theorem pyGet_mid (l1 : List Int) (v : Int) (l2 : List Int) (n : Nat) (hn : n = l1.length) :
    pyGet (l1 ++ [v] ++ l2) (n : Int) = .ok v := by
  unfold pyGet
  have h1 : ¬ ((n : Int) < 0) := by omega
  simp only [h1, if_false, Int.toNat_natCast]
  subst hn
  simp

/-- `get_input_pos` when the output offsets split into a part `≤ X` ending with an in-phase pair and
    a part `> X`. -/
theorem getInputPos_of_split (ib ob : List Int) (bi bo : Int) (ei eo : List Int) (txt : Str) (X : Int)
    (hl : ib.length = ob.length) (h1 : ∀ y ∈ ob ++ [bo], y ≤ X) (h2 : ∀ y ∈ eo, X < y) :
    getInputPos ⟨ib ++ [bi] ++ ei, ob ++ [bo] ++ eo, txt⟩ X = .ok (bi + (X - bo)) := by
  unfold getInputPos
  have hb : bisectRight (ob ++ [bo] ++ eo) X = ob.length + 1 := by
    rw [bisectRight_partition (ob ++ [bo]) eo X h1 h2]; simp
  have hidx : ((bisectRight (ob ++ [bo] ++ eo) X : Nat) : Int) - 1 = ((ob.length : Nat) : Int) := by
    rw [hb]; omega
  simp only [hidx]
  rw [pyGet_mid ob bo eo ob.length rfl, pyGet_mid ib bi ei ob.length hl.symm]

/-- **Position mapping inside a copied segment.**  `pre` = the (sorted) patches before the segment,
    `post` = those after it.  An input position `x` of the segment (from the end of the last patch
    of `pre` up to the start of the first patch of `post`, both inclusive) appears in the output at
    `x + shift pre`, and `get_input_pos` maps that output position back to `x` — unless `x` is the
    start of a remaining pure deletion (excluded by `hdel`). -/
theorem getInputPos_copied (t : Str) (pre post : List Patch) (x : Int) (txt : Str)
    (hse : ∀ p ∈ pre ++ post, p.start ≤ p.end_) (h0 : ∀ p ∈ pre, 0 ≤ p.start)
    (hord : Ordered (pre ++ post))
    (hlo : lastEnd 0 pre ≤ x) (hhi : ∀ q ∈ post, x ≤ q.start)
    (hdel : ∀ q ∈ post, q.start = x → q.newText = [] → q.end_ = q.start) :
    getInputPos ⟨(rLoop t RState.init (pre ++ post)).inOffs,
                 (rLoop t RState.init (pre ++ post)).outOffs, txt⟩ (x + shift pre) = .ok x := by
  rw [rLoop_append]
  have hordA := List.pairwise_append.mp hord
  have hinv : RInv (rLoop t RState.init pre) :=
    rLoop_inv t pre _ RInv_init (fun p hp => by simpa [RState.init] using h0 p hp)
      (fun p hp => hse p (by simp [hp])) hordA.1
  have hin : (rLoop t RState.init pre).inPos = lastEnd 0 pre := by
    rw [rLoop_inPos]; rfl
  have hsh := rLoop_shift t pre RState.init
  have i0 : RState.init.outPos = 0 := rfl
  have i1 : RState.init.inPos = 0 := rfl
  rw [hin, i0, i1] at hsh
  have hout : (rLoop t RState.init pre).outPos = lastEnd 0 pre + shift pre := by omega
  have hxin : (rLoop t RState.init pre).inPos + (x + shift pre - (rLoop t RState.init pre).outPos) = x := by
    rw [hin, hout]; omega
  obtain ⟨ei, eo, e1, e2, e3, e4⟩ := rLoop_ext t (x + shift pre) post (rLoop t RState.init pre)
    (fun q hq => hse q (by simp [hq])) hordA.2.1
    (by intro q hq; rw [hxin]; exact hhi q hq)
    (by intro q hq; rw [hxin]; exact hdel q hq)
  obtain ⟨⟨ib, ob, bi, bo, hi, ho, hl, hph⟩, hle⟩ := hinv
  rw [e1, e2, hi, ho]
  rw [getInputPos_of_split ib ob bi bo ei eo txt (x + shift pre) hl
    (by intro y hy; rw [← ho] at hy; have := hle y hy; omega) e4]
  congr 1
  omega

/-! ## The Replacer loop: text of a copied segment -/

theorem slice_slice (t : Str) (a b i j : Nat) (h : a + j ≤ b) :
    slice (slice t a b) i j = slice t ((a + i : Nat) : Int) ((a + j : Nat) : Int) := by
  rw [slice_nat, slice_nat, slice_nat]
  rw [List.take_drop, List.take_take, Nat.min_eq_left h, List.drop_drop]

structure RInv2 (t : Str) (st : RState) : Prop where
  len : (st.out.length : Int) = st.outPos
  nonneg : 0 ≤ st.inPos
  le : st.inPos ≤ t.length

theorem rStep_inv2 (t : Str) (st : RState) (p : Patch) (h : RInv2 t st)
    (h1 : st.inPos ≤ p.start) (h2 : p.start ≤ p.end_) (h3 : p.end_ ≤ t.length) :
    RInv2 t (rStep t st p) := by
  obtain ⟨hl, hn, hle⟩ := h
  obtain ⟨a, ha⟩ := Int.eq_ofNat_of_zero_le hn
  obtain ⟨s, hs⟩ := Int.eq_ofNat_of_zero_le (by omega : 0 ≤ p.start)
  refine ⟨?_, by rw [rStep_inPos]; omega, by rw [rStep_inPos]; exact h3⟩
  rw [rStep_out, rStep_outPos, ha, hs]
  simp only [List.length_append]
  rw [slice_length_nat t a s (by omega) (by omega)]
  omega

theorem rLoop_inv2 (t : Str) : ∀ (ps : List Patch) (st : RState), RInv2 t st →
    (∀ p ∈ ps, st.inPos ≤ p.start) → (∀ p ∈ ps, p.start ≤ p.end_ ∧ p.end_ ≤ t.length) → Ordered ps →
    RInv2 t (rLoop t st ps) := by
  intro ps
  induction ps with
  | nil => intro st h _ _ _; exact h
  | cons p rest ih =>
    intro st hinv hlo hse hord
    have hord' := List.pairwise_cons.mp hord
    simp only [rLoop]
    apply ih _ (rStep_inv2 t st p hinv (hlo p (by simp)) (hse p (by simp)).1 (hse p (by simp)).2)
    · intro q hq; rw [rStep_inPos]; exact hord'.1 q hq
    · intro q hq; exact hse q (by simp [hq])
    · exact hord'.2

theorem RInv2_init (t : Str) : RInv2 t RState.init :=
  ⟨rfl, by simp [RState.init], by simp [RState.init]⟩

theorem buildFrom_prefix (t : Str) (a b : Nat) (hab : a ≤ b) (post : List Patch)
    (h : ∀ q ∈ post, (b : Int) ≤ q.start) :
    ∃ R, buildFrom t a post = slice t a b ++ R := by
  cases post with
  | nil => exact ⟨sliceFrom t b, by simp only [buildFrom]; rw [slice_glue_from t a b hab]⟩
  | cons q rest =>
    have hq := h q (by simp)
    obtain ⟨s, hs⟩ := Int.eq_ofNat_of_zero_le (by omega : 0 ≤ q.start)
    refine ⟨slice t b s ++ q.newText ++ buildFrom t q.end_ rest, ?_⟩
    simp only [buildFrom, hs]
    rw [← slice_glue t a b s hab (by omega)]
    simp [List.append_assoc]

/-- **Text of a copied segment.**  With `pre`/`post` as in `getInputPos_copied`: for input positions
    `x ≤ y` of the segment, the produced text between `x + shift pre` and `y + shift pre` is
    `t[x:y]`. -/
theorem outText_copied (t : Str) (pre post : List Patch) (x y : Int)
    (hfit : ∀ p ∈ pre ++ post, 0 ≤ p.start ∧ p.start ≤ p.end_ ∧ p.end_ ≤ t.length)
    (hord : Ordered (pre ++ post))
    (hlo : lastEnd 0 pre ≤ x) (hxy : x ≤ y) (hhi : ∀ q ∈ post, y ≤ q.start) (hlen : y ≤ t.length) :
    slice ((rLoop t RState.init (pre ++ post)).out ++
           sliceFrom t (rLoop t RState.init (pre ++ post)).inPos) (x + shift pre) (y + shift pre)
      = slice t x y := by
  rw [rLoop_append, rLoop_out]
  have hordA := List.pairwise_append.mp hord
  have hinv : RInv2 t (rLoop t RState.init pre) :=
    rLoop_inv2 t pre _ (RInv2_init t) (fun p hp => by simpa [RState.init] using (hfit p (by simp [hp])).1)
      (fun p hp => (hfit p (by simp [hp])).2) hordA.1
  have hin : (rLoop t RState.init pre).inPos = lastEnd 0 pre := by
    rw [rLoop_inPos]; rfl
  have hsh := rLoop_shift t pre RState.init
  have i0 : RState.init.outPos = 0 := rfl
  have i1 : RState.init.inPos = 0 := rfl
  rw [hin, i0, i1] at hsh
  obtain ⟨hl, hn, _⟩ := hinv
  rw [hin] at hn
  obtain ⟨a, ha⟩ := Int.eq_ofNat_of_zero_le hn
  obtain ⟨x', hx'⟩ := Int.eq_ofNat_of_zero_le (by omega : 0 ≤ x)
  obtain ⟨y', hy'⟩ := Int.eq_ofNat_of_zero_le (by omega : 0 ≤ y)
  obtain ⟨R, hR⟩ := buildFrom_prefix t a y' (by omega) post (by intro q hq; have := hhi q hq; omega)
  rw [hin, ha, hR]
  generalize (rLoop t RState.init pre).out = A at *
  generalize (rLoop t RState.init pre).outPos = op at *
  have e1 : x + shift pre = ((A.length + (x' - a) : Nat) : Int) := by omega
  have e2 : y + shift pre = ((A.length + (y' - a) : Nat) : Int) := by omega
  rw [e1, e2, ← List.append_assoc]
  rw [slice_middle A (slice t a y') R (x' - a) (y' - a)
    (by rw [slice_length_nat t a y' (by omega) (by omega)]; omega)]
  rw [slice_slice t a y' (x' - a) (y' - a) (by omega)]
  have e3 : ((a + (x' - a) : Nat) : Int) = x := by omega
  have e4 : ((a + (y' - a) : Nat) : Int) = y := by omega
  rw [e3, e4]

/-! ## Replacer: construction and map-back step -/

theorem mem_sortPatches (ps : List Patch) (p : Patch) : p ∈ sortPatches ps ↔ p ∈ ps :=
  (List.mergeSort_perm ps Patch.le).mem_iff

theorem validPatch_iff (t : Str) (p : Patch) : validPatch t p = true ↔ slice t p.start p.end_ = p.oldText := by
  unfold validPatch; simp

/-- The tables of a Replacer whose sorted patches all validate. -/
def tablesOf (t : Str) (sorted : List Patch) : Tables :=
  ⟨(rLoop t RState.init sorted).inOffs, (rLoop t RState.init sorted).outOffs,
   (rLoop t RState.init sorted).out ++ sliceFrom t (rLoop t RState.init sorted).inPos⟩

theorem replacerBuild_ok (t : Str) (ps : List Patch)
    (h : ∀ p ∈ ps, slice t p.start p.end_ = p.oldText) :
    replacerBuild t ps = .ok (tablesOf t (sortPatches ps)) := by
  unfold replacerBuild
  have : (sortPatches ps).all (validPatch t) = true := by
    rw [List.all_eq_true]
    intro p hp
    exact (validPatch_iff t p).mpr (h p ((mem_sortPatches ps p).mp hp))
  simp only [this, if_true]
  rfl

theorem replacerBuild_error (t : Str) (ps : List Patch) (p : Patch) (hp : p ∈ ps)
    (h : slice t p.start p.end_ ≠ p.oldText) : replacerBuild t ps = .error .valueError := by
  unfold replacerBuild
  have : ¬ ((sortPatches ps).all (validPatch t) = true) := by
    rw [List.all_eq_true]
    intro hall
    exact h ((validPatch_iff t p).mp (hall p ((mem_sortPatches ps p).mpr hp)))
  simp [this]

theorem replacerBuild_inv (t : Str) (ps : List Patch) (tb : Tables) (h : replacerBuild t ps = .ok tb) :
    tb = tablesOf t (sortPatches ps) ∧ ∀ p ∈ ps, slice t p.start p.end_ = p.oldText := by
  unfold replacerBuild at h
  by_cases hall : (sortPatches ps).all (validPatch t) = true
  · simp only [hall, if_true] at h
    refine ⟨by cases h; rfl, ?_⟩
    intro p hp
    rw [List.all_eq_true] at hall
    exact (validPatch_iff t p).mp (hall p ((mem_sortPatches ps p).mpr hp))
  · simp [hall] at h

theorem tablesOf_text (t : Str) (sorted : List Patch)
    (hfit : ∀ p ∈ sorted, p.Fits t) (hord : Ordered sorted) :
    (tablesOf t sorted).outText = applyPatches t sorted := by
  unfold tablesOf
  simp only
  rw [rLoop_out]
  have := applyPatches_eq_buildFrom t sorted 0 hfit hord (fun p hp => by have := (hfit p hp).1; omega)
    (Nat.zero_le _)
  rw [this]
  simp [RState.init]

/-- The map-back step of a Replacer for a patch lying in a copied segment. -/
theorem replacerInPatch_copied (t : Str) (pre post : List Patch) (x y : Int) (p : Patch)
    (hfit : ∀ r ∈ pre ++ post, r.Fits t) (hord : Ordered (pre ++ post))
    (hlo : lastEnd 0 pre ≤ x) (hxy : x ≤ y) (hhi : ∀ q ∈ post, y ≤ q.start) (hlen : y ≤ t.length)
    (hdel : ∀ q ∈ post, q.start = y → q.newText = [] → q.end_ = q.start)
    (hs : p.start = x + shift pre) (he : p.end_ = y + shift pre)
    (hold : slice (tablesOf t (pre ++ post)).outText p.start p.end_ = p.oldText) :
    replacerInPatch t (tablesOf t (pre ++ post)) p = .ok ⟨x, y, p.oldText, p.newText⟩ ∧
    slice t x y = p.oldText := by
  have hfit' : ∀ r ∈ pre ++ post, 0 ≤ r.start ∧ r.start ≤ r.end_ ∧ r.end_ ≤ t.length :=
    fun r hr => ⟨(hfit r hr).1, (hfit r hr).2.1, (hfit r hr).2.2.1⟩
  have htxt := outText_copied t pre post x y hfit' hord hlo hxy hhi hlen
  have hse : ∀ r ∈ pre ++ post, r.start ≤ r.end_ := fun r hr => (hfit r hr).2.1
  have h0 : ∀ r ∈ pre, 0 ≤ r.start := fun r hr => (hfit r (by simp [hr])).1
  have hx := getInputPos_copied t pre post x (tablesOf t (pre ++ post)).outText hse h0 hord hlo
    (fun q hq => by have := hhi q hq; omega)
    (by intro q hq hqx hn; have := hhi q hq; exact hdel q hq (by omega) hn)
  have hy := getInputPos_copied t pre post y (tablesOf t (pre ++ post)).outText hse h0 hord (by omega) hhi hdel
  have hsl : slice t x y = p.oldText := by
    rw [← htxt, ← hs, ← he]; exact hold
  refine ⟨?_, hsl⟩
  unfold replacerInPatch
  have hv : validPatch (tablesOf t (pre ++ post)).outText p = true := (validPatch_iff _ _).mpr hold
  simp only [hv, Bool.not_true, Bool.false_eq_true, if_false]
  have e1 : getInputPos (tablesOf t (pre ++ post)) p.start = .ok x := by rw [hs]; exact hx
  have e2 : getInputPos (tablesOf t (pre ++ post)) p.end_ = .ok y := by rw [he]; exact hy
  rw [e1, e2]
  simp only [hsl]

theorem replacerInPatch_facts (t : Str) (tb : Tables) (p q : Patch)
    (h : replacerInPatch t tb p = .ok q) :
    slice t q.start q.end_ = q.oldText ∧ q.newText = p.newText ∧
    slice tb.outText p.start p.end_ = p.oldText := by
  unfold replacerInPatch at h
  by_cases hv : validPatch tb.outText p = true
  · simp only [hv, Bool.not_true, Bool.false_eq_true, if_false] at h
    split at h
    · cases h
    · split at h
      · cases h
      · cases h; exact ⟨rfl, rfl, (validPatch_iff _ _).mp hv⟩
  · simp [hv] at h

/-! ## Tables never make `get_input_pos` fail -/

theorem rLoop_offs_len (t : Str) : ∀ (ps : List Patch) (st : RState),
    st.inOffs.length = st.outOffs.length → 0 < st.outOffs.length →
    (rLoop t st ps).inOffs.length = (rLoop t st ps).outOffs.length ∧ 0 < (rLoop t st ps).outOffs.length := by
  intro ps
  induction ps with
  | nil => intro st h1 h2; exact ⟨h1, h2⟩
  | cons p rest ih =>
    intro st h1 h2
    simp only [rLoop]
    by_cases hc : (p.newText.length : Int) = p.end_ - p.start
    · obtain ⟨e1, e2⟩ := rStep_offs_same t st p hc
      exact ih _ (by rw [e1, e2]; exact h1) (by rw [e2]; exact h2)
    · obtain ⟨e1, e2⟩ := rStep_offs_changing t st p hc
      exact ih _ (by rw [e1, e2]; simp [h1]) (by rw [e2]; simp)

theorem pyGet_ok (l : List Int) (i : Int) (h1 : -1 ≤ i) (h2 : i < l.length) (h3 : 0 < l.length) :
    ∃ v, pyGet l i = .ok v := by
  unfold pyGet
  by_cases hi : i < 0
  · have : i = -1 := by omega
    subst this
    simp only [hi, if_true]
    have hj : ¬ ((-1 : Int) + l.length < 0) := by omega
    simp only [hj, if_false]
    have : ((-1 : Int) + l.length).toNat < l.length := by omega
    rw [List.getElem?_eq_getElem this]
    exact ⟨_, rfl⟩
  · simp only [hi, if_false]
    have : i.toNat < l.length := by omega
    rw [List.getElem?_eq_getElem this]
    exact ⟨_, rfl⟩

theorem getInputPos_ok (tb : Tables) (X : Int) (h1 : tb.inOffs.length = tb.outOffs.length)
    (h2 : 0 < tb.outOffs.length) : ∃ v, getInputPos tb X = .ok v := by
  unfold getInputPos
  have hb := bisectRight_le tb.outOffs X
  obtain ⟨o, ho⟩ := pyGet_ok tb.outOffs ((bisectRight tb.outOffs X : Int) - 1) (by omega) (by omega) h2
  obtain ⟨i, hi⟩ := pyGet_ok tb.inOffs ((bisectRight tb.outOffs X : Int) - 1) (by omega) (by omega) (by omega)
  simp only [ho, hi]
  exact ⟨_, rfl⟩

theorem replacerInPatch_errors (t : Str) (sorted : List Patch) (p : Patch) (e : Err)
    (h : replacerInPatch t (tablesOf t sorted) p = .error e) : e = .valueError := by
  have hl := rLoop_offs_len t sorted RState.init rfl (by simp [RState.init])
  obtain ⟨v1, hv1⟩ := getInputPos_ok (tablesOf t sorted) p.start hl.1 hl.2
  obtain ⟨v2, hv2⟩ := getInputPos_ok (tablesOf t sorted) p.end_ hl.1 hl.2
  unfold replacerInPatch at h
  rw [hv1, hv2] at h
  split at h
  · cases h; rfl
  · cases h

/-! ## Combiner -/

theorem joinStrs_append (a b : List Str) : joinStrs (a ++ b) = joinStrs a ++ joinStrs b := by
  simp [joinStrs]

theorem joinStrs_cons (a : Str) (b : List Str) : joinStrs (a :: b) = a ++ joinStrs b := by
  simp [joinStrs]

theorem combOffsets_append : ∀ (a b : List Str) (o : Int),
    combOffsets o (a ++ b) = combOffsets o a ++ combOffsets (o + (joinStrs a).length) b := by
  intro a
  induction a with
  | nil => intro b o; simp [combOffsets, joinStrs]
  | cons x xs ih =>
    intro b o
    simp only [List.cons_append, combOffsets, ih, joinStrs_cons, List.length_append]
    have : o + (x.length : Int) + ((joinStrs xs).length : Int) = o + ((x.length + (joinStrs xs).length : Nat) : Int) := by
      omega
    rw [this]

theorem combOffsets_length : ∀ (l : List Str) (o : Int), (combOffsets o l).length = l.length := by
  intro l
  induction l with
  | nil => intro o; rfl
  | cons x xs ih => intro o; simp [combOffsets, ih]

theorem combOffsets_bounds : ∀ (l : List Str) (o : Int), ∀ y ∈ combOffsets o l,
    o ≤ y ∧ y ≤ o + (joinStrs l).length := by
  intro l
  induction l with
  | nil => intro o y hy; simp [combOffsets] at hy
  | cons x xs ih =>
    intro o y hy
    simp only [combOffsets, List.mem_cons] at hy
    rw [joinStrs_cons, List.length_append]
    rcases hy with rfl | hin
    · omega
    · have := ih _ y hin; omega

theorem combOffsets_sorted : ∀ (l : List Str) (o : Int), (combOffsets o l).Pairwise (· ≤ ·) := by
  intro l
  induction l with
  | nil => intro o; simp [combOffsets]
  | cons x xs ih =>
    intro o
    simp only [combOffsets, List.pairwise_cons]
    refine ⟨?_, ih _⟩
    intro y hy
    have := (combOffsets_bounds xs _ y hy).1; omega

/-- Offsets of `tpre ++ [part] ++ tpost`. -/
theorem combOffsets_split (tpre : List Str) (part : Str) (tpost : List Str) :
    combOffsets 0 (tpre ++ [part] ++ tpost) =
      combOffsets 0 tpre ++ [((joinStrs tpre).length : Int)] ++
        combOffsets ((joinStrs tpre).length + part.length) tpost := by
  rw [combOffsets_append, combOffsets_append]
  simp [combOffsets, joinStrs]

/-- **Combiner, patch inside one part.**  A non-empty patch inside `part`, or an empty one strictly
    inside it, is accepted and shifted by the part's offset. -/
theorem combLocate_inside (tpre : List Str) (part : Str) (tpost : List Str) (p : Patch)
    (h1 : ((joinStrs tpre).length : Int) ≤ p.start)
    (h2 : p.end_ ≤ (joinStrs tpre).length + part.length)
    (h3 : ((joinStrs tpre).length : Int) < p.end_)
    (h4 : p.start < (joinStrs tpre).length + part.length)
    (hold : slice (joinStrs (tpre ++ [part] ++ tpost)) p.start p.end_ = p.oldText) :
    combLocate (tpre ++ [part] ++ tpost) p =
      .ok (tpre.length, ⟨p.start - (joinStrs tpre).length, p.end_ - (joinStrs tpre).length,
                         p.oldText, p.newText⟩) := by
  unfold combLocate
  have hv : validPatch (joinStrs (tpre ++ [part] ++ tpost)) p = true := (validPatch_iff _ _).mpr hold
  simp only [hv, Bool.not_true, Bool.false_eq_true, if_false]
  rw [combOffsets_split]
  have hA : ∀ (X : Int), ((joinStrs tpre).length : Int) ≤ X → X < (joinStrs tpre).length + part.length →
      bisectRight (combOffsets 0 tpre ++ [((joinStrs tpre).length : Int)] ++
        combOffsets ((joinStrs tpre).length + part.length) tpost) X = tpre.length + 1 := by
    intro X hx1 hx2
    rw [bisectRight_partition _ _ X]
    · simp [combOffsets_length]
    · intro y hy
      rcases List.mem_append.mp hy with h | h
      · have := (combOffsets_bounds tpre 0 y h).2; omega
      · simp at h; omega
    · intro y hy
      have := (combOffsets_bounds tpost _ y hy).1; omega
  rw [hA p.start h1 h4, hA (p.end_ - 1) (by omega) (by omega)]
  have hc : ¬ (tpre.length + 1 = 0 ∨ tpre.length + 1 = 0 ∨ tpre.length + 1 ≠ tpre.length + 1) := by omega
  simp only [hc, if_false]
  have hidx : ((tpre.length + 1 : Nat) : Int) - 1 = ((tpre.length : Nat) : Int) := by omega
  rw [hidx, pyGet_mid _ _ _ tpre.length (combOffsets_length tpre 0).symm]
  simp

/-- The shifted patch fits the part. -/
theorem slice_inside_part (J part K : Str) (p : Patch)
    (h1 : (J.length : Int) ≤ p.start) (h2 : p.end_ ≤ J.length + part.length) (h3 : (J.length : Int) ≤ p.end_) :
    slice part (p.start - J.length) (p.end_ - J.length) = slice (J ++ part ++ K) p.start p.end_ := by
  obtain ⟨s, hs⟩ := Int.eq_ofNat_of_zero_le (by omega : 0 ≤ p.start - J.length)
  obtain ⟨e, he⟩ := Int.eq_ofNat_of_zero_le (by omega : 0 ≤ p.end_ - J.length)
  have e1 : p.start = ((J.length + s : Nat) : Int) := by omega
  have e2 : p.end_ = ((J.length + e : Nat) : Int) := by omega
  rw [hs, he, e1, e2, slice_middle J part K s e (by omega)]

/-- **Combiner, soundness of an accepted patch** (any integers): the index is that of a part, the
    patch is shifted by that part's offset, and it fits the part's text. -/
theorem combLocate_sound (texts : List Str) (p : Patch) (i : Nat) (q : Patch)
    (h : combLocate texts p = .ok (i, q)) :
    ∃ tpre part tpost, texts = tpre ++ [part] ++ tpost ∧ i = tpre.length ∧
      q = ⟨p.start - (joinStrs tpre).length, p.end_ - (joinStrs tpre).length, p.oldText, p.newText⟩ ∧
      slice part q.start q.end_ = q.oldText ∧
      slice (joinStrs texts) p.start p.end_ = p.oldText := by
  unfold combLocate at h
  have hv : validPatch (joinStrs texts) p = true := by
    cases hv : validPatch (joinStrs texts) p with
    | true => rfl
    | false => simp [hv] at h
  simp only [hv, Bool.not_true, Bool.false_eq_true, if_false] at h
  have hold := (validPatch_iff _ _).mp hv
  generalize hk : bisectRight (combOffsets 0 texts) p.start = k at h
  generalize hk2 : bisectRight (combOffsets 0 texts) (p.end_ - 1) = k2 at h
  by_cases hc : k = 0 ∨ k2 = 0 ∨ k ≠ k2
  · simp [hc] at h
  simp only [hc, if_false] at h
  have hk0 : 0 < k := by omega
  have hkk : k = k2 := by omega
  subst hkk
  have hsorted := combOffsets_sorted texts 0
  obtain ⟨pre1, post1, hsplit1, hl1, hle1, hgt1⟩ := bisectRight_spec _ hsorted p.start
  obtain ⟨pre2, post2, hsplit2, hl2, hle2, hgt2⟩ := bisectRight_spec _ hsorted (p.end_ - 1)
  rw [hk] at hl1
  rw [hk2] at hl2
  have hsame := List.append_inj (hsplit1.symm.trans hsplit2) (by omega)
  obtain ⟨rfl, rfl⟩ := hsame
  -- split the texts at index k-1
  have hklen : k ≤ texts.length := by
    have := bisectRight_le (combOffsets 0 texts) p.start
    rw [hk, combOffsets_length] at this; exact this
  have hlt : k - 1 < texts.length := by omega
  have htx : texts = texts.take (k - 1) ++ [texts[k - 1]] ++ texts.drop k := by
    have h1 : texts.drop (k - 1) = texts[k - 1] :: texts.drop k := by
      rw [List.drop_eq_getElem_cons hlt]
      congr 2; omega
    calc texts = texts.take (k - 1) ++ texts.drop (k - 1) := (List.take_append_drop _ _).symm
      _ = texts.take (k - 1) ++ [texts[k - 1]] ++ texts.drop k := by rw [h1, List.append_assoc]; rfl
  generalize htp : texts.take (k - 1) = tpre at htx
  generalize hpt : texts[k - 1] = part at htx
  generalize hto : texts.drop k = tpost at htx
  have htl : tpre.length = k - 1 := by rw [← htp]; simp; omega
  have hoff := combOffsets_split tpre part tpost
  rw [← htx] at hoff
  rw [hoff] at hsplit1
  have hsame2 := List.append_inj hsplit1
    (by simp [combOffsets_length]; omega)
  obtain ⟨hpre, hpost⟩ := hsame2
  have hoffle1 : ((joinStrs tpre).length : Int) ≤ p.start := hle1 _ (by rw [← hpre]; simp)
  have hoffle2 : ((joinStrs tpre).length : Int) ≤ p.end_ - 1 := hle2 _ (by rw [← hpre]; simp)
  have hidx : ((k : Nat) : Int) - 1 = ((tpre.length : Nat) : Int) := by omega
  rw [hoff, hidx, pyGet_mid _ _ _ tpre.length (combOffsets_length tpre 0).symm] at h
  simp only [Except.ok.injEq, Prod.mk.injEq] at h
  obtain ⟨hi, hq⟩ := h
  refine ⟨tpre, part, tpost, htx, by omega, hq.symm, ?_, hold⟩
  rw [← hq]
  simp only
  rw [← hold, htx, joinStrs_append, joinStrs_append]
  have hjp : joinStrs [part] = part := by simp [joinStrs]
  rw [hjp]
  cases tpost with
  | nil =>
    -- last part: the end may lie beyond the text
    have hnil : joinStrs ([] : List Str) = [] := rfl
    rw [hnil, List.append_nil]
    obtain ⟨s, hs⟩ := Int.eq_ofNat_of_zero_le (by omega : 0 ≤ p.start - (joinStrs tpre).length)
    obtain ⟨e, he⟩ := Int.eq_ofNat_of_zero_le (by omega : 0 ≤ p.end_ - (joinStrs tpre).length)
    have e1 : p.start = (((joinStrs tpre).length + s : Nat) : Int) := by omega
    have e2 : p.end_ = (((joinStrs tpre).length + e : Nat) : Int) := by omega
    rw [hs, he, e1, e2, slice_right]
  | cons z zs =>
    have hz : ((joinStrs tpre).length : Int) + part.length ∈ post1 := by
      rw [← hpost]; simp [combOffsets]
    have g1 := hgt1 _ hz
    have g2 := hgt2 _ hz
    exact slice_inside_part (joinStrs tpre) part (joinStrs (z :: zs)) p hoffle1 (by omega) (by omega)

/-- **Combiner, patch spanning two parts is refused**: a part starts strictly inside the patch. -/
theorem combLocate_spanning (tpre tpost : List Str) (p : Patch) (hne : tpost ≠ [])
    (h1 : p.start < (joinStrs tpre).length) (h2 : ((joinStrs tpre).length : Int) ≤ p.end_ - 1) :
    combLocate (tpre ++ tpost) p = .error .valueError := by
  unfold combLocate
  cases hv : validPatch (joinStrs (tpre ++ tpost)) p with
  | false => simp
  | true =>
  simp only [Bool.not_true, Bool.false_eq_true, if_false]
  have hsorted := combOffsets_sorted (tpre ++ tpost) 0
  obtain ⟨pre1, post1, hsplit1, hl1, hle1, hgt1⟩ := bisectRight_spec _ hsorted p.start
  obtain ⟨pre2, post2, hsplit2, hl2, hle2, hgt2⟩ := bisectRight_spec _ hsorted (p.end_ - 1)
  have hmem : ((joinStrs tpre).length : Int) ∈ combOffsets 0 (tpre ++ tpost) := by
    rw [combOffsets_append]
    cases tpost with
    | nil => exact absurd rfl hne
    | cons z zs => simp [combOffsets]
  have hc : bisectRight (combOffsets 0 (tpre ++ tpost)) p.start = 0 ∨
      bisectRight (combOffsets 0 (tpre ++ tpost)) (p.end_ - 1) = 0 ∨
      bisectRight (combOffsets 0 (tpre ++ tpost)) p.start ≠
        bisectRight (combOffsets 0 (tpre ++ tpost)) (p.end_ - 1) := by
    by_cases heq : bisectRight (combOffsets 0 (tpre ++ tpost)) p.start =
        bisectRight (combOffsets 0 (tpre ++ tpost)) (p.end_ - 1)
    · exfalso
      have hsame := List.append_inj (hsplit1.symm.trans hsplit2) (by omega)
      obtain ⟨rfl, rfl⟩ := hsame
      rw [hsplit1] at hmem
      rcases List.mem_append.mp hmem with h | h
      · have := hle1 _ h; omega
      · have := hgt2 _ h; omega
    · exact Or.inr (Or.inr heq)
  simp only [hc, if_true]

theorem combLocate_errors (texts : List Str) (p : Patch) (e : Err)
    (h : combLocate texts p = .error e) : e = .valueError := by
  unfold combLocate at h
  cases hv : validPatch (joinStrs texts) p with
  | false => simp [hv] at h; exact h.symm
  | true =>
    simp only [hv, Bool.not_true, Bool.false_eq_true, if_false] at h
    by_cases hc : bisectRight (combOffsets 0 texts) p.start = 0 ∨
        bisectRight (combOffsets 0 texts) (p.end_ - 1) = 0 ∨
        bisectRight (combOffsets 0 texts) p.start ≠ bisectRight (combOffsets 0 texts) (p.end_ - 1)
    · simp only [hc, if_true] at h; cases h; rfl
    · simp only [hc, if_false] at h
      have hb := bisectRight_le (combOffsets 0 texts) p.start
      obtain ⟨v, hv⟩ := pyGet_ok (combOffsets 0 texts)
        ((bisectRight (combOffsets 0 texts) p.start : Int) - 1) (by omega) (by omega) (by omega)
      rw [hv] at h
      cases h

/-! ## Builder trees -/

theorem getText_replacer_ok (inner : Builder) (ps : List Patch) (T : Str)
    (h : getText (.replacer inner ps) = .ok T) :
    ∃ t tb, getText inner = .ok t ∧ replacerBuild t ps = .ok tb ∧ T = tb.outText := by
  cases inner with
  | raw s b => simp [getText] at h
  | text s v =>
    simp only [getText] at h
    split at h
    · cases h
    · rename_i tb hb; cases h; exact ⟨s, tb, rfl, hb, rfl⟩
  | replacer i2 p2 =>
    rw [getText] at h
    case x_2 => intro s b hh; cases hh
    split at h
    · cases h
    · rename_i t ht
      split at h
      · cases h
      · rename_i tb hb; cases h; exact ⟨t, tb, ht, hb, rfl⟩
  | combiner parts =>
    rw [getText] at h
    case x_2 => intro s b hh; cases hh
    split at h
    · cases h
    · rename_i t ht
      split at h
      · cases h
      · rename_i tb hb; cases h; exact ⟨t, tb, ht, hb, rfl⟩

theorem getText_combiner_ok (parts : List Builder) (T : Str) (h : getText (.combiner parts) = .ok T) :
    ∃ ts, getTexts parts = .ok ts ∧ T = joinStrs ts := by
  rw [getText] at h
  split at h
  · cases h
  · rename_i ts hts; cases h; exact ⟨ts, hts, rfl⟩

theorem getTexts_cons_ok (b : Builder) (bs : List Builder) (ts : List Str)
    (h : getTexts (b :: bs) = .ok ts) :
    ∃ t ts', getText b = .ok t ∧ getTexts bs = .ok ts' ∧ ts = t :: ts' := by
  rw [getTexts] at h
  split at h
  · cases h
  · rename_i t ht
    split at h
    · cases h
    · rename_i ts' hts; cases h; exact ⟨t, ts', ht, hts, rfl⟩

theorem getTexts_append_ok : ∀ (a b : List Builder) (ts : List Str), getTexts (a ++ b) = .ok ts →
    ∃ ta tb, getTexts a = .ok ta ∧ getTexts b = .ok tb ∧ ts = ta ++ tb ∧ ta.length = a.length := by
  intro a
  induction a with
  | nil => intro b ts h; exact ⟨[], ts, by simp [getTexts], h, rfl, rfl⟩
  | cons x xs ih =>
    intro b ts h
    obtain ⟨t, ts', ht, hts, rfl⟩ := getTexts_cons_ok x (xs ++ b) ts h
    obtain ⟨ta, tb, h1, h2, rfl, h4⟩ := ih b ts' hts
    refine ⟨t :: ta, tb, ?_, h2, rfl, by simp [h4]⟩
    rw [getTexts, ht, h1]

theorem mapBackNth_append (bpre : List Builder) (b : Builder) (bpost : List Builder) (q : Patch) :
    mapBackNth (bpre ++ b :: bpost) bpre.length q = mapBack b q := by
  induction bpre with
  | nil => simp [mapBackNth]
  | cons x xs ih => simp only [List.cons_append, List.length_cons, mapBackNth]; exact ih

theorem mapBack_replacer_eq (inner : Builder) (ps : List Patch) (p : Patch) (t : Str) (tb : Tables)
    (q : Patch) (h1 : getText inner = .ok t) (h2 : replacerBuild t ps = .ok tb)
    (h3 : replacerInPatch t tb p = .ok q) :
    mapBack (.replacer inner ps) p = mapBack inner q := by
  rw [mapBack]; simp only [h1, h2, h3]

theorem mapBack_combiner_eq (parts : List Builder) (p : Patch) (ts : List Str) (i : Nat) (q : Patch)
    (h1 : getTexts parts = .ok ts) (h2 : combLocate ts p = .ok (i, q)) :
    mapBack (.combiner parts) p = mapBackNth parts i q := by
  rw [mapBack]; simp only [h1, h2]

/-- **Specification of "the corresponding source characters"** (no offset tables, no bisect):
    `Traces b p s v q` — the patch `p` of the text produced by `b` lies, at every Replacer on the
    way down, inside a segment copied from the input, and at every Combiner inside one part; `q` is
    the same patch in the coordinates of the leaf `Text(s, v)` it comes from. -/
inductive Traces : Builder → Patch → Str → Nat → Patch → Prop
  | text (s : Str) (v : Nat) (p : Patch) : Traces (.text s v) p s v p
  | replacer (inner : Builder) (ps : List Patch) (t : Str) (pre post : List Patch) (x y : Int)
      (p : Patch) (s : Str) (v : Nat) (q : Patch) :
      getText inner = .ok t → (∀ r ∈ ps, r.Fits t) → sortPatches ps = pre ++ post →
      Ordered (pre ++ post) →
      lastEnd 0 pre ≤ x → x ≤ y → (∀ r ∈ post, y ≤ r.start) → y ≤ t.length →
      (∀ r ∈ post, r.start = y → r.newText = [] → r.end_ = r.start) →
      p.start = x + shift pre → p.end_ = y + shift pre →
      Traces inner ⟨x, y, p.oldText, p.newText⟩ s v q →
      Traces (.replacer inner ps) p s v q
  | combiner (bpre : List Builder) (b : Builder) (bpost : List Builder) (tpre : List Str) (tb : Str)
      (p : Patch) (s : Str) (v : Nat) (q : Patch) :
      getTexts bpre = .ok tpre → getText b = .ok tb →
      ((joinStrs tpre).length : Int) ≤ p.start → p.end_ ≤ (joinStrs tpre).length + tb.length →
      ((joinStrs tpre).length : Int) < p.end_ → p.start < (joinStrs tpre).length + tb.length →
      Traces b ⟨p.start - (joinStrs tpre).length, p.end_ - (joinStrs tpre).length, p.oldText, p.newText⟩ s v q →
      Traces (.combiner (bpre ++ b :: bpost)) p s v q

theorem mapBack_traces {b : Builder} {p : Patch} {s : Str} {v : Nat} {q : Patch}
    (h : Traces b p s v q) : ∀ (T : Str), getText b = .ok T → slice T p.start p.end_ = p.oldText →
    mapBack b p = .ok (some (s, v, q)) ∧ q.oldText = p.oldText ∧ q.newText = p.newText ∧
    q.end_ - q.start = p.end_ - p.start ∧ slice s q.start q.end_ = p.oldText := by
  induction h with
  | text s v p =>
    intro T hT hold
    simp only [getText, Except.ok.injEq] at hT
    subst hT
    refine ⟨?_, rfl, rfl, rfl, hold⟩
    rw [mapBack]; simp [hold]
  | replacer inner ps t pre post x y p s v q ht hfit hsort hord hlo hxy hhi hlen hdel hs he _ ih =>
    intro T hT hold
    obtain ⟨t', tb, ht', hb, rfl⟩ := getText_replacer_ok inner ps T hT
    rw [ht] at ht'; cases ht'
    have hb' := replacerBuild_ok t ps (fun r hr => (hfit r hr).2.2.2)
    rw [hb] at hb'; cases hb'
    rw [hsort] at hold
    have hfit' : ∀ r ∈ pre ++ post, r.Fits t := by
      intro r hr; rw [← hsort] at hr; exact hfit r ((mem_sortPatches ps r).mp hr)
    obtain ⟨hin, hsl⟩ := replacerInPatch_copied t pre post x y p hfit' hord hlo hxy hhi hlen hdel hs he hold
    rw [← hsort] at hin
    obtain ⟨g1, g2, g3, g4, g5⟩ := ih t ht hsl
    rw [mapBack_replacer_eq inner ps p t _ _ ht hb hin]
    exact ⟨g1, g2, g3, by simp only at g4; omega, g5⟩
  | combiner bpre b bpost tpre tb p s v q hpre hb h1 h2 h3 h4 _ ih =>
    intro T hT hold
    obtain ⟨ts, hts, rfl⟩ := getText_combiner_ok _ T hT
    obtain ⟨ta, tr, ha, hr, rfl, _⟩ := getTexts_append_ok bpre (b :: bpost) ts hts
    rw [hpre] at ha; cases ha
    obtain ⟨tb', tpost, hb', hpost, rfl⟩ := getTexts_cons_ok b bpost tr hr
    rw [hb] at hb'; cases hb'
    have hlenpre : tpre.length = bpre.length := by
      obtain ⟨ta2, _, ha2, _, _, hl2⟩ := getTexts_append_ok bpre [] tpre (by simpa using hpre)
      have : ta2 = tpre := by rw [hpre] at ha2; cases ha2; rfl
      rw [← this]; exact hl2
    have hassoc : tpre ++ tb :: tpost = tpre ++ [tb] ++ tpost := by simp
    rw [hassoc] at hold hts
    have hloc := combLocate_inside tpre tb tpost p h1 h2 h3 h4 hold
    have hfits : slice tb (p.start - (joinStrs tpre).length) (p.end_ - (joinStrs tpre).length) = p.oldText := by
      rw [slice_inside_part (joinStrs tpre) tb (joinStrs tpost) p h1 h2 (by omega)]
      rw [← hold, joinStrs_append, joinStrs_append]
      simp [joinStrs]
    obtain ⟨g1, g2, g3, g4, g5⟩ := ih tb hb hfits
    rw [mapBack_combiner_eq _ p _ _ _ hts hloc, hlenpre, mapBackNth_append]
    exact ⟨g1, g2, g3, by simp only at g4; omega, g5⟩

theorem combLocate_newText (ts : List Str) (p : Patch) (i : Nat) (q : Patch)
    (h : combLocate ts p = .ok (i, q)) : q.newText = p.newText := by
  obtain ⟨_, _, _, _, _, hq, _, _⟩ := combLocate_sound ts p i q h
  rw [hq]

mutual
/-- Whatever `map_back_patch` returns is a leaf of the tree, with `old_text` equal to the leaf's
    slice at the returned range and `new_text` unchanged — for EVERY patch. -/
theorem mapBack_sound : ∀ (b : Builder) (p : Patch) (s : Str) (v : Nat) (q : Patch),
    mapBack b p = .ok (some (s, v, q)) →
    Leaf b s v ∧ slice s q.start q.end_ = q.oldText ∧ q.newText = p.newText
  | .text s0 v0, p, s, v, q, h => by
    rw [mapBack] at h
    split at h
    · rename_i hc
      simp only [Except.ok.injEq, Option.some.injEq, Prod.mk.injEq] at h
      obtain ⟨rfl, rfl, rfl⟩ := h
      exact ⟨Leaf.text _ _, by simpa using hc, rfl⟩
    · cases h
  | .raw s0 bts, p, s, v, q, h => by
    rw [mapBack] at h
    split at h <;> cases h
  | .replacer inner ps, p, s, v, q, h => by
    rw [mapBack] at h
    split at h
    · cases h
    · rename_i t ht
      split at h
      · cases h
      · rename_i tb hb
        split at h
        · cases h
        · rename_i q' hq'
          obtain ⟨g1, g2, g3⟩ := mapBack_sound inner q' s v q h
          exact ⟨Leaf.replacer g1, g2, by rw [g3, (replacerInPatch_facts t tb p q' hq').2.1]⟩
  | .combiner parts, p, s, v, q, h => by
    rw [mapBack] at h
    split at h
    · cases h
    · rename_i ts hts
      split at h
      · cases h
      · rename_i i q' hq'
        obtain ⟨b, hb, g1, g2, g3⟩ := mapBackNth_sound parts i q' s v q h
        exact ⟨Leaf.combiner hb g1, g2, by rw [g3, combLocate_newText ts p i q' hq']⟩

theorem mapBackNth_sound : ∀ (bs : List Builder) (i : Nat) (p : Patch) (s : Str) (v : Nat) (q : Patch),
    mapBackNth bs i p = .ok (some (s, v, q)) →
    ∃ b ∈ bs, Leaf b s v ∧ slice s q.start q.end_ = q.oldText ∧ q.newText = p.newText
  | [], i, p, s, v, q, h => by rw [mapBackNth] at h; cases h
  | b :: bs, 0, p, s, v, q, h => by
    rw [mapBackNth] at h
    exact ⟨b, by simp, mapBack_sound b p s v q h⟩
  | b :: bs, i + 1, p, s, v, q, h => by
    rw [mapBackNth] at h
    obtain ⟨b', hb', g⟩ := mapBackNth_sound bs i p s v q h
    exact ⟨b', by simp [hb'], g⟩
end

/-- The result is neither an AssertionError (Text's assert) nor an IndexError. -/
def Safe (r : Except Err MapBack) : Prop := r ≠ .error .assertionError ∧ r ≠ .error .indexError

mutual
/-- On a constructed tree, a patch that fits the produced text never trips `Text.map_back_patch`'s
    assert and never indexes outside an offset table — whatever integers it carries. -/
theorem mapBack_safe : ∀ (b : Builder) (p : Patch) (T : Str), getText b = .ok T →
    slice T p.start p.end_ = p.oldText → Safe (mapBack b p)
  | .text s0 v0, p, T, hT, hold => by
    simp only [getText, Except.ok.injEq] at hT
    subst hT
    rw [mapBack]
    simp [hold, Safe]
  | .raw s0 bts, p, T, hT, hold => by
    rw [mapBack]
    cases bts <;> simp [Safe]
  | .replacer inner ps, p, T, hT, hold => by
    obtain ⟨t, tb, ht, hb, rfl⟩ := getText_replacer_ok inner ps T hT
    obtain ⟨htb, _⟩ := replacerBuild_inv t ps tb hb
    rw [mapBack]
    simp only [ht, hb]
    cases hq : replacerInPatch t tb p with
    | error e =>
      rw [htb] at hq
      have := replacerInPatch_errors t _ p e hq
      subst this
      simp [Safe]
    | ok q =>
      simp only
      exact mapBack_safe inner q t ht (replacerInPatch_facts t tb p q hq).1
  | .combiner parts, p, T, hT, hold => by
    obtain ⟨ts, hts, rfl⟩ := getText_combiner_ok parts T hT
    rw [mapBack]
    simp only [hts]
    cases hq : combLocate ts p with
    | error e =>
      have := combLocate_errors ts p e hq
      subst this
      simp [Safe]
    | ok iq =>
      obtain ⟨i, q⟩ := iq
      simp only
      obtain ⟨tpre, part, tpost, hsplit, hi, _, hfit, _⟩ := combLocate_sound ts p i q hq
      exact mapBackNth_safe parts i q ts hts part (by rw [hsplit, hi]; simp) hfit

theorem mapBackNth_safe : ∀ (bs : List Builder) (i : Nat) (q : Patch) (ts : List Str),
    getTexts bs = .ok ts → ∀ (part : Str), ts[i]? = some part →
    slice part q.start q.end_ = q.oldText → Safe (mapBackNth bs i q)
  | [], i, q, ts, hts, part, hpart, hfit => by
    simp only [getTexts, Except.ok.injEq] at hts
    subst hts
    simp at hpart
  | b :: bs, 0, q, ts, hts, part, hpart, hfit => by
    obtain ⟨t, ts', ht, _, rfl⟩ := getTexts_cons_ok b bs ts hts
    simp only [List.getElem?_cons_zero, Option.some.injEq] at hpart
    subst hpart
    rw [mapBackNth]
    exact mapBack_safe b q t ht hfit
  | b :: bs, i + 1, q, ts, hts, part, hpart, hfit => by
    obtain ⟨t, ts', _, hts', rfl⟩ := getTexts_cons_ok b bs ts hts
    simp only [List.getElem?_cons_succ] at hpart
    rw [mapBackNth]
    exact mapBackNth_safe bs i q ts' hts' part hpart hfit
end

/-! ## `sorted(patches)` of a set of pairwise non-overlapping patches is ascending -/

theorem Patch.le_iff (p q : Patch) : Patch.le p q = true ↔
    p.start < q.start ∨ (p.start = q.start ∧ (p.end_ < q.end_ ∨ (p.end_ = q.end_ ∧
      ((p.oldText ≠ q.oldText ∧ p.oldText ≤ q.oldText) ∨ (p.oldText = q.oldText ∧ p.newText ≤ q.newText))))) := by
  unfold Patch.le strLe
  by_cases h1 : p.start = q.start
  · by_cases h2 : p.end_ = q.end_
    · by_cases h3 : p.oldText = q.oldText
      · simp [h1, h2, h3]
      · simp [h1, h2, h3]
    · simp [h1, h2]
  · simp [h1]

theorem Patch.le_trans' (a b c : Patch) (h1 : Patch.le a b = true) (h2 : Patch.le b c = true) :
    Patch.le a c = true := by
  rw [Patch.le_iff] at h1 h2 ⊢
  rcases h1 with h1 | ⟨e1, h1⟩
  · rcases h2 with h2 | ⟨e2, _⟩
    · left; omega
    · left; omega
  · rcases h2 with h2 | ⟨e2, h2⟩
    · left; omega
    · right
      refine ⟨by omega, ?_⟩
      rcases h1 with h1 | ⟨f1, h1⟩
      · rcases h2 with h2 | ⟨f2, _⟩
        · left; omega
        · left; omega
      · rcases h2 with h2 | ⟨f2, h2⟩
        · left; omega
        · right
          refine ⟨by omega, ?_⟩
          rcases h1 with ⟨n1, l1⟩ | ⟨g1, l1⟩
          · rcases h2 with ⟨n2, l2⟩ | ⟨g2, l2⟩
            · left
              refine ⟨?_, List.le_trans l1 l2⟩
              intro heq
              rw [heq] at l1
              exact n2 (List.le_antisymm l2 l1)
            · left; rw [← g2]; exact ⟨n1, l1⟩
          · rcases h2 with ⟨n2, l2⟩ | ⟨g2, l2⟩
            · left; rw [g1]; exact ⟨n2, l2⟩
            · right; exact ⟨g1.trans g2, List.le_trans l1 l2⟩

theorem Patch.le_total' (a b : Patch) : (Patch.le a b || Patch.le b a) = true := by
  rw [Bool.or_eq_true, Patch.le_iff, Patch.le_iff]
  by_cases h1 : a.start < b.start
  · left; left; exact h1
  by_cases h1' : b.start < a.start
  · right; left; exact h1'
  have e1 : a.start = b.start := by omega
  by_cases h2 : a.end_ < b.end_
  · left; right; exact ⟨e1, Or.inl h2⟩
  by_cases h2' : b.end_ < a.end_
  · right; right; exact ⟨e1.symm, Or.inl h2'⟩
  have e2 : a.end_ = b.end_ := by omega
  by_cases h3 : a.oldText = b.oldText
  · rcases List.le_total a.newText b.newText with h | h
    · left; right; exact ⟨e1, Or.inr ⟨e2, Or.inr ⟨h3, h⟩⟩⟩
    · right; right; exact ⟨e1.symm, Or.inr ⟨e2.symm, Or.inr ⟨h3.symm, h⟩⟩⟩
  · rcases List.le_total a.oldText b.oldText with h | h
    · left; right; exact ⟨e1, Or.inr ⟨e2, Or.inl ⟨h3, h⟩⟩⟩
    · right; right; exact ⟨e1.symm, Or.inr ⟨e2.symm, Or.inl ⟨fun x => h3 x.symm, h⟩⟩⟩

/-- Python's `sorted` puts a set of well-formed, pairwise non-overlapping patches in ascending,
    non-overlapping order. -/
theorem ordered_sortPatches (ps : List Patch) (hse : ∀ p ∈ ps, p.start ≤ p.end_)
    (hdis : ps.Pairwise (fun p q => p.end_ ≤ q.start ∨ q.end_ ≤ p.start)) :
    Ordered (sortPatches ps) := by
  unfold Ordered sortPatches
  have hle : (ps.mergeSort Patch.le).Pairwise (fun p q => Patch.le p q = true) :=
    List.pairwise_mergeSort Patch.le_trans' Patch.le_total' ps
  have hperm := List.mergeSort_perm ps Patch.le
  have hdis' : (ps.mergeSort Patch.le).Pairwise (fun p q => p.end_ ≤ q.start ∨ q.end_ ≤ p.start) :=
    (hperm.pairwise_iff (fun {x y} h => by rcases h with h | h; exact Or.inr h; exact Or.inl h)).mpr hdis
  have hboth := hle.and hdis'
  refine hboth.imp_of_mem ?_
  intro p q hp hq ⟨h1, h2⟩
  have hp' := hse p (hperm.mem_iff.mp hp)
  have hq' := hse q (hperm.mem_iff.mp hq)
  rw [Patch.le_iff] at h1
  rcases h2 with h2 | h2
  · exact h2
  · rcases h1 with h1 | ⟨e1, h1⟩
    · omega
    · rcases h1 with h1 | ⟨f1, _⟩ <;> omega

/-! ## `Replacer.map_back_offset` through a chain of Replacers -/

/-- `OffTraces b X x`: `b` is a chain of Replacers; at each of them the position lies in a copied
    segment (not at the start of a remaining pure deletion); `X` is the position in `b`'s text, `x`
    the corresponding position in the text of the chain's input (the first non-Replacer). -/
inductive OffTraces : Builder → Int → Int → Prop
  | last (inner : Builder) (ps : List Patch) (t : Str) (pre post : List Patch) (x : Int) :
      (∀ i p, inner ≠ .replacer i p) →
      getText inner = .ok t → (∀ r ∈ ps, r.Fits t) → sortPatches ps = pre ++ post →
      Ordered (pre ++ post) → lastEnd 0 pre ≤ x → (∀ r ∈ post, x ≤ r.start) →
      (∀ r ∈ post, r.start = x → r.newText = [] → r.end_ = r.start) →
      OffTraces (.replacer inner ps) (x + shift pre) x
  | step (i2 : Builder) (p2 ps : List Patch) (t : Str) (pre post : List Patch) (x1 x : Int) :
      getText (.replacer i2 p2) = .ok t → (∀ r ∈ ps, r.Fits t) → sortPatches ps = pre ++ post →
      Ordered (pre ++ post) → lastEnd 0 pre ≤ x1 → (∀ r ∈ post, x1 ≤ r.start) →
      (∀ r ∈ post, r.start = x1 → r.newText = [] → r.end_ = r.start) →
      OffTraces (.replacer i2 p2) x1 x →
      OffTraces (.replacer (.replacer i2 p2) ps) (x1 + shift pre) x

theorem getInputPos_tablesOf (t : Str) (ps pre post : List Patch) (x : Int)
    (hfit : ∀ r ∈ ps, r.Fits t) (hsort : sortPatches ps = pre ++ post) (hord : Ordered (pre ++ post))
    (hlo : lastEnd 0 pre ≤ x) (hhi : ∀ r ∈ post, x ≤ r.start)
    (hdel : ∀ r ∈ post, r.start = x → r.newText = [] → r.end_ = r.start) :
    getInputPos (tablesOf t (sortPatches ps)) (x + shift pre) = .ok x := by
  rw [hsort]
  have hfit' : ∀ r ∈ pre ++ post, r.Fits t := by
    intro r hr; rw [← hsort] at hr; exact hfit r ((mem_sortPatches ps r).mp hr)
  exact getInputPos_copied t pre post x _ (fun p hp => (hfit' p hp).2.1)
    (fun p hp => (hfit' p (by simp [hp])).1) hord hlo hhi hdel

theorem mapBackOffset_traces {b : Builder} {X x : Int} (h : OffTraces b X x) :
    mapBackOffset b X = .ok x := by
  induction h with
  | last inner ps t pre post x hnr ht hfit hsort hord hlo hhi hdel =>
    have hb := replacerBuild_ok t ps (fun r hr => (hfit r hr).2.2.2)
    have hpos := getInputPos_tablesOf t ps pre post x hfit hsort hord hlo hhi hdel
    rw [mapBackOffset]
    simp only [ht, hb, hpos]
  | step i2 p2 ps t pre post x1 x ht hfit hsort hord hlo hhi hdel _ ih =>
    have hb := replacerBuild_ok t ps (fun r hr => (hfit r hr).2.2.2)
    have hpos := getInputPos_tablesOf t ps pre post x1 hfit hsort hord hlo hhi hdel
    rw [mapBackOffset]
    simp only [ht, hb, hpos]
    exact ih

/-! ## Small facts used by the property statements -/

theorem sortPatches_of_sorted (l : List Patch) (h : l.Pairwise (fun p q => Patch.le p q = true)) :
    sortPatches l = l := List.mergeSort_of_pairwise h

theorem shift_append : ∀ (a b : List Patch), shift (a ++ b) = shift a + shift b := by
  intro a
  induction a with
  | nil => intro b; simp [shift]
  | cons p ps ih => intro b; simp only [List.cons_append, shift, ih]; omega

theorem lastEnd_append_singleton : ∀ (a : List Patch) (d : Patch) (z : Int),
    lastEnd z (a ++ [d]) = d.end_ := by
  intro a
  induction a with
  | nil => intro d z; rfl
  | cons p ps ih => intro d z; simp only [List.cons_append, lastEnd]; exact ih d _

end Grist.Textbuilder
