/-
Helper lemmas about the recursions of GristModel/CsvPost.lean (used by GristProps/C32.lean).
-/
import GristModel.CsvPost
namespace Grist.CsvPost

/-! ### `_count_nonempty` -/

theorem countGo_spec : ∀ (r : Row) (i count : Nat), count ≤ i →
    count ≤ countGo i count r ∧ countGo i count r ≤ i + r.length ∧
    ∀ j t, r[j]? = some t → blank t = false → i + j + 1 ≤ countGo i count r := by
  intro r
  induction r with
  | nil => intro i count h; simp [countGo]; omega
  | cons c rest ih =>
    intro i count h
    simp only [countGo]
    have hc : (if (!blank c) = true then i + 1 else count) ≤ i + 1 := by split <;> omega
    have hge : count ≤ (if (!blank c) = true then i + 1 else count) := by split <;> omega
    obtain ⟨h1, h2, h3⟩ := ih (i + 1) _ hc
    refine ⟨Nat.le_trans hge h1, by simp only [List.length_cons]; omega, ?_⟩
    intro j t hj ht
    cases j with
    | zero =>
      simp at hj
      have hbc : blank c = false := by rw [hj]; exact ht
      simp only [hbc, Bool.not_false, if_true] at h1 ⊢
      omega
    | succ j =>
      simp at hj
      have := h3 j t hj ht
      omega

theorem countGo_all_blank : ∀ (r : Row) (i count : Nat), (∀ c ∈ r, blank c = true) →
    countGo i count r = count := by
  intro r
  induction r with
  | nil => intro i count _; rfl
  | cons c rest ih =>
    intro i count h
    have hc : blank c = true := h c (by simp)
    simp only [countGo, hc]
    exact ih _ _ (fun x hx => h x (by simp [hx]))

/-- a non-blank cell at index `c` lies below `_count_nonempty(row)` -/
theorem lt_countNonempty {r : Row} {c : Nat} {t : Cell} (h : r[c]? = some t) (ht : blank t = false) :
    c < countNonempty r := by
  have := (countGo_spec r 0 0 (Nat.le_refl _)).2.2 c t h ht
  unfold countNonempty; omega

theorem countNonempty_le_length (r : Row) : countNonempty r ≤ r.length := by
  have := (countGo_spec r 0 0 (Nat.le_refl _)).2.1
  unfold countNonempty; omega

theorem exists_nonblank_of_countNonempty_pos {r : Row} (h : 0 < countNonempty r) :
    ∃ x ∈ r, blank x = false := by
  apply Classical.byContradiction
  intro hne
  have hall : ∀ c ∈ r, blank c = true := by
    intro c hc
    cases hb : blank c with
    | true => rfl
    | false => exact absurd ⟨c, hc, hb⟩ hne
  have := countGo_all_blank r 0 0 hall
  unfold countNonempty at h; omega

/-! ### `strip` -/

theorem exists_dropWhile {α} (p : α → Bool) : ∀ (l : List α), (∃ x ∈ l, p x = false) →
    ∃ x ∈ l.dropWhile p, p x = false := by
  intro l
  induction l with
  | nil => intro h; simp at h
  | cons a l ih =>
    intro ⟨x, hx, hp⟩
    simp only [List.dropWhile_cons]
    cases hpa : p a with
    | true =>
      simp only [if_true]
      apply ih
      rcases List.mem_cons.mp hx with rfl | hx'
      · rw [hp] at hpa; cases hpa
      · exact ⟨x, hx', hp⟩
    | false => exact ⟨x, by simpa using hx, hp⟩

theorem strip_ne_nil {h : Cell} (hb : blank h = false) : strip h ≠ [] := by
  have h0 : ∃ x ∈ h, isSpace x = false := by
    simp only [blank, List.all_eq_false] at hb
    obtain ⟨x, hx, hp⟩ := hb
    exact ⟨x, hx, by simpa using hp⟩
  obtain ⟨x, hx, hp⟩ := exists_dropWhile isSpace h h0
  have h1 : ∃ y ∈ (h.dropWhile isSpace).reverse, isSpace y = false := ⟨x, by simpa using hx, hp⟩
  obtain ⟨y, hy, _⟩ := exists_dropWhile isSpace _ h1
  intro hs
  unfold strip at hs
  have : ((h.dropWhile isSpace).reverse.dropWhile isSpace) = [] := by simpa using hs
  rw [this] at hy
  cases hy

theorem blank_nil_ne {t : Cell} (ht : blank t = false) : t ≠ [] := by
  intro h; subst h; simp [blank] at ht

/-! ### `max(...)` over a chain -/

theorem foldl_max_ge_init : ∀ (l : List Nat) (init : Nat), init ≤ l.foldl max init := by
  intro l
  induction l with
  | nil => intro init; simp
  | cons a l ih => intro init; simp only [List.foldl_cons]; exact Nat.le_trans (Nat.le_max_left _ _) (ih _)

theorem foldl_max_ge_mem : ∀ (l : List Nat) (init x : Nat), x ∈ l → x ≤ l.foldl max init := by
  intro l
  induction l with
  | nil => intro init x h; cases h
  | cons a l ih =>
    intro init x h
    simp only [List.foldl_cons]
    rcases List.mem_cons.mp h with rfl | h'
    · exact Nat.le_trans (Nat.le_max_right _ _) (foldl_max_ge_init _ _)
    · exact ih _ _ h'

theorem foldl_max_le : ∀ (l : List Nat) (init w : Nat), init ≤ w → (∀ x ∈ l, x ≤ w) →
    l.foldl max init ≤ w := by
  intro l
  induction l with
  | nil => intro init w h _; simpa using h
  | cons a l ih =>
    intro init w h hl
    simp only [List.foldl_cons]
    apply ih
    · exact Nat.max_le.mpr ⟨h, hl a (by simp)⟩
    · intro x hx; exact hl x (by simp [hx])

/-! ### `expand_headers` -/

theorem expandHeaders_length (hs : Row) (off : Nat) (S : List Row) :
    (expandHeaders hs off S).length = ((S.drop off).map countNonempty).foldl max hs.length := by
  have := foldl_max_ge_init ((S.drop off).map countNonempty) hs.length
  simp only [expandHeaders, List.length_append, List.length_map, List.length_replicate]
  omega

theorem expandHeaders_getElem? (hs : Row) (off : Nat) (S : List Row) (c : Nat) (h : Cell)
    (hc : hs[c]? = some h) :
    (expandHeaders hs off S)[c]? = some (if h != [] then strip h else []) := by
  have hlt : c < hs.length := by
    rcases List.getElem?_eq_some_iff.mp hc with ⟨hl, _⟩; exact hl
  simp only [expandHeaders]
  rw [List.getElem?_append_left (by simpa using hlt)]
  simp [hc]

theorem replicate_nil_any (n : Nat) :
    (List.replicate n ([] : Cell)).any (fun h => h != []) = false := by
  induction n with
  | zero => rfl
  | succ n ih => simp [List.replicate_succ, ih]

/-! ### position in a filtered list -/

theorem getElem?_filter_countP {α} (p : α → Bool) : ∀ (l : List α) (c : Nat) (x : α),
    l[c]? = some x → p x = true → (l.filter p)[(l.take c).countP p]? = some x := by
  intro l
  induction l with
  | nil => intro c x h; simp at h
  | cons a l ih =>
    intro c x h hp
    cases c with
    | zero =>
      simp at h; subst h
      simp [hp]
    | succ c =>
      simp at h
      have := ih c x h hp
      cases hpa : p a with
      | true => simp [hpa, this]
      | false => simp [hpa, this]

/-! ### what `plan` computes when the first row is not skipped -/

theorem find_first_of_le {r0 : Row} {S' : List Row}
    (h : columnCountModal (r0 :: S') ≤ countNonempty r0 + 1) :
    findFirstNonEmptyRow (r0 :: S') = (1, r0) := by
  simp [findFirstNonEmptyRow, findGo, h]

theorem headersGuess_of_find (isNum : Cell → Bool) {r0 : Row} {S' : List Row}
    (hf : findFirstNonEmptyRow (r0 :: S') = (1, r0)) :
    headersGuess isNum (r0 :: S') =
      if r0.isEmpty then (1, r0)
      else if isHeader isNum r0 S' then (1, expandHeaders r0 1 (r0 :: S'))
      else (0, expandHeaders [] 0 (r0 :: S')) := by
  unfold headersGuess
  rw [hf]
  by_cases he : r0.isEmpty = true
  · simp [he]
  · by_cases hh : isHeader isNum r0 S' = true
    · simp [he, hh]
    · simp [he, hh]

theorem expandHeaders_nil_any (off : Nat) (S : List Row) :
    (expandHeaders [] off S).any (fun h => h != []) = false := by
  simp only [expandHeaders, List.map_nil, List.nil_append]
  exact replicate_nil_any _

/-- headers on: the first row is the header row, whatever `_is_header` says -/
theorem plan_incl (isNum : Cell → Bool) {r0 : Row} {S' : List Row}
    (hf : findFirstNonEmptyRow (r0 :: S') = (1, r0)) (rows : List Row)
    (hS : rows.take sampleLen = r0 :: S') :
    plan isNum true rows = (1, expandHeaders r0 1 (r0 :: S')) := by
  unfold plan
  simp only [hS, headersGuess_of_find isNum hf, hf]
  by_cases he : r0.isEmpty = true
  · have : r0 = [] := by simpa using he
    subst this
    simp
  · by_cases hh : isHeader isNum r0 S' = true
    · simp only [he, hh, if_true, Bool.false_eq_true, if_false, Bool.true_and, Bool.not_true,
        Bool.false_and]
      split <;> rfl
    · simp [he, hh, expandHeaders_nil_any]

/-- headers off and a first row with a non-empty cell: nothing is skipped, all headers are '' -/
theorem plan_noincl (isNum : Cell → Bool) {r0 : Row} {S' : List Row}
    (hf : findFirstNonEmptyRow (r0 :: S') = (1, r0)) (hpos : 0 < countNonempty r0)
    (rows : List Row) (hS : rows.take sampleLen = r0 :: S') :
    ∃ W, plan isNum false rows = (0, List.replicate W []) ∧
      ∀ ρ ∈ r0 :: S', countNonempty ρ ≤ W := by
  obtain ⟨x, hx, hxb⟩ := exists_nonblank_of_countNonempty_pos hpos
  have he : r0.isEmpty = false := by
    cases r0 with
    | nil => cases hx
    | cons _ _ => rfl
  unfold plan
  simp only [hS, headersGuess_of_find isNum hf]
  by_cases hh : isHeader isNum r0 S' = true
  · -- guessed headers are moved back to the data
    have hg : (expandHeaders r0 1 (r0 :: S')).any (fun h => h != []) = true := by
      rw [List.any_eq_true]
      obtain ⟨i, hi⟩ := List.getElem?_of_mem hx
      refine ⟨if x != [] then strip x else [], ?_, ?_⟩
      · exact List.mem_of_getElem? (expandHeaders_getElem? r0 1 (r0 :: S') i x hi)
      · have hxne : x ≠ [] := blank_nil_ne hxb
        simp [hxne, strip_ne_nil hxb]
    refine ⟨(expandHeaders r0 1 (r0 :: S')).length, ?_, ?_⟩
    · simp [he, hh, hg]
    · intro ρ hρ
      rw [expandHeaders_length]
      rcases List.mem_cons.mp hρ with rfl | hρ'
      · exact Nat.le_trans (countNonempty_le_length _) (foldl_max_ge_init _ _)
      · apply foldl_max_ge_mem
        simp only [List.drop_succ_cons, List.drop_zero, List.mem_map]
        exact ⟨ρ, hρ', rfl⟩
  · refine ⟨(expandHeaders [] 0 (r0 :: S')).length, ?_, ?_⟩
    · have hrep : expandHeaders [] 0 (r0 :: S') =
          List.replicate (expandHeaders [] 0 (r0 :: S')).length [] := by
        simp [expandHeaders]
      simp only [he, hh, Bool.false_eq_true, if_false, expandHeaders_nil_any, Bool.false_and,
        Bool.not_false, Bool.and_false]
      exact Prod.ext rfl hrep
    · intro ρ hρ
      rw [expandHeaders_length]
      apply foldl_max_ge_mem
      simp only [List.drop_zero, List.mem_map]
      exact ⟨ρ, hρ, rfl⟩

/-! ### columns -/

theorem allColumns_getElem? (isNum : Cell → Bool) (incl : Bool) (rows : List Row) (c : Nat)
    (h : Cell) (hc : (plan isNum incl rows).2[c]? = some h) :
    (allColumns isNum incl rows)[c]? =
      some ⟨h, (rows.drop (plan isNum incl rows).1).map
        (fun r => (tableRow (plan isNum incl rows).2.length r).getD c [])⟩ := by
  obtain ⟨hlt, heq⟩ := List.getElem?_eq_some_iff.mp hc
  simp [allColumns, getTableData, hlt, heq]

theorem mem_allColumns (isNum : Cell → Bool) (incl : Bool) (rows : List Row) (col : Col)
    (hm : col ∈ allColumns isNum incl rows) :
    col.data.length = (rows.drop (plan isNum incl rows).1).length := by
  obtain ⟨i, hi⟩ := List.getElem?_of_mem hm
  simp only [allColumns, getTableData, List.getElem?_zipWith] at hi
  split at hi
  · rename_i a b ha hb
    simp only [Option.some.injEq] at hi
    subst hi
    simp only [List.getElem?_map] at ha
    cases hr : (List.range (plan isNum incl rows).2.length)[i]? with
    | none => simp [hr] at ha
    | some k => simp [hr] at ha; subst ha; simp
  · cases hi

theorem tableRow_getElem? {n c : Nat} {ρ : Row} {t : Cell} (hc : ρ[c]? = some t) (hn : c < n) :
    (tableRow n ρ)[c]? = some t := by
  have hlt : c < ρ.length := (List.getElem?_eq_some_iff.mp hc).1
  simp [tableRow, padRow, hn, List.getElem?_append_left hlt, hc]

end Grist.CsvPost
