/-
C08 pairs, part 5: AddColumn + AddRecord of the column record.
-/
import GristProofs.SchemaMetaPairs4
namespace Grist.Doc

/-- the schema-bearing values of the column record added for column `c` of the table with record
    `tr0` (the engine adds more fields: label, widgetOptions, parentPos ... which are neutral) -/
def colRecVals (tr0 : Nat) (c : String) (info : ColInfo) : List (String × List Val) :=
  [("parentId", [.int (Int.ofNat tr0)]), ("colId", [.str c]), ("type", [.str info.type]),
   ("isFormula", [.bool info.isFormula]), ("formula", [.str info.formula])]

theorem of_nodup_keys {β : Type} {l : List (String × β)} (hnd : (l.map Prod.fst).Nodup)
    {cv : String × β} {f : String} {w : β} (h1 : cv ∈ l) (h2 : (f, w) ∈ l) (hk : cv.1 = f) :
    cv.2 = w := by
  induction l with
  | nil => simp at h1
  | cons p rest ih =>
    simp only [List.map_cons, List.nodup_cons] at hnd
    rcases List.mem_cons.1 h1 with rfl | h1' <;> rcases List.mem_cons.1 h2 with h2' | h2'
    · rw [← h2']
    · exact absurd (List.mem_map.2 ⟨(f, w), h2', hk.symm⟩) hnd.1
    · rw [← h2'] at hnd
      exact absurd (List.mem_map.2 ⟨cv, h1', hk⟩) hnd.1
    · exact ih hnd.2 h1' h2'

abbrev addColT (tb : Table) (c : String) (info : ColInfo) : Table :=
  { tb with cols := tb.cols ++ [newCol c info] }

theorem colRecVals_nodup (tr0 : Nat) (c : String) (info : ColInfo) :
    ((colRecVals tr0 c info).map Prod.fst).Nodup := by
  simp [colRecVals]

theorem pair_addColumn_core {d d' : Doc} {u : List DocAction} {T c : String} {info : ColInfo}
    {tr0 r : Nat}
    (hwf : WF d) (hc : SchemaConsistent d) (hu : MetaUnique d) (hT : isMetaId T = false)
    (htr : TableRec d tr0 T) (hrev : info.reverseColId = none) (hr0 : 0 < r)
    (hnr : NoReverseRefTo d r)
    (hint : ∀ mc col, findTable? d "_grist_Tables_column" = some mc →
      mc.findCol? "parentId" = some col → ∀ k, colSet col.info.type (.int k) = .int k)
    (h : runActs d [.addColumn T c info,
      .bulkAdd "_grist_Tables_column" [r] (colRecVals tr0 c info)] = .ok (d', u)) :
    SchemaConsistent d' ∧ MetaUnique d' := by
  obtain ⟨mt, mc, hmt, hmc, htu, hcu⟩ := hu
  obtain ⟨mt', hmt', htr0, htid⟩ := htr
  rw [hmt] at hmt'; cases hmt'
  obtain ⟨D1, U1, U2, hp1, hp2⟩ := runActs_two h
  obtain ⟨tb, hfT, hnoc, rfl, _⟩ := hp1
  obtain ⟨mcx, mc2, hfx, hnotin, hw, rfl, _⟩ := hp2
  have hne := ne_MC_of_user hT
  have hidT := (findTable?_some hfT).1
  have hidC := (findTable?_some hmc).1
  rw [findTable?_replaceTable_ne (by exact hidT) (Ne.symm hne), hmc] at hfx
  cases hfx
  have hwmc := hwf.table hmc
  rw [filter_ne_zero_of_pos (by intro x hx; simp only [List.mem_singleton] at hx; subst hx; exact hr0),
    writeCols_ok_iff (tb := { mc with rows := insertRows [r] mc.rows }) hwmc.1] at hw
  obtain ⟨hkeys, rfl⟩ := hw
  have hrnot : r ∉ mc.rows := hnotin r (List.mem_singleton.2 rfl)
  obtain ⟨h2T, h2C, h2o⟩ := find_after_T_MC (tb1 := addColT tb c info)
    (mc' := Table.written { mc with rows := insertRows [r] mc.rows } [r] (colRecVals tr0 c info))
    hfT hmc hne hidT hidC
  have hnr' := hnr mc hmc
  have hmem : ∀ x, x ∈ (Table.written { mc with rows := insertRows [r] mc.rows } [r]
      (colRecVals tr0 c info)).rows ↔ x = r ∨ x ∈ mc.rows := by
    intro x
    show x ∈ insertRows [r] mc.rows ↔ _
    rw [mem_insertRows]; simp
  have hrows : ∀ x, x ≠ r → (x ∈ (Table.written { mc with rows := insertRows [r] mc.rows } [r]
      (colRecVals tr0 c info)).rows ↔ x ∈ mc.rows) := by
    intro x hx; rw [hmem]; simp [hx]
  have hcells : ∀ f x, x ≠ r → x ∈ mc.rows →
      (Table.written { mc with rows := insertRows [r] mc.rows } [r]
        (colRecVals tr0 c info)).cell f x = mc.cell f x :=
    fun f x hx _ => cell_written_other _ _ f (by simpa using hx)
  have hr' : r ∈ (Table.written { mc with rows := insertRows [r] mc.rows } [r]
      (colRecVals tr0 c info)).rows := (hmem r).2 (.inl rfl)
  -- the cells of the new record
  have hkey : ∀ f v, (f, [v]) ∈ colRecVals tr0 c info →
      ∃ col, mc.findCol? f = some col ∧
        (Table.written { mc with rows := insertRows [r] mc.rows } [r]
          (colRecVals tr0 c info)).cell f r = colSet col.info.type v := by
    intro f v hfv
    obtain ⟨col, hcol⟩ := hasCol_eq_true.1 (hkeys (f, [v]) hfv)
    refine ⟨col, hcol, cell_written_key hcol ?_ ⟨_, hfv, rfl⟩⟩
    intro cv hcv hk
    exact of_nodup_keys (colRecVals_nodup tr0 c info) hcv hfv hk
  obtain ⟨pcol, hpcol, hcp⟩ := hkey "parentId" (.int (Int.ofNat tr0)) (by simp [colRecVals])
  obtain ⟨_, _, hcc⟩ := hkey "colId" (.str c) (by simp [colRecVals])
  obtain ⟨_, _, hct⟩ := hkey "type" (.str info.type) (by simp [colRecVals])
  obtain ⟨_, _, hci⟩ := hkey "isFormula" (.bool info.isFormula) (by simp [colRecVals])
  obtain ⟨_, _, hcf⟩ := hkey "formula" (.str info.formula) (by simp [colRecVals])
  rw [hint mc pcol hmc hpcol] at hcp
  rw [colSet_str] at hcc hct hcf
  rw [colSet_bool] at hci
  have hcr : valNat ((Table.written { mc with rows := insertRows [r] mc.rows } [r]
      (colRecVals tr0 c info)).cell "reverseCol" r) = 0 := by
    rw [cell_written_nokey _ _ (by
      intro cv hcv
      simp only [colRecVals, List.mem_cons, List.not_mem_nil, or_false] at hcv
      rcases hcv with rfl | rfl | rfl | rfl | rfl <;> simp)]
    show valNat (mc.cell "reverseCol" r) = 0
    unfold Table.cell
    cases e : mc.findCol? "reverseCol" with
    | none => rfl
    | some rc =>
      simp only
      rw [hwmc.2.2.2 rc (findCol?_some e).2 r hrnot]
      exact valNat_typeDefault _
  have h0 : ¬ (0 ∈ (Table.written { mc with rows := insertRows [r] mc.rows } [r]
      (colRecVals tr0 c info)).rows) := by
    rw [hmem]
    rintro (h | h)
    · omega
    · exact absurd (hwmc.2.2.1 0 h) (by omega)
  have hci' : colRecInfo (Table.written { mc with rows := insertRows [r] mc.rows } [r]
      (colRecVals tr0 c info)) r = (c, info) := by
    apply Prod.ext
    · show valStr _ = c
      rw [hcc]; rfl
    · apply ColInfo.ext'
      · show valStr _ = _
        rw [hct]; rfl
      · show valBool _ = _
        rw [hci]; rfl
      · show valStr _ = _
        rw [hcf]; rfl
      · rw [hrev]
        simp only [colRecInfo, hcr, List.contains_iff_mem, h0, ↓reduceIte]
  have hnone := hasCol_eq_false.1 hnoc
  refine pair_core hc hmt hmc htu hcu hT hfT h2T h2C h2o htr0 htid
    (P_of_cells hrows hcells hnr') (fun h => absurd h hrnot) (fun _ => ?_) ?_ ?_
  · show valNat _ = tr0
    rw [hcp]
    simp [valNat]
  · intro k i
    rw [hci']
    simp only [addColT, Table.infoOf?, findCol?_append_single, hr', true_and, hrnot,
      false_imp_iff, and_true, Prod.mk.injEq]
    have hnone' : List.find? (fun x => x.id == c) tb.cols = none := hnone
    by_cases hk : k = c
    · subst hk
      simp [hnone', hnone, newCol]
    · have hk' : ¬ c = k := fun h => hk h.symm
      simp [hk', newCol]
      rfl
  · intro _
    left
    rw [hci']
    simp [Table.infoOf?, hnone]

end Grist.Doc
