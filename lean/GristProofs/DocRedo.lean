/-
Helpers for C03 (redo after undo) and C04 (rollback list bookkeeping).
-/
import GristProofs.DocUndoList
namespace Grist.Doc

theorem runActs_applyAll {as : List DocAction} {d d' : Doc} {u : List DocAction}
    (h : runActs d as = .ok (d', u)) : applyAll d as = .ok d' := by
  induction as generalizing d u with
  | nil =>
    simp only [runActs, Except.ok.injEq, Prod.mk.injEq] at h
    obtain ⟨rfl, rfl⟩ := h; rfl
  | cons a rest ih =>
    obtain ⟨r, u', hr, hrest, rfl⟩ := runActs_cons_ok h
    simp only [applyAll, hr]
    exact ih hrest

theorem redo_after_undo_full {as : List DocAction} {d d' : Doc} {u : List DocAction} (hwf : WF d)
    (hn : Normal d) (hargs : ∀ a ∈ as, a.argsOK) (hex : undoExactRun d as)
    (h : runActs d as = .ok (d', u)) :
    ∃ d'' d''', applyAll d' u.reverse = .ok d'' ∧ Same d'' d ∧ WF d'' ∧ Normal d'' ∧
      applyAll d'' as = .ok d''' ∧ Same d''' d' := by
  obtain ⟨hwf', hn', hu, d'', hd'', hs⟩ := runActs_undo_full hwf hn hargs hex h
  have hw'' := applyAll_WF hwf' hn' (fun b hb => hu b (List.mem_reverse.1 hb)) hd''
  obtain ⟨y, hy, hsy⟩ := applyAll_congr hwf hw''.1 hs.symm hargs (runActs_applyAll h)
  exact ⟨d'', y, hd'', hs, hw''.1, hw''.2, hy, hsy.symm⟩

/-- `stepDoc` only appends to the three lists -/
theorem foldlM_stepDoc_lists {l : List DocAction} {st st2 : EState}
    (h : l.foldlM (fun s a => stepDoc s a true) st = .ok st2) :
    ∃ x y z, st2.stored = st.stored ++ x ∧ st2.direct = st.direct ++ y ∧ st2.undo = st.undo ++ z := by
  induction l generalizing st with
  | nil =>
    simp only [List.foldlM_nil, pure, Except.pure, Except.ok.injEq] at h
    subst h
    exact ⟨[], [], [], by simp, by simp, by simp⟩
  | cons a rest ih =>
    simp only [List.foldlM_cons, bind, Except.bind] at h
    cases h1 : stepDoc st a true with
    | error e => simp [h1] at h
    | ok st1 =>
      simp only [h1] at h
      obtain ⟨r, _, _, hu, hs, hdir⟩ := stepDoc_ok h1
      obtain ⟨x, y, z, hx, hy, hz⟩ := ih h
      exact ⟨[a] ++ x, [true] ++ y, r.undo ++ z, by rw [hx, hs, List.append_assoc],
        by rw [hy, hdir, List.append_assoc], by rw [hz, hu, List.append_assoc]⟩

theorem rollback_lists_exact_full {st st'' : EState} {ls lu : Nat}
    (h : rollback st ls lu = .ok st'') (h1 : ls ≤ st.stored.length) (h2 : ls ≤ st.direct.length)
    (h3 : lu ≤ st.undo.length) :
    st''.stored = st.stored.take ls ∧ st''.direct = st.direct.take ls ∧
      st''.undo = st.undo.take lu := by
  simp only [rollback] at h
  cases hf : ((st.undo.drop lu).reverse).foldlM (fun s a => stepDoc s a true) st with
  | error e => simp [hf] at h
  | ok st2 =>
    simp only [hf, Except.ok.injEq] at h
    subst h
    obtain ⟨x, y, z, hx, hy, hz⟩ := foldlM_stepDoc_lists hf
    refine ⟨?_, ?_, ?_⟩
    · show st2.stored.take ls = _
      rw [hx, List.take_append_of_le_length h1]
    · show st2.direct.take ls = _
      rw [hy, List.take_append_of_le_length h2]
    · show st2.undo.take lu = _
      rw [hz, List.take_append_of_le_length h3]

end Grist.Doc
