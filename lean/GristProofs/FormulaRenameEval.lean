/-
Proof development for C16, part 2: the evaluator.  Renaming the document and the formula together
leaves every intermediate result unchanged (up to the new table name carried by records), given
the schema-directed typing `HasTy` and a fresh new name.
-/
import GristModel.FormulaRename
namespace Grist.FormulaRename

/-! ## Finding tables and columns after the rename -/

theorem findTable_some {d : Doc} {t : Name} {tb : Table} (h : findTable d t = some tb) :
    tb ∈ d ∧ tb.name = t := by
  unfold findTable at h
  refine ⟨List.mem_of_find?_eq_some h, ?_⟩
  have := List.find?_some h
  simpa using this

theorem findCol_some {tb : Table} {c : Name} {col : Col} (h : findCol tb c = some col) :
    col ∈ tb.cols ∧ col.name = c := by
  unfold findCol at h
  refine ⟨List.mem_of_find?_eq_some h, ?_⟩
  have := List.find?_some h
  simpa using this

theorem fresh_tail {ρ : Ren} {x : Table} {xs : Doc} (h : Fresh ρ (x :: xs)) : Fresh ρ xs := by
  cases ρ with
  | col T o n => intro tb htb; exact h tb (List.mem_cons_of_mem _ htb)
  | tab o n => intro tb htb; exact h tb (List.mem_cons_of_mem _ htb)

theorem tabOf_eq_iff {ρ : Ren} {d : Doc} (hf : Fresh ρ d) {a b : Name}
    (ha : ∃ tb ∈ d, tb.name = a) (hb : ∃ tb ∈ d, tb.name = b) :
    ρ.tabOf a = ρ.tabOf b ↔ a = b := by
  cases ρ with
  | col T o n => exact Iff.rfl
  | tab o n =>
    obtain ⟨ta, hta, rfl⟩ := ha
    obtain ⟨tb, htb, rfl⟩ := hb
    have h1 : ta.name ≠ n := hf ta hta
    have h2 : tb.name ≠ n := hf tb htb
    simp only [Ren.tabOf]
    constructor
    · intro h
      by_cases e1 : ta.name = o <;> by_cases e2 : tb.name = o <;> simp only [e1, e2, if_true, if_false] at h
      · rw [e1, e2]
      · exact absurd h.symm h2
      · exact absurd h h1
      · exact h
    · intro h; rw [h]

theorem findTable_rename (ρ : Ren) : ∀ (d : Doc), Fresh ρ d → ∀ (t : Name) (tb : Table),
    findTable d t = some tb → findTable (renameDoc ρ d) (ρ.tabOf t) = some (renTable ρ tb) := by
  intro d
  induction d with
  | nil => intro _ t tb h; cases h
  | cons x xs ih =>
    intro hf t tb h
    by_cases hx : x.name = t
    · have : tb = x := by
        simp only [findTable, List.find?_cons, hx, beq_self_eq_true] at h
        exact (Option.some.inj h).symm
      subst this
      simp [findTable, renameDoc, renTable, hx]
    · have h' : findTable xs t = some tb := by
        simp only [findTable, List.find?_cons] at h
        have : (x.name == t) = false := by simpa using hx
        rw [this] at h
        exact h
      obtain ⟨hmem, hname⟩ := findTable_some h'
      have hne : ρ.tabOf x.name ≠ ρ.tabOf t := by
        intro he
        exact hx ((tabOf_eq_iff hf ⟨x, by simp, rfl⟩ ⟨tb, by simp [hmem], hname⟩).mp he)
      have := ih (fresh_tail hf) t tb h'
      simp only [findTable, renameDoc, List.map_cons, List.find?_cons] at this ⊢
      have hb : ((renTable ρ x).name == ρ.tabOf t) = false := by
        simpa [renTable] using hne
      rw [hb]
      exact this

/-- Within table `t`: no column is already called like the new name. -/
def ColFresh (ρ : Ren) (t : Name) (cols : List Col) : Prop :=
  ∀ T o n, ρ = .col T o n → t = T → ∀ c ∈ cols, c.name ≠ n

theorem colFresh_of_fresh {ρ : Ren} {d : Doc} (hf : Fresh ρ d) {tb : Table} (h : tb ∈ d) :
    ColFresh ρ tb.name tb.cols := by
  intro T o n hρ ht c hc
  subst hρ
  exact hf tb h ht c hc

theorem colOf_eq_iff {ρ : Ren} {t : Name} {cols : List Col} (hf : ColFresh ρ t cols) {a b : Name}
    (ha : ∃ c ∈ cols, c.name = a) (hb : ∃ c ∈ cols, c.name = b) :
    ρ.colOf t a = ρ.colOf t b ↔ a = b := by
  cases ρ with
  | tab o n => exact Iff.rfl
  | col T o n =>
    simp only [Ren.colOf]
    by_cases ht : t = T
    · obtain ⟨ca, hca, rfl⟩ := ha
      obtain ⟨cb, hcb, rfl⟩ := hb
      have h1 := hf T o n rfl ht ca hca
      have h2 := hf T o n rfl ht cb hcb
      constructor
      · intro h
        by_cases e1 : ca.name = o <;> by_cases e2 : cb.name = o <;>
          simp only [ht, e1, e2, and_self, and_true, and_false, if_true, if_false, true_and] at h
        · rw [e1, e2]
        · exact absurd h.symm h2
        · exact absurd h h1
        · exact h
      · intro h; rw [h]
    · simp [ht]

theorem findCol_list (ρ : Ren) (t : Name) : ∀ (cols : List Col), ColFresh ρ t cols →
    ∀ (c : Name) (col : Col), cols.find? (fun x => x.name == c) = some col →
    (cols.map (renCol ρ t)).find? (fun x => x.name == ρ.colOf t c) = some (renCol ρ t col) := by
  intro cols
  induction cols with
  | nil => intro _ c col h; cases h
  | cons x xs ih =>
    intro hf c col h
    by_cases hx : x.name = c
    · have : col = x := by
        simp only [List.find?_cons, hx, beq_self_eq_true] at h
        exact (Option.some.inj h).symm
      subst this
      simp [renCol, hx]
    · have h' : xs.find? (fun y => y.name == c) = some col := by
        simp only [List.find?_cons] at h
        have : (x.name == c) = false := by simpa using hx
        rw [this] at h
        exact h
      have hmem := List.mem_of_find?_eq_some h'
      have hname : col.name = c := by simpa using List.find?_some h'
      have hne : ρ.colOf t x.name ≠ ρ.colOf t c := by
        intro he
        exact hx ((colOf_eq_iff hf ⟨x, by simp, rfl⟩ ⟨col, by simp [hmem], hname⟩).mp he)
      have hf' : ColFresh ρ t xs := fun T o n h1 h2 c hc => hf T o n h1 h2 c (List.mem_cons_of_mem _ hc)
      have := ih hf' c col h'
      simp only [List.map_cons, List.find?_cons]
      have hb : ((renCol ρ t x).name == ρ.colOf t c) = false := by
        simpa [renCol] using hne
      rw [hb]
      exact this

theorem findCol_rename {ρ : Ren} {d : Doc} (hf : Fresh ρ d) {tb : Table} (hmem : tb ∈ d)
    {c : Name} {col : Col} (h : findCol tb c = some col) :
    findCol (renTable ρ tb) (ρ.colOf tb.name c) = some (renCol ρ tb.name col) := by
  unfold findCol at h ⊢
  exact findCol_list ρ tb.name tb.cols (colFresh_of_fresh hf hmem) c col h

theorem colTypeOf_some {d : Doc} {t c : Name} (h : (colTypeOf d t c).isSome = true) :
    ∃ tb col, findTable d t = some tb ∧ findCol tb c = some col := by
  unfold colTypeOf at h
  cases h1 : findTable d t with
  | none => simp [h1] at h
  | some tb =>
    cases h2 : findCol tb c with
    | none => simp [h1, h2] at h
    | some col => exact ⟨tb, col, rfl, h2⟩

theorem colTypeOf_eq {d : Doc} {t c : Name} {ct : ColType} (h : colTypeOf d t c = some ct) :
    ∃ tb col, findTable d t = some tb ∧ findCol tb c = some col ∧ col.ty = ct := by
  obtain ⟨tb, col, h1, h2⟩ := colTypeOf_some (by rw [h]; rfl)
  refine ⟨tb, col, h1, h2, ?_⟩
  simp only [colTypeOf, h1, h2, Option.map_some, Option.some.injEq] at h
  exact h

/-! ## Values -/

theorem renameVal_atom (ρ : Ren) (a : Atom) : renameVal ρ (.atom a) = .atom (renAtom ρ a) := rfl
theorem renameVal_recs (ρ : Ren) (t : Name) (ids : List Nat) :
    renameVal ρ (.recs t ids) = .recs (ρ.tabOf t) ids := rfl
theorem renameVal_list (ρ : Ren) (as : List Atom) :
    renameVal ρ (.list as) = .list (as.map (renAtom ρ)) := rfl
theorem renameVal_err (ρ : Ren) (e : Err) : renameVal ρ (.err e) = .err e := rfl
theorem renameVal_kws (ρ : Ren) (t : Name) (l : List (Name × Atom)) (ob : Option (List (Bool × Name))) :
    renameVal ρ (.kws t l ob) = .kws (ρ.tabOf t) (l.map (fun p => (ρ.colOf t p.1, renAtom ρ p.2)))
      (ob.map (fun o => o.map (fun p => (p.1, ρ.colOf t p.2)))) := rfl
theorem renAtom_rcd (ρ : Ren) (t : Name) (id : Nat) : renAtom ρ (.rcd t id) = .rcd (ρ.tabOf t) id := rfl
theorem renAtom_int (ρ : Ren) (n : Int) : renAtom ρ (.int n) = .int n := rfl
theorem renAtom_str (ρ : Ren) (x : Name) : renAtom ρ (.str x) = .str x := rfl
theorem renAtom_bool (ρ : Ren) (b : Bool) : renAtom ρ (.bool b) = .bool b := rfl

theorem fieldVal_ren (ρ : Ren) (ty : ColType) (c : Option Cell) :
    fieldVal (renColType ρ ty) c = renameVal ρ (fieldVal ty c) := by
  cases ty <;> cases c with
  | none => rfl
  | some x => cases x <;> rfl

theorem collectAtoms_ren (ρ : Ren) : ∀ (vs : List Val),
    collectAtoms (vs.map (renameVal ρ)) = renameVal ρ (collectAtoms vs) := by
  intro vs
  induction vs with
  | nil => rfl
  | cons v vs ih =>
    cases v with
    | atom a =>
      simp only [List.map_cons, renameVal, collectAtoms, ih]
      cases collectAtoms vs <;> rfl
    | recs t ids => rfl
    | list as => rfl
    | kws t l ob => rfl
    | err e => rfl

theorem fieldVals_ren (ρ : Ren) (ty : ColType) (cs : List (Option Cell)) :
    fieldVals (renColType ρ ty) cs = renameVal ρ (fieldVals ty cs) := by
  cases ty with
  | int =>
    simp only [renColType, fieldVals, ← collectAtoms_ren, List.map_map]
    congr 1
    apply List.map_congr_left
    intro c _
    exact fieldVal_ren ρ .int c
  | text =>
    simp only [renColType, fieldVals, ← collectAtoms_ren, List.map_map]
    congr 1
    apply List.map_congr_left
    intro c _
    exact fieldVal_ren ρ .text c
  | ref u =>
    simp only [renColType, fieldVals]
    cases cs.mapM refId <;> rfl
  | refList u => rfl

theorem fieldOf_ren {ρ : Ren} {d : Doc} (hf : Fresh ρ d) {t c : Name} (id : Nat)
    (h : (colTypeOf d t c).isSome = true) :
    fieldOf (renameDoc ρ d) (ρ.tabOf t) id (ρ.colOf t c) = renameVal ρ (fieldOf d t id c) := by
  obtain ⟨tb, col, h1, h2⟩ := colTypeOf_some h
  obtain ⟨hmem, hname⟩ := findTable_some h1
  have h3 := findCol_rename hf hmem h2
  rw [hname] at h3
  simp only [fieldOf, findTable_rename ρ d hf t tb h1, h3, h1, h2]
  exact fieldVal_ren ρ col.ty _

theorem fieldsOf_ren {ρ : Ren} {d : Doc} (hf : Fresh ρ d) {t c : Name} (ids : List Nat)
    (h : (colTypeOf d t c).isSome = true) :
    fieldsOf (renameDoc ρ d) (ρ.tabOf t) ids (ρ.colOf t c) = renameVal ρ (fieldsOf d t ids c) := by
  obtain ⟨tb, col, h1, h2⟩ := colTypeOf_some h
  obtain ⟨hmem, hname⟩ := findTable_some h1
  have h3 := findCol_rename hf hmem h2
  rw [hname] at h3
  simp only [fieldsOf, findTable_rename ρ d hf t tb h1, h3, h1, h2]
  exact fieldVals_ren ρ col.ty _

theorem matchCell_ren (ρ : Ren) (c : Option Cell) (a : Atom) :
    matchCell c (renAtom ρ a) = matchCell c a := by
  cases a with
  | rcd t id =>
    cases c with
    | none => rfl
    | some x => cases x <;> rfl
  | _ => rfl

theorem evalOp_ren (ρ : Ren) (op : Op) (a b : Val) :
    evalOp op (renameVal ρ a) (renameVal ρ b) = renameVal ρ (evalOp op a b) := by
  cases a with
  | err e => rfl
  | recs t ids => cases b <;> rfl
  | list as => cases b <;> rfl
  | kws t l ob => cases b <;> rfl
  | atom x =>
    cases b with
    | err e => cases x <;> rfl
    | recs t ids => cases x <;> rfl
    | list as => cases x <;> rfl
    | kws t l ob => cases x <;> rfl
    | atom y => cases x <;> cases y <;> cases op <;> rfl

/-! ## Lookups -/

theorem resolveKws_ren {ρ : Ren} {d : Doc} (hf : Fresh ρ d) {tb : Table} (hmem : tb ∈ d) :
    ∀ (l : List (Name × Atom)), (∀ p ∈ l, (findCol tb p.1).isSome = true) →
    resolveKws (renTable ρ tb) (l.map (fun p => (ρ.colOf tb.name p.1, renAtom ρ p.2))) =
      (resolveKws tb l).map (List.map (fun kc => (kc.1, renAtom ρ kc.2))) := by
  intro l
  induction l with
  | nil => intro _; rfl
  | cons p rest ih =>
    intro h
    obtain ⟨k, a⟩ := p
    have hk := h (k, a) (by simp)
    cases h2 : findCol tb k with
    | none => simp [h2] at hk
    | some col =>
      have h3 := findCol_rename hf hmem h2
      have ih' := ih (fun q hq => h q (by simp [hq]))
      simp only [List.map_cons, resolveKws, h3, h2, ih']
      cases resolveKws tb rest <;> rfl

theorem resolveOrder_ren {ρ : Ren} {d : Doc} (hf : Fresh ρ d) {tb : Table} (hmem : tb ∈ d) :
    ∀ (o : List (Bool × Name)), (∀ p ∈ o, (findCol tb p.2).isSome = true) →
    resolveOrder (renTable ρ tb) (o.map (fun p => (p.1, ρ.colOf tb.name p.2))) = resolveOrder tb o := by
  intro o
  induction o with
  | nil => intro _; rfl
  | cons p rest ih =>
    intro h
    obtain ⟨desc, c⟩ := p
    have hk := h (desc, c) (by simp)
    cases h2 : findCol tb c with
    | none => simp [h2] at hk
    | some col =>
      have h3 := findCol_rename hf hmem h2
      have ih' := ih (fun q hq => h q (by simp [hq]))
      simp only [List.map_cons, resolveOrder, h3, h2, ih']
      cases resolveOrder tb rest <;> rfl

theorem colsExist_find {d : Doc} {t : Name} {tb : Table} (h1 : findTable d t = some tb)
    {c : Name} (h : (colTypeOf d t c).isSome = true) : (findCol tb c).isSome = true := by
  simp only [colTypeOf, h1] at h
  cases h2 : findCol tb c with
  | none => simp [h2] at h
  | some col => rfl

theorem doLookup_ren {ρ : Ren} {d : Doc} (hf : Fresh ρ d) {t : Name} {tb : Table}
    (h1 : findTable d t = some tb) (l : List (Name × Atom)) (ob : Option (List (Bool × Name)))
    (one : Bool) (hl : ∀ p ∈ l, (colTypeOf d t p.1).isSome = true)
    (ho : ∀ p ∈ ob.getD [], (colTypeOf d t p.2).isSome = true) :
    doLookup (renameDoc ρ d) (ρ.tabOf t) (l.map (fun p => (ρ.colOf t p.1, renAtom ρ p.2)))
        (ob.map (fun o => o.map (fun p => (p.1, ρ.colOf t p.2)))) one =
      renameVal ρ (doLookup d t l ob one) := by
  obtain ⟨hmem, hname⟩ := findTable_some h1
  have hob : (ob.map (fun o => o.map (fun p => (p.1, ρ.colOf t p.2)))).getD [] =
      (ob.getD []).map (fun p => (p.1, ρ.colOf t p.2)) := by cases ob <;> rfl
  have r1 := resolveKws_ren hf hmem l (fun p hp => colsExist_find h1 (hl p hp))
  have r2 := resolveOrder_ren hf hmem (ob.getD []) (fun p hp => colsExist_find h1 (ho p hp))
  rw [hname] at r1 r2
  simp only [doLookup, findTable_rename ρ d hf t tb h1, h1, hob, r1, r2]
  cases resolveKws tb l with
  | none => rfl
  | some kcs =>
    cases resolveOrder tb (ob.getD []) with
    | none => rfl
    | some ocs =>
      simp only [Option.map_some, renTable, List.all_map]
      have hfun : (fun id => kcs.all ((fun kc => matchCell (rawCell tb.ids kc.1 id) kc.2) ∘
            fun kc => (kc.1, renAtom ρ kc.2))) =
          (fun id => kcs.all (fun kc => matchCell (rawCell tb.ids kc.1 id) kc.2)) := by
        funext id
        congr 1
        funext kc
        exact matchCell_ren ρ _ _
      rw [hfun]
      cases one <;> rfl

theorem doPrevNext_ren {ρ : Ren} {d : Doc} (hf : Fresh ρ d) {t : Name} {tb : Table}
    (h1 : findTable d t = some tb) (f : PN) (id : Nat) (gb ob : List (Bool × Name))
    (hg : ∀ p ∈ gb, (colTypeOf d t p.2).isSome = true)
    (ho : ∀ p ∈ ob, (colTypeOf d t p.2).isSome = true) :
    doPrevNext (renameDoc ρ d) f (ρ.tabOf t) id (gb.map (fun p => (p.1, ρ.colOf t p.2)))
        (ob.map (fun p => (p.1, ρ.colOf t p.2))) =
      renameVal ρ (doPrevNext d f t id gb ob) := by
  obtain ⟨hmem, hname⟩ := findTable_some h1
  have r1 := resolveOrder_ren hf hmem gb (fun p hp => colsExist_find h1 (hg p hp))
  have r2 := resolveOrder_ren hf hmem ob (fun p hp => colsExist_find h1 (ho p hp))
  rw [hname] at r1 r2
  simp only [doPrevNext, findTable_rename ρ d hf t tb h1, h1, r1, r2]
  cases resolveOrder tb gb with
  | none => rfl
  | some gcs =>
    cases resolveOrder tb ob with
    | none => rfl
    | some ocs =>
      simp only [renTable]
      split
      · rfl
      · cases f <;> rfl

theorem lookupVar_ren (ρ : Ren) : ∀ (env : List (Name × Name × Nat)) (x : Name),
    lookupVar (env.map (fun e => (e.1, ρ.tabOf e.2.1, e.2.2))) x =
      (lookupVar env x).map (fun r => (ρ.tabOf r.1, r.2)) := by
  intro env
  induction env with
  | nil => intro x; rfl
  | cons e rest ih =>
    intro x
    obtain ⟨y, t, id⟩ := e
    simp only [List.map_cons, lookupVar]
    split
    · rfl
    · exact ih x

theorem sumInts_ren (ρ : Ren) : ∀ (as : List Atom), sumInts (as.map (renAtom ρ)) = sumInts as := by
  intro as
  induction as with
  | nil => rfl
  | cons a rest ih => cases a <;> simp [sumInts, renAtom, ih]

theorem maxInts_ren (ρ : Ren) : ∀ (as : List Atom), maxInts (as.map (renAtom ρ)) = maxInts as
  | [] => rfl
  | [.int _] => rfl
  | .int n :: b :: r => by
    have ih := maxInts_ren ρ (b :: r)
    simp only [List.map_cons] at ih
    show (maxInts (renAtom ρ b :: List.map (renAtom ρ) r)).map _ = (maxInts (b :: r)).map _
    rw [ih]
  | .str _ :: rest => by cases rest <;> rfl
  | .bool _ :: rest => by cases rest <;> rfl
  | .rcd _ _ :: rest => by cases rest <;> rfl

/-! ## Type soundness: the table a record carries at run time is the one the schema predicts -/

def AtomHasTy : Atom → ATy → Prop
  | .int _, .int => True
  | .str _, .text => True
  | .bool _, .bool => True
  | .rcd t _, .rcd t' => t = t'
  | _, _ => False

def ValHasTy (d : Doc) : Val → Ty → Prop
  | .err _, _ => True
  | .atom a, .atom τ => AtomHasTy a τ
  | .recs t _, .recs t' => t = t'
  | .list as, .list τ => ∀ a ∈ as, AtomHasTy a τ
  | .kws t l ob, .kws t' => t = t' ∧ (∀ p ∈ l, (colTypeOf d t p.1).isSome = true) ∧
      colsExist d t (ob.getD [])
  | _, _ => False

theorem vht_err (d : Doc) (e : Err) (τ : Ty) : ValHasTy d (.err e) τ := by
  cases τ <;> trivial

theorem vht_atom {d : Doc} {v : Val} {τ : ATy} (h : ValHasTy d v (.atom τ)) :
    (∃ e, v = .err e) ∨ (∃ a, v = .atom a ∧ AtomHasTy a τ) := by
  cases v with
  | err e => exact Or.inl ⟨e, rfl⟩
  | atom a => exact Or.inr ⟨a, rfl, h⟩
  | recs t ids => cases h
  | list as => cases h
  | kws t l ob => cases h

theorem vht_recs {d : Doc} {v : Val} {t : Name} (h : ValHasTy d v (.recs t)) :
    (∃ e, v = .err e) ∨ (∃ ids, v = .recs t ids) := by
  cases v with
  | err e => exact Or.inl ⟨e, rfl⟩
  | atom a => cases h
  | recs t' ids => have : t' = t := h; subst this; exact Or.inr ⟨ids, rfl⟩
  | list as => cases h
  | kws t l ob => cases h

theorem vht_list {d : Doc} {v : Val} {τ : ATy} (h : ValHasTy d v (.list τ)) :
    (∃ e, v = .err e) ∨ (∃ as, v = .list as ∧ ∀ a ∈ as, AtomHasTy a τ) := by
  cases v with
  | err e => exact Or.inl ⟨e, rfl⟩
  | atom a => cases h
  | recs t' ids => cases h
  | list as => exact Or.inr ⟨as, rfl, h⟩
  | kws t l ob => cases h

theorem vht_kws {d : Doc} {v : Val} {t : Name} (h : ValHasTy d v (.kws t)) :
    (∃ e, v = .err e) ∨ (∃ l ob, v = .kws t l ob ∧ (∀ p ∈ l, (colTypeOf d t p.1).isSome = true) ∧
      colsExist d t (ob.getD [])) := by
  cases v with
  | err e => exact Or.inl ⟨e, rfl⟩
  | atom a => cases h
  | recs t' ids => cases h
  | list as => cases h
  | kws t' l ob =>
    obtain ⟨h1, h2, h3⟩ := h
    subst h1
    exact Or.inr ⟨l, ob, rfl, h2, h3⟩

theorem aht_int {a : Atom} (h : AtomHasTy a .int) : ∃ n, a = .int n := by
  cases a <;> first | exact ⟨_, rfl⟩ | cases h

theorem aht_text {a : Atom} (h : AtomHasTy a .text) : ∃ s, a = .str s := by
  cases a <;> first | exact ⟨_, rfl⟩ | cases h

theorem aht_bool {a : Atom} (h : AtomHasTy a .bool) : ∃ b, a = .bool b := by
  cases a <;> first | exact ⟨_, rfl⟩ | cases h

theorem aht_rcd {a : Atom} {t : Name} (h : AtomHasTy a (.rcd t)) : ∃ id, a = .rcd t id := by
  cases a with
  | rcd t' id => have : t' = t := h; subst this; exact ⟨id, rfl⟩
  | int n => cases h
  | str s => cases h
  | bool b => cases h

theorem fieldVal_ty (d : Doc) (ty : ColType) (c : Option Cell) :
    ValHasTy d (fieldVal ty c) (fieldTy ty) := by
  cases ty <;> cases c with
  | none => first | trivial | rfl
  | some x => cases x <;> first | trivial | rfl

theorem collectAtoms_ty (d : Doc) (τ : ATy) : ∀ (vs : List Val),
    (∀ v ∈ vs, ValHasTy d v (.atom τ)) → ValHasTy d (collectAtoms vs) (.list τ) := by
  intro vs
  induction vs with
  | nil => intro _ a ha; cases ha
  | cons v rest ih =>
    intro h
    have hv := h v (by simp)
    have hr := ih (fun w hw => h w (by simp [hw]))
    rcases vht_atom hv with ⟨e, rfl⟩ | ⟨a, rfl, ha⟩
    · exact vht_err _ _ _
    · simp only [collectAtoms]
      rcases vht_list hr with ⟨e, he⟩ | ⟨as, he, has⟩
      · rw [he]; exact vht_err _ _ _
      · rw [he]
        intro b hb
        simp only [List.mem_cons] at hb
        rcases hb with rfl | hb
        · exact ha
        · exact has b hb

theorem fieldOf_ty {d : Doc} {t c : Name} {ct : ColType} (id : Nat) (h : colTypeOf d t c = some ct) :
    ValHasTy d (fieldOf d t id c) (fieldTy ct) := by
  obtain ⟨tb, col, h1, h2, h3⟩ := colTypeOf_eq h
  simp only [fieldOf, h1, h2]
  rw [← h3]
  exact fieldVal_ty d col.ty _

theorem fieldsOf_ty {d : Doc} {t c : Name} {ct : ColType} {τ : Ty} (ids : List Nat)
    (h : colTypeOf d t c = some ct) (hτ : fieldTyS ct = some τ) :
    ValHasTy d (fieldsOf d t ids c) τ := by
  obtain ⟨tb, col, h1, h2, h3⟩ := colTypeOf_eq h
  simp only [fieldsOf, h1, h2]
  rw [h3]
  cases ct with
  | int =>
    cases hτ
    refine collectAtoms_ty d .int _ ?_
    intro v hv
    simp only [List.mem_map] at hv
    obtain ⟨c, _, rfl⟩ := hv
    exact fieldVal_ty d .int c
  | text =>
    cases hτ
    refine collectAtoms_ty d .text _ ?_
    intro v hv
    simp only [List.mem_map] at hv
    obtain ⟨c, _, rfl⟩ := hv
    exact fieldVal_ty d .text c
  | ref u =>
    cases hτ
    simp only [fieldVals]
    split
    · rfl
    · trivial
  | refList u => cases hτ

theorem evalOp_int_ty (d : Doc) (op : Op) {va vb : Val} (ha : ValHasTy d va (.atom .int))
    (hb : ValHasTy d vb (.atom .int)) :
    ValHasTy d (evalOp op va vb) (if arithOp op = true then .atom .int else .atom .bool) := by
  rcases vht_atom ha with ⟨e, rfl⟩ | ⟨a, rfl, haa⟩
  · exact vht_err _ _ _
  · obtain ⟨x, rfl⟩ := aht_int haa
    rcases vht_atom hb with ⟨e, rfl⟩ | ⟨b, rfl, hbb⟩
    · exact vht_err _ _ _
    · obtain ⟨y, rfl⟩ := aht_int hbb
      cases op <;> trivial

theorem evalOp_text_ty (d : Doc) (op : Op) {va vb : Val} (ha : ValHasTy d va (.atom .text))
    (hb : ValHasTy d vb (.atom .text)) (hop : eqOp op = true) :
    ValHasTy d (evalOp op va vb) (.atom .bool) := by
  rcases vht_atom ha with ⟨e, rfl⟩ | ⟨a, rfl, haa⟩
  · exact vht_err _ _ _
  · obtain ⟨x, rfl⟩ := aht_text haa
    rcases vht_atom hb with ⟨e, rfl⟩ | ⟨b, rfl, hbb⟩
    · exact vht_err _ _ _
    · obtain ⟨y, rfl⟩ := aht_text hbb
      cases op <;> first | trivial | cases hop

theorem doLookup_ty (d : Doc) (t : Name) (l : List (Name × Atom)) (ob : Option (List (Bool × Name)))
    (one : Bool) :
    ValHasTy d (doLookup d t l ob one) (if one then .atom (.rcd t) else .recs t) := by
  unfold doLookup
  split
  · exact vht_err _ _ _
  · split
    · cases one
      · rfl
      · rfl
    · exact vht_err _ _ _

theorem doPrevNext_ty (d : Doc) (f : PN) (t : Name) (id : Nat) (gb ob : List (Bool × Name)) :
    ValHasTy d (doPrevNext d f t id gb ob) (if f = .rank then .atom .int else .atom (.rcd t)) := by
  cases f <;> simp only [doPrevNext] <;> repeat' split
  all_goals first | exact vht_err _ _ _ | rfl | trivial

def EnvOk (Γ : List (Name × Name)) (env : List (Name × Name × Nat)) : Prop :=
  env.map (fun e => (e.1, e.2.1)) = Γ

theorem lookupVar_ty : ∀ (env : List (Name × Name × Nat)) (x : Name),
    (lookupVar env x).map (·.1) = lookupTy (env.map (fun e => (e.1, e.2.1))) x := by
  intro env
  induction env with
  | nil => intro x; rfl
  | cons e rest ih =>
    intro x
    obtain ⟨y, t, id⟩ := e
    simp only [List.map_cons, lookupVar, lookupTy]
    split
    · rfl
    · exact ih x

theorem eval_sound {d : Doc} {cur : Name} {Γ : List (Name × Name)} {e : FExpr} {τ : Ty}
    (h : HasTy d cur Γ e τ) : ∀ (row : Nat) (env : List (Name × Name × Nat)), EnvOk Γ env →
    ValHasTy d (eval d cur row env e) τ := by
  induction h with
  | lit => intro row env _; trivial
  | str => intro row env _; trivial
  | @arith Γ op a b hop _ _ iha ihb =>
    intro row env henv
    have := evalOp_int_ty d op (iha row env henv) (ihb row env henv)
    simp only [hop, if_true] at this
    simp only [eval]
    exact this
  | @order Γ op a b hop _ _ iha ihb =>
    intro row env henv
    have := evalOp_int_ty d op (iha row env henv) (ihb row env henv)
    have hna : arithOp op = false := by cases op <;> first | rfl | cases hop
    simp only [hna, Bool.false_eq_true, if_false] at this
    simp only [eval]
    exact this
  | @eqInt Γ op a b hop _ _ iha ihb =>
    intro row env henv
    have := evalOp_int_ty d op (iha row env henv) (ihb row env henv)
    have hna : arithOp op = false := by cases op <;> first | rfl | cases hop
    simp only [hna, Bool.false_eq_true, if_false] at this
    simp only [eval]
    exact this
  | eqText hop _ _ iha ihb =>
    intro row env henv
    exact evalOp_text_ty d _ (iha row env henv) (ihb row env henv) hop
  | recv => intro row env _; rfl
  | @var Γ x t hx =>
    intro row env henv
    have := lookupVar_ty env x
    rw [henv, hx] at this
    simp only [eval]
    cases hl : lookupVar env x with
    | none => simp [hl] at this
    | some r =>
      obtain ⟨t', id⟩ := r
      simp only [hl, Option.map_some, Option.some.injEq] at this
      subst this
      rfl
  | dollar hc => intro row env _; exact fieldOf_ty row hc
  | attrRec _ hc ih =>
    intro row env henv
    simp only [eval]
    rcases vht_atom (ih row env henv) with ⟨e, he⟩ | ⟨a, he, ha⟩
    · rw [he]; exact vht_err _ _ _
    · obtain ⟨id, rfl⟩ := aht_rcd ha
      rw [he]
      exact fieldOf_ty id hc
  | attrRecs _ hc hτ ih =>
    intro row env henv
    simp only [eval]
    rcases vht_recs (ih row env henv) with ⟨e, he⟩ | ⟨ids, he⟩
    · rw [he]; exact vht_err _ _ _
    · rw [he]
      exact fieldsOf_ty ids hc hτ
  | @kwEnd Γ t ob _ hcols =>
    intro row env _
    simp only [eval]
    refine And.intro rfl (And.intro ?_ hcols)
    intro p hp
    cases hp
  | @kw Γ t k v rest ct a hc _ _ _ hres ihv ihr =>
    intro row env henv
    simp only [eval]
    rcases vht_atom (ihv row env henv) with ⟨e, he⟩ | ⟨x, he, _⟩
    · rw [he]; exact vht_err _ _ _
    · rw [he]
      simp only [hres, Bool.false_eq_true, if_false]
      rcases vht_kws (ihr row env henv) with ⟨e, he2⟩ | ⟨l, ob, he2, hl, ho⟩
      · rw [he2]; exact vht_err _ _ _
      · rw [he2]
        simp only [if_true]
        refine ⟨rfl, ?_, ho⟩
        intro p hp
        simp only [List.mem_cons] at hp
        rcases hp with rfl | hp
        · rw [hc]; rfl
        · exact hl p hp
  | @lookupOne Γ t args _ ih =>
    intro row env henv
    simp only [eval]
    rcases vht_kws (ih row env henv) with ⟨e, he⟩ | ⟨l, ob, he, _, _⟩
    · rw [he]; exact vht_err _ _ _
    · rw [he]
      simp only [if_true]
      exact doLookup_ty d t l ob true
  | @lookupRecords Γ t args _ ih =>
    intro row env henv
    simp only [eval]
    rcases vht_kws (ih row env henv) with ⟨e, he⟩ | ⟨l, ob, he, _, _⟩
    · rw [he]; exact vht_err _ _ _
    · rw [he]
      simp only [if_true]
      exact doLookup_ty d t l ob false
  | @all Γ t ht =>
    intro row env _
    simp only [eval]
    cases h1 : findTable d t with
    | none => simp [h1] at ht
    | some tb => rfl
  | @compr Γ body x src t a _ _ ihs ihb =>
    intro row env henv
    simp only [eval]
    rcases vht_recs (ihs row env henv) with ⟨e, he⟩ | ⟨ids, he⟩
    · rw [he]; exact vht_err _ _ _
    · rw [he]
      refine collectAtoms_ty d a _ ?_
      intro v hv
      simp only [List.mem_map] at hv
      obtain ⟨id, _, rfl⟩ := hv
      refine ihb row ((x, t, id) :: env) ?_
      simp only [EnvOk, List.map_cons] at henv ⊢
      rw [henv]
  | lenRecs _ ih =>
    intro row env henv
    simp only [eval]
    rcases vht_recs (ih row env henv) with ⟨e, he⟩ | ⟨ids, he⟩
    · rw [he]; exact vht_err _ _ _
    · rw [he]; trivial
  | lenList _ ih =>
    intro row env henv
    simp only [eval]
    rcases vht_list (ih row env henv) with ⟨e, he⟩ | ⟨as, he, _⟩
    · rw [he]; exact vht_err _ _ _
    · rw [he]; trivial
  | sum _ ih =>
    intro row env henv
    simp only [eval]
    rcases vht_list (ih row env henv) with ⟨e, he⟩ | ⟨as, he, _⟩
    · rw [he]; exact vht_err _ _ _
    · rw [he]
      simp only
      split
      · trivial
      · exact vht_err _ _ _
  | max _ ih =>
    intro row env henv
    simp only [eval]
    rcases vht_list (ih row env henv) with ⟨e, he⟩ | ⟨as, he, _⟩
    · rw [he]; exact vht_err _ _ _
    · rw [he]
      simp only
      split
      · exact vht_err _ _ _
      · split
        · trivial
        · exact vht_err _ _ _
  | @prevNext Γ f e t gb ob _ _ _ _ ih =>
    intro row env henv
    simp only [eval]
    rcases vht_atom (ih row env henv) with ⟨e, he⟩ | ⟨a, he, ha⟩
    · rw [he]; exact vht_err _ _ _
    · obtain ⟨id, rfl⟩ := aht_rcd ha
      rw [he]
      simp only
      split
      · exact vht_err _ _ _
      · exact doPrevNext_ty d f t id _ _
  | ifE _ _ _ ihc iha ihb =>
    intro row env henv
    simp only [eval]
    rcases vht_atom (ihc row env henv) with ⟨e, he⟩ | ⟨x, he, hx⟩
    · rw [he]; exact vht_err _ _ _
    · obtain ⟨b, rfl⟩ := aht_bool hx
      rw [he]
      cases b
      · simp only
        split
        · exact vht_err _ _ _
        · exact ihb row env henv
      · simp only
        split
        · exact vht_err _ _ _
        · exact iha row env henv

/-! ## Renaming commutes with evaluation -/

theorem hasTy_kws_table {d : Doc} {cur : Name} {Γ : List (Name × Name)} {e : FExpr} {τ : Ty}
    (h : HasTy d cur Γ e τ) : ∀ t, τ = .kws t → (findTable d t).isSome = true := by
  induction h with
  | kwEnd hex _ => intro t ht; cases ht; exact hex
  | kw _ _ _ _ _ _ ih2 => intro t ht; cases ht; exact ih2 _ rfl
  | ifE _ _ _ _ iha _ => intro t ht; exact iha t ht
  | @dollar Γ c ct _ => intro t ht; cases ct <;> cases ht
  | @attrRec Γ e t' c ct _ _ _ => intro t ht; cases ct <;> cases ht
  | @attrRecs Γ e t' c ct τ _ _ hτ _ => intro t ht; subst ht; cases ct <;> cases hτ
  | @prevNext Γ f e t' gb ob _ _ _ _ _ => intro t ht; cases f <;> cases ht
  | _ => intro t ht; cases ht

theorem reservedKw_colOf {ρ : Ren} (hs : ρ.Safe) {t k : Name} (hk : reservedKw k = false) :
    reservedKw (ρ.colOf t k) = false := by
  cases ρ with
  | tab o n => exact hk
  | col T o n =>
    simp only [Ren.colOf]
    split
    · exact hs
    · exact hk

theorem shadowed_rename {ρ : Ren} (hs : ρ.Safe) {f : Name} (hf : f ∈ funcNames) :
    ∀ (d : Doc), shadowed (renameDoc ρ d) f = shadowed d f := by
  intro d
  induction d with
  | nil => rfl
  | cons x xs ih =>
    simp only [shadowed, findTable, renameDoc, List.map_cons, List.find?_cons] at ih ⊢
    have hname : ((renTable ρ x).name == f) = (x.name == f) := by
      cases ρ with
      | col T o n => rfl
      | tab o n =>
        obtain ⟨ho, hn⟩ := hs
        simp only [renTable, Ren.tabOf]
        by_cases hx : x.name = o
        · have h1 : (n == f) = false := by
            have : ¬ n = f := fun (h : n = f) => hn (h ▸ hf)
            simpa using this
          have h3 : (o == f) = false := by
            have : ¬ o = f := fun (h : o = f) => ho (h ▸ hf)
            simpa using this
          simp only [hx, if_true, h1, h3]
        · simp [hx]
    rw [hname]
    cases (x.name == f)
    · exact ih
    · rfl

def renEnv (ρ : Ren) (env : List (Name × Name × Nat)) : List (Name × Name × Nat) :=
  env.map (fun e => (e.1, ρ.tabOf e.2.1, e.2.2))

theorem eval_rename {ρ : Ren} {d : Doc} (hf : Fresh ρ d) (hs : ρ.Safe) {cur : Name} {Γ : List (Name × Name)}
    {e : FExpr} {τ : Ty} (h : HasTy d cur Γ e τ) :
    ∀ (row : Nat) (env : List (Name × Name × Nat)), EnvOk Γ env →
    eval (renameDoc ρ d) (ρ.tabOf cur) row (renEnv ρ env) (rename ρ e) =
      renameVal ρ (eval d cur row env e) := by
  induction h with
  | lit => intro row env _; rfl
  | str => intro row env _; rfl
  | arith _ _ _ iha ihb =>
    intro row env henv
    simp only [rename, eval, iha row env henv, ihb row env henv, evalOp_ren]
  | order _ _ _ iha ihb =>
    intro row env henv
    simp only [rename, eval, iha row env henv, ihb row env henv, evalOp_ren]
  | eqInt _ _ _ iha ihb =>
    intro row env henv
    simp only [rename, eval, iha row env henv, ihb row env henv, evalOp_ren]
  | eqText _ _ _ iha ihb =>
    intro row env henv
    simp only [rename, eval, iha row env henv, ihb row env henv, evalOp_ren]
  | recv => intro row env _; rfl
  | @var Γ x t hx =>
    intro row env _
    simp only [rename, eval, renEnv, lookupVar_ren]
    cases lookupVar env x with
    | none => rfl
    | some r => rfl
  | dollar hc =>
    intro row env _
    simp only [rename, eval]
    exact fieldOf_ren hf row (by rw [hc]; rfl)
  | @attrRec Γ e t c ct he hc ih =>
    intro row env henv
    simp only [rename, eval, ih row env henv]
    rcases vht_atom (eval_sound he row env henv) with ⟨x, hx⟩ | ⟨a, hx, ha⟩
    · rw [hx]; rfl
    · obtain ⟨id, rfl⟩ := aht_rcd ha
      rw [hx]
      simp only [renameVal_atom, renAtom_rcd]
      exact fieldOf_ren hf id (by rw [hc]; rfl)
  | @attrRecs Γ e t c ct τ he hc _ ih =>
    intro row env henv
    simp only [rename, eval, ih row env henv]
    rcases vht_recs (eval_sound he row env henv) with ⟨x, hx⟩ | ⟨ids, hx⟩
    · rw [hx]; rfl
    · rw [hx]
      simp only [renameVal_recs]
      exact fieldsOf_ren hf ids (by rw [hc]; rfl)
  | @kwEnd Γ t ob _ _ =>
    intro row env _
    simp only [rename, eval, renameVal_kws, List.map_nil]
    cases ob with
    | none => rfl
    | some o => simp [renOB]
  | @kw Γ t k v rest ct a _ hv _ hr hres ihv ihr =>
    intro row env henv
    simp only [rename, eval, ihv row env henv, ihr row env henv]
    rcases vht_atom (eval_sound hv row env henv) with ⟨x, hx⟩ | ⟨y, hx, _⟩
    · rw [hx]; rfl
    · rw [hx]
      simp only [renameVal_atom, reservedKw_colOf hs hres, hres, Bool.false_eq_true, if_false]
      rcases vht_kws (eval_sound hr row env henv) with ⟨x, hx2⟩ | ⟨l, ob, hx2, _, _⟩
      · rw [hx2]; rfl
      · rw [hx2]
        simp [renameVal_kws, renameVal_atom]
  | @lookupOne Γ t args ha ih =>
    intro row env henv
    simp only [rename, eval, ih row env henv]
    rcases vht_kws (eval_sound ha row env henv) with ⟨x, hx⟩ | ⟨l, ob, hx, hl, ho⟩
    · rw [hx]; rfl
    · rw [hx]
      simp only [renameVal_kws, if_true]
      cases h1 : findTable d t with
      | none => have := hasTy_kws_table ha t rfl; simp [h1] at this
      | some tb => exact doLookup_ren hf h1 l ob true hl ho
  | @lookupRecords Γ t args ha ih =>
    intro row env henv
    simp only [rename, eval, ih row env henv]
    rcases vht_kws (eval_sound ha row env henv) with ⟨x, hx⟩ | ⟨l, ob, hx, hl, ho⟩
    · rw [hx]; rfl
    · rw [hx]
      simp only [renameVal_kws, if_true]
      cases h1 : findTable d t with
      | none => have := hasTy_kws_table ha t rfl; simp [h1] at this
      | some tb => exact doLookup_ren hf h1 l ob false hl ho
  | @all Γ t ht =>
    intro row env _
    simp only [rename, eval]
    cases h1 : findTable d t with
    | none => simp [h1] at ht
    | some tb =>
      rw [findTable_rename ρ d hf t tb h1]
      rfl
  | @compr Γ body x src t a hs _ ihs ihb =>
    intro row env henv
    simp only [rename, eval, ihs row env henv]
    rcases vht_recs (eval_sound hs row env henv) with ⟨y, hy⟩ | ⟨ids, hy⟩
    · rw [hy]; rfl
    · rw [hy]
      simp only [renameVal_recs]
      rw [← collectAtoms_ren, List.map_map]
      congr 1
      apply List.map_congr_left
      intro id _
      have henv' : EnvOk ((x, t) :: Γ) ((x, t, id) :: env) := by
        simp only [EnvOk, List.map_cons] at henv ⊢
        rw [henv]
      exact ihb row ((x, t, id) :: env) henv'
  | lenRecs _ ih =>
    intro row env henv
    simp only [rename, eval, ih row env henv]
    cases eval d cur row env _ <;> first | rfl | simp [renameVal, renAtom]
  | lenList _ ih =>
    intro row env henv
    simp only [rename, eval, ih row env henv]
    cases eval d cur row env _ <;> first | rfl | simp [renameVal, renAtom]
  | sum _ ih =>
    intro row env henv
    simp only [rename, eval, ih row env henv]
    cases eval d cur row env _ with
    | list as =>
      simp only [renameVal_list, sumInts_ren]
      cases sumInts as <;> rfl
    | _ => rfl
  | max _ ih =>
    intro row env henv
    simp only [rename, eval, ih row env henv]
    cases eval d cur row env _ with
    | list as =>
      simp only [renameVal_list]
      cases as with
      | nil => rfl
      | cons a rest =>
        simp only [List.map_cons]
        rw [show renAtom ρ a :: List.map (renAtom ρ) rest = List.map (renAtom ρ) (a :: rest) from rfl,
          maxInts_ren]
        cases maxInts (a :: rest) <;> rfl
    | _ => rfl
  | @prevNext Γ f e t gb ob he ht hg ho ih =>
    intro row env henv
    simp only [rename, eval, ih row env henv]
    rcases vht_atom (eval_sound he row env henv) with ⟨x, hx⟩ | ⟨a, hx, ha⟩
    · rw [hx]; rfl
    · obtain ⟨id, rfl⟩ := aht_rcd ha
      rw [hx]
      have hsh := shadowed_rename hs (f := pnName f) (by cases f <;> decide) d
      simp only [renameVal_atom, renAtom_rcd, hsh]
      cases shadowed d (pnName f)
      case true => rfl
      simp only [Bool.false_eq_true, if_false]
      cases h1 : findTable d t with
      | none => simp [h1] at ht
      | some tb =>
        have := doPrevNext_ren hf h1 f id ((gb.map OrderBy.items).getD []) ob.items hg ho
        rw [← this]
        congr 1
        cases gb <;> rfl
  | ifE hc _ _ ihc iha ihb =>
    intro row env henv
    simp only [rename, eval, ihc row env henv]
    rcases vht_atom (eval_sound hc row env henv) with ⟨x, hx⟩ | ⟨y, hx, hy⟩
    · rw [hx]; rfl
    · obtain ⟨b, rfl⟩ := aht_bool hy
      rw [hx]
      have hsh := shadowed_rename hs (f := ifName) (by decide) d
      cases b
      · simp only [renameVal_atom, renAtom_bool, hsh]
        cases shadowed d ifName
        · exact ihb row env henv
        · rfl
      · simp only [renameVal_atom, renAtom_bool, hsh]
        cases shadowed d ifName
        · exact iha row env henv
        · rfl

/-! ## The computable checker is sound for `HasTy` -/

theorem colsExistB_sound {d : Doc} {t : Name} {items : List (Bool × Name)}
    (h : colsExistB d t items = true) : colsExist d t items := by
  intro it hit
  simp only [colsExistB, List.all_eq_true] at h
  exact h it hit

theorem check_sound {d : Doc} {cur : Name} : ∀ (e : FExpr) (Γ : List (Name × Name)) (τ : Ty),
    check d cur Γ e = some τ → HasTy d cur Γ e τ := by
  intro e
  induction e with
  | lit n => intro Γ τ h; simp only [check] at h; cases h; exact .lit
  | str s q => intro Γ τ h; simp only [check] at h; cases h; exact .str
  | binop op a b iha ihb =>
    intro Γ τ h
    simp only [check] at h
    split at h
    · rename_i ha hb
      split at h
      · rename_i hop
        cases h
        exact .arith hop (iha _ _ ha) (ihb _ _ hb)
      · rename_i hop
        cases h
        cases op
        · exact absurd rfl hop
        · exact absurd rfl hop
        · exact absurd rfl hop
        · exact .eqInt rfl (iha _ _ ha) (ihb _ _ hb)
        · exact .eqInt rfl (iha _ _ ha) (ihb _ _ hb)
        · exact .order rfl (iha _ _ ha) (ihb _ _ hb)
        · exact .order rfl (iha _ _ ha) (ihb _ _ hb)
    · rename_i ha hb
      split at h
      · rename_i hop
        cases h
        exact .eqText hop (iha _ _ ha) (ihb _ _ hb)
      · cases h
    · cases h
  | recv => intro Γ τ h; simp only [check] at h; cases h; exact .recv
  | var x =>
    intro Γ τ h
    simp only [check] at h
    cases hx : lookupTy Γ x with
    | none => simp [hx] at h
    | some t =>
      simp only [hx, Option.map_some, Option.some.injEq] at h
      subst h
      exact .var hx
  | dollar t c =>
    intro Γ τ h
    simp only [check] at h
    split at h
    · rename_i ht
      subst ht
      cases hc : colTypeOf d t c with
      | none => simp [hc] at h
      | some ct =>
        simp only [hc, Option.map_some, Option.some.injEq] at h
        subst h
        exact .dollar hc
    · cases h
  | attr e t c ih =>
    intro Γ τ h
    simp only [check] at h
    split at h
    · rename_i t' he
      split at h
      · rename_i ht
        subst ht
        cases hc : colTypeOf d t' c with
        | none => simp [hc] at h
        | some ct =>
          simp only [hc, Option.map_some, Option.some.injEq] at h
          subst h
          exact .attrRec (ih _ _ he) hc
      · cases h
    · rename_i t' he
      split at h
      · rename_i ht
        subst ht
        cases hc : colTypeOf d t' c with
        | none => simp [hc] at h
        | some ct =>
          simp only [hc, Option.bind_some] at h
          exact .attrRecs (ih _ _ he) hc h
      · cases h
    · cases h
  | kwEnd t ob =>
    intro Γ τ h
    simp only [check] at h
    split at h
    · rename_i hc
      cases h
      simp only [Bool.and_eq_true] at hc
      exact .kwEnd hc.1 (colsExistB_sound hc.2)
    · cases h
  | kw t k v rest ihv ihr =>
    intro Γ τ h
    simp only [check] at h
    split at h
    · rename_i ct a t' hc hv hr
      split at h
      · rename_i hcond
        cases h
        simp only [Bool.and_eq_true, beq_iff_eq, Bool.not_eq_true'] at hcond
        obtain ⟨⟨hk, rfl⟩, hres⟩ := hcond
        exact .kw hc (ihv _ _ hv) hk (ihr _ _ hr) hres
      · cases h
    · cases h
  | lookup one t args ih =>
    intro Γ τ h
    simp only [check] at h
    split at h
    · rename_i t' ha
      split at h
      · rename_i ht
        subst ht
        cases h
        cases one
        · exact .lookupRecords (ih _ _ ha)
        · exact .lookupOne (ih _ _ ha)
      · cases h
    · cases h
  | all t =>
    intro Γ τ h
    simp only [check] at h
    split at h
    · rename_i ht
      cases h
      exact .all ht
    · cases h
  | compr body x src ihb ihs =>
    intro Γ τ h
    simp only [check] at h
    split at h
    · rename_i t hs
      split at h
      · rename_i a hb
        cases h
        exact .compr (ihs _ _ hs) (ihb _ _ hb)
      · cases h
    · cases h
  | len e ih =>
    intro Γ τ h
    simp only [check] at h
    split at h
    · rename_i t he; cases h; exact .lenRecs (ih _ _ he)
    · rename_i a he; cases h; exact .lenList (ih _ _ he)
    · cases h
  | sum e ih =>
    intro Γ τ h
    simp only [check] at h
    split at h
    · rename_i he; cases h; exact .sum (ih _ _ he)
    · cases h
  | max e ih =>
    intro Γ τ h
    simp only [check] at h
    split at h
    · rename_i he; cases h; exact .max (ih _ _ he)
    · cases h
  | prevNext f e t gb ob ih =>
    intro Γ τ h
    simp only [check] at h
    split at h
    · rename_i t' he
      split at h
      · rename_i hcond
        cases h
        simp only [Bool.and_eq_true, decide_eq_true_eq] at hcond
        obtain ⟨⟨⟨rfl, h2⟩, h3⟩, h4⟩ := hcond
        exact .prevNext (ih _ _ he) h2 (colsExistB_sound h3) (colsExistB_sound h4)
      · cases h
    · cases h
  | ifE c a b ihc iha ihb =>
    intro Γ τ h
    simp only [check] at h
    split at h
    · rename_i τ1 τ2 hc ha hb
      split at h
      · rename_i heq
        subst heq
        cases h
        exact .ifE (ihc _ _ hc) (iha _ _ ha) (ihb _ _ hb)
      · cases h
    · cases h

end Grist.FormulaRename
