/-
Helper development for C15 (GristProps/C15.lean): characterisation of the mechanism of
GristModel/Trigger.lean in terms of per-user-action predicates.
-/
import GristModel.Trigger
namespace Grist.Trigger

/-! ### what a step does to `recompute_map[c]` / `_prevent_recompute_map[c]`, as predicates -/

/-- upper bound of the rows a doc step marks dirty -/
def rawDoc (env : Env) (edges : List Nat) (r : Nat) : DocStep → Bool
  | .add rows => rows.contains r && !edges.isEmpty
  | .update rows cols => rows.contains r && cols.any (hit env edges)
  | .remove rows => rows.contains r && !edges.isEmpty

/-- lower bound (rows of a removal are dirty only if they existed) -/
def rawDocLo (env : Env) (edges : List Nat) (r : Nat) : DocStep → Bool
  | .add rows => rows.contains r && !edges.isEmpty
  | .update rows cols => rows.contains r && cols.any (hit env edges)
  | .remove _ => false

def prevDoc (env : Env) (r : Nat) : DocStep → Bool
  | .update rows cols => cols.contains env.c && rows.contains r
  | _ => false

def rawUp (env : Env) (edges : List Nat) (cfg : Config) (r : Nat) : UA → Bool
  | .add rows supplied =>
      rows.contains r && (!edges.isEmpty || (!supplied.contains env.c && cfg.when != .never))
  | .update rows cols diff =>
      (keptRows rows cols diff).contains r &&
        ((keptCols rows cols diff).any (hit env edges) || cfg.when == .manual)
  | .remove rows => rows.contains r && !edges.isEmpty
  | .doc steps => steps.any (rawDoc env edges r)
  | _ => false

def rawLo (env : Env) (edges : List Nat) (cfg : Config) (r : Nat) : UA → Bool
  | .add rows supplied =>
      rows.contains r && (!edges.isEmpty || (!supplied.contains env.c && cfg.when != .never))
  | .update rows cols diff =>
      (keptRows rows cols diff).contains r &&
        ((keptCols rows cols diff).any (hit env edges) || cfg.when == .manual)
  | .doc steps => steps.any (rawDocLo env edges r)
  | _ => false

def prevUA (env : Env) (cfg : Config) (r : Nat) : UA → Bool
  | .update rows cols diff =>
      (keptCols rows cols diff).contains env.c && (keptRows rows cols diff).contains r && !selfDep env cfg
  | .doc steps => steps.any (prevDoc env r)
  | _ => false

/-! ### state transformers -/

theorem invalidateAll_fields (st : MState) (rows : List Nat) :
    (invalidateAll st rows).cfg = st.cfg ∧ (invalidateAll st rows).edges = st.edges ∧
    (invalidateAll st rows).alive = st.alive ∧ (invalidateAll st rows).prevented = st.prevented := by
  unfold invalidateAll; split <;> simp

theorem invalidateAll_dirty (st : MState) (rows : List Nat) (r : Nat) :
    r ∈ (invalidateAll st rows).dirty ↔ r ∈ st.dirty ∨ (st.edges.isEmpty = false ∧ r ∈ rows) := by
  unfold invalidateAll
  split
  · rename_i h; simp at h; simp [h]
  · rename_i h; simp at h; simp [h]

theorem invalidateCols_fields (env : Env) (st : MState) (cols rows : List Nat) :
    (invalidateCols env st cols (.some rows)).cfg = st.cfg ∧
    (invalidateCols env st cols (.some rows)).edges = st.edges ∧
    (invalidateCols env st cols (.some rows)).alive = st.alive ∧
    (invalidateCols env st cols (.some rows)).prevented = st.prevented := by
  unfold invalidateCols; split <;> simp

theorem invalidateCols_dirty (env : Env) (st : MState) (cols rows : List Nat) (r : Nat) :
    r ∈ (invalidateCols env st cols (.some rows)).dirty ↔
      r ∈ st.dirty ∨ (cols.any (hit env st.edges) = true ∧ r ∈ rows) := by
  unfold invalidateCols
  split
  · rename_i h; simp [singleRowsAffected, h]
  · rename_i h; simp [h]

/-- `SingleRowsIdentityRelation`: invalidating ALL_ROWS of a column marks no cell of `c`. -/
theorem invalidateCol_all (env : Env) (st : MState) (x : Nat) :
    (invalidateCol env st x .all).cfg = st.cfg ∧ (invalidateCol env st x .all).edges = st.edges ∧
    (invalidateCol env st x .all).alive = st.alive ∧
    (invalidateCol env st x .all).prevented = st.prevented ∧
    (invalidateCol env st x .all).dirty = st.dirty := by
  unfold invalidateCol; split <;> simp [singleRowsAffected]


/-! ### one doc step -/

structure StepChar (env : Env) (st st' : MState) (alive' : List Nat)
    (up lo pv : Nat → Bool) : Prop where
  cfg : st'.cfg = st.cfg
  edges : st'.edges = st.edges
  alive : st'.alive = alive'
  dirtyUp : ∀ r, r ∈ st'.dirty → r ∈ st.dirty ∨ up r = true
  dirtyLo : ∀ r, r ∈ st.dirty ∨ lo r = true → r ∈ st'.dirty
  prev : ∀ r, r ∈ st'.prevented ↔ r ∈ st.prevented ∨ pv r = true

theorem docAdd_char (env : Env) (st st' : MState) (rows : List Nat) (h : docAdd st rows = .ok st') :
    StepChar env st st' (st.alive ++ rows) (fun r => rawDoc env st.edges r (.add rows))
      (fun r => rawDocLo env st.edges r (.add rows)) (fun r => prevDoc env r (.add rows)) := by
  unfold docAdd at h
  split at h
  · cases h
  · injection h with h; subst h
    have hf := invalidateAll_fields { st with alive := st.alive ++ rows } rows
    refine ⟨hf.1, hf.2.1, hf.2.2.1, ?_, ?_, ?_⟩
    · intro r hr
      rw [invalidateAll_dirty] at hr
      rcases hr with hr | ⟨he, hr⟩
      · exact Or.inl hr
      · right; simp [rawDoc, hr]; simpa using he
    · intro r hr
      rw [invalidateAll_dirty]
      rcases hr with hr | hr
      · exact Or.inl hr
      · right; simp [rawDocLo] at hr; simpa using ⟨hr.2, hr.1⟩
    · intro r; rw [hf.2.2.2]; simp [prevDoc]

theorem docUpdate_char (env : Env) (st st' : MState) (rows cols : List Nat)
    (h : docUpdate env st rows cols = .ok st') :
    StepChar env st st' st.alive (fun r => rawDoc env st.edges r (.update rows cols))
      (fun r => rawDocLo env st.edges r (.update rows cols)) (fun r => prevDoc env r (.update rows cols)) := by
  unfold docUpdate at h
  split at h
  · cases h
  · injection h with h; subst h
    by_cases hc : cols.contains env.c = true
    · simp only [hc, if_true]
      have hc' : env.c ∈ cols := by simpa using hc
      have hf := invalidateCols_fields env { st with prevented := st.prevented ++ rows } cols rows
      refine ⟨hf.1, hf.2.1, hf.2.2.1, ?_, ?_, ?_⟩
      · intro r hr
        rw [invalidateCols_dirty] at hr
        rcases hr with hr | ⟨he, hr⟩
        · exact Or.inl hr
        · right; simp only [rawDoc]; simp [hr]; simpa using he
      · intro r hr
        rw [invalidateCols_dirty]
        rcases hr with hr | hr
        · exact Or.inl hr
        · right; simp only [rawDocLo, Bool.and_eq_true] at hr; exact ⟨hr.2, by simpa using hr.1⟩
      · intro r; rw [hf.2.2.2]; simp [prevDoc, hc']
    · have hc' : cols.contains env.c = false := by simpa using hc
      simp only [hc', Bool.false_eq_true, if_false]
      have hf := invalidateCols_fields env st cols rows
      refine ⟨hf.1, hf.2.1, hf.2.2.1, ?_, ?_, ?_⟩
      · intro r hr
        rw [invalidateCols_dirty] at hr
        rcases hr with hr | ⟨he, hr⟩
        · exact Or.inl hr
        · right; simp only [rawDoc]; simp [hr]; simpa using he
      · intro r hr
        rw [invalidateCols_dirty]
        rcases hr with hr | hr
        · exact Or.inl hr
        · right; simp only [rawDocLo, Bool.and_eq_true] at hr; exact ⟨hr.2, by simpa using hr.1⟩
      · intro r; rw [hf.2.2.2]
        have hc2 : env.c ∉ cols := by simpa using hc'
        simp [prevDoc, hc2]

theorem docRemove_char (env : Env) (st : MState) (rows : List Nat) :
    StepChar env st (docRemove st rows) (st.alive.filter (fun r => !rows.contains r))
      (fun r => rawDoc env st.edges r (.remove rows))
      (fun r => rawDocLo env st.edges r (.remove rows)) (fun r => prevDoc env r (.remove rows)) := by
  unfold docRemove
  have hf := invalidateAll_fields { st with alive := st.alive.filter (fun r => !rows.contains r) }
    (rows.filter st.alive.contains)
  refine ⟨hf.1, hf.2.1, hf.2.2.1, ?_, ?_, ?_⟩
  · intro r hr
    rw [invalidateAll_dirty] at hr
    rcases hr with hr | ⟨he, hr⟩
    · exact Or.inl hr
    · right
      simp only [List.mem_filter] at hr
      simp only [rawDoc]; simp [hr.1]; simpa using he
  · intro r hr
    rw [invalidateAll_dirty]
    rcases hr with hr | hr
    · exact Or.inl hr
    · simp [rawDocLo] at hr
  · intro r; rw [hf.2.2.2]; simp [prevDoc]

theorem stepDoc_char (env : Env) (st st' : MState) (s : DocStep) (h : stepDoc env st s = .ok st') :
    StepChar env st st' (aliveAfterDoc st.alive s) (fun r => rawDoc env st.edges r s)
      (fun r => rawDocLo env st.edges r s) (fun r => prevDoc env r s) := by
  cases s with
  | add rows => exact docAdd_char env st st' rows h
  | update rows cols => exact docUpdate_char env st st' rows cols h
  | remove rows =>
    simp only [stepDoc] at h
    injection h with h; subst h
    exact docRemove_char env st rows


theorem runDoc_char (env : Env) : ∀ (steps : List DocStep) (st st' : MState),
    runDoc env st steps = .ok st' →
    StepChar env st st' (steps.foldl aliveAfterDoc st.alive)
      (fun r => steps.any (rawDoc env st.edges r))
      (fun r => steps.any (rawDocLo env st.edges r)) (fun r => steps.any (prevDoc env r)) := by
  intro steps
  induction steps with
  | nil =>
    intro st st' h
    simp only [runDoc] at h
    injection h with h; subst h
    exact ⟨rfl, rfl, rfl, fun r hr => Or.inl hr, fun r hr => by simpa using hr, fun r => by simp⟩
  | cons s rest ih =>
    intro st st' h
    simp only [runDoc] at h
    cases hs : stepDoc env st s with
    | error e => simp [hs, bind, Except.bind] at h
    | ok st1 =>
      simp only [hs, bind, Except.bind] at h
      have c1 := stepDoc_char env st st1 s hs
      have c2 := ih st1 st' h
      refine ⟨c2.cfg.trans c1.cfg, c2.edges.trans c1.edges, ?_, ?_, ?_, ?_⟩
      · rw [c2.alive, c1.alive]; rfl
      · intro r hr
        rcases c2.dirtyUp r hr with h1 | h1
        · rcases c1.dirtyUp r h1 with h2 | h2
          · exact Or.inl h2
          · right; simp only [List.any_cons, Bool.or_eq_true]; exact Or.inl h2
        · right; rw [c1.edges] at h1; simp only [List.any_cons, Bool.or_eq_true]; exact Or.inr h1
      · intro r hr
        apply c2.dirtyLo
        rcases hr with hr | hr
        · exact Or.inl (c1.dirtyLo r (Or.inl hr))
        · simp only [List.any_cons, Bool.or_eq_true] at hr
          rcases hr with hr | hr
          · exact Or.inl (c1.dirtyLo r (Or.inr hr))
          · right; rw [c1.edges]; exact hr
      · intro r
        rw [c2.prev, c1.prev]
        simp only [List.any_cons, Bool.or_eq_true]
        constructor
        · rintro ((h1 | h1) | h1)
          · exact Or.inl h1
          · exact Or.inr (Or.inl h1)
          · exact Or.inr (Or.inr h1)
        · rintro (h1 | h1 | h1)
          · exact Or.inl (Or.inl h1)
          · exact Or.inl (Or.inr h1)
          · exact Or.inr h1


/-! ### one user action -/

structure UAChar (env : Env) (st st' : MState) (ua : UA) : Prop where
  cfg : st'.cfg = cfgAfter st.cfg ua
  edges : st'.edges = st.edges
  alive : st'.alive = aliveAfterUA st.alive ua
  dirtyUp : ∀ r, r ∈ st'.dirty → r ∈ st.dirty ∨ rawUp env st.edges st.cfg r ua = true
  dirtyLo : ∀ r, r ∈ st.dirty ∨ rawLo env st.edges st.cfg r ua = true → r ∈ st'.dirty
  prev : ∀ r, r ∈ st'.prevented ↔ prevUA env st.cfg r ua = true

theorem userAdd_char (env : Env) (st st' : MState) (rows supplied : List Nat)
    (h : userAdd env { st with prevented := [] } rows supplied = .ok st') :
    UAChar env st st' (.add rows supplied) := by
  unfold userAdd at h
  cases hs : docAdd { st with prevented := [] } rows with
  | error e => simp [hs, bind, Except.bind] at h
  | ok st1 =>
    simp only [hs, bind, Except.bind, pure, Except.pure] at h
    injection h with h
    have c1 := docAdd_char env _ st1 rows hs
    have hf := invalidateAll_fields st1 rows
    have hd := invalidateAll_dirty st1 rows
    have e1 : st1.edges = st.edges := c1.edges
    have g1 : st1.cfg = st.cfg := c1.cfg
    by_cases hin : (!supplied.contains env.c && st1.cfg.when != RecalcWhen.never) = true
    · simp only [hin, if_true] at h
      subst h
      refine ⟨by simp [hf.1, g1, cfgAfter], by simp [hf.2.1, e1], by simp [hf.2.2.1, c1.alive, aliveAfterUA], ?_, ?_, ?_⟩
      · intro r hr
        simp only [List.mem_append] at hr
        rw [g1] at hin
        rcases hr with hr | hr
        · rw [hd] at hr
          rcases hr with hr | ⟨he, hr⟩
          · rcases c1.dirtyUp r hr with h2 | h2
            · exact Or.inl h2
            · right; simp only [rawDoc, Bool.and_eq_true] at h2
              simp only [rawUp, Bool.and_eq_true, Bool.or_eq_true]; exact ⟨h2.1, Or.inl h2.2⟩
          · right; rw [e1] at he
            simp only [rawUp, Bool.and_eq_true, Bool.or_eq_true]
            exact ⟨by simpa using hr, Or.inl (by simp [he])⟩
        · right
          simp only [rawUp, Bool.and_eq_true, Bool.or_eq_true]
          exact ⟨by simpa using hr, Or.inr (by simpa using hin)⟩
      · intro r hr
        simp only [List.mem_append]
        rcases hr with hr | hr
        · left; rw [hd]; exact Or.inl (c1.dirtyLo r (Or.inl hr))
        · simp only [rawLo, Bool.and_eq_true, Bool.or_eq_true] at hr
          right; simpa using hr.1
      · intro r
        simp only [hf.2.2.2, c1.prev, prevDoc, prevUA]
        simp
    · have hin' : (!supplied.contains env.c && st1.cfg.when != RecalcWhen.never) = false := by
        simpa using hin
      simp only [hin', Bool.false_eq_true, if_false] at h
      subst h
      refine ⟨by simp [hf.1, g1, cfgAfter], by simp [hf.2.1, e1], by simp [hf.2.2.1, c1.alive, aliveAfterUA], ?_, ?_, ?_⟩
      · intro r hr
        rw [hd] at hr
        rcases hr with hr | ⟨he, hr⟩
        · rcases c1.dirtyUp r hr with h2 | h2
          · exact Or.inl h2
          · right; simp only [rawDoc, Bool.and_eq_true] at h2
            simp only [rawUp, Bool.and_eq_true, Bool.or_eq_true]; exact ⟨h2.1, Or.inl h2.2⟩
        · right; rw [e1] at he
          simp only [rawUp, Bool.and_eq_true, Bool.or_eq_true]
          exact ⟨by simpa using hr, Or.inl (by simp [he])⟩
      · intro r hr
        rw [hd]
        rcases hr with hr | hr
        · exact Or.inl (c1.dirtyLo r (Or.inl hr))
        · simp only [rawLo, Bool.and_eq_true, Bool.or_eq_true] at hr
          rw [g1] at hin'
          rcases hr.2 with h2 | h2
          · right; rw [e1]; exact ⟨by simpa using h2, by simpa using hr.1⟩
          · exfalso
            have h3 : (!supplied.contains env.c && st.cfg.when != RecalcWhen.never) = true := by
              simp only [Bool.and_eq_true]; exact h2
            rw [h3] at hin'; cases hin'
      · intro r
        simp only [hf.2.2.2, c1.prev, prevDoc, prevUA]
        simp


/-- the doc action inside `doBulkUpdateRecord` (absent when no row is left) -/
theorem userUpdate_doc (env : Env) (st st1 : MState) (kr kc : List Nat)
    (h : userUpdateDoc env { st with prevented := [] } kr kc = .ok st1) :
    st1.cfg = st.cfg ∧ st1.edges = st.edges ∧ st1.alive = st.alive ∧
    (∀ r, r ∈ st1.dirty ↔ r ∈ st.dirty ∨ (kr.contains r = true ∧ kc.any (hit env st.edges) = true)) ∧
    (∀ r, r ∈ st1.prevented ↔ (kc.contains env.c = true ∧ kr.contains r = true)) := by
  unfold userUpdateDoc at h
  by_cases hk : kr.isEmpty = true
  · simp only [hk, if_true] at h
    injection h with h; subst h
    have : kr = [] := by simpa using hk
    subst this
    simp
  · have hk' : kr.isEmpty = false := by simpa using hk
    simp only [hk', Bool.false_eq_true, if_false] at h
    have c := docUpdate_char env _ st1 kr kc h
    refine ⟨c.cfg, c.edges, c.alive, ?_, ?_⟩
    · intro r
      constructor
      · intro hr
        rcases c.dirtyUp r hr with h1 | h1
        · exact Or.inl h1
        · right; simpa [rawDoc] using h1
      · intro hr
        apply c.dirtyLo
        rcases hr with h1 | h1
        · exact Or.inl h1
        · right; simpa [rawDocLo] using h1
    · intro r
      rw [c.prev]
      simp [prevDoc]

theorem userUpdatePost_fields (env : Env) (st : MState) (kr kc : List Nat) :
    (userUpdatePost env st kr kc).cfg = st.cfg ∧ (userUpdatePost env st kr kc).edges = st.edges ∧
    (userUpdatePost env st kr kc).alive = st.alive := by
  unfold userUpdatePost
  split
  · simp
  · dsimp only
    split <;> split <;> simp

theorem userUpdatePost_dirty (env : Env) (st : MState) (kr kc : List Nat) (r : Nat) :
    r ∈ (userUpdatePost env st kr kc).dirty ↔
      r ∈ st.dirty ∨ (kc.isEmpty = false ∧ (st.cfg.when == RecalcWhen.manual) = true ∧ r ∈ kr) := by
  unfold userUpdatePost
  split
  · rename_i h; simp [h]
  · rename_i h
    have h' : kc.isEmpty = false := by simpa using h
    dsimp only
    split <;> split <;> simp_all

theorem userUpdatePost_prev (env : Env) (st : MState) (kr kc : List Nat) (r : Nat)
    (hp : ∀ r, r ∈ st.prevented ↔ (kc.contains env.c = true ∧ kr.contains r = true)) :
    r ∈ (userUpdatePost env st kr kc).prevented ↔
      (kc.contains env.c = true ∧ kr.contains r = true ∧ selfDep env st.cfg = false) := by
  unfold userUpdatePost
  split
  · rename_i h
    have : kc = [] := by simpa using h
    subst this
    rw [hp]; simp
  · dsimp only
    have hcfg : (if (st.cfg.when == RecalcWhen.manual) = true
        then { st with dirty := st.dirty ++ kr } else st).cfg = st.cfg := by split <;> rfl
    have hpv : (if (st.cfg.when == RecalcWhen.manual) = true
        then { st with dirty := st.dirty ++ kr } else st).prevented = st.prevented := by split <;> rfl
    rw [hcfg]
    split
    · rename_i h
      simp only [Bool.and_eq_true] at h
      simp only [List.mem_filter, hpv, hp]
      simp [h.2]
    · rename_i h
      rw [hpv, hp]
      cases hc : kc.contains env.c <;> cases hs : selfDep env st.cfg <;> simp_all

theorem userUpdate_char (env : Env) (st st' : MState) (rows cols : List Nat) (diff : List (Nat × Nat))
    (h : userUpdate env { st with prevented := [] } rows cols diff = .ok st') :
    UAChar env st st' (.update rows cols diff) := by
  unfold userUpdate at h
  generalize hkc : keptCols rows cols diff = kc at h
  generalize hkr : keptRows rows cols diff = kr at h
  cases hs : userUpdateDoc env { st with prevented := [] } kr kc with
  | error e => simp [hs] at h
  | ok st1 =>
    simp only [hs] at h
    injection h with h
    subst h
    obtain ⟨g1, e1, a1, d1, p1⟩ := userUpdate_doc env st st1 kr kc hs
    obtain ⟨f1, f2, f3⟩ := userUpdatePost_fields env st1 kr kc
    have hkrc : ∀ r, kr.contains r = true → kc.isEmpty = false := by
      intro r hr
      rw [← hkr] at hr
      simp only [keptRows, List.contains_eq_mem, List.mem_filter, decide_eq_true_eq] at hr
      rw [hkc] at hr
      cases kc with
      | nil => simp at hr
      | cons a t => rfl
    refine ⟨by simp [f1, g1, cfgAfter], by rw [f2, e1], by simp [f3, a1, aliveAfterUA], ?_, ?_, ?_⟩
    · intro r hr
      rw [userUpdatePost_dirty, d1, g1] at hr
      simp only [rawUp, hkr, hkc, Bool.and_eq_true, Bool.or_eq_true]
      rcases hr with (h1 | h1) | h1
      · exact Or.inl h1
      · exact Or.inr ⟨h1.1, Or.inl h1.2⟩
      · exact Or.inr ⟨by simpa using h1.2.2, Or.inr h1.2.1⟩
    · intro r hr
      rw [userUpdatePost_dirty, d1, g1]
      rcases hr with hr | hr
      · exact Or.inl (Or.inl hr)
      · simp only [rawLo, hkr, hkc, Bool.and_eq_true, Bool.or_eq_true] at hr
        rcases hr.2 with h2 | h2
        · exact Or.inl (Or.inr ⟨hr.1, h2⟩)
        · exact Or.inr ⟨hkrc r hr.1, h2, by simpa using hr.1⟩
    · intro r
      rw [userUpdatePost_prev env st1 kr kc r p1, g1]
      simp only [prevUA, hkr, hkc, Bool.and_eq_true]
      constructor
      · rintro ⟨h1, h2, h3⟩; exact ⟨⟨h1, h2⟩, by simp [h3]⟩
      · rintro ⟨⟨h1, h2⟩, h3⟩; exact ⟨h1, h2, by simpa using h3⟩


theorem stepUA_char (env : Env) (st st' : MState) (ua : UA) (h : stepUA env st ua = .ok st') :
    UAChar env st st' ua := by
  unfold stepUA at h
  cases ua with
  | add rows supplied => exact userAdd_char env st st' rows supplied h
  | update rows cols diff => exact userUpdate_char env st st' rows cols diff h
  | remove rows =>
    simp only at h
    injection h with h; subst h
    have c := docRemove_char env { st with prevented := [] } rows
    refine ⟨c.cfg, c.edges, c.alive, ?_, ?_, ?_⟩
    · intro r hr; exact c.dirtyUp r hr
    · intro r hr
      apply c.dirtyLo
      rcases hr with hr | hr
      · exact Or.inl hr
      · simp [rawLo] at hr
    · intro r; rw [c.prev]; simp [prevDoc, prevUA]
  | setConfig cfg =>
    simp only at h
    injection h with h; subst h
    exact ⟨rfl, rfl, rfl, fun r hr => Or.inl hr, fun r hr => by simpa [rawLo] using hr,
      fun r => by simp [prevUA]⟩
  | schema col =>
    simp only at h
    injection h with h; subst h
    obtain ⟨h1, h2, h3, h4, h5⟩ := invalidateCol_all env { st with prevented := [] } col
    refine ⟨h1, h2, h3, ?_, ?_, ?_⟩
    · intro r hr; rw [h5] at hr; exact Or.inl hr
    · intro r hr; rw [h5]; simpa [rawLo] using hr
    · intro r; rw [h4]; simp [prevUA]
  | doc steps =>
    simp only at h
    have c := runDoc_char env steps { st with prevented := [] } st' h
    refine ⟨c.cfg, c.edges, c.alive, ?_, ?_, ?_⟩
    · intro r hr; exact c.dirtyUp r hr
    · intro r hr; exact c.dirtyLo r hr
    · intro r; rw [c.prev]; simp [prevUA]

/-! ### a whole bundle -/

theorem annot_eq_nil (cfg : Config) (b : List UA) : annot cfg b = [] ↔ b = [] := by
  cases b <;> simp [annot]

theorem runUAs_char (env : Env) : ∀ (b : List UA) (st st' : MState), runUAs env st b = .ok st' →
    st'.edges = st.edges ∧ st'.alive = aliveAfter st.alive b ∧
    (∀ r, r ∈ st'.dirty → r ∈ st.dirty ∨ ∃ cu ∈ annot st.cfg b, rawUp env st.edges cu.1 r cu.2 = true) ∧
    (∀ r, (r ∈ st.dirty ∨ ∃ cu ∈ annot st.cfg b, rawLo env st.edges cu.1 r cu.2 = true) → r ∈ st'.dirty) ∧
    (∀ r, r ∈ st'.prevented ↔
      match (annot st.cfg b).getLast? with
      | none => r ∈ st.prevented
      | some cu => prevUA env cu.1 r cu.2 = true) := by
  intro b
  induction b with
  | nil =>
    intro st st' h
    simp only [runUAs] at h
    injection h with h; subst h
    simp [aliveAfter, annot]
  | cons ua rest ih =>
    intro st st' h
    simp only [runUAs] at h
    cases hs : stepUA env st ua with
    | error e => simp [hs, bind, Except.bind] at h
    | ok st1 =>
      simp only [hs, bind, Except.bind] at h
      have c1 := stepUA_char env st st1 ua hs
      obtain ⟨e2, a2, u2, l2, p2⟩ := ih st1 st' h
      refine ⟨e2.trans c1.edges, ?_, ?_, ?_, ?_⟩
      · rw [a2, c1.alive]; rfl
      · intro r hr
        rcases u2 r hr with h1 | ⟨cu, hcu, h1⟩
        · rcases c1.dirtyUp r h1 with h2 | h2
          · exact Or.inl h2
          · exact Or.inr ⟨(st.cfg, ua), by simp [annot], h2⟩
        · right
          rw [c1.edges] at h1
          rw [c1.cfg] at hcu
          exact ⟨cu, by simp [annot, hcu], h1⟩
      · intro r hr
        apply l2
        rcases hr with hr | ⟨cu, hcu, h1⟩
        · exact Or.inl (c1.dirtyLo r (Or.inl hr))
        · simp only [annot, List.mem_cons] at hcu
          rcases hcu with hcu | hcu
          · subst hcu; exact Or.inl (c1.dirtyLo r (Or.inr h1))
          · right; rw [c1.edges, c1.cfg]; exact ⟨cu, hcu, h1⟩
      · intro r
        rw [p2]
        simp only [annot]
        rw [c1.cfg]
        cases hr : annot (cfgAfter st.cfg ua) rest with
        | nil =>
          simp only [List.getLast?_nil, List.getLast?_singleton]
          exact c1.prev r
        | cons x xs =>
          rw [List.getLast?_cons_cons]
          cases hl : (x :: xs).getLast? with
          | none => simp at hl
          | some y => exact Iff.rfl


/-! ### mechanism predicates versus specification predicates -/

theorem any_hit_edgesOf (env : Env) (cfg : Config) (cols : List Nat) :
    cols.any (hit env (edgesOf cfg)) = (cfg.when == RecalcWhen.dflt && depTouched env cfg cols) := by
  rw [Bool.eq_iff_iff]
  unfold edgesOf hit depTouched
  cases hw : cfg.when <;> simp
  constructor
  · rintro ⟨x, hx, e, he, h⟩
    refine ⟨e, he, ?_⟩
    rcases h with h | h
    · left; rw [h]; exact hx
    · right; exact ⟨x, h, hx⟩
  · rintro ⟨e, he, h⟩
    rcases h with h | ⟨x, h, hx⟩
    · exact ⟨e, h, e, he, Or.inl rfl⟩
    · exact ⟨x, hx, e, he, Or.inr h⟩

theorem hit_nil (env : Env) (cols : List Nat) : cols.any (hit env []) = false := by
  simp [hit]

theorem selfDep_edges (env : Env) (cfg : Config) (h : selfDep env cfg = true) :
    (edgesOf cfg).isEmpty = false := by
  simp only [selfDep, Bool.and_eq_true, beq_iff_eq] at h
  unfold edgesOf
  rw [h.1]
  have : env.c ∈ cfg.deps := by simpa using h.2
  cases hd : cfg.deps with
  | nil => rw [hd] at this; simp at this
  | cons a t => rfl

theorem edges_nonempty_dflt (cfg : Config) (h : (edgesOf cfg).isEmpty = false) :
    cfg.when = RecalcWhen.dflt := by
  unfold edgesOf at h
  cases hw : cfg.when <;> simp [hw] at h <;> rfl


def removesDoc (r : Nat) : DocStep → Bool
  | .remove rows => rows.contains r
  | _ => false

def removes (r : Nat) : UA → Bool
  | .remove rows => rows.contains r
  | .doc steps => steps.any (removesDoc r)
  | _ => false

/-- everything the property wants recalculated is marked dirty -/
theorem trig_rawLo (env : Env) (cfg : Config) (r : Nat) (ua : UA)
    (h : trig env cfg r ua = true) : rawLo env (edgesOf cfg) cfg r ua = true := by
  cases ua with
  | add rows supplied =>
    simp only [trig, Bool.and_eq_true, Bool.or_eq_true] at h
    simp only [rawLo, Bool.and_eq_true, Bool.or_eq_true]
    refine ⟨h.1, ?_⟩
    rcases h.2.2 with h2 | h2
    · exact Or.inr ⟨h2, h.2.1⟩
    · left; rw [selfDep_edges env cfg h2]; rfl
  | update rows cols diff =>
    simp only [trig, Bool.and_eq_true, Bool.or_eq_true] at h
    simp only [rawLo, Bool.and_eq_true, Bool.or_eq_true, any_hit_edgesOf]
    exact h
  | remove rows => simp [trig] at h
  | setConfig c => simp [trig] at h
  | schema c => simp [trig] at h
  | doc steps =>
    simp only [trig, List.any_eq_true] at h
    obtain ⟨s, hs, h⟩ := h
    simp only [rawLo, List.any_eq_true]
    refine ⟨s, hs, ?_⟩
    cases s with
    | add rows => simp [trigDoc] at h
    | remove rows => simp [trigDoc] at h
    | update rows cols =>
      simp only [trigDoc] at h
      simp only [rawDocLo, any_hit_edgesOf]
      exact h

theorem rawUp_cases (env : Env) (edges : List Nat) (cfg : Config) (r : Nat) (ua : UA)
    (h : rawUp env edges cfg r ua = true) :
    rawLo env edges cfg r ua = true ∨ (removes r ua = true ∧ edges.isEmpty = false) := by
  cases ua with
  | add rows supplied => left; exact h
  | update rows cols diff => left; exact h
  | remove rows =>
    right
    simp only [rawUp, Bool.and_eq_true] at h
    exact ⟨h.1, by simpa using h.2⟩
  | setConfig c => simp [rawUp] at h
  | schema c => simp [rawUp] at h
  | doc steps =>
    simp only [rawUp, List.any_eq_true] at h
    obtain ⟨s, hs, h⟩ := h
    cases s with
    | add rows => left; simp only [rawLo, List.any_eq_true]; exact ⟨_, hs, h⟩
    | update rows cols => left; simp only [rawLo, List.any_eq_true]; exact ⟨_, hs, h⟩
    | remove rows =>
      right
      simp only [rawDoc, Bool.and_eq_true] at h
      refine ⟨?_, by simpa using h.2⟩
      simp only [removes, List.any_eq_true]
      exact ⟨_, hs, h.1⟩

theorem rawUp_mentions (env : Env) (edges : List Nat) (cfg : Config) (r : Nat) (ua : UA)
    (h : rawUp env edges cfg r ua = true) : mentions r ua = true := by
  cases ua with
  | add rows supplied => simp only [rawUp, Bool.and_eq_true] at h; exact h.1
  | update rows cols diff =>
    simp only [rawUp, Bool.and_eq_true] at h
    have := h.1
    simp only [keptRows, List.contains_eq_mem, List.mem_filter, decide_eq_true_eq] at this
    simpa [mentions] using this.1
  | remove rows => simp only [rawUp, Bool.and_eq_true] at h; exact h.1
  | setConfig c => simp [rawUp] at h
  | schema c => simp [rawUp] at h
  | doc steps =>
    simp only [rawUp, List.any_eq_true] at h
    obtain ⟨s, hs, h⟩ := h
    simp only [mentions, List.any_eq_true]
    refine ⟨s, hs, ?_⟩
    cases s <;> simp only [rawDoc, Bool.and_eq_true] at h <;> exact h.1

/-- what the mechanism exempts was set explicitly -/
theorem prevUA_prot (env : Env) (cfg : Config) (r : Nat) (ua : UA)
    (h : prevUA env cfg r ua = true) : prot env cfg r ua = true := by
  cases ua with
  | add rows supplied => simp [prevUA] at h
  | update rows cols diff =>
    simp only [prevUA, Bool.and_eq_true] at h
    obtain ⟨⟨h1, h2⟩, h3⟩ := h
    simp only [keptCols, List.contains_eq_mem, List.mem_filter, decide_eq_true_eq] at h1
    simp only [keptRows, List.contains_eq_mem, List.mem_filter, decide_eq_true_eq] at h2
    simp only [prot, Bool.and_eq_true]
    exact ⟨by simpa using h2.1, by simpa using h1.1, h3⟩
  | remove rows => simp [prevUA] at h
  | setConfig c => simp [prevUA] at h
  | schema c => simp [prevUA] at h
  | doc steps =>
    simp only [prevUA, List.any_eq_true] at h
    obtain ⟨s, hs, h⟩ := h
    simp only [prot, List.any_eq_true]
    refine ⟨s, hs, ?_⟩
    cases s with
    | add rows => simp [prevDoc] at h
    | remove rows => simp [prevDoc] at h
    | update rows cols =>
      simp only [prevDoc, Bool.and_eq_true] at h
      simp only [protDoc, Bool.and_eq_true]
      exact ⟨h.2, h.1⟩

/-- an explicit value either belongs to a record the action adds, or comes from an update naming
    `c`, which (if it survives trimming) is exempted by the mechanism -/
theorem prot_cases (env : Env) (cfg : Config) (r : Nat) (ua : UA)
    (h : prot env cfg r ua = true) :
    r ∈ addedRows ua ∨ (namesC env ua = true ∧ (trimOk env cfg ua = true → prevUA env cfg r ua = true)) := by
  cases ua with
  | add rows supplied =>
    left
    simp only [prot, Bool.and_eq_true] at h
    simpa [addedRows] using h.1
  | update rows cols diff =>
    right
    simp only [prot, Bool.and_eq_true] at h
    obtain ⟨h1, h2, h3⟩ := h
    refine ⟨h2, ?_⟩
    intro ht
    simp only [trimOk, h2, h3, Bool.and_self, Bool.not_true, Bool.false_or, Bool.and_eq_true,
      List.all_eq_true] at ht
    simp only [prevUA, Bool.and_eq_true]
    exact ⟨⟨ht.1, ht.2 r (by simpa using h1)⟩, h3⟩
  | remove rows => simp [prot] at h
  | setConfig c => simp [prot] at h
  | schema c => simp [prot] at h
  | doc steps =>
    simp only [prot, List.any_eq_true] at h
    obtain ⟨s, hs, h⟩ := h
    cases s with
    | add rows =>
      left
      simp only [protDoc] at h
      simp only [addedRows, List.mem_flatMap]
      exact ⟨_, hs, by simpa [addedRowsDoc] using h⟩
    | remove rows => simp [protDoc] at h
    | update rows cols =>
      right
      simp only [protDoc, Bool.and_eq_true] at h
      refine ⟨?_, fun _ => ?_⟩
      · simp only [namesC, List.any_eq_true]; exact ⟨_, hs, h.2⟩
      · simp only [prevUA, List.any_eq_true]
        exact ⟨_, hs, by simp only [prevDoc, Bool.and_eq_true]; exact ⟨h.2, h.1⟩⟩


theorem addedRows_doc_isDocAdd (steps : List DocStep) (r : Nat) (h : r ∈ addedRows (.doc steps)) :
    steps.any isDocAdd = true := by
  simp only [addedRows, List.mem_flatMap] at h
  obtain ⟨s, hs, h⟩ := h
  simp only [List.any_eq_true]
  refine ⟨s, hs, ?_⟩
  cases s <;> simp [addedRowsDoc] at h <;> rfl

/-- on the domain, what the mechanism marks dirty (other than through removals) is wanted by the
    property, and if the same user action also sets the cell explicitly, the mechanism exempts it -/
theorem rawLo_trig (env : Env) (cfg : Config) (r : Nat) (ua : UA)
    (ha : addOk env cfg ua = true) (ht : trimOk env cfg ua = true)
    (h : rawLo env (edgesOf cfg) cfg r ua = true) :
    trig env cfg r ua = true ∧
      (prot env cfg r ua = true → namesC env ua = true ∧ prevUA env cfg r ua = true) := by
  cases ua with
  | add rows supplied =>
    simp only [rawLo, Bool.and_eq_true, Bool.or_eq_true] at h
    simp only [addOk, Bool.or_eq_true] at ha
    cases hsup : supplied.contains env.c with
    | false =>
      constructor
      · simp only [trig, hsup, Bool.and_eq_true, Bool.or_eq_true]
        refine ⟨h.1, ?_, Or.inl rfl⟩
        rcases h.2 with h2 | h2
        · have : (edgesOf cfg).isEmpty = false := by simpa using h2
          rw [edges_nonempty_dflt cfg this]; rfl
        · exact h2.2
      · intro hp
        simp only [prot, hsup, Bool.false_and, Bool.and_false] at hp
        cases hp
    | true =>
      have hne : (edgesOf cfg).isEmpty = false := by
        rcases h.2 with h2 | h2
        · simpa using h2
        · rw [hsup] at h2; simp at h2
      have hsd : selfDep env cfg = true := by
        rcases ha with (h3 | h3) | h3
        · rw [hsup] at h3; simp at h3
        · exact h3
        · rw [hne] at h3; cases h3
      constructor
      · simp only [trig, hsd, Bool.and_eq_true, Bool.or_eq_true]
        refine ⟨h.1, ?_, Or.inr trivial⟩
        rw [edges_nonempty_dflt cfg hne]; rfl
      · intro hp
        simp only [prot, hsd, Bool.not_true, Bool.and_false] at hp
        cases hp
  | update rows cols diff =>
    constructor
    · simp only [rawLo, any_hit_edgesOf] at h
      exact h
    · intro hp
      rcases prot_cases env cfg r _ hp with h1 | h1
      · simp [addedRows] at h1
      · exact ⟨h1.1, h1.2 ht⟩
  | remove rows => simp [rawLo] at h
  | setConfig c => simp [rawLo] at h
  | schema c => simp [rawLo] at h
  | doc steps =>
    simp only [rawLo, List.any_eq_true] at h
    obtain ⟨s, hs, h⟩ := h
    simp only [addOk, Bool.or_eq_true] at ha
    have hno : steps.any isDocAdd = true → False := by
      intro hany
      have he : (edgesOf cfg).isEmpty = true := by
        rcases ha with h3 | h3
        · rw [hany] at h3; simp at h3
        · exact h3
      have hnil : edgesOf cfg = [] := by simpa using he
      cases s with
      | add rows => simp only [rawDocLo, Bool.and_eq_true] at h; rw [he] at h; simp at h
      | remove rows => simp [rawDocLo] at h
      | update rows cols =>
        simp only [rawDocLo, Bool.and_eq_true] at h
        rw [hnil, hit_nil] at h; cases h.2
    cases s with
    | add rows =>
      exact absurd (List.any_eq_true.mpr ⟨_, hs, rfl⟩) (fun x => hno x)
    | remove rows => simp [rawDocLo] at h
    | update rows cols =>
      constructor
      · simp only [trig, List.any_eq_true]
        refine ⟨_, hs, ?_⟩
        simp only [rawDocLo, any_hit_edgesOf] at h
        exact h
      · intro hp
        rcases prot_cases env cfg r _ hp with h1 | h1
        · exact absurd (addedRows_doc_isDocAdd steps r h1) (fun x => hno x)
        · exact ⟨h1.1, h1.2 ht⟩


/-! ### which records exist after the bundle -/

def aliveAfterL (alive : List Nat) (L : List (Config × UA)) : List Nat :=
  L.foldl (fun a cu => aliveAfterUA a cu.2) alive

theorem aliveAfter_annot : ∀ (b : List UA) (cfg : Config) (alive : List Nat),
    aliveAfterL alive (annot cfg b) = aliveAfter alive b := by
  intro b
  induction b with
  | nil => intro cfg alive; rfl
  | cons ua rest ih =>
    intro cfg alive
    simp only [annot, aliveAfterL, aliveAfter, List.foldl_cons]
    exact ih (cfgAfter cfg ua) (aliveAfterUA alive ua)

theorem not_alive_doc (r : Nat) : ∀ (steps : List DocStep) (a : List Nat), r ∉ a →
    (∀ s ∈ steps, r ∉ addedRowsDoc s) → r ∉ steps.foldl aliveAfterDoc a := by
  intro steps
  induction steps with
  | nil => intro a h _; exact h
  | cons s rest ih =>
    intro a h hs
    simp only [List.foldl_cons]
    apply ih
    · have h2 := hs s (by simp)
      cases s with
      | add rows => simp only [addedRowsDoc] at h2; simp [aliveAfterDoc, h, h2]
      | update rows cols => exact h
      | remove rows => simp [aliveAfterDoc, h]
    · intro s' hs'; exact hs s' (by simp [hs'])

theorem removed_doc (r : Nat) : ∀ (steps : List DocStep) (a : List Nat),
    (∀ s ∈ steps, r ∉ addedRowsDoc s) → steps.any (removesDoc r) = true →
    r ∉ steps.foldl aliveAfterDoc a := by
  intro steps
  induction steps with
  | nil => intro a _ h; simp at h
  | cons s rest ih =>
    intro a hs h
    simp only [List.foldl_cons]
    have hrest : ∀ s' ∈ rest, r ∉ addedRowsDoc s' := fun s' hs' => hs s' (by simp [hs'])
    simp only [List.any_cons, Bool.or_eq_true] at h
    rcases h with h | h
    · apply not_alive_doc r rest _ _ hrest
      cases s with
      | add rows => simp [removesDoc] at h
      | update rows cols => simp [removesDoc] at h
      | remove rows =>
        simp only [removesDoc] at h
        simp only [aliveAfterDoc, List.mem_filter, not_and]
        intro _; simp; simpa using h
    · exact ih _ hrest h

theorem not_mem_addedRows_doc (r : Nat) (steps : List DocStep) (h : r ∉ addedRows (.doc steps)) :
    ∀ s ∈ steps, r ∉ addedRowsDoc s := by
  intro s hs hr
  apply h
  simp only [addedRows, List.mem_flatMap]
  exact ⟨s, hs, hr⟩

theorem not_alive_UA (r : Nat) (a : List Nat) (ua : UA) (h : r ∉ a) (hn : r ∉ addedRows ua) :
    r ∉ aliveAfterUA a ua := by
  cases ua with
  | add rows supplied => simp only [addedRows] at hn; simp [aliveAfterUA, h, hn]
  | update rows cols diff => exact h
  | remove rows => simp [aliveAfterUA, h]
  | setConfig c => exact h
  | schema c => exact h
  | doc steps => exact not_alive_doc r steps a h (not_mem_addedRows_doc r steps hn)

theorem removed_UA (r : Nat) (a : List Nat) (ua : UA) (hr : removes r ua = true)
    (hn : r ∉ addedRows ua) : r ∉ aliveAfterUA a ua := by
  cases ua with
  | add rows supplied => simp [removes] at hr
  | update rows cols diff => simp [removes] at hr
  | remove rows =>
    simp only [removes] at hr
    simp only [aliveAfterUA, List.mem_filter, not_and]
    intro _; simp; simpa using hr
  | setConfig c => simp [removes] at hr
  | schema c => simp [removes] at hr
  | doc steps => exact removed_doc r steps a (not_mem_addedRows_doc r steps hn) hr

theorem not_alive_L (r : Nat) : ∀ (L : List (Config × UA)) (a : List Nat), r ∉ a →
    (∀ x ∈ L, r ∉ addedRows x.2) → r ∉ aliveAfterL a L := by
  intro L
  induction L with
  | nil => intro a h _; exact h
  | cons x rest ih =>
    intro a h hx
    simp only [aliveAfterL, List.foldl_cons]
    exact ih _ (not_alive_UA r a x.2 h (hx x (by simp))) (fun y hy => hx y (by simp [hy]))

theorem aliveAfterL_append (a : List Nat) (L1 L2 : List (Config × UA)) :
    aliveAfterL a (L1 ++ L2) = aliveAfterL (aliveAfterL a L1) L2 := by
  simp [aliveAfterL, List.foldl_append]

/-! ### the list-shaped hypotheses -/

theorem lastOk_split (env : Env) : ∀ (pre : List (Config × UA)) (cu : Config × UA)
    (post : List (Config × UA)), lastOk env (pre ++ cu :: post) = true → post ≠ [] →
    namesC env cu.2 = false := by
  intro pre
  induction pre with
  | nil =>
    intro cu post h hp
    simp only [List.nil_append, lastOk, Bool.and_eq_true, Bool.or_eq_true] at h
    rcases h.1 with h1 | h1
    · exact absurd (by simpa using h1) hp
    · simpa using h1
  | cons y rest ih =>
    intro cu post h hp
    simp only [List.cons_append, lastOk, Bool.and_eq_true] at h
    exact ih cu post h.2 hp

theorem freshOk_split : ∀ (pre : List (Config × UA)) (cu : Config × UA)
    (post : List (Config × UA)), freshOk (pre ++ cu :: post) = true →
    ∀ x ∈ post, ∀ r ∈ addedRows x.2, mentions r cu.2 = false := by
  intro pre
  induction pre with
  | nil =>
    intro cu post h x hx r hr
    simp only [List.nil_append, freshOk, Bool.and_eq_true, List.all_eq_true] at h
    have := h.1 x hx r hr
    simpa using this
  | cons y rest ih =>
    intro cu post h
    simp only [List.cons_append, freshOk, Bool.and_eq_true] at h
    exact ih cu post h.2

end Grist.Trigger
