/-
C09 helpers, part 3 (R2): all clean-up updates, then the removal.
-/
import GristProofs.MetaRefsCleanup
namespace Grist.Doc

def cleanupAct (d : Doc) (gone : List Nat) (sp : RefSpec) : Option DocAction :=
  match findTable? d sp.table with
  | some tb =>
    match tb.findCol? sp.col with
    | some col =>
      let rows := tb.rows.filter (fun r => cleanedCell sp.isList gone (col.cells r) != col.cells r)
      if rows.isEmpty then none
      else some (.bulkUpdate sp.table rows
        [(sp.col, rows.map (fun r => cleanedCell sp.isList gone (col.cells r)))])
    | none => none
  | none => none

theorem cleanupUpdates_eq (d : Doc) (specs : List RefSpec) (t : String) (gone : List Nat) :
    cleanupUpdates d specs t gone =
      (specs.filter (fun sp => sp.target == t)).filterMap (cleanupAct d gone) := rfl

theorem cleanupUpdates_cons (d : Doc) (sp : RefSpec) (rest : List RefSpec) (t : String)
    (gone : List Nat) :
    cleanupUpdates d (sp :: rest) t gone =
      (if sp.target == t then (cleanupAct d gone sp).toList else []) ++
        cleanupUpdates d rest t gone := by
  simp only [cleanupUpdates_eq, List.filter_cons]
  by_cases h : (sp.target == t) = true
  · simp only [h, ↓reduceIte, List.filterMap_cons]
    cases cleanupAct d gone sp <;> simp
  · simp [h]

theorem cleanup_rel {d : Doc} {t : String} {gone : List Nat} :
    ∀ (rest S : List RefSpec) (dk d1 : Doc), SpecTyped d rest → CleanRel S t gone d dk → WF dk →
      applyAll dk (cleanupUpdates d rest t gone) = .ok d1 →
      CleanRel (S ++ rest) t gone d d1 ∧ WF d1 := by
  intro rest
  induction rest with
  | nil =>
    intro S dk d1 _ hrel hwf h
    simp only [cleanupUpdates_eq, List.filter_nil, List.filterMap_nil, applyAll,
      Except.ok.injEq] at h
    subst h
    rw [List.append_nil]
    exact ⟨hrel, hwf⟩
  | cons sp rest ih =>
    intro S dk d1 hty hrel hwf h
    rw [cleanupUpdates_cons] at h
    have hS : S ++ sp :: rest = (S ++ [sp]) ++ rest := by simp
    rw [hS]
    have hty_sp := hty sp (by simp)
    have hty_rest : SpecTyped d rest := fun x hx => hty x (List.mem_cons_of_mem _ hx)
    by_cases htg : sp.target = t
    · have htg' : (sp.target == t) = true := by simpa using htg
      simp only [htg', ↓reduceIte] at h
      cases hact : cleanupAct d gone sp with
      | none =>
        rw [hact] at h
        simp only [Option.toList_none, List.nil_append] at h
        refine ih (S ++ [sp]) dk d1 hty_rest (cleanRel_noop hrel ?_) hwf h
        intro _ tb col hft hfc r hr
        unfold cleanupAct at hact
        rw [hft] at hact
        simp only [hfc] at hact
        rw [isL_of_typed (hty_sp tb col hft hfc)]
        split at hact
        · rename_i he
          rw [List.isEmpty_iff, List.filter_eq_nil_iff] at he
          simpa using he r hr
        · cases hact
      | some a =>
        rw [hact] at h
        simp only [Option.toList_some, List.singleton_append] at h
        obtain ⟨D, U, hp, hrest⟩ := applyAll_cons_ok h
        unfold cleanupAct at hact
        cases hft : findTable? d sp.table with
        | none => rw [hft] at hact; cases hact
        | some tb =>
          rw [hft] at hact
          cases hfc : tb.findCol? sp.col with
          | none => simp only [hfc] at hact; cases hact
          | some col =>
            simp only [hfc] at hact
            split at hact
            · cases hact
            · simp only [Option.some.injEq] at hact
              subst hact
              obtain ⟨hrel', hwf'⟩ := cleanRel_step hrel hwf hft hfc htg (hty_sp tb col hft hfc) hp
              exact ih (S ++ [sp]) D d1 hty_rest hrel' hwf' hrest
    · have htg' : (sp.target == t) = false := by simpa using htg
      simp only [htg', Bool.false_eq_true, ↓reduceIte, List.nil_append] at h
      exact ih (S ++ [sp]) dk d1 hty_rest (cleanRel_noop hrel (fun h' => absurd h' htg)) hwf h

/-- no cell of a listed column whose target is `t` refers to a row in `gone` -/
def NoRefsTo (d : Doc) (specs : List RefSpec) (t : String) (gone : List Nat) : Prop :=
  ∀ sp ∈ specs, sp.target = t → ∀ tb col, findTable? d sp.table = some tb →
    tb.findCol? sp.col = some col → ∀ r ∈ tb.rows, ∀ l, cellRefs sp.isList (col.cells r) = some l →
      ∀ k ∈ l, k ∉ gone

theorem specHolds_iff {d : Doc} {sp : RefSpec} : specHolds d sp = true ↔
    ∀ tb tt col, findTable? d sp.table = some tb → findTable? d sp.target = some tt →
      tb.findCol? sp.col = some col → ∀ r ∈ tb.rows, ∀ l, cellRefs sp.isList (col.cells r) = some l →
        ∀ k ∈ l, k ∈ tt.rows := by
  constructor
  · intro h tb tt col h1 h2 h3 r hr l hl k hk
    unfold specHolds at h
    rw [h1, h2] at h
    simp only [h3] at h
    have := List.all_eq_true.1 h r hr
    rw [hl] at this
    simpa using List.all_eq_true.1 this k hk
  · intro h
    unfold specHolds
    cases e1 : findTable? d sp.table with
    | none => rfl
    | some tb =>
      cases e2 : findTable? d sp.target with
      | none => rfl
      | some tt =>
        simp only
        cases e3 : tb.findCol? sp.col with
        | none => rfl
        | some col =>
          simp only [List.all_eq_true]
          intro r hr
          cases hl : cellRefs sp.isList (col.cells r) with
          | none => rfl
          | some l =>
            simp only [List.all_eq_true]
            intro k hk
            simpa using h tb tt col e1 e2 e3 r hr l hl k hk

theorem refsResolve_iff {d : Doc} {specs : List RefSpec} :
    refsResolve d specs = true ↔ ∀ sp ∈ specs, specHolds d sp = true := by
  unfold refsResolve; simp [List.all_eq_true]

/-- after the clean-up: references still resolve, and nothing refers to `gone` rows of `t` -/
theorem cleaned_resolves {d d1 : Doc} {specs : List RefSpec} {t : String}
    {gone : List Nat} (hrt : RefListRoundTrip ∨ ∀ sp ∈ specs, sp.isList = false)
    (hty : SpecTyped d specs) (hrel : CleanRel specs t gone d d1)
    (hres : refsResolve d specs = true) :
    refsResolve d1 specs = true ∧ NoRefsTo d1 specs t gone := by
  rw [refsResolve_iff] at hres ⊢
  -- the cells of a listed column in `d1`
  have key : ∀ sp ∈ specs, ∀ tb1 col1, findTable? d1 sp.table = some tb1 →
      tb1.findCol? sp.col = some col1 → ∃ tb col, findTable? d sp.table = some tb ∧
        tb.findCol? sp.col = some col ∧ tb1.rows = tb.rows ∧ ∀ r ∈ tb.rows,
          cellRefs sp.isList (col1.cells r) =
            if proc specs t sp.table sp.col then
              (cellRefs sp.isList (col.cells r)).map (·.filter (fun k => !gone.contains k))
            else cellRefs sp.isList (col.cells r) := by
    intro sp hsp tb1 col1 hf1 hc1
    have h1 := hrel sp.table
    rw [hf1] at h1
    obtain ⟨tb, hft, hrows, hcols⟩ := h1.right_some
    have h2 := hcols sp.col
    rw [hc1] at h2
    obtain ⟨col, hfc, hinfo, hcells⟩ := h2.right_some
    refine ⟨tb, col, hft, hfc, hrows, fun r hr => ?_⟩
    rw [hcells r hr, isL_of_typed (hty sp hsp tb col hft hfc)]
    by_cases hp : proc specs t sp.table sp.col = true
    · simp only [hp, ↓reduceIte]
      rcases hrt with hrt | hrt
      · exact cleanedCell_refs hrt _ _ _
      · rw [hrt sp hsp]; exact cleanedCell_refs_ref _ _
    · have hp' : proc specs t sp.table sp.col = false := by simpa using hp
      simp only [hp', Bool.false_eq_true, ↓reduceIte]
  constructor
  · intro sp hsp
    rw [specHolds_iff]
    intro tb1 tt1 col1 hf1 hft1 hc1 r hr l hl k hk
    obtain ⟨tb, col, hft, hfc, hrows, hcells⟩ := key sp hsp tb1 col1 hf1 hc1
    have h3 := hrel sp.target
    rw [hft1] at h3
    obtain ⟨tt, hftt, hrowst, _⟩ := h3.right_some
    rw [hrows] at hr
    rw [hrowst]
    have hold := specHolds_iff.1 (hres sp hsp) tb tt col hft hftt hfc r hr
    rw [hcells r hr] at hl
    by_cases hp : proc specs t sp.table sp.col = true
    · simp only [hp, ↓reduceIte] at hl
      cases hl0 : cellRefs sp.isList (col.cells r) with
      | none => rw [hl0] at hl; cases hl
      | some l0 =>
        rw [hl0] at hl
        simp only [Option.map_some, Option.some.injEq] at hl
        subst hl
        exact hold l0 hl0 k (List.mem_filter.1 hk).1
    · have hp' : proc specs t sp.table sp.col = false := by simpa using hp
      simp only [hp', Bool.false_eq_true, ↓reduceIte] at hl
      exact hold l hl k hk
  · intro sp hsp htg tb1 col1 hf1 hc1 r hr l hl k hk
    obtain ⟨tb, col, hft, hfc, hrows, hcells⟩ := key sp hsp tb1 col1 hf1 hc1
    rw [hrows] at hr
    rw [hcells r hr] at hl
    have hp : proc specs t sp.table sp.col = true := by
      unfold proc
      rw [List.any_eq_true]
      exact ⟨sp, hsp, by simp [htg]⟩
    simp only [hp, ↓reduceIte] at hl
    cases hl0 : cellRefs sp.isList (col.cells r) with
    | none => rw [hl0] at hl; cases hl
    | some l0 =>
      rw [hl0] at hl
      simp only [Option.map_some, Option.some.injEq] at hl
      subst hl
      simpa using (List.mem_filter.1 hk).2

end Grist.Doc
