/-
S4 / S5: lists of doc actions and the engine's rollback.
-/
import GristProofs.DocUndoCongr
namespace Grist.Doc

def DocAction.argsOK (a : DocAction) : Prop := a.rowsPositive ∧ a.colsDistinct

/-- the undo actions the engine emits have positive row ids / distinct column ids -/
theorem post_undo_argsOK {d : Doc} {a : DocAction} {D : Doc} {U : List DocAction} (hwf : WF d)
    (h : Post d a D U) : ∀ u ∈ U, u.argsOK := by
  cases a with
  | bulkAdd t rows cols =>
    obtain ⟨tb, tb2, hf, hno, hw, rfl, rfl⟩ := h
    intro u hu; simp only [List.mem_singleton] at hu; subst hu; exact ⟨trivial, trivial⟩
  | bulkRemove t rows =>
    obtain ⟨tb, hf, ⟨_, rfl, rfl⟩ | ⟨_, rfl, rfl⟩⟩ := h
    · intro u hu; simp at hu
    · intro u hu; simp only [List.mem_singleton] at hu; subst hu
      refine ⟨?_, trivial⟩
      intro r hr
      have : r ∈ tb.rows := by simpa using (List.mem_filter.1 hr).2
      exact (hwf.table hf).2.2.1 r this
  | bulkUpdate t rows cols =>
    obtain ⟨tb, tb', hf, h1, h2, hw, rfl, rfl⟩ := h
    intro u hu; simp only [List.mem_singleton] at hu; subst hu; exact ⟨trivial, trivial⟩
  | replaceData t rows cols =>
    obtain ⟨tb, tb2, hf, hw, rfl, rfl⟩ := h
    intro u hu; simp only [List.mem_singleton] at hu; subst hu
    exact ⟨(hwf.table hf).2.2.1, trivial⟩
  | addColumn t c info =>
    obtain ⟨tb, hf, h1, rfl, rfl⟩ := h
    intro u hu; simp only [List.mem_singleton] at hu; subst hu; exact ⟨trivial, trivial⟩
  | removeColumn t c =>
    obtain ⟨tb, col, hf, hc, rfl, rfl⟩ := h
    intro u hu
    rcases List.mem_append.1 hu with hu | hu
    · simp only [removeColUndoUpd] at hu
      split at hu
      · simp at hu
      · split at hu
        · simp at hu
        · simp only [List.mem_singleton] at hu; subst hu; exact ⟨trivial, trivial⟩
    · simp only [List.mem_singleton] at hu; subst hu; exact ⟨trivial, trivial⟩
  | renameColumn t old new =>
    obtain ⟨tb, col, hf, hc, h1, rfl, rfl⟩ := h
    intro u hu; simp only [List.mem_singleton] at hu; subst hu; exact ⟨trivial, trivial⟩
  | modifyColumn t c p =>
    obtain ⟨tb, col, hf, hc, ⟨_, rfl, rfl⟩ | ⟨_, rfl, rfl⟩⟩ := h
    · intro u hu; simp at hu
    · intro u hu; simp only [List.mem_singleton] at hu; subst hu; exact ⟨trivial, trivial⟩
  | addTable t cols =>
    obtain ⟨hf, rfl, rfl⟩ := h
    intro u hu; simp only [List.mem_singleton] at hu; subst hu; exact ⟨trivial, trivial⟩
  | removeTable t =>
    obtain ⟨tb, hf, rfl, rfl⟩ := h
    intro u hu
    rcases List.mem_append.1 hu with hu | hu
    · simp only [removeTableDataUndo] at hu
      split at hu
      · simp at hu
      · simp only [List.mem_singleton] at hu; subst hu
        exact ⟨(hwf.table hf).2.2.1, trivial⟩
    · simp only [List.mem_singleton] at hu; subst hu
      refine ⟨trivial, ?_⟩
      show (List.map (·.1) (tb.cols.map (fun col => (col.id, col.info)))).Nodup
      rw [List.map_map]
      exact (hwf.table hf).1
  | renameTable old new =>
    obtain ⟨tb, hf, hn, rfl, rfl⟩ := h
    intro u hu; simp only [List.mem_singleton] at hu; subst hu; exact ⟨trivial, trivial⟩

/-! ### `applyAll` -/

theorem applyAll_cons_ok {d : Doc} {a : DocAction} {rest : List DocAction} {x : Doc}
    (h : applyAll d (a :: rest) = .ok x) : ∃ D U, Post d a D U ∧ applyAll D rest = .ok x := by
  simp only [applyAll] at h
  cases hr : docAction d {} a with
  | error e => simp [hr] at h
  | ok r =>
    simp only [hr] at h
    exact ⟨r.doc, r.undo, post_of_ok hr, h⟩

theorem applyAll_append {d : Doc} {l1 l2 : List DocAction} {x : Doc}
    (h : applyAll d l1 = .ok x) : applyAll d (l1 ++ l2) = applyAll x l2 := by
  induction l1 generalizing d with
  | nil => simp only [applyAll, Except.ok.injEq] at h; subst h; rfl
  | cons a rest ih =>
    obtain ⟨D, U, hp, hrest⟩ := applyAll_cons_ok h
    rw [List.cons_append, applyAll_cons_of_post _ hp]
    exact ih hrest

theorem applyAll_WF {l : List DocAction} {d d' : Doc} (hwf : WF d) (hn : Normal d)
    (hl : ∀ a ∈ l, a.argsOK) (h : applyAll d l = .ok d') : WF d' ∧ Normal d' := by
  induction l generalizing d with
  | nil => simp only [applyAll, Except.ok.injEq] at h; subst h; exact ⟨hwf, hn⟩
  | cons a rest ih =>
    obtain ⟨D, U, hp, hrest⟩ := applyAll_cons_ok h
    have ha := hl a (by simp)
    have := post_WF_Normal hwf ha.1 ha.2 hp
    exact ih this.1 (this.2 hn) (fun b hb => hl b (List.mem_cons_of_mem _ hb)) hrest

theorem applyAll_congr {l : List DocAction} {d1 d2 x : Doc} (hw1 : WF d1) (hw2 : WF d2)
    (hs : Same d1 d2) (hl : ∀ a ∈ l, a.argsOK) (h : applyAll d1 l = .ok x) :
    ∃ y, applyAll d2 l = .ok y ∧ Same x y := by
  induction l generalizing d1 d2 with
  | nil => simp only [applyAll, Except.ok.injEq] at h; subst h; exact ⟨d2, rfl, hs⟩
  | cons a rest ih =>
    obtain ⟨D1, U1, hp1, hrest⟩ := applyAll_cons_ok h
    have ha := hl a (by simp)
    obtain ⟨D2, U2, hp2, hs'⟩ := post_congr hw1 hw2 hs ha.1 hp1
    have hw1' := (post_WF_Normal hw1 ha.1 ha.2 hp1).1
    have hw2' := (post_WF_Normal hw2 ha.1 ha.2 hp2).1
    obtain ⟨y, hy, hsy⟩ := ih hw1' hw2' hs' (fun b hb => hl b (List.mem_cons_of_mem _ hb)) hrest
    exact ⟨y, by rw [applyAll_cons_of_post _ hp2]; exact hy, hsy⟩

/-! ### `runActs` -/

theorem runActs_cons_ok {d d' : Doc} {a : DocAction} {rest u : List DocAction}
    (h : runActs d (a :: rest) = .ok (d', u)) :
    ∃ r u', docAction d {} a = .ok r ∧ runActs r.doc rest = .ok (d', u') ∧ u = r.undo ++ u' := by
  simp only [runActs] at h
  cases hr : docAction d {} a with
  | error e => simp [hr] at h
  | ok r =>
    simp only [hr] at h
    cases hrest : runActs r.doc rest with
    | error e => simp [hrest] at h
    | ok p =>
      obtain ⟨d1, u1⟩ := p
      simp only [hrest, Except.ok.injEq, Prod.mk.injEq] at h
      obtain ⟨rfl, rfl⟩ := h
      exact ⟨r, u1, rfl, hrest, rfl⟩

/-- every action of the run is applied in a document where its undo is exact -/
def undoExactRun : Doc → List DocAction → Prop
  | _, [] => True
  | d, a :: rest => a.undoExact d ∧ ∀ r, docAction d {} a = .ok r → undoExactRun r.doc rest

theorem runActs_undo_full {as : List DocAction} {d d' : Doc} {u : List DocAction} (hwf : WF d)
    (hn : Normal d) (hargs : ∀ a ∈ as, a.argsOK) (hex : undoExactRun d as)
    (h : runActs d as = .ok (d', u)) :
    WF d' ∧ Normal d' ∧ (∀ x ∈ u, x.argsOK) ∧ ∃ d'', applyAll d' u.reverse = .ok d'' ∧ Same d'' d := by
  induction as generalizing d u with
  | nil =>
    simp only [runActs, Except.ok.injEq, Prod.mk.injEq] at h
    obtain ⟨rfl, rfl⟩ := h
    exact ⟨hwf, hn, by simp, d, rfl, Same.refl d⟩
  | cons a rest ih =>
    obtain ⟨r, u', hr, hrest, rfl⟩ := runActs_cons_ok h
    have hp := post_of_ok hr
    have ha := hargs a (by simp)
    have hD := post_WF_Normal hwf ha.1 ha.2 hp
    obtain ⟨hwf', hn', hu', d1, hd1, hs1⟩ := ih hD.1 (hD.2 hn)
      (fun b hb => hargs b (List.mem_cons_of_mem _ hb)) (hex.2 r hr) hrest
    have hU := post_undo_argsOK hwf hp
    refine ⟨hwf', hn', ?_, ?_⟩
    · intro x hx
      rcases List.mem_append.1 hx with hx | hx
      · exact hU x hx
      · exact hu' x hx
    · obtain ⟨d0, hd0, hs0⟩ := post_undo hwf hn ha.1 hex.1 hp
      have hwd1 := applyAll_WF hwf' hn' (fun b hb => hu' b (List.mem_reverse.1 hb)) hd1
      obtain ⟨y, hy, hsy⟩ := applyAll_congr hD.1 hwd1.1 hs1.symm
        (fun b hb => hU b (List.mem_reverse.1 hb)) hd0
      refine ⟨y, ?_, hsy.symm.trans hs0⟩
      rw [List.reverse_append, applyAll_append hd1]
      exact hy

/-! ### engine states -/

/-- run doc steps `(action, direct)` with `stepDoc` -/
def stepDocs (st : EState) (steps : List (DocAction × Bool)) : Except String EState :=
  steps.foldlM (fun s ab => stepDoc s ab.1 ab.2) st

theorem stepDocs_cons (st : EState) (ab : DocAction × Bool) (rest : List (DocAction × Bool)) :
    stepDocs st (ab :: rest) =
      match stepDoc st ab.1 ab.2 with
      | .error e => .error e
      | .ok st1 => stepDocs st1 rest := by
  simp only [stepDocs, List.foldlM_cons]
  cases stepDoc st ab.1 ab.2 <;> rfl

theorem stepDoc_ok {st st1 : EState} {a : DocAction} {dir : Bool} (h : stepDoc st a dir = .ok st1) :
    ∃ r, docAction st.doc {} a = .ok r ∧ st1.doc = r.doc ∧ st1.undo = st.undo ++ r.undo ∧
      st1.stored = st.stored ++ [a] ∧ st1.direct = st.direct ++ [dir] := by
  simp only [stepDoc] at h
  cases hr : docAction st.doc st.summary a with
  | error e => simp [hr] at h
  | ok r0 =>
    simp only [hr, Except.ok.injEq] at h
    subst h
    obtain ⟨r, hr', hd, hu⟩ := ok_of_post {} (post_of_ok hr)
    exact ⟨r, hr', hd.symm, by rw [hu], rfl, rfl⟩

theorem stepDoc_of_post (st : EState) {a : DocAction} (dir : Bool) {D : Doc} {U : List DocAction}
    (h : Post st.doc a D U) :
    ∃ st1, stepDoc st a dir = .ok st1 ∧ st1.doc = D ∧ st1.undo = st.undo ++ U ∧
      st1.stored = st.stored ++ [a] ∧ st1.direct = st.direct ++ [dir] := by
  obtain ⟨r, hr, hd, hu⟩ := ok_of_post st.summary h
  refine ⟨_, by simp only [stepDoc, hr]; rfl, hd, by rw [← hu], rfl, rfl⟩

theorem stepDocs_ok {steps : List (DocAction × Bool)} {st st' : EState}
    (h : stepDocs st steps = .ok st') :
    ∃ u, runActs st.doc (steps.map (·.1)) = .ok (st'.doc, u) ∧ st'.undo = st.undo ++ u ∧
      st'.stored = st.stored ++ steps.map (·.1) ∧ st'.direct = st.direct ++ steps.map (·.2) := by
  induction steps generalizing st with
  | nil =>
    simp only [stepDocs, List.foldlM_nil, pure, Except.pure, Except.ok.injEq] at h
    subst h
    exact ⟨[], rfl, by simp, by simp, by simp⟩
  | cons ab rest ih =>
    rw [stepDocs_cons] at h
    cases h1 : stepDoc st ab.1 ab.2 with
    | error e => simp [h1] at h
    | ok st1 =>
      simp only [h1] at h
      obtain ⟨r, hr, hd, hu, hs, hdir⟩ := stepDoc_ok h1
      obtain ⟨u, hrun, hu', hs', hdir'⟩ := ih h
      refine ⟨r.undo ++ u, ?_, ?_, ?_, ?_⟩
      · simp only [List.map_cons, runActs, hr]
        rw [← hd, hrun]
      · rw [hu', hu, List.append_assoc]
      · rw [hs', hs]; simp
      · rw [hdir', hdir]; simp

theorem foldlM_stepDoc_of_applyAll {l : List DocAction} {st : EState} {x : Doc}
    (h : applyAll st.doc l = .ok x) :
    ∃ st2, l.foldlM (fun s a => stepDoc s a true) st = .ok st2 ∧ st2.doc = x ∧
      st2.stored = st.stored ++ l ∧ st2.direct = st.direct ++ l.map (fun _ => true) ∧
      ∃ w, st2.undo = st.undo ++ w := by
  induction l generalizing st with
  | nil =>
    simp only [applyAll, Except.ok.injEq] at h
    exact ⟨st, rfl, h, by simp, by simp, [], by simp⟩
  | cons a rest ih =>
    obtain ⟨D, U, hp, hrest⟩ := applyAll_cons_ok h
    obtain ⟨st1, h1, hd, hu, hs, hdir⟩ := stepDoc_of_post st true hp
    rw [← hd] at hrest
    obtain ⟨st2, h2, hd2, hs2, hdir2, w, hw⟩ := ih hrest
    refine ⟨st2, ?_, hd2, ?_, ?_, U ++ w, ?_⟩
    · simp only [List.foldlM_cons, h1, bind, Except.bind]
      exact h2
    · rw [hs2, hs]; simp
    · rw [hdir2, hdir]; simp
    · rw [hw, hu, List.append_assoc]

theorem rollback_restores_full {st st' : EState} {steps : List (DocAction × Bool)}
    (hwf : WF st.doc) (hn : Normal st.doc) (hlen : st.stored.length = st.direct.length)
    (hargs : ∀ ab ∈ steps, ab.1.argsOK) (hex : undoExactRun st.doc (steps.map (·.1)))
    (h : stepDocs st steps = .ok st') :
    ∃ st'', rollback st' st.stored.length st.undo.length = .ok st'' ∧ Same st''.doc st.doc ∧
      st''.stored = st.stored ∧ st''.direct = st.direct ∧ st''.undo = st.undo := by
  obtain ⟨u, hrun, hu, hs, hdir⟩ := stepDocs_ok h
  have hargs' : ∀ a ∈ steps.map (·.1), a.argsOK := by
    intro a ha
    obtain ⟨ab, hab, rfl⟩ := List.mem_map.1 ha
    exact hargs ab hab
  obtain ⟨_, _, _, d'', hd'', hsame⟩ := runActs_undo_full hwf hn hargs' hex hrun
  have htodo : (st'.undo.drop st.undo.length).reverse = u.reverse := by
    rw [hu, List.drop_left]
  obtain ⟨st2, h2, hd2, hs2, hdir2, w, hw⟩ := foldlM_stepDoc_of_applyAll (st := st') hd''
  refine ⟨_, by simp only [rollback, htodo, h2]; rfl, ?_, ?_, ?_, ?_⟩
  · show Same st2.doc st.doc
    rw [hd2]; exact hsame
  · show st2.stored.take st.stored.length = st.stored
    rw [hs2, hs, List.append_assoc, List.take_left]
  · show st2.direct.take st.stored.length = st.direct
    rw [hdir2, hdir, List.append_assoc, hlen, List.take_left]
  · show st2.undo.take st.undo.length = st.undo
    rw [hw, hu, List.append_assoc, List.take_left]

end Grist.Doc
