/-
Helper lemmas for GristProps/C13.lean, continued:
  G. ContainsLookupMapping satisfies the mapping contract; keys of the product = column-wise matches
  H. sorting a LookupSet does not depend on the set's iteration order
  I. the invariants of the LookupMapColumn event machine
-/
import GristProofs.Lookup
set_option linter.unusedSimpArgs false
set_option linter.unusedVariables false
set_option linter.unusedSectionVars false
namespace Grist.Lookup
open Grist.SortedFind (Val keyLt Key RowId pySorted)

/-! ### G. ContainsLookupMapping -/
section contains

abbrev GoodC (m : Index (List LKey)) : Prop := Good containsRight (wfC setC rowHashable) m

theorem rel_containsRight (d : Dict Nat (List LKey)) (k : Nat) (x : LKey) :
    Rel containsRight d k x ↔ x ∈ (dget k d).getD [] := by
  simp only [Rel, containsRight, containerOps, setC]
  cases dget k d with
  | none => simp
  | some s => simp

theorem contains_add_total (d : Dict Nat (List LKey)) (row : Nat) {key : LKey}
    (hk : key.hashable = true) :
    ∃ ra d', containsRight.addItem d row key = .ok (none, ra, d') := by
  simp only [containsRight, containerOps, setC, rowHashable, if_true, hk]
  cases dget row d with
  | none => simp
  | some stored => by_cases hm : key ∈ stored <;> simp [hm]

/-- `for new_key in keys: self._row_key_map.insert(row_id, new_key)` -/
theorem insertAll_spec (row : Nat) :
    ∀ (ks : List LKey) {m : Index (List LKey)}, GoodC m → (∀ k ∈ ks, k.hashable = true) →
      GoodC (insertAll m row ks) ∧ CacheRel m.bwd (insertAll m row ks).bwd ∧
      ∀ l r, Rel containsRight (insertAll m row ks).fwd l r ↔
        (Rel containsRight m.fwd l r ∨ (l = row ∧ r ∈ ks)) := by
  intro ks
  induction ks with
  | nil => intro m hm _; exact ⟨hm, CacheRel.refl _, by intro l r; simp [insertAll]⟩
  | cons k ks ih =>
    intro m hm hh
    have hk := hh k (by simp)
    obtain ⟨ra, fwd1, h1⟩ := contains_add_total m.fwd row hk
    obtain ⟨m1, he, hw, hc, hrel⟩ := ix_insert_ok lawful_containsRight hm hk h1
    obtain ⟨g, c, rl⟩ := ih hw (fun x hx => hh x (by simp [hx]))
    simp only [insertAll, he]
    refine ⟨g, hc.trans c, ?_⟩
    intro l r
    rw [rl l r, hrel l r]
    simp only [reduceCtorEq, and_false, not_false_eq_true, and_true, List.mem_cons]
    constructor
    · rintro ((⟨e1, e2⟩ | h) | ⟨e1, e2⟩)
      · exact Or.inr ⟨e1, Or.inl e2⟩
      · exact Or.inl h
      · exact Or.inr ⟨e1, Or.inr e2⟩
    · rintro (h | ⟨e1, e2 | e2⟩)
      · exact Or.inl (Or.inr h)
      · exact Or.inl (Or.inl ⟨e1, e2⟩)
      · exact Or.inr ⟨e1, e2⟩

/-- `k` picks one element from each group -/
def allIn {τ : Type} : List τ → List (List τ) → Prop
  | [], [] => True
  | x :: xs, g :: gs => x ∈ g ∧ allIn xs gs
  | _, _ => False

theorem mem_product {τ : Type} : ∀ (gs : List (List τ)) (k : List τ),
    k ∈ product gs ↔ allIn k gs := by
  intro gs
  induction gs with
  | nil => intro k; cases k <;> simp [product, allIn]
  | cons g gs ih =>
    intro k
    simp only [product, List.mem_flatMap, List.mem_map]
    constructor
    · rintro ⟨x, hx, t, ht, rfl⟩
      exact ⟨hx, (ih t).mp ht⟩
    · intro h
      cases k with
      | nil => simp [allIn] at h
      | cons x t => exact ⟨x, h.1, t, (ih t).mpr h.2, rfl⟩

theorem keyGroup_hashable (kind : ColKind) (c x : Cell) (h : x ∈ keyGroup kind c) :
    x.hashable = true := by
  cases kind with
  | plain =>
    simp only [keyGroup] at h
    by_cases hc : c.hashable = true
    · simp [hc] at h; subst h; cases c <;> simp_all [Cell.hashable, Cell.norm]
    · simp [hc] at h
  | contains me =>
    cases c with
    | v y =>
      simp only [keyGroup] at h
      by_cases h1 : y.isStr = true
      · simp [h1] at h
      · by_cases h2 : y.falsy = true
        · cases me with
          | none => simp [h1, h2] at h
          | some m => simp [h1, h2] at h; subst h; rfl
        · simp [h1, h2] at h
    | lst xs =>
      simp only [keyGroup] at h
      by_cases h1 : xs.isEmpty = true
      · cases me with
        | none => simp [h1] at h
        | some m => simp [h1] at h; subst h; rfl
      · simp only [h1, if_false, Bool.false_eq_true] at h
        rw [List.mem_eraseDups] at h
        simp at h
        obtain ⟨a, _, rfl⟩ := h
        rfl

theorem allIn_keyGroups_hashable : ∀ (kinds : List ColKind) (cells : List Cell) (k : LKey),
    allIn k (keyGroups kinds cells) → k.hashable = true := by
  intro kinds
  induction kinds with
  | nil => intro cells k h; cases k <;> simp [keyGroups, allIn] at h ⊢; rfl
  | cons kd kinds ih =>
    intro cells k h
    cases cells with
    | nil => cases k <;> simp [keyGroups, allIn] at h ⊢; rfl
    | cons c cells =>
      cases k with
      | nil => simp [keyGroups, allIn] at h
      | cons x t =>
        simp only [keyGroups, allIn] at h
        simp only [LKey.hashable, List.all_cons, Bool.and_eq_true]
        exact ⟨keyGroup_hashable kd c _ h.1, ih cells _ h.2⟩

theorem containsNewKeys_hashable {kinds : List ColKind} {cells : List Cell} {k : LKey}
    (h : k ∈ containsNewKeys kinds cells) : k.hashable = true := by
  simp only [containsNewKeys, List.mem_eraseDups] at h
  exact allIn_keyGroups_hashable kinds cells k ((mem_product _ _).mp h)

theorem containsUpdate_spec (kinds : List ColKind) {m : Index (List LKey)} (hm : GoodC m)
    (row : Nat) (cells : List Cell) :
    GoodC (containsUpdate kinds m row cells).1 ∧
    CacheRel m.bwd (containsUpdate kinds m row cells).1.bwd ∧
    ∀ l r, Rel containsRight (containsUpdate kinds m row cells).1.fwd l r ↔
      (if l = row then r ∈ containsNewKeys kinds cells else Rel containsRight m.fwd l r) := by
  unfold containsUpdate
  simp only
  have hold : ∀ k ∈ containsMappedKeys m row, k.hashable = true := by
    intro k hk
    exact Good.key_hashable lawful_containsRight hm ((rel_containsRight _ _ _).mpr hk)
  obtain ⟨g1, c1, r1⟩ := removeAll_spec lawful_containsRight row
    ((containsMappedKeys m row).filter (fun k => !(containsNewKeys kinds cells).contains k)) hm
    (fun k hk => hold k (List.mem_filter.mp hk).1)
  obtain ⟨g2, c2, r2⟩ := insertAll_spec row
    ((containsNewKeys kinds cells).filter (fun k => !(containsMappedKeys m row).contains k)) g1
    (fun k hk => containsNewKeys_hashable (List.mem_filter.mp hk).1)
  refine ⟨g2, c1.trans c2, ?_⟩
  intro l r
  rw [r2 l r, r1 l r]
  by_cases e : l = row
  · subst e
    simp only [if_true, true_and, List.mem_filter]
    have hmem : Rel containsRight m.fwd l r ↔ r ∈ containsMappedKeys m l := rel_containsRight _ _ _
    rw [hmem]
    by_cases hn : r ∈ containsNewKeys kinds cells
    · by_cases ho : r ∈ containsMappedKeys m l <;> simp [hn, ho]
    · simp [hn]
  · simp [e]

theorem norm_hashable (c : Cell) : c.norm.hashable = c.hashable := by cases c <;> rfl

theorem mem_keyGroup_iff (kind : ColKind) (c x : Cell) :
    x ∈ keyGroup kind c ↔ matchCol kind c x = true := by
  cases kind with
  | plain =>
    simp only [keyGroup, matchCol, Bool.and_eq_true, beq_iff_eq]
    by_cases hc : c.hashable = true
    · simp only [hc, if_true, List.mem_singleton]
      constructor
      · intro h; subst h; exact ⟨by rw [norm_hashable]; exact hc, rfl⟩
      · intro h; exact h.2.symm
    · simp only [hc, if_false, Bool.false_eq_true, List.not_mem_nil, false_iff]
      rintro ⟨h1, h2⟩
      rw [← h2, norm_hashable] at h1
      exact hc h1
  | contains me =>
    cases c with
    | v y =>
      cases x with
      | lst l =>
        simp only [matchCol, Bool.false_eq_true, iff_false]
        intro h
        have := keyGroup_hashable _ _ _ h
        simp [Cell.hashable] at this
      | v kv =>
        simp only [keyGroup, matchCol]
        by_cases h1 : y.isStr = true
        · simp [h1]
        · by_cases h2 : y.falsy = true
          · cases me with
            | none => simp [h1, h2]
            | some m => simp [h1, h2]; symm_close
          · simp [h1, h2]
    | lst xs =>
      cases x with
      | lst l =>
        simp only [matchCol, Bool.false_eq_true, iff_false]
        intro h
        have := keyGroup_hashable _ _ _ h
        simp [Cell.hashable] at this
      | v kv =>
        simp only [keyGroup, matchCol]
        by_cases h1 : xs.isEmpty = true
        · cases me with
          | none => simp [h1]
          | some m => simp [h1]; symm_close
        · simp only [h1, if_false, Bool.false_eq_true]
          rw [List.mem_eraseDups]
          simp only [List.mem_map, Cell.v.injEq, List.contains_iff_mem]

theorem allIn_keyGroups_iff : ∀ (kinds : List ColKind) (cells : List Cell) (K : LKey),
    allIn K (keyGroups kinds cells) ↔ matchKey kinds cells K = true := by
  intro kinds
  induction kinds with
  | nil => intro cells K; cases K <;> simp [keyGroups, allIn, matchKey]
  | cons kd kinds ih =>
    intro cells K
    cases cells with
    | nil => cases K <;> simp [keyGroups, allIn, matchKey]
    | cons c cells =>
      cases K with
      | nil => simp [keyGroups, allIn, matchKey]
      | cons x t =>
        simp only [keyGroups, allIn, matchKey, Bool.and_eq_true]
        rw [mem_keyGroup_iff, ih cells t]

/-- **The product construction is the column-wise match.**  A key is among
    `set(itertools.product(*groups))` iff every column's cell matches the key's element. -/
theorem mem_containsNewKeys_iff (kinds : List ColKind) (cells : List Cell) (K : LKey) :
    K ∈ containsNewKeys kinds cells ↔ matchKey kinds cells K = true := by
  simp only [containsNewKeys, List.mem_eraseDups]
  rw [mem_product, allIn_keyGroups_iff]

/-- SimpleLookupMapping: stored under its key tuple iff all columns match as exact columns -/
theorem matchKey_plain : ∀ (cells : List Cell) (K : LKey),
    matchKey (cells.map (fun _ => ColKind.plain)) cells K = true ↔
      (K = simpleNewKey cells ∧ K.hashable = true) := by
  intro cells
  induction cells with
  | nil => intro K; cases K <;> simp [matchKey, simpleNewKey, LKey.hashable]
  | cons c cells ih =>
    intro K
    cases K with
    | nil => simp [matchKey, simpleNewKey]
    | cons x t =>
      simp only [List.map_cons, matchKey, matchCol, Bool.and_eq_true, beq_iff_eq, ih t,
        simpleNewKey, List.cons.injEq, LKey.hashable, List.all_cons]
      constructor
      · rintro ⟨⟨h1, h2⟩, h3, h4⟩; exact ⟨⟨h2.symm, h3⟩, h1, h4⟩
      · rintro ⟨⟨h2, h3⟩, h1, h4⟩; exact ⟨⟨h1, h2.symm⟩, h3, h4⟩

def containsKeyOf (kinds : List ColKind) (cells : List Cell) (K : LKey) : Prop :=
  matchKey kinds cells K = true

theorem lawful_containsMapping (kinds : List ColKind) :
    LawfulMapping (containsMapping kinds) (wfC setC rowHashable) (containsKeyOf kinds) where
  right_lawful := lawful_containsRight
  update_spec := by
    intro m row cells hm
    obtain ⟨g, c, f⟩ := containsUpdate_spec kinds hm row cells
    refine ⟨g, c, ?_⟩
    intro K r
    have hi : Rel containsRight (containsUpdate kinds m row cells).1.fwd r K ↔
        Rel leftOps (containsUpdate kinds m row cells).1.bwd K r := g.inv r K
    have hmi : Rel containsRight m.fwd r K ↔ Rel leftOps m.bwd K r := hm.inv r K
    show Rel leftOps (containsUpdate kinds m row cells).1.bwd K r ↔ _
    rw [← hi, f r K]
    by_cases e : r = row
    · simp only [e, if_true, containsKeyOf]; exact mem_containsNewKeys_iff kinds cells K
    · simp only [e, if_false]; exact hmi
  remove_spec := by
    intro m row hm
    simp only [Mapping.removeRowId, containsMapping]
    have hh : ∀ k ∈ containsMappedKeys m row, k.hashable = true := by
      intro k hk
      exact Good.key_hashable lawful_containsRight hm ((rel_containsRight _ _ _).mpr hk)
    obtain ⟨g, c, rl⟩ := removeAll_spec lawful_containsRight row _ hm hh
    refine ⟨g, c, ?_⟩
    intro K r
    have hmi : Rel containsRight m.fwd r K ↔ Rel leftOps m.bwd K r := hm.inv r K
    show Rel leftOps _ K r ↔ _
    rw [← g.inv r K, rl r K]
    constructor
    · rintro ⟨h, n⟩
      refine ⟨?_, hmi.mp h⟩
      rintro rfl
      exact n ⟨rfl, (rel_containsRight _ _ _).mp h⟩
    · rintro ⟨n, h⟩; exact ⟨hmi.mpr h, fun ⟨e, _⟩ => n e⟩
  newKeys_spec := by
    intro cells ks h K
    simp only [containsMapping] at h
    injection h with h; subst h
    exact mem_containsNewKeys_iff kinds cells K
  newKeys_err := by
    intro cells e h
    simp [containsMapping] at h

end contains

/-! ### H. sorting a LookupSet (reusing the SortKey theory of GristProofs/SortedFind) -/
section sorting
open Grist.SortedFind
variable (table : Dict Nat RowData) (spec : SortSpec)

theorem sortValues_length (row : Nat) : (sortValues table spec row).length = spec.length := by
  simp [sortValues]

theorem rowLt_trans {a b c : Nat} (h1 : rowLt table spec a b = true) (h2 : rowLt table spec b c = true) :
    rowLt table spec a c = true :=
  keyLt_trans (by simp [sortValues_length]) (by simp [sortValues_length]) h1 h2

theorem rowLt_asymm {a b : Nat} (h : rowLt table spec a b = true) : rowLt table spec b a = false :=
  keyLt_asymm h

theorem rowLt_total {a b : Nat} (h : a ≠ b) :
    rowLt table spec a b = true ∨ rowLt table spec b a = true :=
  keyLt_total h _ _

theorem sortRows_perm (rows : List Nat) : (sortRows table spec rows).Perm rows :=
  pySorted_perm _ rows

theorem sortRows_sorted (rows : List Nat) :
    (sortRows table spec rows).Pairwise (fun a b => rowLt table spec b a = false) :=
  pySorted_pairwise _ rows (fun a b c _ _ _ h1 h2 => rowLt_trans table spec h1 h2)
    (fun a b _ _ h => rowLt_asymm table spec h)

/-- on distinct row ids the result is STRICTLY increasing under the sort key -/
theorem sortRows_strict {rows : List Nat} (hnd : rows.Nodup) :
    (sortRows table spec rows).Pairwise (fun a b => rowLt table spec a b = true) := by
  have hnd' : (sortRows table spec rows).Nodup :=
    (List.Perm.nodup_iff (sortRows_perm table spec rows)).mpr hnd
  refine List.Pairwise.imp ?_ (List.Pairwise.and (sortRows_sorted table spec rows) hnd')
  intro a b ⟨h1, h2⟩
  rcases rowLt_total table spec h2 with h | h
  · exact h
  · rw [h1] at h; exact absurd h (by simp)

/-- **`sorted(set)` does not depend on the set's iteration order.** -/
theorem sortRows_eq_of_perm {l1 l2 : List Nat} (hp : l1.Perm l2) (hnd : l1.Nodup) :
    sortRows table spec l1 = sortRows table spec l2 := by
  refine List.Perm.eq_of_pairwise (le := fun a b => rowLt table spec b a = false) ?_
    (sortRows_sorted table spec l1) (sortRows_sorted table spec l2)
    ((sortRows_perm table spec l1).trans (hp.trans (sortRows_perm table spec l2).symm))
  intro a b _ _ h1 h2
  apply Classical.byContradiction
  intro hne
  rcases rowLt_total table spec hne with h | h
  · rw [h2] at h; exact absurd h (by simp)
  · rw [h1] at h; exact absurd h (by simp)

theorem insertSorted_congr {α : Type} {lt1 lt2 : α → α → Bool} (x : α) :
    ∀ l : List α, (∀ b ∈ l, lt1 x b = lt2 x b) → insertSorted lt1 x l = insertSorted lt2 x l := by
  intro l
  induction l with
  | nil => intro _; rfl
  | cons y ys ih =>
    intro h
    simp only [insertSorted, h y (by simp)]
    rw [ih (fun b hb => h b (by simp [hb]))]

theorem pySorted_congr {α : Type} {lt1 lt2 : α → α → Bool} :
    ∀ l : List α, (∀ a ∈ l, ∀ b ∈ l, lt1 a b = lt2 a b) → pySorted lt1 l = pySorted lt2 l := by
  intro l
  induction l with
  | nil => intro _; rfl
  | cons x l ih =>
    intro h
    have e1 : pySorted lt1 (x :: l) = insertSorted lt1 x (pySorted lt1 l) := by simp [pySorted]
    have e2 : pySorted lt2 (x :: l) = insertSorted lt2 x (pySorted lt2 l) := by simp [pySorted]
    rw [e1, e2, ← ih (fun a ha b hb => h a (by simp [ha]) b (by simp [hb]))]
    apply insertSorted_congr
    intro b hb
    exact h x (by simp) b (by simp [(pySorted_perm lt1 l).mem_iff.mp hb])

/-- the sort of a set depends only on the sort cells of its members -/
theorem sortRows_congr {t1 t2 : Dict Nat RowData} {rows : List Nat}
    (h : ∀ x ∈ rows, sortValues t1 spec x = sortValues t2 spec x) :
    sortRows t1 spec rows = sortRows t2 spec rows := by
  apply pySorted_congr
  intro a ha b hb
  simp only [rowLt, h a ha, h b hb]

end sorting

/-! ### I. the event machine -/
section machine
variable {σR : Type}

theorem mem_filter_ne {l : List Nat} {x r : Nat} : x ∈ l.filter (· != r) ↔ (x ∈ l ∧ x ≠ r) := by
  simp [List.mem_filter]

/-- replacing LookupSets by ones with the same elements keeps the index invariant -/
theorem good_of_elems {R : BinOps Nat LKey σR} {wfR : Dict Nat σR → Prop} {fwd : Dict Nat σR}
    {bwd bwd' : Dict LKey (LSet Nat)} (hg : Good R wfR { fwd := fwd, bwd := bwd })
    (he : ∀ K, (dget K bwd').map (·.elems) = (dget K bwd).map (·.elems)) :
    Good R wfR { fwd := fwd, bwd := bwd' } := by
  have hrel : ∀ K r, Rel leftOps bwd' K r ↔ Rel leftOps bwd K r := by
    intro K r
    have := he K
    simp only [Rel, leftOps, containerOps, lookupSetC]
    cases h1 : dget K bwd' with
    | none =>
      cases h2 : dget K bwd with
      | none => simp
      | some S => rw [h1, h2] at this; simp at this
    | some S' =>
      cases h2 : dget K bwd with
      | none => rw [h1, h2] at this; simp at this
      | some S => rw [h1, h2] at this; simp at this; simp [this]
  refine ⟨hg.wfF, ?_, fun l r => (hg.inv l r).trans (hrel r l).symm⟩
  intro k s hs
  have := he k
  rw [hs] at this
  cases h2 : dget k bwd with
  | none => rw [h2] at this; simp at this
  | some S =>
    rw [h2] at this; simp at this
    have hw := hg.wfB k S h2
    simp only [lookupSetC] at hw ⊢
    rw [this]; exact hw

theorem inSet_of_elems {fwd fwd' : Dict Nat σR} {bwd bwd' : Dict LKey (LSet Nat)}
    (he : ∀ K, (dget K bwd').map (·.elems) = (dget K bwd).map (·.elems)) (K : LKey) (r : Nat) :
    inSet ({ fwd := fwd', bwd := bwd' } : Index σR) K r ↔ inSet ({ fwd := fwd, bwd := bwd } : Index σR) K r := by
  have := he K
  simp only [inSet_iff]
  cases h1 : dget K bwd' with
  | none =>
    cases h2 : dget K bwd with
    | none => simp
    | some S => rw [h1, h2] at this; simp at this
  | some S' =>
    cases h2 : dget K bwd with
    | none => rw [h1, h2] at this; simp at this
    | some S => rw [h1, h2] at this; simp at this; simp [this]

/-- one `sorted_versions.pop(sort_spec, None)` -/
theorem popSorted_get (sp : SortSpec) (d : Dict LKey (LSet Nat)) (key K : LKey) :
    dget K (popSorted sp d key) =
      (dget K d).map (fun S => if K = key then { S with sorted := ddel sp S.sorted } else S) := by
  unfold popSorted
  cases hk : dget key d with
  | none =>
    simp only
    by_cases e : K = key
    · subst e; simp [hk]
    · cases dget K d <;> simp [e]
  | some s =>
    simp only
    rw [dget_dset]
    by_cases e : K = key
    · subst e; simp [hk]
    · cases dget K d <;> simp [e]

/-- the loop of `_reset_sorted_versions`: elements untouched, caches only shrink, the given spec is
    gone from every set whose key is in the list -/
theorem pop_fold (sp : SortSpec) : ∀ (ks : List LKey) (d : Dict LKey (LSet Nat)) (K : LKey),
    (dget K (ks.foldl (popSorted sp) d) = none ∧ dget K d = none) ∨
    ∃ S S', dget K d = some S ∧ dget K (ks.foldl (popSorted sp) d) = some S' ∧ S'.elems = S.elems ∧
      (∀ sp' c, dget sp' S'.sorted = some c → dget sp' S.sorted = some c) ∧
      (K ∈ ks → dget sp S'.sorted = none) := by
  intro ks
  induction ks with
  | nil =>
    intro d K
    cases h : dget K d with
    | none => left; simp [h]
    | some S => right; exact ⟨S, S, rfl, by simp [h], rfl, fun _ _ h => h, by simp⟩
  | cons k ks ih =>
    intro d K
    simp only [List.foldl_cons]
    have h1 := popSorted_get sp d k K
    rcases ih (popSorted sp d k) K with ⟨a, b⟩ | ⟨S1, S', hb, hc, he, hs, hn⟩
    · left
      refine ⟨a, ?_⟩
      rw [h1] at b
      cases hd : dget K d with
      | none => rfl
      | some S => rw [hd] at b; simp at b
    · right
      rw [h1] at hb
      cases hd : dget K d with
      | none => rw [hd] at hb; simp at hb
      | some S =>
        rw [hd] at hb
        simp only [Option.map_some, Option.some.injEq] at hb
        refine ⟨S, S', rfl, hc, ?_, ?_, ?_⟩
        · rw [he, ← hb]; by_cases e : K = k <;> simp [e]
        · intro sp' c hh
          have := hs sp' c hh
          rw [← hb] at this
          by_cases e : K = k
          · simp only [e, if_true] at this
            rw [dget_ddel] at this
            by_cases e2 : sp' = sp
            · simp [e2] at this
            · simpa [e2] using this
          · simpa [e] using this
        · intro hm
          rcases List.mem_cons.mp hm with e | e
          · cases hx : dget sp S'.sorted with
            | none => rfl
            | some c =>
              have := hs sp c hx
              rw [← hb] at this
              simp only [e, if_true] at this
              rw [dget_ddel] at this
              simp at this
          · exact hn e

theorem pop_fold_elems (sp : SortSpec) (ks : List LKey) (d : Dict LKey (LSet Nat)) (K : LKey) :
    (dget K (ks.foldl (popSorted sp) d)).map (·.elems) = (dget K d).map (·.elems) := by
  rcases pop_fold sp ks d K with ⟨a, b⟩ | ⟨S, S', hb, hc, he, _, _⟩
  · rw [a, b]
  · rw [hb, hc]; simp [he]

variable {M : Mapping σR} {wfR : Dict Nat σR → Prop} {keyOf : List Cell → LKey → Prop}

/-- "row `r` is (ghost-)excused for the set under `K`": a `_reset_sorted_versions` ran for it while
    its key delivery was pending, and by its current cells it does not belong under `K`. -/
def excused (keyOf : List Cell → LKey → Prop) (st : St σR) (r : Nat) (K : LKey) : Prop :=
  r ∈ st.seen ∧ ∀ rd, dget r st.table = some rd → ¬ keyOf rd.key K

/-- The invariant of the event machine. -/
structure Inv (M : Mapping σR) (wfR : Dict Nat σR → Prop) (keyOf : List Cell → LKey → Prop)
    (st : St σR) : Prop where
  good : Good M.right wfR st.index
  exact : ∀ r, r ∉ st.dirtyKey → ∀ K,
    inSet st.index K r ↔ ∃ rd, dget r st.table = some rd ∧ keyOf rd.key K
  seen_dirty : ∀ r, r ∈ st.seen → r ∈ st.dirtyKey
  cache : ∀ K S spec c, dget K st.index.bwd = some S → dget spec S.sorted = some c →
    (∀ r ∈ S.elems, st.sortDirty r spec = false ∧ ¬ excused keyOf st r K) →
    c = sortRows st.table spec S.elems

theorem inv_empty (LM : LawfulMapping M wfR keyOf) : Inv M wfR keyOf ({} : St σR) where
  good := good_empty LM.right_lawful
  exact := by intro r _ K; simp [inSet_iff, dget]
  seen_dirty := by intro r h; simp at h
  cache := by intro K S spec c h; simp [dget] at h

theorem sortValues_dset_sort_eq {table : Dict Nat RowData} {row : Nat} {rd' : RowData}
    (h : ∀ c, (match dget row table with
        | some rd => (dget c rd.sort).getD Val.none
        | none => Val.none) = (dget c rd'.sort).getD Val.none) (spec : SortSpec) (x : Nat) :
    sortValues (dset row rd' table) spec x = sortValues table spec x := by
  simp only [sortValues]
  apply List.map_congr_left
  intro s _
  rw [dget_dset]
  by_cases e : x = row
  · subst e; simp only [if_true]; exact (h _).symm
  · simp [e]

theorem inv_setKey (LM : LawfulMapping M wfR keyOf) (sortCols : List String) {st : St σR}
    (hi : Inv M wfR keyOf st) (row : Nat) (cells : List Cell) (hal : row ∉ st.seen) :
    Inv M wfR keyOf (step M sortCols st (.setKey row cells)).1 := by
  simp only [step]
  have hsv : ∀ spec x, sortValues (dset row (match dget row st.table with
      | some rd => { rd with key := cells }
      | none => { key := cells, sort := [] }) st.table) spec x = sortValues st.table spec x := by
    intro spec x
    apply sortValues_dset_sort_eq
    intro c
    cases dget row st.table <;> simp [dget]
  refine ⟨hi.good, ?_, ?_, ?_⟩
  · intro r hr K
    have hne : r ≠ row := fun e => hr (by simp [e])
    have hnd : r ∉ st.dirtyKey := fun h => hr (by simp [h])
    rw [hi.exact r hnd K, dget_dset]; simp [hne]
  · intro r h; simp [hi.seen_dirty r h]
  · intro K S spec c h1 h2 hp
    have := hi.cache K S spec c h1 h2 (by
      intro r hr
      obtain ⟨a, b⟩ := hp r hr
      refine ⟨a, ?_⟩
      rintro ⟨hs, hx⟩
      by_cases e : r = row
      · exact hal (e ▸ hs)
      · exact b ⟨hs, by intro rd hd; rw [dget_dset] at hd; simp [e] at hd; exact hx rd hd⟩)
    rw [this]
    exact (sortRows_congr spec (fun x _ => hsv spec x)).symm

theorem sortDirty_cons_ne {st : St σR} {row r : Nat} (spec : SortSpec) (hne : r ≠ row) :
    ((row :: st.dirtySort).contains r && !(st.sortDone.filter (fun p => p.1 != row)).contains (r, spec))
      = st.sortDirty r spec := by
  simp only [St.sortDirty]
  have h1 : (row :: st.dirtySort).contains r = st.dirtySort.contains r := by
    simp [List.contains_cons, hne]
  have h2 : (st.sortDone.filter (fun p => p.1 != row)).contains (r, spec) = st.sortDone.contains (r, spec) := by
    rw [Bool.eq_iff_iff]
    simp [List.contains_iff_mem, List.mem_filter, hne]
  rw [h1, h2]

theorem inv_setSort (LM : LawfulMapping M wfR keyOf) (sortCols : List String) {st : St σR}
    (hi : Inv M wfR keyOf st) (row : Nat) (cells : Dict String Val) :
    Inv M wfR keyOf (step M sortCols st (.setSort row cells)).1 := by
  simp only [step]
  cases hrow : dget row st.table with
  | some rd0 =>
    simp only
    refine ⟨hi.good, ?_, hi.seen_dirty, ?_⟩
    · intro r hr K
      rw [hi.exact r hr K, dget_dset]
      by_cases e : r = row
      · subst e; simp [hrow]
      · simp [e]
    · intro K S spec c h1 h2 hp
      have hnot : row ∉ S.elems := by
        intro hm
        have := (hp row hm).1
        simp [St.sortDirty, List.contains_iff_mem, List.mem_filter] at this
      have := hi.cache K S spec c h1 h2 (by
        intro r hr
        have hne : r ≠ row := fun e => hnot (e ▸ hr)
        obtain ⟨a, b⟩ := hp r hr
        simp only [St.sortDirty] at a
        rw [sortDirty_cons_ne spec hne] at a
        refine ⟨a, ?_⟩
        rintro ⟨hs, hx⟩
        exact b ⟨hs, by intro rd hd; rw [dget_dset] at hd; simp [hne] at hd; exact hx rd hd⟩)
      rw [this]
      apply sortRows_congr
      intro x hx
      have hne : x ≠ row := fun e => hnot (e ▸ hx)
      simp only [sortValues]
      apply List.map_congr_left
      intro s _
      rw [dget_dset]; simp [hne]
  | none =>
    simp only
    refine ⟨hi.good, ?_, ?_, ?_⟩
    · intro r hr K
      have hne : r ≠ row := fun e => hr (by simp [e])
      have hnd : r ∉ st.dirtyKey := fun h => hr (by simp [h])
      rw [hi.exact r hnd K, dget_dset]; simp [hne]
    · intro r h; simp [hi.seen_dirty r h]
    · intro K S spec c h1 h2 hp
      have hnot : row ∉ S.elems := by
        intro hm
        have := (hp row hm).1
        simp [St.sortDirty, List.contains_iff_mem, List.mem_filter] at this
      have := hi.cache K S spec c h1 h2 (by
        intro r hr
        have hne : r ≠ row := fun e => hnot (e ▸ hr)
        obtain ⟨a, b⟩ := hp r hr
        simp only [St.sortDirty] at a
        rw [sortDirty_cons_ne spec hne] at a
        refine ⟨a, ?_⟩
        rintro ⟨hs, hx⟩
        exact b ⟨hs, by intro rd hd; rw [dget_dset] at hd; simp [hne] at hd; exact hx rd hd⟩)
      rw [this]
      apply sortRows_congr
      intro x hx
      have hne : x ≠ row := fun e => hnot (e ▸ hx)
      simp only [sortValues]
      apply List.map_congr_left
      intro s _
      rw [dget_dset]; simp [hne]

theorem inv_deliverKey (LM : LawfulMapping M wfR keyOf) (sortCols : List String) {st : St σR}
    (hi : Inv M wfR keyOf st) (row : Nat) :
    Inv M wfR keyOf (step M sortCols st (.deliverKey row)).1 := by
  simp only [step]
  cases hrow : dget row st.table with
  | none => exact hi
  | some rd =>
    simp only
    obtain ⟨g, c, rl⟩ := LM.update_spec row rd.key hi.good
    refine ⟨g, ?_, ?_, ?_⟩
    · intro r hr K
      rw [rl K r]
      by_cases e : r = row
      · subst e
        simp only [if_true]
        constructor
        · intro h; exact ⟨rd, hrow, h⟩
        · rintro ⟨rd', h1, h2⟩; rw [hrow] at h1; injection h1 with h1; subst h1; exact h2
      · simp only [e, if_false]
        have hnd : r ∉ st.dirtyKey := fun h => hr (mem_filter_ne.mpr ⟨h, e⟩)
        exact hi.exact r hnd K
    · intro r h
      obtain ⟨h1, h2⟩ := mem_filter_ne.mp h
      exact mem_filter_ne.mpr ⟨hi.seen_dirty r h1, h2⟩
    · intro K S spec cc h1 h2 hp
      rcases c K with e | e
      · rw [e] at h1
        apply hi.cache K S spec cc h1 h2
        intro r hr
        obtain ⟨a, b⟩ := hp r hr
        refine ⟨a, ?_⟩
        rintro ⟨hs, hx⟩
        by_cases er : r = row
        · subst er
          have hin : inSet (M.update st.index r rd.key).1 K r := ⟨S, by rw [e]; exact h1, hr⟩
          rw [rl K r] at hin
          simp only [if_true] at hin
          exact hx rd hrow hin
        · exact b ⟨mem_filter_ne.mpr ⟨hs, er⟩, hx⟩
      · have := e S h1
        rw [this] at h2
        simp [dget] at h2

theorem inv_unset (LM : LawfulMapping M wfR keyOf) (sortCols : List String) {st : St σR}
    (hi : Inv M wfR keyOf st) (row : Nat) :
    Inv M wfR keyOf (step M sortCols st (.unset row)).1 := by
  simp only [step]
  obtain ⟨g, c, rl⟩ := LM.remove_spec row hi.good
  refine ⟨g, ?_, ?_, ?_⟩
  · intro r hr K
    rw [rl K r, dget_ddel]
    by_cases e : r = row
    · simp [e]
    · simp only [e, if_false, ne_eq, not_false_eq_true, true_and]
      have hnd : r ∉ st.dirtyKey := fun h => hr (mem_filter_ne.mpr ⟨h, e⟩)
      exact hi.exact r hnd K
  · intro r h
    obtain ⟨h1, h2⟩ := mem_filter_ne.mp h
    exact mem_filter_ne.mpr ⟨hi.seen_dirty r h1, h2⟩
  · intro K S spec cc h1 h2 hp
    rcases c K with e | e
    · have hne : ∀ r ∈ S.elems, r ≠ row := by
        intro r hr
        have hin : inSet (M.removeRowId st.index row).1 K r := ⟨S, h1, hr⟩
        exact ((rl K r).mp hin).1
      rw [e] at h1
      have := hi.cache K S spec cc h1 h2 (by
        intro r hr
        have hn := hne r hr
        obtain ⟨a, b⟩ := hp r hr
        constructor
        · simp only [St.sortDirty] at a ⊢
          have : (st.dirtySort.filter (· != row)).contains r = st.dirtySort.contains r := by
            rw [Bool.eq_iff_iff]; simp [List.contains_iff_mem, List.mem_filter, hn]
          rw [this] at a; exact a
        · rintro ⟨hs, hx⟩
          exact b ⟨mem_filter_ne.mpr ⟨hs, hn⟩, by
            intro rd hd; rw [dget_ddel] at hd; simp [hn] at hd; exact hx rd hd⟩)
      rw [this]
      apply sortRows_congr
      intro x hx
      have hn := hne x hx
      simp only [sortValues]
      apply List.map_congr_left
      intro s _
      rw [dget_ddel]; simp [hn]
    · have := e S h1
      rw [this] at h2
      simp [dget] at h2

theorem inv_lookup (LM : LawfulMapping M wfR keyOf) (sortCols : List String) {st : St σR}
    (hi : Inv M wfR keyOf st) (key : LKey) (spec : SortSpec) :
    Inv M wfR keyOf (step M sortCols st (.lookup key spec)).1 := by
  simp only [step]
  by_cases hk : specKnown sortCols spec = true
  · simp only [hk, Bool.not_true, Bool.false_eq_true, if_false]
    cases hl : lookupByKey st.index (key.map Cell.norm) with
    | error e => exact hi
    | ok o =>
      cases o with
      | none => exact hi
      | some s =>
        simp only
        cases hc : dget spec s.sorted with
        | some rowIds => exact hi
        | none =>
          simp only
          have hget : dget (key.map Cell.norm) st.index.bwd = some s := by
            simp only [lookupByKey] at hl
            by_cases hh : LKey.hashable (key.map Cell.norm) = true
            · simp [hh] at hl; exact hl
            · simp [hh] at hl
          have hel : ∀ K, (dget K (dset (key.map Cell.norm)
              { s with sorted := dset spec (sortRows st.table spec s.elems) s.sorted } st.index.bwd)).map
                (·.elems) = (dget K st.index.bwd).map (·.elems) := by
            intro K
            rw [dget_dset]
            by_cases e : K = key.map Cell.norm
            · simp [e, hget]
            · simp [e]
          refine ⟨good_of_elems hi.good hel, ?_, hi.seen_dirty, ?_⟩
          · intro r hr K
            rw [← hi.exact r hr K]
            exact inSet_of_elems hel K r
          · intro K S sp cc h1 h2 hp
            simp only at h1
            rw [dget_dset] at h1
            by_cases e : K = key.map Cell.norm
            · simp only [e, if_true, Option.some.injEq] at h1
              subst h1
              simp only at h2 hp ⊢
              rw [dget_dset] at h2
              by_cases e2 : sp = spec
              · simp only [e2, if_true, Option.some.injEq] at h2
                rw [← h2, e2]
              · simp only [e2, if_false] at h2
                exact hi.cache K s sp cc (e ▸ hget) h2 hp
            · simp only [e, if_false] at h1
              exact hi.cache K S sp cc h1 h2 hp
  · simp only [hk, Bool.not_false, if_true]
    exact hi

theorem inv_deliverSort (LM : LawfulMapping M wfR keyOf) (sortCols : List String) {st : St σR}
    (hi : Inv M wfR keyOf st) (row : Nat) (spec0 : SortSpec) :
    Inv M wfR keyOf (step M sortCols st (.deliverSort row spec0)).1 := by
  simp only [step]
  cases hrow : dget row st.table with
  | none => exact hi
  | some rd =>
    simp only
    cases hnk : M.newKeys rd.key with
    | error e => exact hi
    | ok ks =>
      simp only
      have hel := pop_fold_elems spec0 ks st.index.bwd
      refine ⟨good_of_elems hi.good hel, ?_, ?_, ?_⟩
      · intro r hr K
        rw [← hi.exact r hr K]
        exact inSet_of_elems hel K r
      · intro r h
        by_cases hd : st.dirtyKey.contains row = true
        · simp only [hd, if_true, List.mem_cons] at h
          rcases h with e | e
          · rw [e]; exact List.contains_iff_mem.mp hd
          · exact hi.seen_dirty r e
        · simp only [hd, if_false, Bool.false_eq_true] at h
          exact hi.seen_dirty r h
      · intro K S' sp cc h1 h2 hp
        simp only at h1
        rcases pop_fold spec0 ks st.index.bwd K with ⟨a, _⟩ | ⟨S, S2, hb, hc, he, hs, hn⟩
        · rw [a] at h1; simp at h1
        · rw [hc] at h1; injection h1 with h1; subst h1
          have h2' := hs sp cc h2
          rw [he]
          apply hi.cache K S sp cc hb h2'
          intro r hr
          obtain ⟨a, b⟩ := hp r (by rw [he]; exact hr)
          by_cases hcase : r = row ∧ sp = spec0
          · -- the delivered (row, spec): the set was popped, or the row is excused
            obtain ⟨e1, e2⟩ := hcase
            subst e1 e2
            exfalso
            by_cases hK : K ∈ ks
            · rw [hn hK] at h2; simp at h2
            · have hnk' : ¬ keyOf rd.key K := fun h => hK ((LM.newKeys_spec hnk K).mpr h)
              have hdk : r ∈ st.dirtyKey := by
                apply Classical.byContradiction
                intro hnd
                have := (hi.exact r hnd K).mp ⟨S, hb, hr⟩
                obtain ⟨rd', h1, h2⟩ := this
                rw [hrow] at h1; injection h1 with h1; subst h1
                exact hnk' h2
              apply b
              refine ⟨?_, ?_⟩
              · simp [hdk]
              · intro rd' hd; rw [hrow] at hd; injection hd with hd; subst hd; exact hnk'
          · constructor
            · simp only [St.sortDirty] at a ⊢
              have : ((row, spec0) :: st.sortDone).contains (r, sp) = st.sortDone.contains (r, sp) := by
                rw [List.contains_cons]
                have : ((r, sp) == (row, spec0)) = false := by
                  simp only [beq_eq_false_iff_ne, ne_eq, Prod.mk.injEq]; exact hcase
                simp [this]
              rw [this] at a; exact a
            · rintro ⟨hs', hx⟩
              apply b
              refine ⟨?_, hx⟩
              by_cases hd : st.dirtyKey.contains row = true
              · have hd' : row ∈ st.dirtyKey := List.contains_iff_mem.mp hd
                simp [hd', hs']
              · simp only [hd, if_false, Bool.false_eq_true]; exact hs'

/-- the invariant survives every event that respects the ordering assumption -/
theorem inv_step (LM : LawfulMapping M wfR keyOf) (sortCols : List String) {st : St σR}
    (hi : Inv M wfR keyOf st) (e : Ev) (hal : e.allowed st) :
    Inv M wfR keyOf (step M sortCols st e).1 := by
  cases e with
  | setKey row cells => exact inv_setKey LM sortCols hi row cells hal
  | setSort row cells => exact inv_setSort LM sortCols hi row cells
  | deliverKey row => exact inv_deliverKey LM sortCols hi row
  | deliverSort row spec => exact inv_deliverSort LM sortCols hi row spec
  | unset row => exact inv_unset LM sortCols hi row
  | lookup key spec => exact inv_lookup LM sortCols hi key spec

theorem inv_exec (LM : LawfulMapping M wfR keyOf) (sortCols : List String) :
    ∀ (evs : List Ev) {st : St σR}, Inv M wfR keyOf st → disciplined M sortCols st evs →
      Inv M wfR keyOf (exec M sortCols st evs) := by
  intro evs
  induction evs with
  | nil => intro st hi _; exact hi
  | cons e es ih =>
    intro st hi hd
    simp only [exec, List.foldl_cons]
    exact ih (inv_step LM sortCols hi e hd.1) hd.2

/-! the index part of the invariant needs no ordering assumption -/

structure Inv0 (M : Mapping σR) (wfR : Dict Nat σR → Prop) (keyOf : List Cell → LKey → Prop)
    (st : St σR) : Prop where
  good : Good M.right wfR st.index
  exact : ∀ r, r ∉ st.dirtyKey → ∀ K,
    inSet st.index K r ↔ ∃ rd, dget r st.table = some rd ∧ keyOf rd.key K

theorem Inv.toInv0 {st : St σR} (h : Inv M wfR keyOf st) : Inv0 M wfR keyOf st := ⟨h.good, h.exact⟩

theorem inv0_step (LM : LawfulMapping M wfR keyOf) (sortCols : List String) {st : St σR}
    (hi : Inv0 M wfR keyOf st) (e : Ev) : Inv0 M wfR keyOf (step M sortCols st e).1 := by
  cases e with
  | setKey row cells =>
    simp only [step]
    refine ⟨hi.good, ?_⟩
    intro r hr K
    have hne : r ≠ row := fun e => hr (by simp [e])
    have hnd : r ∉ st.dirtyKey := fun h => hr (by simp [h])
    rw [hi.exact r hnd K, dget_dset]; simp [hne]
  | setSort row cells =>
    simp only [step]
    cases hrow : dget row st.table with
    | some rd0 =>
      simp only
      refine ⟨hi.good, ?_⟩
      intro r hr K
      rw [hi.exact r hr K, dget_dset]
      by_cases e : r = row
      · subst e; simp [hrow]
      · simp [e]
    | none =>
      simp only
      refine ⟨hi.good, ?_⟩
      intro r hr K
      have hne : r ≠ row := fun e => hr (by simp [e])
      have hnd : r ∉ st.dirtyKey := fun h => hr (by simp [h])
      rw [hi.exact r hnd K, dget_dset]; simp [hne]
  | deliverKey row =>
    simp only [step]
    cases hrow : dget row st.table with
    | none => exact hi
    | some rd =>
      simp only
      obtain ⟨g, c, rl⟩ := LM.update_spec row rd.key hi.good
      refine ⟨g, ?_⟩
      intro r hr K
      rw [rl K r]
      by_cases e : r = row
      · subst e
        simp only [if_true]
        constructor
        · intro h; exact ⟨rd, hrow, h⟩
        · rintro ⟨rd', h1, h2⟩; rw [hrow] at h1; injection h1 with h1; subst h1; exact h2
      · simp only [e, if_false]
        have hnd : r ∉ st.dirtyKey := fun h => hr (mem_filter_ne.mpr ⟨h, e⟩)
        exact hi.exact r hnd K
  | deliverSort row spec0 =>
    simp only [step]
    cases hrow : dget row st.table with
    | none => exact hi
    | some rd =>
      simp only
      cases hnk : M.newKeys rd.key with
      | error e => exact hi
      | ok ks =>
        simp only
        have hel := pop_fold_elems spec0 ks st.index.bwd
        refine ⟨good_of_elems hi.good hel, ?_⟩
        intro r hr K
        rw [← hi.exact r hr K]
        exact inSet_of_elems hel K r
  | unset row =>
    simp only [step]
    obtain ⟨g, c, rl⟩ := LM.remove_spec row hi.good
    refine ⟨g, ?_⟩
    intro r hr K
    rw [rl K r, dget_ddel]
    by_cases e : r = row
    · simp [e]
    · simp only [e, if_false, ne_eq, not_false_eq_true, true_and]
      have hnd : r ∉ st.dirtyKey := fun h => hr (mem_filter_ne.mpr ⟨h, e⟩)
      exact hi.exact r hnd K
  | lookup key spec =>
    simp only [step]
    by_cases hk : specKnown sortCols spec = true
    · simp only [hk, Bool.not_true, Bool.false_eq_true, if_false]
      cases hl : lookupByKey st.index (key.map Cell.norm) with
      | error e => exact hi
      | ok o =>
        cases o with
        | none => exact hi
        | some s =>
          simp only
          cases hc : dget spec s.sorted with
          | some rowIds => exact hi
          | none =>
            simp only
            have hget : dget (key.map Cell.norm) st.index.bwd = some s := by
              simp only [lookupByKey] at hl
              by_cases hh : LKey.hashable (key.map Cell.norm) = true
              · simp [hh] at hl; exact hl
              · simp [hh] at hl
            have hel : ∀ K, (dget K (dset (key.map Cell.norm)
                { s with sorted := dset spec (sortRows st.table spec s.elems) s.sorted } st.index.bwd)).map
                  (·.elems) = (dget K st.index.bwd).map (·.elems) := by
              intro K
              rw [dget_dset]
              by_cases e : K = key.map Cell.norm
              · simp [e, hget]
              · simp [e]
            refine ⟨good_of_elems hi.good hel, ?_⟩
            intro r hr K
            rw [← hi.exact r hr K]
            exact inSet_of_elems hel K r
    · simp only [hk, Bool.not_false, if_true]
      exact hi

theorem inv0_exec (LM : LawfulMapping M wfR keyOf) (sortCols : List String) :
    ∀ (evs : List Ev) {st : St σR}, Inv0 M wfR keyOf st → Inv0 M wfR keyOf (exec M sortCols st evs) := by
  intro evs
  induction evs with
  | nil => intro st hi; exact hi
  | cons e es ih =>
    intro st hi
    simp only [exec, List.foldl_cons]
    exact ih (inv0_step LM sortCols hi e)

theorem inv0_empty (LM : LawfulMapping M wfR keyOf) : Inv0 M wfR keyOf ({} : St σR) :=
  (inv_empty LM).toInv0

/-! row ids of the table -/

theorem mem_keys_ddel {ν : Type} (k x : Nat) : ∀ d : Dict Nat ν,
    x ∈ (ddel k d).map (·.1) ↔ (x ∈ d.map (·.1) ∧ x ≠ k) := by
  intro d
  induction d with
  | nil => simp [ddel]
  | cons p t ih =>
    obtain ⟨a, v⟩ := p
    by_cases e : a = k
    · simp only [ddel, e, if_true, ih, List.map_cons, List.mem_cons]
      constructor
      · rintro ⟨h1, h2⟩; exact ⟨Or.inr h1, h2⟩
      · rintro ⟨h1 | h1, h2⟩
        · exact absurd h1 h2
        · exact ⟨h1, h2⟩
    · simp only [ddel, e, if_false, List.map_cons, List.mem_cons, ih]
      constructor
      · rintro (h | ⟨h1, h2⟩)
        · exact ⟨Or.inl h, by rw [h]; exact e⟩
        · exact ⟨Or.inr h1, h2⟩
      · rintro ⟨h1 | h1, h2⟩
        · exact Or.inl h1
        · exact Or.inr ⟨h1, h2⟩

theorem nodup_keys_ddel {ν : Type} (k : Nat) : ∀ d : Dict Nat ν,
    (d.map (·.1)).Nodup → ((ddel k d).map (·.1)).Nodup := by
  intro d
  induction d with
  | nil => intro _; simp [ddel]
  | cons p t ih =>
    obtain ⟨a, v⟩ := p
    intro h
    simp only [List.map_cons, List.nodup_cons] at h
    by_cases e : a = k
    · simp only [ddel, e, if_true]; exact ih h.2
    · simp only [ddel, e, if_false, List.map_cons, List.nodup_cons]
      refine ⟨?_, ih h.2⟩
      intro hm
      exact h.1 ((mem_keys_ddel k a t).mp hm).1

theorem nodup_keys_dset {ν : Type} (k : Nat) (v : ν) (d : Dict Nat ν) (h : (d.map (·.1)).Nodup) :
    ((dset k v d).map (·.1)).Nodup := by
  simp only [dset, List.map_cons, List.nodup_cons]
  refine ⟨?_, nodup_keys_ddel k d h⟩
  intro hm
  exact ((mem_keys_ddel k k d).mp hm).2 rfl

theorem mem_tableRows_iff (table : Dict Nat RowData) (r : Nat) :
    r ∈ tableRows table ↔ ∃ rd, dget r table = some rd := by
  unfold tableRows
  induction table with
  | nil => simp [dget]
  | cons p t ih =>
    obtain ⟨a, v⟩ := p
    simp only [List.map_cons, List.mem_cons, dget]
    by_cases e : a = r
    · simp [e]
    · have : ¬ r = a := fun h => e h.symm
      simp [e, this, ih]

theorem tableRows_nodup_step (sortCols : List String) {st : St σR}
    (h : (tableRows st.table).Nodup) (e : Ev) :
    (tableRows (step M sortCols st e).1.table).Nodup := by
  cases e with
  | setKey row cells => simp only [step]; exact nodup_keys_dset _ _ _ h
  | setSort row cells =>
    simp only [step]
    cases dget row st.table <;> exact nodup_keys_dset _ _ _ h
  | deliverKey row =>
    simp only [step]
    cases dget row st.table <;> exact h
  | deliverSort row spec =>
    simp only [step]
    cases dget row st.table with
    | none => exact h
    | some rd => simp only; cases M.newKeys rd.key <;> exact h
  | unset row => simp only [step]; exact nodup_keys_ddel _ _ h
  | lookup key spec =>
    simp only [step]
    by_cases hk : specKnown sortCols spec = true
    · simp only [hk, Bool.not_true, Bool.false_eq_true, if_false]
      cases lookupByKey st.index (key.map Cell.norm) with
      | error e => exact h
      | ok o =>
        cases o with
        | none => exact h
        | some s => simp only; cases dget spec s.sorted <;> exact h
    · simp only [hk, Bool.not_false, if_true]; exact h

theorem tableRows_nodup_exec (sortCols : List String) :
    ∀ (evs : List Ev) {st : St σR}, (tableRows st.table).Nodup →
      (tableRows (exec M sortCols st evs).table).Nodup := by
  intro evs
  induction evs with
  | nil => intro st h; exact h
  | cons e es ih =>
    intro st h
    simp only [exec, List.foldl_cons]
    exact ih (tableRows_nodup_step sortCols h e)

end machine

end Grist.Lookup
