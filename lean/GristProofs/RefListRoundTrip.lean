/-
C09: towards `RefListRoundTrip`.  Everything around `String.splitOn` is proved: decimal rendering
and `natOfDigits`, `startsWith` / `endsWith` / `drop` / `dropEnd` on the rendered token.  What
remains is a statement about the core library's legacy `String.splitOn` alone (`SplitOnJoin`).
-/
import GristProofs.MetaRefs
namespace Grist.Doc

/-! ### decimal digits -/

def digitStep (acc : Option Nat) (ch : Char) : Option Nat :=
  match acc with
  | none => none
  | some n => if ch.isDigit then some (n * 10 + (ch.toNat - '0'.toNat)) else none

theorem natOfDigits_eq (cs : List Char) :
    natOfDigits cs = if cs.isEmpty then none else cs.foldl digitStep (some 0) := rfl

theorem digitChar_facts : ∀ d, d < 10 →
    (Nat.digitChar d).isDigit = true ∧ (Nat.digitChar d).toNat - '0'.toNat = d := by decide

theorem foldl_digitStep_toDigits : ∀ (n : Nat),
    (Nat.toDigits 10 n).foldl digitStep (some 0) = some n := by
  intro n
  induction n using Nat.strongRecOn with
  | _ n ih =>
    rw [Nat.toDigits_eq_if (by omega)]
    split
    · rename_i h
      obtain ⟨h1, h2⟩ := digitChar_facts n h
      simp only [List.foldl_cons, List.foldl_nil, digitStep, h1, ↓reduceIte, h2]
      simp
    · rename_i h
      have hlt : n / 10 < n := Nat.div_lt_self (by omega) (by omega)
      obtain ⟨h1, h2⟩ := digitChar_facts (n % 10) (Nat.mod_lt _ (by omega))
      rw [List.foldl_append, ih _ hlt]
      simp only [List.foldl_cons, List.foldl_nil, digitStep, h1, ↓reduceIte, h2, Option.some.injEq]
      omega

theorem natOfDigits_toString (n : Nat) : natOfDigits (toString n).toList = some n := by
  have : (toString n).toList = Nat.toDigits 10 n := Nat.toList_repr
  rw [this, natOfDigits_eq, foldl_digitStep_toDigits]
  have : (Nat.toDigits 10 n).isEmpty = false := by
    cases h : Nat.toDigits 10 n with
    | nil => exact absurd h Nat.toDigits_ne_nil
    | cons _ _ => rfl
  simp [this]

theorem mapM_natOfDigits (l : List Nat) :
    (l.map toString).mapM (fun part => natOfDigits part.toList) = some l := by
  induction l with
  | nil => rfl
  | cons n l ih =>
    rw [List.map_cons, List.mapM_cons, natOfDigits_toString, ih]
    rfl

theorem toString_digits (n : Nat) : ∀ c ∈ (toString n).toList, c.isDigit = true := by
  intro c hc
  have : (toString n).toList = Nat.toDigits 10 n := Nat.toList_repr
  rw [this] at hc
  exact Nat.isDigit_of_mem_toDigits (by omega) (by omega) hc

theorem toString_ne_empty (n : Nat) : toString n ≠ "" := Nat.repr_ne_empty

/-! ### the remaining statement about `String.splitOn` -/

/-- splitting a `", "`-joined list of non-empty digit strings gives the list back -/
def SplitOnJoin : Prop :=
  ∀ parts : List String, parts ≠ [] → (∀ p ∈ parts, p ≠ "" ∧ ∀ c ∈ p.toList, c.isDigit = true) →
    (", ".intercalate parts).splitOn ", " = parts

/-! ### the token -/

theorem parseRefList_render (hs : SplitOnJoin) (l : List Nat) (hl : l ≠ []) :
    parseRefList ("[\"L\", " ++ ", ".intercalate (l.map toString) ++ "]") = some l := by
  generalize hb : ", ".intercalate (l.map toString) = body
  have hsplit : body.splitOn ", " = l.map toString := by
    rw [← hb]
    refine hs _ (by simpa using hl) ?_
    intro p hp
    obtain ⟨n, _, rfl⟩ := List.mem_map.mp hp
    exact ⟨toString_ne_empty n, toString_digits n⟩
  have hlist : ("[\"L\", " ++ body ++ "]").toList = "[\"L\", ".toList ++ (body.toList ++ ['\x5d']) := by
    simp [String.toList_append]
  unfold parseRefList
  have h1 : (("[\"L\", " ++ body ++ "]") == "[\"L\"]") = false := by
    rw [beq_eq_false_iff_ne]
    intro h
    have := congrArg (fun s => s.toList.length) h
    simp only [hlist, List.length_append] at this
    simp at this
    omega
  have h2 : ("[\"L\", " ++ body ++ "]").startsWith "[\"L\", " = true := by
    rw [String.startsWith_string_iff, hlist]; exact List.prefix_append _ _
  have h3 : ("[\"L\", " ++ body ++ "]").endsWith "]" = true := by
    rw [← String.endsWith_toSlice, String.Slice.endsWith_string_iff, String.copy_toSlice, hlist,
      ← List.append_assoc]
    exact List.suffix_append _ _
  have h4 : ((("[\"L\", " ++ body ++ "]").drop 6).toString.dropEnd 1).toString = body := by
    rw [← String.toList_inj]
    simp only [String.Slice.toString, String.toList_copy_dropEnd, String.toList_copy_drop, hlist]
    have : ("[\"L\", ".toList).length = 6 := by decide
    rw [List.drop_append_of_le_length (by omega), show List.drop 6 "[\"L\", ".toList = [] by decide]
    simp
  simp only [h1, h2, h3, Bool.false_eq_true, ↓reduceIte, Bool.and_self, h4, hsplit]
  exact mapM_natOfDigits l

/-- `RefListRoundTrip` follows from the statement about `String.splitOn` -/
theorem refListRoundTrip_of_splitOn (hs : SplitOnJoin) : RefListRoundTrip := by
  intro l hl
  have : l.isEmpty = false := by cases l <;> simp_all
  unfold cellRefs
  simp only [renderRefList, this, Bool.false_eq_true, ↓reduceIte]
  exact parseRefList_render hs l hl

end Grist.Doc
