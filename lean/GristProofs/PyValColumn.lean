/-
Helper development for GristProps/C23.lean and GristProps/C07.lean: facts about the column-level
functions of GristModel/PyVal.lean (`colSet`, `colConvert`, `strictEq`, `exactEq`, `equalEncoding`).
-/
import GristProofs.PyValConvert
set_option linter.unusedSimpArgs false
set_option linter.unusedVariables false
namespace Grist.PyVal

/-! ### `exactEq` values have the same encoding -/

mutual
theorem exactEq_encode (P : Prim) : ∀ a b : PyVal, exactEq a b = true → encode P a = encode P b
  | .none, b, h => by cases b <;> simp_all [exactEq]
  | .bool x, b, h => by cases b <;> simp_all [exactEq, encode]
  | .int n s, b, h => by cases b <;> simp_all [exactEq, encode]
  | .float f s, b, h => by cases b <;> simp_all [exactEq, encode]
  | .str x s, b, h => by cases b <;> simp_all [exactEq, encode]
  | .list m xs, b, h => by
    cases b <;> simp [exactEq] at h
    rename_i m' ys
    simp [encode, exactEqL_encodeL P xs ys h]
  | .tuple m xs, b, h => by
    cases b <;> simp [exactEq] at h
    rename_i m' ys
    simp [encode, exactEqL_encodeL P xs ys h]
  | .recordList r g s, b, h => by cases b <;> simp_all [exactEq, encode]
  | .bytes .., _, h => by simp [exactEq] at h
  | .dict .., _, h => by simp [exactEq] at h
  | .set .., _, h => by simp [exactEq] at h
  | .date .., _, h => by simp [exactEq] at h
  | .datetime .., _, h => by simp [exactEq] at h
  | .record .., _, h => by simp [exactEq] at h
  | .recordSet .., _, h => by simp [exactEq] at h
  | .altText _, _, h => by simp [exactEq] at h
  | .raised .., _, h => by simp [exactEq] at h
  | .recordStub .., _, h => by simp [exactEq] at h
  | .recordSetStub .., _, h => by simp [exactEq] at h
  | .unmarshallable .., _, h => by simp [exactEq] at h
  | .pending _, _, h => by simp [exactEq] at h
  | .censored _, _, h => by simp [exactEq] at h
  | .opaque .., _, h => by simp [exactEq] at h
theorem exactEqL_encodeL (P : Prim) : ∀ xs ys : List PyVal, exactEqL xs ys = true → encodeL P xs = encodeL P ys
  | [], ys, h => by cases ys <;> simp_all [exactEqL, encodeL]
  | x :: xs, ys, h => by
    cases ys with
    | nil => simp [exactEqL] at h
    | cons y ys' =>
      simp only [exactEqL, Bool.and_eq_true] at h
      simp [encodeL, exactEq_encode P x y h.1, exactEqL_encodeL P xs ys' h.2]
end

/-! ### `colSet` respects `exactEq` on values of the same class -/

/-- both raise, or both succeed with results that encode identically -/
def EncRel (P : Prim) : Except Str PyVal → Except Str PyVal → Prop
  | .ok x, .ok y => encode P x = encode P y
  | .error _, .error _ => True
  | _, _ => False

theorem EncRel_refl (P : Prim) (r : Except Str PyVal) : EncRel P r r := by
  cases r <;> simp [EncRel]

theorem colSet_respects (P : Prim) (τ : ColType) (a b : PyVal) (he : exactEq a b = true)
    (hc : sameClass a b = true) : EncRel P (colSet P τ a) (colSet P τ b) := by
  cases a <;> cases b <;> simp [exactEq, sameClass] at he hc
  case none.none => exact EncRel_refl P _
  case bool.bool x y => subst he; exact EncRel_refl P _
  case int.int n s m s' => obtain ⟨h1, h2⟩ := hc; subst he; subst h1; subst h2; exact EncRel_refl P _
  case float.float f s g s' => obtain ⟨h1, h2⟩ := hc; subst he; subst h1; subst h2; exact EncRel_refl P _
  case str.str x s y s' => obtain ⟨h1, h2⟩ := hc; subst he; subst h1; subst h2; exact EncRel_refl P _
  case list.list m xs m' ys =>
    have hl := exactEqL_encodeL P xs ys he
    cases τ <;> simp [colSet, EncRel, pyEqInt, refListPre, encode, hl]
  case tuple.tuple m xs m' ys =>
    have hl := exactEqL_encodeL P xs ys he
    cases τ <;> simp [colSet, EncRel, pyEqInt, refListPre, encode, hl]
  case recordList.recordList r g s r' g' s' =>
    subst he
    cases τ <;> simp [colSet, EncRel, pyEqInt, refListPre, encode]

/-! ### the shapes `convert` produces, and `colSet` on them -/

/-- what `<Type>.convert` can return for a value that is not an error object (tighter than
    is_right_type: Numeric never returns an int, Date never a bool, ...) -/
def shapeOK (τ : ColType) (r : PyVal) : Bool :=
  match τ with
  | .any | .blob => true
  | .text | .choice => match r with | .none => true | .str _ false => true | _ => false
  | .bool => match r with | .bool _ => true | .str _ false => true | _ => false
  | .int => match r with | .none => true | .int n false => isShort n | .str _ false => true | _ => false
  | .id | .ref => match r with | .int n false => isShort n | .str _ false => true | _ => false
  | .numeric | .date | .dateTime =>
    match r with | .none => true | .float _ false => true | .str _ false => true | _ => false
  | .positionNumber | .manualSortPos =>
    match r with | .float _ false => true | .str _ false => true | _ => false
  | .choiceList => match r with | .none => true | .str _ _ => true | .tuple _ xs => allStr xs | _ => false
  | .refList _ | .attachments =>
    match r with
    | .none => true | .str _ false => true | .recordList .. => true | .list _ xs => xs.all isRefId
    | _ => false

/-- the column types whose `set()` re-parses strings -/
def reparses (τ : ColType) : Bool :=
  match τ with
  | .choiceList | .refList _ | .attachments => true
  | _ => false

theorem altOf_shape (P : Prim) (v : PyVal) : ∃ s, altOf P v = .str s false := by
  unfold altOf; split <;> exact ⟨_, rfl⟩

theorem convert_shapeOK (P : Prim) (τ : ColType) (v : PyVal) (hr : v.isRaised = false)
    (hs : reparses τ = true → RowIdsShort v) : shapeOK τ (convert P τ v) = true := by
  cases h : doConvert P τ v with
  | error e =>
    rw [convert_error P τ v e hr h]
    obtain ⟨s, hs'⟩ := altOf_shape P v
    rw [hs']
    cases τ <;> simp [shapeOK]
  | ok r =>
    rw [convert_ok P τ v r hr h]
    cases τ
    case text => rcases doText_result P v r h with h1 | ⟨s, h1⟩ <;> subst h1 <;> simp [shapeOK]
    case choice => rcases doText_result P v r h with h1 | ⟨s, h1⟩ <;> subst h1 <;> simp [shapeOK]
    case blob => simp [shapeOK]
    case any => simp [shapeOK]
    case bool => obtain ⟨b, h1⟩ := doBool_result v r h; subst h1; simp [shapeOK]
    case int => rcases doInt_result P v r h with h1 | ⟨n, h1, hn⟩ <;> subst h1 <;> simp [shapeOK, *]
    case numeric => rcases doNumeric_result P _ v r h with h1 | ⟨f, h1⟩ <;> subst h1 <;> simp [shapeOK]
    case positionNumber => rcases doNumeric_result P _ v r h with h1 | ⟨f, h1⟩ <;> subst h1 <;> simp [shapeOK]
    case manualSortPos => rcases doNumeric_result P _ v r h with h1 | ⟨f, h1⟩ <;> subst h1 <;> simp [shapeOK]
    case date => rcases doDate_result P _ v r h with h1 | ⟨f, h1⟩ <;> subst h1 <;> simp [shapeOK]
    case dateTime => rcases doDate_result P _ v r h with h1 | ⟨f, h1⟩ <;> subst h1 <;> simp [shapeOK]
    case choiceList =>
      rcases doChoiceList_result P v r h with h1 | ⟨h1, hstr⟩ | ⟨ss, h1, _⟩
      · subst h1; simp [shapeOK]
      · subst h1; cases r <;> simp [PyVal.isStr] at hstr; simp [shapeOK]
      · subst h1; simp [shapeOK, strTuple, allStr_strs]
    case id => obtain ⟨n, h1, hn⟩ := doId_result v r h; subst h1; simp [shapeOK, hn]
    case ref => obtain ⟨n, h1, hn⟩ := doId_result v r h; subst h1; simp [shapeOK, hn]
    case refList t =>
      rcases doRefList_result P t v r h (hs rfl) with ⟨_, _, _, h1, _⟩ | h1 | ⟨rs, h1, hil, _⟩
      · subst h1; simp [shapeOK]
      · subst h1; simp [shapeOK]
      · subst h1; simp only [shapeOK]; exact all_isRefId rs hil
    case attachments =>
      rcases doRefList_result P _ v r h (hs rfl) with ⟨_, _, _, h1, _⟩ | h1 | ⟨rs, h1, hil, _⟩
      · subst h1; simp [shapeOK]
      · subst h1; simp [shapeOK]
      · subst h1; simp only [shapeOK]; exact all_isRefId rs hil

/-- `column.set` leaves a value of the shape `convert` produces unchanged, unless it is a string in
    a ChoiceList / RefList column (those are parsed again). -/
theorem colSet_fixed (P : Prim) (τ : ColType) (r : PyVal) (hsh : shapeOK τ r = true)
    (hstr : reparses τ = true → r.isStr = false) : colSet P τ r = .ok r := by
  cases τ
  case any => simp [colSet]
  case blob => simp [colSet]
  case text => simp [colSet]
  case choice => simp [colSet]
  case int => simp [colSet]
  case id => simp [colSet]
  case bool => cases r <;> simp [shapeOK] at hsh <;> simp [colSet, pyEqInt]
               rename_i b; cases b <;> simp
  case numeric => cases r <;> simp [shapeOK] at hsh <;> simp [colSet]
  case date => cases r <;> simp [shapeOK] at hsh <;> simp [colSet]
  case dateTime => cases r <;> simp [shapeOK] at hsh <;> simp [colSet]
  case positionNumber => cases r <;> simp [shapeOK] at hsh <;> simp [colSet]
  case manualSortPos => cases r <;> simp [shapeOK] at hsh <;> simp [colSet]
  case ref => cases r <;> simp [shapeOK] at hsh <;> simp [colSet]
  case choiceList =>
    have := hstr rfl
    cases r <;> simp [shapeOK] at hsh <;> simp [PyVal.isStr] at this <;> simp [colSet]
  case refList t =>
    have := hstr rfl
    cases r <;> simp [shapeOK] at hsh <;> simp [PyVal.isStr] at this <;> simp [colSet, refListPre]
  case attachments =>
    have := hstr rfl
    cases r <;> simp [shapeOK] at hsh <;> simp [PyVal.isStr] at this <;> simp [colSet, refListPre]

/-- strict_equal with None, a bool, an int or a str never relies on a numeric coercion -/
theorem strictEq_exact_of_scalar (a r : PyVal)
    (hr : r = .none ∨ (∃ b, r = .bool b) ∨ (∃ n, r = .int n false) ∨ (∃ s, r = .str s false))
    (h : strictEq a r = true) : exactEq a r = true := by
  rcases hr with h1 | ⟨b, h1⟩ | ⟨n, h1⟩ | ⟨s, h1⟩ <;> subst h1 <;> cases a <;>
    simp_all [strictEq, sameClass, pyEq, exactEq, numKey]
  all_goals (try (rename_i x; cases x <;> cases b <;> simp_all))

theorem shapeOK_scalar (τ : ColType) (r : PyVal)
    (hτ : τ = .text ∨ τ = .choice ∨ τ = .bool ∨ τ = .int) (h : shapeOK τ r = true) :
    r = .none ∨ (∃ b, r = .bool b) ∨ (∃ n, r = .int n false) ∨ (∃ s, r = .str s false) := by
  rcases hτ with h' | h' | h' | h' <;> subst h' <;> cases r <;> simp [shapeOK] at h <;> simp
  all_goals (rename_i x sb; cases sb <;> simp_all [shapeOK])

/-- `colConvert` is `convert` of an adapted value -/
theorem colConvert_eq (P : Prim) (τ : ColType) (v : PyVal) :
    ∃ v', colConvert P τ v = convert P τ v' ∧ (reparses τ = true → RowIdsShort v → RowIdsShort v') := by
  cases τ
  case ref =>
    simp only [colConvert]
    split <;> exact ⟨_, rfl, fun h => by simp [reparses] at h⟩
  case refList t =>
    refine ⟨refListColPre P t v, rfl, ?_⟩
    intro _ hs
    unfold refListColPre
    split
    · split
      · intro m xs tid ids hv hf i hi; cases hv; simp [recordSetsIds] at hf
      · intro m xs tid ids hv hf i hi; cases hv; simp [recordSetsIds] at hf
      · split
        · intro m xs tid ids hv hf i hi; cases hv; simp [recordSetsIds] at hf
        · exact hs
      · exact hs
    · exact hs
  case attachments =>
    refine ⟨refListColPre P attachmentsTable v, rfl, ?_⟩
    intro _ hs
    unfold refListColPre
    split
    · split
      · intro m xs tid ids hv hf i hi; cases hv; simp [recordSetsIds] at hf
      · intro m xs tid ids hv hf i hi; cases hv; simp [recordSetsIds] at hf
      · split
        · intro m xs tid ids hv hf i hi; cases hv; simp [recordSetsIds] at hf
        · exact hs
      · exact hs
    · exact hs
  all_goals exact ⟨v, rfl, fun _ h => h⟩

/-- a value of the shape `convert` produces is of the right type for the column, or a string -/
theorem shapeOK_range (τ : ColType) (r : PyVal) (hτ : τ ≠ .blob) (h : shapeOK τ r = true) :
    isRightType τ r = true ∨ r.isStr = true := by
  cases τ
  case blob => exact absurd rfl hτ
  case any => simp [isRightType]
  all_goals
    cases r <;> simp [shapeOK] at h <;> simp [isRightType, PyVal.isStr, isNumeric, isRefId]
  all_goals (try (rename_i sb; cases sb <;> simp_all [shapeOK, isRightType, PyVal.isStr, isNumeric, isRefId]))

end Grist.PyVal
