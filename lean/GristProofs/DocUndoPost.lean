/-
A relational description `Post d a D U` of `docAction d s a = .ok ⟨D, U, _⟩`
(the document and undo components do not depend on the summary).
-/
import GristProofs.DocUndoWrite
namespace Grist.Doc

/-! ### named pieces of the `docAction` clauses -/

def Table.removeRows (tb : Table) (rows' : List Nat) : Table :=
  { tb with
    cols := tb.cols.map (fun col =>
      { col with cells := fun r => if rows'.contains r then typeDefault col.info.type else col.cells r }),
    rows := tb.rows.filter (fun r => !rows'.contains r) }

def Table.removeUndoVals (tb : Table) (rows' : List Nat) : List (String × List Val) :=
  (tb.cols.filter (fun col => !allDefault col rows')).map (fun col => (col.id, rows'.map col.cells))

def Table.updUndoVals (tb : Table) (rows : List Nat) (cols : List (String × List Val)) :
    List (String × List Val) :=
  cols.map (fun cv =>
    (cv.1, rows.map (fun r => match tb.findCol? cv.1 with | some col => col.cells r | none => .null)))

def Table.cleared (tb : Table) (rows : List Nat) : Table :=
  { tb with cols := tb.cols.map (fun col => { col with cells := fun _ => typeDefault col.info.type }),
            rows := rows }

def Table.dataVals (tb : Table) : List (String × List Val) :=
  (tb.cols.filter (fun col => !col.info.isFormula)).map (fun col => (col.id, tb.rows.map col.cells))

def newCol (c : String) (info : ColInfo) : Col :=
  { id := c, info := info, cells := fun _ => typeDefault info.type }

def removeColUndoUpd (t c : String) (tb : Table) (col : Col) : List DocAction :=
  let nonDefault := tb.rows.filter (fun r => col.cells r != typeDefault col.info.type)
  if nonDefault.isEmpty then [] else if col.info.isFormula then []
  else [.bulkUpdate t nonDefault [(c, nonDefault.map col.cells)]]

def modCol (tb : Table) (col : Col) (c : String) (p : ColPatch) : Col :=
  { id := c, info := colInfoOfPatch col.info p,
    cells := fun r => if tb.rows.contains r then colSet (colInfoOfPatch col.info p).type (col.cells r)
                      else typeDefault (colInfoOfPatch col.info p).type }

def newTable (t : String) (cols : List (String × ColInfo)) : Table :=
  { id := t, rows := [], cols := cols.map (fun ci => newCol ci.1 ci.2) }

def removeTableDataUndo (t : String) (tb : Table) : List DocAction :=
  if tb.rows.isEmpty then []
  else [.bulkAdd t tb.rows (tb.cols.map (fun col => (col.id, tb.rows.map col.cells)))]

/-- `docAction d s a = .ok ⟨D, U, _⟩`, relationally. -/
def Post (d : Doc) : DocAction → Doc → List DocAction → Prop
  | .bulkAdd t rows cols, D, U =>
    ∃ tb tb2, findTable? d t = some tb ∧ (∀ x ∈ rows, x ∉ tb.rows) ∧
      writeCols { tb with rows := insertRows (rows.filter (· != 0)) tb.rows } rows cols = .ok tb2 ∧
      D = replaceTable d t tb2 ∧ U = [.bulkRemove t rows]
  | .bulkRemove t rows, D, U =>
    ∃ tb, findTable? d t = some tb ∧
      ((rows.filter (fun r => tb.rows.contains r) = [] ∧ D = d ∧ U = []) ∨
       (rows.filter (fun r => tb.rows.contains r) ≠ [] ∧
        D = replaceTable d t (tb.removeRows (rows.filter (fun r => tb.rows.contains r))) ∧
        U = [.bulkAdd t (rows.filter (fun r => tb.rows.contains r))
              (tb.removeUndoVals (rows.filter (fun r => tb.rows.contains r)))]))
  | .bulkUpdate t rows cols, D, U =>
    ∃ tb tb', findTable? d t = some tb ∧ (∀ x ∈ rows, x ∈ tb.rows) ∧
      (∀ cv ∈ cols, tb.hasCol cv.1 = true) ∧ writeCols tb rows cols = .ok tb' ∧
      D = replaceTable d t tb' ∧ U = [.bulkUpdate t rows (tb.updUndoVals rows cols)]
  | .replaceData t rows cols, D, U =>
    ∃ tb tb2, findTable? d t = some tb ∧
      writeCols (tb.cleared (insertRows (rows.filter (· != 0)) [])) rows
        (cols.filter (fun cv => tb.hasCol cv.1)) = .ok tb2 ∧
      D = replaceTable d t tb2 ∧ U = [.replaceData t tb.rows tb.dataVals]
  | .addColumn t c info, D, U =>
    ∃ tb, findTable? d t = some tb ∧ tb.hasCol c = false ∧
      D = replaceTable d t { tb with cols := tb.cols ++ [newCol c info] } ∧ U = [.removeColumn t c]
  | .removeColumn t c, D, U =>
    ∃ tb col, findTable? d t = some tb ∧ tb.findCol? c = some col ∧
      D = replaceTable d t { tb with cols := tb.cols.filter (fun x => x.id != c) } ∧
      U = removeColUndoUpd t c tb col ++ [.addColumn t c col.info]
  | .renameColumn t old new, D, U =>
    ∃ tb col, findTable? d t = some tb ∧ tb.findCol? old = some col ∧ tb.hasCol new = false ∧
      D = replaceTable d t
        { tb with cols := tb.cols.filter (fun x => x.id != old) ++ [{ col with id := new }] } ∧
      U = [.renameColumn t new old]
  | .modifyColumn t c p, D, U =>
    ∃ tb col, findTable? d t = some tb ∧ tb.findCol? c = some col ∧
      ((colInfoOfPatch col.info p = col.info ∧ D = d ∧ U = []) ∨
       (colInfoOfPatch col.info p ≠ col.info ∧
        D = replaceTable d t
          { tb with cols := tb.cols.filter (fun x => x.id != c) ++ [modCol tb col c p] } ∧
        U = [.modifyColumn t c (undoPatch col.info p)]))
  | .addTable t cols, D, U =>
    findTable? d t = none ∧ D = d ++ [newTable t cols] ∧ U = [.removeTable t]
  | .removeTable t, D, U =>
    ∃ tb, findTable? d t = some tb ∧ D = d.filter (fun x => x.id != t) ∧
      U = removeTableDataUndo t tb ++ [.addTable t (tb.cols.map (fun col => (col.id, col.info)))]
  | .renameTable old new, D, U =>
    ∃ tb, findTable? d old = some tb ∧ findTable? d new = none ∧
      D = d.filter (fun x => x.id != old) ++ [{ tb with id := new }] ∧ U = [.renameTable new old]

theorem post_of_ok {d : Doc} {s : Summary} {a : DocAction} {r : DAResult}
    (h : docAction d s a = .ok r) : Post d a r.doc r.undo := by
  cases a with
  | bulkAdd t rows cols =>
    simp only [docAction] at h
    cases hf : findTable? d t with
    | none => simp [hf] at h
    | some tb =>
      simp only [hf] at h
      split at h
      · simp at h
      · rename_i hany
        generalize hw : writeCols _ rows cols = w at h
        cases w with
        | error e => simp at h
        | ok tb2 =>
          simp only [Except.ok.injEq] at h
          subst h
          refine ⟨tb, tb2, hf, ?_, hw, rfl, rfl⟩
          intro x hx hx'
          apply hany
          simp only [List.any_eq_true]
          exact ⟨x, hx, by simpa using hx'⟩
  | bulkRemove t rows =>
    simp only [docAction] at h
    cases hf : findTable? d t with
    | none => simp [hf] at h
    | some tb =>
      simp only [hf] at h
      split at h
      · rename_i he
        simp only [Except.ok.injEq] at h
        subst h
        exact ⟨tb, hf, .inl ⟨by simpa using he, rfl, rfl⟩⟩
      · rename_i he
        simp only [Except.ok.injEq] at h
        subst h
        exact ⟨tb, hf, .inr ⟨by simpa using he, rfl, rfl⟩⟩
  | bulkUpdate t rows cols =>
    simp only [docAction] at h
    cases hf : findTable? d t with
    | none => simp [hf] at h
    | some tb =>
      simp only [hf] at h
      split at h
      · simp at h
      · rename_i h1
        split at h
        · simp at h
        · rename_i h2
          generalize hw : writeCols _ rows cols = w at h
          cases w with
          | error e => simp at h
          | ok tb2 =>
            simp only [Except.ok.injEq] at h
            subst h
            refine ⟨tb, tb2, hf, ?_, ?_, hw, rfl, rfl⟩
            · intro x hx
              simp only [List.any_eq_true, not_exists, not_and] at h1
              have := h1 x hx
              simpa using this
            · intro cv hcv
              simp only [List.any_eq_true, not_exists, not_and] at h2
              have := h2 cv hcv
              simpa using this
  | replaceData t rows cols =>
    simp only [docAction] at h
    cases hf : findTable? d t with
    | none => simp [hf] at h
    | some tb =>
      simp only [hf] at h
      generalize hw : writeCols _ rows _ = w at h
      cases w with
      | error e => simp at h
      | ok tb2 =>
        simp only [Except.ok.injEq] at h
        subst h
        exact ⟨tb, tb2, hf, hw, rfl, rfl⟩
  | addColumn t c info =>
    simp only [docAction] at h
    cases hf : findTable? d t with
    | none => simp [hf] at h
    | some tb =>
      simp only [hf] at h
      split at h
      · simp at h
      · rename_i h1
        simp only [Except.ok.injEq] at h
        subst h
        exact ⟨tb, hf, by simpa using h1, rfl, rfl⟩
  | removeColumn t c =>
    simp only [docAction] at h
    cases hf : findTable? d t with
    | none => simp [hf] at h
    | some tb =>
      simp only [hf] at h
      cases hc : tb.findCol? c with
      | none => simp [hc] at h
      | some col =>
        simp only [hc, Except.ok.injEq] at h
        subst h
        refine ⟨tb, col, hf, hc, rfl, ?_⟩
        simp only [removeColUndoUpd]
        split
        · rfl
        · split <;> rfl
  | renameColumn t old new =>
    simp only [docAction] at h
    cases hf : findTable? d t with
    | none => simp [hf] at h
    | some tb =>
      simp only [hf] at h
      cases hc : tb.findCol? old with
      | none => simp [hc] at h
      | some col =>
        simp only [hc] at h
        split at h
        · simp at h
        · rename_i h1
          simp only [Except.ok.injEq] at h
          subst h
          exact ⟨tb, col, hf, hc, by simpa using h1, rfl, rfl⟩
  | modifyColumn t c p =>
    simp only [docAction] at h
    cases hf : findTable? d t with
    | none => simp [hf] at h
    | some tb =>
      simp only [hf] at h
      cases hc : tb.findCol? c with
      | none => simp [hc] at h
      | some col =>
        simp only [hc] at h
        split at h
        · rename_i h1
          simp only [Except.ok.injEq] at h
          subst h
          exact ⟨tb, col, hf, hc, .inl ⟨by simpa using h1, rfl, rfl⟩⟩
        · rename_i h1
          simp only [Except.ok.injEq] at h
          subst h
          exact ⟨tb, col, hf, hc, .inr ⟨by simpa using h1, rfl, rfl⟩⟩
  | addTable t cols =>
    simp only [docAction] at h
    split at h
    · simp at h
    · rename_i h1
      simp only [Except.ok.injEq] at h
      subst h
      exact ⟨by simpa [hasTable] using h1, rfl, rfl⟩
  | removeTable t =>
    simp only [docAction] at h
    cases hf : findTable? d t with
    | none => simp [hf] at h
    | some tb =>
      simp only [hf, Except.ok.injEq] at h
      subst h
      exact ⟨tb, hf, rfl, rfl⟩
  | renameTable old new =>
    simp only [docAction] at h
    cases hf : findTable? d old with
    | none => simp [hf] at h
    | some tb =>
      simp only [hf] at h
      split at h
      · simp at h
      · rename_i h1
        simp only [Except.ok.injEq] at h
        subst h
        exact ⟨tb, hf, by simpa [hasTable] using h1, rfl, rfl⟩

theorem ok_of_post {d : Doc} (s : Summary) {a : DocAction} {D : Doc} {U : List DocAction}
    (h : Post d a D U) : ∃ r, docAction d s a = .ok r ∧ r.doc = D ∧ r.undo = U := by
  cases a with
  | bulkAdd t rows cols =>
    obtain ⟨tb, tb2, hf, hno, hw, rfl, rfl⟩ := h
    have : rows.any (fun r => tb.rows.contains r) = false := by
      rw [Bool.eq_false_iff]
      intro h'
      simp only [List.any_eq_true] at h'
      obtain ⟨x, hx, hx'⟩ := h'
      exact hno x hx (by simpa using hx')
    simp only [docAction, hf, this, hw]
    exact ⟨_, rfl, rfl, rfl⟩
  | bulkRemove t rows =>
    obtain ⟨tb, hf, ⟨he, rfl, rfl⟩ | ⟨he, rfl, rfl⟩⟩ := h
    · simp only [docAction, hf, he]
      exact ⟨_, rfl, rfl, rfl⟩
    · have : (rows.filter (fun r => tb.rows.contains r)).isEmpty = false := by
        simpa using he
      simp only [docAction, hf, this]
      exact ⟨_, rfl, rfl, rfl⟩
  | bulkUpdate t rows cols =>
    obtain ⟨tb, tb', hf, h1, h2, hw, rfl, rfl⟩ := h
    have e1 : rows.any (fun r => !tb.rows.contains r) = false := by
      rw [Bool.eq_false_iff]
      intro h'
      simp only [List.any_eq_true] at h'
      obtain ⟨x, hx, hx'⟩ := h'
      have := h1 x hx
      simp [this] at hx'
    have e2 : cols.any (fun cv => !tb.hasCol cv.1) = false := by
      rw [Bool.eq_false_iff]
      intro h'
      simp only [List.any_eq_true] at h'
      obtain ⟨x, hx, hx'⟩ := h'
      have := h2 x hx
      simp [this] at hx'
    simp only [docAction, hf, e1, e2, hw]
    exact ⟨_, rfl, rfl, rfl⟩
  | replaceData t rows cols =>
    obtain ⟨tb, tb2, hf, hw, rfl, rfl⟩ := h
    simp only [Table.cleared] at hw
    simp only [docAction, hf, hw]
    exact ⟨_, rfl, rfl, rfl⟩
  | addColumn t c info =>
    obtain ⟨tb, hf, h1, rfl, rfl⟩ := h
    simp only [docAction, hf, h1]
    exact ⟨_, rfl, rfl, rfl⟩
  | removeColumn t c =>
    obtain ⟨tb, col, hf, hc, rfl, rfl⟩ := h
    simp only [docAction, hf, hc]
    refine ⟨_, rfl, rfl, ?_⟩
    simp only [removeColUndoUpd]
    split
    · rfl
    · split <;> rfl
  | renameColumn t old new =>
    obtain ⟨tb, col, hf, hc, h1, rfl, rfl⟩ := h
    simp only [docAction, hf, hc, h1]
    exact ⟨_, rfl, rfl, rfl⟩
  | modifyColumn t c p =>
    obtain ⟨tb, col, hf, hc, ⟨he, rfl, rfl⟩ | ⟨he, rfl, rfl⟩⟩ := h
    · have : (colInfoOfPatch col.info p == col.info) = true := by simp [he]
      simp only [docAction, hf, hc, this]
      exact ⟨_, rfl, rfl, rfl⟩
    · have : (colInfoOfPatch col.info p == col.info) = false := by simpa using he
      simp only [docAction, hf, hc, this]
      exact ⟨_, rfl, rfl, rfl⟩
  | addTable t cols =>
    obtain ⟨hf, rfl, rfl⟩ := h
    have : hasTable d t = false := hasTable_eq_false.2 hf
    simp only [docAction, this]
    exact ⟨_, rfl, rfl, rfl⟩
  | removeTable t =>
    obtain ⟨tb, hf, rfl, rfl⟩ := h
    simp only [docAction, hf]
    exact ⟨_, rfl, rfl, rfl⟩
  | renameTable old new =>
    obtain ⟨tb, hf, hn, rfl, rfl⟩ := h
    have : hasTable d new = false := hasTable_eq_false.2 hn
    simp only [docAction, hf, this]
    exact ⟨_, rfl, rfl, rfl⟩

theorem docAction_ok_iff {d : Doc} (s : Summary) {a : DocAction} {D : Doc} {U : List DocAction} :
    (∃ r, docAction d s a = .ok r ∧ r.doc = D ∧ r.undo = U) ↔ Post d a D U := by
  constructor
  · rintro ⟨r, h, rfl, rfl⟩; exact post_of_ok h
  · exact ok_of_post s

end Grist.Doc
