/-
S3, undo part: on `Same` documents the undo actions emitted for an action agree up to the order of
the per-column entries inside BulkAddRecord / ReplaceTableData / AddTable.
-/
import GristProofs.DocUndoCongr
namespace Grist.Doc

/-- equality of doc actions up to the order of the column entries -/
inductive DocAction.Eqv : DocAction → DocAction → Prop
  | refl (a : DocAction) : DocAction.Eqv a a
  | bulkAdd (t : String) (rows : List Nat) {c1 c2 : List (String × List Val)} :
      c1.Perm c2 → DocAction.Eqv (.bulkAdd t rows c1) (.bulkAdd t rows c2)
  | replaceData (t : String) (rows : List Nat) {c1 c2 : List (String × List Val)} :
      c1.Perm c2 → DocAction.Eqv (.replaceData t rows c1) (.replaceData t rows c2)
  | addTable (t : String) {c1 c2 : List (String × ColInfo)} :
      c1.Perm c2 → DocAction.Eqv (.addTable t c1) (.addTable t c2)

theorem perm_of_same {β : Type} [DecidableEq β] {tb1 tb2 : Table} (hs : Table.Same tb1 tb2)
    (h1 : (tb1.cols.map (·.id)).Nodup) (h2 : (tb2.cols.map (·.id)).Nodup)
    (P : Col → Bool) (f : Col → String × β) (hkey : ∀ x, (f x).1 = x.id)
    (hcongr : ∀ x y, x.id = y.id → Col.SameOn tb1.rows x y → P x = P y ∧ f x = f y) :
    ((tb1.cols.filter P).map f).Perm ((tb2.cols.filter P).map f) := by
  have nd : ∀ tb : Table, (tb.cols.map (·.id)).Nodup → ((tb.cols.filter P).map f).Nodup := by
    intro tb h
    have hk : ((tb.cols.filter P).map f).map Prod.fst = (tb.cols.filter P).map (·.id) := by
      rw [List.map_map]
      apply List.map_congr_left
      intro x _; exact hkey x
    have hn := map_key_filter_nodup Col.id P h
    rw [← hk] at hn
    exact List.Pairwise.of_map Prod.fst (fun a b hne hab => hne (by rw [hab])) hn
  rw [List.perm_ext_iff_of_nodup (nd tb1 h1) (nd tb2 h2)]
  intro a
  simp only [List.mem_map, List.mem_filter]
  constructor
  · rintro ⟨x, ⟨hx, hP⟩, rfl⟩
    obtain ⟨y, hy, hso⟩ := hs.col_some (findCol?_of_mem h1 hx)
    have hy' := findCol?_some hy
    have := hcongr x y hy'.1.symm hso
    exact ⟨y, ⟨hy'.2, by rw [← this.1]; exact hP⟩, this.2.symm⟩
  · rintro ⟨y, ⟨hy, hP⟩, rfl⟩
    obtain ⟨x, hx, hso⟩ := hs.symm.col_some (findCol?_of_mem h2 hy)
    have hx' := findCol?_some hx
    have hso' : Col.SameOn tb1.rows x y := by
      rw [hs.1]; exact hso.symm
    have := hcongr x y hx'.1 hso'
    exact ⟨x, ⟨hx'.2, by rw [this.1]; exact hP⟩, this.2⟩

theorem allDefault_congr {x y : Col} {rows rows' : List Nat} (hsub : ∀ r ∈ rows', r ∈ rows)
    (h : Col.SameOn rows x y) : allDefault x rows' = allDefault y rows' := by
  unfold allDefault
  rw [h.1]
  induction rows' with
  | nil => rfl
  | cons r rest ih =>
    simp only [List.all_cons]
    rw [h.2 r (hsub r (by simp)), ih (fun k hk => hsub k (List.mem_cons_of_mem _ hk))]

theorem removeUndoVals_perm {tb1 tb2 : Table} (hs : Table.Same tb1 tb2)
    (h1 : (tb1.cols.map (·.id)).Nodup) (h2 : (tb2.cols.map (·.id)).Nodup) {rows' : List Nat}
    (hsub : ∀ r ∈ rows', r ∈ tb1.rows) :
    (tb1.removeUndoVals rows').Perm (tb2.removeUndoVals rows') := by
  apply perm_of_same hs h1 h2 (fun col => !allDefault col rows')
    (fun col => (col.id, rows'.map col.cells)) (fun _ => rfl)
  intro x y hxy hso
  refine ⟨by rw [allDefault_congr hsub hso], ?_⟩
  rw [hxy]
  congr 1
  exact List.map_congr_left (fun r hr => hso.2 r (hsub r hr))

theorem dataVals_perm {tb1 tb2 : Table} (hs : Table.Same tb1 tb2)
    (h1 : (tb1.cols.map (·.id)).Nodup) (h2 : (tb2.cols.map (·.id)).Nodup) :
    tb1.dataVals.Perm tb2.dataVals := by
  have := perm_of_same hs h1 h2 (fun col => !col.info.isFormula)
    (fun col => (col.id, tb1.rows.map col.cells)) (fun _ => rfl) (by
      intro x y hxy hso
      refine ⟨by rw [hso.1], ?_⟩
      rw [hxy]
      congr 1
      exact List.map_congr_left (fun r hr => hso.2 r hr))
  unfold Table.dataVals
  rw [← hs.1]
  exact this

theorem allVals_perm {tb1 tb2 : Table} (hs : Table.Same tb1 tb2)
    (h1 : (tb1.cols.map (·.id)).Nodup) (h2 : (tb2.cols.map (·.id)).Nodup) :
    (tb1.cols.map (fun col => (col.id, tb1.rows.map col.cells))).Perm
      (tb2.cols.map (fun col => (col.id, tb2.rows.map col.cells))) := by
  have := perm_of_same hs h1 h2 (fun _ => true)
    (fun col => (col.id, tb1.rows.map col.cells)) (fun _ => rfl) (by
      intro x y hxy hso
      refine ⟨rfl, ?_⟩
      rw [hxy]
      congr 1
      exact List.map_congr_left (fun r hr => hso.2 r hr))
  rw [List.filter_eq_self.2 (fun _ _ => rfl), List.filter_eq_self.2 (fun _ _ => rfl)] at this
  rw [← hs.1]
  exact this

theorem infos_perm {tb1 tb2 : Table} (hs : Table.Same tb1 tb2)
    (h1 : (tb1.cols.map (·.id)).Nodup) (h2 : (tb2.cols.map (·.id)).Nodup) :
    (tb1.cols.map (fun col => (col.id, col.info))).Perm
      (tb2.cols.map (fun col => (col.id, col.info))) := by
  have := perm_of_same hs h1 h2 (fun _ => true)
    (fun col => (col.id, col.info)) (fun _ => rfl) (by
      intro x y hxy hso
      exact ⟨rfl, by rw [hxy, hso.1]⟩)
  rw [List.filter_eq_self.2 (fun _ _ => rfl), List.filter_eq_self.2 (fun _ _ => rfl)] at this
  exact this

/-- pointwise `DocAction.Eqv` on lists -/
inductive UndoEqv : List DocAction → List DocAction → Prop
  | nil : UndoEqv [] []
  | cons {a b : DocAction} {l1 l2 : List DocAction} :
      DocAction.Eqv a b → UndoEqv l1 l2 → UndoEqv (a :: l1) (b :: l2)

theorem forall₂_single {a b : DocAction} (h : DocAction.Eqv a b) :
    UndoEqv [a] [b] := .cons h .nil

theorem forall₂_refl (l : List DocAction) : UndoEqv l l := by
  induction l with
  | nil => exact .nil
  | cons a rest ih => exact .cons (.refl a) ih

/-- S3, undo part -/
theorem post_undo_eqv {d1 d2 : Doc} {a : DocAction} {D1 D2 : Doc} {U1 U2 : List DocAction}
    (hw1 : WF d1) (hw2 : WF d2) (hs : Same d1 d2) (hp1 : Post d1 a D1 U1) (hp2 : Post d2 a D2 U2) :
    UndoEqv U1 U2 := by
  cases a with
  | bulkAdd t rows cols =>
    obtain ⟨_, _, _, _, _, _, rfl⟩ := hp1
    obtain ⟨_, _, _, _, _, _, rfl⟩ := hp2
    exact forall₂_refl _
  | bulkRemove t rows =>
    obtain ⟨tb1, hf1, hc1⟩ := hp1
    obtain ⟨tb2, hf2, hc2⟩ := hp2
    obtain ⟨tb2', hf2', hts⟩ := hs.find_some hf1
    rw [hf2] at hf2'; cases hf2'
    have hrw : rows.filter (fun r => tb2.rows.contains r) =
        rows.filter (fun r => tb1.rows.contains r) := by rw [hts.1]
    rw [hrw] at hc2
    rcases hc1 with ⟨he1, _, rfl⟩ | ⟨he1, _, rfl⟩ <;> rcases hc2 with ⟨he2, _, rfl⟩ | ⟨he2, _, rfl⟩
    · exact .nil
    · exact absurd he1 he2
    · exact absurd he2 he1
    · apply forall₂_single
      apply DocAction.Eqv.bulkAdd
      apply removeUndoVals_perm hts (hw1.table hf1).1 (hw2.table hf2).1
      intro r hr
      simpa using (List.mem_filter.1 hr).2
  | bulkUpdate t rows cols =>
    obtain ⟨tb1, _, hf1, hr1, hk1, _, _, rfl⟩ := hp1
    obtain ⟨tb2, _, hf2, _, _, _, _, rfl⟩ := hp2
    obtain ⟨tb2', hf2', hts⟩ := hs.find_some hf1
    rw [hf2] at hf2'; cases hf2'
    have : tb1.updUndoVals rows cols = tb2.updUndoVals rows cols := by
      unfold Table.updUndoVals
      apply List.map_congr_left
      intro cv hcv
      obtain ⟨c1, hc1⟩ := hasCol_eq_true.1 (hk1 cv hcv)
      obtain ⟨c2, hc2, hso⟩ := hts.col_some hc1
      simp only [hc1, hc2]
      congr 1
      exact List.map_congr_left (fun r hr => hso.2 r (hr1 r hr))
    rw [this]
    exact forall₂_refl _
  | replaceData t rows cols =>
    obtain ⟨tb1, _, hf1, _, _, rfl⟩ := hp1
    obtain ⟨tb2, _, hf2, _, _, rfl⟩ := hp2
    obtain ⟨tb2', hf2', hts⟩ := hs.find_some hf1
    rw [hf2] at hf2'; cases hf2'
    apply forall₂_single
    rw [← hts.1]
    exact DocAction.Eqv.replaceData _ _ (dataVals_perm hts (hw1.table hf1).1 (hw2.table hf2).1)
  | addColumn t c info =>
    obtain ⟨_, _, _, _, rfl⟩ := hp1
    obtain ⟨_, _, _, _, rfl⟩ := hp2
    exact forall₂_refl _
  | removeColumn t c =>
    obtain ⟨tb1, col1, hf1, hc1, _, rfl⟩ := hp1
    obtain ⟨tb2, col2, hf2, hc2, _, rfl⟩ := hp2
    obtain ⟨tb2', hf2', hts⟩ := hs.find_some hf1
    rw [hf2] at hf2'; cases hf2'
    obtain ⟨col2', hc2', hso⟩ := hts.col_some hc1
    rw [hc2] at hc2'; cases hc2'
    have hnd : tb2.rows.filter (fun r => col2.cells r != typeDefault col2.info.type) =
        tb1.rows.filter (fun r => col1.cells r != typeDefault col1.info.type) := by
      rw [← hts.1, ← hso.1]
      apply List.filter_congr
      intro r hr
      rw [hso.2 r hr]
    have hvals : ∀ l : List Nat, (∀ r ∈ l, r ∈ tb1.rows) → l.map col2.cells = l.map col1.cells :=
      fun l hl => List.map_congr_left (fun r hr => (hso.2 r (hl r hr)).symm)
    have : removeColUndoUpd t c tb2 col2 = removeColUndoUpd t c tb1 col1 := by
      have hinfo : col2.info = col1.info := hso.1.symm
      rw [hinfo] at hnd
      simp only [removeColUndoUpd, hinfo, hnd]
      rw [hvals _ (fun r hr => (List.mem_filter.1 hr).1)]
    rw [this, ← hso.1]
    exact forall₂_refl _
  | renameColumn t old new =>
    obtain ⟨_, _, _, _, _, _, rfl⟩ := hp1
    obtain ⟨_, _, _, _, _, _, rfl⟩ := hp2
    exact forall₂_refl _
  | modifyColumn t c p =>
    obtain ⟨tb1, col1, hf1, hc1, hcase1⟩ := hp1
    obtain ⟨tb2, col2, hf2, hc2, hcase2⟩ := hp2
    obtain ⟨tb2', hf2', hts⟩ := hs.find_some hf1
    rw [hf2] at hf2'; cases hf2'
    obtain ⟨col2', hc2', hso⟩ := hts.col_some hc1
    rw [hc2] at hc2'; cases hc2'
    rw [← hso.1] at hcase2
    rcases hcase1 with ⟨he1, _, rfl⟩ | ⟨he1, _, rfl⟩ <;>
      rcases hcase2 with ⟨he2, _, rfl⟩ | ⟨he2, _, rfl⟩
    · exact .nil
    · exact absurd he1 he2
    · exact absurd he2 he1
    · exact forall₂_refl _
  | addTable t cols =>
    obtain ⟨_, _, rfl⟩ := hp1
    obtain ⟨_, _, rfl⟩ := hp2
    exact forall₂_refl _
  | removeTable t =>
    obtain ⟨tb1, hf1, _, rfl⟩ := hp1
    obtain ⟨tb2, hf2, _, rfl⟩ := hp2
    obtain ⟨tb2', hf2', hts⟩ := hs.find_some hf1
    rw [hf2] at hf2'; cases hf2'
    have h1 := (hw1.table hf1).1
    have h2 := (hw2.table hf2).1
    have hlast : UndoEqv
        [DocAction.addTable t (tb1.cols.map (fun col => (col.id, col.info)))]
        [DocAction.addTable t (tb2.cols.map (fun col => (col.id, col.info)))] :=
      forall₂_single (DocAction.Eqv.addTable t (infos_perm hts h1 h2))
    simp only [removeTableDataUndo, ← hts.1]
    by_cases he : tb1.rows.isEmpty = true
    · simp only [he, ↓reduceIte, List.nil_append]
      exact hlast
    · simp only [he, Bool.false_eq_true, ↓reduceIte, List.singleton_append]
      refine .cons ?_ hlast
      have := allVals_perm hts h1 h2
      rw [← hts.1] at this
      exact DocAction.Eqv.bulkAdd t tb1.rows this
  | renameTable old new =>
    obtain ⟨_, _, _, _, rfl⟩ := hp1
    obtain ⟨_, _, _, _, rfl⟩ := hp2
    exact forall₂_refl _

end Grist.Doc
