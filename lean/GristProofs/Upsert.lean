/-
Helper development for C28 (GristProps/C28.lean): association lists, per-row view of a sequence
of `updateRow`s, `trim_update_action` is harmless when no row id is repeated, the loop invariant
tying the accumulating implementation to the row-at-a-time reference.
-/
import GristModel.Upsert
set_option linter.unusedSimpArgs false
set_option linter.unusedVariables false
set_option linter.unusedSectionVars false
namespace Grist.Upsert

/-! ### A. association lists -/
section Assoc
variable {κ β : Type} [DecidableEq κ]

@[simp] theorem aget_nil (c : κ) : aget ([] : List (κ × β)) c = none := rfl

theorem aget_cons (k : κ) (v : β) (r : List (κ × β)) (c : κ) :
    aget ((k, v) :: r) c = if k = c then some v else aget r c := rfl

theorem aget_aset (l : List (κ × β)) (c : κ) (v : β) (c' : κ) :
    aget (aset l c v) c' = if c = c' then some v else aget l c' := by
  induction l with
  | nil => simp [aset, aget_cons]
  | cons p r ih =>
    obtain ⟨k, w⟩ := p
    by_cases hk : k = c
    · subst hk
      simp only [aset, if_true, aget_cons]
      by_cases h : k = c' <;> simp [h]
    · simp only [aset, hk, if_false, aget_cons, ih]
      by_cases h : k = c'
      · subst h; simp [hk, Ne.symm hk]
      · simp [h]

theorem aget_append (a b : List (κ × β)) (c : κ) :
    aget (a ++ b) c = match aget a c with | some v => some v | none => aget b c := by
  induction a with
  | nil => simp
  | cons p r ih =>
    obtain ⟨k, w⟩ := p
    simp only [List.cons_append, aget_cons]
    by_cases h : k = c <;> simp [h, ih]

theorem aget_eq_none_of_not_mem (l : List (κ × β)) (c : κ) (h : c ∉ akeys l) : aget l c = none := by
  induction l with
  | nil => rfl
  | cons p r ih =>
    obtain ⟨k, w⟩ := p
    simp only [akeys, List.map_cons, List.mem_cons, not_or] at h
    simp only [aget_cons]
    rw [if_neg (fun hk => h.1 hk.symm)]
    exact ih h.2

theorem mem_akeys_of_aget {l : List (κ × β)} {c : κ} {v : β} (h : aget l c = some v) : c ∈ akeys l := by
  by_cases hm : c ∈ akeys l
  · exact hm
  · rw [aget_eq_none_of_not_mem l c hm] at h; cases h

theorem aget_filter_key (l : List (κ × β)) (P : κ → Bool) (c : κ) :
    aget (l.filter (fun p => P p.1)) c = if P c then aget l c else none := by
  induction l with
  | nil => simp
  | cons p r ih =>
    obtain ⟨k, w⟩ := p
    simp only [List.filter_cons]
    cases hP : P k with
    | true =>
      simp only [if_true, aget_cons, ih]
      by_cases h : k = c
      · subst h; simp [hP]
      · simp [h]
    | false =>
      simp only [Bool.false_eq_true, if_false, aget_cons, ih]
      by_cases h : k = c
      · subst h; simp [hP]
      · simp [h]

/-- Looking a row up after a map that keeps the keys. -/
theorem aget_map_val {γ : Type} (l : List (κ × β)) (g : κ → β → γ) (c : κ) :
    aget (l.map (fun p => (p.1, g p.1 p.2))) c = (aget l c).map (g c) := by
  induction l with
  | nil => simp
  | cons p r ih =>
    obtain ⟨k, w⟩ := p
    simp only [List.map_cons, aget_cons, ih]
    by_cases h : k = c
    · subst h; simp
    · simp [h]

theorem aget_mem {l : List (κ × β)} {c : κ} {v : β} (h : aget l c = some v) : (c, v) ∈ l := by
  induction l with
  | nil => cases h
  | cons p r ih =>
    obtain ⟨k, w⟩ := p
    simp only [aget_cons] at h
    by_cases hk : k = c
    · subst hk; simp at h; subst h; simp
    · simp [hk] at h; exact List.mem_cons_of_mem _ (ih h)

end Assoc

/-! ### B. `distinct` -/
section Distinct
variable {β : Type} [DecidableEq β]

theorem mem_distinct (l : List β) (x : β) : x ∈ distinct l ↔ x ∈ l := by
  induction l with
  | nil => simp [distinct]
  | cons y ys ih =>
    simp only [distinct]
    by_cases h : y ∈ ys
    · simp only [h, if_true, ih, List.mem_cons]
      constructor
      · intro hx; exact Or.inr hx
      · rintro (rfl | hx)
        · exact h
        · exact hx
    · simp [h, ih]

theorem distinct_length_le (l : List β) : (distinct l).length ≤ l.length := by
  induction l with
  | nil => simp [distinct]
  | cons y ys ih =>
    simp only [distinct]
    by_cases h : y ∈ ys
    · simp only [h, if_true, List.length_cons]; omega
    · simp only [h, if_false, List.length_cons]; omega

theorem distinct_length_eq_iff (l : List β) : (distinct l).length = l.length ↔ l.Nodup := by
  induction l with
  | nil => simp [distinct]
  | cons y ys ih =>
    simp only [distinct, List.nodup_cons]
    by_cases h : y ∈ ys
    · simp only [h, if_true, List.length_cons, not_true_eq_false, false_and, iff_false]
      have := distinct_length_le ys; omega
    · simp only [h, if_false, List.length_cons, not_false_eq_true, true_and]
      rw [← ih]; omega

/-- The elements of a list whose set of values is the singleton `[n]`. -/
theorem eq_of_distinct_singleton {l : List β} {n : β} (h : distinct l = [n]) : ∀ x ∈ l, x = n := by
  intro x hx
  have := (mem_distinct l x).mpr hx
  rw [h] at this
  simpa using this

end Distinct

/-! ### C. tables: per-row view of a sequence of `updateRow`s -/
section Tables
variable {κ α : Type} [DecidableEq κ] [DecidableEq α]

theorem setAll_cons (rc : Rec κ α) (k : κ) (v : α) (r : Rec κ α) :
    setAll rc ((k, v) :: r) = aset (setAll rc r) k v := rfl

theorem aget_setAll (rc vals : Rec κ α) (c : κ) :
    aget (setAll rc vals) c = match aget vals c with | some v => some v | none => aget rc c := by
  induction vals with
  | nil => simp [setAll]
  | cons p r ih =>
    obtain ⟨k, v⟩ := p
    rw [setAll_cons, aget_aset, aget_cons]
    by_cases h : k = c <;> simp [h, ih]

theorem updateRow_eq (t : Table κ α) (r' : Nat) (vals : Rec κ α) :
    updateRow t r' vals = t.map (fun p => (p.1, (fun i rc => if i = r' then setAll rc vals else rc) p.1 p.2)) := by
  unfold updateRow
  apply List.map_congr_left
  intro p _
  by_cases h : p.1 = r' <;> simp [h]

theorem tids_updateRow (t : Table κ α) (r' : Nat) (vals : Rec κ α) :
    tids (updateRow t r' vals) = tids t := by
  rw [updateRow_eq]; simp [tids, List.map_map, Function.comp_def]

theorem aget_updateRow (t : Table κ α) (r' : Nat) (vals : Rec κ α) (r : Nat) :
    aget (updateRow t r' vals) r = (aget t r).map (fun rc => if r = r' then setAll rc vals else rc) := by
  rw [updateRow_eq]
  exact aget_map_val t (fun i rc => if i = r' then setAll rc vals else rc) r

/-- What a sequence of row updates does to the one record with id `r`. -/
def rowFold (r : Nat) (f : Nat × Rec κ α → Rec κ α) (es : List (Nat × Rec κ α)) (rc : Rec κ α) :
    Rec κ α :=
  es.foldl (fun q e => if r = e.1 then setAll q (f e) else q) rc

theorem rowFold_cons (r : Nat) (f : Nat × Rec κ α → Rec κ α) (e : Nat × Rec κ α)
    (es : List (Nat × Rec κ α)) (rc : Rec κ α) :
    rowFold r f (e :: es) rc = rowFold r f es (if r = e.1 then setAll rc (f e) else rc) := rfl

theorem tids_foldl_updateRow (f : Nat × Rec κ α → Rec κ α) (es : List (Nat × Rec κ α)) (t : Table κ α) :
    tids (es.foldl (fun tb e => updateRow tb e.1 (f e)) t) = tids t := by
  induction es generalizing t with
  | nil => rfl
  | cons e es ih => simp only [List.foldl_cons]; rw [ih, tids_updateRow]

theorem aget_foldl_updateRow (f : Nat × Rec κ α → Rec κ α) (es : List (Nat × Rec κ α)) (t : Table κ α)
    (r : Nat) :
    aget (es.foldl (fun tb e => updateRow tb e.1 (f e)) t) r = (aget t r).map (rowFold r f es) := by
  induction es generalizing t with
  | nil =>
    simp only [List.foldl_nil]
    cases h : aget t r <;> rfl
  | cons e es ih =>
    simp only [List.foldl_cons]
    rw [ih, aget_updateRow, Option.map_map]
    rfl

theorem rowFold_noop (r : Nat) (f : Nat × Rec κ α → Rec κ α) (es : List (Nat × Rec κ α)) (rc : Rec κ α)
    (h : ∀ e ∈ es, e.1 ≠ r) : rowFold r f es rc = rc := by
  induction es generalizing rc with
  | nil => rfl
  | cons e es ih =>
    rw [rowFold_cons, if_neg (fun hr => h e (by simp) hr.symm)]
    exact ih rc (fun e' he' => h e' (List.mem_cons_of_mem _ he'))

/-- Dropping some entries and shrinking the others does not change cell `c` of record `r`, if each
    single entry for `r` has that property and no row id is repeated. -/
theorem rowFold_filter_cell (r : Nat) (f f' : Nat × Rec κ α → Rec κ α) (keep : Nat × Rec κ α → Bool)
    (es : List (Nat × Rec κ α)) (rc0 : Rec κ α) (c : κ)
    (hnd : (es.map (·.1)).Nodup)
    (hce : ∀ e ∈ es, e.1 = r →
      aget (if keep e then setAll rc0 (f' e) else rc0) c = aget (setAll rc0 (f e)) c) :
    aget (rowFold r f' (es.filter keep) rc0) c = aget (rowFold r f es rc0) c := by
  induction es with
  | nil => rfl
  | cons e es ih =>
    simp only [List.map_cons, List.nodup_cons] at hnd
    by_cases hr : e.1 = r
    · have hrest : ∀ e' ∈ es, e'.1 ≠ r := by
        intro e' he' h'
        exact hnd.1 (by rw [hr, ← h']; exact List.mem_map_of_mem he')
      have hrest' : ∀ e' ∈ es.filter keep, e'.1 ≠ r := fun e' he' => hrest e' (List.mem_filter.mp he').1
      have h0 := hce e (by simp) hr
      rw [rowFold_cons, if_pos hr.symm, rowFold_noop r f es _ hrest]
      by_cases hk : keep e = true
      · rw [List.filter_cons_of_pos hk, rowFold_cons, if_pos hr.symm, rowFold_noop r f' _ _ hrest']
        simpa [hk] using h0
      · rw [List.filter_cons_of_neg hk, rowFold_noop r f' _ _ hrest']
        simpa [hk] using h0
    · have ih' := ih hnd.2 (fun e' he' => hce e' (List.mem_cons_of_mem _ he'))
      rw [rowFold_cons, if_neg (fun h => hr h.symm)]
      by_cases hk : keep e = true
      · rw [List.filter_cons_of_pos hk, rowFold_cons, if_neg (fun h => hr h.symm)]
        exact ih'
      · rw [List.filter_cons_of_neg hk]
        exact ih'

/-- One entry of a trimmed bulk update, seen from the record it names: dropping it when none of the
    retained columns differs, and writing only the retained columns otherwise, gives every cell
    the value that writing the whole entry gives. -/
theorem trim_entry_cell (t : Table κ α) (es : List (Nat × Rec κ α)) (cols cols' : List κ)
    (hcols' : ∀ c, c ∈ cols' ↔ (c ∈ cols ∧ ∃ e ∈ es, differs t e c = true))
    (e : Nat × Rec κ α) (he : e ∈ es) (rc0 : Rec κ α)
    (hcell : ∀ c', cell t e.1 c' = aget rc0 c')
    (hk : ∀ c v, aget e.2 c = some v → c ∈ cols) (c : κ) :
    aget (if cols'.any (fun c => differs t e c) = true
            then setAll rc0 (e.2.filter (fun p => decide (p.1 ∈ cols'))) else rc0) c
      = aget (setAll rc0 e.2) c := by
  -- a cell that does not differ is the cell of the record before the action
  have hsame : ∀ c', differs t e c' = false → aget e.2 c' = aget rc0 c' := by
    intro c' hd
    unfold differs at hd
    rw [hcell c'] at hd
    simpa using hd
  have hfilt := aget_filter_key e.2 (fun k => decide (k ∈ cols')) c
  rw [aget_setAll rc0 e.2 c]
  cases hv : aget e.2 c with
  | none =>
    split
    · rw [aget_setAll, hfilt]; simp [hv]
    · rfl
  | some v =>
    have hc : c ∈ cols := hk c v hv
    simp only []
    by_cases hkeep : cols'.any (fun c => differs t e c) = true
    · rw [if_pos hkeep, aget_setAll, hfilt]
      by_cases hc' : c ∈ cols'
      · simp [hc', hv]
      · have hd : differs t e c = false := by
          cases hd : differs t e c with
          | false => rfl
          | true => exact absurd ((hcols' c).mpr ⟨hc, e, he, hd⟩) hc'
        have := hsame c hd
        simp [hc', ← this, hv]
    · rw [if_neg hkeep]
      have hd : differs t e c = false := by
        cases hd : differs t e c with
        | false => rfl
        | true =>
          exfalso; apply hkeep
          rw [List.any_eq_true]
          exact ⟨c, (hcols' c).mpr ⟨hc, e, he, hd⟩, hd⟩
      rw [← hsame c hd, hv]

/-- **`trim_update_action` is harmless when no row id is repeated**: cell by cell, the trimmed
    `BulkUpdateRecord` leaves what the plain sequence of `UpdateRecord`s leaves. -/
theorem cell_bulkUpdate (t : Table κ α) (es : List (Nat × Rec κ α)) (cols : List κ)
    (hnd : (es.map (·.1)).Nodup)
    (hk : ∀ e ∈ es, ∀ c v, aget e.2 c = some v → c ∈ cols) (r : Nat) (c : κ) :
    cell (bulkUpdate t es cols) r c = cell (es.foldl (fun tb e => updateRow tb e.1 e.2) t) r c := by
  unfold cell bulkUpdate
  simp only []
  generalize hcd : List.filter (fun c => es.any fun e => differs t e c) cols = cols'
  have hcols' : ∀ c, c ∈ cols' ↔ (c ∈ cols ∧ ∃ e ∈ es, differs t e c = true) := by
    intro c; rw [← hcd, List.mem_filter, List.any_eq_true]
  rw [aget_foldl_updateRow (fun e => e.2.filter (fun p => decide (p.1 ∈ cols'))),
      aget_foldl_updateRow (fun e => e.2)]
  cases hrc : aget t r with
  | none => rfl
  | some rc0 =>
    simp only [Option.map_some, Option.bind_some]
    apply rowFold_filter_cell r (fun e => e.2) _ _ es rc0 c hnd
    intro e he her
    have hcell : ∀ c', cell t e.1 c' = aget rc0 c' := by
      intro c'; unfold cell; rw [her, hrc]; rfl
    exact trim_entry_cell t es cols cols' hcols' e he rc0 hcell (hk e he) c

theorem tids_bulkUpdate (t : Table κ α) (es : List (Nat × Rec κ α)) (cols : List κ) :
    tids (bulkUpdate t es cols) = tids t := by
  unfold bulkUpdate
  exact tids_foldl_updateRow _ _ _

/-! ### D. adding rows, and updates that cannot reach the added rows -/

theorem newRows_append (dflt : Rec κ α) (nx : Nat) (vs : List (Rec κ α)) (v : Rec κ α) :
    newRows dflt nx (vs ++ [v]) = newRows dflt nx vs ++ [(nx + vs.length, setAll dflt v)] := by
  induction vs generalizing nx with
  | nil => simp [newRows]
  | cons w ws ih =>
    simp only [List.cons_append, newRows, ih, List.length_cons]
    have : nx + 1 + ws.length = nx + (ws.length + 1) := by omega
    rw [this]

theorem newRows_ids_ge (dflt : Rec κ α) (nx : Nat) (vs : List (Rec κ α)) :
    ∀ p ∈ newRows dflt nx vs, nx ≤ p.1 := by
  induction vs generalizing nx with
  | nil => intro p hp; simp [newRows] at hp
  | cons w ws ih =>
    intro p hp
    simp only [newRows, List.mem_cons] at hp
    rcases hp with rfl | hp
    · exact Nat.le_refl _
    · have := ih (nx + 1) p hp; omega

theorem tids_newRows (dflt : Rec κ α) (nx : Nat) (vs : List (Rec κ α)) :
    tids (newRows dflt nx vs) = (List.range vs.length).map (fun k => nx + k) := by
  induction vs generalizing nx with
  | nil => simp [newRows, tids]
  | cons w ws ih =>
    have h := ih (nx + 1)
    simp only [tids] at h ⊢
    simp only [newRows, List.map_cons, List.length_cons, List.range_succ_eq_map, h, List.map_map]
    congr 1
    apply List.map_congr_left
    intro k _
    simp only [Function.comp_def]; omega

theorem tids_append (a b : Table κ α) : tids (a ++ b) = tids a ++ tids b := by
  simp [tids]

theorem updateRow_append (a b : Table κ α) (r : Nat) (vals : Rec κ α) :
    updateRow (a ++ b) r vals = updateRow a r vals ++ updateRow b r vals := by
  simp [updateRow]

theorem updateRow_of_not_mem (b : Table κ α) (r : Nat) (vals : Rec κ α) (h : r ∉ tids b) :
    updateRow b r vals = b := by
  unfold updateRow
  conv => rhs; rw [← List.map_id b]
  apply List.map_congr_left
  intro p hp
  have : p.1 ≠ r := by
    intro hpr; apply h; rw [← hpr]; exact List.mem_map_of_mem hp
  simp [this]

theorem foldl_updateRow_append (es : List (Nat × Rec κ α)) (a b : Table κ α)
    (h : ∀ e ∈ es, e.1 ∉ tids b) :
    es.foldl (fun tb e => updateRow tb e.1 e.2) (a ++ b)
      = es.foldl (fun tb e => updateRow tb e.1 e.2) a ++ b := by
  induction es generalizing a with
  | nil => rfl
  | cons e es ih =>
    simp only [List.foldl_cons]
    rw [updateRow_append, updateRow_of_not_mem b e.1 e.2 (h e (by simp))]
    exact ih _ (fun e' he' => h e' (List.mem_cons_of_mem _ he'))

theorem lookupRecords_sub (t : Table κ α) (key : Rec κ α) : ∀ r ∈ lookupRecords t key, r ∈ tids t := by
  intro r hr
  unfold lookupRecords at hr
  obtain ⟨p, hp, rfl⟩ := List.mem_map.mp hr
  exact List.mem_map_of_mem (List.mem_filter.mp hp).1

/-! ### E. the returned id lists -/

def countNone : List (Option (List Nat)) → Nat
  | [] => 0
  | none :: r => countNone r + 1
  | some _ :: r => countNone r

theorem countNone_append (a b : List (Option (List Nat))) :
    countNone (a ++ b) = countNone a + countNone b := by
  induction a with
  | nil => simp [countNone]
  | cons x r ih => cases x <;> simp [countNone, ih] <;> omega

theorem fillIds_append (a b : List (Option (List Nat))) (nx : Nat) :
    fillIds (a ++ b) nx = fillIds a nx ++ fillIds b (nx + countNone a) := by
  induction a generalizing nx with
  | nil => simp [fillIds, countNone]
  | cons x r ih =>
    cases x with
    | none =>
      simp only [List.cons_append, fillIds, countNone, ih, List.cons.injEq, true_and]
      have : nx + 1 + countNone r = nx + (countNone r + 1) := by omega
      rw [this]
    | some l => simp [fillIds, countNone, ih]

theorem receivers_of_selectMany_none (opt : Options) (ms : List Nat) (h : selectMany opt ms = none) :
    receivers opt ms = [] := by
  unfold selectMany at h
  unfold receivers
  by_cases hl : ms.length > 1
  · rw [if_pos hl] at h
    cases hom : opt.onMany <;> rw [hom] at h <;> simp at h
    simp; omega
  · rw [if_neg hl] at h; cases h

theorem receivers_of_selectMany_some (opt : Options) (ms recs : List Nat) (hne : ms ≠ [])
    (h : selectMany opt ms = some recs) : receivers opt ms = recs ∧ recs ≠ [] := by
  unfold selectMany at h
  unfold receivers
  rcases ms with _ | ⟨x, _ | ⟨y, l⟩⟩
  · exact absurd rfl hne
  · simp at h; subst h
    cases opt.onMany <;> simp
  · simp at h
    cases hom : opt.onMany <;> rw [hom] at h <;> simp at h <;> subst h <;> simp

/-! ### F. the loop invariant: accumulators of the implementation vs. state of the reference -/

theorem aget_rowAt_mem {β : Type} (cols : List (κ × List β)) (i : Nat) (c : κ) (v : β)
    (h : aget (rowAt cols i) c = some v) : c ∈ akeys cols := by
  have hm := mem_akeys_of_aget h
  unfold akeys rowAt at hm
  obtain ⟨q, hq, rfl⟩ := List.mem_map.mp hm
  obtain ⟨p, hp, hpq⟩ := List.mem_filterMap.mp hq
  cases hv : p.2[i]? with
  | none => rw [hv] at hpq; cases hpq
  | some w =>
    rw [hv] at hpq
    simp at hpq
    subst hpq
    exact List.mem_map_of_mem hp

/-- The plain sequence of `UpdateRecord`s for the accumulated (row id, values) pairs. -/
def applyAll (es : List (Nat × Rec κ α)) (t : Table κ α) : Table κ α :=
  es.foldl (fun tb e => updateRow tb e.1 e.2) t

structure Rel (t0 : Table κ α) (next : Nat) (dflt : Rec κ α) (rq : Request κ α)
    (acc : Acc κ α) (st : SpecState κ α) : Prop where
  htable : st.table = applyAll acc.upds t0 ++ newRows dflt next acc.adds
  hnx : st.next = next + acc.adds.length
  hrec : st.recordIds = fillIds acc.recordIds next
  nones : countNone acc.recordIds = acc.adds.length
  hadds : st.addIds = (List.range acc.adds.length).map (fun k => next + k)
  hupds : st.updIds = acc.updateRecordIds
  inT0 : ∀ e ∈ acc.upds, e.1 ∈ tids t0
  flat : acc.updateRecordIds.flatten = acc.upds.map (·.1)
  keys : ∀ e ∈ acc.upds, ∀ c v, aget e.2 c = some v → c ∈ akeys rq.colValues
  nonempty : ∀ l ∈ acc.updateRecordIds, l ≠ []

theorem rel_init (t0 : Table κ α) (next : Nat) (dflt : Rec κ α) (rq : Request κ α) :
    Rel t0 next dflt rq ({} : Acc κ α) { table := t0, next := next } := by
  constructor <;> simp [applyAll, newRows, fillIds, countNone]

theorem rel_step (sch : Schema κ) (t0 : Table κ α) (next : Nat) (dflt : Rec κ α) (rq : Request κ α)
    (opt : Options) (hnext : ∀ r ∈ tids t0, r < next)
    (acc : Acc κ α) (st : SpecState κ α) (i : Nat) (h : Rel t0 next dflt rq acc st) :
    Rel t0 next dflt rq (implStep sch t0 rq opt acc i) (specStep sch t0 dflt rq opt st i) := by
  unfold implStep specStep
  simp only []
  -- nothing is written to the table and `[]` is recorded for this input row
  have hskip : Rel t0 next dflt rq { acc with recordIds := acc.recordIds ++ [some []] }
      { st with table := ([] : List Nat).foldl (fun tb r => updateRow tb r (rowAt rq.colValues i)) st.table,
                recordIds := st.recordIds ++ [[]],
                updIds := st.updIds } := by
    constructor
    · exact h.htable
    · exact h.hnx
    · simp only [fillIds_append, fillIds, h.hrec]
    · simp only [countNone_append, countNone, h.nones]; rfl
    · exact h.hadds
    · exact h.hupds
    · exact h.inT0
    · exact h.flat
    · exact h.keys
    · exact h.nonempty
  by_cases hempty : (lookupRecords t0 (convKey rq i)).isEmpty = true
  · rw [if_pos hempty, if_pos hempty]
    by_cases hadd : opt.add = true
    · rw [if_pos hadd, if_pos hadd]
      constructor
      · simp only [h.htable, newRows_append, h.hnx, List.append_assoc]
      · simp only [h.hnx, List.length_append, List.length_cons, List.length_nil]; omega
      · simp only [fillIds_append, fillIds, h.hrec, h.nones, h.hnx]
      · simp only [countNone_append, countNone, h.nones, List.length_append, List.length_cons,
          List.length_nil]
      · simp only [h.hadds, h.hnx, List.length_append, List.length_cons, List.length_nil,
          List.range_succ, List.map_append, List.map_cons, List.map_nil]
      · exact h.hupds
      · exact h.inT0
      · exact h.flat
      · exact h.keys
      · exact h.nonempty
    · rw [if_neg hadd, if_neg hadd]
      exact hskip
  · rw [if_neg hempty, if_neg hempty]
    have hne : lookupRecords t0 (convKey rq i) ≠ [] := by
      intro h0; rw [h0] at hempty; exact hempty rfl
    by_cases hupd : opt.update = true
    · rw [if_pos hupd]
      simp only [hupd, if_true]
      cases hsel : selectMany opt (lookupRecords t0 (convKey rq i)) with
      | none =>
        rw [receivers_of_selectMany_none opt _ hsel]
        exact hskip
      | some recs =>
        obtain ⟨hrecv, hrne⟩ := receivers_of_selectMany_some opt _ recs hne hsel
        rw [hrecv]
        have hsub : ∀ r ∈ recs, r ∈ lookupRecords t0 (convKey rq i) := by
          intro r hr
          rw [← hrecv] at hr
          unfold receivers at hr
          cases hom : opt.onMany <;> rw [hom] at hr <;> simp at hr
          · exact List.mem_of_mem_head? hr
          · exact hr.2
          · exact hr
          · exact hr
        have hin : ∀ r ∈ recs, r ∈ tids t0 := fun r hr => lookupRecords_sub t0 _ r (hsub r hr)
        have hisE : recs.isEmpty = false := by
          cases recs with
          | nil => exact absurd rfl hrne
          | cons _ _ => rfl
        constructor
        · simp only [h.htable, applyAll, List.foldl_append]
          rw [← List.foldl_map (f := fun r => (r, rowAt rq.colValues i))
                (g := fun (tb : Table κ α) (e : Nat × Rec κ α) => updateRow tb e.1 e.2)]
          apply foldl_updateRow_append
          intro e he
          obtain ⟨r, hr, rfl⟩ := List.mem_map.mp he
          intro hmem
          have h1 := hnext r (hin r hr)
          obtain ⟨p, hp, hpr⟩ := List.mem_map.mp hmem
          have h2 := newRows_ids_ge dflt next acc.adds p hp
          simp only at hpr
          omega
        · exact h.hnx
        · simp only [fillIds_append, fillIds, h.hrec]
        · simp only [countNone_append, countNone, h.nones]; rfl
        · exact h.hadds
        · simp only [hisE, h.hupds]; rfl
        · intro e he
          rcases List.mem_append.mp he with he | he
          · exact h.inT0 e he
          · obtain ⟨r, hr, rfl⟩ := List.mem_map.mp he
            exact hin r hr
        · simp only [List.flatten_append, h.flat, List.map_append, List.map_map, List.flatten_cons,
            List.flatten_nil, List.append_nil, Function.comp_def, List.map_id']
        · intro e he
          rcases List.mem_append.mp he with he | he
          · exact h.keys e he
          · obtain ⟨r, hr, rfl⟩ := List.mem_map.mp he
            intro c v hv
            exact aget_rowAt_mem rq.colValues i c v hv
        · intro l hl
          rcases List.mem_append.mp hl with hl | hl
          · exact h.nonempty l hl
          · simp at hl; subst hl; exact hrne
    · rw [if_neg hupd]
      simp only [hupd]
      exact hskip

theorem rel_fold (sch : Schema κ) (t0 : Table κ α) (next : Nat) (dflt : Rec κ α) (rq : Request κ α)
    (opt : Options) (hnext : ∀ r ∈ tids t0, r < next) (is : List Nat)
    (acc : Acc κ α) (st : SpecState κ α) (h : Rel t0 next dflt rq acc st) :
    Rel t0 next dflt rq (is.foldl (implStep sch t0 rq opt) acc)
      (is.foldl (specStep sch t0 dflt rq opt) st) := by
  induction is generalizing acc st with
  | nil => exact h
  | cons i is ih =>
    simp only [List.foldl_cons]
    exact ih _ _ (rel_step sch t0 next dflt rq opt hnext acc st i h)

/-! ### G. the two bulk actions at the end, and the late column check -/

theorem checkCols_append (sch : Schema κ) (a b : List κ) :
    checkCols sch (a ++ b) = match checkCols sch a with
      | .error e => .error e
      | .ok _ => checkCols sch b := by
  induction a with
  | nil => rfl
  | cons k ks ih =>
    simp only [List.cons_append, checkCols]
    cases hk : aget sch k with
    | none => rfl
    | some kd => cases kd <;> simp [ih]

/-- Data columns and empty columns accept values. -/
def Writable (sch : Schema κ) (k : κ) : Prop := aget sch k = some .data ∨ aget sch k = some .empty

theorem checkCols_ok_of_data (sch : Schema κ) (ks : List κ) (h : ∀ k ∈ ks, Writable sch k) :
    checkCols sch ks = .ok () := by
  induction ks with
  | nil => rfl
  | cons k ks ih =>
    rcases h k (by simp) with hk | hk
    · simp only [checkCols, hk]
      exact ih (fun k' hk' => h k' (List.mem_cons_of_mem _ hk'))
    · simp only [checkCols, hk]
      exact ih (fun k' hk' => h k' (List.mem_cons_of_mem _ hk'))

/-- What the argument checks guarantee when they pass. -/
theorem validate_some {sch : Schema κ} {rq : Request κ α} {opt : Options} {n : Nat}
    (h : validate sch rq opt = .ok (some n)) :
    distinct (lens rq) = [n] ∧ (∀ p ∈ rq.require, (aget sch p.1).isSome = true) ∧
    (rq.require ≠ [] → (rawKeys rq n).Nodup) := by
  unfold validate at h
  split at h
  · cases h
  · split at h
    · cases h
    · split at h
      · cases h
      · split at h
        · rename_i m hm
          split at h
          · cases h
          · rename_i hu
            split at h
            · cases h
            · rename_i hk
              injection h with h; injection h with h; subst h
              refine ⟨hm, ?_, ?_⟩
              · intro p hp
                cases hs : (aget sch p.1).isSome with
                | true => rfl
                | false =>
                  exfalso; apply hk
                  rw [List.any_eq_true]
                  refine ⟨p, hp, ?_⟩
                  cases hx : aget sch p.1 with
                  | none => rfl
                  | some _ => rw [hx] at hs; cases hs
              · intro hne
                have hr : rq.require.isEmpty = false := by
                  cases hreq : rq.require with
                  | nil => exact absurd hreq hne
                  | cons _ _ => rfl
                rw [← distinct_length_eq_iff]
                have hle := distinct_length_le (rawKeys rq m)
                have hlen : (rawKeys rq m).length = m := by simp [rawKeys]
                simp only [hr, Bool.not_false, Bool.true_and, decide_eq_true_eq] at hu
                omega
        · cases h

theorem requireAddKeys_data {sch : Schema κ} {rq : Request κ α}
    (hknown : ∀ p ∈ rq.require, (aget sch p.1).isSome = true) :
    ∀ k ∈ requireAddKeys sch rq, Writable sch k := by
  intro k hk
  unfold requireAddKeys at hk
  obtain ⟨hk1, hk2⟩ := List.mem_filter.mp hk
  obtain ⟨p, hp, rfl⟩ := List.mem_map.mp hk1
  have := hknown p hp
  simp only [decide_eq_true_eq] at hk2
  cases hx : aget sch p.1 with
  | none => rw [hx] at this; cases this
  | some kd =>
    cases kd with
    | data => exact Or.inl hx
    | formula => exact absurd hx hk2
    | empty => exact Or.inr hx

/-- `BulkAddOrUpdateRecord` after the argument checks, in closed form: the late column check is that
    of `col_values`, the final table is the trimmed bulk update of the table with the new rows. -/
theorem upsertImpl_eq (sch : Schema κ) (t0 : Table κ α) (next : Nat) (dflt : Rec κ α)
    (rq : Request κ α) (opt : Options) (n : Nat) (hv : validate sch rq opt = .ok (some n)) :
    upsertImpl sch t0 next dflt rq opt =
      (let acc := implAcc sch t0 rq opt n
       let res : Result := { recordIds := fillIds acc.recordIds next,
                             addRecordIds := (List.range acc.adds.length).map (fun k => next + k),
                             updateRecordIds := acc.updateRecordIds }
       let tb := bulkUpdate (t0 ++ newRows dflt next acc.adds) acc.upds (akeys rq.colValues)
       if acc.adds.isEmpty && acc.upds.isEmpty then .ok (tb, res)
       else match checkCols sch (akeys rq.colValues) with
         | .error e => .error e
         | .ok _ => .ok (tb, res)) := by
  have hdata := requireAddKeys_data (validate_some hv).2.1
  have hextra : checkCols sch ((requireAddKeys sch rq).filter (fun k => decide (k ∉ akeys rq.colValues)))
      = .ok () :=
    checkCols_ok_of_data sch _ (fun k hk => hdata k (List.mem_filter.mp hk).1)
  unfold upsertImpl
  rw [hv]
  simp only []
  generalize implAcc sch t0 rq opt n = acc
  rw [checkCols_append, hextra]
  rcases acc with ⟨adds, upds, rids, urids⟩
  cases adds with
  | nil =>
    cases upds with
    | nil => simp [newRows, bulkUpdate]
    | cons u us =>
      simp only [List.isEmpty_nil, List.isEmpty_cons, if_true, newRows, List.append_nil,
        Bool.false_eq_true, if_false, Bool.and_false]
      cases checkCols sch (akeys rq.colValues) <;> rfl
  | cons a as =>
    cases upds with
    | nil =>
      simp only [List.isEmpty_nil, List.isEmpty_cons, if_true, Bool.false_eq_true, if_false,
        Bool.false_and]
      cases checkCols sch (akeys rq.colValues) with
      | error e => rfl
      | ok u => simp [bulkUpdate]
    | cons u us =>
      simp only [List.isEmpty_cons, Bool.false_eq_true, if_false, Bool.false_and]
      cases checkCols sch (akeys rq.colValues) <;> rfl

/-- **Implementation = reference** when no record is named twice by the accumulated update. -/
theorem impl_same_spec (sch : Schema κ) (t0 : Table κ α) (next : Nat) (dflt : Rec κ α)
    (rq : Request κ α) (opt : Options) (hnext : ∀ r ∈ tids t0, r < next)
    (hnd : (updTargets sch t0 rq opt).Nodup) :
    SameOutcome (upsertImpl sch t0 next dflt rq opt) (upsertSpec sch t0 next dflt rq opt) := by
  cases hv : validate sch rq opt with
  | error e => unfold upsertImpl upsertSpec; rw [hv]; exact rfl
  | ok o =>
    cases o with
    | none => unfold upsertImpl upsertSpec; rw [hv]; exact ⟨rfl, rfl, fun _ _ => rfl⟩
    | some n =>
      rw [upsertImpl_eq sch t0 next dflt rq opt n hv]
      unfold upsertSpec
      rw [hv]
      unfold updTargets at hnd
      rw [hv] at hnd
      simp only [] at hnd ⊢
      have hrel := rel_fold sch t0 next dflt rq opt hnext (List.range n) {} { table := t0, next := next }
        (rel_init t0 next dflt rq)
      unfold implAcc at hnd ⊢
      generalize (List.range n).foldl (implStep sch t0 rq opt) {} = acc at hrel hnd ⊢
      generalize (List.range n).foldl (specStep sch t0 dflt rq opt) { table := t0, next := next } = st
        at hrel ⊢
      -- the emptiness tests agree
      have hA : st.addIds.isEmpty = acc.adds.isEmpty := by
        rw [hrel.hadds]; cases acc.adds <;> simp [List.range_succ]
      have hU : st.updIds.isEmpty = acc.upds.isEmpty := by
        rw [hrel.hupds]
        have hflat := hrel.flat
        cases hu : acc.updateRecordIds with
        | nil => rw [hu] at hflat; cases hup : acc.upds with
          | nil => rfl
          | cons _ _ => rw [hup] at hflat; simp at hflat
        | cons l ls =>
          have hl := hrel.nonempty l (by rw [hu]; simp)
          cases hup : acc.upds with
          | nil =>
            rw [hu, hup] at hflat
            cases l with
            | nil => exact absurd rfl hl
            | cons _ _ => simp at hflat
          | cons _ _ => rfl
      -- the outcome in case of success
      have hok : SameOutcome (κ := κ) (α := α)
          (.ok (bulkUpdate (t0 ++ newRows dflt next acc.adds) acc.upds (akeys rq.colValues),
                { recordIds := fillIds acc.recordIds next,
                  addRecordIds := (List.range acc.adds.length).map (fun k => next + k),
                  updateRecordIds := acc.updateRecordIds }))
          (.ok (st.table, ⟨st.recordIds, st.addIds, st.updIds⟩)) := by
        have hfresh : ∀ e ∈ acc.upds, e.1 ∉ tids (newRows dflt next acc.adds) := by
          intro e he hmem
          have h1 := hnext e.1 (hrel.inT0 e he)
          obtain ⟨p, hp, hpr⟩ := List.mem_map.mp hmem
          have h2 := newRows_ids_ge dflt next acc.adds p hp
          omega
        have htab : st.table = acc.upds.foldl (fun tb e => updateRow tb e.1 e.2)
            (t0 ++ newRows dflt next acc.adds) := by
          rw [hrel.htable, foldl_updateRow_append _ _ _ hfresh]; rfl
        refine ⟨?_, ?_, ?_⟩
        · rw [hrel.hrec, hrel.hadds, hrel.hupds]
        · rw [tids_bulkUpdate, htab, tids_foldl_updateRow (fun e => e.2)]
        · intro r c
          rw [htab]
          exact cell_bulkUpdate _ _ _ hnd hrel.keys r c
      rw [hA, hU]
      by_cases hE : (acc.adds.isEmpty && acc.upds.isEmpty) = true
      · rw [if_pos hE, if_pos hE]; exact hok
      · rw [if_neg hE, if_neg hE]
        cases checkCols sch (akeys rq.colValues) with
        | error e => exact rfl
        | ok u => exact hok

/-! ### H. distinct (converted) require keys: no record is targeted twice -/

theorem recMatches_key_eq (rc : Rec κ α) : ∀ (k1 k2 : Rec κ α), recMatches rc k1 = true →
    recMatches rc k2 = true → akeys k1 = akeys k2 → k1 = k2 := by
  intro k1
  induction k1 with
  | nil => intro k2 _ _ hk; cases k2 with
    | nil => rfl
    | cons _ _ => simp [akeys] at hk
  | cons p r ih =>
    intro k2 h1 h2 hk
    cases k2 with
    | nil => simp [akeys] at hk
    | cons q r2 =>
      obtain ⟨c1, v1⟩ := p
      obtain ⟨c2, v2⟩ := q
      simp only [akeys, List.map_cons, List.cons.injEq] at hk
      obtain ⟨hc, hk'⟩ := hk
      subst hc
      simp only [recMatches, List.all_cons, Bool.and_eq_true, decide_eq_true_eq] at h1 h2
      have hv : v1 = v2 := by
        have := h1.1.symm.trans h2.1
        exact Option.some.inj this
      subst hv
      rw [ih r2 h1.2 h2.2 hk']

theorem akeys_rowAt {β : Type} (cols : List (κ × List β)) (i : Nat) (h : ∀ p ∈ cols, i < p.2.length) :
    akeys (rowAt cols i) = akeys cols := by
  induction cols with
  | nil => rfl
  | cons p r ih =>
    have hp := h p (by simp)
    have ih' := ih (fun q hq => h q (List.mem_cons_of_mem _ hq))
    simp only [akeys, rowAt, List.filterMap_cons, List.getElem?_eq_getElem hp, Option.map_some,
      List.map_cons] at ih' ⊢
    rw [ih']

theorem akeys_convKey (rq : Request κ α) (i : Nat) (h : ∀ p ∈ rq.require, i < p.2.length) :
    akeys (convKey rq i) = akeys rq.require := by
  rw [← akeys_rowAt rq.require i h]
  simp [akeys, convKey, List.map_map, Function.comp_def]

theorem eq_of_mem_of_fst_eq {β : Type} (l : List (Nat × β)) (hnd : (l.map (·.1)).Nodup)
    (p q : Nat × β) (hp : p ∈ l) (hq : q ∈ l) (h : p.1 = q.1) : p = q := by
  induction l with
  | nil => cases hp
  | cons x xs ih =>
    simp only [List.map_cons, List.nodup_cons] at hnd
    rcases List.mem_cons.mp hp with rfl | hp' <;> rcases List.mem_cons.mp hq with rfl | hq'
    · rfl
    · exact absurd (by rw [h]; exact List.mem_map_of_mem hq') hnd.1
    · exact absurd (by rw [← h]; exact List.mem_map_of_mem hp') hnd.1
    · exact ih hnd.2 hp' hq'

/-- A record found under two keys over the same columns: the keys are equal. -/
theorem key_eq_of_common_record (t0 : Table κ α) (hids : (tids t0).Nodup) (k1 k2 : Rec κ α)
    (hk : akeys k1 = akeys k2) (r : Nat) (h1 : r ∈ lookupRecords t0 k1) (h2 : r ∈ lookupRecords t0 k2) :
    k1 = k2 := by
  unfold lookupRecords at h1 h2
  obtain ⟨p, hp, hpr⟩ := List.mem_map.mp h1
  obtain ⟨q, hq, hqr⟩ := List.mem_map.mp h2
  obtain ⟨hp1, hp2⟩ := List.mem_filter.mp hp
  obtain ⟨hq1, hq2⟩ := List.mem_filter.mp hq
  have : p = q := eq_of_mem_of_fst_eq t0 hids p q hp1 hq1 (hpr.trans hqr.symm)
  subst this
  exact recMatches_key_eq p.2 k1 k2 hp2 hq2 hk

theorem lookupRecords_nodup (t0 : Table κ α) (hids : (tids t0).Nodup) (key : Rec κ α) :
    (lookupRecords t0 key).Nodup := by
  unfold lookupRecords
  exact List.Nodup.sublist (List.Sublist.map _ List.filter_sublist) hids

theorem selectMany_sub (opt : Options) (ms recs : List Nat) (h : selectMany opt ms = some recs) :
    recs.Sublist ms := by
  unfold selectMany at h
  split at h
  · cases hom : opt.onMany <;> rw [hom] at h <;> simp at h
    · subst h; exact List.take_sublist _ _
    · subst h; exact List.Sublist.refl _
    · subst h; exact List.Sublist.refl _
  · simp at h; subst h; exact List.Sublist.refl _

theorem implStep_upds (sch : Schema κ) (t0 : Table κ α) (rq : Request κ α) (opt : Options)
    (acc : Acc κ α) (i : Nat) :
    ∃ recs : List Nat, recs.Sublist (lookupRecords t0 (convKey rq i)) ∧
      (implStep sch t0 rq opt acc i).upds = acc.upds ++ recs.map (fun r => (r, rowAt rq.colValues i)) := by
  unfold implStep
  simp only []
  split
  · split <;> exact ⟨[], List.nil_sublist _, by simp⟩
  · split
    · cases hsel : selectMany opt (lookupRecords t0 (convKey rq i)) with
      | none => exact ⟨[], List.nil_sublist _, by simp⟩
      | some recs => exact ⟨recs, selectMany_sub opt _ recs hsel, rfl⟩
    · exact ⟨[], List.nil_sublist _, by simp⟩

theorem upds_nodup_fold (sch : Schema κ) (t0 : Table κ α) (rq : Request κ α) (opt : Options)
    (hids : (tids t0).Nodup) (is : List Nat) (acc : Acc κ α)
    (hpw : is.Pairwise (fun a b => ∀ r, r ∈ lookupRecords t0 (convKey rq a) →
              r ∉ lookupRecords t0 (convKey rq b)))
    (hacc : (acc.upds.map (·.1)).Nodup)
    (hsep : ∀ r ∈ acc.upds.map (·.1), ∀ i ∈ is, r ∉ lookupRecords t0 (convKey rq i)) :
    ((is.foldl (implStep sch t0 rq opt) acc).upds.map (·.1)).Nodup := by
  induction is generalizing acc with
  | nil => exact hacc
  | cons i is ih =>
    simp only [List.foldl_cons]
    obtain ⟨recs, hsub, hupds⟩ := implStep_upds sch t0 rq opt acc i
    rw [List.pairwise_cons] at hpw
    have hmap : (implStep sch t0 rq opt acc i).upds.map (·.1) = acc.upds.map (·.1) ++ recs := by
      rw [hupds]; simp [List.map_append, List.map_map, Function.comp_def]
    apply ih _ hpw.2
    · rw [hmap, List.nodup_append]
      refine ⟨hacc, List.Nodup.sublist hsub (lookupRecords_nodup t0 hids _), ?_⟩
      intro a ha b hb hab
      subst hab
      exact hsep a ha i (by simp) (hsub.subset hb)
    · intro r hr i' hi'
      rw [hmap] at hr
      rcases List.mem_append.mp hr with hr | hr
      · exact hsep r hr i' (List.mem_cons_of_mem _ hi')
      · exact hpw.1 i' hi' r (hsub.subset hr)

/-- Distinct converted keys (and distinct row ids): the accumulated update names no record twice. -/
theorem updTargets_nodup (sch : Schema κ) (t0 : Table κ α) (rq : Request κ α) (opt : Options)
    (hids : (tids t0).Nodup)
    (hkeys : ∀ n, validate sch rq opt = .ok (some n) →
      ∀ i j, i < n → j < n → i ≠ j → convKey rq i ≠ convKey rq j) :
    (updTargets sch t0 rq opt).Nodup := by
  unfold updTargets
  cases hv : validate sch rq opt with
  | error e => simp
  | ok o =>
    cases o with
    | none => simp
    | some n =>
      simp only []
      unfold implAcc
      have hlen : ∀ p ∈ rq.require, p.2.length = n := by
        intro p hp
        apply eq_of_distinct_singleton (validate_some hv).1
        unfold lens
        exact List.mem_append_left _ (List.mem_map_of_mem (f := fun p => p.2.length) hp)
      apply upds_nodup_fold sch t0 rq opt hids
      · apply List.Pairwise.imp_of_mem (R := fun a b => a < b)
        · intro a b ha hb hab r h1 h2
          have ha' : a < n := List.mem_range.mp ha
          have hb' : b < n := List.mem_range.mp hb
          have hk : akeys (convKey rq a) = akeys (convKey rq b) := by
            rw [akeys_convKey rq a (fun p hp => by rw [hlen p hp]; exact ha'),
                akeys_convKey rq b (fun p hp => by rw [hlen p hp]; exact hb')]
          exact hkeys n hv a b ha' hb' (Nat.ne_of_lt hab)
            (key_eq_of_common_record t0 hids _ _ hk r h1 h2)
        · exact List.pairwise_lt_range
      · simp
      · simp

/-! ### I. frame: what the implementation cannot touch -/

theorem rowFold_cell_untouched (r : Nat) (f : Nat × Rec κ α → Rec κ α) (es : List (Nat × Rec κ α))
    (rc : Rec κ α) (c : κ) (h : ∀ e ∈ es, aget (f e) c = none) :
    aget (rowFold r f es rc) c = aget rc c := by
  induction es generalizing rc with
  | nil => rfl
  | cons e es ih =>
    rw [rowFold_cons, ih _ (fun e' he' => h e' (List.mem_cons_of_mem _ he'))]
    split
    · rw [aget_setAll, h e (by simp)]
    · rfl

/-- A trimmed bulk update leaves alone every record it does not name … -/
theorem aget_bulkUpdate_of_not_mem (t : Table κ α) (es : List (Nat × Rec κ α)) (cols : List κ) (r : Nat)
    (h : r ∉ es.map (·.1)) : aget (bulkUpdate t es cols) r = aget t r := by
  unfold bulkUpdate
  simp only []
  rw [aget_foldl_updateRow]
  cases aget t r with
  | none => rfl
  | some rc =>
    simp only [Option.map_some]
    rw [rowFold_noop]
    intro e he her
    exact h (by rw [← her]; exact List.mem_map_of_mem (List.mem_filter.mp he).1)

/-- … and every column that is not one of its columns. -/
theorem cell_bulkUpdate_of_not_col (t : Table κ α) (es : List (Nat × Rec κ α)) (cols : List κ) (r : Nat)
    (c : κ) (h : c ∉ cols) : cell (bulkUpdate t es cols) r c = cell t r c := by
  unfold cell bulkUpdate
  simp only []
  rw [aget_foldl_updateRow]
  cases aget t r with
  | none => rfl
  | some rc =>
    simp only [Option.map_some, Option.bind_some]
    apply rowFold_cell_untouched
    intro e _
    have := aget_filter_key e.2
      (fun k => decide (k ∈ List.filter (fun c => es.any fun e => differs t e c) cols)) c
    rw [this]
    have hc : c ∉ List.filter (fun c => es.any fun e => differs t e c) cols :=
      fun hm => h (List.mem_filter.mp hm).1
    simp [hc]

theorem aget_append_of_mem {β : Type} (a b : List (Nat × β)) (r : Nat) (h : r ∈ a.map (·.1)) :
    aget (a ++ b) r = aget a r := by
  rw [aget_append]
  cases hx : aget a r with
  | some v => rfl
  | none =>
    exfalso
    obtain ⟨p, hp, hpr⟩ := List.mem_map.mp h
    clear h
    induction a with
    | nil => cases hp
    | cons q qs ih =>
      obtain ⟨k, w⟩ := q
      rw [aget_cons] at hx
      by_cases hk : k = r
      · simp [hk] at hx
      · simp only [hk, if_false] at hx
        rcases List.mem_cons.mp hp with rfl | hp'
        · exact hk hpr
        · exact ih hx hp'

/-- Frame of `BulkAddOrUpdateRecord` (unconditional: also when records are targeted twice). -/
theorem impl_frame (sch : Schema κ) (t0 : Table κ α) (next : Nat) (dflt : Rec κ α)
    (rq : Request κ α) (opt : Options) (hnext : ∀ r ∈ tids t0, r < next)
    (t : Table κ α) (res : Result) (h : upsertImpl sch t0 next dflt rq opt = .ok (t, res)) :
    tids t = tids t0 ++ res.addRecordIds ∧
    (∀ r ∈ res.addRecordIds, next ≤ r) ∧
    res.updateRecordIds.flatten = updTargets sch t0 rq opt ∧
    (∀ r ∈ res.updateRecordIds.flatten, r ∈ tids t0) ∧
    (∀ r ∈ tids t0, r ∉ res.updateRecordIds.flatten → aget t r = aget t0 r) ∧
    (∀ r ∈ tids t0, ∀ c, c ∉ akeys rq.colValues → cell t r c = cell t0 r c) := by
  cases hv : validate sch rq opt with
  | error e => unfold upsertImpl at h; rw [hv] at h; cases h
  | ok o =>
    cases o with
    | none =>
      unfold upsertImpl at h; rw [hv] at h
      simp only [Except.ok.injEq, Prod.mk.injEq] at h
      obtain ⟨rfl, rfl⟩ := h
      unfold updTargets; rw [hv]
      simp [Result.empty]
    | some n =>
      rw [upsertImpl_eq sch t0 next dflt rq opt n hv] at h
      have hrel := rel_fold sch t0 next dflt rq opt hnext (List.range n) {} { table := t0, next := next }
        (rel_init t0 next dflt rq)
      unfold updTargets; rw [hv]
      unfold implAcc at h ⊢
      simp only [] at h ⊢
      generalize (List.range n).foldl (implStep sch t0 rq opt) {} = acc at hrel h ⊢
      have hres : t = bulkUpdate (t0 ++ newRows dflt next acc.adds) acc.upds (akeys rq.colValues) ∧
          res = { recordIds := fillIds acc.recordIds next,
                  addRecordIds := (List.range acc.adds.length).map (fun k => next + k),
                  updateRecordIds := acc.updateRecordIds } := by
        split at h
        · simp only [Except.ok.injEq, Prod.mk.injEq] at h; exact ⟨h.1.symm, h.2.symm⟩
        · split at h
          · cases h
          · simp only [Except.ok.injEq, Prod.mk.injEq] at h; exact ⟨h.1.symm, h.2.symm⟩
      obtain ⟨rfl, rfl⟩ := hres
      simp only []
      refine ⟨?_, ?_, hrel.flat, ?_, ?_, ?_⟩
      · rw [tids_bulkUpdate, tids_append, tids_newRows]
      · intro r hr
        obtain ⟨k, _, rfl⟩ := List.mem_map.mp hr
        omega
      · intro r hr
        rw [hrel.flat] at hr
        obtain ⟨e, he, rfl⟩ := List.mem_map.mp hr
        exact hrel.inT0 e he
      · intro r hr hnot
        rw [hrel.flat] at hnot
        rw [aget_bulkUpdate_of_not_mem _ _ _ _ hnot]
        exact aget_append_of_mem _ _ _ hr
      · intro r hr c hc
        rw [cell_bulkUpdate_of_not_col _ _ _ _ _ hc]
        unfold cell
        rw [aget_append_of_mem _ _ _ hr]

/-! ### J. argument checks -/

theorem distinct_eq_singleton {β : Type} [DecidableEq β] (l : List β) (n : β) (hne : l ≠ [])
    (h : ∀ x ∈ l, x = n) : distinct l = [n] := by
  induction l with
  | nil => exact absurd rfl hne
  | cons x xs ih =>
    have hx : x = n := h x (by simp)
    subst hx
    simp only [distinct]
    by_cases hm : x ∈ xs
    · rw [if_pos hm]
      exact ih (by intro h0; rw [h0] at hm; cases hm) (fun y hy => h y (List.mem_cons_of_mem _ hy))
    · rw [if_neg hm]
      cases xs with
      | nil => rfl
      | cons y ys => exact absurd (by rw [h y (by simp)]; simp) hm

theorem validate_bad_on_many (sch : Schema κ) (rq : Request κ α) (opt : Options)
    (h : opt.onMany = .bad) : validate sch rq opt = .error .badOnMany := by
  unfold validate; rw [if_pos h]

theorem validate_empty_require (sch : Schema κ) (rq : Request κ α) (opt : Options)
    (h0 : opt.onMany ≠ .bad) (h1 : rq.require = []) (h2 : opt.allowEmptyRequire = false) :
    validate sch rq opt = .error .emptyRequire := by
  unfold validate; rw [if_neg h0, h1, h2]; rfl

theorem validate_lengths (sch : Schema κ) (rq : Request κ α) (opt : Options)
    (h0 : opt.onMany ≠ .bad) (h1 : rq.require ≠ [] ∨ opt.allowEmptyRequire = true)
    (h2 : ∃ a ∈ lens rq, ∃ b ∈ lens rq, a ≠ b) :
    validate sch rq opt = .error .lengths := by
  obtain ⟨a, ha, b, hb, hab⟩ := h2
  have hne : ¬ (rq.require.isEmpty && !opt.allowEmptyRequire) = true := by
    rcases h1 with h1 | h1
    · cases hr : rq.require with
      | nil => exact absurd hr h1
      | cons _ _ => simp
    · simp [h1]
  have hne2 : ¬ (rq.require.isEmpty && rq.colValues.isEmpty) = true := by
    intro hh
    simp only [Bool.and_eq_true, List.isEmpty_iff] at hh
    unfold lens at ha
    rw [hh.1, hh.2] at ha
    cases ha
  unfold validate
  rw [if_neg h0, if_neg hne, if_neg hne2]
  split
  · rename_i m hm
    exact absurd ((eq_of_distinct_singleton hm a ha).trans (eq_of_distinct_singleton hm b hb).symm) hab
  · rfl

theorem validate_duplicate (sch : Schema κ) (rq : Request κ α) (opt : Options) (n : Nat)
    (h0 : opt.onMany ≠ .bad) (h1 : rq.require ≠ [])
    (h2 : ∀ x ∈ lens rq, x = n) (h3 : ¬ (rawKeys rq n).Nodup) :
    validate sch rq opt = .error .notUnique := by
  have hr : rq.require.isEmpty = false := by
    cases hreq : rq.require with
    | nil => exact absurd hreq h1
    | cons _ _ => rfl
  have hlne : lens rq ≠ [] := by
    unfold lens
    cases hreq : rq.require with
    | nil => exact absurd hreq h1
    | cons _ _ => simp
  have hd := distinct_eq_singleton (lens rq) n hlne h2
  unfold validate
  rw [if_neg h0, hr, hd]
  simp only [Bool.false_and, Bool.false_eq_true, if_false, Bool.not_false, Bool.true_and]
  have hlt : (distinct (rawKeys rq n)).length < n := by
    have hle := distinct_length_le (rawKeys rq n)
    have hlen : (rawKeys rq n).length = n := by simp [rawKeys]
    have hneq : (distinct (rawKeys rq n)).length ≠ (rawKeys rq n).length :=
      fun hh => h3 ((distinct_length_eq_iff (rawKeys rq n)).mp hh)
    omega
  rw [if_pos (by simpa using hlt)]

theorem impl_error_of_validate (sch : Schema κ) (t0 : Table κ α) (next : Nat) (dflt : Rec κ α)
    (rq : Request κ α) (opt : Options) (e : Err) (h : validate sch rq opt = .error e) :
    upsertImpl sch t0 next dflt rq opt = .error e ∧ upsertSpec sch t0 next dflt rq opt = .error e := by
  unfold upsertImpl upsertSpec; rw [h]; exact ⟨rfl, rfl⟩

/-! ### K. AddOrUpdateRecord: one input row -/

/-- The request `AddOrUpdateRecord` hands to `BulkAddOrUpdateRecord`. -/
def wrap (require : List (κ × Cell α)) (colValues : List (κ × α)) : Request κ α :=
  { require := require.map (fun p => (p.1, [p.2])), colValues := colValues.map (fun p => (p.1, [p.2])) }

/-- How `AddOrUpdateRecord` reads the bulk result. -/
def singleOf (r : Except Err (Table κ α × Result)) : Except Err (Table κ α × SingleResult) :=
  match r with
  | .error e => .error e
  | .ok (t, res) =>
    match res.recordIds with
    | [] => .ok (t, ⟨[], .none⟩)
    | ids :: _ =>
      .ok (t, ⟨ids, if res.updateRecordIds.length > 0 then .update
                    else if res.addRecordIds.length > 0 then .add else .none⟩)

theorem addOrUpdateImpl_eq (sch : Schema κ) (t0 : Table κ α) (next : Nat) (dflt : Rec κ α)
    (require : List (κ × Cell α)) (colValues : List (κ × α)) (opt : Options) :
    addOrUpdateImpl sch t0 next dflt require colValues opt =
      if require.isEmpty && colValues.isEmpty then .ok (t0, ⟨[], .none⟩)
      else singleOf (upsertImpl sch t0 next dflt (wrap require colValues) opt) := by
  unfold addOrUpdateImpl singleOf wrap
  split
  · rfl
  · simp only []
    cases upsertImpl sch t0 next dflt _ opt with
    | error e => rfl
    | ok p => obtain ⟨t, res⟩ := p; rfl

/-- A wrapped request that passes the argument checks has exactly one input row. -/
theorem validate_wrap_one (sch : Schema κ) (require : List (κ × Cell α)) (colValues : List (κ × α))
    (opt : Options) (n : Nat) (h : validate sch (wrap require colValues) opt = .ok (some n)) : n = 1 := by
  have hd := (validate_some h).1
  have hall : ∀ x ∈ lens (wrap require colValues), x = 1 := by
    intro x hx
    unfold lens wrap at hx
    simp only [List.map_map, List.mem_append, List.mem_map, Function.comp_def] at hx
    rcases hx with ⟨p, _, rfl⟩ | ⟨p, _, rfl⟩ <;> rfl
  cases hl : lens (wrap require colValues) with
  | nil => rw [hl] at hd; simp [distinct] at hd
  | cons x xs =>
    have hx1 : x = 1 := hall x (by rw [hl]; simp)
    have hxn : x = n := eq_of_distinct_singleton hd x (by rw [hl]; simp)
    omega

/-- With one input row no record can be named twice (row ids being distinct). -/
theorem updTargets_nodup_wrap (sch : Schema κ) (t0 : Table κ α) (require : List (κ × Cell α))
    (colValues : List (κ × α)) (opt : Options) (hids : (tids t0).Nodup) :
    (updTargets sch t0 (wrap require colValues) opt).Nodup := by
  apply updTargets_nodup sch t0 _ opt hids
  intro n hn i j hi hj hij
  have := validate_wrap_one sch require colValues opt n hn
  omega

end Tables

end Grist.Upsert
