/-
C09 helpers, part 1: the cleaned cell (R1), typing of the listed columns, invariance under `Same` (R4).
-/
import GristModel.MetaRefs
import GristProofs.DocUndoCongr
namespace Grist.Doc

/-- rendering an encoded RefList token and parsing it back gives the list (for non-empty lists).
    `parseRefList` goes through `String.splitOn` / `startsWith` / `drop`, for which the core library
    has no usable lemmas; the theorems about RefList columns take this as an explicit hypothesis. -/
def RefListRoundTrip : Prop :=
  ∀ l : List Nat, l ≠ [] → cellRefs true (renderRefList l) = some l

/-- every listed column that exists is a `Ref` column (non-list spec) / a `RefList` column (list
    spec), so that `Column.set` stores the cleaned values as given -/
def SpecTyped (d : Doc) (specs : List RefSpec) : Prop :=
  ∀ sp ∈ specs, ∀ tb col, findTable? d sp.table = some tb → tb.findCol? sp.col = some col →
    pureType col.info.type = (if sp.isList then "RefList" else "Ref")

theorem colSet_ref_zero {ty : String} (h : pureType ty = "Ref") : colSet ty (.int 0) = .int 0 := by
  unfold colSet; rw [h]; simp

theorem cellRefs_false_int0 : cellRefs false (.int 0) = some [] := by decide

theorem colSet_refList {ty : String} (h : pureType ty = "RefList") (v : Val) : colSet ty v = v := by
  unfold colSet isNumericLike; rw [h]; simp

/-! ### R1 -/

theorem cellRefs_false_cases {v : Val} {l : List Nat} (h : cellRefs false v = some l) :
    l = [] ∨ ∃ i : Int, v = .int i ∧ 0 < i ∧ l = [i.toNat] := by
  unfold cellRefs at h
  simp only [Bool.false_eq_true, ↓reduceIte] at h
  cases v with
  | int i =>
    simp only at h
    split at h
    · left; exact (Option.some.inj h).symm
    · right; exact ⟨i, rfl, by omega, (Option.some.inj h).symm⟩
  | null => left; exact (Option.some.inj h).symm
  | bool b => simp at h
  | flt s => simp at h
  | str s => simp at h
  | other s => simp at h

theorem cleanedCell_not_ref (isList : Bool) (gone : List Nat) {v : Val}
    (h : cellRefs isList v = none) : cleanedCell isList gone v = v := by
  unfold cleanedCell; rw [h]

theorem cleanedCell_of_none_gone (isList : Bool) (gone : List Nat) {v : Val} {l : List Nat}
    (h : cellRefs isList v = some l) (hn : l.any (fun k => gone.contains k) = false) :
    cleanedCell isList gone v = v := by
  unfold cleanedCell; rw [h]; simp only [hn, Bool.false_eq_true, ↓reduceIte]

/-- RefList: the cleaned value is the filtered list, order kept, `None` when it becomes empty -/
theorem cleanedCell_list {gone : List Nat} {v : Val} {l : List Nat}
    (h : cellRefs true v = some l) (ha : l.any (fun k => gone.contains k) = true) :
    cleanedCell true gone v = renderRefList (l.filter (fun k => !gone.contains k)) := by
  unfold cleanedCell; rw [h]; simp only [ha, ↓reduceIte]

theorem renderRefList_nil : renderRefList [] = .null := rfl

/-- Ref: a reference to a removed row becomes 0 -/
theorem cleanedCell_ref {gone : List Nat} {v : Val} {l : List Nat}
    (h : cellRefs false v = some l) (ha : l.any (fun k => gone.contains k) = true) :
    cleanedCell false gone v = .int 0 := by
  unfold cleanedCell; rw [h]; simp only [ha, ↓reduceIte, Bool.false_eq_true]

theorem cleanedCell_refs (hrt : RefListRoundTrip) (isList : Bool) (gone : List Nat) (v : Val) :
    cellRefs isList (cleanedCell isList gone v) =
      (cellRefs isList v).map (·.filter (fun k => !gone.contains k)) := by
  cases h : cellRefs isList v with
  | none => rw [cleanedCell_not_ref isList gone h, h]; rfl
  | some l =>
    simp only [Option.map_some]
    by_cases ha : l.any (fun k => gone.contains k) = true
    · cases isList with
      | true =>
        rw [cleanedCell_list h ha]
        by_cases he : l.filter (fun k => !gone.contains k) = []
        · rw [he]; rfl
        · exact hrt _ he
      | false =>
        rw [cleanedCell_ref h ha]
        rcases cellRefs_false_cases h with rfl | ⟨i, rfl, hi, rfl⟩
        · simp at ha
        · simp only [List.any_cons, List.any_nil, Bool.or_false] at ha
          have hm : i.toNat ∈ gone := by simpa using ha
          rw [cellRefs_false_int0]
          simp [hm]
    · have ha' : l.any (fun k => gone.contains k) = false := by simpa using ha
      rw [cleanedCell_of_none_gone isList gone h ha', h]
      congr 1
      symm
      rw [List.filter_eq_self]
      intro k hk
      rw [List.any_eq_false] at ha'
      simpa using ha' k hk

/-- the non-list instance needs no round-trip hypothesis -/
theorem cleanedCell_refs_ref (gone : List Nat) (v : Val) :
    cellRefs false (cleanedCell false gone v) =
      (cellRefs false v).map (·.filter (fun k => !gone.contains k)) := by
  cases h : cellRefs false v with
  | none => rw [cleanedCell_not_ref false gone h, h]; rfl
  | some l =>
    simp only [Option.map_some]
    by_cases ha : l.any (fun k => gone.contains k) = true
    · rw [cleanedCell_ref h ha]
      rcases cellRefs_false_cases h with rfl | ⟨i, rfl, hi, rfl⟩
      · simp at ha
      · simp only [List.any_cons, List.any_nil, Bool.or_false] at ha
        have hm : i.toNat ∈ gone := by simpa using ha
        rw [cellRefs_false_int0]
        simp [hm]
    · have ha' : l.any (fun k => gone.contains k) = false := by simpa using ha
      rw [cleanedCell_of_none_gone false gone h ha', h]
      congr 1
      symm
      rw [List.filter_eq_self]
      intro k hk
      rw [List.any_eq_false] at ha'
      simpa using ha' k hk

/-! ### R4: invariance under `Same` -/

theorem specHolds_same {d d' : Doc} (h : Same d d') (sp : RefSpec) :
    specHolds d sp = specHolds d' sp := by
  rw [same_iff] at h
  have h1 := h sp.table
  have h2 := h sp.target
  unfold specHolds
  cases e1 : findTable? d sp.table <;> cases e1' : findTable? d' sp.table <;>
    rw [e1, e1'] at h1 <;> simp only [ORel_none_none, ORel_some_some, ORel_none_some,
      ORel_some_none] at h1 <;> try rfl
  rename_i tb tb'
  cases e2 : findTable? d sp.target <;> cases e2' : findTable? d' sp.target <;>
    rw [e2, e2'] at h2 <;> simp only [ORel_none_none, ORel_some_some, ORel_none_some,
      ORel_some_none] at h2 <;> try rfl
  rename_i tt tt'
  have hc := ((tableSame_iff _ _).1 h1).2 sp.col
  simp only
  cases e3 : tb.findCol? sp.col <;> cases e3' : tb'.findCol? sp.col <;>
    rw [e3, e3'] at hc <;> simp only [ORel_none_none, ORel_some_some, ORel_none_some,
      ORel_some_none] at hc <;> try rfl
  rename_i col col'
  simp only
  rw [← h1.1, ← h2.1]
  rw [Bool.eq_iff_iff]
  simp only [List.all_eq_true]
  constructor
  · intro hh r hr; rw [← hc.2 r hr]; exact hh r hr
  · intro hh r hr; rw [hc.2 r hr]; exact hh r hr

theorem refsResolve_same {d d' : Doc} (h : Same d d') (specs : List RefSpec) :
    refsResolve d specs = refsResolve d' specs := by
  unfold refsResolve
  induction specs with
  | nil => rfl
  | cons sp rest ih => simp only [List.all_cons, specHolds_same h sp, ih]

end Grist.Doc
