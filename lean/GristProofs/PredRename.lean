/-
Helper development for C17 (GristProps/C17.lean).
Part A: "pieces" — a text cut into segments, some of which carry one patch each; what a Replacer
        built from those patches (given in any order) produces, and how it maps positions back.
Part B–F: process_renames on a printed formula.   Part G: renaming the trees.
-/
import GristModel.PredRename
import GristProofs.Textbuilder
import GristProofs.Predicate
namespace Grist.PredRename
open Grist.Predicate Grist.Textbuilder

/-! ## Part A: pieces -/

/-- a segment `a ++ b ++ c` of the text; `nw = some n` means "`b` is replaced by `n`". -/
structure Piece where
  a : Str
  b : Str
  c : Str
  nw : Option Str

def Piece.src (p : Piece) : Str := p.a ++ p.b ++ p.c
def Piece.dst (p : Piece) : Str := p.a ++ p.nw.getD p.b ++ p.c

def srcOf : List Piece → Str
  | [] => []
  | p :: ps => p.src ++ srcOf ps

def dstOf : List Piece → Str
  | [] => []
  | p :: ps => p.dst ++ dstOf ps

/-- the patches of the pieces, when the first piece starts at offset `off`. -/
def patchesFrom (off : Nat) : List Piece → List Patch
  | [] => []
  | p :: ps =>
    match p.nw with
    | some n =>
      ⟨((off + p.a.length : Nat) : Int), ((off + p.a.length + p.b.length : Nat) : Int), p.b, n⟩ ::
        patchesFrom (off + p.src.length) ps
    | none => patchesFrom (off + p.src.length) ps

theorem Piece.src_length (p : Piece) : p.src.length = p.a.length + p.b.length + p.c.length := by
  simp only [Piece.src, List.length_append]

theorem srcOf_append (ps qs : List Piece) : srcOf (ps ++ qs) = srcOf ps ++ srcOf qs := by
  induction ps with
  | nil => rfl
  | cons p ps ih => simp [srcOf, ih]

theorem dstOf_append (ps qs : List Piece) : dstOf (ps ++ qs) = dstOf ps ++ dstOf qs := by
  induction ps with
  | nil => rfl
  | cons p ps ih => simp [dstOf, ih]

theorem patchesFrom_append (ps qs : List Piece) : ∀ off,
    patchesFrom off (ps ++ qs) = patchesFrom off ps ++ patchesFrom (off + (srcOf ps).length) qs := by
  induction ps with
  | nil => intro off; simp [patchesFrom, srcOf]
  | cons p ps ih =>
    intro off
    simp only [List.cons_append, patchesFrom, srcOf, List.length_append]
    cases p.nw with
    | none => simp only []; rw [ih]; congr 2; omega
    | some n => simp only [List.cons_append]; rw [ih]; congr 3; omega

/-- bounds of every patch. -/
theorem patchesFrom_bounds : ∀ (ps : List Piece) (off : Nat) (q : Patch), q ∈ patchesFrom off ps →
    (off : Int) ≤ q.start ∧ q.start ≤ q.end_ ∧ q.end_ ≤ ((off + (srcOf ps).length : Nat) : Int) := by
  intro ps
  induction ps with
  | nil => intro off q h; simp [patchesFrom] at h
  | cons p ps ih =>
    intro off q h
    simp only [srcOf, List.length_append]
    have hsrc := p.src_length
    have tail : q ∈ patchesFrom (off + p.src.length) ps →
        (off : Int) ≤ q.start ∧ q.start ≤ q.end_ ∧
          q.end_ ≤ ((off + (p.src.length + (srcOf ps).length) : Nat) : Int) := by
      intro hq
      have := ih _ q hq
      refine ⟨by omega, this.2.1, by omega⟩
    simp only [patchesFrom] at h
    cases hn : p.nw with
    | none => rw [hn] at h; exact tail h
    | some n =>
      rw [hn] at h
      rcases List.mem_cons.mp h with rfl | h
      · first | omega | (simp only []; omega)
      · exact tail h

theorem patchesFrom_ordered : ∀ (ps : List Piece) (off : Nat), Ordered (patchesFrom off ps) := by
  intro ps
  induction ps with
  | nil => intro off; simp [patchesFrom, Ordered]
  | cons p ps ih =>
    intro off
    simp only [patchesFrom]
    cases hn : p.nw with
    | none => exact ih _
    | some n =>
      simp only [Ordered, List.pairwise_cons]
      refine ⟨?_, ih _⟩
      intro r hr
      have := (patchesFrom_bounds ps _ r hr).1
      have hsrc := p.src_length
      first | omega | (simp only []; omega)

/-- starts strictly increase when every patched `b` is non-empty. -/
theorem patchesFrom_strict : ∀ (ps : List Piece) (off : Nat),
    (∀ p ∈ ps, p.nw.isSome → p.b ≠ []) →
    (patchesFrom off ps).Pairwise (fun p q => p.start < q.start) := by
  intro ps
  induction ps with
  | nil => intro off _; simp [patchesFrom]
  | cons p ps ih =>
    intro off hb
    have hb' : ∀ p ∈ ps, p.nw.isSome → p.b ≠ [] := fun q hq => hb q (by simp [hq])
    simp only [patchesFrom]
    cases hn : p.nw with
    | none => exact ih _ hb'
    | some n =>
      simp only [List.pairwise_cons]
      refine ⟨?_, ih _ hb'⟩
      intro r hr
      have := (patchesFrom_bounds ps _ r hr).1
      have hsrc := p.src_length
      have hbne : p.b.length ≠ 0 := by
        have := hb p (by simp) (by simp [hn])
        intro h0; exact this (List.eq_nil_of_length_eq_zero h0)
      first | omega | (simp only []; omega)

/-- every patch fits the text `A ++ srcOf ps` when the pieces start right after `A`. -/
theorem patchesFrom_fits : ∀ (ps : List Piece) (A : Str) (q : Patch), q ∈ patchesFrom A.length ps →
    q.Fits (A ++ srcOf ps) := by
  intro ps
  induction ps with
  | nil => intro A q h; simp [patchesFrom] at h
  | cons p ps ih =>
    intro A q h
    have hb := patchesFrom_bounds (p :: ps) A.length q h
    have tail : q ∈ patchesFrom (A.length + p.src.length) ps → q.Fits (A ++ srcOf (p :: ps)) := by
      intro hq
      have := ih (A ++ p.src) q (by simpa [List.length_append] using hq)
      simpa [srcOf, List.append_assoc] using this
    simp only [patchesFrom] at h
    cases hn : p.nw with
    | none => rw [hn] at h; exact tail h
    | some n =>
      rw [hn] at h
      rcases List.mem_cons.mp h with rfl | h
      · refine ⟨by first | omega | (simp only []; omega), by first | omega | (simp only []; omega), ?_, ?_⟩
        · have := hb.2.2; simpa [List.length_append] using this
        · simp only [srcOf, Piece.src]
          have e : A ++ (p.a ++ p.b ++ p.c ++ srcOf ps) = (A ++ p.a) ++ p.b ++ (p.c ++ srcOf ps) := by
            simp [List.append_assoc]
          rw [e]
          have := slice_middle (A ++ p.a) p.b (p.c ++ srcOf ps) 0 p.b.length (Nat.le_refl _)
          simp only [List.length_append, Nat.add_zero] at this
          rw [this, slice_nat]
          simp
      · exact tail h

/-- the Replacer loop over the pieces' patches: text produced from position `|A|` on. -/
theorem buildFrom_pieces : ∀ (ps : List Piece) (A X : Str),
    buildFrom (A ++ X ++ srcOf ps) (A.length : Int) (patchesFrom (A ++ X).length ps) = X ++ dstOf ps := by
  intro ps
  induction ps with
  | nil =>
    intro A X
    simp only [patchesFrom, buildFrom, srcOf, dstOf, List.append_nil]
    rw [sliceFrom_nat]; simp
  | cons p ps ih =>
    intro A X
    simp only [patchesFrom]
    cases hn : p.nw with
    | none =>
      simp only []
      have := ih A (X ++ p.src)
      simp only [List.length_append] at this ⊢
      have e : A ++ X ++ srcOf (p :: ps) = A ++ (X ++ p.src) ++ srcOf ps := by
        simp [srcOf, List.append_assoc]
      rw [e]
      have e2 : A.length + X.length + p.src.length = A.length + (X.length + p.src.length) := by omega
      rw [e2, this]
      simp [dstOf, Piece.dst, Piece.src, hn, List.append_assoc]
    | some n =>
      simp only [buildFrom]
      -- copied part: X ++ p.a
      have hcopy : slice (A ++ X ++ srcOf (p :: ps)) (A.length : Int)
          (((A ++ X).length + p.a.length : Nat) : Int) = X ++ p.a := by
        have e : A ++ X ++ srcOf (p :: ps) = A ++ (X ++ p.a) ++ (p.b ++ p.c ++ srcOf ps) := by
          simp [srcOf, Piece.src, List.append_assoc]
        rw [e]
        have := slice_middle A (X ++ p.a) (p.b ++ p.c ++ srcOf ps) 0 (X ++ p.a).length (Nat.le_refl _)
        simp only [Nat.add_zero, List.length_append] at this ⊢
        have e3 : A.length + X.length + p.a.length = A.length + (X.length + p.a.length) := by omega
        rw [e3, this, slice_nat]
        rw [List.take_of_length_le (by simp [List.length_append])]
        simp
      rw [hcopy]
      have := ih (A ++ X ++ p.a ++ p.b) p.c
      have e : A ++ X ++ srcOf (p :: ps) = (A ++ X ++ p.a ++ p.b) ++ p.c ++ srcOf ps := by
        simp [srcOf, Piece.src, List.append_assoc]
      rw [e]
      have e4 : (((A ++ X).length + p.a.length + p.b.length : Nat) : Int)
          = ((A ++ X ++ p.a ++ p.b).length : Int) := by
        simp only [List.length_append]
      have e5 : (A ++ X).length + p.src.length = (A ++ X ++ p.a ++ p.b ++ p.c).length := by
        simp only [Piece.src, List.length_append]; omega
      rw [e4, e5, this]
      simp [dstOf, Piece.dst, hn, List.append_assoc]

theorem starts_inj {l : List Patch} (h : l.Pairwise (fun p q => p.start < q.start)) :
    ∀ {q r : Patch}, q ∈ l → r ∈ l → q.start = r.start → q = r := by
  induction l with
  | nil => intro q r hq; cases hq
  | cons x xs ih =>
    intro q r hq hr he
    have hp := List.pairwise_cons.mp h
    rcases List.mem_cons.mp hq with h1 | h1
    · rcases List.mem_cons.mp hr with h2 | h2
      · rw [h1, h2]
      · have := hp.1 r h2; rw [← h1] at this; omega
    · rcases List.mem_cons.mp hr with h2 | h2
      · have := hp.1 q h1; rw [← h2] at this; omega
      · exact ih hp.2 h1 h2 he

/-- **Replacer over pieces.**  Given the pieces' patches in ANY order, the Replacer is built without
    error, its tables are those of the text-ordered patch list and its text is `dstOf`. -/
theorem replacer_pieces (ps : List Piece) (l : List Patch)
    (hb : ∀ p ∈ ps, p.nw.isSome → p.b ≠ []) (hperm : l.Perm (patchesFrom 0 ps)) :
    replacerBuild (srcOf ps) l = .ok (tablesOf (srcOf ps) (patchesFrom 0 ps)) ∧
    (tablesOf (srcOf ps) (patchesFrom 0 ps)).outText = dstOf ps := by
  have hstrict := patchesFrom_strict ps 0 hb
  have hfit : ∀ q ∈ patchesFrom 0 ps, q.Fits (srcOf ps) := by
    intro q hq
    have := patchesFrom_fits ps [] q (by simpa using hq)
    simpa using this
  have hle : (patchesFrom 0 ps).Pairwise (fun p q => Patch.le p q = true) := by
    refine hstrict.imp ?_
    intro p q h
    rw [Patch.le_iff]; exact Or.inl h
  have hsorted : sortPatches l = patchesFrom 0 ps := by
    have hp1 : (sortPatches l).Pairwise (fun p q => Patch.le p q = true) :=
      List.pairwise_mergeSort (le := Patch.le) Patch.le_trans' Patch.le_total' l
    have hperm' : (sortPatches l).Perm (patchesFrom 0 ps) :=
      (List.mergeSort_perm l Patch.le).trans hperm
    refine List.Perm.eq_of_pairwise ?_ hp1 hle hperm'
    intro a b ha hb' hab hba
    have ha' : a ∈ patchesFrom 0 ps := hperm'.subset ha
    rw [Patch.le_iff] at hab hba
    have : a.start = b.start := by
      rcases hab with h | ⟨h, _⟩
      · rcases hba with h' | ⟨h', _⟩
        · omega
        · omega
      · exact h
    exact starts_inj hstrict ha' hb' this
  constructor
  · have := replacerBuild_ok (srcOf ps) l (by
      intro p hp; exact (hfit p (hperm.subset hp)).2.2.2)
    rw [this, hsorted]
  · unfold tablesOf
    simp only
    rw [rLoop_out]
    have := buildFrom_pieces ps [] []
    simp only [List.nil_append, List.length_nil] at this
    simpa [RState.init] using this

theorem patchesFrom_shift : ∀ (ps : List Piece) (off : Nat),
    shift (patchesFrom off ps) = ((dstOf ps).length : Int) - ((srcOf ps).length : Int) := by
  intro ps
  induction ps with
  | nil => intro off; simp [patchesFrom, shift, dstOf, srcOf]
  | cons p ps ih =>
    intro off
    simp only [patchesFrom, srcOf, dstOf, List.length_append]
    cases hn : p.nw with
    | none =>
      simp only []
      rw [ih]
      simp only [Piece.src, Piece.dst, hn, Option.getD_none, List.length_append]
      omega
    | some n =>
      simp only [shift]
      rw [ih]
      simp only [Piece.src, Piece.dst, hn, Option.getD_some, List.length_append]
      omega

theorem patchesFrom_lastEnd : ∀ (ps : List Piece) (off : Nat) (z : Int), z ≤ off →
    lastEnd z (patchesFrom off ps) ≤ ((off + (srcOf ps).length : Nat) : Int) := by
  intro ps
  induction ps with
  | nil => intro off z hz; simp only [patchesFrom, lastEnd, srcOf, List.length_nil]; omega
  | cons p ps ih =>
    intro off z hz
    have hsrc := p.src_length
    simp only [patchesFrom, srcOf, List.length_append]
    cases hn : p.nw with
    | none =>
      simp only []
      have := ih (off + p.src.length) z (by omega)
      omega
    | some n =>
      simp only [lastEnd]
      have := ih (off + p.src.length) ((off + p.a.length + p.b.length : Nat) : Int) (by omega)
      omega

/-! ## Part B: lexemes as pieces; the dollar replacer -/

def dollarPiece : Lex → Piece
  | .dollar s => ⟨[], ['$'], s, some "rec.".toList⟩
  | l => ⟨l.textO, [], [], none⟩

def dp (toks : List Lex) : List Piece := toks.map dollarPiece

theorem printO_append (a b : List Lex) : printO (a ++ b) = printO a ++ printO b := by
  induction a with
  | nil => rfl
  | cons l ls ih => simp [printO, ih]

theorem printN_append (a b : List Lex) : printN (a ++ b) = printN a ++ printN b := by
  induction a with
  | nil => rfl
  | cons l ls ih => simp [printN, ih]

theorem srcOf_dp (toks : List Lex) : srcOf (dp toks) = printO toks := by
  induction toks with
  | nil => rfl
  | cons l ls ih =>
    simp only [dp, List.map_cons, srcOf, printO] at ih ⊢
    rw [ih]
    cases l <;> simp [dollarPiece, Piece.src, Lex.textO]

theorem dstOf_dp (toks : List Lex) : dstOf (dp toks) = printN toks := by
  induction toks with
  | nil => rfl
  | cons l ls ih =>
    simp only [dp, List.map_cons, dstOf, printN] at ih ⊢
    rw [ih]
    cases l <;> simp [dollarPiece, Piece.dst, Lex.textO, Lex.textN]

theorem dollars_eq_patches : ∀ (toks : List Lex) (off : Nat),
    (dollarsFrom off toks).map dollarPatch = patchesFrom off (dp toks) := by
  intro toks
  induction toks with
  | nil => intro off; rfl
  | cons l ls ih =>
    intro off
    cases l with
    | dollar s =>
      simp only [dollarsFrom, List.map_cons, dp, dollarPiece, patchesFrom, Piece.src]
      have := ih (off + 1 + s.length)
      simp only [dp] at this
      rw [this]
      simp only [dollarPatch, List.length_nil, List.length_cons, List.nil_append, Nat.add_zero,
        List.length_append]
      congr 2
      omega
    | attr s =>
      simp only [dollarsFrom, dp, List.map_cons, dollarPiece, patchesFrom, Piece.src, Lex.textO]
      have := ih (off + s.length)
      simp only [dp] at this
      rw [this]; simp
    | other s =>
      simp only [dollarsFrom, dp, List.map_cons, dollarPiece, patchesFrom, Piece.src, Lex.textO]
      have := ih (off + s.length)
      simp only [dp] at this
      rw [this]; simp

theorem dp_b_ne (toks : List Lex) : ∀ p ∈ dp toks, p.nw.isSome → p.b ≠ [] := by
  intro p hp hs
  simp only [dp, List.mem_map] at hp
  obtain ⟨l, _, rfl⟩ := hp
  cases l <;> simp [dollarPiece] at hs ⊢

theorem dp_newText : ∀ (toks : List Lex) (off : Nat) (q : Patch), q ∈ patchesFrom off (dp toks) →
    q.newText ≠ [] := by
  intro toks
  induction toks with
  | nil => intro off q h; simp [dp, patchesFrom] at h
  | cons l ls ih =>
    intro off q h
    cases l with
    | dollar s =>
      simp only [dp, List.map_cons, dollarPiece, patchesFrom] at h
      rcases List.mem_cons.mp h with rfl | h
      · simp
      · exact ih _ q h
    | attr s => simp only [dp, List.map_cons, dollarPiece, patchesFrom] at h; exact ih _ q h
    | other s => simp only [dp, List.map_cons, dollarPiece, patchesFrom] at h; exact ih _ q h

/-- the dollar replacer of a printed formula: built without error, its text is the `rec.` text. -/
theorem dollar_replacer (toks : List Lex) :
    replacerBuild (printO toks) ((dollarsFrom 0 toks).map dollarPatch)
      = .ok (tablesOf (printO toks) (patchesFrom 0 (dp toks))) ∧
    (tablesOf (printO toks) (patchesFrom 0 (dp toks))).outText = printN toks := by
  have := replacer_pieces (dp toks) ((dollarsFrom 0 toks).map dollarPatch) (dp_b_ne toks)
    (by rw [dollars_eq_patches])
  rw [srcOf_dp, dstOf_dp] at this
  exact this

theorem getText_dollarBuilder (toks : List Lex) :
    getText (dollarBuilder (printO toks) (dollarsFrom 0 toks)) = .ok (printN toks) := by
  have := dollar_replacer toks
  simp only [dollarBuilder, getText, this.1, this.2]

/-- the name part of an occurrence lexeme -/
def Lex.occName : Lex → Option Str
  | .attr s => some s
  | .dollar s => some s
  | .other _ => none

theorem namePosN_split (L : List Lex) (l : Lex) (R : List Lex) :
    namePosN (L ++ l :: R) L.length =
      (printN L).length + (match l with | .dollar _ => 4 | _ => 0) := by
  induction L with
  | nil => cases l <;> simp [namePosN, printN]
  | cons x xs ih =>
    simp only [List.cons_append, List.length_cons, namePosN, printN, List.length_append]
    rw [ih]; omega

theorem namePosO_split (L : List Lex) (l : Lex) (R : List Lex) :
    namePosO (L ++ l :: R) L.length =
      (printO L).length + (match l with | .dollar _ => 1 | _ => 0) := by
  induction L with
  | nil => cases l <;> simp [namePosO, printO]
  | cons x xs ih =>
    simp only [List.cons_append, List.length_cons, namePosO, printO, List.length_append]
    rw [ih]; omega

/-- the name of an occurrence lexeme sits at `namePosN` in the `rec.` text … -/
theorem slice_name_N (L : List Lex) (l : Lex) (R : List Lex) (s : Str) (hl : l.occName = some s) :
    slice (printN (L ++ l :: R)) ((namePosN (L ++ l :: R) L.length : Nat) : Int)
      ((namePosN (L ++ l :: R) L.length + s.length : Nat) : Int) = s := by
  rw [namePosN_split, printN_append]
  cases l with
  | other x => simp [Lex.occName] at hl
  | attr x =>
    simp only [Lex.occName, Option.some.injEq] at hl; subst hl
    simp only [printN, Lex.textN, Nat.add_zero]
    have := slice_middle (printN L) x (printN R) 0 x.length (Nat.le_refl _)
    simp only [Nat.add_zero, List.append_assoc] at this ⊢
    rw [this, slice_nat]; simp
  | dollar x =>
    simp only [Lex.occName, Option.some.injEq] at hl; subst hl
    simp only [printN, Lex.textN]
    have := slice_middle (printN L ++ "rec.".toList) x (printN R) 0 x.length (Nat.le_refl _)
    have e4 : ("rec.".toList).length = 4 := by decide
    simp only [Nat.add_zero, List.append_assoc, List.length_append, e4] at this ⊢
    rw [this, slice_nat]; simp

/-- … and at `namePosO` in the stored text. -/
theorem slice_name_O (L : List Lex) (l : Lex) (R : List Lex) (s : Str) (hl : l.occName = some s) :
    slice (printO (L ++ l :: R)) ((namePosO (L ++ l :: R) L.length : Nat) : Int)
      ((namePosO (L ++ l :: R) L.length + s.length : Nat) : Int) = s := by
  rw [namePosO_split, printO_append]
  cases l with
  | other x => simp [Lex.occName] at hl
  | attr x =>
    simp only [Lex.occName, Option.some.injEq] at hl; subst hl
    simp only [printO, Lex.textO, Nat.add_zero]
    have := slice_middle (printO L) x (printO R) 0 x.length (Nat.le_refl _)
    simp only [Nat.add_zero, List.append_assoc] at this ⊢
    rw [this, slice_nat]; simp
  | dollar x =>
    simp only [Lex.occName, Option.some.injEq] at hl; subst hl
    simp only [printO, Lex.textO]
    have := slice_middle (printO L ++ ['$']) x (printO R) 0 x.length (Nat.le_refl _)
    simp only [Nat.add_zero, List.append_assoc, List.length_append, List.length_cons,
      List.length_nil, List.cons_append, List.nil_append] at this ⊢
    rw [this, slice_nat]; simp

/-- map-back through the dollar replacer of a patch lying in a segment copied from the stored text -/
theorem mapBack_dollar_generic (toks : List Lex) (pre post : List Patch) (x y : Nat) (p : Patch)
    (hsplit : patchesFrom 0 (dp toks) = pre ++ post)
    (hlo : lastEnd 0 pre ≤ x) (hxy : x ≤ y) (hhi : ∀ q ∈ post, (y : Int) ≤ q.start)
    (hlen : y ≤ (printO toks).length)
    (hs : p.start = (x : Int) + shift pre) (he : p.end_ = (y : Int) + shift pre)
    (hold : p.oldText = slice (printN toks) p.start p.end_) :
    mapBack (dollarBuilder (printO toks) (dollarsFrom 0 toks)) p
      = .ok (some (printO toks, 0, ⟨x, y, p.oldText, p.newText⟩)) ∧
    slice (printO toks) x y = p.oldText := by
  have hD := dollar_replacer toks
  have hfit : ∀ r ∈ pre ++ post, r.Fits (printO toks) := by
    intro r hr
    rw [← hsplit] at hr
    have := patchesFrom_fits (dp toks) [] r (by simpa using hr)
    simpa [srcOf_dp] using this
  have hord : Ordered (pre ++ post) := by rw [← hsplit]; exact patchesFrom_ordered _ _
  have hdel : ∀ q ∈ post, q.start = (y : Int) → q.newText = [] → q.end_ = q.start := by
    intro q hq _ hn
    exact absurd hn (dp_newText toks 0 q (by rw [hsplit]; simp [hq]))
  have hold' : slice (tablesOf (printO toks) (pre ++ post)).outText p.start p.end_ = p.oldText := by
    rw [← hsplit, hD.2, hold]
  have := replacerInPatch_copied (printO toks) pre post x y p hfit hord hlo (by omega) hhi
    (by omega) hdel hs he hold'
  refine ⟨?_, this.2⟩
  simp only [dollarBuilder, mapBack, getText, hD.1]
  rw [hsplit, this.1]
  simp only [this.2, beq_self_eq_true, if_true]

/-- **Map-back of a name token.**  The patch that replaces the name of occurrence lexeme `|L|` in
    the `rec.` text comes back as the patch of the same name in the stored text. -/
theorem mapBack_occurrence (L : List Lex) (l : Lex) (R : List Lex) (s new : Str)
    (hl : l.occName = some s) :
    mapBack (dollarBuilder (printO (L ++ l :: R)) (dollarsFrom 0 (L ++ l :: R)))
      ⟨((namePosN (L ++ l :: R) L.length : Nat) : Int),
       ((namePosN (L ++ l :: R) L.length : Nat) : Int) + (s.length : Int),
       slice (printN (L ++ l :: R)) ((namePosN (L ++ l :: R) L.length : Nat) : Int)
         (((namePosN (L ++ l :: R) L.length : Nat) : Int) + (s.length : Int)), new⟩
    = .ok (some (printO (L ++ l :: R), 0,
        ⟨((namePosO (L ++ l :: R) L.length : Nat) : Int),
         ((namePosO (L ++ l :: R) L.length + s.length : Nat) : Int), s, new⟩)) := by
  have hsN := slice_name_N L l R s hl
  have hcast : ((namePosN (L ++ l :: R) L.length : Nat) : Int) + (s.length : Int)
      = ((namePosN (L ++ l :: R) L.length + s.length : Nat) : Int) := by omega
  rw [hcast, hsN]
  have hdp : dp (L ++ l :: R) = dp L ++ dollarPiece l :: dp R := by simp [dp]
  have hpf : patchesFrom 0 (dp (L ++ l :: R))
      = patchesFrom 0 (dp L) ++ patchesFrom (printO L).length (dollarPiece l :: dp R) := by
    rw [hdp, patchesFrom_append, srcOf_dp]; simp
  have hshiftL : shift (patchesFrom 0 (dp L)) = ((printN L).length : Int) - ((printO L).length : Int) := by
    rw [patchesFrom_shift, dstOf_dp, srcOf_dp]
  have hlastL : lastEnd 0 (patchesFrom 0 (dp L)) ≤ ((printO L).length : Int) := by
    have := patchesFrom_lastEnd (dp L) 0 0 (by omega)
    rw [srcOf_dp] at this; simpa using this
  have hlenO : (printO (L ++ l :: R)).length = (printO L).length + l.textO.length + (printO R).length := by
    rw [printO_append]; simp [printO, List.length_append]; omega
  cases l with
  | other x => simp [Lex.occName] at hl
  | attr x =>
    simp only [Lex.occName, Option.some.injEq] at hl; subst hl
    have hN := namePosN_split L (.attr x) R
    have hO := namePosO_split L (.attr x) R
    simp only [Nat.add_zero] at hN hO
    have hpost : patchesFrom (printO L).length (dollarPiece (.attr x) :: dp R)
        = patchesFrom ((printO L).length + x.length) (dp R) := by
      simp [patchesFrom, dollarPiece, Piece.src, Lex.textO]
    rw [hpost] at hpf
    have := mapBack_dollar_generic (L ++ .attr x :: R) (patchesFrom 0 (dp L))
      (patchesFrom ((printO L).length + x.length) (dp R)) (printO L).length
      ((printO L).length + x.length)
      ⟨((namePosN (L ++ .attr x :: R) L.length : Nat) : Int),
       ((namePosN (L ++ .attr x :: R) L.length + x.length : Nat) : Int), x, new⟩
      hpf hlastL (by omega)
      (fun q hq => (patchesFrom_bounds (dp R) _ q hq).1)
      (by rw [hlenO]; simp [Lex.textO])
      (by simp only [hN, hshiftL]; omega) (by simp only [hN, hshiftL]; omega)
      (by simp only; exact hsN.symm)
    rw [hO]
    exact this.1
  | dollar x =>
    simp only [Lex.occName, Option.some.injEq] at hl; subst hl
    have hN := namePosN_split L (.dollar x) R
    have hO := namePosO_split L (.dollar x) R
    simp only at hN hO
    have hpost : patchesFrom (printO L).length (dollarPiece (.dollar x) :: dp R)
        = ⟨(((printO L).length : Nat) : Int), (((printO L).length + 1 : Nat) : Int), ['$'], "rec.".toList⟩ ::
          patchesFrom ((printO L).length + (1 + x.length)) (dp R) := by
      simp only [patchesFrom, dollarPiece, Piece.src, List.length_nil, List.length_cons,
        List.nil_append, Nat.add_zero, List.length_append, List.cons_append]
      congr 2
      omega
    rw [hpost] at hpf
    have hpf' : patchesFrom 0 (dp (L ++ .dollar x :: R))
        = (patchesFrom 0 (dp L) ++
            [⟨(((printO L).length : Nat) : Int), (((printO L).length + 1 : Nat) : Int), ['$'], "rec.".toList⟩]) ++
          patchesFrom ((printO L).length + (1 + x.length)) (dp R) := by
      rw [hpf]; simp
    have e4 : ("rec.".toList).length = 4 := by decide
    have := mapBack_dollar_generic (L ++ .dollar x :: R) _ _ ((printO L).length + 1)
      ((printO L).length + 1 + x.length)
      ⟨((namePosN (L ++ .dollar x :: R) L.length : Nat) : Int),
       ((namePosN (L ++ .dollar x :: R) L.length + x.length : Nat) : Int), x, new⟩
      hpf'
      (by rw [lastEnd_append_singleton]; simp only; omega) (by omega)
      (fun q hq => by have := (patchesFrom_bounds (dp R) _ q hq).1; omega)
      (by rw [hlenO]; simp [Lex.textO]; omega)
      (by simp only [hN, shift_append, hshiftL, shift, e4]; omega)
      (by simp only [hN, shift_append, hshiftL, shift, e4]; omega)
      (by simp only; exact hsN.symm)
    rw [hO]
    exact this.1

theorem getElem?_split {α} (l : List α) (i : Nat) (x : α) (h : l[i]? = some x) :
    ∃ L R, l = L ++ x :: R ∧ L.length = i := by
  obtain ⟨hi, hx⟩ := List.getElem?_eq_some_iff.mp h
  refine ⟨l.take i, l.drop (i + 1), ?_, ?_⟩
  · rw [← hx]; simp
  · simp; omega

/-- index form of `mapBack_occurrence` -/
theorem mapBack_at (toks : List Lex) (i : Nat) (l : Lex) (s new : Str)
    (hi : toks[i]? = some l) (hl : l.occName = some s) :
    mapBack (dollarBuilder (printO toks) (dollarsFrom 0 toks))
      ⟨((namePosN toks i : Nat) : Int), ((namePosN toks i : Nat) : Int) + (s.length : Int),
       slice (printN toks) ((namePosN toks i : Nat) : Int)
         (((namePosN toks i : Nat) : Int) + (s.length : Int)), new⟩
    = .ok (some (printO toks, 0,
        ⟨((namePosO toks i : Nat) : Int), ((namePosO toks i + s.length : Nat) : Int), s, new⟩)) := by
  obtain ⟨L, R, rfl, rfl⟩ := getElem?_split toks i l hi
  exact mapBack_occurrence L l R s new hl

/-! ## Part C: the patches process_renames collects -/

/-- every visited node is printed as an occurrence lexeme that carries its name -/
def Printed (toks : List Lex) : List NodeInfo → List Nat → Prop
  | [], [] => True
  | nd :: nds, ix :: ixs =>
    (∃ l, toks[ix]? = some l ∧ l.occName = some nd.name.toList) ∧ Printed toks nds ixs
  | _, _ => False

/-- the new name the renamer gives to a visited node -/
def newOf (c : Ctx) (nd : NodeInfo) : Option Str :=
  match nd.cls with
  | some (t, x) => (renamer c ⟨t, 0, nd.name, x⟩).map String.toList
  | none => none

/-- the patches of the stored text, in visiting order -/
def entityPatches (c : Ctx) (toks : List Lex) : List NodeInfo → List Nat → List Patch
  | nd :: nds, ix :: ixs =>
    (match newOf c nd with
     | some nw => [⟨((namePosO toks ix : Nat) : Int), ((namePosO toks ix + nd.name.toList.length : Nat) : Int),
                    nd.name.toList, nw⟩]
     | none => []) ++ entityPatches c toks nds ixs
  | _, _ => []

theorem renamer_pos (c : Ctx) (t : EType) (p : Nat) (n : String) (x : Option String) :
    renamer c ⟨t, p, n, x⟩ = renamer c ⟨t, 0, n, x⟩ := by
  unfold renamer; rfl

theorem mapPatches_printed (c : Ctx) (toks : List Lex) : ∀ (nds : List NodeInfo) (ixs : List Nat),
    Printed toks nds ixs →
    mapPatches (dollarBuilder (printO toks) (dollarsFrom 0 toks)) (printN toks) c
      (zipEntities nds (ixs.map (namePosN toks))) = .ok (entityPatches c toks nds ixs) := by
  intro nds
  induction nds with
  | nil => intro ixs _; cases ixs <;> simp [zipEntities, mapPatches, entityPatches]
  | cons nd nds ih =>
    intro ixs hp
    cases ixs with
    | nil => simp [Printed] at hp
    | cons ix ixs =>
      simp only [Printed] at hp
      obtain ⟨⟨l, hl, hname⟩, hrest⟩ := hp
      have ih' := ih ixs hrest
      simp only [List.map_cons, zipEntities, entityPatches, newOf]
      cases hcls : nd.cls with
      | none => simp only [List.nil_append]; exact ih'
      | some tx =>
        obtain ⟨t, x⟩ := tx
        simp only [List.cons_append, List.nil_append, mapPatches]
        rw [renamer_pos]
        cases hr : renamer c ⟨t, 0, nd.name, x⟩ with
        | none => simp only [Option.map_none, List.nil_append]; exact ih'
        | some new =>
          simp only [Option.map_some]
          have hlen : ((nd.name.length : Nat) : Int) = ((nd.name.toList.length : Nat) : Int) := by
            rw [String.length_toList]
          have := mapBack_at toks ix l nd.name.toList new.toList hl hname
          rw [hlen, this, ih']
          simp

/-! ## Part D: the final Replacer -/

def renamePiece (l : Lex) (nw : Option Str) : Piece :=
  match l, nw with
  | .attr s, some n => ⟨[], s, [], some n⟩
  | .dollar s, some n => ⟨['$'], s, [], some n⟩
  | l, _ => ⟨l.textO, [], [], none⟩

def rpFrom (sel : Nat → Option Str) (base : Nat) : List Lex → List Piece
  | [] => []
  | l :: ls => renamePiece l (sel base) :: rpFrom sel (base + 1) ls

theorem renamePiece_src (l : Lex) (nw : Option Str) : (renamePiece l nw).src = l.textO := by
  cases l <;> cases nw <;> simp [renamePiece, Piece.src, Lex.textO]

theorem srcOf_rp (sel : Nat → Option Str) : ∀ (toks : List Lex) (base : Nat),
    srcOf (rpFrom sel base toks) = printO toks := by
  intro toks
  induction toks with
  | nil => intro _; rfl
  | cons l ls ih => intro base; simp only [rpFrom, srcOf, printO, renamePiece_src, ih]

theorem dstOf_rp (sel : Nat → Option Str) : ∀ (toks : List Lex) (base : Nat),
    dstOf (rpFrom sel base toks) = printO (renameLexFrom sel base toks) := by
  intro toks
  induction toks with
  | nil => intro _; rfl
  | cons l ls ih =>
    intro base
    simp only [rpFrom, dstOf, renameLexFrom, printO, ih]
    cases l <;> cases sel base <;> simp [renamePiece, Piece.dst, Lex.textO]

/-- all occurrence lexemes carry a non-empty name (they are identifiers) -/
def NamesNonempty (toks : List Lex) : Prop := ∀ l ∈ toks, l.occName ≠ some []

theorem rp_b_ne (sel : Nat → Option Str) : ∀ (toks : List Lex) (base : Nat), NamesNonempty toks →
    ∀ p ∈ rpFrom sel base toks, p.nw.isSome → p.b ≠ [] := by
  intro toks
  induction toks with
  | nil => intro _ _ p hp; cases hp
  | cons l ls ih =>
    intro base hne p hp hs
    simp only [rpFrom] at hp
    rcases List.mem_cons.mp hp with rfl | hp
    · have hl := hne l (by simp)
      cases l <;> cases h : sel base <;> simp [renamePiece, h, Lex.occName] at hs hl ⊢ <;> exact hl
    · exact ih (base + 1) (fun x hx => hne x (by simp [hx])) p hp hs

theorem rp_congr (sel1 sel2 : Nat → Option Str) : ∀ (toks : List Lex) (base : Nat),
    (∀ j, j < toks.length → sel1 (base + j) = sel2 (base + j)) →
    rpFrom sel1 base toks = rpFrom sel2 base toks := by
  intro toks
  induction toks with
  | nil => intro _ _; rfl
  | cons l ls ih =>
    intro base h
    simp only [rpFrom]
    have h0 := h 0 (by simp)
    simp only [Nat.add_zero] at h0
    rw [h0, ih (base + 1) (fun j hj => by
      have := h (j + 1) (by simp; omega)
      rw [show base + 1 + j = base + (j + 1) by omega]; exact this)]

theorem rp_none (sel : Nat → Option Str) : ∀ (toks : List Lex) (base off : Nat),
    (∀ j, j < toks.length → sel (base + j) = none) →
    patchesFrom off (rpFrom sel base toks) = [] := by
  intro toks
  induction toks with
  | nil => intro _ _ _; rfl
  | cons l ls ih =>
    intro base off h
    have h0 := h 0 (by simp)
    simp only [Nat.add_zero] at h0
    simp only [rpFrom, h0]
    have : (renamePiece l none).nw = none := by cases l <;> rfl
    simp only [patchesFrom, this]
    exact ih (base + 1) _ (fun j hj => by
      have := h (j + 1) (by simp; omega)
      rw [show base + 1 + j = base + (j + 1) by omega]; exact this)

/-- selecting one more occurrence lexeme inserts exactly its patch. -/
theorem rp_insert (sel : Nat → Option Str) (nw : Str) : ∀ (toks : List Lex) (i base off : Nat) (l : Lex) (s : Str),
    toks[i]? = some l → l.occName = some s → sel (base + i) = none →
    (patchesFrom off (rpFrom (fun j => if j = base + i then some nw else sel j) base toks)).Perm
      (⟨((off + namePosO toks i : Nat) : Int), ((off + namePosO toks i + s.length : Nat) : Int), s, nw⟩ ::
        patchesFrom off (rpFrom sel base toks)) := by
  intro toks
  induction toks with
  | nil => intro i base off l s h; simp at h
  | cons x xs ih =>
    intro i base off l s hi hl hsel
    cases i with
    | zero =>
      simp only [List.getElem?_cons_zero, Option.some.injEq] at hi
      subst hi
      simp only [Nat.add_zero] at hsel ⊢
      simp only [rpFrom, if_true, hsel]
      have hc : rpFrom (fun j => if j = base then some nw else sel j) (base + 1) xs
          = rpFrom sel (base + 1) xs := by
        apply rp_congr
        intro j _
        have : base + 1 + j ≠ base := by omega
        simp [this]
      rw [hc]
      have hnone : (renamePiece x none).nw = none := by cases x <;> rfl
      simp only [patchesFrom, hnone, renamePiece_src]
      cases x with
      | other y => simp [Lex.occName] at hl
      | attr y =>
        simp only [Lex.occName, Option.some.injEq] at hl; subst hl
        simp only [renamePiece, patchesFrom, Piece.src, namePosO, List.length_nil, Nat.add_zero,
          List.nil_append, List.append_nil, Lex.textO]
        exact List.Perm.refl _
      | dollar y =>
        simp only [Lex.occName, Option.some.injEq] at hl; subst hl
        simp only [renamePiece, patchesFrom, Piece.src, namePosO, List.length_nil, List.length_cons,
          Nat.add_zero, List.append_nil, Lex.textO, List.cons_append, List.nil_append,
          List.length_append]
        rw [show off + (y.length + 1) = off + (0 + 1 + y.length) by omega]
    | succ i' =>
      simp only [List.getElem?_cons_succ] at hi
      have hb : (if base = base + (i' + 1) then some nw else sel base) = sel base := by
        have : base ≠ base + (i' + 1) := by omega
        simp [this]
      simp only [rpFrom, hb]
      have hfun : (fun j => if j = base + (i' + 1) then some nw else sel j)
          = (fun j => if j = (base + 1) + i' then some nw else sel j) := by
        funext j; rw [show base + (i' + 1) = base + 1 + i' by omega]
      rw [hfun]
      have ih' := ih i' (base + 1) (off + (renamePiece x (sel base)).src.length) l s hi hl
        (by rw [show base + 1 + i' = base + (i' + 1) by omega]; exact hsel)
      have hpos : off + (renamePiece x (sel base)).src.length + namePosO xs i'
          = off + namePosO (x :: xs) (i' + 1) := by
        rw [renamePiece_src]; simp only [namePosO]; omega
      rw [hpos] at ih'
      simp only [patchesFrom]
      cases hn : (renamePiece x (sel base)).nw with
      | none => exact ih'
      | some n =>
        simp only []
        exact (List.Perm.cons _ ih').trans (List.Perm.swap _ _ _)

theorem selFrom_cons (c : Ctx) (nd : NodeInfo) (nds : List NodeInfo) (ix : Nat) (ixs : List Nat) (i : Nat) :
    selFrom c (nd :: nds) (ix :: ixs) i = if ix = i then newOf c nd else selFrom c nds ixs i := by
  rfl

theorem selFrom_not_mem (c : Ctx) : ∀ (nds : List NodeInfo) (ixs : List Nat) (i : Nat), i ∉ ixs →
    selFrom c nds ixs i = none := by
  intro nds
  induction nds with
  | nil => intro ixs i _; cases ixs <;> rfl
  | cons nd nds ih =>
    intro ixs i h
    cases ixs with
    | nil => rfl
    | cons ix ixs =>
      rw [selFrom_cons]
      have h1 : ix ≠ i := by intro e; exact h (by simp [e])
      simp only [h1, if_false]
      exact ih ixs i (by intro hm; exact h (by simp [hm]))

theorem entityPatches_perm (c : Ctx) (toks : List Lex) : ∀ (nds : List NodeInfo) (ixs : List Nat),
    Printed toks nds ixs → ixs.Nodup →
    (entityPatches c toks nds ixs).Perm (patchesFrom 0 (rpFrom (selFrom c nds ixs) 0 toks)) := by
  intro nds
  induction nds with
  | nil =>
    intro ixs hp _
    cases ixs with
    | nil =>
      simp only [entityPatches]
      rw [rp_none]; intro j _; rfl
    | cons _ _ => simp [Printed] at hp
  | cons nd nds ih =>
    intro ixs hp hnd
    cases ixs with
    | nil => simp [Printed] at hp
    | cons ix ixs =>
      simp only [Printed] at hp
      obtain ⟨⟨l, hl, hname⟩, hrest⟩ := hp
      have hnd' := List.nodup_cons.mp hnd
      have ih' := ih ixs hrest hnd'.2
      have hnone := selFrom_not_mem c nds ixs ix hnd'.1
      simp only [entityPatches]
      cases hnew : newOf c nd with
      | none =>
        simp only [List.nil_append]
        have : rpFrom (selFrom c (nd :: nds) (ix :: ixs)) 0 toks = rpFrom (selFrom c nds ixs) 0 toks := by
          apply rp_congr
          intro j _
          simp only [Nat.zero_add, selFrom_cons, hnew]
          by_cases h : ix = j
          · subst h; simp [hnone]
          · simp [h]
        rw [this]; exact ih'
      | some nw =>
        simp only [List.cons_append, List.nil_append]
        have hfun : selFrom c (nd :: nds) (ix :: ixs)
            = (fun j => if j = 0 + ix then some nw else selFrom c nds ixs j) := by
          funext j
          rw [selFrom_cons, hnew]
          by_cases h : ix = j
          · subst h; simp
          · have h2 : ¬ (j = ix) := by omega
            simp [h, h2]
        rw [hfun]
        have hins := rp_insert (selFrom c nds ixs) nw toks ix 0 0 l nd.name.toList hl hname
          (by simpa using hnone)
        simp only [Nat.zero_add] at hins ⊢
        exact (List.Perm.cons _ ih').trans hins.symm

/-! ## Part F: process_renames on a printed formula -/

theorem processRenames_printed (D : Str → Option (List Nat)) (P : Str → Option (PExpr × List Nat))
    (c : Ctx) (toks : List Lex) (e : PExpr) (ixs : List Nat)
    (hD : D (printO toks) = some (dollarsFrom 0 toks))
    (hP : P (printN toks) = some (e, ixs.map (namePosN toks)))
    (hpr : Printed toks (nodes c.kind e) ixs) (hnd : ixs.Nodup) (hne : NamesNonempty toks) :
    processRenames D P c (printO toks) =
      .ok (match convert e with
           | .ok _ => printO (renameLexFrom (selFrom c (nodes c.kind e) ixs) 0 toks)
           | .error _ => printO toks) := by
  unfold processRenames
  simp only [hD, getText_dollarBuilder, hP, collect]
  cases hc : convert e with
  | error m => rfl
  | ok t =>
    simp only [mapPatches_printed c toks _ ixs hpr]
    have hperm := entityPatches_perm c toks _ ixs hpr hnd
    have := replacer_pieces (rpFrom (selFrom c (nodes c.kind e) ixs) 0 toks)
      (entityPatches c toks (nodes c.kind e) ixs) (rp_b_ne _ toks 0 hne) hperm
    rw [srcOf_rp, dstOf_rp] at this
    simp only [getText, this.1, this.2]

/-! ## Part G: renaming the trees -/

theorem renameJson_list (c : Ctx) (xs : List PTree) :
    renameJson c (.list xs) = .list (fixAttr c xs (renameJsonList c xs)) := by
  rw [renameJson]

theorem renameJson_nonlist (c : Ctx) (x : PTree) (h : ∀ xs, x ≠ .list xs) : renameJson c x = x := by
  cases x <;> first | (exfalso; exact h _ rfl) | (rw [renameJson]; intro xs hx; cases hx)

theorem renameJson_str (c : Ctx) (s : String) : renameJson c (.str s) = .str s :=
  renameJson_nonlist c _ (by intro xs h; cases h)

/-- the renaming keeps the kind of a JSON value: only a list becomes a list -/
theorem renameJson_eq_list (c : Ctx) (x : PTree) (ys : List PTree) (h : renameJson c x = .list ys) :
    ∃ xs, x = .list xs := by
  cases x with
  | list xs => exact ⟨xs, rfl⟩
  | str t => rw [renameJson_nonlist c _ (by intro xs h; cases h)] at h; cases h
  | null => rw [renameJson_nonlist c _ (by intro xs h; cases h)] at h; cases h
  | bool b => rw [renameJson_nonlist c _ (by intro xs h; cases h)] at h; cases h
  | int i => rw [renameJson_nonlist c _ (by intro xs h; cases h)] at h; cases h
  | float f => rw [renameJson_nonlist c _ (by intro xs h; cases h)] at h; cases h
  | «opaque» k => rw [renameJson_nonlist c _ (by intro xs h; cases h)] at h; cases h

theorem renameJson_eq_str (c : Ctx) (x : PTree) (s : String) (h : renameJson c x = .str s) :
    x = .str s := by
  cases x with
  | list xs => rw [renameJson_list] at h; cases h
  | str t => rw [renameJson_str] at h; exact h
  | null => rw [renameJson_nonlist c _ (by intro xs h; cases h)] at h; cases h
  | bool b => rw [renameJson_nonlist c _ (by intro xs h; cases h)] at h; cases h
  | int i => rw [renameJson_nonlist c _ (by intro xs h; cases h)] at h; cases h
  | float f => rw [renameJson_nonlist c _ (by intro xs h; cases h)] at h; cases h
  | «opaque» k => rw [renameJson_nonlist c _ (by intro xs h; cases h)] at h; cases h

theorem fixAttr_ne (c : Ctx) (tag : String) (args new : List PTree) (h : tag ≠ "Attr") :
    fixAttr c (.str tag :: args) new = new := by
  unfold fixAttr
  split
  · rename_i heq
    simp only [List.cons.injEq, PTree.str.injEq] at heq
    simp [← heq.1, h]
  · rfl

theorem fixAttr_two (c : Ctx) (x1 x2 : PTree) (new : List PTree) : fixAttr c [x1, x2] new = new := by
  unfold fixAttr
  split
  · rename_i heq; simp at heq
  · rfl

theorem fixAttr_attr (c : Ctx) (p : PTree) (a : String) (t p' z : PTree) :
    fixAttr c [.str "Attr", p, .str a] [t, p', z]
      = [t, p', .str (newName c a (classify c.kind p))] := by
  simp [fixAttr]

theorem fixAttr_length (c : Ctx) (old new : List PTree) : (fixAttr c old new).length = new.length := by
  unfold fixAttr
  split
  · split <;> simp
  · rfl

/-- `fixAttr` only ever touches the third element -/
theorem fixAttr_three (c : Ctx) (x1 x2 x3 y1 y2 y3 : PTree) :
    ∃ z, fixAttr c [x1, x2, x3] [y1, y2, y3] = [y1, y2, z] ∧
      (z = y3 ∨ ∃ a, x3 = .str a ∧ x1 = .str "Attr") := by
  unfold fixAttr
  split
  · rename_i heq1 heq2
    simp only [List.cons.injEq, and_true] at heq1 heq2
    obtain ⟨rfl, rfl, rfl⟩ := heq2
    split
    · rename_i ht
      refine ⟨_, rfl, Or.inr ⟨_, heq1.2.2, ?_⟩⟩
      rw [heq1.1, ht]
    · exact ⟨_, rfl, Or.inl rfl⟩
  · exact ⟨_, rfl, Or.inl rfl⟩

theorem renameJsonList_length (c : Ctx) : ∀ xs : List PTree, (renameJsonList c xs).length = xs.length
  | [] => rfl
  | x :: xs => by simp [renameJsonList, renameJsonList_length c xs]

theorem renameJsonList_append (c : Ctx) : ∀ (xs ys : List PTree),
    renameJsonList c (xs ++ ys) = renameJsonList c xs ++ renameJsonList c ys
  | [], ys => rfl
  | x :: xs, ys => by simp [renameJsonList, renameJsonList_append c xs ys]

theorem asName_some (p : PTree) (n : String) :
    asName p = some n ↔ p = .list [.str "Name", .str n] := by
  constructor
  · intro h
    unfold asName at h
    split at h
    · split at h
      · rename_i ht; simp only [Option.some.injEq] at h; subst h; subst ht; rfl
      · cases h
    · cases h
  · rintro rfl; simp [asName]

theorem renameJson_name (c : Ctx) (n : String) :
    renameJson c (.list [.str "Name", .str n]) = .list [.str "Name", .str n] := by
  rw [renameJson_list, fixAttr_two]
  simp [renameJsonList, renameJson_str]

/-- `asName` is not affected by the renaming. -/
theorem asName_renameJson (c : Ctx) (p : PTree) : asName (renameJson c p) = asName p := by
  cases h : asName p with
  | some n =>
    rw [(asName_some p n).mp h, renameJson_name]; simp [asName]
  | none =>
    cases h2 : asName (renameJson c p) with
    | none => rfl
    | some n =>
      exfalso
      have hp := (asName_some _ n).mp h2
      obtain ⟨xs, rfl⟩ := renameJson_eq_list c p _ hp
      rw [renameJson_list] at hp
      simp only [PTree.list.injEq] at hp
      have hlen : xs.length = 2 := by
        have := congrArg List.length hp
        rw [fixAttr_length, renameJsonList_length] at this
        simpa using this
      match xs, hlen with
      | [x1, x2], _ =>
        rw [fixAttr_two] at hp
        simp only [renameJsonList, List.cons.injEq, and_true] at hp
        have e1 := renameJson_eq_str c x1 _ hp.1
        have e2 := renameJson_eq_str c x2 _ hp.2
        subst e1; subst e2
        simp [asName] at h

theorem asUserAttr_some (p : PTree) (a : String) :
    asUserAttr p = some a ↔ p = .list [.str "Attr", .list [.str "Name", .str "user"], .str a] := by
  constructor
  · intro h
    unfold asUserAttr at h
    split at h
    · rename_i tag q a'
      split at h
      · rename_i ht
        cases hq : asName q with
        | none => simp [hq] at h
        | some n =>
          simp only [hq] at h
          split at h
          · rename_i hn
            simp only [Option.some.injEq] at h
            subst h; subst ht; subst hn
            rw [(asName_some q "user").mp hq]
          · cases h
      · cases h
    · cases h
  · rintro rfl; simp [asUserAttr, asName]

/-- a user attribute itself (`user.Attr`) is never renamed -/
theorem newName_userAttr (c : Ctx) (a : String) :
    newName c a (classify c.kind (.list [.str "Name", .str "user"])) = a := by
  unfold newName classify
  cases hk : c.kind <;> simp [asName, renamer, hk]

theorem asUserAttr_renameJson (c : Ctx) (p : PTree) :
    asUserAttr (renameJson c p) = asUserAttr p := by
  cases h : asUserAttr p with
  | some a =>
    rw [(asUserAttr_some p a).mp h, renameJson_list]
    simp only [renameJsonList, renameJson_name, renameJson_str, fixAttr_attr, newName_userAttr]
    simp [asUserAttr, asName]
  | none =>
    cases h2 : asUserAttr (renameJson c p) with
    | none => rfl
    | some a =>
      exfalso
      have hp := (asUserAttr_some _ a).mp h2
      obtain ⟨xs, rfl⟩ := renameJson_eq_list c p _ hp
      rw [renameJson_list] at hp
      simp only [PTree.list.injEq] at hp
      have hlen : xs.length = 3 := by
        have := congrArg List.length hp
        rw [fixAttr_length, renameJsonList_length] at this
        simpa using this
      match xs, hlen with
      | [x1, x2, x3], _ =>
        simp only [renameJsonList] at hp
        obtain ⟨z, hz, hz3⟩ := fixAttr_three c x1 x2 x3 (renameJson c x1) (renameJson c x2) (renameJson c x3)
        rw [hz] at hp
        simp only [List.cons.injEq, and_true] at hp
        have e1 := renameJson_eq_str c x1 _ hp.1
        subst e1
        have hn2 : asName x2 = some "user" := by
          rw [← asName_renameJson c x2, hp.2.1]; simp [asName]
        have e2 := (asName_some x2 "user").mp hn2
        subst e2
        rcases hz3 with hz3 | ⟨a', ha', _⟩
        · rw [hz3] at hp
          have e3 := renameJson_eq_str c x3 _ hp.2.2
          subst e3
          simp [asUserAttr, asName] at h
        · subst ha'
          simp [asUserAttr, asName] at h

/-- what a parent denotes does not change when the parent itself is renamed. -/
theorem classify_renameJson (c : Ctx) (k : Kind) (p : PTree) :
    classify k (renameJson c p) = classify k p := by
  unfold classify
  rw [asName_renameJson, asUserAttr_renameJson]

theorem renameJson_node (c : Ctx) (tag : String) (args : List PTree) (h : tag ≠ "Attr") :
    renameJson c (node tag args) = node tag (renameJsonList c args) := by
  simp only [node, renameJson_list, renameJsonList, renameJson_str, fixAttr_ne c tag _ _ h]

theorem renameJson_attrNode (c : Ctx) (p : PTree) (a : String) :
    renameJson c (node "Attr" [p, .str a])
      = node "Attr" [renameJson c p, .str (newName c a (classify c.kind p))] := by
  simp only [node, renameJson_list, renameJsonList, renameJson_str, fixAttr_attr]

theorem map_ok {ε α β} (f : α → β) (x : Except ε α) (a : α) (h : x = .ok a) : f <$> x = .ok (f a) := by
  rw [h]; rfl

theorem constTree_rename (c : Ctx) (k : Const) : renameJson c (constTree k) = constTree k := by
  cases k <;> exact renameJson_nonlist c _ (by intro xs h; simp [constTree] at h)

theorem cmpName_ne_attr (op : CmpOp) : op.name ≠ "Attr" := by cases op <;> decide

mutual
/-- **convert commutes with the renaming** -/
theorem convert_rename (c : Ctx) : ∀ (e : PExpr),
    convert (renameExpr c e) = (renameJson c) <$> (convert e)
  | .boolOp op vs => by
    simp only [renameExpr, convert]
    rw [convertList_rename c vs]
    cases convertList vs with
    | error m => rfl
    | ok ts =>
      have : op.name ≠ "Attr" := by cases op <;> decide
      simp [bind, Except.bind, Functor.map, Except.map, pure, Except.pure, renameJson_node c _ _ this]
  | .binOp op l r => by
    simp only [renameExpr, convert]
    cases hn : op.name? with
    | none => rfl
    | some n =>
      have hne : n ≠ "Attr" := by
        cases op <;> simp [BinOp.name?] at hn <;> subst hn <;> decide
      simp only []
      rw [convert_rename c l, convert_rename c r]
      cases convert l with
      | error m => rfl
      | ok a =>
        cases convert r with
        | error m => rfl
        | ok b =>
          simp [bind, Except.bind, Functor.map, Except.map, pure, Except.pure,
            renameJson_node c _ _ hne, renameJsonList]
  | .unaryOp op e => by
    simp only [renameExpr, convert]
    cases op with
    | other k => rfl
    | not =>
      simp only []
      rw [convert_rename c e]
      cases convert e with
      | error m => rfl
      | ok a =>
        simp [bind, Except.bind, Functor.map, Except.map, pure, Except.pure,
          renameJson_node c "Not" _ (by decide), renameJsonList]
  | .compare l [op] [x] => by
    simp only [renameExpr, renameList, convert]
    rw [convert_rename c l, convert_rename c x]
    cases convert l with
    | error m => rfl
    | ok a =>
      cases convert x with
      | error m => rfl
      | ok b =>
        simp [bind, Except.bind, Functor.map, Except.map, pure, Except.pure,
          renameJson_node c _ _ (cmpName_ne_attr op), renameJsonList]
  | .compare l [] cs => by simp [renameExpr, convert]; rfl
  | .compare l (_ :: _ :: _) cs => by simp [renameExpr, convert]; rfl
  | .compare l [_] [] => by simp [renameExpr, renameList, convert]; rfl
  | .compare l [_] (_ :: _ :: _) => by simp [renameExpr, renameList, convert]; rfl
  | .name id => by
    simp only [renameExpr, convert]
    cases namedConstant id with
    | some k =>
      simp [Functor.map, Except.map, pure, Except.pure, renameJson_node c "Const" _ (by decide),
        renameJsonList, constTree_rename]
    | none =>
      simp [Functor.map, Except.map, pure, Except.pure, renameJson_node c "Name" _ (by decide),
        renameJsonList, renameJson_str]
  | .dollar x => by
    simp only [renameExpr, convert]
    simp only [Functor.map, Except.map, pure, Except.pure, renameJson_attrNode]
    rw [show node "Name" [PTree.str "rec"] = PTree.list [.str "Name", .str "rec"] from rfl,
      renameJson_name]
  | .const k => by
    simp [renameExpr, convert, Functor.map, Except.map, pure, Except.pure,
      renameJson_node c "Const" _ (by decide), renameJsonList, constTree_rename]
  | .attr v a => by
    simp only [renameExpr, convert]
    rw [convert_rename c v]
    simp only [classOf]
    cases convert v with
    | error m => rfl
    | ok t =>
      simp [bind, Except.bind, Functor.map, Except.map, pure, Except.pure, renameJson_attrNode]
  | .list es => by
    simp only [renameExpr, convert]
    rw [convertList_rename c es]
    cases convertList es with
    | error m => rfl
    | ok ts =>
      simp [bind, Except.bind, Functor.map, Except.map, pure, Except.pure,
        renameJson_node c "List" _ (by decide)]
  | .tuple es => by
    simp only [renameExpr, convert]
    rw [convertList_rename c es]
    cases convertList es with
    | error m => rfl
    | ok ts =>
      simp [bind, Except.bind, Functor.map, Except.map, pure, Except.pure,
        renameJson_node c "List" _ (by decide)]
  | .call f args kws => by
    simp only [renameExpr, convert]
    rw [convertList_rename c args, convertKws_rename c kws, convert_rename c f]
    have hemp : (renameKws c kws).isEmpty = kws.isEmpty := by
      cases kws with
      | nil => rfl
      | cons k ks => cases k; rfl
    cases convertList args with
    | error m => rfl
    | ok as =>
      cases convertKws kws with
      | error m => rfl
      | ok ks =>
        cases convert f with
        | error m => rfl
        | ok fn =>
          simp only [bind, Except.bind, Functor.map, Except.map, pure, Except.pure, hemp,
            renameJson_node c "Call" _ (by decide), renameJsonList, renameJsonList_append]
          cases kws.isEmpty with
          | true => simp [renameJsonList]
          | false => simp [renameJsonList, renameJson_node c "keywords" _ (by decide)]
  | .unsupported k cs => by simp [renameExpr, convert]; rfl
theorem convertList_rename (c : Ctx) : ∀ (es : List PExpr),
    convertList (renameList c es) = (renameJsonList c) <$> (convertList es)
  | [] => rfl
  | e :: es => by
    simp only [renameList, convertList]
    rw [convert_rename c e, convertList_rename c es]
    cases convert e with
    | error m => rfl
    | ok t =>
      cases convertList es with
      | error m => rfl
      | ok ts => simp [bind, Except.bind, Functor.map, Except.map, pure, Except.pure, renameJsonList]
theorem convertKws_rename (c : Ctx) : ∀ (ks : List Keyword),
    convertKws (renameKws c ks) = (renameJsonList c) <$> (convertKws ks)
  | [] => rfl
  | .mk arg e :: ks => by
    simp only [renameKws, convertKws]
    rw [convert_rename c e, convertKws_rename c ks]
    cases convert e with
    | error m => rfl
    | ok t =>
      cases convertKws ks with
      | error m => rfl
      | ok ts =>
        simp only [bind, Except.bind, Functor.map, Except.map, pure, Except.pure, renameJsonList]
        congr 2
        rw [renameJson_list, fixAttr_two]
        cases arg <;>
          simp [renameJsonList, renameJson_str, renameJson_nonlist c .null (by intro xs h; cases h)]
end

theorem classOf_rename (c : Ctx) (k : Kind) (v : PExpr) : classOf k (renameExpr c v) = classOf k v := by
  unfold classOf
  rw [convert_rename]
  cases convert v with
  | error m => rfl
  | ok t => simp [Functor.map, Except.map, classify_renameJson]

/-- the visited nodes of the renamed tree: same classification, new names -/
def renameNode (c : Ctx) (nd : NodeInfo) : NodeInfo := ⟨newName c nd.name nd.cls, nd.cls⟩

mutual
theorem nodes_rename (c : Ctx) : ∀ (e : PExpr),
    nodes c.kind (renameExpr c e) = (nodes c.kind e).map (renameNode c)
  | .boolOp op vs => by simp only [renameExpr, nodes]; exact nodesList_rename c vs
  | .binOp op l r => by
    simp only [renameExpr, nodes, List.map_append, nodes_rename c l, nodes_rename c r]
  | .unaryOp op e => by simp only [renameExpr, nodes]; exact nodes_rename c e
  | .compare l ops cs => by
    simp only [renameExpr, nodes, List.map_append, nodes_rename c l, nodesList_rename c cs]
  | .name id => rfl
  | .dollar x => rfl
  | .const k => rfl
  | .attr v a => by
    simp only [renameExpr, nodes, List.map_append, nodes_rename c v, classOf_rename]
    rfl
  | .list es => by simp only [renameExpr, nodes]; exact nodesList_rename c es
  | .tuple es => by simp only [renameExpr, nodes]; exact nodesList_rename c es
  | .call f args kws => by
    simp only [renameExpr, nodes, List.map_append, nodes_rename c f, nodesList_rename c args,
      nodesKws_rename c kws]
  | .unsupported k cs => by simp only [renameExpr, nodes]; exact nodesList_rename c cs
theorem nodesList_rename (c : Ctx) : ∀ (es : List PExpr),
    nodesList c.kind (renameList c es) = (nodesList c.kind es).map (renameNode c)
  | [] => rfl
  | e :: es => by
    simp only [renameList, nodesList, List.map_append, nodes_rename c e, nodesList_rename c es]
theorem nodesKws_rename (c : Ctx) : ∀ (ks : List Keyword),
    nodesKws c.kind (renameKws c ks) = (nodesKws c.kind ks).map (renameNode c)
  | [] => rfl
  | .mk a e :: ks => by
    simp only [renameKws, nodesKws, List.map_append, nodes_rename c e, nodesKws_rename c ks]
end

/-! ### the renamed formula is printed by the renamed lexemes -/

def renameLex (l : Lex) (o : Option Str) : Lex :=
  match l, o with
  | .attr _, some nw => .attr nw
  | .dollar _, some nw => .dollar nw
  | l, _ => l

theorem renameLexFrom_get (sel : Nat → Option Str) : ∀ (toks : List Lex) (base i : Nat),
    (renameLexFrom sel base toks)[i]? = (toks[i]?).map (fun l => renameLex l (sel (base + i))) := by
  intro toks
  induction toks with
  | nil => intro base i; simp [renameLexFrom]
  | cons l ls ih =>
    intro base i
    cases i with
    | zero =>
      simp only [renameLexFrom, List.getElem?_cons_zero, Option.map_some, Nat.add_zero]
      cases l <;> cases sel base <;> rfl
    | succ j =>
      simp only [renameLexFrom, List.getElem?_cons_succ]
      rw [ih (base + 1) j, show base + 1 + j = base + (j + 1) by omega]

theorem renameLexFrom_length (sel : Nat → Option Str) : ∀ (toks : List Lex) (base : Nat),
    (renameLexFrom sel base toks).length = toks.length := by
  intro toks
  induction toks with
  | nil => intro _; rfl
  | cons l ls ih => intro base; simp [renameLexFrom, ih]

/-- `sel` gives every visited node's lexeme the node's new name -/
def AgreeSel (c : Ctx) (sel : Nat → Option Str) : List NodeInfo → List Nat → Prop
  | nd :: nds, ix :: ixs => sel ix = newOf c nd ∧ AgreeSel c sel nds ixs
  | _, _ => True

theorem AgreeSel_congr (c : Ctx) (s1 s2 : Nat → Option Str) : ∀ (nds : List NodeInfo) (ixs : List Nat),
    (∀ i ∈ ixs, s1 i = s2 i) → AgreeSel c s1 nds ixs → AgreeSel c s2 nds ixs := by
  intro nds
  induction nds with
  | nil => intro ixs _ _; cases ixs <;> trivial
  | cons nd nds ih =>
    intro ixs h ha
    cases ixs with
    | nil => trivial
    | cons ix ixs =>
      simp only [AgreeSel] at ha ⊢
      exact ⟨by rw [← h ix (by simp)]; exact ha.1, ih ixs (fun i hi => h i (by simp [hi])) ha.2⟩

theorem agree_selFrom (c : Ctx) : ∀ (nds : List NodeInfo) (ixs : List Nat), ixs.Nodup →
    AgreeSel c (selFrom c nds ixs) nds ixs := by
  intro nds
  induction nds with
  | nil => intro ixs _; cases ixs <;> trivial
  | cons nd nds ih =>
    intro ixs hnd
    cases ixs with
    | nil => trivial
    | cons ix ixs =>
      have hnd' := List.nodup_cons.mp hnd
      simp only [AgreeSel]
      refine ⟨by rw [selFrom_cons]; simp, ?_⟩
      refine AgreeSel_congr c _ _ nds ixs ?_ (ih ixs hnd'.2)
      intro i hi
      rw [selFrom_cons]
      have : ix ≠ i := by intro e; subst e; exact hnd'.1 hi
      simp [this]

theorem occName_renameLex (c : Ctx) (l : Lex) (nd : NodeInfo) (h : l.occName = some nd.name.toList) :
    (renameLex l (newOf c nd)).occName = some (renameNode c nd).name.toList := by
  unfold newOf renameNode newName
  cases hc : nd.cls with
  | none => cases l <;> simp_all [renameLex, Lex.occName]
  | some tx =>
    obtain ⟨t, x⟩ := tx
    simp only []
    cases hr : renamer c ⟨t, 0, nd.name, x⟩ with
    | none => cases l <;> simp_all [renameLex, Lex.occName]
    | some nw => cases l <;> simp_all [renameLex, Lex.occName]

theorem printed_rename (c : Ctx) (toks : List Lex) (sel : Nat → Option Str) :
    ∀ (nds : List NodeInfo) (ixs : List Nat), AgreeSel c sel nds ixs → Printed toks nds ixs →
    Printed (renameLexFrom sel 0 toks) (nds.map (renameNode c)) ixs := by
  intro nds
  induction nds with
  | nil => intro ixs _ hp; cases ixs <;> simpa [Printed] using hp
  | cons nd nds ih =>
    intro ixs ha hp
    cases ixs with
    | nil => simp [Printed] at hp
    | cons ix ixs =>
      simp only [Printed, AgreeSel, List.map_cons] at hp ha ⊢
      obtain ⟨⟨l, hl, hname⟩, hrest⟩ := hp
      refine ⟨⟨renameLex l (sel ix), ?_, ?_⟩, ih ixs ha.2 hrest⟩
      · rw [renameLexFrom_get, hl]; simp
      · rw [ha.1]; exact occName_renameLex c l nd hname

/-- which lexemes get a new name: exactly those a classified, renamed node is printed as -/
theorem selFrom_some (c : Ctx) : ∀ (nds : List NodeInfo) (ixs : List Nat) (i : Nat) (nw : Str),
    selFrom c nds ixs i = some nw →
    ∃ (k : Nat) (nd : NodeInfo), nds[k]? = some nd ∧ ixs[k]? = some i ∧ newOf c nd = some nw := by
  intro nds
  induction nds with
  | nil => intro ixs i nw h; cases ixs <;> simp [selFrom] at h
  | cons nd nds ih =>
    intro ixs i nw h
    cases ixs with
    | nil => simp [selFrom] at h
    | cons ix ixs =>
      rw [selFrom_cons] at h
      by_cases hix : ix = i
      · subst hix
        simp only [if_true] at h
        exact ⟨0, nd, rfl, rfl, h⟩
      · simp only [hix, if_false] at h
        obtain ⟨k, nd', h1, h2, h3⟩ := ih ixs i nw h
        exact ⟨k + 1, nd', by simpa using h1, by simpa using h2, h3⟩

end Grist.PredRename
