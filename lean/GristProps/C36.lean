/-
C36  Page-tree indentation fixes always yield a valid tree.
Property theorems only.  Model: GristModel/Treeview.lean (treeview.fix_indents).
-/
import GristModel.Treeview
namespace Grist.Treeview

/-! ### helper facts (local, about the model's recursion) -/

theorem validFrom_mono : ∀ (l : List Nat) (a b : Nat), a ≤ b → ValidFrom a l → ValidFrom b l := by
  intro l a b hab hl
  cases l with
  | nil => trivial
  | cons x xs => exact ⟨Nat.le_trans hl.1 hab, hl.2⟩

theorem finalGo_valid (del : Nat → Bool) : ∀ (items : List Item) (m : Nat),
    ValidFrom m (finalGo del m items) := by
  intro items
  induction items with
  | nil => intro m; simp [finalGo, ValidFrom]
  | cons it rest ih =>
    intro m
    simp only [finalGo]
    split
    · exact validFrom_mono _ _ _ (Nat.min_le_left _ _) (ih (min m it.indent))
    · exact ⟨Nat.min_le_left _ _, ih _⟩

/-- ids of the adjustments produced by `fixGo` all come from the list. -/
theorem fixGo_ids (del : Nat → Bool) : ∀ (items : List Item) (m : Nat) (p : Nat × Nat),
    p ∈ fixGo del m items → ∃ it ∈ items, it.id = p.1 := by
  intro items
  induction items with
  | nil => intro m p h; simp [fixGo] at h
  | cons it rest ih =>
    intro m p h
    simp only [fixGo, List.mem_append] at h
    rcases h with h | h
    · split at h
      · simp at h; exact ⟨it, by simp, by simp [h]⟩
      · simp at h
    · obtain ⟨x, hx, hid⟩ := ih _ p h
      exact ⟨x, by simp [hx], hid⟩

theorem lookup_none_of_not_mem_ids (del : Nat → Bool) (items : List Item) (m k : Nat)
    (h : ∀ it ∈ items, it.id ≠ k) : (fixGo del m items).lookup k = none := by
  rw [List.lookup_eq_none_iff]
  intro p hp
  obtain ⟨it, hit, hid⟩ := fixGo_ids del items m p hp
  have := h it hit
  simp; intro hk; exact this (by rw [hid, hk])

/-- With distinct ids, writing the adjustments by id gives exactly `finalGo`. -/
theorem applyFixes_eq_finalGo (del : Nat → Bool) : ∀ (items : List Item) (m : Nat),
    (items.map (·.id)).Nodup →
    (items.filter (fun it => !del it.id)).map
      (fun it => ((fixGo del m items).lookup it.id).getD it.indent)
    = finalGo del m items := by
  intro items
  induction items with
  | nil => intro m _; simp [finalGo]
  | cons it rest ih =>
    intro m hnd
    simp only [List.map_cons, List.nodup_cons] at hnd
    obtain ⟨hnot, hnd'⟩ := hnd
    have hrest : ∀ x ∈ rest, x.id ≠ it.id := by
      intro x hx heq; exact hnot (by simpa using ⟨x, hx, heq⟩)
    -- lookups for items of `rest` skip a possible head adjustment (its id differs)
    have skip : ∀ (m' : Nat) (n : Nat) (b : Bool), ∀ x ∈ rest,
        ((if b then [(it.id, n)] else []) ++ fixGo del m' rest).lookup x.id
          = (fixGo del m' rest).lookup x.id := by
      intro m' n b x hx
      cases b with
      | false => simp
      | true =>
        have hne : (x.id == it.id) = false := by simpa using hrest x hx
        simp [List.lookup_cons, hne]
    simp only [fixGo, finalGo]
    by_cases hd : del it.id = true
    · simp only [hd, Bool.not_true, Bool.and_false, List.filter_cons, Bool.false_eq_true,
        if_false, if_true, List.nil_append]
      exact ih _ hnd'
    · have hd' : del it.id = false := by simpa using hd
      simp only [hd', Bool.not_false, Bool.and_true, List.filter_cons, Bool.false_eq_true,
        if_false, if_true, List.map_cons]
      congr 1
      · by_cases hch : (min m it.indent != it.indent) = true
        · simp [hch]
        · have hf : (min m it.indent != it.indent) = false := by simpa using hch
          simp only [hf, Bool.false_eq_true, if_false, List.nil_append]
          rw [lookup_none_of_not_mem_ids del rest _ it.id hrest]
          simp at hf; simp [hf]
      · rw [← ih (min m it.indent + 1) hnd']
        apply List.map_congr_left
        intro x hx
        have hx' : x ∈ rest := (List.mem_filter.mp hx).1
        have := skip (min m it.indent + 1) (min m it.indent) (min m it.indent != it.indent) x hx'
        rw [← this]

/-! ### Property theorems -/

/-- **C36 (validity).** For every list of pages with distinct ids and every set of removed pages,
    applying the returned fixes leaves the remaining pages as a valid tree. -/
theorem fix_valid (items : List Item) (del : Nat → Bool) (hnd : (items.map (·.id)).Nodup) :
    ValidTree (applyFixes items del (fixIndents items del)) := by
  unfold applyFixes fixIndents ValidTree
  have := applyFixes_eq_finalGo del items 0 hnd
  rw [this]
  exact finalGo_valid del items 0

/-- **C36 (never deeper).** Every returned fix belongs to a surviving page and is strictly
    lower than the page's old indentation. -/
theorem fix_never_deeper (del : Nat → Bool) : ∀ (items : List Item) (m : Nat) (p : Nat × Nat),
    p ∈ fixGo del m items → ∃ it ∈ items, it.id = p.1 ∧ p.2 < it.indent ∧ del it.id = false := by
  intro items
  induction items with
  | nil => intro m p h; simp [fixGo] at h
  | cons it rest ih =>
    intro m p h
    simp only [fixGo, List.mem_append] at h
    rcases h with h | h
    · split at h
      · rename_i hc
        simp at h
        simp at hc
        refine ⟨it, by simp, by simp [h], ?_, hc.2⟩
        have := Nat.min_le_right m it.indent
        rw [h]; simp; omega
      · simp at h
    · obtain ⟨x, hx, h1, h2, h3⟩ := ih _ p h
      exact ⟨x, by simp [hx], h1, h2, h3⟩

/-- **C36 (only violating pages change, no removal).** If nothing is removed and the pages
    already form a valid tree, no fix is returned. -/
theorem fix_noop_of_valid (del : Nat → Bool) (hdel : ∀ k, del k = false) :
    ∀ (items : List Item) (m : Nat), ValidFrom m (items.map (·.indent)) → fixGo del m items = [] := by
  intro items
  induction items with
  | nil => intro m _; simp [fixGo]
  | cons it rest ih =>
    intro m hv
    simp only [List.map_cons, ValidFrom] at hv
    have hmin : min m it.indent = it.indent := Nat.min_eq_right hv.1
    simp only [fixGo, hmin, hdel, bne_self_eq_false, Bool.false_and, Bool.false_eq_true, if_false,
      List.nil_append]
    exact ih _ hv.2

/-- **C36 (exact characterisation of changed pages).** At any point of the run with allowed
    level `m`, the next page gets a fix iff it survives and lies deeper than `m`, and the fix sets
    it to exactly `m`; a removed page hands its own (capped) level to its successor, a surviving
    page hands on its level + 1. -/
theorem fix_step (del : Nat → Bool) (it : Item) (rest : List Item) (m : Nat) :
    fixGo del m (it :: rest) =
      (if m < it.indent ∧ del it.id = false then [(it.id, m)] else []) ++
      fixGo del (if del it.id then min m it.indent else min m it.indent + 1) rest := by
  simp only [fixGo]
  congr 1
  by_cases hc : m < it.indent
  · have hmin : min m it.indent = m := Nat.min_eq_left (Nat.le_of_lt hc)
    have hne : (m != it.indent) = true := by simp; omega
    cases hd : del it.id <;> simp [hmin, hne, hc]
  · have hmin : min m it.indent = it.indent := Nat.min_eq_right (by omega)
    simp [hmin, hc]

/-- **C36 (pointwise greatest).** The result is the deepest admissible choice: any other
    assignment `r` of levels to the surviving pages that never deepens a page and is valid below
    the same running bounds is pointwise ≤ the result.  (Stated for the no-removal case, where the
    running bound is just "previous + 1".) -/
theorem fix_greatest (del : Nat → Bool) (hdel : ∀ k, del k = false) :
    ∀ (items : List Item) (m : Nat) (r : List Nat), r.length = items.length →
      ValidFrom m r → (∀ i (h1 : i < r.length) (h2 : i < items.length), r[i] ≤ (items[i]).indent) →
      ∀ i (h1 : i < r.length) (h2 : i < (finalGo del m items).length), r[i] ≤ (finalGo del m items)[i] := by
  intro items
  induction items with
  | nil => intro m r hl _ _ i h1; simp at hl; subst hl; simp at h1
  | cons it rest ih =>
    intro m r hl hv hle i h1 h2
    cases r with
    | nil => simp at hl
    | cons x xs =>
      simp only [finalGo, hdel, Bool.false_eq_true, if_false] at h2 ⊢
      have hx : x ≤ min m it.indent := by
        have a := hv.1
        have b := hle 0 (by simp) (by simp)
        simp at b
        exact Nat.le_min.mpr ⟨a, b⟩
      cases i with
      | zero => simpa using hx
      | succ j =>
        simp only [List.getElem_cons_succ]
        have hv' : ValidFrom (min m it.indent + 1) xs :=
          validFrom_mono _ _ _ (by omega) hv.2
        exact ih (min m it.indent + 1) xs (by simpa using hl) hv'
          (fun k k1 k2 => by
            have := hle (k+1) (by simp; omega) (by simp; omega)
            simpa using this) j (by simpa using h1) (by simpa using h2)

/-! ### Non-vacuity: the module's documented example, and a deeper one. -/

-- ["A0","B1","C0","D1"], remove C  ⇒  [("D",0)]
example : fixIndents [⟨1,0⟩, ⟨2,1⟩, ⟨3,0⟩, ⟨4,1⟩] (fun k => k == 3) = [(4, 0)] := by decide
example : (([⟨1,0⟩, ⟨2,1⟩, ⟨3,0⟩, ⟨4,1⟩] : List Item).map (·.id)).Nodup := by decide
example : applyFixes [⟨1,0⟩, ⟨2,3⟩, ⟨3,5⟩, ⟨4,1⟩] (fun k => k == 1)
    (fixIndents [⟨1,0⟩, ⟨2,3⟩, ⟨3,5⟩, ⟨4,1⟩] (fun k => k == 1)) = [0, 1, 1] := by decide

end Grist.Treeview
