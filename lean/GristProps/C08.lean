/-
C08  Internal schema always matches the metadata.

Model: GristModel/SchemaMeta.lean (`metaSchema` = schema.build_schema over the `_grist_Tables` /
`_grist_Tables_column` tables of the document, `userSchema` / `userTable?` = engine.schema,
`SchemaConsistent` = Engine.assert_schema_consistent, `schemaConsistentB` its decision procedure).
Proofs: GristProofs/SchemaMeta*.lean.

Delivered here: the decision procedure is correct; `SchemaConsistent` only depends on what `Same`
preserves (so a rollback, C04, restores it); record actions that do not touch the schema-bearing
metadata fields preserve it.  The paired steps (AddColumn + AddRecord, ...) are NOT proved here.
-/
import GristProps.C04
import GristProofs.SchemaMetaNeutral
import GristProofs.SchemaMetaDecide
namespace Grist.Doc

/-- the Bool check evaluated by the driver decides the property -/
theorem schemaConsistentB_correct (d : Doc) : schemaConsistentB d = true ↔ SchemaConsistent d :=
  schemaConsistentB_iff d

/-- `SchemaConsistent` is invariant under observational equality (no well-formedness needed: it
    reads the schema through `findTable?` / `findCol?` and the metadata cells at existing rows) -/
theorem schemaConsistent_same_invariant {d d' : Doc} (h : Same d d') :
    SchemaConsistent d ↔ SchemaConsistent d' :=
  ⟨schemaConsistent_of_same h, schemaConsistent_of_same h.symm⟩

theorem metaSchema_same_invariant {d d' : Doc} (h : Same d d') : metaSchema d = metaSchema d' :=
  metaSchema_congr h.metaAgree

/-- Record actions on tables other than the two metadata tables (BulkAddRecord, BulkRemoveRecord,
    BulkUpdateRecord, ReplaceTableData), and BulkUpdateRecord on `_grist_Tables` /
    `_grist_Tables_column` that does not name a schema-bearing field (`tableId`; `parentId`, `colId`,
    `type`, `isFormula`, `formula`, `reverseCol`), preserve consistency (`DocAction.neutral`). -/
theorem neutral_step_consistent {d : Doc} {s : Summary} {a : DocAction} {r : DAResult} (hwf : WF d)
    (hne : a.neutral) (hc : SchemaConsistent d) (h : docAction d s a = .ok r) :
    SchemaConsistent r.doc :=
  post_neutral hwf hne hc (post_of_ok h)

theorem neutral_steps_consistent {as : List DocAction} {d d' : Doc} {u : List DocAction}
    (hwf : WF d) (hargs : ∀ a ∈ as, a.rowsPositive) (hne : ∀ a ∈ as, a.neutral)
    (hc : SchemaConsistent d) (h : runActs d as = .ok (d', u)) : SchemaConsistent d' := by
  induction as generalizing d u with
  | nil =>
    simp only [runActs, Except.ok.injEq, Prod.mk.injEq] at h
    obtain ⟨rfl, rfl⟩ := h; exact hc
  | cons a rest ih =>
    obtain ⟨r, u', hr, hrest, rfl⟩ := runActs_cons_ok h
    have ha := hne a (by simp)
    have hcd : a.colsDistinct := by cases a <;> first | trivial | exact ha.elim
    have hwf' := docAction_WF_partial hwf (hargs a (by simp)) hcd hr
    exact ih hwf' (fun b hb => hargs b (List.mem_cons_of_mem _ hb))
      (fun b hb => hne b (List.mem_cons_of_mem _ hb)) (neutral_step_consistent hwf ha hc hr) hrest

/-- corollary of C04: after a rollback to a checkpoint the schema is as consistent as it was at
    the checkpoint, whatever the rolled-back steps did to it -/
theorem rollback_schema_consistent {st st' : EState} {steps : List (DocAction × Bool)}
    (hwf : WF st.doc) (hn : Normal st.doc) (hlen : st.stored.length = st.direct.length)
    (hargs : ∀ ab ∈ steps, ab.1.rowsPositive ∧ ab.1.colsDistinct)
    (hex : undoExactRun st.doc (steps.map (·.1)))
    (hc : SchemaConsistent st.doc)
    (h : stepDocs st steps = .ok st') :
    ∃ st'', rollback st' st.stored.length st.undo.length = .ok st'' ∧ SchemaConsistent st''.doc ∧
      metaSchema st''.doc = metaSchema st.doc := by
  obtain ⟨st'', h1, h2, _⟩ := C04.rollback_restores hwf hn hlen hargs hex h
  exact ⟨st'', h1, schemaConsistent_of_same h2.symm hc, metaSchema_same_invariant h2⟩

/-! ### a concrete document with metadata: user table `T` with columns `A`, `B` -/

def mInfo (ty : String) : ColInfo := { type := ty, isFormula := false, formula := "", reverseColId := none }

def exMetaDoc : Doc :=
  [ { id := "_grist_Tables", rows := [1],
      cols := [{ id := "tableId", info := mInfo "Text",
                 cells := fun r => if r = 1 then .str "T" else typeDefault "Text" }] },
    { id := "_grist_Tables_column", rows := [1, 2],
      cols := [
        { id := "parentId", info := mInfo "Ref:_grist_Tables",
          cells := fun r => if r = 1 then .int 1 else if r = 2 then .int 1
                            else typeDefault "Ref:_grist_Tables" },
        { id := "colId", info := mInfo "Text",
          cells := fun r => if r = 1 then .str "A" else if r = 2 then .str "B" else typeDefault "Text" },
        { id := "type", info := mInfo "Text",
          cells := fun r => if r = 1 then .str "Text" else if r = 2 then .str "Text"
                            else typeDefault "Text" },
        { id := "isFormula", info := mInfo "Bool",
          cells := fun r => if r = 1 then .bool false else if r = 2 then .bool false
                            else typeDefault "Bool" },
        { id := "formula", info := mInfo "Text",
          cells := fun r => if r = 1 then .str "" else if r = 2 then .str "" else typeDefault "Text" },
        { id := "label", info := mInfo "Text",
          cells := fun r => if r = 1 then .str "A" else if r = 2 then .str "B" else typeDefault "Text" } ] },
    { id := "T", rows := [1],
      cols := [{ id := "A", info := mInfo "Text",
                 cells := fun r => if r = 1 then .str "x" else typeDefault "Text" },
               { id := "B", info := mInfo "Text",
                 cells := fun r => if r = 1 then .str "y" else typeDefault "Text" }] } ]

example : metaSchema exMetaDoc = [("T", [("A", mInfo "Text"), ("B", mInfo "Text")])] := by decide
example : userSchema exMetaDoc = [("T", [("A", mInfo "Text"), ("B", mInfo "Text")])] := by decide

theorem exMetaDoc_consistent : SchemaConsistent exMetaDoc :=
  (schemaConsistentB_correct _).1 (by decide)

theorem exMetaDoc_WF : WF exMetaDoc := by
  refine ⟨by decide, ?_⟩
  intro tb htb
  simp only [exMetaDoc, List.mem_cons, List.not_mem_nil, or_false] at htb
  rcases htb with rfl | rfl | rfl
  · refine ⟨by decide, by simp, by simp, ?_⟩
    intro col hcol r hr
    have h1 : r ≠ 1 := by intro h; subst h; simp at hr
    simp only [List.mem_cons, List.not_mem_nil, or_false] at hcol
    subst hcol
    simp [h1, mInfo]
  · refine ⟨by decide, by simp, by simp, ?_⟩
    intro col hcol r hr
    have h1 : r ≠ 1 := by intro h; subst h; simp at hr
    have h2 : r ≠ 2 := by intro h; subst h; simp at hr
    simp only [List.mem_cons, List.not_mem_nil, or_false] at hcol
    rcases hcol with rfl | rfl | rfl | rfl | rfl | rfl <;> simp [h1, h2, mInfo]
  · refine ⟨by decide, by simp, by simp, ?_⟩
    intro col hcol r hr
    have h1 : r ≠ 1 := by intro h; subst h; simp at hr
    simp only [List.mem_cons, List.not_mem_nil, or_false] at hcol
    rcases hcol with rfl | rfl <;> simp [h1, mInfo]

def exNeutralActs : List DocAction :=
  [.bulkUpdate "T" [1] [("A", [.str "q"])], .bulkAdd "T" [2] [("B", [.str "z"])],
   .bulkUpdate "_grist_Tables_column" [2] [("label", [.str "Bee"])]]

/-- neutral steps on the example: data actions on `T`, and a `label` update of a column record -/
example : ∃ d' u, runActs exMetaDoc exNeutralActs = .ok (d', u) ∧ SchemaConsistent d' := by
  have h : runActs exMetaDoc exNeutralActs = .ok (_, _) := rfl
  refine ⟨_, _, h, ?_⟩
  apply neutral_steps_consistent (as := exNeutralActs) exMetaDoc_WF _ _ exMetaDoc_consistent h
  · intro a ha
    simp only [exNeutralActs, List.mem_cons, List.not_mem_nil, or_false] at ha
    rcases ha with rfl | rfl | rfl <;> simp [DocAction.rowsPositive]
  · intro a ha
    simp only [exNeutralActs, List.mem_cons, List.not_mem_nil, or_false] at ha
    rcases ha with rfl | rfl | rfl
    · exact ⟨fun h => absurd h (by decide), fun h => absurd h (by decide)⟩
    · exact ⟨by decide, by decide⟩
    · refine ⟨fun h => absurd h (by decide), fun _ cv hcv => ?_⟩
      simp only [List.mem_singleton] at hcv
      subst hcv
      decide

/-- dropping a column record makes it inconsistent: the check is not vacuous -/
example : ¬ SchemaConsistent
    (exMetaDoc.map (fun tb => if tb.id == "_grist_Tables_column" then { tb with rows := [1] } else tb)) :=
  fun h => absurd ((schemaConsistentB_correct _).2 h) (by decide)

end Grist.Doc
