/-
C08  Internal schema always matches the metadata.

Model: GristModel/SchemaMeta.lean (`metaSchema` = schema.build_schema over the `_grist_Tables` /
`_grist_Tables_column` tables of the document, `userSchema` / `userTable?` = engine.schema,
`SchemaConsistent` = Engine.assert_schema_consistent, `schemaConsistentB` its decision procedure).
Proofs: GristProofs/SchemaMeta*.lean.

Delivered here: the decision procedure is correct; `SchemaConsistent` only depends on what `Same`
preserves (so a rollback, C04, restores it); record actions that do not touch the schema-bearing
metadata fields preserve it; the paired steps for AddColumn, RenameColumn, RemoveColumn (schema doc
action + column-record action, in the engine's order) preserve `SchemaConsistent ∧ MetaUnique ∧ WF ∧
Normal`.  NOT proved: the pairs for ModifyColumn, AddTable, RemoveTable, RenameTable.
-/
import GristProps.C04
import GristProofs.SchemaMetaNeutral
import GristProofs.SchemaMetaDecide
import GristProofs.SchemaMetaPairs6
import GristProofs.DocRedo
namespace Grist.Doc

/-- the Bool check evaluated by the driver decides the property -/
theorem schemaConsistentB_correct (d : Doc) : schemaConsistentB d = true ↔ SchemaConsistent d :=
  schemaConsistentB_iff d

/-- `SchemaConsistent` is invariant under observational equality (no well-formedness needed: it
    reads the schema through `findTable?` / `findCol?` and the metadata cells at existing rows) -/
theorem schemaConsistent_same_invariant {d d' : Doc} (h : Same d d') :
    SchemaConsistent d ↔ SchemaConsistent d' :=
  ⟨schemaConsistent_of_same h, schemaConsistent_of_same h.symm⟩

theorem metaSchema_same_invariant {d d' : Doc} (h : Same d d') : metaSchema d = metaSchema d' :=
  metaSchema_congr h.metaAgree

/-- Record actions on tables other than the two metadata tables (BulkAddRecord, BulkRemoveRecord,
    BulkUpdateRecord, ReplaceTableData), and BulkUpdateRecord on `_grist_Tables` /
    `_grist_Tables_column` that does not name a schema-bearing field (`tableId`; `parentId`, `colId`,
    `type`, `isFormula`, `formula`, `reverseCol`), preserve consistency (`DocAction.neutral`). -/
theorem neutral_step_consistent {d : Doc} {s : Summary} {a : DocAction} {r : DAResult} (hwf : WF d)
    (hne : a.neutral) (hc : SchemaConsistent d) (h : docAction d s a = .ok r) :
    SchemaConsistent r.doc :=
  post_neutral hwf hne hc (post_of_ok h)

theorem neutral_steps_consistent {as : List DocAction} {d d' : Doc} {u : List DocAction}
    (hwf : WF d) (hargs : ∀ a ∈ as, a.rowsPositive) (hne : ∀ a ∈ as, a.neutral)
    (hc : SchemaConsistent d) (h : runActs d as = .ok (d', u)) : SchemaConsistent d' := by
  induction as generalizing d u with
  | nil =>
    simp only [runActs, Except.ok.injEq, Prod.mk.injEq] at h
    obtain ⟨rfl, rfl⟩ := h; exact hc
  | cons a rest ih =>
    obtain ⟨r, u', hr, hrest, rfl⟩ := runActs_cons_ok h
    have ha := hne a (by simp)
    have hcd : a.colsDistinct := by cases a <;> first | trivial | exact ha.elim
    have hwf' := docAction_WF_partial hwf (hargs a (by simp)) hcd hr
    exact ih hwf' (fun b hb => hargs b (List.mem_cons_of_mem _ hb))
      (fun b hb => hne b (List.mem_cons_of_mem _ hb)) (neutral_step_consistent hwf ha hc hr) hrest

/-- corollary of C04: after a rollback to a checkpoint the schema is as consistent as it was at
    the checkpoint, whatever the rolled-back steps did to it -/
theorem rollback_schema_consistent {st st' : EState} {steps : List (DocAction × Bool)}
    (hwf : WF st.doc) (hn : Normal st.doc) (hlen : st.stored.length = st.direct.length)
    (hargs : ∀ ab ∈ steps, ab.1.rowsPositive ∧ ab.1.colsDistinct)
    (hex : undoExactRun st.doc (steps.map (·.1)))
    (hc : SchemaConsistent st.doc)
    (h : stepDocs st steps = .ok st') :
    ∃ st'', rollback st' st.stored.length st.undo.length = .ok st'' ∧ SchemaConsistent st''.doc ∧
      metaSchema st''.doc = metaSchema st.doc := by
  obtain ⟨st'', h1, h2, _⟩ := C04.rollback_restores hwf hn hlen hargs hex h
  exact ⟨st'', h1, schemaConsistent_of_same h2.symm hc, metaSchema_same_invariant h2⟩

/-! ### paired steps of the user-action layer

`MetaUnique d` (GristProofs/SchemaMetaPairs.lean): both metadata tables exist, one table record per
`tableId`, one column record per `(parentId, colId)` -- `SchemaConsistent` alone allows duplicate
records (the last wins), and then updating one of them breaks consistency.
`TableRec d tr0 T`: `tr0` is a row of `_grist_Tables` with `tableId = T`.
`ColRec d r tr0 c`: `r` is a row of `_grist_Tables_column` with `parentId = tr0`, `colId = c`.
`NoReverseRefTo d r`: no column record has `reverseCol = r` (the engine handles two-way references
with extra ModifyColumn actions that are outside the pair). -/

/-- the `parentId` column of `_grist_Tables_column` stores ints as given (it is a Ref column; a Bool
    or Numeric column would turn `int 1` into `true` / `1.0`) -/
def ParentIdIntTyped (d : Doc) : Prop :=
  ∀ mc col, findTable? d "_grist_Tables_column" = some mc → mc.findCol? "parentId" = some col →
    ∀ k, colSet col.info.type (.int k) = .int k

theorem runActs_WF_Normal {as : List DocAction} {d d' : Doc} {u : List DocAction} (hwf : WF d)
    (hn : Normal d) (hargs : ∀ a ∈ as, a.rowsPositive ∧ a.colsDistinct)
    (h : runActs d as = .ok (d', u)) : WF d' ∧ Normal d' :=
  applyAll_WF hwf hn hargs (runActs_applyAll h)

/-- doAddColumn: `AddColumn T c info`, then AddRecord of the column record (row id `r`; its
    schema-bearing fields are `colRecVals tr0 c info`: parentId, colId, type, isFormula, formula). -/
theorem pair_addColumn {d d' : Doc} {u : List DocAction} {T c : String} {info : ColInfo}
    {tr0 r : Nat}
    (hwf : WF d) (hn : Normal d) (hc : SchemaConsistent d) (hu : MetaUnique d)
    (hT : isMetaId T = false) (htr : TableRec d tr0 T) (hrev : info.reverseColId = none)
    (hr0 : 0 < r) (hnr : NoReverseRefTo d r) (hint : ParentIdIntTyped d)
    (h : runActs d [.addColumn T c info,
      .bulkAdd "_grist_Tables_column" [r] (colRecVals tr0 c info)] = .ok (d', u)) :
    SchemaConsistent d' ∧ MetaUnique d' ∧ WF d' ∧ Normal d' := by
  have h1 := pair_addColumn_core hwf hc hu hT htr hrev hr0 hnr hint h
  have h2 := runActs_WF_Normal hwf hn (by
    intro a ha
    simp only [List.mem_cons, List.not_mem_nil, or_false] at ha
    rcases ha with rfl | rfl
    · exact ⟨trivial, trivial⟩
    · refine ⟨?_, trivial⟩
      intro x hx
      simp only [List.mem_singleton] at hx
      subst hx; exact hr0) h
  exact ⟨h1.1, h1.2, h2.1, h2.2⟩

/-- _updateColumnRecords on a colId change: `RenameColumn T old new`, then UpdateRecord of `colId` -/
theorem pair_renameColumn {d d' : Doc} {u : List DocAction} {T old new : String} {tr0 r : Nat}
    (hwf : WF d) (hn : Normal d) (hc : SchemaConsistent d) (hu : MetaUnique d)
    (hT : isMetaId T = false) (htr : TableRec d tr0 T) (hrec : ColRec d r tr0 old)
    (hnr : NoReverseRefTo d r)
    (h : runActs d [.renameColumn T old new,
      .bulkUpdate "_grist_Tables_column" [r] [("colId", [.str new])]] = .ok (d', u)) :
    SchemaConsistent d' ∧ MetaUnique d' ∧ WF d' ∧ Normal d' := by
  have h1 := pair_renameColumn_core hwf hc hu hT htr hrec hnr h
  have h2 := runActs_WF_Normal hwf hn (by
    intro a ha
    simp only [List.mem_cons, List.not_mem_nil, or_false] at ha
    rcases ha with rfl | rfl <;> exact ⟨trivial, trivial⟩) h
  exact ⟨h1.1, h1.2, h2.1, h2.2⟩

/-- doRemoveColumns: RemoveRecord of the column record first, then `RemoveColumn T c` -/
theorem pair_removeColumn {d d' : Doc} {u : List DocAction} {T c : String} {tr0 r : Nat}
    (hwf : WF d) (hn : Normal d) (hc : SchemaConsistent d) (hu : MetaUnique d)
    (hT : isMetaId T = false) (htr : TableRec d tr0 T) (hrec : ColRec d r tr0 c)
    (hnr : NoReverseRefTo d r)
    (h : runActs d [.bulkRemove "_grist_Tables_column" [r], .removeColumn T c] = .ok (d', u)) :
    SchemaConsistent d' ∧ MetaUnique d' ∧ WF d' ∧ Normal d' := by
  have h1 := pair_removeColumn_core hc hu hT htr hrec hnr h
  have h2 := runActs_WF_Normal hwf hn (by
    intro a ha
    simp only [List.mem_cons, List.not_mem_nil, or_false] at ha
    rcases ha with rfl | rfl <;> exact ⟨trivial, trivial⟩) h
  exact ⟨h1.1, h1.2, h2.1, h2.2⟩

/-! ### a concrete document with metadata: user table `T` with columns `A`, `B` -/

def mInfo (ty : String) : ColInfo := { type := ty, isFormula := false, formula := "", reverseColId := none }

def exMetaDoc : Doc :=
  [ { id := "_grist_Tables", rows := [1],
      cols := [{ id := "tableId", info := mInfo "Text",
                 cells := fun r => if r = 1 then .str "T" else typeDefault "Text" }] },
    { id := "_grist_Tables_column", rows := [1, 2],
      cols := [
        { id := "parentId", info := mInfo "Ref:_grist_Tables",
          cells := fun r => if r = 1 then .int 1 else if r = 2 then .int 1
                            else typeDefault "Ref:_grist_Tables" },
        { id := "colId", info := mInfo "Text",
          cells := fun r => if r = 1 then .str "A" else if r = 2 then .str "B" else typeDefault "Text" },
        { id := "type", info := mInfo "Text",
          cells := fun r => if r = 1 then .str "Text" else if r = 2 then .str "Text"
                            else typeDefault "Text" },
        { id := "isFormula", info := mInfo "Bool",
          cells := fun r => if r = 1 then .bool false else if r = 2 then .bool false
                            else typeDefault "Bool" },
        { id := "formula", info := mInfo "Text",
          cells := fun r => if r = 1 then .str "" else if r = 2 then .str "" else typeDefault "Text" },
        { id := "label", info := mInfo "Text",
          cells := fun r => if r = 1 then .str "A" else if r = 2 then .str "B" else typeDefault "Text" } ] },
    { id := "T", rows := [1],
      cols := [{ id := "A", info := mInfo "Text",
                 cells := fun r => if r = 1 then .str "x" else typeDefault "Text" },
               { id := "B", info := mInfo "Text",
                 cells := fun r => if r = 1 then .str "y" else typeDefault "Text" }] } ]

example : metaSchema exMetaDoc = [("T", [("A", mInfo "Text"), ("B", mInfo "Text")])] := by decide
example : userSchema exMetaDoc = [("T", [("A", mInfo "Text"), ("B", mInfo "Text")])] := by decide

theorem exMetaDoc_consistent : SchemaConsistent exMetaDoc :=
  (schemaConsistentB_correct _).1 (by decide)

theorem exMetaDoc_WF : WF exMetaDoc := by
  refine ⟨by decide, ?_⟩
  intro tb htb
  simp only [exMetaDoc, List.mem_cons, List.not_mem_nil, or_false] at htb
  rcases htb with rfl | rfl | rfl
  · refine ⟨by decide, by simp, by simp, ?_⟩
    intro col hcol r hr
    have h1 : r ≠ 1 := by intro h; subst h; simp at hr
    simp only [List.mem_cons, List.not_mem_nil, or_false] at hcol
    subst hcol
    simp [h1, mInfo]
  · refine ⟨by decide, by simp, by simp, ?_⟩
    intro col hcol r hr
    have h1 : r ≠ 1 := by intro h; subst h; simp at hr
    have h2 : r ≠ 2 := by intro h; subst h; simp at hr
    simp only [List.mem_cons, List.not_mem_nil, or_false] at hcol
    rcases hcol with rfl | rfl | rfl | rfl | rfl | rfl <;> simp [h1, h2, mInfo]
  · refine ⟨by decide, by simp, by simp, ?_⟩
    intro col hcol r hr
    have h1 : r ≠ 1 := by intro h; subst h; simp at hr
    simp only [List.mem_cons, List.not_mem_nil, or_false] at hcol
    rcases hcol with rfl | rfl <;> simp [h1, mInfo]

def exNeutralActs : List DocAction :=
  [.bulkUpdate "T" [1] [("A", [.str "q"])], .bulkAdd "T" [2] [("B", [.str "z"])],
   .bulkUpdate "_grist_Tables_column" [2] [("label", [.str "Bee"])]]

/-- neutral steps on the example: data actions on `T`, and a `label` update of a column record -/
example : ∃ d' u, runActs exMetaDoc exNeutralActs = .ok (d', u) ∧ SchemaConsistent d' := by
  have h : runActs exMetaDoc exNeutralActs = .ok (_, _) := rfl
  refine ⟨_, _, h, ?_⟩
  apply neutral_steps_consistent (as := exNeutralActs) exMetaDoc_WF _ _ exMetaDoc_consistent h
  · intro a ha
    simp only [exNeutralActs, List.mem_cons, List.not_mem_nil, or_false] at ha
    rcases ha with rfl | rfl | rfl <;> simp [DocAction.rowsPositive]
  · intro a ha
    simp only [exNeutralActs, List.mem_cons, List.not_mem_nil, or_false] at ha
    rcases ha with rfl | rfl | rfl
    · exact ⟨fun h => absurd h (by decide), fun h => absurd h (by decide)⟩
    · exact ⟨by decide, by decide⟩
    · refine ⟨fun h => absurd h (by decide), fun _ cv hcv => ?_⟩
      simp only [List.mem_singleton] at hcv
      subst hcv
      decide

theorem exMetaDoc_MetaUnique : MetaUnique exMetaDoc := by
  refine ⟨_, _, rfl, rfl, ?_, ?_⟩
  · unfold TUniq; decide
  · unfold CUniq; decide

theorem exMetaDoc_noRef (r : Nat) (hr : r ≠ 0) : NoReverseRefTo exMetaDoc r := by
  intro mc hmc
  have e : findTable? exMetaDoc "_grist_Tables_column" = some _ := rfl
  rw [e] at hmc
  cases hmc
  intro x _
  exact fun h => hr h.symm

/-- the RenameColumn pair on the example (via the `Normal`-free core lemma: `Normal exMetaDoc`
    would need `pureType "Ref:_grist_Tables"` to evaluate) -/
example : ∃ d' u, runActs exMetaDoc [.renameColumn "T" "A" "A2",
      .bulkUpdate "_grist_Tables_column" [1] [("colId", [.str "A2"])]] = .ok (d', u) ∧
    SchemaConsistent d' ∧ MetaUnique d' ∧ schemaConsistentB d' = true := by
  have h : runActs exMetaDoc [.renameColumn "T" "A" "A2",
      .bulkUpdate "_grist_Tables_column" [1] [("colId", [.str "A2"])]] = .ok (_, _) := rfl
  have h1 := pair_renameColumn_core (tr0 := 1) exMetaDoc_WF exMetaDoc_consistent
    exMetaDoc_MetaUnique (by decide) ⟨_, rfl, by decide, by decide⟩
    ⟨_, rfl, by decide, by decide, by decide⟩ (exMetaDoc_noRef 1 (by decide)) h
  exact ⟨_, _, h, h1.1, h1.2, (schemaConsistentB_correct _).2 h1.1⟩

/-- dropping a column record makes it inconsistent: the check is not vacuous -/
example : ¬ SchemaConsistent
    (exMetaDoc.map (fun tb => if tb.id == "_grist_Tables_column" then { tb with rows := [1] } else tb)) :=
  fun h => absurd ((schemaConsistentB_correct _).2 h) (by decide)

end Grist.Doc
