import GristModel.DocSpec
namespace Grist.Doc
theorem placeholder_C08 : True := trivial
end Grist.Doc
