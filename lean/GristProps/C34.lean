/-
C34  Time zone conversions round-trip.
Property theorems.  Model: GristModel/Zone.lean (moment.py Zone/TzInfo/ts_to_dt/dt_to_ts/date_to_ts/
ts_to_date).  Helper development: GristProofs/Zone.lean, GristProofs/Civil.lean.
Zone table: Generated/Zones*.lean (regenerated from sandbox/grist/tzdata.data on every run).

Units: instants and wall-clock values in integer ms (an integer-second timestamp s is 1000*s);
day numbers = days since 1970-01-01.
-/
import GristProofs.Zone
import GristProofs.Civil
import Generated.ZonesAll
namespace Grist.Zone

/-! ### clause 1: timestamp -> local datetime -> timestamp -/

/-- `ts_to_dt` never raises on a well-formed zone; the datetime carries the offset of the period
    that contains the instant, as wall clock and as `favor_offset`. -/
theorem tsToDt_eq {z : Zone} (h : ZoneWF z) (ts : Int) :
    tsToDt z ts = .ok { wall := ts + E z (index z ts), favor := some (E z (index z ts)) } := by
  unfold tsToDt offset
  rw [eastAt_ok h _ (index_spec h ts).1]
  rfl

/-- The heart of the round trip (DESIGN A.4): looking up the local time produced by `fromutc`, with
    the `favor_offset` set by `fromutc`, finds the period the instant came from — also inside a
    repeated (ambiguous) hour, where the bisect over `offset_untils` lands one period early and the
    ambiguity test together with `favor_offset` corrects it. -/
theorem indexDt_of_tsToDt {z : Zone} (h : ZoneWF z) (ts : Int) :
    indexDt z (ts + E z (index z ts)) (some (E z (index z ts))) = .ok (index z ts) := by
  obtain ⟨hk, h1, h2⟩ := index_spec h ts
  rw [indexDt_eq h]
  obtain ⟨hi, g1, g2⟩ := ouIndex_spec h (ts + E z (index z ts))
  generalize index z ts = k at *
  generalize bisectRight (offsetUntils z) (ts + E z k) = i at *
  congr 1
  -- i ≤ k
  have a : i ≤ k := by
    apply Nat.le_of_not_lt
    intro hlt
    have := g1 k hlt
    have := h2 k (Nat.le_refl _) (by omega)
    omega
  -- k ≤ i + 1
  have b : k ≤ i + 1 := by
    apply Nat.le_of_not_lt
    intro hlt
    obtain ⟨m, rfl⟩ : ∃ m, k = m + 2 := ⟨k - 2, by omega⟩
    have := g2 m (by omega) (by omega)
    have := h.end_le_start m (by omega)
    have := h1 (m + 1) (by omega)
    omega
  by_cases e : k = i
  · subst e
    have : ¬ (k < z.untils.length ∧ ts + E z k ≥ U z k + E z (k + 1) ∧ some (E z (k + 1)) = some (E z k)) := by
      rintro ⟨c0, c1, c2⟩
      have c2 := Option.some.inj c2
      have := h2 k (Nat.le_refl _) c0
      omega
    simp only [this, if_false]
  · have e : k = i + 1 := by omega
    subst e
    have : i < z.untils.length ∧ ts + E z (i + 1) ≥ U z i + E z (i + 1) ∧ some (E z (i + 1)) = some (E z (i + 1)) := by
      refine ⟨by omega, ?_, rfl⟩
      have := h1 i (by omega)
      omega
    simp only [this, if_true, and_self]

/-- **C34 clause 1.**  For every well-formed zone and EVERY integer-millisecond instant,
    `dt_to_ts(ts_to_dt(ts, zone))` returns the instant. -/
theorem ts_roundtrip {z : Zone} (h : ZoneWF z) (ts : Int) :
    ∃ d, tsToDt z ts = .ok d ∧ dtToTs' z d = .ok ts := by
  refine ⟨_, tsToDt_eq h ts, ?_⟩
  unfold dtToTs' dtToTs dtOffset
  simp only [indexDt_of_tsToDt h ts, bind, Except.bind]
  rw [eastAt_ok h _ (index_spec h ts).1]
  simp only [pure, Except.pure]
  congr 1
  omega

/-- The same for integer-second timestamps (`ts_to_dt` takes seconds). -/
theorem ts_roundtrip_seconds {z : Zone} (h : ZoneWF z) (s : Int) :
    ∃ d, tsToDt z (1000 * s) = .ok d ∧ dtToTs' z d = .ok (1000 * s) :=
  ts_roundtrip h (1000 * s)

-- a well-formed zone with a repeated hour (clock back 1h at t=0) and an instant inside it
example : ZoneWF ⟨[0, 86400000], [-7200, -3600, -7200]⟩ := (zoneWF_iff _).2 (by decide)
example : tsToDt ⟨[0, 86400000], [-7200, -3600, -7200]⟩ 1800000
    = .ok ⟨5400000, some 3600000⟩ := by rfl
example : dtToTs ⟨[0, 86400000], [-7200, -3600, -7200]⟩ 5400000 (some 3600000) = .ok 1800000 := by rfl
example : dtToTs ⟨[0, 86400000], [-7200, -3600, -7200]⟩ 5400000 none = .ok (-1800000) := by rfl

/-! ### clause 3: every local time gets the offset of an adjacent period -/

/-- **C34 clause 3.**  For every local wall-clock value (existing, ambiguous or skipped) and every
    `favor_offset`, `_index_dt` succeeds with some period `i`, `dt_offset` is that period's offset,
    and with `t = wall - E i` the assigned instant:
    * either `t` lies in period `i` itself (the assigned offset IS the offset in force at the
      assigned instant, so converting `t` back gives the same wall clock — see `wall_roundtrip`),
    * or `wall` is skipped by the transition into period `i` (it lies between the local end of period
      `i-1` and the local start of period `i`), and `t` lies in period `i-1`, immediately before that
      transition: the assigned offset is that of the period right after the instant. -/
theorem local_offset_adjacent {z : Zone} (h : ZoneWF z) (wall : Int) (favor : Option Int) :
    ∃ i, indexDt z wall favor = .ok i ∧ i ≤ z.untils.length ∧
      dtOffset z wall favor = .ok (E z i) ∧ dtToTs z wall favor = .ok (wall - E z i) ∧
      (index z (wall - E z i) = i ∨
       (index z (wall - E z i) + 1 = i ∧
        U z (i - 1) + E z (i - 1) ≤ wall ∧ wall < U z (i - 1) + E z i)) := by
  have hid := indexDt_eq h wall favor
  obtain ⟨hi, g1, g2⟩ := ouIndex_spec h wall
  generalize bisectRight (offsetUntils z) wall = i at *
  have fin : ∀ r, r ≤ z.untils.length → indexDt z wall favor = .ok r →
      dtOffset z wall favor = .ok (E z r) ∧ dtToTs z wall favor = .ok (wall - E z r) := by
    intro r hr hr'
    have e1 : dtOffset z wall favor = .ok (E z r) := by
      unfold dtOffset
      simp only [hr', bind, Except.bind]
      exact eastAt_ok h r hr
    refine ⟨e1, ?_⟩
    unfold dtToTs
    simp only [e1, bind, Except.bind, pure, Except.pure]
  by_cases c : i < z.untils.length ∧ wall ≥ U z i + E z (i + 1) ∧ some (E z (i + 1)) = favor
  · -- ambiguous local time, the later offset is favoured
    simp only [c, if_true, and_self] at hid
    obtain ⟨c0, c1, _⟩ := c
    refine ⟨i + 1, hid, by omega, (fin _ (by omega) hid).1, (fin _ (by omega) hid).2, Or.inl ?_⟩
    apply index_eq_of_neighbours h _ _ (by omega)
    · intro _
      show U z (i + 1 - 1) ≤ wall - E z (i + 1)
      rw [Nat.add_sub_cancel]
      omega
    · intro hlt
      have := g2 i (Nat.le_refl _) c0
      have := h.ou_lt i hlt
      omega
  · simp only [c, if_false] at hid
    refine ⟨i, hid, hi, (fin _ hi hid).1, (fin _ hi hid).2, ?_⟩
    have up : i < z.untils.length → wall - E z i < U z i := by
      intro hlt
      have := g2 i (Nat.le_refl _) hlt
      omega
    by_cases lo : 0 < i → U z (i - 1) ≤ wall - E z i
    · exact Or.inl (index_eq_of_neighbours h _ _ hi lo up)
    · -- skipped local time
      have hpos : 0 < i := by
        apply Nat.pos_of_ne_zero
        intro e
        exact lo (fun hh => by omega)
      have lo' : wall - E z i < U z (i - 1) := by
        apply Int.lt_of_not_ge
        intro hge
        exact lo (fun _ => hge)
      have ge := g1 (i - 1) (by omega)
      refine Or.inr ⟨?_, ge, by omega⟩
      have : index z (wall - E z i) = i - 1 := by
        apply index_eq_of_neighbours h _ _ (by omega)
        · intro hp
          obtain ⟨m, rfl⟩ : ∃ m, i = m + 2 := ⟨i - 2, by omega⟩
          have := h.gap_le_period m (by omega)
          have e : m + 2 - 1 = m + 1 := by omega
          rw [e] at ge
          have e' : m + 2 - 1 - 1 = m := by omega
          rw [e']
          omega
        · intro _
          exact lo'
      omega

/-- Consequence: a local time that is not skipped converts to an instant that converts back to the
    same local time (whatever `favor_offset` was used). -/
theorem wall_roundtrip {z : Zone} (h : ZoneWF z) (wall : Int) (favor : Option Int) :
    ∃ t i, dtToTs z wall favor = .ok t ∧ indexDt z wall favor = .ok i ∧
      (index z t = i → ∃ f, tsToDt z t = .ok ⟨wall, f⟩) := by
  obtain ⟨i, h1, _, _, h4, _⟩ := local_offset_adjacent h wall favor
  refine ⟨_, i, h4, h1, ?_⟩
  intro hi
  refine ⟨some (E z i), ?_⟩
  rw [tsToDt_eq h, hi]
  congr 2
  omega

/-- Consequence, in terms of `Zone.offset` only: the offset assigned to a local time is the offset
    in force at the assigned instant, or the one in force at the next transition after it. -/
theorem local_offset_in_use {z : Zone} (h : ZoneWF z) (wall : Int) (favor : Option Int) :
    ∃ e t, dtOffset z wall favor = .ok e ∧ dtToTs z wall favor = .ok t ∧
      (offset z t = .ok e ∨
       (index z t < z.untils.length ∧ offset z (U z (index z t)) = .ok e)) := by
  obtain ⟨i, _, hi, h3, h4, h5⟩ := local_offset_adjacent h wall favor
  refine ⟨_, _, h3, h4, ?_⟩
  rcases h5 with h5 | ⟨h5, _, _⟩
  · left
    unfold offset
    rw [h5]
    exact eastAt_ok h i hi
  · right
    refine ⟨by omega, ?_⟩
    unfold offset
    have : index z (U z (index z (wall - E z i))) = i := by
      apply index_eq_of_neighbours h _ _ hi
      · intro _
        have e : i - 1 = index z (wall - E z i) := by omega
        rw [e]
        exact Int.le_refl _
      · intro hlt
        have := h.untils_lt (index z (wall - E z i)) (by omega)
        rw [h5] at this
        exact this
    rw [this]
    exact eastAt_ok h i hi

-- a skipped local time (clock forward 1h at t=0: walls [3600000, 7200000) do not exist)
example : dtToTs ⟨[0], [-3600, -7200]⟩ 5400000 none = .ok (-1800000) := by rfl
example : index ⟨[0], [-3600, -7200]⟩ (-1800000) + 1 = 1 := by decide

/-! ### clause 2: date -> midnight timestamp -> date -/

/-- `ts_to_date(date_to_ts(d)) = d` on day numbers (UTC, the pair the engine uses for Date cells). -/
theorem day_roundtrip_utc (d : Int) : tsToDay (dayToTsUtc d) = d := by
  unfold tsToDay dayToTsUtc
  omega

/-- and `ts_to_date` ignores the time of day. -/
theorem tsToDay_of_time (d s : Int) (h0 : 0 ≤ s) (h1 : s < 86400) : tsToDay (dayToTsUtc d + s) = d := by
  unfold tsToDay dayToTsUtc
  omega

/-- **C34 clause 2 (UTC).**  On proleptic Gregorian civil dates (what `datetime.date` arithmetic
    implements), for every valid date of any year: `ts_to_date(date_to_ts(date)) = date`. -/
theorem date_roundtrip_utc (c : Civil) (hv : c.Valid) : tsToDate (dateToTsUtc c) = c := by
  unfold tsToDate dateToTsUtc
  rw [day_roundtrip_utc]
  exact civil_of_days_of_civil c hv

/-- The calendar pair is a bijection between day numbers and valid civil dates. -/
theorem civil_days_bijection (n : Int) : (civilFromDays n).Valid ∧ daysFromCivil (civilFromDays n) = n :=
  ⟨civilFromDays_valid n, days_of_civil_of_days n⟩

example : daysFromCivil ⟨2000, 2, 29⟩ = 11016 := by decide
example : civilFromDays 11016 = ⟨2000, 2, 29⟩ := by decide
example : (⟨2000, 2, 29⟩ : Civil).Valid := by decide

/-- `date_to_ts(d, zone)` under `ZoneWF`: no error; the offset is the one in force at the UTC
    midnight of `d`. -/
theorem dayToTs_eq {z : Zone} (h : ZoneWF z) (d : Int) :
    dayToTs z d = .ok (d * 86400 - E z (index z (d * 86400 * 1000)) / 1000) := by
  unfold dayToTs offset
  simp only [bind, Except.bind]
  rw [eastAt_ok h _ (index_spec h _).1]
  rfl

/-- **C34 clause 2 with a zone, partial.**  If no transition of the zone lies between the UTC
    midnight of `d` and the instant `date_to_ts(d, zone)` returns (both are in the same period), the
    returned instant is exactly the local midnight of `d`, so its local date is `d`. -/
theorem date_roundtrip_zone_partial {z : Zone} (h : ZoneWF z) (d : Int) :
    ∃ ts, dayToTs z d = .ok ts ∧
      (index z (ts * 1000) = index z (d * 86400 * 1000) →
        tsToDt z (ts * 1000) = .ok ⟨d * 86400000, some (E z (index z (d * 86400 * 1000)))⟩ ∧
        localDay z ts = .ok d) := by
  refine ⟨_, dayToTs_eq h d, ?_⟩
  intro hi
  have key : tsToDt z ((d * 86400 - E z (index z (d * 86400 * 1000)) / 1000) * 1000)
      = .ok ⟨d * 86400000, some (E z (index z (d * 86400 * 1000)))⟩ := by
    rw [tsToDt_eq h, hi]
    generalize index z (d * 86400 * 1000) = k
    congr 2
    simp only [E]
    omega
  refine ⟨key, ?_⟩
  unfold localDay
  simp only [key, bind, Except.bind, pure, Except.pure]
  congr 1
  omega

/-- In general the local time of the returned instant misses the local midnight of `d` by exactly the
    difference between the offset in force at the returned instant and the one at the UTC midnight. -/
theorem date_zone_wall {z : Zone} (h : ZoneWF z) (d : Int) :
    ∃ ts, dayToTs z d = .ok ts ∧
      tsToDt z (ts * 1000) = .ok ⟨d * 86400000 +
        (E z (index z (ts * 1000)) - E z (index z (d * 86400 * 1000))), some (E z (index z (ts * 1000)))⟩ := by
  refine ⟨_, dayToTs_eq h d, ?_⟩
  rw [tsToDt_eq h]
  generalize index z ((d * 86400 - E z (index z (d * 86400 * 1000)) / 1000) * 1000) = k'
  generalize index z (d * 86400 * 1000) = k
  congr 2
  simp only [E]
  omega

-- FULL STATEMENT (unproved, FALSE of the code as it is):
--   theorem date_roundtrip_zone {z : Zone} (h : ZoneWF z) (d : Int) :
--       ∃ ts, dayToTs z d = .ok ts ∧ localDay z ts = .ok d
-- `date_to_ts(date, zone)` subtracts the offset in force at the UTC midnight, not at the local
-- midnight; when a transition lies between the two, the result is not the local midnight and can
-- fall on the previous day.  Witness: a zone that goes from UTC+2 to UTC+3 at 22:00 UTC of day -1
-- (local 00:00 of day 0, e.g. Asia/Beirut 1920-03-28, America/Santiago 2019-04-07 the other way):
-- day 0 ↦ 21:00 UTC of day -1 ↦ local 23:00 of day -1.
/-- The zone-aware date round trip is FALSE for some well-formed zones (genuine finding; replayed on
    the real `moment.date_to_ts` / `ts_to_dt` by harness/gx/props/c34.py). -/
theorem date_roundtrip_zone_fails :
    ¬ ∀ (z : Zone) (d : Int), ZoneWF z → ∃ ts, dayToTs z d = .ok ts ∧ localDay z ts = .ok d := by
  intro hall
  obtain ⟨ts, h1, h2⟩ := hall ⟨[-7200000], [-7200, -10800]⟩ 0 ((zoneWF_iff _).2 (by decide))
  have e1 : dayToTs ⟨[-7200000], [-7200, -10800]⟩ 0 = .ok (-10800) := by rfl
  rw [e1] at h1
  cases h1
  have e2 : localDay ⟨[-7200000], [-7200, -10800]⟩ (-10800) = .ok (-1) := by rfl
  rw [e2] at h2
  cases h2

/-! ### every bundled zone record is well formed -/

/-- **all_bundled_zones_wf.**  Every distinct record of the repo's current `tzdata.data` (generated
    table, one `decide +kernel` obligation per record) satisfies `ZoneWF`. -/
theorem all_bundled_zones_wf : ∀ p ∈ Gen.allZones, ZoneWF p.2 :=
  fun p hp => (zoneWF_iff p.2).2 (Gen.allZones_wfb p hp)

/-- The same for the table of every bundled zone NAME with its record. -/
theorem bundled_names_wf : ∀ q ∈ Gen.zoneTable, ZoneWF q.2 :=
  fun q hq => (zoneWF_iff q.2).2 (Gen.zoneTable_wfb q hq)

/-- Hence clauses 1 and 3 hold for every bundled zone name and every instant / local time. -/
theorem bundled_zones_roundtrip :
    ∀ q ∈ Gen.zoneTable,
      (∀ ts, ∃ d, tsToDt q.2 ts = .ok d ∧ dtToTs' q.2 d = .ok ts) ∧
      (∀ wall favor, ∃ i, indexDt q.2 wall favor = .ok i ∧ i ≤ q.2.untils.length ∧
        dtOffset q.2 wall favor = .ok (E q.2 i) ∧ dtToTs q.2 wall favor = .ok (wall - E q.2 i) ∧
        (index q.2 (wall - E q.2 i) = i ∨
         (index q.2 (wall - E q.2 i) + 1 = i ∧
          U q.2 (i - 1) + E q.2 (i - 1) ≤ wall ∧ wall < U q.2 (i - 1) + E q.2 i))) := by
  intro q hq
  have h := bundled_names_wf q hq
  exact ⟨fun ts => ts_roundtrip h ts, fun w f => local_offset_adjacent h w f⟩

-- the table is not empty and not trivial
example : Gen.zoneTable.length = Gen.numNames := by decide +kernel
example : 300 < Gen.numRecords := by decide

end Grist.Zone
