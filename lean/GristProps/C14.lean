/-
C14  Sorted searches and PREVIOUS/NEXT/RANK agree with a linear scan.
Property theorems only.  Model: GristModel/SortedFind.lean; helper lemmas: GristProofs/SortedFind.lean.

Reading: a "sorted lookup result" is a list of rows `rs` that is sorted under `SortKey.__lt__`
(`keyLt`), i.e. no later row's key is `<` an earlier row's key; the "same comparison" of the linear
scan is that very comparison on the sort values (`valuesBefore`, the row-id tie-break neutralised
exactly as `_find_eq` does it).  Search values may be shorter (prefix search) or longer than the
sort spec.  All rows carry one cell per sort-spec column (`r.cells.length = n`).
-/
import GristProofs.SortedFind
set_option linter.unusedSimpArgs false
set_option linter.unusedVariables false
namespace Grist.SortedFind

/-! ### bisect_left / bisect_right on any list sorted by a strict weak order -/

/-- **bisect_left.**  For any `lt` that is a strict weak order on `S`, any list `a` whose keys are in
    `S` and which is sorted (no later key `<` an earlier one) and any probe `x ∈ S`: the index
    returned by Python's `bisect_left(a, x, key=key)` is the number of elements strictly before the
    probe, and exactly the elements left of that index are strictly before the probe. -/
theorem bisect_left_spec {α β : Type} (S : β → Prop) (lt : β → β → Bool)
    (hswo : StrictWeakOrderOn S lt) (key : α → β) (a : List α) (x : β)
    (hS : ∀ e ∈ a, S (key e)) (hx : S x)
    (hs : a.Pairwise (fun p q => lt (key q) (key p) = false)) :
    bisectLeft lt key a x 0 a.length = a.countP (fun e => lt (key e) x) ∧
    ∀ i (h : i < a.length), (lt (key a[i]) x = true ↔ i < bisectLeft lt key a x 0 a.length) := by
  have mono : a.Pairwise (fun p q => lt (key q) x = true → lt (key p) x = true) := by
    refine List.Pairwise.imp_of_mem ?_ hs
    intro p q hp hq hqp hqx
    cases hpx : lt (key p) x with
    | true => rfl
    | false =>
      have := hswo.negtrans (hS q hq) (hS p hp) hx hqp hpx
      rw [hqx] at this; exact absurd this (by simp)
  have hp := prefix_getElem (fun e => lt (key e) x) mono
  have e := bisectLeft_eq lt key a x _ hp 0 a.length (by omega) List.countP_le_length (by omega)
  refine ⟨e, ?_⟩
  intro i h
  rw [e, hp i h]; simp

/-- **bisect_right.**  Same setting: the index returned by `bisect_right(a, x, key=key)` is the
    number of elements that are not after the probe. -/
theorem bisect_right_spec {α β : Type} (S : β → Prop) (lt : β → β → Bool)
    (hswo : StrictWeakOrderOn S lt) (key : α → β) (a : List α) (x : β)
    (hS : ∀ e ∈ a, S (key e)) (hx : S x)
    (hs : a.Pairwise (fun p q => lt (key q) (key p) = false)) :
    bisectRight lt key a x 0 a.length = a.countP (fun e => !lt x (key e)) ∧
    ∀ i (h : i < a.length), (lt x (key a[i]) = false ↔ i < bisectRight lt key a x 0 a.length) := by
  have mono : a.Pairwise (fun p q => (!lt x (key q)) = true → (!lt x (key p)) = true) := by
    refine List.Pairwise.imp_of_mem ?_ hs
    intro p q hp hq hqp hxq
    have hxq' : lt x (key q) = false := by simpa using hxq
    have := hswo.negtrans hx (hS q hq) (hS p hp) hxq' hqp
    simp [this]
  have hp := prefix_getElem (fun e => !lt x (key e)) mono
  have e := bisectRight_eq lt key a x _ hp 0 a.length (by omega) List.countP_le_length (by omega)
  refine ⟨e, ?_⟩
  intro i h
  rw [e]
  have := hp i h
  constructor
  · intro hf; rw [hf] at this; simpa using this.symm
  · intro hlt; rw [decide_eq_true hlt] at this; simpa using this

/-- **`SortKey.__lt__` is a strict weak order** on keys that carry the same number of values
    (any mix of None / bool / int / str, any '-' flags, any row ids incl. the ±max sentinels). -/
theorem keyLt_strictWeakOrder (spec : List Bool) (n : Nat) :
    StrictWeakOrderOn (fun k : Key => k.values.length = n) (keyLt spec) where
  irrefl := fun a _ => keyLt_irrefl spec a
  trans := fun a b c ha hb hc h1 h2 =>
    keyLt_trans (by rw [ha, hb]) (by rw [hb, hc]) h1 h2
  incomp_trans := fun a b c ha hb hc h1 h2 h3 h4 =>
    ⟨keyLt_negtrans (by rw [ha, hb]) (by rw [hb, hc]) h1 h3,
     keyLt_negtrans (by rw [hc, hb]) (by rw [hb, ha]) h4 h2⟩

/-- ... and total on keys of distinct rows: it orders any two rows with different ids. -/
theorem keyLt_total_rows (spec : List Bool) (a b : Row) (h : a.id ≠ b.id) :
    keyLt spec (key a) (key b) = true ∨ keyLt spec (key b) (key a) = true :=
  keyLt_total h a.cells b.cells

/-! ### find.lt / le / gt / ge / eq against the linear scan -/

section find
variable (spec : List Bool) (rs : List Row) (vs : List Val) (n : Nat)

/-- **find.lt** = the LAST record of the ordered set whose sort values are strictly before the
    search values, or the empty record. -/
theorem find_lt_scan (hspec : spec ≠ []) (hvs : vs ≠ []) (hlen : ∀ r ∈ rs, r.cells.length = n)
    (hs : rs.Pairwise (fun a b => keyLt spec (key b) (key a) = false)) :
    findLt spec rs vs = .ok (scanLast rs (fun r => valuesBefore spec r.cells vs)) := by
  unfold findLt scanLast
  rw [getSortKey_ok spec hspec, probeKey_ok vs _ hvs]
  simp only [bisectFind, bisectIndex, if_true, bind, Except.bind, pure, Except.pure]
  rw [bisectLeft_probe spec rs vs n hlen hs, atIndex_pred rs _ List.countP_le_length,
    prefix_last _ (mono_before spec rs vs n hlen hs)]

/-- **find.le** = the LAST record whose sort values are not after the search values. -/
theorem find_le_scan (hspec : spec ≠ []) (hvs : vs ≠ []) (hlen : ∀ r ∈ rs, r.cells.length = n)
    (hs : rs.Pairwise (fun a b => keyLt spec (key b) (key a) = false)) :
    findLe spec rs vs = .ok (scanLast rs (fun r => !valuesBefore spec vs r.cells)) := by
  unfold findLe scanLast
  rw [getSortKey_ok spec hspec, probeKey_ok vs _ hvs]
  simp only [bisectFind, bisectIndex, Bool.false_eq_true, if_false, bind, Except.bind, pure, Except.pure]
  rw [bisectRight_probe spec rs vs n hlen hs, atIndex_pred rs _ List.countP_le_length,
    prefix_last _ (mono_not_after spec rs vs n hlen hs)]

/-- **find.gt** = the FIRST record whose sort values are strictly after the search values. -/
theorem find_gt_scan (hspec : spec ≠ []) (hvs : vs ≠ []) (hlen : ∀ r ∈ rs, r.cells.length = n)
    (hs : rs.Pairwise (fun a b => keyLt spec (key b) (key a) = false)) :
    findGt spec rs vs = .ok (scanFirst rs (fun r => valuesBefore spec vs r.cells)) := by
  unfold findGt scanFirst
  rw [getSortKey_ok spec hspec, probeKey_ok vs _ hvs]
  simp only [bisectFind, bisectIndex, Bool.false_eq_true, if_false, bind, Except.bind, pure, Except.pure]
  rw [bisectRight_probe spec rs vs n hlen hs, atIndex_nat,
    ← prefix_find_not _ (mono_not_after spec rs vs n hlen hs)]
  simp

/-- **find.ge** = the FIRST record whose sort values are not before the search values. -/
theorem find_ge_scan (hspec : spec ≠ []) (hvs : vs ≠ []) (hlen : ∀ r ∈ rs, r.cells.length = n)
    (hs : rs.Pairwise (fun a b => keyLt spec (key b) (key a) = false)) :
    findGe spec rs vs = .ok (scanFirst rs (fun r => !valuesBefore spec r.cells vs)) := by
  unfold findGe scanFirst
  rw [getSortKey_ok spec hspec, probeKey_ok vs _ hvs]
  simp only [bisectFind, bisectIndex, if_true, bind, Except.bind, pure, Except.pure]
  rw [bisectLeft_probe spec rs vs n hlen hs, atIndex_nat,
    ← prefix_find_not _ (mono_before spec rs vs n hlen hs)]

/-- **find.eq** = the FIRST record whose sort values are neither before nor after the search values
    (row ids are positive, so the empty record is told apart by `if found:`). -/
theorem find_eq_scan (hspec : spec ≠ []) (hvs : vs ≠ []) (hlen : ∀ r ∈ rs, r.cells.length = n)
    (hid : ∀ r ∈ rs, r.id ≠ 0)
    (hs : rs.Pairwise (fun a b => keyLt spec (key b) (key a) = false)) :
    findEq spec rs vs = .ok (scanFirst rs (fun r =>
      !valuesBefore spec r.cells vs && !valuesBefore spec vs r.cells)) := by
  unfold findEq scanFirst
  rw [getSortKey_ok spec hspec, probeKey_ok vs _ hvs]
  simp only [bisectFind, bisectIndex, if_true, bind, Except.bind, pure, Except.pure]
  have hfound := prefix_find_not _ (mono_before spec rs vs n hlen hs)
  rw [bisectLeft_probe spec rs vs n hlen hs, atIndex_nat, ← hfound]
  cases hf : rs.find? (fun e => !valuesBefore spec e.cells vs) with
  | none =>
    simp only
    rw [List.find?_eq_none] at hf
    suffices h : rs.find? (fun r => !valuesBefore spec r.cells vs && !valuesBefore spec vs r.cells)
        = none by rw [h]
    rw [List.find?_eq_none]
    intro x hx
    have := hf x hx
    simp at this
    simp [this]
  | some f =>
    have hfm : f ∈ rs := List.mem_of_find?_eq_some hf
    have hne : (f.id != 0) = true := by simpa using hid f hfm
    simp only [hne, if_true]
    rw [show (⟨RowId.id f.id, vs⟩ : Key) = ⟨.id f.id, vs⟩ from rfl]
    have hk : keyLt spec ⟨.id f.id, vs⟩ (key f) = valuesBefore spec vs f.cells :=
      keyLt_same_id spec f.id vs f.cells
    rw [hk]
    cases hafter : valuesBefore spec vs f.cells with
    | false =>
      simp only [Bool.false_eq_true, if_false]
      rw [find?_and hf (by simp [hafter])]
    | true =>
      simp only [if_true]
      -- nothing in the set is "equal": rows left of f are before, f and rows right of it are after
      suffices h : rs.find? (fun r => !valuesBefore spec r.cells vs && !valuesBefore spec vs r.cells)
          = none by rw [h]
      rw [List.find?_eq_none]
      intro x hx
      have hB := prefix_getElem _ (mono_before spec rs vs n hlen hs)
      have hA := prefix_getElem _ (mono_not_after spec rs vs n hlen hs)
      obtain ⟨i, hi, rfl⟩ := List.getElem_of_mem hx
      -- f sits at the boundary index of "before"
      have hjf0 : rs[rs.countP (fun r => valuesBefore spec r.cells vs)]? = some f := by
        rw [← hfound]; exact hf
      obtain ⟨hj, hjf⟩ := List.getElem?_eq_some_iff.mp hjf0
      have h2 := hA _ hj; rw [hjf, hafter] at h2
      have hjA : ¬ rs.countP (fun r => valuesBefore spec r.cells vs) <
          rs.countP (fun r => !valuesBefore spec vs r.cells) := by
        intro h; rw [decide_eq_true h] at h2; simp at h2
      have hBi := hB i hi
      have hAi := hA i hi
      by_cases hij : i < rs.countP (fun r => valuesBefore spec r.cells vs)
      · rw [decide_eq_true hij] at hBi
        simp [hBi]
      · have : ¬ i < rs.countP (fun r => !valuesBefore spec vs r.cells) := by omega
        rw [decide_eq_false this] at hAi
        have : valuesBefore spec vs rs[i].cells = true := by simpa using hAi
        simp [this]

end find

/-! ### the ordered group, PREVIOUS / NEXT / RANK -/

section pnr
variable (spec : List Bool) (tbl : List Row) (n : Nat)

/-- **The ordered group.**  `lookup_records(**group, order_by=...)` is a permutation of the rows
    whose group_by cells equal the given ones, and is STRICTLY sorted by the sort key (row ids are
    distinct, so no two keys are equivalent). -/
theorem lookup_sorted (hnd : (tbl.map (·.id)).Nodup) (hlen : ∀ r ∈ tbl, r.cells.length = n)
    (g : List Val) :
    (lookupRecords spec tbl g).Perm (tbl.filter (fun r => groupEq r.group g)) ∧
    (lookupRecords spec tbl g).Pairwise (fun a b => keyLt spec (key a) (key b) = true) := by
  have hperm := pySorted_perm (fun a b => keyLt spec (key a) (key b))
    (tbl.filter (fun r => groupEq r.group g))
  refine ⟨hperm, ?_⟩
  have hmem : ∀ a, a ∈ tbl.filter (fun r => groupEq r.group g) → a ∈ tbl :=
    fun a ha => (List.mem_filter.mp ha).1
  have hsorted := pySorted_pairwise (fun a b => keyLt spec (key a) (key b))
    (tbl.filter (fun r => groupEq r.group g))
    (fun a b c ha hb hc h1 h2 => keyLt_trans
      (by simp [key, hlen a (hmem a ha), hlen b (hmem b hb)])
      (by simp [key, hlen b (hmem b hb), hlen c (hmem c hc)]) h1 h2)
    (fun a b _ _ h => keyLt_asymm h)
  -- distinct ids along the sorted list
  have hnd' : ((lookupRecords spec tbl g).map (·.id)).Nodup := by
    have h1 : ((tbl.filter (fun r => groupEq r.group g)).map (·.id)).Nodup :=
      List.Nodup.sublist (List.Sublist.map _ List.filter_sublist) hnd
    exact (List.Perm.nodup_iff (List.Perm.map _ hperm)).mpr h1
  have hids : (lookupRecords spec tbl g).Pairwise (fun a b => a.id ≠ b.id) := by
    have := hnd'
    rw [List.Nodup, List.pairwise_map] at this
    exact this
  refine List.Pairwise.imp ?_ (List.Pairwise.and hsorted hids)
  intro a b ⟨h1, h2⟩
  rcases keyLt_total_rows spec a b h2 with h | h
  · exact h
  · rw [h1] at h; exact absurd h (by simp)

/-- The ordered group is THE sorted arrangement: any permutation of the group that is sorted by the
    sort key is equal to it (so modelling `sorted()` by an insertion sort loses nothing). -/
theorem lookup_sorted_unique (hnd : (tbl.map (·.id)).Nodup) (hlen : ∀ r ∈ tbl, r.cells.length = n)
    (g : List Val) (l : List Row)
    (hp : l.Perm (tbl.filter (fun r => groupEq r.group g)))
    (hs : l.Pairwise (fun a b => keyLt spec (key b) (key a) = false)) :
    l = lookupRecords spec tbl g := by
  obtain ⟨hperm, hstrict⟩ := lookup_sorted spec tbl n hnd hlen g
  have hs' : (lookupRecords spec tbl g).Pairwise (fun a b => keyLt spec (key b) (key a) = false) :=
    List.Pairwise.imp (fun h => keyLt_asymm h) hstrict
  refine List.Perm.eq_of_pairwise (le := fun a b => keyLt spec (key b) (key a) = false) ?_ hs hs'
    (hp.trans hperm.symm)
  intro a b ha hb h1 h2
  have ha' : a ∈ tbl := (List.mem_filter.mp (hp.mem_iff.mp ha)).1
  have hb' : b ∈ tbl := (List.mem_filter.mp (hperm.mem_iff.mp hb)).1
  apply eq_of_id_eq tbl hnd a ha' b hb'
  apply Classical.byContradiction
  intro hne
  rcases keyLt_total_rows spec a b hne with h | h
  · rw [h2] at h; exact absurd h (by simp)
  · rw [h1] at h; exact absurd h (by simp)

/-- **PREVIOUS / NEXT / RANK.**  For a table with distinct row ids and a record `r` of it: `r` occurs
    in its ordered group `rs = lookup_records(group_by cells of r, order_by)`, and for the position
    `i` of `r` in `rs` (unique, `rs` has no duplicates):
    PREVIOUS = the record at `i-1` (empty record if `i = 0`), NEXT = the record at `i+1` (empty
    record at the end), RANK asc = `i+1`, RANK desc = `len rs - i`.  The record's own index is found
    by the bisection because the row id is the last sort component and ids are distinct. -/
theorem previous_next_rank_spec (hspec : spec ≠ []) (hnd : (tbl.map (·.id)).Nodup)
    (hlen : ∀ r ∈ tbl, r.cells.length = n) (r : Row) (hr : r ∈ tbl) :
    r ∈ sortedLookup spec tbl r ∧
    ∀ i : Nat, (sortedLookup spec tbl r)[i]? = some r →
      PREVIOUS spec tbl r = .ok (if i = 0 then none else (sortedLookup spec tbl r)[i - 1]?) ∧
      NEXT spec tbl r = .ok (sortedLookup spec tbl r)[i + 1]? ∧
      RANK spec tbl r "asc" = .ok ((i : Int) + 1) ∧
      RANK spec tbl r "desc" = .ok (((sortedLookup spec tbl r).length : Int) - i) := by
  obtain ⟨hperm, hstrict⟩ := lookup_sorted spec tbl n hnd hlen r.group
  have hmem : r ∈ sortedLookup spec tbl r := by
    unfold sortedLookup
    rw [hperm.mem_iff, List.mem_filter]
    exact ⟨hr, groupEq_refl _⟩
  refine ⟨hmem, ?_⟩
  intro i hi
  obtain ⟨hil, hir⟩ := List.getElem?_eq_some_iff.mp hi
  have own := own_index (keyLt spec) key (sortedLookup spec tbl r)
    (fun a _ => keyLt_irrefl spec (key a)) (fun a _ b _ h => keyLt_asymm h) hstrict i hil
  rw [hir] at own
  obtain ⟨ol, or_⟩ := own
  unfold PREVIOUS NEXT RANK findPrevious findNext findRank
  rw [getSortKey_ok spec hspec]
  simp only [bisectFind, bisectIndex, if_true, Bool.false_eq_true, if_false, bind, Except.bind,
    pure, Except.pure]
  rw [ol, or_]
  refine ⟨?_, ?_, ?_, ?_⟩
  · rw [atIndex_pred _ i (by omega)]
  · have : ((i + 1 : Nat) : Int) + 0 = ((i + 1 : Nat) : Int) + 0 := rfl
    rw [atIndex_nat]
  · simp
  · simp

end pnr

/-! ### Non-vacuity: concrete sorted record sets with duplicate and mixed-type keys -/

section examples
open Val

/-- order_by="k" on a table with manualSort: spec = [k asc, manualSort asc];
    k = None, True, 1, 1, "a" (True == 1: three equivalent keys), ordered by manualSort inside ties -/
def exRows : List Row :=
  [⟨2, [none, int 3], []⟩, ⟨4, [bool true, int 1], []⟩, ⟨1, [int 1, int 4], []⟩,
   ⟨5, [int 1, int 5], []⟩, ⟨3, [str "a", int 2], []⟩]

example : exRows.Pairwise (fun a b => keyLt [false, false] (key b) (key a) = false) := by decide
example : ∀ r ∈ exRows, r.cells.length = 2 := by decide
example : ∀ r ∈ exRows, r.id ≠ 0 := by decide

-- the scans (right-hand sides of the theorems) on this set, search value 1 (equal to True):
example : scanLast exRows (fun r => valuesBefore [false, false] r.cells [int 1]) = some ⟨2, [none, int 3], []⟩ := by decide
example : scanLast exRows (fun r => !valuesBefore [false, false] [int 1] r.cells) = some ⟨5, [int 1, int 5], []⟩ := by decide
example : scanFirst exRows (fun r => valuesBefore [false, false] [int 1] r.cells) = some ⟨3, [str "a", int 2], []⟩ := by decide
example : scanFirst exRows (fun r => !valuesBefore [false, false] r.cells [int 1]) = some ⟨4, [bool true, int 1], []⟩ := by decide
-- hence, by the theorems, the model's find ops return exactly these:
example : findLt [false, false] exRows [int 1] = .ok (some ⟨2, [none, int 3], []⟩) := by
  rw [find_lt_scan [false, false] exRows [int 1] 2 (by decide) (by decide) (by decide) (by decide)]; exact congrArg Except.ok (by decide)
example : findLe [false, false] exRows [int 1] = .ok (some ⟨5, [int 1, int 5], []⟩) := by
  rw [find_le_scan [false, false] exRows [int 1] 2 (by decide) (by decide) (by decide) (by decide)]; exact congrArg Except.ok (by decide)
example : findEq [false, false] exRows [int 1] = .ok (some ⟨4, [bool true, int 1], []⟩) := by
  rw [find_eq_scan [false, false] exRows [int 1] 2 (by decide) (by decide) (by decide) (by decide) (by decide)]; exact congrArg Except.ok (by decide)
-- no record equals 0 (False would): eq gives the empty record, ge the first number
example : findEq [false, false] exRows [int 0] = .ok Option.none := by
  rw [find_eq_scan [false, false] exRows [int 0] 2 (by decide) (by decide) (by decide) (by decide) (by decide)]; exact congrArg Except.ok (by decide)
-- two search values (k, manualSort): prefix of length 2
example : findGt [false, false] exRows [bool true, int 4] = .ok (some ⟨5, [int 1, int 5], []⟩) := by
  rw [find_gt_scan [false, false] exRows [bool true, int 4] 2 (by decide) (by decide) (by decide) (by decide)]; exact congrArg Except.ok (by decide)

/-- a table with two groups (group_by cell 1 == True, and "x"), descending k -/
def exTbl : List Row :=
  [⟨1, [int 3, int 1], [int 1]⟩, ⟨2, [none, int 2], [bool true]⟩, ⟨3, [str "a", int 3], [int 1]⟩,
   ⟨4, [int 3, int 4], [str "x"]⟩, ⟨5, [bool true, int 5], [int 1]⟩]

example : (exTbl.map (·.id)).Nodup := by decide
example : ∀ r ∈ exTbl, r.cells.length = 2 := by decide
example : (sortedLookup [true, false] exTbl ⟨1, [int 3, int 1], [int 1]⟩).map (·.id) = [3, 1, 5, 2] := by decide
-- row 1 sits at index 1 of its group [3, 1, 5, 2]
example : (sortedLookup [true, false] exTbl ⟨1, [int 3, int 1], [int 1]⟩)[1]? = some ⟨1, [int 3, int 1], [int 1]⟩ := by decide

-- PREVIOUS / NEXT / RANK of row 1 (index 1 in [3, 1, 5, 2]) through the theorem
example : PREVIOUS [true, false] exTbl ⟨1, [int 3, int 1], [int 1]⟩ = .ok (some ⟨3, [str "a", int 3], [int 1]⟩) ∧
    NEXT [true, false] exTbl ⟨1, [int 3, int 1], [int 1]⟩ = .ok (some ⟨5, [bool true, int 5], [int 1]⟩) ∧
    RANK [true, false] exTbl ⟨1, [int 3, int 1], [int 1]⟩ "asc" = .ok 2 ∧
    RANK [true, false] exTbl ⟨1, [int 3, int 1], [int 1]⟩ "desc" = .ok 3 := by
  have h := (previous_next_rank_spec [true, false] exTbl 2 (by decide) (by decide) (by decide)
    ⟨1, [int 3, int 1], [int 1]⟩ (by decide)).2 1 (by decide)
  refine ⟨?_, ?_, ?_, ?_⟩
  · rw [h.1]; exact congrArg Except.ok (by decide)
  · rw [h.2.1]; exact congrArg Except.ok (by decide)
  · rw [h.2.2.1]; rfl
  · rw [h.2.2.2]; exact congrArg Except.ok (by decide)

-- the abstract bisect theorem instantiated with `keyLt` on 2-value keys
example : bisectLeft (keyLt [false, false]) key exRows ⟨.negMax, [int 1, int 5]⟩ 0 exRows.length = 3 := by
  rw [(bisect_left_spec _ _ (keyLt_strictWeakOrder [false, false] 2) key exRows
    ⟨.negMax, [int 1, int 5]⟩ (by decide) rfl (by decide)).1]
  decide
example : bisectRight (keyLt [false, false]) key exRows ⟨.posMax, [int 1, int 5]⟩ 0 exRows.length = 4 := by
  rw [(bisect_right_spec _ _ (keyLt_strictWeakOrder [false, false] 2) key exRows
    ⟨.posMax, [int 1, int 5]⟩ (by decide) rfl (by decide)).1]
  decide

-- strings among themselves (code-point order, "B" < "a" < "b"), descending: "b", "a", "B", 7, None
def exStr : List Row :=
  [⟨1, [str "b"], []⟩, ⟨2, [str "a"], []⟩, ⟨3, [str "a"], []⟩, ⟨4, [str "B"], []⟩, ⟨5, [int 7], []⟩, ⟨6, [none], []⟩]
example : exStr.Pairwise (fun a b => keyLt [true] (key b) (key a) = false) := by decide
example : findLe [true] exStr [str "a"] = .ok (some ⟨3, [str "a"], []⟩) := by
  rw [find_le_scan [true] exStr [str "a"] 1 (by decide) (by decide) (by decide) (by decide)]; exact congrArg Except.ok (by decide)

end examples

end Grist.SortedFind
