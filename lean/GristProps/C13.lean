/-
C13  Lookups return exactly the matching rows in documented order.
Property theorems only.  Model: GristModel/Lookup.lean (+ GristModel/SortedFind.lean for the SortKey
comparison); helper lemmas: GristProofs/Lookup.lean, GristProofs/LookupMachine.lean; the ordering
theory (`keyLt` is a strict weak order, total on distinct row ids) is C14's, reused.

Reading.  The lookup index of one LookupMapColumn is an event machine (`step`): record actions write
key / sort cells of rows of the looked-up table (`setKey`, `setSort`, `unset`), the engine delivers
the pending recalculations (`deliverKey` = `update_record`, `deliverSort` =
`_reset_sorted_versions`), formulas look keys up (`lookup`).  "After arbitrary edit histories" = after
any event list; "every change was delivered" = the ghost dirty sets are empty.  Python equality of
keys is structural equality of `PV.norm`alised values (`True == 1`); `matchKey` is the column-wise
match of the property text (exact columns: `==`; CONTAINS: membership, strings are no containers,
match_empty for an empty cell).
-/
import GristProofs.LookupMachine
set_option linter.unusedSimpArgs false
set_option linter.unusedVariables false
namespace Grist.Lookup
open Grist.SortedFind (Val keyLt Key RowId pySorted)

/-! ### 1. TwoWayMap -/

/-- **All five bin types satisfy the bin contract** (`Lawful`): "single", "strict", and the
    containers `set`, `list`, `LookupSet`. -/
theorem twoWayMap_bins_lawful {κ γ : Type} [DecidableEq κ] [DecidableEq γ] (hk : κ → Bool) (hv : γ → Bool) :
    Lawful (singleOps (γ := γ) hk) hk hv (wfSingle hk) ∧
    Lawful (strictOps (γ := γ) hk) hk hv (wfSingle hk) ∧
    Lawful (containerOps (setC (γ := γ)) hk hv) hk hv (wfC setC hk) ∧
    Lawful (containerOps (listC (γ := γ)) hk hv) hk hv (wfC listC hk) ∧
    Lawful (containerOps (lookupSetC (γ := γ)) hk hv) hk hv (wfC lookupSetC hk) :=
  ⟨lawful_single hk hv, lawful_strict hk hv, lawful_container setC hk hv lawfulC_set,
   lawful_container listC hk hv lawfulC_list, lawful_container lookupSetC hk hv lawfulC_lookupSet⟩

/-- **`_fwd` and `_bwd` are mutually inverse** after any sequence of `insert` / `remove` /
    `remove_left` / `remove_right` / `clear` calls on an empty map, for any pair of lawful bin types
    (so for all 25 pairs of the five above), any hashability of the values, including calls that
    raise (unhashable arguments: TypeError; "strict" violations: ValueError) and whose partial work
    the `except:` block of `insert` rolls back. -/
theorem twoWayMap_fwd_bwd_inverse {α β σL σR : Type} [DecidableEq α] [DecidableEq β]
    {L : BinOps β α σL} {R : BinOps α β σR} {hα : α → Bool} {hβ : β → Bool}
    {wfL : Dict β σL → Prop} {wfR : Dict α σR → Prop}
    (LL : Lawful L hβ hα wfL) (LR : Lawful R hα hβ wfR) (ops : List (Op α β)) (l : α) (r : β) :
    Rel R (TwoWayMap.run L R {} ops).fwd l r ↔ Rel L (TwoWayMap.run L R {} ops).bwd r l :=
  (TwoWayMap.run_wf LL LR ops (TwoWayMap.wf_empty LL LR)).inv l r

/-! ### 2. the index is exact -/

/-- **index_exact.**  After ANY event list (no ordering assumption), for every row whose key cells
    have been delivered since their last change: the row is in the LookupSet stored under `K` iff it
    is in the table and its key cells belong under `K` (`keyOf`, which is `matchKey` for both
    mappings, see the two corollaries). -/
theorem index_exact {σR : Type} {M : Mapping σR} {wfR : Dict Nat σR → Prop}
    {keyOf : List Cell → LKey → Prop} (LM : LawfulMapping M wfR keyOf) (sortCols : List String)
    (evs : List Ev) (r : Nat) (hr : r ∉ (exec M sortCols {} evs).dirtyKey) (K : LKey) :
    inSet (exec M sortCols {} evs).index K r ↔
      ∃ rd, dget r (exec M sortCols {} evs).table = some rd ∧ keyOf rd.key K :=
  (inv0_exec LM sortCols evs (inv0_empty LM)).exact r hr K

/-- SimpleLookupMapping: the rows under `K` are exactly the rows all of whose key cells `==` the
    corresponding element of `K` (and `K` is hashable). -/
theorem index_exact_simple (sortCols : List String) (evs : List Ev) (r : Nat)
    (hr : r ∉ (exec simpleMapping sortCols {} evs).dirtyKey) (K : LKey) :
    inSet (exec simpleMapping sortCols {} evs).index K r ↔
      ∃ rd, dget r (exec simpleMapping sortCols {} evs).table = some rd ∧
        matchKey (rd.key.map (fun _ => ColKind.plain)) rd.key K = true := by
  rw [index_exact lawful_simpleMapping sortCols evs r hr K]
  constructor
  · rintro ⟨rd, h1, h2⟩
    refine ⟨rd, h1, (matchKey_plain rd.key K).mpr ?_⟩
    simp only [simpleKeyOf, simpleTarget] at h2
    by_cases hh : (simpleNewKey rd.key).hashable = true
    · simp [hh] at h2; exact ⟨h2.symm, h2 ▸ hh⟩
    · simp [hh] at h2
  · rintro ⟨rd, h1, h2⟩
    refine ⟨rd, h1, ?_⟩
    obtain ⟨e, hh⟩ := (matchKey_plain rd.key K).mp h2
    simp [simpleKeyOf, simpleTarget, ← e, hh]

/-- ContainsLookupMapping (any mix of exact and CONTAINS columns, with or without match_empty): the
    rows under `K` are exactly the rows whose cells match `K` column by column — the keys produced by
    `itertools.product` over the per-column groups are neither too few nor too many. -/
theorem index_exact_contains (kinds : List ColKind) (sortCols : List String) (evs : List Ev) (r : Nat)
    (hr : r ∉ (exec (containsMapping kinds) sortCols {} evs).dirtyKey) (K : LKey) :
    inSet (exec (containsMapping kinds) sortCols {} evs).index K r ↔
      ∃ rd, dget r (exec (containsMapping kinds) sortCols {} evs).table = some rd ∧
        matchKey kinds rd.key K = true :=
  index_exact (lawful_containsMapping kinds) sortCols evs r hr K

/-! ### 3. the sorted-versions cache -/

/-- **sorted_cache_valid.**  After any event list respecting the ordering assumption
    (`disciplined`, see `Ev.allowed`): a cached sorted version of a LookupSet all of whose rows have
    had their key-cell and (for this sort spec) sort-cell changes delivered IS the sort of the
    current set under the current sort values. -/
theorem sorted_cache_valid {σR : Type} {M : Mapping σR} {wfR : Dict Nat σR → Prop}
    {keyOf : List Cell → LKey → Prop} (LM : LawfulMapping M wfR keyOf) (sortCols : List String)
    (evs : List Ev) (hd : disciplined M sortCols {} evs)
    (K : LKey) (S : LSet Nat) (spec : SortSpec) (c : List Nat)
    (hS : dget K (exec M sortCols {} evs).index.bwd = some S) (hc : dget spec S.sorted = some c)
    (hdel : ∀ r ∈ S.elems, r ∉ (exec M sortCols {} evs).dirtyKey ∧
      (exec M sortCols {} evs).sortDirty r spec = false) :
    c = sortRows (exec M sortCols {} evs).table spec S.elems := by
  have hi := inv_exec LM sortCols evs (inv_empty LM) hd
  apply hi.cache K S spec c hS hc
  intro r hr
  refine ⟨(hdel r hr).2, ?_⟩
  rintro ⟨hs, _⟩
  exact (hdel r hr).1 (hi.seen_dirty r hs)

/-- ... so a cache hit returns the same list as a fresh sort: in such a state the `lookup` event
    answers with `sorted(set)` whether or not a cached version exists. -/
theorem lookup_hit_eq_fresh {σR : Type} {M : Mapping σR} {wfR : Dict Nat σR → Prop}
    {keyOf : List Cell → LKey → Prop} (LM : LawfulMapping M wfR keyOf) (sortCols : List String)
    (evs : List Ev) (hd : disciplined M sortCols {} evs)
    (key : LKey) (S : LSet Nat) (spec : SortSpec) (hk : specKnown sortCols spec = true)
    (hh : LKey.hashable (key.map Cell.norm) = true)
    (hS : dget (key.map Cell.norm) (exec M sortCols {} evs).index.bwd = some S)
    (hdel : ∀ r ∈ S.elems, r ∉ (exec M sortCols {} evs).dirtyKey ∧
      (exec M sortCols {} evs).sortDirty r spec = false) :
    (step M sortCols (exec M sortCols {} evs) (.lookup key spec)).2 =
      .rows (sortRows (exec M sortCols {} evs).table spec S.elems) := by
  simp only [step, hk, Bool.not_true, Bool.false_eq_true, if_false, lookupByKey, hh, if_true, hS]
  cases hc : dget spec S.sorted with
  | none => rfl
  | some c =>
    simp only
    rw [sorted_cache_valid LM sortCols evs hd _ S spec c hS hc hdel]

/-! ### 4. do_lookup = filter + sort -/

/-- the rows of the table whose key cells match, in table order: the "naive filter" -/
def matching (mk : List Cell → LKey → Bool) (table : Dict Nat RowData) (K : LKey) : List Nat :=
  (tableRows table).filter (fun r =>
    match dget r table with
    | some rd => mk rd.key K
    | none => false)

/-- **do_lookup_spec.**  In a state reached by any disciplined event list in which every key-cell
    change and every sort-cell change (for this spec) has been delivered, a lookup of a hashable key
    with a known sort spec answers with the naive filter of the table by the column-wise match,
    sorted by the sort key of the spec (`sortRows` = `sorted(..., key=SortKey)`); the answer does not
    depend on cached versions, on the order in which rows entered the set, or on the table's row
    order. -/
theorem do_lookup_spec {σR : Type} {M : Mapping σR} {wfR : Dict Nat σR → Prop}
    {keyOf : List Cell → LKey → Prop} (LM : LawfulMapping M wfR keyOf)
    (mk : List Cell → LKey → Bool) (hmk : ∀ cells K, keyOf cells K ↔ mk cells K = true)
    (sortCols : List String) (evs : List Ev) (hd : disciplined M sortCols {} evs)
    (hkeys : (exec M sortCols {} evs).dirtyKey = [])
    (key : LKey) (spec : SortSpec)
    (hsort : ∀ r, (exec M sortCols {} evs).sortDirty r spec = false)
    (hk : specKnown sortCols spec = true) (hh : LKey.hashable (key.map Cell.norm) = true) :
    (step M sortCols (exec M sortCols {} evs) (.lookup key spec)).2 =
      .rows (sortRows (exec M sortCols {} evs).table spec
        (matching mk (exec M sortCols {} evs).table (key.map Cell.norm))) := by
  have hi := inv_exec LM sortCols evs (inv_empty LM) hd
  have hnd : (tableRows (exec M sortCols {} evs).table).Nodup :=
    tableRows_nodup_exec (M := M) sortCols evs (st := {}) (by simp [tableRows])
  -- membership in the naive filter = membership in the index
  have hmem : ∀ r, r ∈ matching mk (exec M sortCols {} evs).table (key.map Cell.norm) ↔
      inSet (exec M sortCols {} evs).index (key.map Cell.norm) r := by
    intro r
    rw [hi.exact r (by rw [hkeys]; simp) _]
    simp only [matching, List.mem_filter, mem_tableRows_iff]
    constructor
    · rintro ⟨⟨rd, h1⟩, h2⟩
      rw [h1] at h2
      exact ⟨rd, h1, (hmk _ _).mpr h2⟩
    · rintro ⟨rd, h1, h2⟩
      exact ⟨⟨rd, h1⟩, by rw [h1]; exact (hmk _ _).mp h2⟩
  cases hS : dget (key.map Cell.norm) (exec M sortCols {} evs).index.bwd with
  | none =>
    have hempty : matching mk (exec M sortCols {} evs).table (key.map Cell.norm) = [] := by
      apply List.eq_nil_iff_forall_not_mem.mpr
      intro r hr
      obtain ⟨S, h1, _⟩ := (hmem r).mp hr
      rw [hS] at h1; simp at h1
    simp only [step, hk, Bool.not_true, Bool.false_eq_true, if_false, lookupByKey, hh, if_true, hS]
    rw [hempty]; rfl
  | some S =>
    rw [lookup_hit_eq_fresh LM sortCols evs hd key S spec hk hh hS
      (fun r _ => ⟨by rw [hkeys]; simp, hsort r⟩)]
    congr 1
    have hSnd : S.elems.Nodup := (hi.good.wfB _ S hS).2.1
    apply sortRows_eq_of_perm _ _ _ hSnd
    apply (List.perm_ext_iff_of_nodup hSnd (List.Sublist.nodup List.filter_sublist hnd)).mpr
    intro r
    show r ∈ S.elems ↔ r ∈ matching mk (exec M sortCols {} evs).table (key.map Cell.norm)
    rw [hmem r, inSet_iff]
    constructor
    · intro h; exact ⟨S, hS, h⟩
    · rintro ⟨S', h1, h2⟩; rw [hS] at h1; injection h1 with h1; subst h1; exact h2

/-- The sorted list is in the documented order: strictly increasing under `SortKey.__lt__` for the
    spec (`rowLt`: the spec's columns in order, '-' columns reversed, then row id — C14's
    `keyLt_strictWeakOrder` says this is a strict weak order; on distinct rows it is total), and it is
    a permutation of the matching rows: nothing lost, nothing added, nothing repeated. -/
theorem do_lookup_sorted (mk : List Cell → LKey → Bool) (table : Dict Nat RowData)
    (hnd : (tableRows table).Nodup) (spec : SortSpec) (K : LKey) :
    (sortRows table spec (matching mk table K)).Perm (matching mk table K) ∧
    (sortRows table spec (matching mk table K)).Pairwise (fun a b => rowLt table spec a b = true) :=
  ⟨sortRows_perm table spec _,
   sortRows_strict table spec (List.Sublist.nodup List.filter_sublist hnd)⟩

/-- **sorted_perm_invariant.**  `sorted(row_id_set, key=sort_key)` does not depend on the set's
    iteration order: any two duplicate-free listings of the same rows sort to the same list (the row
    id is the last sort component, so the order is total). -/
theorem sorted_perm_invariant (table : Dict Nat RowData) (spec : SortSpec) {l1 l2 : List Nat}
    (hp : l1.Perm l2) (hnd : l1.Nodup) : sortRows table spec l1 = sortRows table spec l2 :=
  sortRows_eq_of_perm table spec hp hnd

/-- the two instances of `hmk` -/
theorem simple_keyOf_match (cells : List Cell) (K : LKey) :
    simpleKeyOf cells K ↔ matchKey (cells.map (fun _ => ColKind.plain)) cells K = true := by
  rw [matchKey_plain]
  simp only [simpleKeyOf, simpleTarget]
  by_cases hh : (simpleNewKey cells).hashable = true
  · simp [hh]
    constructor
    · intro h; exact ⟨h.symm, h ▸ hh⟩
    · intro h; exact h.1.symm
  · simp [hh]
    intro h; rw [h]; simpa using hh

theorem contains_keyOf_match (kinds : List ColKind) (cells : List Cell) (K : LKey) :
    containsKeyOf kinds cells K ↔ matchKey kinds cells K = true := Iff.rfl

/-! ### 5. lookupOne -/

/-- **lookupOne** = the first row of the ordered result or the empty record: for a result that is
    strictly sorted (as `do_lookup_sorted` gives) and consists of real row ids (≠ 0), `get_one` is `0`
    exactly when nothing matches, and otherwise it is a matching row that comes before every other
    matching row in the documented order. -/
theorem lookupOne_spec (table : Dict Nat RowData) (spec : SortSpec) (rs : List Nat) (h0 : 0 ∉ rs)
    (hs : rs.Pairwise (fun a b => rowLt table spec a b = true)) :
    (getOne rs = 0 ↔ rs = []) ∧
    (rs ≠ [] → getOne rs ∈ rs ∧ ∀ r ∈ rs, r ≠ getOne rs → rowLt table spec (getOne rs) r = true) := by
  cases rs with
  | nil => simp [getOne]
  | cons x t =>
    simp only [getOne]
    refine ⟨?_, ?_⟩
    · constructor
      · intro h; exact absurd (h ▸ List.mem_cons_self) h0
      · intro h; simp at h
    · intro _
      refine ⟨List.mem_cons_self, ?_⟩
      intro r hr hne
      rcases List.mem_cons.mp hr with e | e
      · exact absurd e hne
      · exact (List.pairwise_cons.mp hs).1 r e

/-! ### 6. make_sort_spec -/

theorem upToId_eq_takeWhile (t : List String) : upToId t = t.takeWhile (· != "id") := by
  induction t with
  | nil => rfl
  | cons c cs ih =>
    by_cases e : c = "id"
    · simp [upToId, e, List.takeWhile]
    · have : (c != "id") = true := by simp [e]
      simp [upToId, e, List.takeWhile, this, ih]

/-- **make_sort_spec_spec.**
    (a) a non-empty `sort_by` string is the whole spec — its column, then (always) the row id; no
        manualSort fallback;
    (b) otherwise the spec is the order_by tuple (a single string counts as a 1-tuple, None as the
        empty tuple) cut before the first 'id' when 'id' is given, else with 'manualSort' appended when
        the table has that column and the tuple does not name it already, else unchanged;
    (c) a column spec "-c" means column c descending, any other spec means that column ascending;
    (d) a truthy non-string `sort_by`, or (without sort_by) an order_by that is neither tuple, string
        nor None, is a TypeError. -/
theorem make_sort_spec_spec (hasManual : Bool) :
    (∀ ob s, s ≠ "" → makeSortSpec ob (.str s) hasManual = .ok [s]) ∧
    (∀ t sb, sb = SortBy.none ∨ sb = SortBy.str "" →
      makeSortSpec (.tuple t) sb hasManual =
        .ok (if "id" ∈ t then t.takeWhile (· != "id")
             else if hasManual = true ∧ "manualSort" ∉ t then t ++ ["manualSort"] else t) ∧
      makeSortSpec (.str s) sb hasManual = makeSortSpec (.tuple [s]) sb hasManual ∧
      makeSortSpec .none sb hasManual = makeSortSpec (.tuple []) sb hasManual ∧
      makeSortSpec .other sb hasManual = .error .typeError) ∧
    (∀ c : String, parseColSpec ("-" ++ c) = (c, true)) ∧
    (∀ s : String, s.toList.head? ≠ some '-' → parseColSpec s = (s, false)) ∧
    (∀ ob, makeSortSpec ob .other hasManual = .error .typeError) := by
  refine ⟨?_, ?_, ?_, ?_, ?_⟩
  · intro ob s hs
    have : s.isEmpty = false := by
      cases h : s.isEmpty with
      | false => rfl
      | true => exact absurd (String.isEmpty_iff.mp h) hs
    simp [makeSortSpec, this]
  · intro t sb hsb
    have key : makeSortSpec (.tuple t) sb hasManual =
        .ok (if "id" ∈ t then t.takeWhile (· != "id")
             else if hasManual = true ∧ "manualSort" ∉ t then t ++ ["manualSort"] else t) := by
      rcases hsb with rfl | rfl
      · simp only [makeSortSpec, List.contains_iff_mem]
        by_cases h1 : "id" ∈ t
        · simp [h1, upToId_eq_takeWhile]
        · by_cases h2 : "manualSort" ∈ t <;> cases hasManual <;> simp [h1, h2]
      · simp only [makeSortSpec, List.contains_iff_mem, String.isEmpty]
        by_cases h1 : "id" ∈ t
        · simp [h1, upToId_eq_takeWhile]
        · by_cases h2 : "manualSort" ∈ t <;> cases hasManual <;> simp [h1, h2]
    refine ⟨key, ?_, ?_, ?_⟩ <;> rcases hsb with rfl | rfl <;> simp [makeSortSpec, String.isEmpty]
  · intro c; simp [parseColSpec, String.toList_append]
  · intro s hs
    simp only [parseColSpec]
    cases h : s.toList with
    | nil => rfl
    | cons a rest =>
      rw [h] at hs
      simp only [List.head?_cons, ne_eq, Option.some.injEq] at hs
      split
      · rename_i heq; injection heq with h1 _; exact absurd h1 hs
      · rfl
  · intro ob; simp [makeSortSpec]

/-! ### Non-vacuity: concrete instances -/

section examples

/-- a failing insert in a map with a "strict" right bin and a `set` left bin, then more calls -/
def exOps : List (Op Nat Nat) :=
  [.insert 1 10, .insert 1 11, .insert 2 10, .removeLeft 1, .insert 3 10, .remove 2 10]

example : (TwoWayMap.run (containerOps (setC (γ := Nat)) (fun _ => true) (fun _ => true))
    (strictOps (γ := Nat) (fun _ => true)) {} exOps).fwd = [(3, 10)] := by decide
-- the second call raised ValueError and changed nothing:
example : ((({} : TwoWayMap Nat Nat (List Nat) Nat).insert
    (containerOps (setC (γ := Nat)) (fun _ => true) (fun _ => true))
    (strictOps (γ := Nat) (fun _ => true)) 1 10).1.insert
    (containerOps (setC (γ := Nat)) (fun _ => true) (fun _ => true))
    (strictOps (γ := Nat) (fun _ => true)) 1 11).2 = some .valueError := by decide
-- the theorem on this instance
example (l r : Nat) := twoWayMap_fwd_bwd_inverse
  (lawful_container (setC (γ := Nat)) (fun _ => true) (fun _ => true) lawfulC_set)
  (lawful_strict (γ := Nat) (fun _ => true) (fun _ => true)) exOps l r

/-- a history on a one-exact-column index: three rows, key change, unhashable key, removal;
    sort column "s" with a descending lookup -/
def exEvs : List Ev :=
  [.setKey 1 [.v (.int 5)], .setSort 1 [("s", Val.int 3)], .deliverKey 1,
   .setKey 2 [.v (.bool true)], .setSort 2 [("s", Val.int 1)], .deliverKey 2,
   .setKey 3 [.v (.int 1)], .setSort 3 [("s", Val.int 2)], .deliverKey 3,
   .deliverSort 1 ["-s"], .deliverSort 2 ["-s"], .deliverSort 3 ["-s"],
   .lookup [.v (.int 1)] ["-s"],
   .setKey 1 [.v (.int 1)], .setSort 1 [("s", Val.int 9)], .deliverSort 1 ["-s"], .deliverKey 1,
   .setKey 2 [.lst [.int 1]], .deliverKey 2]

-- the event list respects the ordering assumption (decidable on a concrete list)
example : disciplined simpleMapping ["s"] {} exEvs := by
  decide +kernel

-- all deliveries done for key and for spec ["-s"]; True == 1 put row 2 under key (1,) until its
-- cell became a list (unhashable: under no key)
example : (exec simpleMapping ["s"] {} exEvs).dirtyKey = [] := by decide +kernel
example : ∀ r ∈ [1, 2, 3], (exec simpleMapping ["s"] {} exEvs).sortDirty r ["-s"] = false := by decide +kernel
example : specKnown ["s"] ["-s"] = true ∧ LKey.hashable ([Cell.v (.bool true)].map Cell.norm) = true := by decide
-- a different listing of the same set sorts to the same list
example : sortRows (exec simpleMapping ["s"] {} exEvs).table ["-s"] [3, 1] =
    sortRows (exec simpleMapping ["s"] {} exEvs).table ["-s"] [1, 3] :=
  sorted_perm_invariant _ _ (List.Perm.swap 1 3 []) (by decide)
example : (step simpleMapping ["s"] (exec simpleMapping ["s"] {} exEvs) (.lookup [.v (.bool true)] ["-s"])).2
    = .rows [1, 3] := by decide +kernel
example : matching (fun cells K => matchKey (cells.map (fun _ => ColKind.plain)) cells K)
    (exec simpleMapping ["s"] {} exEvs).table [.v (.int 1)] = [1, 3] := by decide +kernel

/-- CONTAINS with match_empty = "": list cell, empty list, string cell, None cell -/
def exEvsC : List Ev :=
  [.setKey 1 [.lst [.str "a", .str "b", .str "a"]], .deliverKey 1,
   .setKey 2 [.lst []], .deliverKey 2,
   .setKey 3 [.v (.str "ab")], .deliverKey 3,
   .setKey 4 [.v .none], .deliverKey 4,
   .setKey 1 [.lst [.str "b"]], .deliverKey 1]

example : (step (containsMapping [.contains (some (.str ""))]) [] (exec (containsMapping
    [.contains (some (.str ""))]) [] {} exEvsC) (.lookup [.v (.str "")] [])).2 = .rows [2, 4] := by decide +kernel
example : (step (containsMapping [.contains (some (.str ""))]) [] (exec (containsMapping
    [.contains (some (.str ""))]) [] {} exEvsC) (.lookup [.v (.str "a")] [])).2 = .rows [] := by decide +kernel

-- make_sort_spec
example : makeSortSpec (.tuple ["a", "-b", "id", "c"]) .none true = .ok ["a", "-b"] := by rfl
example : makeSortSpec (.str "-a") .none true = .ok ["-a", "manualSort"] := by rfl
example : makeSortSpec (.tuple ["-manualSort"]) .none true = .ok ["-manualSort", "manualSort"] := by rfl
example : makeSortSpec (.tuple ["a"]) (.str "s") true = .ok ["s"] := by rfl

-- lookupOne
example : getOne [3, 1] = 3 ∧ getOne [] = 0 := by decide

end examples

/-! ### Why `sorted_cache_valid` carries the ordering assumption

FULL STATEMENT (unproved, and false for the event machine with completely arbitrary interleavings):
  the conclusion of `sorted_cache_valid` for EVERY event list (without `disciplined`).
Counterexample (`exBad` below): a row's key and sort cells are written, `_reset_sorted_versions` runs
for it BEFORE `update_record` and pops the cache of the NEW key only, the key cells are then written
back to the old key before `update_record` ever runs (which then sees "no change"): the set under
the old key keeps a sorted version computed with the old sort value.  The engine recalculates only
after all doc actions of a bundle, so this interleaving is not produced by it; the check replays
every real event stream against `Ev.allowed` and reports a stream that violates it. -/

def exBad : List Ev :=
  [.setKey 1 [.v (.int 1)], .setSort 1 [("s", Val.int 1)], .deliverKey 1,
   .setKey 2 [.v (.int 1)], .setSort 2 [("s", Val.int 2)], .deliverKey 2,
   .deliverSort 1 ["s"], .deliverSort 2 ["s"],
   .lookup [.v (.int 1)] ["s"],                       -- caches [1, 2]
   .setKey 1 [.v (.int 7)], .setSort 1 [("s", Val.int 5)],
   .deliverSort 1 ["s"],                              -- pops the set of key (7,): nothing there
   .setKey 1 [.v (.int 1)],                           -- NOT allowed: row 1 is in `seen`
   .deliverKey 1]                                     -- old key == new key: nothing happens

example : ¬ disciplined simpleMapping ["s"] {} exBad := by
  decide +kernel
-- everything delivered, yet the cached version [1, 2] is not the fresh sort [2, 1]:
example : (exec simpleMapping ["s"] {} exBad).dirtyKey = [] ∧
    (exec simpleMapping ["s"] {} exBad).sortDirty 1 ["s"] = false ∧
    (step simpleMapping ["s"] (exec simpleMapping ["s"] {} exBad) (.lookup [.v (.int 1)] ["s"])).2
      = .rows [1, 2] ∧
    sortRows (exec simpleMapping ["s"] {} exBad).table ["s"] [1, 2] = [2, 1] := by decide +kernel

end Grist.Lookup
