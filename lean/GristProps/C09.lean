/-
C09  Metadata references always resolve.

Model: GristModel/MetaRefs.lean (`refsResolve`, `cleanedCell`, `cleanupUpdates` ...).
Proofs: GristProofs/MetaRefs*.lean.

Hypotheses made explicit:
 * `RefListRoundTrip`  `cellRefs true (renderRefList l) = some l` for non-empty `l`.  `parseRefList`
   goes through `String.splitOn` / `startsWith` / `drop`, which have no usable lemmas (and do not
   reduce in the kernel); everything about RefList columns whose cleaned list stays non-empty
   depends on it.  It is NOT needed when all specs are plain `Ref` columns, nor when a RefList
   becomes empty (it is then rendered as `None`).
 * `SpecTyped d specs`  every listed column that exists has pure type "Ref" (non-list spec) /
   "RefList" (list spec): `Column.set` then stores the cleaned values as given.
-/
import GristProofs.MetaRefsRemove
import GristProofs.RefListRoundTrip
namespace Grist.Doc

/-! ### R1: the cleaned cell -/

theorem cleanedCell_refs_partial (hrt : RefListRoundTrip) (isList : Bool) (gone : List Nat) (v : Val) :
    cellRefs isList (cleanedCell isList gone v) =
      (cellRefs isList v).map (·.filter (fun k => !gone.contains k)) :=
  cleanedCell_refs hrt isList gone v

/-- plain `Ref` cells: no round-trip hypothesis -/
theorem cleanedCell_refs_of_ref (gone : List Nat) (v : Val) :
    cellRefs false (cleanedCell false gone v) =
      (cellRefs false v).map (·.filter (fun k => !gone.contains k)) :=
  cleanedCell_refs_ref gone v

/-- cells that are not reference values are left alone -/
theorem cleanedCell_non_ref (isList : Bool) (gone : List Nat) {v : Val}
    (h : cellRefs isList v = none) : cleanedCell isList gone v = v :=
  cleanedCell_not_ref isList gone h

/-- cells that do not refer to a removed row are left alone -/
theorem cleanedCell_untouched (isList : Bool) (gone : List Nat) {v : Val} {l : List Nat}
    (h : cellRefs isList v = some l) (hn : ∀ k ∈ l, k ∉ gone) : cleanedCell isList gone v = v := by
  apply cleanedCell_of_none_gone isList gone h
  rw [List.any_eq_false]
  intro k hk
  simpa using hn k hk

/-- a `Ref` to a removed row becomes 0 -/
theorem cleanedCell_ref_zero {gone : List Nat} {v : Val} {l : List Nat}
    (h : cellRefs false v = some l) (ha : ∃ k ∈ l, k ∈ gone) : cleanedCell false gone v = .int 0 := by
  apply cleanedCell_ref h
  rw [List.any_eq_true]
  obtain ⟨k, hk, hg⟩ := ha
  exact ⟨k, hk, by simpa using hg⟩

/-- a RefList keeps its order (it is `filter`ed), and becomes `None` when nothing is left -/
theorem cleanedCell_refList {gone : List Nat} {v : Val} {l : List Nat}
    (h : cellRefs true v = some l) (ha : ∃ k ∈ l, k ∈ gone) :
    cleanedCell true gone v = renderRefList (l.filter (fun k => !gone.contains k)) ∧
    (l.filter (fun k => !gone.contains k) = [] → cleanedCell true gone v = .null) := by
  have h1 : cleanedCell true gone v = renderRefList (l.filter (fun k => !gone.contains k)) := by
    apply cleanedCell_list h
    rw [List.any_eq_true]
    obtain ⟨k, hk, hg⟩ := ha
    exact ⟨k, hk, by simpa using hg⟩
  exact ⟨h1, fun he => by rw [h1, he]; rfl⟩

/-! ### R2: clean-up, then removal -/

/-- The mechanism of `doBulkRemoveRecord`.  `hrt`: either the RefList round trip, or all specs are
    plain `Ref` columns.  (`Normal d` is not needed.)  Self references (table = target = `t`) and
    several specs on one table are covered: the updates are computed in `d` and applied one after
    another, each touching only its own column. -/
theorem cleanup_then_remove_resolves_partial {d d1 : Doc} {s : Summary} {r : DAResult}
    {specs : List RefSpec} {t : String} {gone : List Nat}
    (hrt : RefListRoundTrip ∨ ∀ sp ∈ specs, sp.isList = false)
    (hwf : WF d) (hty : SpecTyped d specs) (hres : refsResolve d specs = true)
    (h1 : applyAll d (cleanupUpdates d specs t gone) = .ok d1)
    (h2 : docAction d1 s (.bulkRemove t gone) = .ok r) :
    refsResolve r.doc specs = true :=
  (cleanup_then_remove_full hrt hwf hty hres h1 (post_of_ok h2)).2.1

/-- ... and no cell of a listed column whose target is `t` still refers to a removed row, neither
    right after the clean-up (`d1`) nor after the removal (`NoRefsTo`, GristProofs/MetaRefsCleanup2) -/
theorem no_refs_to_removed {d d1 : Doc} {s : Summary} {r : DAResult}
    {specs : List RefSpec} {t : String} {gone : List Nat}
    (hrt : RefListRoundTrip ∨ ∀ sp ∈ specs, sp.isList = false)
    (hwf : WF d) (hty : SpecTyped d specs) (hres : refsResolve d specs = true)
    (h1 : applyAll d (cleanupUpdates d specs t gone) = .ok d1)
    (h2 : docAction d1 s (.bulkRemove t gone) = .ok r) :
    NoRefsTo d1 specs t gone ∧ NoRefsTo r.doc specs t gone ∧ refsResolve d1 specs = true ∧ WF d1 := by
  have h := cleanup_then_remove_full hrt hwf hty hres h1 (post_of_ok h2)
  exact ⟨h.1.2.1, h.2.2, h.1.1, h.1.2.2⟩

/-- The RefList hypothesis reduced to a statement about the core library's `String.splitOn` only
    (`SplitOnJoin`: splitting a `", "`-joined list of non-empty digit strings gives the list back);
    everything else in the round trip (decimal rendering vs `natOfDigits`, `startsWith`, `endsWith`,
    `drop`, `dropEnd` on the token) is proved in GristProofs/RefListRoundTrip.lean. -/
theorem refListRoundTrip_of_splitOn' (hs : SplitOnJoin) : RefListRoundTrip :=
  refListRoundTrip_of_splitOn hs

theorem cleanup_then_remove_resolves_of_splitOn {d d1 : Doc} {s : Summary} {r : DAResult}
    {specs : List RefSpec} {t : String} {gone : List Nat} (hs : SplitOnJoin)
    (hwf : WF d) (hty : SpecTyped d specs) (hres : refsResolve d specs = true)
    (h1 : applyAll d (cleanupUpdates d specs t gone) = .ok d1)
    (h2 : docAction d1 s (.bulkRemove t gone) = .ok r) :
    refsResolve r.doc specs = true :=
  cleanup_then_remove_resolves_partial (.inl (refListRoundTrip_of_splitOn hs)) hwf hty hres h1 h2

theorem no_refs_to_removed_of_splitOn {d d1 : Doc} {s : Summary} {r : DAResult}
    {specs : List RefSpec} {t : String} {gone : List Nat} (hs : SplitOnJoin)
    (hwf : WF d) (hty : SpecTyped d specs) (hres : refsResolve d specs = true)
    (h1 : applyAll d (cleanupUpdates d specs t gone) = .ok d1)
    (h2 : docAction d1 s (.bulkRemove t gone) = .ok r) :
    NoRefsTo d1 specs t gone ∧ NoRefsTo r.doc specs t gone ∧ refsResolve d1 specs = true ∧ WF d1 :=
  no_refs_to_removed (.inl (refListRoundTrip_of_splitOn hs)) hwf hty hres h1 h2

/-- the removal alone, once nothing refers to the rows -/
theorem remove_unreferenced_resolves {d1 : Doc} {s : Summary} {r : DAResult} {specs : List RefSpec}
    {t : String} {gone : List Nat} (hres : refsResolve d1 specs = true)
    (hno : NoRefsTo d1 specs t gone) (h : docAction d1 s (.bulkRemove t gone) = .ok r) :
    refsResolve r.doc specs = true :=
  (bulkRemove_resolves hres hno (post_of_ok h)).1

/-! ### R3: actions that cannot break resolution -/

/-- record actions on a table that is neither `table` nor `target` of any spec -/
theorem frame {d : Doc} {s : Summary} {a : DocAction} {r : DAResult} {t0 : String}
    {specs : List RefSpec} (hwf : WF d) (ha : a.recordTable = some t0)
    (hfr : ∀ sp ∈ specs, sp.table ≠ t0 ∧ sp.target ≠ t0) (h : docAction d s a = .ok r) :
    refsResolve r.doc specs = refsResolve d specs :=
  frame_post hwf ha hfr (post_of_ok h)

/-- a BulkUpdateRecord that names no listed column (of that table) -/
theorem update_unlisted_preserves {d : Doc} {s : Summary} {r : DAResult} {t0 : String}
    {rows : List Nat} {cols : List (String × List Val)} {specs : List RefSpec} (hwf : WF d)
    (hun : ∀ sp ∈ specs, sp.table = t0 → ∀ cv ∈ cols, cv.1 ≠ sp.col)
    (h : docAction d s (.bulkUpdate t0 rows cols) = .ok r) :
    refsResolve r.doc specs = refsResolve d specs :=
  update_unlisted_post hwf hun (post_of_ok h)

/-- BulkAddRecord on a table that holds no listed column (it may be a target: targets only grow).
    The general `bulkAdd_resolving_preserves` (new rows with listed cells) is not proved. -/
theorem bulkAdd_target_only_preserves_partial {d : Doc} {s : Summary} {r : DAResult} {t0 : String}
    {rows : List Nat} {cols : List (String × List Val)} {specs : List RefSpec} (hwf : WF d)
    (hnt : ∀ sp ∈ specs, sp.table ≠ t0) (hres : refsResolve d specs = true)
    (h : docAction d s (.bulkAdd t0 rows cols) = .ok r) : refsResolve r.doc specs = true :=
  bulkAdd_target_only_post hwf hnt hres (post_of_ok h)

/-! ### R4 -/

theorem refsResolve_same_invariant {d d' : Doc} (h : Same d d') (specs : List RefSpec) :
    refsResolve d specs = refsResolve d' specs :=
  refsResolve_same h specs

/-! ### example: parents `P` (rows 1, 2), children `C` with a Ref column `p` (type "Ref:P")

`pureType "Ref:P" = "Ref"` is a hypothesis because `pureType` (`String.splitOn`) does not evaluate in
the kernel; the clean-up actions and the run are computed. -/

def exRefDoc : Doc :=
  [ { id := "P", rows := [1, 2], cols := [] },
    { id := "C", rows := [1, 2, 3],
      cols := [{ id := "p",
                 info := { type := "Ref:P", isFormula := false, formula := "", reverseColId := none },
                 cells := fun r => if r = 1 then .int 1 else if r = 2 then .int 2
                                   else if r = 3 then .int 2 else typeDefault "Ref:P" }] } ]

def exSpecs : List RefSpec := [{ table := "C", col := "p", target := "P", isList := false }]

theorem exRefDoc_WF : WF exRefDoc := by
  refine ⟨by decide, ?_⟩
  intro tb htb
  simp only [exRefDoc, List.mem_cons, List.not_mem_nil, or_false] at htb
  rcases htb with rfl | rfl
  · exact ⟨by simp, by simp, by simp, by simp⟩
  · refine ⟨by simp, by simp, by simp, ?_⟩
    intro col hcol r hr
    simp only [List.mem_singleton] at hcol
    subst hcol
    have h1 : r ≠ 1 := by intro h; subst h; simp at hr
    have h2 : r ≠ 2 := by intro h; subst h; simp at hr
    have h3 : r ≠ 3 := by intro h; subst h; simp at hr
    simp [h1, h2, h3]

theorem exRefDoc_typed (hty : pureType "Ref:P" = "Ref") : SpecTyped exRefDoc exSpecs := by
  intro sp hsp tb col hft hfc
  simp only [exSpecs, List.mem_singleton] at hsp
  subst hsp
  have e : findTable? exRefDoc "C" = some _ := rfl
  rw [e] at hft
  cases hft
  simp only [Table.findCol?, List.find?_cons, beq_self_eq_true, Option.some.injEq] at hfc
  subst hfc
  exact hty

example : refsResolve exRefDoc exSpecs = true := by decide

/-- the clean-up for removing parent 2 clears the two children pointing at it -/
example : cleanupUpdates exRefDoc exSpecs "P" [2] =
    [.bulkUpdate "C" [2, 3] [("p", [.int 0, .int 0])]] := by decide

example (hty : pureType "Ref:P" = "Ref") : ∃ d1 r,
    applyAll exRefDoc (cleanupUpdates exRefDoc exSpecs "P" [2]) = .ok d1 ∧
    docAction d1 {} (.bulkRemove "P" [2]) = .ok r ∧
    refsResolve r.doc exSpecs = true ∧ NoRefsTo r.doc exSpecs "P" [2] := by
  have h1 : applyAll exRefDoc (cleanupUpdates exRefDoc exSpecs "P" [2]) = .ok _ := rfl
  have h2 : docAction _ {} (.bulkRemove "P" [2]) = .ok _ :=
    (rfl : docAction (match applyAll exRefDoc (cleanupUpdates exRefDoc exSpecs "P" [2]) with
      | .ok x => x | .error _ => []) {} (.bulkRemove "P" [2]) = .ok _)
  have hrt : RefListRoundTrip ∨ ∀ sp ∈ exSpecs, sp.isList = false := by
    right; intro sp hsp
    simp only [exSpecs, List.mem_singleton] at hsp
    subst hsp; rfl
  exact ⟨_, _, h1, h2,
    cleanup_then_remove_resolves_partial hrt exRefDoc_WF (exRefDoc_typed hty) (by decide) h1 h2,
    (no_refs_to_removed hrt exRefDoc_WF (exRefDoc_typed hty) (by decide) h1 h2).2.1⟩

/-- without the clean-up the removal leaves dangling references: the check is not vacuous -/
example : ∃ r, docAction exRefDoc {} (.bulkRemove "P" [2]) = .ok r ∧
    refsResolve r.doc exSpecs = false := ⟨_, rfl, by decide⟩

end Grist.Doc
