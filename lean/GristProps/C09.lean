import GristModel.MetaRefs
namespace Grist.Doc
theorem placeholder_C09 : True := trivial
end Grist.Doc
