/-
C27  Row id allocation never collides or creates ghost rows.
Property theorems only.  Model: GristModel/RowIds.lean
(useractions.doBulkAddOrReplace, docactions.BulkAddRecord/ReplaceTableData, table.RowIDs).

What is TRUE of the code and proved for all requests and all tables:
  fill_ids_spec             automatic/negative entries get ids above every existing row and above every
                            id placed earlier in the request; explicit entries are passed through
  too_high_rejected / fill_error_iff   an id over 1,000,000 (and nothing else) makes the loop raise
  existing_rejected         an explicit id naming an existing row rejects the request
  fill_ids_nodup_iff        the returned ids are pairwise distinct EXACTLY WHEN the explicit ids are
                            pairwise distinct and none of them equals an automatic id handed out earlier
  fill_ids_distinct_partial / add_exact_partial   under those hypotheses (+ explicit ids positive) the
                            returned ids are distinct, positive, disjoint from the old rows, and the rows
                            afterwards are exactly old ∪ returned
What is FALSE of the code (negations proved with witnesses, replayed on the engine by c27.py):
  repeated explicit id accepted ([5,5]); explicit id equal to an earlier automatic id accepted
  ([None,3,None] on a table whose next id is 3); explicit id 0 accepted, creating no row.
-/
import GristModel.RowIds
namespace Grist.RowIds

/-! ### vocabulary of the statements -/

/-- the explicit (non-None, non-negative) ids of a request, in order -/
def explicitIds : List (Option Int) → List Nat
  | [] => []
  | none :: rest => explicitIds rest
  | some i :: rest => if i < 0 then explicitIds rest else i.toNat :: explicitIds rest

/-- "no explicit id equals an automatic id handed out EARLIER in the same request"
    (`next` = the id the loop would hand out now). -/
def NoLateClash : Nat → List (Option Int) → Prop
  | _, [] => True
  | next, none :: rest => next ∉ explicitIds rest ∧ NoLateClash (next + 1) rest
  | next, some i :: rest =>
    if i < 0 then next ∉ explicitIds rest ∧ NoLateClash (next + 1) rest
    else NoLateClash (max next i.toNat + 1) rest

/-! ### helper lemmas -/

theorem le_maxId : ∀ (rows : List Nat) (x : Nat), x ∈ rows → x ≤ maxId rows := by
  intro rows
  induction rows with
  | nil => intro x h; simp at h
  | cons y ys ih =>
    intro x h
    simp only [maxId]
    rcases List.mem_cons.mp h with h | h
    · subst h; exact Nat.le_max_left _ _
    · exact Nat.le_trans (ih x h) (Nat.le_max_right _ _)

theorem lt_nextRowId (rows : List Nat) (x : Nat) (h : x ∈ rows) : x < nextRowId rows := by
  have := le_maxId rows x h
  simp only [nextRowId]; omega

/-- unfolding of one loop iteration on an automatic entry -/
theorem fill_auto (next : Nat) (r : Option Int) (rest : List (Option Int)) (ids : List Nat)
    (ha : isAuto r = true) (h : fillIds next (r :: rest) = .ok ids) :
    ∃ t, fillIds (next + 1) rest = .ok t ∧ ids = next :: t := by
  cases r with
  | none =>
    simp only [fillIds] at h
    split at h
    · rename_i t ht; exact ⟨t, ht, by cases h; rfl⟩
    · cases h
  | some i =>
    have hi : i < 0 := by simpa [isAuto] using ha
    simp only [fillIds, hi, if_true] at h
    split at h
    · rename_i t ht; exact ⟨t, ht, by cases h; rfl⟩
    · cases h

/-- unfolding of one loop iteration on an explicit entry -/
theorem fill_explicit (next : Nat) (i : Int) (rest : List (Option Int)) (ids : List Nat)
    (hi : ¬ i < 0) (h : fillIds next (some i :: rest) = .ok ids) :
    i ≤ 1000000 ∧ ∃ t, fillIds (max next i.toNat + 1) rest = .ok t ∧ ids = i.toNat :: t := by
  simp only [fillIds, hi, if_false] at h
  split at h
  · cases h
  · rename_i hle
    refine ⟨by omega, ?_⟩
    split at h
    · rename_i t ht; exact ⟨t, ht, by cases h; rfl⟩
    · cases h

theorem fill_length : ∀ (req : List (Option Int)) (next : Nat) (ids : List Nat),
    fillIds next req = .ok ids → ids.length = req.length := by
  intro req
  induction req with
  | nil => intro next ids h; simp [fillIds] at h; subst h; rfl
  | cons r rest ih =>
    intro next ids h
    by_cases ha : isAuto r = true
    · obtain ⟨t, ht, rfl⟩ := fill_auto next r rest ids ha h
      simp [ih _ _ ht]
    · cases r with
      | none => simp [isAuto] at ha
      | some i =>
        have hi : ¬ i < 0 := by simpa [isAuto] using ha
        obtain ⟨_, t, ht, rfl⟩ := fill_explicit next i rest ids hi h
        simp [ih _ _ ht]

/-- every returned id is an explicit id of the request or an automatic id `≥ next` -/
theorem mem_fill : ∀ (req : List (Option Int)) (next : Nat) (ids : List Nat),
    fillIds next req = .ok ids → ∀ v ∈ ids, v ∈ explicitIds req ∨ next ≤ v := by
  intro req
  induction req with
  | nil => intro next ids h v hv; simp [fillIds] at h; subst h; simp at hv
  | cons r rest ih =>
    intro next ids h v hv
    by_cases ha : isAuto r = true
    · obtain ⟨t, ht, rfl⟩ := fill_auto next r rest ids ha h
      have hex : explicitIds (r :: rest) = explicitIds rest := by
        cases r with
        | none => rfl
        | some i =>
          have hi : i < 0 := by simpa [isAuto] using ha
          simp [explicitIds, hi]
      rw [hex]
      rcases List.mem_cons.mp hv with hv | hv
      · right; omega
      · rcases ih _ _ ht v hv with h1 | h1
        · left; exact h1
        · right; omega
    · cases r with
      | none => simp [isAuto] at ha
      | some i =>
        have hi : ¬ i < 0 := by simpa [isAuto] using ha
        obtain ⟨_, t, ht, rfl⟩ := fill_explicit next i rest ids hi h
        simp only [explicitIds, hi, if_false]
        rcases List.mem_cons.mp hv with hv | hv
        · left; simp [hv]
        · rcases ih _ _ ht v hv with h1 | h1
          · left; simp [h1]
          · right
            have : next ≤ max next i.toNat := Nat.le_max_left _ _
            omega

/-- every explicit id of the request is among the returned ids (passed through as given) -/
theorem explicit_mem_fill : ∀ (req : List (Option Int)) (next : Nat) (ids : List Nat),
    fillIds next req = .ok ids → ∀ e ∈ explicitIds req, e ∈ ids := by
  intro req
  induction req with
  | nil => intro next ids h e he; simp [explicitIds] at he
  | cons r rest ih =>
    intro next ids h e he
    by_cases ha : isAuto r = true
    · obtain ⟨t, ht, rfl⟩ := fill_auto next r rest ids ha h
      have hex : explicitIds (r :: rest) = explicitIds rest := by
        cases r with
        | none => rfl
        | some i =>
          have hi : i < 0 := by simpa [isAuto] using ha
          simp [explicitIds, hi]
      rw [hex] at he
      exact List.mem_cons_of_mem _ (ih _ _ ht e he)
    · cases r with
      | none => simp [isAuto] at ha
      | some i =>
        have hi : ¬ i < 0 := by simpa [isAuto] using ha
        obtain ⟨_, t, ht, rfl⟩ := fill_explicit next i rest ids hi h
        simp only [explicitIds, hi, if_false] at he
        rcases List.mem_cons.mp he with he | he
        · simp [he]
        · exact List.mem_cons_of_mem _ (ih _ _ ht e he)

/-! ### fill_ids_spec -/

/-- General form (any starting `next`): position by position,
    * an explicit entry is returned as given;
    * an automatic entry (None or negative) gets an id `≥ next` that is strictly greater than EVERY id
      returned at an earlier position (automatic or explicit). -/
theorem fill_go_spec : ∀ (req : List (Option Int)) (next : Nat) (ids : List Nat),
    fillIds next req = .ok ids →
    ∀ (k : Nat) (r : Option Int) (v : Nat), req[k]? = some r → ids[k]? = some v →
      (isAuto r = false → r = some (v : Int)) ∧
      (isAuto r = true → next ≤ v ∧ ∀ (j w : Nat), j < k → ids[j]? = some w → w < v) := by
  intro req
  induction req with
  | nil => intro next ids h k r v hr; simp at hr
  | cons r0 rest ih =>
    intro next ids h k r v hr hv
    -- common shape: ids = h0 :: t, tail filled from next' with h0 < next' and next < next'
    have key : ∃ h0 t next', fillIds next' rest = .ok t ∧ ids = h0 :: t ∧ h0 < next' ∧ next < next' ∧
        (isAuto r0 = false → r0 = some (h0 : Int)) ∧ (isAuto r0 = true → h0 = next) := by
      by_cases ha : isAuto r0 = true
      · obtain ⟨t, ht, e⟩ := fill_auto next r0 rest ids ha h
        exact ⟨next, t, next + 1, ht, e, by omega, by omega, by simp [ha], fun _ => rfl⟩
      · cases r0 with
        | none => simp [isAuto] at ha
        | some i =>
          have hi : ¬ i < 0 := by simpa [isAuto] using ha
          obtain ⟨_, t, ht, e⟩ := fill_explicit next i rest ids hi h
          refine ⟨i.toNat, t, max next i.toNat + 1, ht, e, ?_, ?_, ?_, ?_⟩
          · have := Nat.le_max_right next i.toNat; omega
          · have := Nat.le_max_left next i.toNat; omega
          · intro _; congr 1; omega
          · intro h'; simp [isAuto, hi] at h'
    obtain ⟨h0, t, next', ht, rfl, hlt, hnn, hex, hau⟩ := key
    cases k with
    | zero =>
      simp only [List.getElem?_cons_zero, Option.some.injEq] at hr hv
      subst hr; subst hv
      refine ⟨hex, fun ha => ⟨by rw [hau ha]; exact Nat.le_refl _, ?_⟩⟩
      intro j w hj; omega
    | succ k =>
      simp only [List.getElem?_cons_succ] at hr hv
      obtain ⟨h1, h2⟩ := ih next' t ht k r v hr hv
      refine ⟨h1, fun ha => ?_⟩
      obtain ⟨h3, h4⟩ := h2 ha
      refine ⟨by omega, ?_⟩
      intro j w hj hw
      cases j with
      | zero => simp only [List.getElem?_cons_zero, Option.some.injEq] at hw; omega
      | succ j =>
        simp only [List.getElem?_cons_succ] at hw
        exact h4 j w (by omega) hw

/-- **fill_ids_spec** (BulkAddRecord on a table holding `rows`): the result has one id per requested
    entry; explicit entries are returned as given; each automatic/negative entry gets an id that is
    greater than every existing row id and greater than every id returned earlier in the request
    (so automatic ids are strictly increasing, and above every EARLIER explicit id). -/
theorem fill_ids_spec (rows : List Nat) (req : List (Option Int)) (ids : List Nat)
    (h : fillIds (nextRowId rows) req = .ok ids) :
    ids.length = req.length ∧
    ∀ (k : Nat) (r : Option Int) (v : Nat), req[k]? = some r → ids[k]? = some v →
      (isAuto r = false → r = some (v : Int)) ∧
      (isAuto r = true →
        (∀ x ∈ rows, x < v) ∧ ∀ (j w : Nat), j < k → ids[j]? = some w → w < v) := by
  refine ⟨fill_length _ _ _ h, ?_⟩
  intro k r v hr hv
  obtain ⟨h1, h2⟩ := fill_go_spec req _ ids h k r v hr hv
  refine ⟨h1, fun ha => ?_⟩
  obtain ⟨h3, h4⟩ := h2 ha
  exact ⟨fun x hx => Nat.lt_of_lt_of_le (lt_nextRowId rows x hx) h3, h4⟩

/-- a non-trivial instance: table {2,5}, request [1, None, 3, -1] ↦ [1, 7, 3, 9] -/
example : fillIds (nextRowId [2, 5]) [some 1, none, some 3, some (-1)] = .ok [1, 7, 3, 9] := by decide

/-! ### too_high_rejected -/

/-- **too_high_rejected**: an id over 1,000,000 anywhere in the request makes the loop raise
    ValueError, whatever the table and the other entries. -/
theorem too_high_rejected : ∀ (req : List (Option Int)) (next : Nat) (i : Int),
    some i ∈ req → i > 1000000 → fillIds next req = .error "ValueError" := by
  intro req
  induction req with
  | nil => intro next i h; simp at h
  | cons r rest ih =>
    intro next i hmem hbig
    rcases List.mem_cons.mp hmem with hm | hm
    · subst hm
      have hi : ¬ i < 0 := by omega
      simp [fillIds, hi, hbig]
    · cases r with
      | none => simp only [fillIds]; rw [ih _ i hm hbig]
      | some j =>
        simp only [fillIds]
        split
        · rw [ih _ i hm hbig]
        · split
          · rfl
          · rw [ih _ i hm hbig]

example : fillIds 3 [none, some 1000001] = .error "ValueError" := by decide

/-- the only way the loop raises: some explicit id exceeds 1,000,000 (so 1,000,000 itself, 0,
    repeats, ... never raise here) -/
theorem fill_error_iff : ∀ (req : List (Option Int)) (next : Nat),
    (∃ e, fillIds next req = .error e) ↔ ∃ i, some i ∈ req ∧ i > 1000000 := by
  intro req next
  constructor
  · revert next
    induction req with
    | nil => intro next ⟨e, h⟩; simp [fillIds] at h
    | cons r rest ih =>
      intro next ⟨e, h⟩
      cases r with
      | none =>
        simp only [fillIds] at h
        split at h
        · cases h
        · rename_i e' he'
          obtain ⟨i, hi, hb⟩ := ih _ ⟨e', he'⟩
          exact ⟨i, List.mem_cons_of_mem _ hi, hb⟩
      | some j =>
        simp only [fillIds] at h
        split at h
        · split at h
          · cases h
          · rename_i e' he'
            obtain ⟨i, hi, hb⟩ := ih _ ⟨e', he'⟩
            exact ⟨i, List.mem_cons_of_mem _ hi, hb⟩
        · split at h
          · rename_i hb; exact ⟨j, by simp, hb⟩
          · split at h
            · cases h
            · rename_i e' he'
              obtain ⟨i, hi, hb⟩ := ih _ ⟨e', he'⟩
              exact ⟨i, List.mem_cons_of_mem _ hi, hb⟩
  · intro ⟨i, hi, hb⟩
    exact ⟨_, too_high_rejected req next i hi hb⟩

/-! ### distinctness -/

/-- **fill_ids_nodup_iff**: the exact condition under which the ids returned by the loop are pairwise
    distinct: the explicit ids are pairwise distinct AND none equals an automatic id handed out
    earlier in the request.  (Both directions: every other accepted request returns a repeated id.) -/
theorem fill_ids_nodup_iff : ∀ (req : List (Option Int)) (next : Nat) (ids : List Nat),
    fillIds next req = .ok ids →
    (ids.Nodup ↔ (explicitIds req).Nodup ∧ NoLateClash next req) := by
  intro req
  induction req with
  | nil => intro next ids h; simp [fillIds] at h; subst h; simp [explicitIds, NoLateClash]
  | cons r rest ih =>
    intro next ids h
    by_cases ha : isAuto r = true
    · obtain ⟨t, ht, rfl⟩ := fill_auto next r rest ids ha h
      have hex : explicitIds (r :: rest) = explicitIds rest := by
        cases r with
        | none => rfl
        | some i =>
          have hi : i < 0 := by simpa [isAuto] using ha
          simp [explicitIds, hi]
      have hcl : NoLateClash next (r :: rest) ↔ next ∉ explicitIds rest ∧ NoLateClash (next + 1) rest := by
        cases r with
        | none => simp [NoLateClash]
        | some i =>
          have hi : i < 0 := by simpa [isAuto] using ha
          simp [NoLateClash, hi]
      rw [hex, hcl, List.nodup_cons, ih _ _ ht]
      constructor
      · intro ⟨hn, hnd, hc⟩
        exact ⟨hnd, fun hm => hn (explicit_mem_fill rest _ t ht next hm), hc⟩
      · intro ⟨hnd, hn, hc⟩
        refine ⟨fun hm => ?_, hnd, hc⟩
        rcases mem_fill rest _ t ht next hm with h1 | h1
        · exact hn h1
        · omega
    · cases r with
      | none => simp [isAuto] at ha
      | some i =>
        have hi : ¬ i < 0 := by simpa [isAuto] using ha
        obtain ⟨_, t, ht, rfl⟩ := fill_explicit next i rest ids hi h
        simp only [explicitIds, NoLateClash, hi, if_false, List.nodup_cons]
        rw [ih _ _ ht]
        constructor
        · intro ⟨hn, hnd, hc⟩
          exact ⟨⟨fun hm => hn (explicit_mem_fill rest _ t ht _ hm), hnd⟩, hc⟩
        · intro ⟨⟨hn, hnd⟩, hc⟩
          refine ⟨fun hm => ?_, hnd, hc⟩
          rcases mem_fill rest _ t ht _ hm with h1 | h1
          · exact hn h1
          · have := Nat.le_max_right next i.toNat; omega

/-- both sides on concrete requests: [None, 4, -1] from 3 is clash-free and distinct; [None, 3] is neither -/
example : fillIds 3 [none, some 4, some (-1)] = .ok [3, 4, 5] ∧ NoLateClash 3 [none, some 4, some (-1)] ∧
    fillIds 3 [none, some 3] = .ok [3, 3] ∧ ¬ NoLateClash 3 [none, some 3] := by
  refine ⟨by decide, by simp [NoLateClash, explicitIds], by decide, by simp [NoLateClash, explicitIds]⟩

/-- Two simple sufficient conditions for `NoLateClash`. (1) every explicit id is below the id the
    loop starts from (filling holes below the table's maximum can never meet an automatic id). -/
theorem noLateClash_of_below : ∀ (req : List (Option Int)) (next : Nat),
    (∀ e ∈ explicitIds req, e < next) → NoLateClash next req := by
  intro req
  induction req with
  | nil => intro next _; trivial
  | cons r rest ih =>
    intro next hb
    cases r with
    | none =>
      simp only [explicitIds] at hb
      exact ⟨fun hm => by have := hb _ hm; omega, ih _ (fun e he => by have := hb e he; omega)⟩
    | some i =>
      by_cases hi : i < 0
      · simp only [explicitIds, hi, if_true] at hb
        simp only [NoLateClash, hi, if_true]
        exact ⟨fun hm => by have := hb _ hm; omega, ih _ (fun e he => by have := hb e he; omega)⟩
      · simp only [explicitIds, hi, if_false] at hb
        simp only [NoLateClash, hi, if_false]
        refine ih _ (fun e he => ?_)
        have := hb e (List.mem_cons_of_mem _ he)
        have := Nat.le_max_left next i.toNat
        omega

example : ∀ e ∈ explicitIds [none, some 1, some (-1), some 4], e < nextRowId [2, 5] := by
  simp [explicitIds, nextRowId, maxId]

/-- (2) no explicit entry comes after an automatic one. -/
theorem noLateClash_of_explicit_first : ∀ (pre : List (Option Int)) (post : List (Option Int)) (next : Nat),
    (∀ r ∈ pre, isAuto r = false) → (∀ r ∈ post, isAuto r = true) → NoLateClash next (pre ++ post) := by
  intro pre
  induction pre with
  | nil =>
    intro post
    induction post with
    | nil => intro next _ _; trivial
    | cons r rest ih =>
      intro next h1 h2
      have hrest : ∀ r ∈ rest, isAuto r = true := fun r hr => h2 r (List.mem_cons_of_mem _ hr)
      have hnone : ∀ (l : List (Option Int)), (∀ r ∈ l, isAuto r = true) → explicitIds l = [] := by
        intro l
        induction l with
        | nil => intro _; rfl
        | cons a l ihl =>
          intro hl
          have ha := hl a (by simp)
          cases a with
          | none => simpa [explicitIds] using ihl (fun r hr => hl r (List.mem_cons_of_mem _ hr))
          | some i =>
            have hi : i < 0 := by simpa [isAuto] using ha
            simpa [explicitIds, hi] using ihl (fun r hr => hl r (List.mem_cons_of_mem _ hr))
      have ha := h2 r (by simp)
      cases r with
      | none =>
        simp only [List.nil_append, NoLateClash, hnone rest hrest]
        exact ⟨by simp, by simpa using ih (next + 1) h1 hrest⟩
      | some i =>
        have hi : i < 0 := by simpa [isAuto] using ha
        simp only [List.nil_append, NoLateClash, hi, if_true, hnone rest hrest]
        exact ⟨by simp, by simpa using ih (next + 1) h1 hrest⟩
  | cons r rest ih =>
    intro post next h1 h2
    have ha := h1 r (by simp)
    cases r with
    | none => simp [isAuto] at ha
    | some i =>
      have hi : ¬ i < 0 := by simpa [isAuto] using ha
      simp only [List.cons_append, NoLateClash, hi, if_false]
      exact ih post _ (fun r hr => h1 r (List.mem_cons_of_mem _ hr)) h2

example : NoLateClash 3 ([some 7, some 3] ++ [none, some (-2)]) :=
  noLateClash_of_explicit_first [some 7, some 3] [none, some (-2)] 3 (by simp [isAuto]) (by simp [isAuto])

/-- **fill_ids_distinct_partial**: IF the explicit ids of the request are positive, pairwise distinct,
    absent from the table, and none equals an automatic id handed out earlier in the request, THEN
    the returned ids are pairwise distinct, positive and disjoint from the existing rows. -/
theorem fill_ids_distinct_partial (rows : List Nat) (req : List (Option Int)) (ids : List Nat)
    (h : fillIds (nextRowId rows) req = .ok ids)
    (hpos : ∀ e ∈ explicitIds req, 0 < e)
    (hnd : (explicitIds req).Nodup)
    (habs : ∀ e ∈ explicitIds req, e ∉ rows)
    (hclash : NoLateClash (nextRowId rows) req) :
    ids.Nodup ∧ (∀ v ∈ ids, 0 < v) ∧ (∀ v ∈ ids, v ∉ rows) := by
  refine ⟨(fill_ids_nodup_iff req _ ids h).mpr ⟨hnd, hclash⟩, ?_, ?_⟩
  · intro v hv
    rcases mem_fill req _ ids h v hv with h1 | h1
    · exact hpos v h1
    · simp only [nextRowId] at h1; omega
  · intro v hv hin
    rcases mem_fill req _ ids h v hv with h1 | h1
    · exact habs v h1 hin
    · have := lt_nextRowId rows v hin; omega

/-- hypotheses satisfiable non-trivially: table {2,5}, request [1, None, 3, -1] -/
example : (∀ e ∈ explicitIds [some 1, none, some 3, some (-1)], 0 < e) ∧
    (explicitIds [some 1, none, some 3, some (-1)]).Nodup ∧
    (∀ e ∈ explicitIds [some 1, none, some 3, some (-1)], e ∉ [2, 5]) ∧
    NoLateClash (nextRowId [2, 5]) [some 1, none, some 3, some (-1)] := by
  simp [explicitIds, NoLateClash, nextRowId, maxId]

/-
-- FULL STATEMENT (unproved): every request the code accepts returns pairwise distinct positive ids
-- that are exactly the new rows:
--   ∀ rows m req res, addRequest rows m req = .ok res →
--     res.ids.Nodup ∧ (∀ v ∈ res.ids, 0 < v ∧ v ∉ rows) ∧ (∀ v, v ∈ res.rows ↔ v ∈ rows ∨ v ∈ res.ids)
-- equivalently: a request with a repeated explicit id, an explicit id equal to an earlier automatic
-- id, or an explicit id 0 is rejected.  It is FALSE of the code; the three negations follow.
-/

/-- NEGATION 1 (repeated explicit id): `BulkAddRecord T [5,5]` on rows {1,2} is accepted, announces
    two ids, one row appears. -/
theorem repeated_explicit_accepted :
    ¬ ∀ (rows : List Nat) (m : TempMap) (req : List (Option Int)) (res : AddResult),
        addRequest rows m req = .ok res → res.ids.Nodup := by
  intro h
  have := h [1, 2] [] [some 5, some 5] { ids := [5, 5], rows := [1, 2, 5], map := [] } (by decide)
  exact absurd this (by decide)

/-- NEGATION 2 (explicit id equal to an earlier automatic id): `[None, 3, None]` on rows {1,2}
    (next id 3) is accepted and returns [3, 3, 5]. -/
theorem late_clash_accepted :
    ¬ ∀ (rows : List Nat) (m : TempMap) (req : List (Option Int)) (res : AddResult),
        addRequest rows m req = .ok res → (explicitIds req).Nodup → res.ids.Nodup := by
  intro h
  have := h [1, 2] [] [none, some 3, none] { ids := [3, 3, 5], rows := [1, 2, 3, 5], map := [] }
    (by decide) (by decide)
  exact absurd this (by decide)

/-- NEGATION 3 (explicit id 0): `AddRecord T 0` on rows {1,2} is accepted, returns 0, no row exists. -/
theorem zero_id_ghost :
    ¬ ∀ (rows : List Nat) (m : TempMap) (req : List (Option Int)) (res : AddResult),
        addRequest rows m req = .ok res → ∀ v ∈ res.ids, v ∈ res.rows := by
  intro h
  have := h [1, 2] [] [some 0] { ids := [0], rows := [1, 2], map := [] } (by decide) 0 (by decide)
  exact absurd this (by decide)

/-- the same three for ReplaceTableData -/
example : replaceRequest [] [some 3, some 3] = .ok { ids := [3, 3], rows := [3], map := [] } := by decide
example : replaceRequest [] [none, some 1] = .ok { ids := [1, 1], rows := [1], map := [] } := by decide
example : replaceRequest [] [some 0] = .ok { ids := [0], rows := [], map := [] } := by decide

/-! ### the rows that exist afterwards -/

theorem mem_addRows : ∀ (ids rows : List Nat) (v : Nat),
    v ∈ addRows rows ids ↔ v ∈ rows ∨ (v ∈ ids ∧ 0 < v) := by
  intro ids
  induction ids with
  | nil => intro rows v; simp [addRows]
  | cons r rest ih =>
    intro rows v
    simp only [addRows]
    rw [ih]
    split
    · rename_i hc
      simp only [List.mem_append, List.mem_cons, List.not_mem_nil, or_false]
      constructor
      · rintro ((h | h) | h)
        · exact Or.inl h
        · exact Or.inr ⟨Or.inl h, h ▸ hc.1⟩
        · exact Or.inr ⟨Or.inr h.1, h.2⟩
      · rintro (h | ⟨h | h, hp⟩)
        · exact Or.inl (Or.inl h)
        · exact Or.inl (Or.inr h)
        · exact Or.inr ⟨h, hp⟩
    · rename_i hc
      simp only [List.mem_cons]
      constructor
      · rintro (h | h)
        · exact Or.inl h
        · exact Or.inr ⟨Or.inr h.1, h.2⟩
      · rintro (h | ⟨h | h, hp⟩)
        · exact Or.inl h
        · subst h
          have : rows.contains v = true := by
            by_cases hcc : rows.contains v = true
            · exact hcc
            · exact absurd ⟨hp, hcc⟩ hc
          exact Or.inl (by simpa using this)
        · exact Or.inr ⟨h, hp⟩

theorem nodup_addRows : ∀ (ids rows : List Nat), rows.Nodup → (addRows rows ids).Nodup := by
  intro ids
  induction ids with
  | nil => intro rows h; simpa [addRows] using h
  | cons r rest ih =>
    intro rows h
    simp only [addRows]
    apply ih
    split
    · rename_i hc
      rw [List.nodup_append]
      refine ⟨h, by simp, ?_⟩
      intro a ha b hb
      simp only [List.mem_singleton] at hb
      subst hb
      intro hab; subst hab
      exact hc.2 (by simpa using ha)
    · exact h

/-- **existing_rejected**: an explicit id that names an existing row rejects the request
    (ValueError from the loop or AssertionError from the doc action). -/
theorem existing_rejected (rows : List Nat) (m : TempMap) (req : List (Option Int)) (e : Nat)
    (he : e ∈ explicitIds req) (hin : e ∈ rows) (hpos : 0 < e) :
    ∃ err, addRequest rows m req = .error err := by
  simp only [addRequest]
  split
  · exact ⟨_, rfl⟩
  · rename_i ids hids
    have hmem := explicit_mem_fill req _ ids hids e he
    have hany : ids.any (hasRow rows) = true := by
      rw [List.any_eq_true]
      exact ⟨e, hmem, by simp [hasRow, hpos, hin]⟩
    simp [docBulkAdd, hany]

example : addRequest [1, 2] [] [none, some 2] = .error "AssertionError" := by decide

/-- **add_exact_partial**: for an ACCEPTED BulkAddRecord on a table (duplicate-free list of rows), if the
    explicit ids are positive, pairwise distinct and none equals an earlier automatic id, then the
    returned ids are distinct, positive, not among the old rows, and the rows existing afterwards are
    exactly the old rows plus the returned ids (still duplicate-free, so exactly `ids.length` new
    rows). -/
theorem add_exact_partial (rows : List Nat) (m : TempMap) (req : List (Option Int)) (res : AddResult)
    (h : addRequest rows m req = .ok res)
    (hrnd : rows.Nodup)
    (hpos : ∀ e ∈ explicitIds req, 0 < e)
    (hnd : (explicitIds req).Nodup)
    (hclash : NoLateClash (nextRowId rows) req) :
    res.ids.Nodup ∧ (∀ v ∈ res.ids, 0 < v ∧ v ∉ rows) ∧
    (∀ v, v ∈ res.rows ↔ v ∈ rows ∨ v ∈ res.ids) ∧ res.rows.Nodup ∧
    res.rows.length = rows.length + res.ids.length := by
  simp only [addRequest] at h
  split at h
  · cases h
  · rename_i ids hids
    split at h
    · cases h
    · rename_i rows' hadd
      cases h
      simp only
      have hno : ids.any (hasRow rows) = false := by
        simp only [docBulkAdd] at hadd
        split at hadd
        · cases hadd
        · rename_i hh; simpa using hh
      have hrows' : rows' = addRows rows ids := by
        simp only [docBulkAdd] at hadd
        split at hadd
        · cases hadd
        · cases hadd; rfl
      -- acceptance by the doc action = no id names an existing row
      have habs : ∀ v ∈ ids, 0 < v → v ∉ rows := by
        intro v hv hp hin
        have : ids.any (hasRow rows) = true := by
          rw [List.any_eq_true]; exact ⟨v, hv, by simp [hasRow, hp, hin]⟩
        rw [hno] at this; cases this
      have hd := fill_ids_distinct_partial rows req ids hids hpos hnd
        (fun e he hin => habs e (explicit_mem_fill req _ ids hids e he) (hpos e he) hin) hclash
      obtain ⟨h1, h2, h3⟩ := hd
      have hmem : ∀ v, v ∈ rows' ↔ v ∈ rows ∨ v ∈ ids := by
        intro v
        rw [hrows', mem_addRows]
        constructor
        · rintro (h | h)
          · exact Or.inl h
          · exact Or.inr h.1
        · rintro (h | h)
          · exact Or.inl h
          · exact Or.inr ⟨h, h2 v h⟩
      have hnd' : rows'.Nodup := by rw [hrows']; exact nodup_addRows ids rows hrnd
      refine ⟨h1, fun v hv => ⟨h2 v hv, h3 v hv⟩, hmem, hnd', ?_⟩
      -- count: rows' is a duplicate-free list with the same members as the duplicate-free rows ++ ids
      have hnd2 : (rows ++ ids).Nodup := by
        rw [List.nodup_append]
        refine ⟨hrnd, h1, ?_⟩
        intro a ha b hb hab; subst hab
        exact h3 a hb ha
      have hperm : rows'.Perm (rows ++ ids) := by
        rw [List.perm_ext_iff_of_nodup hnd' hnd2]
        intro v; rw [hmem, List.mem_append]
      simpa using hperm.length_eq

example : addRequest [2, 5] [] [some 1, none, some 3, some (-1)]
    = .ok { ids := [1, 7, 3, 9], rows := [2, 5, 1, 7, 3, 9], map := [(-1, 9)] } := by decide

end Grist.RowIds
