import GristModel.DocSpec
namespace Grist.Doc
theorem placeholder_C03 : True := trivial
end Grist.Doc
