/-
C03  Redo after undo reproduces the post-bundle state.

A bundle of doc actions `as` is applied (`runActs`, collecting the undo actions `u`), undone by
replaying `u` reversed, and redone by re-applying the stored actions `as`: the result shows the
same as the post-bundle document.

Hypotheses as in C01 (`Normal`, `colsDistinct`, `undoExactRun`: the undo must restore the
pre-bundle document, see the counterexamples in GristProps/C01.lean); hence `_partial`.
-/
import GristProps.C01
import GristProofs.DocRedo
namespace Grist.Doc

theorem redo_after_undo_partial {as : List DocAction} {d d' : Doc} {u : List DocAction}
    (hwf : WF d) (hn : Normal d) (hargs : ∀ a ∈ as, a.rowsPositive ∧ a.colsDistinct)
    (hex : undoExactRun d as) (h : runActs d as = .ok (d', u)) :
    ∃ d'' d''', applyAll d' u.reverse = .ok d'' ∧ applyAll d'' as = .ok d''' ∧ Same d''' d' := by
  obtain ⟨d'', d''', h1, _, _, _, h2, h3⟩ := redo_after_undo_full hwf hn hargs hex h
  exact ⟨d'', d''', h1, h2, h3⟩

/-- what `runActs` computes is what applying the stored actions computes -/
theorem runActs_doc_eq_applyAll {as : List DocAction} {d d' : Doc} {u : List DocAction}
    (h : runActs d as = .ok (d', u)) : applyAll d as = .ok d' :=
  runActs_applyAll h

/-- the undone document is again well formed and normalised, and shows the same as the original
    (so the cycle undo / redo can be repeated) -/
theorem undo_then_redo_invariants {as : List DocAction} {d d' : Doc} {u : List DocAction}
    (hwf : WF d) (hn : Normal d) (hargs : ∀ a ∈ as, a.rowsPositive ∧ a.colsDistinct)
    (hex : undoExactRun d as) (h : runActs d as = .ok (d', u)) :
    ∃ d'', applyAll d' u.reverse = .ok d'' ∧ Same d'' d ∧ WF d'' ∧ Normal d'' := by
  obtain ⟨d'', _, h1, h2, h3, h4, _, _⟩ := redo_after_undo_full hwf hn hargs hex h
  exact ⟨d'', h1, h2, h3, h4⟩

/-- engine-level form: a doc-only word run from a fresh state; `st'.stored` are the actions,
    `st'.undo` the undo actions -/
theorem redo_after_undo_engine_partial {d : Doc} {steps : List (DocAction × Bool)} {st' : EState}
    (hwf : WF d) (hn : Normal d) (hargs : ∀ ab ∈ steps, ab.1.rowsPositive ∧ ab.1.colsDistinct)
    (hex : undoExactRun d (steps.map (·.1)))
    (h : stepDocs { doc := d } steps = .ok st') :
    ∃ d'' d''', applyAll st'.doc st'.undo.reverse = .ok d'' ∧ applyAll d'' st'.stored = .ok d''' ∧
      Same d''' st'.doc := by
  obtain ⟨u, hrun, hu, hs, _⟩ := stepDocs_ok h
  have hargs' : ∀ a ∈ steps.map (·.1), a.rowsPositive ∧ a.colsDistinct := by
    intro a ha
    obtain ⟨ab, hab, rfl⟩ := List.mem_map.1 ha
    exact hargs ab hab
  simp only [List.nil_append] at hu hs
  rw [hu, hs]
  exact redo_after_undo_partial hwf hn hargs' hex hrun

/-! ### the example of C01 -/

example : ∃ d' u d'' d''', runActs exDoc exActs = .ok (d', u) ∧ u.length = 6 ∧
    applyAll d' u.reverse = .ok d'' ∧ applyAll d'' exActs = .ok d''' ∧ Same d''' d' := by
  have h : runActs exDoc exActs = .ok (_, _) := rfl
  obtain ⟨d'', d''', h1, h2, h3⟩ := redo_after_undo_partial exDoc_WF exDoc_Normal exActs_args
    (undoExactRun_of_safe exActs_safe exDoc) h
  exact ⟨_, _, d'', d''', h, rfl, h1, h2, h3⟩

example : ∃ st' d'' d''', stepDocs { doc := exDoc } (exActs.map (·, true)) = .ok st' ∧
    st'.stored = exActs ∧
    applyAll st'.doc st'.undo.reverse = .ok d'' ∧ applyAll d'' st'.stored = .ok d''' ∧
    Same d''' st'.doc := by
  have h : stepDocs { doc := exDoc } (exActs.map (·, true)) = .ok _ := rfl
  have hargs : ∀ ab ∈ exActs.map (·, true), ab.1.rowsPositive ∧ ab.1.colsDistinct := by
    intro ab hab
    obtain ⟨a, ha, rfl⟩ := List.mem_map.1 hab
    exact exActs_args a ha
  have hex : undoExactRun exDoc ((exActs.map (·, true)).map (·.1)) := by
    apply undoExactRun_of_safe
    intro a ha
    simp only [List.map_map, List.mem_map, Function.comp_apply] at ha
    obtain ⟨b, hb, rfl⟩ := ha
    exact exActs_safe b hb
  obtain ⟨d'', d''', h1, h2, h3⟩ := redo_after_undo_engine_partial exDoc_WF exDoc_Normal hargs hex h
  exact ⟨_, d'', d''', h, rfl, h1, h2, h3⟩

end Grist.Doc
