/-
C39  RenameChoices renames exactly the mapped choices.
Property theorems.  Model: GristModel/Choices.lean (useractions.RenameChoices,
column.ChoiceColumn.rename_choices, ChoiceListColumn._rename_cell_choice, the trimming and the
row assertion of the BulkUpdateRecord it issues, and the rewrite of the column's saved filters).
-/
import GristModel.Choices
namespace Grist.Choices

deriving instance DecidableEq for Except

/-! ## The property's own reading (independent of the model's code path) -/

/-- image of one choice under the SIMULTANEOUS rename: looked up once in the original map -/
def image (m : Renames) (c : Str) : Str :=
  match m.lookup c with
  | some t => t
  | none => c

/-- what a cell must hold afterwards: a Choice cell equal to a key becomes its image, every element
    of a ChoiceList cell likewise; anything else (None, alt-text, wrong-type values) is unchanged -/
def specCell : Kind → Renames → Val → Val
  | .choice, m, .str s => .str (image m s)
  | .choiceList, m, .strs l => .strs (l.map (image m))
  | _, _, v => v

/-- `DocActions.BulkUpdateRecord`: `for (row_id, value) in zip(row_ids, values): col.set(row_id, value)` -/
def applyUpd (data : List Val) (upd : List (Nat × Val)) : List Val :=
  upd.foldl (fun d p => d.set p.1 p.2) data

def specElem (m : Renames) : Elem → Elem
  | .str s => .str (image m s)
  | e => e

def specFVal (m : Renames) : FVal → FVal
  | .arr l => .arr (l.map (specElem m))
  | v => v

/-- a filter in the documented shape: every key (`included` / `excluded`) holds an array -/
def ListFilter (kvs : List (Str × FVal)) : Prop := ∀ p ∈ kvs, ∃ l, p.2 = FVal.arr l

/-- the text of a filter record after the `_grist_Filters` update (parsed) -/
def filterAfter (fu : List (Nat × FJ)) (r : FilterRec) : FText :=
  match fu.lookup r.id with
  | some nj => .json nj
  | none => r.filter

/-- slots that are not rows of the table hold the column default (slot 0 = the empty record,
    slots of removed rows are reset by `unset`) -/
def SlotsWF (k : Kind) (data : List Val) (live : List Nat) : Prop :=
  ∀ i x, data[i]? = some x → i ∉ live → x = dflt k

/-! ## helper lemmas -/

theorem rn_eq_image (m : Renames) (c : Str) : rn m c = image m c := by
  unfold rn image; cases m.lookup c <;> rfl

theorem specCell_of_some {k : Kind} {m : Renames} {x v : Val} (h : renameCell k m x = some v) :
    specCell k m x = v := by
  cases k <;> cases x <;> simp [renameCell] at h
  · rename_i s
    obtain ⟨t, ht, rfl⟩ := h
    simp [specCell, image, ht]
  · rename_i l
    simp [specCell, ← h.2, rn_eq_image]

theorem specCell_of_none {k : Kind} {m : Renames} {x : Val} (h : renameCell k m x = none) :
    specCell k m x = x := by
  cases k <;> cases x <;> simp only [renameCell, Option.map_eq_none_iff] at h <;>
    simp only [specCell]
  · simp [image, h]
  · rename_i l
    split at h
    · cases h
    · rename_i hany
      have : ∀ c ∈ l, image m c = c := by
        intro c hc
        cases hl : m.lookup c with
        | none => simp [image, hl]
        | some t => exact absurd (List.any_eq_true.2 ⟨c, hc, by simp [hl]⟩) hany
      congr 1
      calc l.map (image m) = l.map id := List.map_congr_left this
        _ = l := by simp

theorem mem_renameFrom (k : Kind) (m : Renames) : ∀ (data : List Val) (s i : Nat) (v : Val),
    (i, v) ∈ renameFrom k m s data ↔
      ∃ j x, i = s + j ∧ data[j]? = some x ∧ renameCell k m x = some v := by
  intro data
  induction data with
  | nil => intro s i v; simp [renameFrom]
  | cons d rest ih =>
    intro s i v
    have key : (i, v) ∈ renameFrom k m (s + 1) rest ↔
        ∃ j x, i = s + (j + 1) ∧ rest[j]? = some x ∧ renameCell k m x = some v := by
      rw [ih]
      constructor <;> rintro ⟨j, x, h1, h2, h3⟩ <;> exact ⟨j, x, by omega, h2, h3⟩
    unfold renameFrom
    cases hd : renameCell k m d with
    | none =>
      simp only [key]
      constructor
      · rintro ⟨j, x, h1, h2, h3⟩; exact ⟨j + 1, x, h1, by simpa using h2, h3⟩
      · rintro ⟨j, x, h1, h2, h3⟩
        cases j with
        | zero => simp at h2; subst h2; rw [hd] at h3; cases h3
        | succ j => exact ⟨j, x, h1, by simpa using h2, h3⟩
    | some nv =>
      simp only [List.mem_cons, key]
      constructor
      · rintro (h | ⟨j, x, h1, h2, h3⟩)
        · cases h; exact ⟨0, d, by simp, by simp, hd⟩
        · exact ⟨j + 1, x, h1, by simpa using h2, h3⟩
      · rintro ⟨j, x, h1, h2, h3⟩
        cases j with
        | zero =>
          simp at h2; subst h2; rw [hd] at h3; cases h3
          left; simp at h1; simp [h1]
        | succ j => right; exact ⟨j, x, h1, by simpa using h2, h3⟩

theorem renameFrom_pairwise (k : Kind) (m : Renames) : ∀ (data : List Val) (s : Nat),
    (renameFrom k m s data).Pairwise (fun a b => a.1 < b.1) := by
  intro data
  induction data with
  | nil => intro s; simp [renameFrom]
  | cons d rest ih =>
    intro s
    unfold renameFrom
    cases hd : renameCell k m d with
    | none => exact ih (s + 1)
    | some nv =>
      refine List.Pairwise.cons ?_ (ih (s + 1))
      rintro ⟨i, v⟩ hp
      obtain ⟨j, x, h1, _, _⟩ := (mem_renameFrom k m rest (s + 1) i v).1 hp
      show s < i
      omega

/-- exactly the slots whose renamed value differs are in the trimmed update -/
theorem mem_trim (k : Kind) (m : Renames) (data : List Val) (i : Nat) (v : Val) :
    (i, v) ∈ trim data (renameFrom k m 0 data) ↔
      ∃ x, data[i]? = some x ∧ renameCell k m x = some v ∧ x ≠ v := by
  unfold trim
  rw [List.mem_filter, mem_renameFrom]
  constructor
  · rintro ⟨⟨j, x, h1, h2, h3⟩, h4⟩
    have : i = j := by omega
    subst this
    refine ⟨x, h2, h3, ?_⟩
    simpa [h2] using h4
  · rintro ⟨x, h2, h3, h4⟩
    exact ⟨⟨i, x, by omega, h2, h3⟩, by simpa [h2] using h4⟩

theorem trim_pairwise (k : Kind) (m : Renames) (data : List Val) :
    (trim data (renameFrom k m 0 data)).Pairwise (fun a b => a.1 < b.1) :=
  (renameFrom_pairwise k m data 0).filter _

theorem applyUpd_not_mem : ∀ (upd : List (Nat × Val)) (data : List Val) (i : Nat),
    (∀ p ∈ upd, p.1 ≠ i) → (applyUpd data upd)[i]? = data[i]? := by
  intro upd
  induction upd with
  | nil => intro data i _; rfl
  | cons p rest ih =>
    intro data i h
    have h1 : p.1 ≠ i := h p (by simp)
    have := ih (data.set p.1 p.2) i (fun q hq => h q (by simp [hq]))
    simp only [applyUpd, List.foldl_cons] at this ⊢
    rw [this, List.getElem?_set_ne h1]

theorem applyUpd_mem : ∀ (upd : List (Nat × Val)) (data : List Val) (i : Nat) (v : Val),
    upd.Pairwise (fun a b => a.1 < b.1) → (i, v) ∈ upd → i < data.length →
    (applyUpd data upd)[i]? = some v := by
  intro upd
  induction upd with
  | nil => intro data i v _ h; cases h
  | cons p rest ih =>
    intro data i v hp hm hi
    rw [List.pairwise_cons] at hp
    simp only [applyUpd, List.foldl_cons]
    rcases List.mem_cons.1 hm with h | h
    · subst h
      have := applyUpd_not_mem rest (data.set i v) i (fun q hq => by have := hp.1 q hq; simp at this; omega)
      simp only [applyUpd] at this
      rw [this]; simp [hi]
    · exact ih (data.set p.1 p.2) i v hp.2 h (by simpa using hi)

/-- the column after the update = the property's reading applied to every slot -/
theorem applyUpd_trim (k : Kind) (m : Renames) (data : List Val) :
    applyUpd data (trim data (renameFrom k m 0 data)) = data.map (specCell k m) := by
  apply List.ext_getElem?
  intro i
  rw [List.getElem?_map]
  cases hx : data[i]? with
  | none =>
    rw [applyUpd_not_mem _ _ _ (fun p hp hpi => by
      obtain ⟨x, h1, _⟩ := (mem_trim k m data p.1 p.2).1 hp
      rw [hpi, hx] at h1; cases h1)]
    simp [hx]
  | some x =>
    have hi : i < data.length := (List.getElem?_eq_some_iff.1 hx).1
    simp only [Option.map_some]
    cases hr : renameCell k m x with
    | none =>
      rw [applyUpd_not_mem _ _ _ (fun p hp hpi => by
        obtain ⟨x', h1, h2, _⟩ := (mem_trim k m data p.1 p.2).1 hp
        rw [hpi, hx] at h1; cases h1; rw [hr] at h2; cases h2)]
      rw [hx, specCell_of_none hr]
    | some v =>
      rw [specCell_of_some hr]
      by_cases hxv : x = v
      · rw [applyUpd_not_mem _ _ _ (fun p hp hpi => by
          obtain ⟨x', h1, h2, h3⟩ := (mem_trim k m data p.1 p.2).1 hp
          rw [hpi, hx] at h1; cases h1; rw [hr] at h2; cases h2; exact h3 hxv)]
        rw [hx, hxv]
      · exact applyUpd_mem _ _ _ _ (trim_pairwise k m data)
          ((mem_trim k m data i v).2 ⟨x, hx, hr, hxv⟩) hi

theorem cellUpdates_ok {k : Kind} {f : Bool} {m : Renames} {data : List Val} {live : List Nat}
    {upd : List (Nat × Val)} (h : cellUpdates k f m data live = .ok upd) :
    (f = true ∧ upd = []) ∨
    (f = false ∧ k ≠ .other ∧ upd = trim data (renameFrom k m 0 data) ∧ ∀ p ∈ upd, p.1 ∈ live) := by
  unfold cellUpdates at h
  split at h
  · left; rename_i hf; cases h; exact ⟨hf, rfl⟩
  · rename_i hf
    split at h
    · cases h
    · rename_i hk
      simp only at h
      split at h
      · rename_i hall
        cases h
        right
        refine ⟨by simpa using hf, hk, rfl, ?_⟩
        intro p hp
        have := List.all_eq_true.1 hall p hp
        simpa using this
      · cases h

theorem renameChoices_ok {x : Input} {r : Result} (h : renameChoices x = .ok r) :
    cellUpdates x.kind x.isFormula x.renames x.data x.live = .ok r.cells ∧
    filterUpdates x.renames x.colRef x.filters = .ok r.filters := by
  unfold renameChoices at h
  split at h
  · cases h
  · rename_i cu hcu
    split at h
    · cases h
    · rename_i fu hfu
      cases h
      exact ⟨hcu, hfu⟩

/-! ## C39, cells -/

/-- **C39 (cells).** Whenever RenameChoices on a data column succeeds, the column's slot array after
    the emitted update equals the property's reading applied to every slot: each Choice cell equal
    to a key holds its image, each element of each ChoiceList cell likewise — simultaneously, the
    map being consulted once per original value — and every other cell is what it was. -/
theorem rename_cells_exact (x : Input) (r : Result) (h : renameChoices x = .ok r)
    (hf : x.isFormula = false) :
    applyUpd x.data r.cells = x.data.map (specCell x.kind x.renames) := by
  rcases cellUpdates_ok (renameChoices_ok h).1 with ⟨h1, _⟩ | ⟨_, _, h3, _⟩
  · rw [hf] at h1; cases h1
  · rw [h3]; exact applyUpd_trim _ _ _

example : renameChoices ⟨.choice, false, [(['a'], ['b']), (['b'], ['c'])],
      [.str [], .str ['a'], .str ['b'], .none, .str ['x']], [1, 2, 3, 4], 2, []⟩
    = .ok ⟨[(1, .str ['b']), (2, .str ['c'])], []⟩ := by decide

/-- the clauses of `rename_cells_exact` one by one, for a row `i` -/
theorem rename_cells_clauses (x : Input) (r : Result) (h : renameChoices x = .ok r)
    (hf : x.isFormula = false) (i : Nat) :
    -- a Choice cell equal to a key becomes the key's image
    (∀ s t, x.kind = .choice → x.data[i]? = some (.str s) → x.renames.lookup s = some t →
        (applyUpd x.data r.cells)[i]? = some (.str t)) ∧
    -- a Choice cell that is not a key is unchanged
    (∀ s, x.kind = .choice → x.data[i]? = some (.str s) → x.renames.lookup s = none →
        (applyUpd x.data r.cells)[i]? = some (.str s)) ∧
    -- a ChoiceList cell: same length, every element replaced by its image (itself if not a key)
    (∀ l : List Str, x.kind = .choiceList → x.data[i]? = some (.strs l) →
        ∃ l' : List Str, (applyUpd x.data r.cells)[i]? = some (.strs l') ∧ l'.length = l.length ∧
          ∀ (j : Nat) (c : Str), l[j]? = some c →
            l'[j]? = some (match x.renames.lookup c with | some t => t | none => c)) ∧
    -- None, alt-text and wrong-type values are unchanged
    (∀ v, (x.kind = .choice → ∀ s, v ≠ .str s) → (x.kind = .choiceList → ∀ l, v ≠ .strs l) →
        x.data[i]? = some v → (applyUpd x.data r.cells)[i]? = some v) := by
  rw [rename_cells_exact x r h hf]
  refine ⟨?_, ?_, ?_, ?_⟩
  · intro s t hk hd hl
    simp [hd, hk, specCell, image, hl]
  · intro s hk hd hl
    simp [hd, hk, specCell, image, hl]
  · intro l hk hd
    refine ⟨l.map (image x.renames), by simp [hd, hk, specCell], by simp, ?_⟩
    intro j c hj
    simp [hj, image]
  · intro v h1 h2 hd
    simp only [List.getElem?_map, hd, Option.map_some]
    congr 1
    cases hk : x.kind with
    | choice => cases v <;> simp [specCell]; exact absurd rfl (h1 hk _)
    | choiceList => cases v <;> simp [specCell]; exact absurd rfl (h2 hk _)
    | other => cases v <;> simp [specCell]

/-- **C39 (swap).** With the map `{a: b, b: a}` the two choices are exchanged (nothing is renamed
    twice): in a Choice column `a` cells hold `b` and `b` cells hold `a`; in a ChoiceList column
    every element `a` is `b` and every `b` is `a`; all other cells and elements are unchanged. -/
theorem rename_swap (x : Input) (r : Result) (a b : Str) (hab : a ≠ b)
    (hm : x.renames = [(a, b), (b, a)]) (h : renameChoices x = .ok r) (hf : x.isFormula = false) :
    let sw : Str → Str := fun c => if c = a then b else if c = b then a else c
    applyUpd x.data r.cells = x.data.map (fun v =>
      match x.kind, v with
      | .choice, .str s => .str (sw s)
      | .choiceList, .strs l => .strs (l.map sw)
      | _, v => v) := by
  intro sw
  rw [rename_cells_exact x r h hf]
  apply List.map_congr_left
  intro v _
  have him : ∀ c, image x.renames c = sw c := by
    intro c
    simp only [image, hm, List.lookup_cons, List.lookup_nil, sw]
    by_cases h1 : c = a
    · subst h1; simp
    · have e1 : (c == a) = false := beq_eq_false_iff_ne.2 h1
      by_cases h2 : c = b
      · subst h2; simp [h1, e1]
      · have e2 : (c == b) = false := beq_eq_false_iff_ne.2 h2
        simp [h1, h2, e1, e2]
  cases hk : x.kind <;> cases v <;> simp [specCell, him]

example : renameChoices ⟨.choiceList, false, [(['a'], ['b']), (['b'], ['a'])],
      [.none, .strs [['a'], ['b'], ['c']], .str ['a']], [1, 2], 2, []⟩
    = .ok ⟨[(1, .strs [['b'], ['a'], ['c']])], []⟩ := by decide

/-- **C39 (frame, cells).** The emitted update names only rows of the table, each at most once (in
    increasing order), and only rows whose value really changes; a formula column gets no cell
    update at all. -/
theorem rename_frame (x : Input) (r : Result) (h : renameChoices x = .ok r) :
    (x.isFormula = true → r.cells = []) ∧
    r.cells.Pairwise (fun p q => p.1 < q.1) ∧
    (∀ p ∈ r.cells, p.1 ∈ x.live ∧
        ∃ old, x.data[p.1]? = some old ∧ old ≠ p.2 ∧ p.2 = specCell x.kind x.renames old) := by
  rcases cellUpdates_ok (renameChoices_ok h).1 with ⟨h1, h2⟩ | ⟨h1, _, h3, h4⟩
  · rw [h2]; simp
  · refine ⟨by rw [h1]; simp, by rw [h3]; exact trim_pairwise _ _ _, ?_⟩
    intro p hp
    refine ⟨h4 p hp, ?_⟩
    rw [h3] at hp
    obtain ⟨old, g1, g2, g3⟩ := (mem_trim _ _ _ p.1 p.2).1 hp
    exact ⟨old, g1, g3, (specCell_of_some g2).symm⟩

example : renameChoices ⟨.choice, true, [(['a'], ['b'])], [.str [], .str ['a']], [1], 2,
      [⟨1, 2, .json (.obj [(['i'], .arr [.str ['a']])])⟩]⟩
    = .ok ⟨[], [(1, .obj [(['i'], .arr [.str ['b']])])]⟩ := by decide

/-! ## C39, saved filters -/

theorem renameElem_eq_spec (m : Renames) (e : Elem) : renameElem m e = specElem m e := by
  cases e <;> simp [renameElem, specElem, rn_eq_image]

theorem renameKvs_listFilter (m : Renames) : ∀ (kvs : List (Str × FVal)), ListFilter kvs →
    renameKvs m kvs = .ok (kvs.map (fun p => (p.1, specFVal m p.2))) := by
  intro kvs
  induction kvs with
  | nil => intro _; rfl
  | cons p rest ih =>
    intro h
    obtain ⟨k, v⟩ := p
    obtain ⟨l, hl⟩ := h (k, v) (by simp)
    simp only at hl
    subst hl
    have ih' := ih (fun q hq => h q (by simp [hq]))
    simp only [renameKvs, iterate, ih', List.map_cons, specFVal]
    have : l.map (renameElem m) = l.map (specElem m) :=
      List.map_congr_left (fun e _ => renameElem_eq_spec m e)
    rw [this]

/-- every emitted filter update comes from a record of this column whose parsed filter changes -/
theorem mem_filterUpdates (m : Renames) (c : Nat) : ∀ (recs : List FilterRec) (fu : List (Nat × FJ)),
    filterUpdates m c recs = .ok fu → ∀ p ∈ fu,
      ∃ r ∈ recs, r.id = p.1 ∧ r.colRef = c ∧
        ∃ j, r.filter = .json j ∧ renameFilter m j = .ok p.2 ∧ j ≠ p.2 := by
  intro recs
  induction recs with
  | nil => intro fu h p hp; simp [filterUpdates] at h; subst h; cases hp
  | cons r rest ih =>
    intro fu h p hp
    unfold filterUpdates at h
    split at h
    · obtain ⟨r', hr', g⟩ := ih fu h p hp
      exact ⟨r', by simp [hr'], g⟩
    · rename_i hc
      have hc' : r.colRef = c := by simpa using hc
      split at h
      · obtain ⟨r', hr', g⟩ := ih fu h p hp
        exact ⟨r', by simp [hr'], g⟩
      · cases h
      · rename_i j hj
        split at h
        · cases h
        · rename_i nj hnj
          split at h
          · cases h
          · rename_i us hus
            cases h
            by_cases hne : j = nj
            · simp only [hne, bne_self_eq_false, Bool.false_eq_true, ↓reduceIte] at hp
              obtain ⟨r', hr', g⟩ := ih us hus p hp
              exact ⟨r', by simp [hr'], g⟩
            · have : (j != nj) = true := by simpa using hne
              simp only [this, ↓reduceIte, List.mem_cons] at hp
              rcases hp with hp | hp
              · subst hp
                exact ⟨r, by simp, rfl, hc', j, hj, hnj, hne⟩
              · obtain ⟨r', hr', g⟩ := ih us hus p hp
                exact ⟨r', by simp [hr'], g⟩

/-- what the update list says about one record (record ids distinct) -/
theorem filterUpdates_lookup (m : Renames) (c : Nat) : ∀ (recs : List FilterRec) (fu : List (Nat × FJ)),
    recs.Pairwise (fun a b => a.id ≠ b.id) → filterUpdates m c recs = .ok fu →
    ∀ r ∈ recs,
      (r.colRef ≠ c → fu.lookup r.id = none) ∧
      (r.filter = .empty → fu.lookup r.id = none) ∧
      (∀ j, r.colRef = c → r.filter = .json j →
        ∃ nj, renameFilter m j = .ok nj ∧ fu.lookup r.id = if j = nj then none else some nj) := by
  intro recs
  induction recs with
  | nil => intro fu _ _ r hr; cases hr
  | cons r0 rest ih =>
    intro fu hpw h r hr
    rw [List.pairwise_cons] at hpw
    -- updates of the tail never carry the head's id
    have tail_none : ∀ us, filterUpdates m c rest = .ok us → us.lookup r0.id = none := by
      intro us hus
      rw [List.lookup_eq_none_iff]
      intro p hp
      obtain ⟨r', hr', hid, _⟩ := mem_filterUpdates m c rest us hus p hp
      have := hpw.1 r' hr'
      simp; intro hh; exact this (by rw [hid, hh])
    unfold filterUpdates at h
    rcases List.mem_cons.1 hr with hr | hr
    · -- the head record
      subst hr
      split at h
      · rename_i hc
        have hc' : r.colRef ≠ c := by simpa using hc
        have tn := tail_none fu h
        exact ⟨fun _ => tn, fun _ => tn, fun j hcj _ => absurd hcj hc'⟩
      · rename_i hc
        have hc' : r.colRef = c := by simpa using hc
        split at h
        · rename_i he
          have tn := tail_none fu h
          refine ⟨fun hn => absurd hc' hn, fun _ => tn, fun j _ hj => ?_⟩
          rw [he] at hj; cases hj
        · cases h
        · rename_i j hj
          split at h
          · cases h
          · rename_i nj hnj
            split at h
            · cases h
            · rename_i us hus
              cases h
              have tn := tail_none us hus
              refine ⟨fun hn => absurd hc' hn, fun he => ?_, fun j' _ hj' => ?_⟩
              · rw [he] at hj; cases hj
              · rw [hj] at hj'; cases hj'
                refine ⟨nj, hnj, ?_⟩
                by_cases hne : j = nj
                · simp [hne, tn]
                · have : (j != nj) = true := by simpa using hne
                  simp [this, hne]
    · -- a record of the tail: the head's entry (if any) has a different id
      have hne : r0.id ≠ r.id := hpw.1 r hr
      have skip : ∀ (us : List (Nat × FJ)) (nj : FJ), ((r0.id, nj) :: us).lookup r.id = us.lookup r.id := by
        intro us nj
        have : (r.id == r0.id) = false := beq_eq_false_iff_ne.2 (Ne.symm hne)
        simp [List.lookup_cons, this]
      split at h
      · exact ih fu hpw.2 h r hr
      · split at h
        · exact ih fu hpw.2 h r hr
        · cases h
        · rename_i j hj
          split at h
          · cases h
          · rename_i nj hnj
            split at h
            · cases h
            · rename_i us hus
              cases h
              have := ih us hpw.2 hus r hr
              by_cases hb : (j != nj) = true
              · simp only [hb, ↓reduceIte, skip]; exact this
              · simp only [hb]; exact this

/-- **C39 (filters).** Whenever RenameChoices succeeds: every saved filter of the column that has the
    documented shape (`included` / `excluded` → array) afterwards holds, under the same keys in the
    same order, arrays of the same length whose string entries are replaced by their images
    (simultaneously) and whose non-string entries are unchanged; a record is rewritten only if
    its parsed filter changes. -/
theorem rename_filters_exact (x : Input) (r : Result) (h : renameChoices x = .ok r)
    (hids : x.filters.Pairwise (fun a b => a.id ≠ b.id))
    (rec : FilterRec) (hrec : rec ∈ x.filters) (hc : rec.colRef = x.colRef)
    (kvs : List (Str × FVal)) (hf : rec.filter = .json (.obj kvs)) (hl : ListFilter kvs) :
    filterAfter r.filters rec
      = .json (.obj (kvs.map (fun p => (p.1, specFVal x.renames p.2)))) ∧
    (r.filters.lookup rec.id ≠ none →
      kvs.map (fun p => (p.1, specFVal x.renames p.2)) ≠ kvs) := by
  have h2 := (renameChoices_ok h).2
  obtain ⟨nj, hnj, hlk⟩ := (filterUpdates_lookup _ _ _ _ hids h2 rec hrec).2.2 _ hc hf
  simp only [renameFilter, renameKvs_listFilter _ kvs hl, Except.map] at hnj
  cases hnj
  constructor
  · unfold filterAfter
    rw [hlk, hf]
    split <;> rename_i heq
    · split at heq
      · cases heq
      · cases heq; rfl
    · split at heq
      · rename_i e; rw [← e]
      · cases heq
  · intro hne hsame
    rw [hlk] at hne
    simp [hsame] at hne

example : renameChoices ⟨.choice, false, [(['a'], ['b']), (['b'], ['a'])], [.str []], [], 7,
      [⟨1, 7, .json (.obj [(['i','n'], .arr [.str ['a'], .other ['1'], .str ['b'], .str ['c']])])⟩,
       ⟨2, 8, .json (.obj [(['i','n'], .arr [.str ['a']])])⟩,
       ⟨3, 7, .json (.obj [(['e','x'], .arr [.str ['c']])])⟩]⟩
    = .ok ⟨[], [(1, .obj [(['i','n'], .arr [.str ['b'], .other ['1'], .str ['a'], .str ['c']])])]⟩ := by
  decide

/-- **C39 (frame, filters).** Filters of other columns, and empty filters, are never rewritten;
    every rewritten record belongs to the column and its parsed filter really changes. -/
theorem rename_filters_frame (x : Input) (r : Result) (h : renameChoices x = .ok r)
    (hids : x.filters.Pairwise (fun a b => a.id ≠ b.id)) :
    (∀ rec ∈ x.filters, rec.colRef ≠ x.colRef ∨ rec.filter = .empty →
        filterAfter r.filters rec = rec.filter) ∧
    (∀ p ∈ r.filters, ∃ rec ∈ x.filters, rec.id = p.1 ∧ rec.colRef = x.colRef ∧
        ∃ j, rec.filter = .json j ∧ j ≠ p.2) := by
  have h2 := (renameChoices_ok h).2
  constructor
  · intro rec hrec hor
    have := filterUpdates_lookup _ _ _ _ hids h2 rec hrec
    unfold filterAfter
    rcases hor with g | g
    · rw [this.1 g]
    · rw [this.2.1 g]
  · intro p hp
    obtain ⟨rec, hrec, g1, g2, j, g3, _, g4⟩ := mem_filterUpdates _ _ _ _ h2 p hp
    exact ⟨rec, hrec, g1, g2, j, g3, g4⟩

example : renameChoices ⟨.choiceList, false, [(['a'], ['b'])], [.none, .strs [['a']]], [1], 7,
      [⟨1, 8, .json (.obj [(['i','n'], .arr [.str ['a']])])⟩, ⟨2, 7, .empty⟩,
       ⟨3, 7, .json (.obj [(['i','n'], .arr [.str ['c'], .other ['n','u','l','l']])])⟩]⟩
    = .ok ⟨[(1, .strs [['b']])], []⟩ := by decide

/-! ## C39, "with any mapping": when does the action go through at all? -/

theorem filterUpdates_total (m : Renames) (c : Nat) : ∀ (recs : List FilterRec),
    (∀ r ∈ recs, r.colRef = c → r.filter = .empty ∨ ∃ kvs, r.filter = .json (.obj kvs) ∧ ListFilter kvs) →
    ∃ fu, filterUpdates m c recs = .ok fu := by
  intro recs
  induction recs with
  | nil => intro _; exact ⟨[], rfl⟩
  | cons r rest ih =>
    intro h
    obtain ⟨us, hus⟩ := ih (fun q hq => h q (by simp [hq]))
    unfold filterUpdates
    split
    · exact ⟨us, hus⟩
    · rename_i hc
      have hc' : r.colRef = c := by simpa using hc
      rcases h r (by simp) hc' with he | ⟨kvs, hk, hl⟩
      · rw [he]; exact ⟨us, hus⟩
      · rw [hk]
        simp only [renameFilter, renameKvs_listFilter m kvs hl, Except.map, hus]
        exact ⟨_, rfl⟩

/-- **C39 (totality, PARTIAL).** On a Choice / ChoiceList data column whose unused slots hold the
    default, with all of the column's saved filters empty or of the documented list shape,
    RenameChoices succeeds for every map that does not rename the empty string to something else
    (ChoiceList columns and formula columns: for every map). -/
theorem rename_total_partial (x : Input)
    (hk : x.kind ≠ .other ∨ x.isFormula = true)
    (hwf : SlotsWF x.kind x.data x.live)
    (hkey : x.kind = .choiceList ∨ x.isFormula = true ∨
            x.renames.lookup [] = none ∨ x.renames.lookup [] = some [])
    (hfil : ∀ r ∈ x.filters, r.colRef = x.colRef →
        r.filter = .empty ∨ ∃ kvs, r.filter = .json (.obj kvs) ∧ ListFilter kvs) :
    ∃ r, renameChoices x = .ok r := by
  obtain ⟨fu, hfu⟩ := filterUpdates_total x.renames x.colRef x.filters hfil
  have hcu : ∃ cu, cellUpdates x.kind x.isFormula x.renames x.data x.live = .ok cu := by
    unfold cellUpdates
    by_cases hf : x.isFormula = true
    · simp [hf]
    · have hk' : x.kind ≠ .other := by rcases hk with g | g; exact g; exact absurd g hf
      simp only [hf, Bool.false_eq_true, ↓reduceIte, hk']
      have hall : (trim x.data (renameFrom x.kind x.renames 0 x.data)).all
          (fun p => x.live.contains p.1) = true := by
        rw [List.all_eq_true]
        rintro ⟨i, v⟩ hp
        obtain ⟨old, g1, g2, g3⟩ := (mem_trim _ _ _ i v).1 hp
        by_cases hlive : i ∈ x.live
        · simpa using hlive
        · exfalso
          have hd := hwf i old g1 hlive
          subst hd
          cases hkind : x.kind with
          | other => exact hk' hkind
          | choiceList => rw [hkind] at g2; simp [dflt, renameCell] at g2
          | choice =>
            rw [hkind] at g2 g3
            simp only [dflt, renameCell, Option.map_eq_some_iff] at g2
            obtain ⟨t, ht, rfl⟩ := g2
            rcases hkey with g | g | g | g
            · rw [hkind] at g; cases g
            · exact hf g
            · rw [g] at ht; cases ht
            · rw [g] at ht; cases ht; exact g3 rfl
      split
      · exact ⟨_, rfl⟩
      · rename_i hn; exact absurd hall hn
  obtain ⟨cu, hcu⟩ := hcu
  exact ⟨⟨cu, fu⟩, by simp [renameChoices, hcu, hfu]⟩

example : SlotsWF .choice [.str [], .str ['a'], .str [], .str ['b']] [1, 3] := by
  intro i x h hl
  match i, h with
  | 0, h => simp at h; simp [← h, dflt]
  | 1, h => simp at hl
  | 2, h => simp at h; simp [← h, dflt]
  | 3, h => simp at hl
  | n + 4, h => simp at h

-- FULL STATEMENT (unproved, and false of the code as it is):
--   theorem rename_total (x : Input) (hk : x.kind ≠ .other ∨ x.isFormula = true)
--       (hwf : SlotsWF x.kind x.data x.live) (hjson : no saved filter of the column is invalid JSON
--        or a non-object) : ∃ r, renameChoices x = .ok r
-- i.e. "RenameChoices with ANY mapping renames …".  Two families of counterexamples:

/-- **Finding 1 (general form).** On a Choice data column, EVERY map that renames the empty string to
    a different name fails with the row assertion, whatever the table holds: `rename_choices`
    enumerates slot 0 of `_data` (the empty record, which holds the default `''`). -/
theorem rename_empty_key_fails (x : Input) (rest : List Val) (z : Str)
    (hk : x.kind = .choice) (hf : x.isFormula = false) (hd : x.data = .str [] :: rest)
    (h0 : 0 ∉ x.live) (hz : x.renames.lookup [] = some z) (hne : z ≠ []) :
    renameChoices x = .error .assertion := by
  have hm : (0, Val.str z) ∈ trim x.data (renameFrom x.kind x.renames 0 x.data) := by
    rw [mem_trim]
    refine ⟨.str [], by simp [hd], by simp [hk, renameCell, hz], ?_⟩
    intro h; cases h; exact hne rfl
  have : cellUpdates x.kind x.isFormula x.renames x.data x.live = .error .assertion := by
    unfold cellUpdates
    simp only [hf, Bool.false_eq_true, ↓reduceIte, hk]
    have : ¬ (trim x.data (renameFrom .choice x.renames 0 x.data)).all
        (fun p => x.live.contains p.1) = true := by
      intro hall
      have := List.all_eq_true.1 hall _ (hk ▸ hm)
      simp at this
      exact h0 this
    rw [if_neg (by simp), if_neg this]
  simp [renameChoices, this]

/-- negation of the full statement, witness 1: `RenameChoices(T, A, {'': 'z'})`, one row holding 'a' -/
example : ¬ ∃ r, renameChoices ⟨.choice, false, [([], ['z'])], [.str [], .str ['a']], [1], 2, []⟩ = .ok r := by
  rw [rename_empty_key_fails _ [.str ['a']] ['z'] rfl rfl rfl (by decide) rfl (by decide)]
  rintro ⟨r, h⟩; cases h

/-- **Finding 2 (general form).** If the column has a saved filter one of whose keys holds a JSON
    scalar (a range filter `{"min": 1}`), RenameChoices fails for EVERY map (TypeError: the
    value is iterated), so no cell is renamed either. -/
theorem rename_range_filter_fails (x : Input) (rec : FilterRec) (kvs : List (Str × FVal))
    (key tok : Str) (hrec : rec ∈ x.filters) (hc : rec.colRef = x.colRef)
    (hf : rec.filter = .json (.obj kvs)) (hmin : (key, FVal.scalar tok) ∈ kvs) :
    ¬ ∃ r, renameChoices x = .ok r := by
  rintro ⟨r, h⟩
  have h2 := (renameChoices_ok h).2
  have hk : ∀ (kvs : List (Str × FVal)), (key, FVal.scalar tok) ∈ kvs →
      ∀ out, renameKvs x.renames kvs ≠ .ok out := by
    intro kvs
    induction kvs with
    | nil => intro hm; cases hm
    | cons p rest ih =>
      intro hm out
      obtain ⟨k, v⟩ := p
      unfold renameKvs
      rcases List.mem_cons.1 hm with g | g
      · cases g; simp [iterate]
      · split
        · simp
        · split
          · simp
          · rename_i rest' hr; exact absurd hr (ih g rest')
  have hfu : ∀ (recs : List FilterRec), rec ∈ recs →
      ∀ fu, filterUpdates x.renames x.colRef recs ≠ .ok fu := by
    intro recs
    induction recs with
    | nil => intro hm; cases hm
    | cons r0 rest ih =>
      intro hm fu
      unfold filterUpdates
      rcases List.mem_cons.1 hm with g | g
      · subst g
        simp only [hc, bne_self_eq_false, Bool.false_eq_true, ↓reduceIte, hf, renameFilter]
        cases hr : renameKvs x.renames kvs with
        | error e => simp [Except.map]
        | ok out => exact absurd hr (hk kvs hmin out)
      · split
        · exact ih g fu
        · split
          · exact ih g fu
          · simp
          · split
            · simp
            · split
              · simp
              · rename_i us hus; exact absurd hus (ih g us)
  exact hfu x.filters hrec r.filters h2

/-- negation of the full statement, witness 2: a Choice column with the saved filter `{"min": 1}` -/
example : renameChoices ⟨.choice, false, [(['a'], ['b'])], [.str [], .str ['a']], [1], 2,
      [⟨1, 2, .json (.obj [(['m','i','n'], .scalar ['1'])])⟩]⟩ = .error .typeError := by decide

end Grist.Choices
