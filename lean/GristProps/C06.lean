import GristModel.Recalc
namespace Grist.Recalc
theorem placeholder_C06 : True := trivial
end Grist.Recalc
