/-
C06  Formula results do not depend on evaluation order.
Model: GristModel/Recalc.lean.  Helper lemmas: GristProofs/Recalc*.lean (see the header of
GristProps/C18.lean for `WFState`, `Good`, `Inv`, `DependsOnSelf`, `Ev.isCalc`).
-/
import GristProofs.RecalcExamples
import GristProofs.RecalcCone
namespace Grist.Recalc

/-- (V1) With a rank function on `deps`, any two complete recalculations (accepted runs of
    eval/circ events ending with `dirty = []`) from the same state end in the same state: the same
    value in every cell, whatever order the scheduler chose. -/
theorem schedule_independent_acyclic {p : Prog} (hr : p.Respects) {n : Nat} {rank : Nat → Nat}
    (hrk : Ranked p n rank) {st t1 t2 : State} {es1 es2 : List Ev}
    (hw : WFState p n st) (hi : Inv p n st)
    (c1 : ∀ e ∈ es1, e.isCalc = true) (c2 : ∀ e ∈ es2, e.isCalc = true)
    (r1 : run p n st es1 = some t1) (r2 : run p n st es2 = some t2)
    (q1 : t1.dirty = []) (q2 : t2.dirty = []) :
    ∀ c, t1.σ c = t2.σ c := by
  obtain ⟨i1, w1⟩ := inv_run hr es1 hw hi r1
  obtain ⟨i2, w2⟩ := inv_run hr es2 hw hi r2
  intro c
  by_cases hc : c < n
  · refine fixpoint_unique hr hw.deps_lt hrk ?_ (quiescent_fixpoint_ranked w1 i1 hrk q1)
      (quiescent_fixpoint_ranked w2 i2 hrk q2) c hc
    intro d _ hf
    rw [calc_run_untouched es1 c1 r1 d (.inl hf), calc_run_untouched es2 c2 r2 d (.inl hf)]
  · rw [calc_run_untouched es1 c1 r1 c (.inr (by omega)),
      calc_run_untouched es2 c2 r2 c (.inr (by omega))]

/-- … so the two final states are equal -/
theorem schedule_independent_acyclic_state {p : Prog} (hr : p.Respects) {n : Nat}
    {rank : Nat → Nat} (hrk : Ranked p n rank) {st t1 t2 : State} {es1 es2 : List Ev}
    (hw : WFState p n st) (hi : Inv p n st)
    (c1 : ∀ e ∈ es1, e.isCalc = true) (c2 : ∀ e ∈ es2, e.isCalc = true)
    (r1 : run p n st es1 = some t1) (r2 : run p n st es2 = some t2)
    (q1 : t1.dirty = []) (q2 : t2.dirty = []) : t1 = t2 := by
  have hσ : t1.σ = t2.σ :=
    funext (schedule_independent_acyclic hr hrk hw hi c1 c2 r1 r2 q1 q2)
  cases t1; cases t2; simp_all

/-- the diamond document evaluated in two different orders -/
example : ∃ t1 t2, run diaProg 4 diaSt [.eval 1, .eval 2, .eval 3] = some t1 ∧
    run diaProg 4 diaSt [.eval 2, .eval 1, .eval 3] = some t2 ∧ t1 = t2 :=
  ⟨_, _, rfl, rfl, schedule_independent_acyclic_state (es1 := [.eval 1, .eval 2, .eval 3])
    (es2 := [.eval 2, .eval 1, .eval 3]) diaProg_respects diaProg_ranked diaSt_wf
    diaSt_inv (by decide) (by decide) rfl rfl (by decide) (by decide)⟩

/-- a complete recalculation always exists, so (V1) is not vacuous for any well-formed state -/
example {p : Prog} {n : Nat} {st : State} (hw : WFState p n st) :
    ∃ es st', (∀ e ∈ es, e.isCalc = true) ∧ run p n st es = some st' ∧ st'.dirty = [] :=
  complete_run_exists st.dirty.length st (Nat.le_refl _) hw

/-! ### (V2) documents with cycles: the acyclic part is schedule independent -/

/-- Without a rank function: two complete recalculations from the same state (with the invariant,
    e.g. all formula cells dirty) agree on every cell whose dependency cone is acyclic
    (`Hgt p k c`: all `deps`-paths from `c` have at most `k` edges). -/
theorem schedule_independent_cone {p : Prog} (hr : p.Respects) {n : Nat} {st t1 t2 : State}
    {es1 es2 : List Ev} (hw : WFState p n st) (hi : Inv p n st)
    (c1 : ∀ e ∈ es1, e.isCalc = true) (c2 : ∀ e ∈ es2, e.isCalc = true)
    (r1 : run p n st es1 = some t1) (r2 : run p n st es2 = some t2)
    (q1 : t1.dirty = []) (q2 : t2.dirty = []) :
    ∀ k c, Hgt p k c → c < n → t1.σ c = t2.σ c := by
  obtain ⟨i1, _⟩ := inv_run hr es1 hw hi r1
  obtain ⟨i2, _⟩ := inv_run hr es2 hw hi r2
  refine cone_unique hr hw.deps_lt ?_ ?_ ?_
  · intro d _ hf
    rw [calc_run_untouched es1 c1 r1 d (.inl hf), calc_run_untouched es2 c2 r2 d (.inl hf)]
  · intro c k hc hf hh
    rcases inv_quiescent i1 q1 c hc hf with h | ⟨_, h⟩
    · exact h
    · exact absurd h (Hgt.not_dependsOnSelf k c hh)
  · intro c k hc hf hh
    rcases inv_quiescent i2 q2 c hc hf with h | ⟨_, h⟩
    · exact h
    · exact absurd h (Hgt.not_dependsOnSelf k c hh)

/-- (V2) in particular they agree on every cell that does not reach a cycle; every other formula
    cell is, in both, a fixpoint of its formula or a `circ` on a cycle (`quiescent_fixpoint`, C18). -/
theorem schedule_independent_cyclic_partial {p : Prog} (hr : p.Respects) {n : Nat}
    {st t1 t2 : State} {es1 es2 : List Ev} (hw : WFState p n st) (hi : Inv p n st)
    (c1 : ∀ e ∈ es1, e.isCalc = true) (c2 : ∀ e ∈ es2, e.isCalc = true)
    (r1 : run p n st es1 = some t1) (r2 : run p n st es2 = some t2)
    (q1 : t1.dirty = []) (q2 : t2.dirty = []) :
    ∀ c, c < n → reachesCycle p n c = false → t1.σ c = t2.σ c :=
  fun c hc h => schedule_independent_cone hr hw hi c1 c2 r1 r2 q1 q2 n c
    (hgt_of_not_reachesCycle hw.deps_lt hc h) hc

/-- the document with a 2-cycle: cell 2 does not reach the cycle, and two different complete
    schedules (which even break the cycle at different cells) agree on it -/
example : reachesCycle cycProg 4 2 = false ∧
    ∃ t1 t2, run cycProg 4 cycSt [.eval 2, .circ 0, .eval 1] = some t1 ∧
      run cycProg 4 cycSt [.circ 1, .eval 0, .eval 2] = some t2 ∧
      t1.dirty = [] ∧ t2.dirty = [] ∧ t1.σ 2 = t2.σ 2 := by
  refine ⟨by decide, _, _, rfl, rfl, by decide, by decide, ?_⟩
  exact schedule_independent_cyclic_partial (es1 := [.eval 2, .circ 0, .eval 1])
    (es2 := [.circ 1, .eval 0, .eval 2]) cycProg_respects cycSt_wf cycSt_inv
    (by decide) (by decide) rfl rfl (by decide) (by decide) 2 (by decide) (by decide)

end Grist.Recalc
