/-
C02  Emitted doc actions are a faithful persistence delta.
Property theorems about the engine model (GristModel/Engine.lean); helper lemmas are in
GristProofs/EngineLists.lean and GristProofs/CalcFlush.lean.
-/
import GristProofs.EngineLists
import GristProofs.CalcFlush
import GristProofs.CalcGeneral
namespace Grist.Doc

/-! ### (B0), (B1): doc steps -/

/-- (B0) the document produced by a `DocActions` method does not depend on the action summary. -/
theorem docAction_doc_indep_summary (d : Doc) (s s' : Summary) (a : DocAction) :
    (docAction d s a).map (·.doc) = (docAction d s' a).map (·.doc) :=
  docAction_doc_indep d s s' a

/-- (B1) for a word of `doc` steps, replaying the stored actions the word appended onto the start
    document gives exactly the engine's final document. -/
theorem stored_faithful_docwords {st st' : EState} {w : List Step}
    (hw : ∀ s ∈ w, ∃ a b, s = Step.doc a b) (h : run st w = .ok st') :
    applyAll st.doc (st'.stored.drop st.stored.length) = .ok st'.doc :=
  run_docwords_faithful w hw h

/-! ### (B2 i) `add_changes`: first `before`, last `after`, one entry per row -/

/-- the fold `Summary.addChanges` performs is `addChangesFold` -/
theorem addChanges_colDelta (s : Summary) (t c : String) (chs : List (Nat × Val × Val)) :
    ((s.addChanges t c chs).get t).colDeltas.lookup c =
      some (addChangesFold (((s.get t).colDeltas.lookup c).getD []) chs) := by
  simp [Summary.addChanges, Summary.get_put, lookup_filter_ne_append, addChangesFold]

/-- After folding `chs` into `m`: a row no change names keeps what `m` had; otherwise its entry is
    `(before, after)` with `before` the one `m` already had, else the `before` of the FIRST change
    for the row, and `after` the `after` of the LAST change for the row. -/
theorem addChange_first_before_last_after (chs m : List (Nat × Val × Val)) (r : Nat) :
    (chs.foldl (fun m ch => addChange m ch.1 ch.2.1 ch.2.2) m).lookup r =
      match (chs.filter (·.1 == r)).getLast? with
      | none => m.lookup r
      | some last =>
        some (match m.lookup r with
              | some p => p.1
              | none => (((chs.filter (·.1 == r)).head?).map (·.2.1)).getD last.2.1,
              last.2.2) :=
  addChangesFold_lookup chs m r

/-- started from the empty delta: `(first before, last after)` of the changes naming the row -/
theorem addChange_from_empty (chs : List (Nat × Val × Val)) (r : Nat) :
    (chs.foldl (fun m ch => addChange m ch.1 ch.2.1 ch.2.2) []).lookup r =
      match (chs.filter (·.1 == r)).head?, (chs.filter (·.1 == r)).getLast? with
      | some f, some l => some (f.2.1, l.2.2)
      | _, _ => none :=
  addChangesFold_nil_lookup chs r

/-- at most one entry per row is kept -/
theorem addChange_one_entry_per_row (chs m : List (Nat × Val × Val))
    (h : (m.map (·.1)).Nodup) :
    ((chs.foldl (fun m ch => addChange m ch.1 ch.2.1 ch.2.2) m).map (·.1)).Nodup :=
  addChangesFold_keys_nodup chs m h

/-! ### (B2 ii) row presence recorded by `add_records` / `remove_records` -/

theorem amSet_lookup' (m : List (Nat × Bool)) (k : Nat) (v : Bool) (j : Nat) :
    (amSet m k v).lookup j = if j = k then some v else m.lookup j := amSet_lookup m k v j

theorem amSetDefault_lookup' (m : List (Nat × Bool)) (k : Nat) (v : Bool) (j : Nat) :
    (amSetDefault m k v).lookup j = if j = k then some ((m.lookup k).getD v) else m.lookup j :=
  amSetDefault_lookup m k v j

/-- untouched rows stay as they were (in particular absent stays absent) -/
theorem presence_untouched (s : Summary) (t : String) (rows : List Nat) (r : Nat) (h : r ∉ rows) :
    ((s.addRecords t rows).get t).presentBefore.lookup r = (s.get t).presentBefore.lookup r ∧
    ((s.addRecords t rows).get t).presentAfter.lookup r = (s.get t).presentAfter.lookup r ∧
    ((s.removeRecords t rows).get t).presentBefore.lookup r = (s.get t).presentBefore.lookup r ∧
    ((s.removeRecords t rows).get t).presentAfter.lookup r = (s.get t).presentAfter.lookup r := by
  simp [addRecords_presentBefore, addRecords_presentAfter, removeRecords_presentBefore,
    removeRecords_presentAfter, h]

/-- a row first seen when added: before = absent, after = present -/
theorem presence_added (s : Summary) (t : String) (rows : List Nat) (r : Nat) (h : r ∈ rows)
    (h0 : (s.get t).presentBefore.lookup r = none) :
    ((s.addRecords t rows).get t).presentBefore.lookup r = some false ∧
    ((s.addRecords t rows).get t).presentAfter.lookup r = some true := by
  simp [addRecords_presentBefore, addRecords_presentAfter, h, h0]

/-- a row first seen when removed: before = present, after = absent -/
theorem presence_removed (s : Summary) (t : String) (rows : List Nat) (r : Nat) (h : r ∈ rows)
    (h0 : (s.get t).presentBefore.lookup r = none) :
    ((s.removeRecords t rows).get t).presentBefore.lookup r = some true ∧
    ((s.removeRecords t rows).get t).presentAfter.lookup r = some false := by
  simp [removeRecords_presentBefore, removeRecords_presentAfter, h, h0]

/-- added then removed ⇒ before = false, after = false -/
theorem presence_added_then_removed (s : Summary) (t : String) (rows1 rows2 : List Nat) (r : Nat)
    (h1 : r ∈ rows1) (h2 : r ∈ rows2) (h0 : (s.get t).presentBefore.lookup r = none) :
    (((s.addRecords t rows1).removeRecords t rows2).get t).presentBefore.lookup r = some false ∧
    (((s.addRecords t rows1).removeRecords t rows2).get t).presentAfter.lookup r = some false := by
  simp [addRecords_presentBefore, removeRecords_presentBefore, removeRecords_presentAfter,
    h1, h2, h0]

/-- removed then added ⇒ before = true, after = true -/
theorem presence_removed_then_added (s : Summary) (t : String) (rows1 rows2 : List Nat) (r : Nat)
    (h1 : r ∈ rows1) (h2 : r ∈ rows2) (h0 : (s.get t).presentBefore.lookup r = none) :
    (((s.removeRecords t rows1).addRecords t rows2).get t).presentBefore.lookup r = some true ∧
    (((s.removeRecords t rows1).addRecords t rows2).get t).presentAfter.lookup r = some true := by
  simp [addRecords_presentBefore, removeRecords_presentBefore, addRecords_presentAfter,
    h1, h2, h0]

/-! ### (B3, special case) `calc` steps on one column, then `finish`

Setting: empty `stored` and empty summary at the start; the calc column `(t, c)` exists and is not
defunct-named; all touched rows exist.  `mergedChange chs k` is the `(first before, last after)`
recorded for row `k` by the changes `chs` (all calc steps concatenated). -/

/-- The word emits nothing or ONE `BulkUpdateRecord t rows {c: vals}` (`flushAction`), whose rows are
    exactly the rows whose merged before/after differ under `equal_encoding`, each carrying the
    last `after`. -/
theorem calc_word_emits {st st' : EState} {t c : String} {tb : Table} {col : Col}
    (hs : st.summary = {}) (hsto : st.stored = [])
    (ht : isDefunct t = false) (hc : isDefunct c = false)
    (hT : findTable? st.doc t = some tb) (hC : tb.findCol? c = some col)
    (calcs : List (List (Nat × Val × Val)))
    (h : run st (calcs.map (Step.calc t c) ++ [.finish]) = .ok st') :
    let delta := addChangesFold [] calcs.flatten
    let rows := changedRows delta
    st'.stored = (if rows.isEmpty then [] else [.bulkUpdate t rows [(c, rows.map (afterOf delta))]]) ∧
    (∀ k, k ∈ rows ↔ ∃ b a, mergedChange calcs.flatten k = some (b, a) ∧ equalEncoding b a = false) ∧
    (∀ k b a, mergedChange calcs.flatten k = some (b, a) → afterOf delta k = a) :=
  ⟨calc_finish_stored hs hsto ht hc hT hC calcs h, mem_changedRows_merged _,
   fun _ _ _ h => afterOf_merged h⟩

/-- Replaying the emitted actions on the start document succeeds; the replayed document and the
    engine's document are both the start document with only the cells of column `(t, c)` changed
    (`ColView`), to `fR` resp. `fE`, where at a row `k`
    * not touched: both are the start value;
    * touched with merged `(b, a)`: the engine has `a`; the replay has `a` if `b`, `a` differ under
      `equal_encoding` and the start value otherwise. -/
theorem stored_faithful_calc_word_cells {st st' : EState} {t c : String} {tb : Table} {col : Col}
    (hs : st.summary = {}) (hsto : st.stored = [])
    (ht : isDefunct t = false) (hc : isDefunct c = false)
    (hT : findTable? st.doc t = some tb) (hC : tb.findCol? c = some col)
    (calcs : List (List (Nat × Val × Val)))
    (hrows : ∀ ch ∈ calcs.flatten, ch.1 ∈ tb.rows)
    (hnorm : ∀ ch ∈ calcs.flatten, colSet col.info.type ch.2.2 = ch.2.2)
    (h : run st (calcs.map (Step.calc t c) ++ [.finish]) = .ok st') :
    ∃ d' fR fE, applyAll st.doc st'.stored = .ok d' ∧
      ColView st.doc t c tb col d' fR ∧ ColView st.doc t c tb col st'.doc fE ∧
      ∀ k, match mergedChange calcs.flatten k with
        | none => fE k = col.cells k ∧ fR k = col.cells k
        | some (b, a) => fE k = a ∧ fR k = if equalEncoding b a then col.cells k else a := by
  obtain ⟨d', h1, h2, h3⟩ := calc_finish_views hs hsto ht hc hT hC calcs hrows h
  exact ⟨d', _, _, h1, h2, h3, replay_vs_engine_cells col _ hnorm⟩

/-- If moreover the first `before` reported for a row is the start document's cell, the replayed
    document shows the same as the engine's document up to `equal_encoding` of cell values. -/
theorem stored_faithful_calc_word_encSame {st st' : EState} {t c : String} {tb : Table} {col : Col}
    (hs : st.summary = {}) (hsto : st.stored = [])
    (ht : isDefunct t = false) (hc : isDefunct c = false)
    (hT : findTable? st.doc t = some tb) (hC : tb.findCol? c = some col)
    (calcs : List (List (Nat × Val × Val)))
    (hrows : ∀ ch ∈ calcs.flatten, ch.1 ∈ tb.rows)
    (hnorm : ∀ ch ∈ calcs.flatten, colSet col.info.type ch.2.2 = ch.2.2)
    (hbefore : ∀ k b a, mergedChange calcs.flatten k = some (b, a) → b = col.cells k)
    (h : run st (calcs.map (Step.calc t c) ++ [.finish]) = .ok st') :
    ∃ d', applyAll st.doc st'.stored = .ok d' ∧ EncSame d' st'.doc := by
  obtain ⟨d', h1, h2, h3⟩ := calc_finish_views hs hsto ht hc hT hC calcs hrows h
  refine ⟨d', h1, h2.sameRel h3 equalEncoding_refl (fun k _ => ?_)⟩
  have := replay_vs_engine_cells col _ hnorm k
  cases hm : mergedChange calcs.flatten k with
  | none => rw [hm] at this; rw [this.1, this.2]; exact equalEncoding_refl _
  | some p =>
    obtain ⟨b, a⟩ := p
    rw [hm] at this
    simp only at this
    rw [this.1, this.2]
    cases he : equalEncoding b a with
    | false => simp [equalEncoding_refl]
    | true => simp only [↓reduceIte]; rw [← hbefore k b a hm]; exact he

/-- If moreover no touched row changed only its encoding (`1` vs `1.0`), the replayed document
    shows exactly the same as the engine's document (`Same`). -/
theorem stored_faithful_calc_word {st st' : EState} {t c : String} {tb : Table} {col : Col}
    (hs : st.summary = {}) (hsto : st.stored = [])
    (ht : isDefunct t = false) (hc : isDefunct c = false)
    (hT : findTable? st.doc t = some tb) (hC : tb.findCol? c = some col)
    (calcs : List (List (Nat × Val × Val)))
    (hrows : ∀ ch ∈ calcs.flatten, ch.1 ∈ tb.rows)
    (hnorm : ∀ ch ∈ calcs.flatten, colSet col.info.type ch.2.2 = ch.2.2)
    (hbefore : ∀ k b a, mergedChange calcs.flatten k = some (b, a) → b = col.cells k)
    (hstrict : ∀ k b a, mergedChange calcs.flatten k = some (b, a) →
      equalEncoding b a = true → b = a)
    (h : run st (calcs.map (Step.calc t c) ++ [.finish]) = .ok st') :
    ∃ d', applyAll st.doc st'.stored = .ok d' ∧ Same d' st'.doc := by
  obtain ⟨d', h1, h2, h3⟩ := calc_finish_views hs hsto ht hc hT hC calcs hrows h
  refine ⟨d', h1, (sameRel_eq_iff_same _ _).mp (h2.sameRel h3 (fun _ => rfl) (fun k _ => ?_))⟩
  have := replay_vs_engine_cells col _ hnorm k
  cases hm : mergedChange calcs.flatten k with
  | none => rw [hm] at this; rw [this.1, this.2]
  | some p =>
    obtain ⟨b, a⟩ := p
    rw [hm] at this
    simp only at this
    rw [this.1, this.2]
    cases he : equalEncoding b a with
    | false => simp
    | true => simp only [↓reduceIte]; rw [← hbefore k b a hm]; exact hstrict k b a hm he

/-! ### (B3, general form) bulk record actions on other tables interleaved with calc steps

`StepOK t c s`: `s` is a `doc` step carrying a BulkAddRecord / BulkRemoveRecord / BulkUpdateRecord
on a table other than `t`, or a `calc` step on column `(t, c)`.  `docActs w` are the doc actions of
the word in order, `calcChs w` the concatenated calc changes. -/

/-- what the bundle stores: the doc actions in order, then the calc flush of column `(t, c)` -/
theorem bulk_calc_word_emits {st st' : EState} {t c : String} {tb : Table} {col : Col}
    (hs : st.summary = {}) (hsto : st.stored = [])
    (ht : isDefunct t = false) (hc : isDefunct c = false)
    (hT : findTable? st.doc t = some tb) (hC : tb.findCol? c = some col)
    (w : List Step) (hw : ∀ s ∈ w, StepOK t c s)
    (hrows : ∀ ch ∈ calcChs w, ch.1 ∈ tb.rows)
    (h : run st (w ++ [.finish]) = .ok st') :
    st'.stored = docActs w ++ flushAction t c (addChangesFold [] (calcChs w)) :=
  (bulk_calc_finish_views hs hsto ht hc hT hC w hw hrows h).1

/-- (B3) replaying the stored actions of the bundle on the start document gives a document that
    shows the same as the engine's document up to `equal_encoding` of cell values … -/
theorem stored_faithful_calc_fixed_schema_encSame {st st' : EState} {t c : String} {tb : Table}
    {col : Col} (hs : st.summary = {}) (hsto : st.stored = [])
    (ht : isDefunct t = false) (hc : isDefunct c = false)
    (hT : findTable? st.doc t = some tb) (hC : tb.findCol? c = some col)
    (w : List Step) (hw : ∀ s ∈ w, StepOK t c s)
    (hrows : ∀ ch ∈ calcChs w, ch.1 ∈ tb.rows)
    (hnorm : ∀ ch ∈ calcChs w, colSet col.info.type ch.2.2 = ch.2.2)
    (hbefore : ∀ k b a, mergedChange (calcChs w) k = some (b, a) → b = col.cells k)
    (h : run st (w ++ [.finish]) = .ok st') :
    ∃ d', applyAll st.doc st'.stored = .ok d' ∧ EncSame d' st'.doc := by
  obtain ⟨_, D1, d', _, h1, h2, h3⟩ := bulk_calc_finish_views hs hsto ht hc hT hC w hw hrows h
  refine ⟨d', h1, h2.sameRel h3 equalEncoding_refl (fun k _ => ?_)⟩
  have := replay_vs_engine_cells col _ hnorm k
  cases hm : mergedChange (calcChs w) k with
  | none => rw [hm] at this; rw [this.1, this.2]; exact equalEncoding_refl _
  | some p =>
    obtain ⟨b, a⟩ := p
    rw [hm] at this
    simp only at this
    rw [this.1, this.2]
    cases he : equalEncoding b a with
    | false => simp [equalEncoding_refl]
    | true => simp only [↓reduceIte]; rw [← hbefore k b a hm]; exact he

/-- … and exactly the same (`Same`) when no touched row changed only its encoding. -/
theorem stored_faithful_calc_fixed_schema {st st' : EState} {t c : String} {tb : Table}
    {col : Col} (hs : st.summary = {}) (hsto : st.stored = [])
    (ht : isDefunct t = false) (hc : isDefunct c = false)
    (hT : findTable? st.doc t = some tb) (hC : tb.findCol? c = some col)
    (w : List Step) (hw : ∀ s ∈ w, StepOK t c s)
    (hrows : ∀ ch ∈ calcChs w, ch.1 ∈ tb.rows)
    (hnorm : ∀ ch ∈ calcChs w, colSet col.info.type ch.2.2 = ch.2.2)
    (hbefore : ∀ k b a, mergedChange (calcChs w) k = some (b, a) → b = col.cells k)
    (hstrict : ∀ k b a, mergedChange (calcChs w) k = some (b, a) →
      equalEncoding b a = true → b = a)
    (h : run st (w ++ [.finish]) = .ok st') :
    ∃ d', applyAll st.doc st'.stored = .ok d' ∧ Same d' st'.doc := by
  obtain ⟨_, D1, d', _, h1, h2, h3⟩ := bulk_calc_finish_views hs hsto ht hc hT hC w hw hrows h
  refine ⟨d', h1, (sameRel_eq_iff_same _ _).mp (h2.sameRel h3 (fun _ => rfl) (fun k _ => ?_))⟩
  have := replay_vs_engine_cells col _ hnorm k
  cases hm : mergedChange (calcChs w) k with
  | none => rw [hm] at this; rw [this.1, this.2]
  | some p =>
    obtain ⟨b, a⟩ := p
    rw [hm] at this
    simp only at this
    rw [this.1, this.2]
    cases he : equalEncoding b a with
    | false => simp
    | true => simp only [↓reduceIte]; rw [← hbefore k b a hm]; exact hstrict k b a hm he

/-! ### non-vacuity -/

def c02Info : ColInfo := { type := "Text", isFormula := false, formula := "", reverseColId := none }
def c02FInfo : ColInfo := { type := "Text", isFormula := true, formula := "$A", reverseColId := none }
def c02ColB : Col := { id := "B", info := c02FInfo, cells := fun _ => .str "" }
def c02Tb : Table :=
  { id := "T", rows := [1, 2],
    cols := [{ id := "A", info := c02Info, cells := fun _ => .str "" }, c02ColB] }
def c02St : EState := { doc := [c02Tb] }

def c02DocWord : List Step :=
  [.doc (.bulkUpdate "T" [1] [("A", [.str "x"])]) true,
   .doc (.addColumn "T" "C" c02Info) true,
   .doc (.bulkRemove "T" [2]) false]

/-- (B1) applies to a concrete successful word of three doc steps -/
example : ∃ st', run c02St c02DocWord = .ok st' ∧ st'.stored.length = 3 ∧
    applyAll c02St.doc st'.stored = .ok st'.doc :=
  ⟨_, rfl, rfl, stored_faithful_docwords (st := c02St) (w := c02DocWord)
    (by simp [c02DocWord]) rfl⟩

def c02Calcs : List (List (Nat × Val × Val)) :=
  [[(1, .str "", .str "x")], [(1, .str "x", .str "y"), (2, .str "", .str "")]]

/-- the calc word runs and emits exactly one update, for row 1 only, with the last value -/
example : ∃ st', run c02St (c02Calcs.map (Step.calc "T" "B") ++ [.finish]) = .ok st' ∧
    st'.stored = [.bulkUpdate "T" [1] [("B", [.str "y"])]] :=
  ⟨_, rfl, by decide +kernel⟩

theorem c02_merged (k : Nat) (b a : Val) (h : mergedChange c02Calcs.flatten k = some (b, a)) :
    (k = 1 ∧ b = .str "" ∧ a = .str "y") ∨ (k = 2 ∧ b = .str "" ∧ a = .str "") := by
  by_cases h1 : k = 1
  · subst h1; simp [mergedChange, c02Calcs] at h; simp [← h.1, ← h.2]
  · by_cases h2 : k = 2
    · subst h2; simp [mergedChange, c02Calcs] at h; simp [← h.1, ← h.2]
    · have e1 : ¬ 1 = k := fun e => h1 e.symm
      have e2 : ¬ 2 = k := fun e => h2 e.symm
      simp [mergedChange, c02Calcs, e1, e2] at h

/-- all hypotheses of the (B3) special case hold for it -/
example : ∃ st', run c02St (c02Calcs.map (Step.calc "T" "B") ++ [.finish]) = .ok st' ∧
    ∃ d', applyAll c02St.doc st'.stored = .ok d' ∧ Same d' st'.doc := by
  refine ⟨_, rfl, ?_⟩
  refine stored_faithful_calc_word (st := c02St) (t := "T") (c := "B") (tb := c02Tb)
    (col := c02ColB) rfl rfl (by decide +kernel) (by decide +kernel) rfl rfl c02Calcs ?_ ?_ ?_ ?_ rfl
  · intro ch h
    simp [c02Calcs] at h
    rcases h with rfl | rfl | rfl <;> simp [c02Tb]
  · intro ch h
    simp [c02Calcs] at h
    rcases h with rfl | rfl | rfl <;> exact colSet_str _ _
  · intro k b a h
    rcases c02_merged k b a h with ⟨_, rfl, _⟩ | ⟨_, rfl, _⟩ <;> rfl
  · intro k b a h he
    rcases c02_merged k b a h with ⟨_, rfl, rfl⟩ | ⟨_, rfl, rfl⟩
    · simp [equalEncoding] at he
    · rfl

/-! general form: a second table `U` edited by the user while column `T.B` is recomputed -/

def c02TbU : Table :=
  { id := "U", rows := [1], cols := [{ id := "X", info := c02Info, cells := fun _ => .str "" }] }
def c02St2 : EState := { doc := [c02Tb, c02TbU] }

def c02Word2 : List Step :=
  [.doc (.bulkUpdate "U" [1] [("X", [.str "u"])]) true,
   .calc "T" "B" [(1, .str "", .str "x")],
   .doc (.bulkAdd "U" [2] [("X", [.str "v"])]) true,
   .calc "T" "B" [(1, .str "x", .str "y"), (2, .str "", .str "")],
   .doc (.bulkRemove "U" [1]) true]

theorem c02_calcChs2 : calcChs c02Word2 = c02Calcs.flatten := rfl

theorem c02_hw : ∀ s ∈ c02Word2, StepOK "T" "B" s := by
  intro s hs
  simp [c02Word2] at hs
  rcases hs with rfl | rfl | rfl | rfl | rfl <;> simp [StepOK, bulkTable]

theorem c02_hrows : ∀ ch ∈ calcChs c02Word2, ch.1 ∈ c02Tb.rows := by
  rw [c02_calcChs2]
  intro ch h
  simp [c02Calcs] at h
  rcases h with rfl | rfl | rfl <;> simp [c02Tb]

/-- the bundle runs and stores the three user actions followed by one calc update of row 1 -/
example : ∃ st', run c02St2 (c02Word2 ++ [.finish]) = .ok st' ∧
    st'.stored = [.bulkUpdate "U" [1] [("X", [.str "u"])], .bulkAdd "U" [2] [("X", [.str "v"])],
                  .bulkRemove "U" [1], .bulkUpdate "T" [1] [("B", [.str "y"])]] := by
  refine ⟨_, rfl, ?_⟩
  rw [bulk_calc_word_emits (st := c02St2) (t := "T") (c := "B") (tb := c02Tb) (col := c02ColB)
    rfl rfl (by decide +kernel) (by decide +kernel) rfl rfl c02Word2 c02_hw c02_hrows rfl]
  decide +kernel

example : ∃ st', run c02St2 (c02Word2 ++ [.finish]) = .ok st' ∧
    ∃ d', applyAll c02St2.doc st'.stored = .ok d' ∧ Same d' st'.doc := by
  refine ⟨_, rfl, ?_⟩
  refine stored_faithful_calc_fixed_schema (st := c02St2) (t := "T") (c := "B") (tb := c02Tb)
    (col := c02ColB) rfl rfl (by decide +kernel) (by decide +kernel) rfl rfl c02Word2 c02_hw
    c02_hrows ?_ ?_ ?_ rfl
  · rw [c02_calcChs2]
    intro ch h
    simp [c02Calcs] at h
    rcases h with rfl | rfl | rfl <;> exact colSet_str _ _
  · rw [c02_calcChs2]
    intro k b a h
    rcases c02_merged k b a h with ⟨_, rfl, _⟩ | ⟨_, rfl, _⟩ <;> rfl
  · rw [c02_calcChs2]
    intro k b a h he
    rcases c02_merged k b a h with ⟨_, rfl, rfl⟩ | ⟨_, rfl, rfl⟩
    · simp [equalEncoding] at he
    · rfl

/-! ### why the extra hypotheses of (B3) are needed -/

def c02CexCol : Col := { id := "B", info := c02FInfo, cells := fun _ => .int 1 }
def c02CexTb : Table := { id := "T", rows := [1], cols := [c02CexCol] }
def c02CexSt : EState := { doc := [c02CexTb] }

/-- Counterexample to (B3) without the "no encoding-only change" hypothesis: the calc step turns
    `1` into `1.0`; `equal_encoding` suppresses the update, nothing is stored, and the replayed
    document (= the start document) does not show the same as the engine's document. -/
example : ∃ st', run c02CexSt [.calc "T" "B" [(1, .int 1, .flt "1.0")], .finish] = .ok st' ∧
    st'.stored = [] ∧ ¬ Same c02CexSt.doc st'.doc := by
  refine ⟨_, rfl, by decide +kernel, ?_⟩
  intro h
  have h1 := h "T"
  have e1 : findTable? c02CexSt.doc "T" = some c02CexTb := rfl
  have hv := ColView.calc (ColView.self (d := c02CexSt.doc) (t := "T") (c := "B") (tb := c02CexTb)
    (col := c02CexCol) rfl rfl) [(1, .int 1, .flt "1.0")]
  obtain ⟨tbX, hX1, hX2, hX3, colX, hX4, hX5, hX6⟩ := hv.tbl
  have e2 : (stepFinish (stepCalc c02CexSt "T" "B" [(1, .int 1, .flt "1.0")])).doc
      = writeCalc c02CexSt.doc "T" "B" [(1, .int 1, .flt "1.0")] := rfl
  rw [e2, e1, hX1] at h1
  have h2 := h1.2 "B"
  rw [show c02CexTb.findCol? "B" = some c02CexCol from rfl, hX4] at h2
  have h3 := h2.2 1 (by simp [c02CexTb])
  rw [hX6] at h3
  simp [writeAfters, setCell, c02CexCol] at h3

end Grist.Doc
