import GristModel.DocSpec
namespace Grist.Doc
theorem placeholder_C02 : True := trivial
end Grist.Doc
