/-
C12  Summary tables are exact group-bys of their source.
Property theorems only.  Model: GristModel/SummaryModel.lean (table.py `_add_update_summary_col` /
`lookupOrAddDerived` / `getSummarySourceGroup`, docmodel.py `setAutoRemove`/`apply_auto_removes`);
helper lemmas: GristProofs/SummaryModel.lean.

`SummaryExact src sum` (GristModel/SummaryModel.lean) is the property: no two summary rows share a
key, the key set is the union of `keysOf` over the source rows, every `group` is the ascending list
of the source rows having the row's key.  `HelperOk` is the invariant of the private helper column
`#summary#<table>` (not observable from outside; compared with the real column by the harness).
-/
import GristModel.SummaryModel
import GristProofs.SummaryModel
namespace Grist.SummaryModel

/-! ### `keysOf` -/

/-- The keys of one source row are pairwise different (one key per DISTINCT element). -/
theorem keysOf_distinct (cells : List Cell) : (keysOf cells).Nodup :=
  nodup_keysOf cells

example : keysOf [.choices [.txt "a", .txt "b", .txt "a"], .scalar (.num 7)]
    = [[.txt "b", .num 7], [.txt "a", .num 7]] := by decide

/-- What a cell contributes: a scalar its value; a list its elements, or the column default when it
    has none; a non-list value in a list column nothing. -/
theorem mem_cellKeys (v : Val) (c : Cell) :
    v ∈ cellKeys c ↔
      match c with
      | .scalar w => v = w
      | .choices vs => v ∈ vs ∨ (vs = [] ∧ v = .txt "")
      | .refs vs => v ∈ vs ∨ (vs = [] ∧ v = .num 0)
      | .other => False := by
  have hd : ∀ vs : List Val, dedup vs = [] ↔ vs = [] := by
    intro vs
    constructor
    · intro h
      cases vs with
      | nil => rfl
      | cons x xs =>
        have : x ∈ dedup (x :: xs) := mem_dedup.mpr (by simp)
        rw [h] at this; simp at this
    · intro h; subst h; rfl
  cases c with
  | scalar w => simp [cellKeys]
  | other => simp [cellKeys]
  | choices vs =>
    simp only [cellKeys, List.isEmpty_iff]
    by_cases he : vs = []
    · subst he; simp [dedup]
    · have : dedup vs ≠ [] := fun h => he ((hd vs).mp h)
      simp [this, he, mem_dedup]
  | refs vs =>
    simp only [cellKeys, List.isEmpty_iff]
    by_cases he : vs = []
    · subst he; simp [dedup]
    · have : dedup vs ≠ [] := fun h => he ((hd vs).mp h)
      simp [this, he, mem_dedup]

/-- A key belongs to a row iff it picks, column by column, one of the values the cell contributes
    (cartesian product over the group-by columns). -/
theorem mem_keysOf (k : Key) (cells : List Cell) :
    k ∈ keysOf cells ↔ KeyIn k (cells.map cellKeys) := by
  unfold keysOf; exact mem_product

example : KeyIn [.txt "", .num 3] ([Cell.choices [], Cell.refs [.num 3, .num 4]].map cellKeys) :=
  (mem_keysOf _ _).mp (by decide)

/-- The keys the helper formula iterates over (`sorted(product(..))`, or none after the early
    `return []`) are exactly the row's keys, each once. -/
theorem codeKeys_exact (cells : List Cell) :
    (codeKeys cells).Perm (keysOf cells) ∧ (codeKeys cells).Nodup :=
  ⟨codeKeys_perm cells, nodup_codeKeys cells⟩

example : codeKeys [.refs [.num 5, .num 2, .num 5], .other] = [] ∧
    codeKeys [.refs [.num 5, .num 2, .num 5]] = [[.num 2], [.num 5]] := by decide

/-! ### `lookupOrAddDerived` never adds a key that exists -/

/-- One evaluation of the helper formula keeps the keys of the summary table pairwise different,
    only appends rows, and every appended row has a key of the evaluated source row that was absent. -/
theorem no_duplicate_keys (sum : List SumRow) (cells : List Cell)
    (h : (sum.map (·.key)).Nodup) :
    ((updateSummary false sum cells).1.map (·.key)).Nodup ∧
    ∃ add, (updateSummary false sum cells).1 = sum ++ add ∧
      ∀ a ∈ add, a.key ∈ keysOf cells ∧ a.key ∉ sum.map (·.key) := by
  obtain ⟨add, h1, h2, h3, _⟩ := (updateSummary_spec (sum := sum) (cells := cells) h).added
  refine ⟨?_, add, h1, fun a ha => ⟨(h2 a ha).1, (h2 a ha).2.1⟩⟩
  rw [h1]
  exact nodup_keys_append h h3 (fun a ha => (h2 a ha).2.1)

example : (updateSummary false [⟨1, [.txt "a"], [4]⟩] [.choices [.txt "b", .txt "a"]]).1.map (·.key)
    = [[.txt "a"], [.txt "b"]] := by decide

/-- The helper cell computed for a row refers to exactly the summary rows having one of its keys,
    and afterwards every key of the row has a summary row. -/
theorem helper_cell_exact (sum : List SumRow) (cells : List Cell)
    (h : (sum.map (·.key)).Nodup) :
    (∀ k ∈ keysOf cells, k ∈ (updateSummary false sum cells).1.map (·.key)) ∧
    ∀ sid, sid ∈ (updateSummary false sum cells).2 ↔
      ∃ s ∈ (updateSummary false sum cells).1, s.id = sid ∧ s.key ∈ keysOf cells :=
  ⟨(updateSummary_spec h).covers, (updateSummary_spec h).ids_iff⟩

example : (updateSummary false [⟨1, [.txt "a"], [4]⟩, ⟨3, [.txt "c"], [5]⟩]
    [.choices [.txt "b", .txt "a"]]).2 = [1, 4] := by decide

/-! ### `group` -/

/-- The lookup behind `group` returns row ids in strictly ascending order. -/
theorem group_sorted (helper : List (Nat × List Nat)) (h : (helper.map (·.1)).Nodup) (sid : Nat) :
    (lookupGroup helper sid).Pairwise (· < ·) :=
  lookupGroup_sorted h sid

example : lookupGroup [(7, [2, 1]), (3, [1]), (5, [2])] 1 = [3, 7] := by decide

/-- `GroupExact` determines the group: there is exactly one ascending list of the rows with the key. -/
theorem group_unique (src : List SrcRow) (s t : SumRow) (hk : s.key = t.key)
    (hs : GroupExact src s) (ht : GroupExact src t) : s.group = t.group := by
  have hn : ∀ {l : List Nat}, l.Pairwise (· < ·) → l.Nodup :=
    fun h => List.Pairwise.imp (fun hab => Nat.ne_of_lt hab) h
  apply List.Perm.eq_of_pairwise (le := (· < ·)) _ hs.1 ht.1
  · rw [List.perm_ext_iff_of_nodup (hn hs.1) (hn ht.1)]
    intro i; rw [hs.2 i, ht.2 i, hk]
  · intro a b _ _ h1 h2; omega

/-! ### The maintenance theorem -/

/--
`summary_maintain`.  From an exact summary table (and a consistent private helper column), ANY batch
of source edits -- given as the new source rows `src'` and a set `dirty` of row ids containing every
added, changed and removed row -- followed by what the engine does (helper formula re-evaluated for
every dirtied row with `lookupOrAddDerived` / the bulk-add variant, `group` re-evaluated for every
summary row whose lookup result changed, rows with an empty group auto-removed) yields an exact
summary table of the new source (and a consistent helper column, so the step can be iterated).
-/
theorem summary_maintain (src src' : List SrcRow) (st : State) (dirty : List Nat)
    (hsrc' : (src'.map (·.id)).Nodup)
    (hclean : ∀ r : SrcRow, r.id ∉ dirty → (r ∈ src ↔ r ∈ src'))
    (hex : SummaryExact src st.sum) (hh : HelperOk src st) :
    SummaryExact src' (maintain false st src' dirty).sum ∧
    HelperOk src' (maintain false st src' dirty) :=
  maintain_core src src' st dirty _ hsrc' hclean hex hh
    (foldl_helperStep_spec _ _ _ hex.1 hh.sumIds)

/-- `summary_build`: creating the table from scratch (empty table, every row dirty). -/
theorem summary_build (src : List SrcRow) (hsrc : (src.map (·.id)).Nodup) :
    SummaryExact src (build src).sum ∧ HelperOk src (build src) := by
  unfold build
  apply summary_maintain [] src ⟨[], []⟩ (src.map (·.id)) hsrc
  · intro r hr
    constructor
    · intro h; simp at h
    · intro h; exact absurd (List.mem_map.mpr ⟨r, h, rfl⟩) hr
  · exact ⟨by simp, by simp, by simp⟩
  · exact ⟨by simp, by simp, by simp, by simp⟩

/-- Consequences spelled out: after any bundle no two rows share a key, no group is empty, and
    every group is strictly ascending. -/
theorem maintain_no_empty_group (src src' : List SrcRow) (st : State) (dirty : List Nat)
    (hsrc' : (src'.map (·.id)).Nodup)
    (hclean : ∀ r : SrcRow, r.id ∉ dirty → (r ∈ src ↔ r ∈ src'))
    (hex : SummaryExact src st.sum) (hh : HelperOk src st) :
    ∀ s ∈ (maintain false st src' dirty).sum, s.group ≠ [] ∧ s.group.Pairwise (· < ·) := by
  intro s hs
  obtain ⟨⟨_, hks, hg⟩, _⟩ := summary_maintain src src' st dirty hsrc' hclean hex hh
  obtain ⟨r, hr, hk⟩ := (hks s.key).mp (List.mem_map.mpr ⟨s, hs, rfl⟩)
  exact ⟨groupExact_nonempty (hg s hs) hr hk, (hg s hs).1⟩

/-! A concrete run: rows 1..3 grouped by a ChoiceList column; then row 1 loses choice "a", row 3
    (the only member of "c") is removed and row 4 arrives with a new choice.  All hypotheses of
    `summary_maintain` hold (the start state comes from `summary_build`). -/
def exSrc : List SrcRow :=
  [⟨1, [.choices [.txt "a", .txt "b"]]⟩, ⟨2, [.choices []]⟩, ⟨3, [.choices [.txt "c"]]⟩]
def exSrc' : List SrcRow :=
  [⟨1, [.choices [.txt "b", .txt "b"]]⟩, ⟨2, [.choices []]⟩, ⟨4, [.choices [.txt "d", .txt "b"]]⟩]

example : (build exSrc).sum =
    [⟨1, [.txt "a"], [1]⟩, ⟨2, [.txt "b"], [1]⟩, ⟨3, [.txt ""], [2]⟩, ⟨4, [.txt "c"], [3]⟩] := by
  decide

example : (maintain false (build exSrc) exSrc' [1, 3, 4]).sum =
    [⟨2, [.txt "b"], [1, 4]⟩, ⟨3, [.txt ""], [2]⟩, ⟨5, [.txt "d"], [4]⟩] := by decide

example : SummaryExact exSrc' (maintain false (build exSrc) exSrc' [1, 3, 4]).sum := by
  have hb := summary_build exSrc (by decide)
  refine (summary_maintain exSrc exSrc' (build exSrc) [1, 3, 4] (by decide) ?_ hb.1 hb.2).1
  intro r hr
  have h2 : r.id = 2 ∨ (r.id ≠ 1 ∧ r.id ≠ 2 ∧ r.id ≠ 3 ∧ r.id ≠ 4) := by
    simp only [List.mem_cons, List.not_mem_nil, or_false, not_or] at hr
    omega
  simp only [exSrc, exSrc', List.mem_cons, List.not_mem_nil, or_false]
  constructor
  · rintro (h | h | h)
    · subst h; simp at hr
    · exact Or.inr (Or.inl h)
    · subst h; simp at hr
  · rintro (h | h | h)
    · subst h; simp at hr
    · exact Or.inr (Or.inl h)
    · subst h; simp at hr

/-! ### The hypothesis `guard = false` is needed

`is_triggered_by_table_action(summary_table)` (true only while metadata lookups are refreshed
between doc actions) suppresses the add; a helper formula evaluated under it leaves a source key
without a summary row. -/
theorem guard_blocks_adds :
    ¬ SummaryExact [⟨1, [.scalar (.num 1)]⟩]
        (maintain true ⟨[], []⟩ [⟨1, [.scalar (.num 1)]⟩] [1]).sum := by
  intro h
  have hsum : (maintain true ⟨[], []⟩ [⟨1, [.scalar (.num 1)]⟩] [1]).sum = [] := by decide
  rw [hsum] at h
  have := (h.2.1 [.num 1]).mpr ⟨⟨1, [.scalar (.num 1)]⟩, by simp, by decide⟩
  simp at this

/-! ### The executable predicate used on real documents -/

theorem mem_rowsWithKey (src : List SrcRow) (k : Key) (i : Nat) :
    i ∈ rowsWithKey src k ↔ ∃ r ∈ src, r.id = i ∧ k ∈ keysOf r.cells := by
  unfold rowsWithKey
  rw [mem_sortAsc, List.mem_map]
  constructor
  · rintro ⟨r, hr, rfl⟩
    rw [List.mem_filter] at hr
    exact ⟨r, hr.1, rfl, by simpa using hr.2⟩
  · rintro ⟨r, hr, rfl, hk⟩
    exact ⟨r, List.mem_filter.mpr ⟨hr, by simpa using hk⟩, rfl⟩

/-- `checkExact` (what the driver evaluates on every real document state) decides `SummaryExact`. -/
theorem checkExact_iff (src : List SrcRow) (sum : List SumRow) (hsrc : (src.map (·.id)).Nodup) :
    checkExact src sum = true ↔ SummaryExact src sum := by
  have hrows : ∀ k, GroupExact src ⟨0, k, rowsWithKey src k⟩ := by
    intro k
    refine ⟨?_, fun i => mem_rowsWithKey src k i⟩
    unfold rowsWithKey
    exact sortAsc_sorted (nodup_map_filter _ _ hsrc)
  unfold checkExact SummaryExact
  simp only [Bool.and_eq_true, decide_eq_true_eq, List.all_eq_true, List.any_eq_true]
  constructor
  · rintro ⟨⟨⟨h1, h2⟩, h3⟩, h4⟩
    refine ⟨h1, ?_, ?_⟩
    · intro k
      constructor
      · intro hk
        obtain ⟨s, hs, rfl⟩ := List.mem_map.mp hk
        obtain ⟨r, hr, hkr⟩ := h2 s hs
        exact ⟨r, hr, hkr⟩
      · rintro ⟨r, hr, hk⟩
        obtain ⟨s, hs, hsk⟩ := h3 r hr k hk
        exact List.mem_map.mpr ⟨s, hs, hsk⟩
    · intro s hs
      have := h4 s hs
      refine ⟨?_, ?_⟩
      · rw [this]; exact (hrows s.key).1
      · intro i; rw [this]; exact mem_rowsWithKey src s.key i
  · rintro ⟨h1, h2, h3⟩
    refine ⟨⟨⟨h1, ?_⟩, ?_⟩, ?_⟩
    · intro s hs
      obtain ⟨r, hr, hk⟩ := (h2 s.key).mp (List.mem_map.mpr ⟨s, hs, rfl⟩)
      exact ⟨r, hr, hk⟩
    · intro r hr k hk
      obtain ⟨s, hs, hsk⟩ := List.mem_map.mp ((h2 k).mpr ⟨r, hr, hk⟩)
      exact ⟨s, hs, hsk⟩
    · intro s hs
      exact group_unique src s ⟨0, s.key, rowsWithKey src s.key⟩ rfl (h3 s hs) (hrows s.key)

example : checkExact exSrc' (maintain false (build exSrc) exSrc' [1, 3, 4]).sum = true := by decide

end Grist.SummaryModel
