/-
C29  Read-only calls leave the document untouched.
`Engine.get_formula_value` (behind get_formula_error / evaluate_formula) takes an undo checkpoint,
evaluates one cell - which may perform doc actions as side effects (lookupOrAddDerived) - and calls
`_undo_to_checkpoint`.  In the EngineModel that is: from ANY state `st` (mid-bundle or not), a word
of doc steps followed by `rollback` to the lengths of `st`.
-/
import GristProps.C04
namespace Grist.Doc.C29

/-- Whatever doc actions the evaluation performed as side effects, rolling back to the checkpoint
    taken before it returns an observationally equal document and exactly the stored / direct /
    undo lists of the checkpoint, from any starting state (not only the start of a bundle). -/
theorem get_formula_value_restores {st st' : EState} {effects : List (DocAction × Bool)}
    (hwf : WF st.doc) (hn : Normal st.doc) (hlen : st.stored.length = st.direct.length)
    (hargs : ∀ ab ∈ effects, ab.1.rowsPositive ∧ ab.1.colsDistinct)
    (hex : undoExactRun st.doc (effects.map (·.1)))
    (h : stepDocs st effects = .ok st') :
    ∃ st'', rollback st' st.stored.length st.undo.length = .ok st'' ∧ Same st''.doc st.doc ∧
      st''.stored = st.stored ∧ st''.direct = st.direct ∧ st''.undo = st.undo :=
  C04.rollback_restores hwf hn hlen hargs hex h

/-- An evaluation without side effects: the rollback is the identity on the lists. -/
theorem no_side_effects_noop (st : EState) (hlen : st.stored.length = st.direct.length) :
    ∃ st'', rollback st st.stored.length st.undo.length = .ok st'' ∧
      st''.stored = st.stored ∧ st''.direct = st.direct ∧ st''.undo = st.undo ∧ st''.doc = st.doc := by
  refine ⟨{ st with stored := st.stored.take st.stored.length, direct := st.direct.take st.stored.length,
                    undo := st.undo.take st.undo.length }, ?_, ?_, ?_, ?_, rfl⟩
  · simp [rollback, List.drop_length, pure, Except.pure]
  · simp
  · simp [hlen]
  · simp

end Grist.Doc.C29
