/-
C10  Removing rows leaves no references to them.
Property theorems only.  Model: GristModel/Refs.lean; helper lemmas: GristProofs/Refs.lean.

The clean-up in `doBulkRemoveRecord` finds the cells to rewrite through the reverse index
(`ReferenceRelation.inverse_map`) of every column referring to the table.  So the property has two
halves: (1) the index is exact after any sequence of column operations (`inverse_map_exact`), and
(2) on an exact index the computed updates remove every reference to a removed row, keep the other
ids of a RefList in order / None when empty (`remove_clears_refs`) and touch nothing else
(`remove_frame`).
-/
import GristProofs.Refs
namespace Grist.Refs

/-- `BaseColumn.clear()` resets `_data` but NOT the relation (reference columns do not override it).
    The engine calls it only from `load_table`: on a freshly created column, or (ReplaceTableData)
    after every old row has been `unset` — i.e. when no cell refers to anything.  That calling
    condition is a hypothesis for the `clear` operation; all other operations are unconstrained. -/
def ClearOk (c : Col) : Prop := ∀ r, refs c.kind (rawGet c r) = []

def RunOk : Col → List Op → Prop
  | _, [] => True
  | c, op :: ops => (op = .clear → ClearOk c) ∧ ∀ c', step c op = .ok c' → RunOk c' ops

theorem step_exact {c : Col} (hc : Exact c) (op : Op) (hop : op = .clear → ClearOk c) :
    ∃ c', step c op = .ok c' ∧ Exact c' := by
  cases op with
  | set r v => obtain ⟨c', h1, h2, _⟩ := setCell_spec hc r v; exact ⟨c', h1, h2⟩
  | unset r => obtain ⟨c', h1, h2, _⟩ := setCell_spec hc r (dflt c.kind); exact ⟨c', h1, h2⟩
  | copyFrom d => exact ⟨_, rfl, copyFrom_exact c d⟩
  | clear => exact ⟨_, rfl, clearData_exact hc (hop rfl)⟩

/-- The reverse index is exact after ANY sequence of column operations (set / unset /
    copy_from_column / clear-when-empty), starting from any exact column — and no operation ever
    raises (`remove_reference` never hits a missing key). -/
theorem inverse_map_exact_from : ∀ (ops : List Op) (c : Col), Exact c → RunOk c ops →
    ∃ c', run c ops = .ok c' ∧ Exact c' := by
  intro ops
  induction ops with
  | nil => intro c hc _; exact ⟨c, rfl, hc⟩
  | cons op rest ih =>
    intro c hc hok
    obtain ⟨c1, h1, hc1⟩ := step_exact hc op hok.1
    obtain ⟨c2, h2, hc2⟩ := ih c1 hc1 (hok.2 c1 h1)
    exact ⟨c2, by simp only [run, h1]; exact h2, hc2⟩

/-- ... in particular for a column created by the engine (fresh, empty index). -/
theorem inverse_map_exact (k : Kind) (ops : List Op) (h : RunOk (newCol k) ops) :
    ∃ c, run (newCol k) ops = .ok c ∧
      ∀ t r, r ∈ invGet c.inv t ↔ t ∈ refs c.kind (rawGet c r) :=
  inverse_map_exact_from ops (newCol k) (newCol_exact k) h

/-- executable form of the hypothesis (used for the examples) -/
def clearOkB (c : Col) : Bool := c.data.all (fun v => (refs c.kind v).isEmpty)

theorem clearOk_of_B {c : Col} (h : clearOkB c = true) : ClearOk c := by
  intro r
  simp only [clearOkB, List.all_eq_true, List.isEmpty_iff] at h
  unfold rawGet
  by_cases hr : r < c.data.length
  · have : c.data.getD r (dflt c.kind) = c.data[r] := by simp [List.getD, hr]
    rw [this]; exact h _ (List.getElem_mem hr)
  · have : c.data.getD r (dflt c.kind) = dflt c.kind := by
      simp [List.getD, List.getElem?_eq_none (Nat.le_of_not_lt hr)]
    rw [this, refs_dflt]

def runOkB : Col → List Op → Bool
  | _, [] => true
  | c, op :: ops => (op != .clear || clearOkB c) &&
      match step c op with
      | .ok c' => runOkB c' ops
      | .error _ => true

theorem runOk_of_B : ∀ (ops : List Op) (c : Col), runOkB c ops = true → RunOk c ops := by
  intro ops
  induction ops with
  | nil => intro _ _; trivial
  | cons op rest ih =>
    intro c h
    simp only [runOkB, Bool.and_eq_true, Bool.or_eq_true, bne_iff_ne, ne_eq] at h
    refine ⟨fun hop => ?_, fun c' hc' => ?_⟩
    · rcases h.1 with h1 | h1
      · exact absurd hop h1
      · exact clearOk_of_B h1
    · have h2 := h.2
      rw [hc'] at h2
      exact ih c' h2

-- a non-trivial operation sequence satisfying the hypothesis (a wrong-typed value, an overwrite
-- with a duplicate id, a copy, and a clear of an emptied column) and the resulting exact index
example : RunOk (newCol .refList)
    [.set 1 (.refList [2, 3]), .set 2 (.refList [3, 3]), .set 4 .alt, .set 1 (.refList [3]),
     .copyFrom [.none, .refList [2], .ref 5, .refList [1, 2]], .unset 1, .unset 3, .clear,
     .set 2 (.refList [1])] := runOk_of_B _ _ (by decide)

example : (match run (newCol .refList)
    [.set 1 (.refList [2, 3]), .set 2 (.refList [3, 3]), .set 4 .alt, .set 1 (.refList [3])] with
    | .ok c => c.inv | .error _ => []) = [(2, []), (3, [2, 1])] := by decide

/-- The side condition on `clear` is needed: clearing a column that still refers to something
    leaves a stale index entry (this is what `ReplaceTableData` did before the old rows were unset). -/
example : ¬ (∀ ops : List Op, ∀ c, run (newCol .ref) ops = .ok c → Exact c) := by
  intro h
  have h1 := h [.set 1 (.ref 2), .clear] _ rfl
  have := (h1 2 1).mp (by decide)
  revert this
  decide

/-! ### the clean-up -/

/-- After the clean-up for the removed rows `rows` (computed through the reverse index and applied
    as a doc action), on a column whose index is exact:
    * the computation never raises;
    * no cell refers to a removed row any more (Ref) / contains one (RefList);
    * a RefList cell that contained removed rows equals its old list filtered — the other ids in
      their old order — and is None when nothing remains;
    * a Ref cell that pointed at a removed row is 0. -/
theorem remove_clears_refs {c : Col} (hc : Exact c) (rows : List Nat) :
    ∃ c', cleanRemoved c rows = .ok c' ∧ c'.kind = c.kind ∧
      (∀ r t, t ∈ refs c'.kind (rawGet c' r) → t ∉ rows) ∧
      (∀ r l, c.kind = .refList → rawGet c r = .refList l → (∃ x ∈ l, x ∈ rows) →
         rawGet c' r = (if l.filter (fun x => !(rows.contains x)) = [] then Cell.none
                        else Cell.refList (l.filter (fun x => !(rows.contains x))))) ∧
      (∀ r n, c.kind = .ref → rawGet c r = .ref n → n ≠ 0 → n ∈ rows → rawGet c' r = .ref 0) := by
  obtain ⟨c', h1, _, hk, hg⟩ := cleanRemoved_spec hc rows
  refine ⟨c', h1, hk, ?_, ?_, ?_⟩
  · intro r t ht
    rw [hk, hg, refs_cleanCell] at ht
    exact ht.2
  · intro r l hkind hcell ⟨x, hx, hxr⟩
    rw [hg, hcell, hkind]
    have hh : hits .refList rows (.refList l) = true := by
      simp only [hits, refs, List.any_eq_true, List.contains_iff_mem]; exact ⟨x, hx, hxr⟩
    simp only [cleanCell, hh, if_true, List.isEmpty_iff]
  · intro r n hkind hcell hn hnr
    rw [hg, hcell, hkind]
    have hh : hits .ref rows (.ref n) = true := by
      simp only [hits, refs, hn, if_false, List.any_cons, List.any_nil, Bool.or_false,
        List.contains_iff_mem]; exact hnr
    simp only [cleanCell, hh, if_true]

/-- Frame: every cell that does not refer to a removed row — wrong-typed values (alt text) and
    empty cells included — is left exactly as it was, and the index is still exact afterwards. -/
theorem remove_frame {c : Col} (hc : Exact c) (rows : List Nat) :
    ∃ c', cleanRemoved c rows = .ok c' ∧
      (∀ r, (∀ t ∈ refs c.kind (rawGet c r), t ∉ rows) → rawGet c' r = rawGet c r) ∧
      (∀ r, rightType c.kind (rawGet c r) = false → rawGet c' r = rawGet c r) ∧
      (∀ t r, r ∈ invGet c'.inv t ↔ t ∈ refs c'.kind (rawGet c' r)) := by
  obtain ⟨c', h1, hex, hk, hg⟩ := cleanRemoved_spec hc rows
  have hframe : ∀ r, (∀ t ∈ refs c.kind (rawGet c r), t ∉ rows) → rawGet c' r = rawGet c r := by
    intro r hr
    rw [hg]
    apply cleanCell_of_not_hits
    simp only [hits, Bool.eq_false_iff, ne_eq, List.any_eq_true, List.contains_iff_mem, not_exists,
      not_and]
    exact hr
  refine ⟨c', h1, hframe, ?_, hex⟩
  intro r hr
  apply hframe
  rw [refs_of_not_rightType hr]
  simp

-- hypotheses are satisfiable on a non-trivial column: duplicates, a wrong-typed cell, several rows
-- referring to the removed rows 3 and 1; the result keeps [2] / [2] in order and empties row 2.
example : Exact (colOf .refList [.none, .refList [2, 3], .refList [3], .alt, .refList [1, 2, 1]]) :=
  copyFrom_exact _ _

example : (match cleanRemoved (colOf .refList [.none, .refList [2, 3], .refList [3], .alt, .refList [1, 2, 1]]) [3, 1] with
    | .ok c => c.data | .error _ => []) = [.none, .refList [2], .none, .alt, .refList [2]] := by decide

example : (match cleanRemoved (colOf .ref [.ref 0, .ref 2, .ref 3, .alt, .ref 1]) [3, 1] with
    | .ok c => c.data | .error _ => []) = [.ref 0, .ref 2, .ref 0, .alt, .ref 0] := by decide

/-- Exactness of the index is needed: with a stale entry the clean-up of a RefList column raises
    (`[r for r in None ...]`), and with a missing entry it leaves a reference behind. -/
example : cleanRemoved { kind := .refList, data := [.none, .none], inv := [(2, [1])] } [2]
    = .error .typeError := by rfl

example : (match cleanRemoved { kind := .ref, data := [.ref 0, .ref 2], inv := [] } [2] with
    | .ok c => c.data | .error _ => []) = [.ref 0, .ref 2] := by decide

end Grist.Refs
