import GristModel.Engine
namespace Grist.Doc
theorem placeholder_c31 : True := trivial
end Grist.Doc
