/-
C31  Actions are marked direct only when the user asked for them.
Property theorems about the engine model (GristModel/Engine.lean); helper lemmas are in
GristProofs/EngineLists.lean.
-/
import GristProofs.EngineLists
namespace Grist.Doc

/-! ### (A1)–(A3) the direct flags run parallel to the stored actions -/

/-- (A1) every kind of step keeps `direct` parallel to `stored`. -/
theorem direct_parallel_step {st st' : EState} {s : Step}
    (hl : st.stored.length = st.direct.length) (h : step st s = .ok st') :
    st'.stored.length = st'.direct.length :=
  step_parallel hl h

/-- (A2) so does every word of steps (a bundle). -/
theorem direct_parallel_run {st st' : EState} {w : List Step}
    (hl : st.stored.length = st.direct.length) (h : run st w = .ok st') :
    st'.stored.length = st'.direct.length :=
  run_parallel w hl h

/-- (A3) and so does `_undo_to_checkpoint`. -/
theorem direct_parallel_rollback {st st' : EState} {ls lu : Nat}
    (hl : st.stored.length = st.direct.length) (h : rollback st ls lu = .ok st') :
    st'.stored.length = st'.direct.length :=
  rollback_parallel hl h

/-! ### (A4) flushes mark their actions non-direct; a doc step records exactly the given flag -/

theorem flush_marks_nondirect_finish (st : EState) :
    (∃ ext, (stepFinish st).stored = st.stored ++ ext) ∧
    (stepFinish st).direct =
      st.direct ++ List.replicate ((stepFinish st).stored.length - st.stored.length) false :=
  ⟨stepFinish_stored_prefix st, stepFinish_direct st⟩

theorem flush_marks_nondirect_flushcol {st st' : EState} {t c : String}
    (h : stepFlushCol st t c = .ok st') :
    (∃ ext, st'.stored = st.stored ++ ext) ∧
    st'.direct = st.direct ++ List.replicate (st'.stored.length - st.stored.length) false := by
  obtain ⟨ext, h1, h2, _⟩ := stepFlushCol_append h
  exact ⟨⟨ext, h1⟩, by rw [h2, h1]; simp⟩

theorem doc_step_marks_given_flag {st st' : EState} {a : DocAction} {b : Bool}
    (h : stepDoc st a b = .ok st') :
    st'.stored = st.stored ++ [a] ∧ st'.direct = st.direct ++ [b] :=
  stepDoc_append h

/-- (A4), all step kinds at once: a step appends a block `ext` to `stored` and a parallel block
    `fl` to `direct`, where (`StepTags`) a `doc a b` step has `ext = [a]`, `fl = [b]`, a `calc`
    step appends nothing, and the flush steps append only `false` flags. -/
theorem flush_marks_nondirect {st st' : EState} {s : Step} (h : step st s = .ok st') :
    ∃ ext fl, StepTags s ext fl ∧ st'.stored = st.stored ++ ext ∧ st'.direct = st.direct ++ fl :=
  step_append h

/-! ### (A5) the flags of a whole word -/

/-- (A5) Running a word appends to `stored`/`direct` the concatenation of one block per step
    (`WordTags`: `[a]`/`[b]` for `doc a b`, nothing for `calc`, an all-`false` block for a flush). -/
theorem direct_flags_of_word {st st' : EState} {w : List Step} (h : run st w = .ok st') :
    ∃ ext fl, WordTags w ext fl ∧ st'.stored = st.stored ++ ext ∧ st'.direct = st.direct ++ fl :=
  run_append w h

/-- (A5) Started with empty lists, the stored actions flagged direct are exactly the actions of the
    `doc _ true` steps of the word, in order and with multiplicity. -/
theorem direct_actions_are_direct_doc_steps {st st' : EState} {w : List Step}
    (hs : st.stored = []) (hd : st.direct = []) (h : run st w = .ok st') :
    directActions st'.stored st'.direct = directDocSteps w := by
  have := run_directActions (w := w) (by rw [hs, hd]; rfl) h
  rw [this, hs, hd]; rfl

/-- (A5) positional: a `true` at index `i` of the final `direct` sits on a stored action that was
    appended by a `doc _ true` step. -/
theorem direct_true_only_from_direct_doc_step {st st' : EState} {w : List Step}
    (hs : st.stored = []) (hd : st.direct = []) (h : run st w = .ok st')
    (i : Nat) (hi : st'.direct[i]? = some true) :
    ∃ a, st'.stored[i]? = some a ∧ Step.doc a true ∈ w := by
  obtain ⟨ext, fl, hw, e1, e2⟩ := run_append w h
  rw [hs, List.nil_append] at e1
  rw [hd, List.nil_append] at e2
  rw [e1]; rw [e2] at hi
  exact hw.true_flag_from_doc_step i hi

/-- (A5) conversely each `doc a b` step of a successful word shows up with its own flag. -/
theorem doc_step_keeps_its_flag {st st' : EState} {w1 w2 : List Step} {a : DocAction} {b : Bool}
    (hs : st.stored = []) (hd : st.direct = []) (h : run st (w1 ++ Step.doc a b :: w2) = .ok st') :
    ∃ i : Nat, st'.stored[i]? = some a ∧ st'.direct[i]? = some b := by
  obtain ⟨ext, fl, hw, e1, e2⟩ := run_append _ h
  rw [hs, List.nil_append] at e1
  rw [hd, List.nil_append] at e2
  rw [e1, e2]
  exact hw.doc_step_flag

/-- the number of `true` flags is the number of `doc _ true` steps -/
theorem direct_true_count {st st' : EState} {w : List Step}
    (hs : st.stored = []) (hd : st.direct = []) (h : run st w = .ok st') :
    st'.direct.count true = (directDocSteps w).length := by
  have hp := run_parallel w (by rw [hs, hd]; rfl) h
  rw [← direct_actions_are_direct_doc_steps hs hd h, directActions_length _ _ hp]

/-! ### non-vacuity -/

def exInfo : ColInfo := { type := "Int", isFormula := false, formula := "", reverseColId := none }
def exFInfo : ColInfo := { type := "Int", isFormula := true, formula := "$A", reverseColId := none }
def exDoc : Doc :=
  [{ id := "T", rows := [1, 2],
     cols := [{ id := "A", info := exInfo, cells := fun _ => .int 0 },
              { id := "B", info := exFInfo, cells := fun _ => .int 0 }] }]
def exSt : EState := { doc := exDoc }
def exWord : List Step :=
  [.doc (.bulkUpdate "T" [1] [("A", [.int 5])]) true,
   .calc "T" "B" [(1, .int 0, .int 5)],
   .finish]

example : ∃ st', run exSt exWord = .ok st' ∧
    st'.stored = [.bulkUpdate "T" [1] [("A", [.int 5])], .bulkUpdate "T" [1] [("B", [.int 5])]] ∧
    st'.direct = [true, false] := by
  refine ⟨_, rfl, ?_, ?_⟩
  · decide +kernel
  · decide +kernel

/-- a `flushcol` step (type conversion of a column while data is entered): its update is
    marked non-direct, after the direct `ModifyColumn` -/
def exWord2 : List Step :=
  [.doc (.modifyColumn "T" "B" { formula := some "$A+1" }) true,
   .calc "T" "B" [(2, .int 0, .int 1)],
   .flushcol "T" "B"]

example : ∃ st', run exSt exWord2 = .ok st' ∧
    st'.stored = [.modifyColumn "T" "B" { formula := some "$A+1" },
                  .bulkUpdate "T" [2] [("B", [.int 1])]] ∧
    st'.direct = [true, false] := by
  refine ⟨_, rfl, ?_, ?_⟩
  · decide +kernel
  · decide +kernel

/-- a rollback to the checkpoint (0, 0) after one doc step: succeeds and leaves empty lists -/
example : ∃ st1 st', run exSt [.doc (.bulkUpdate "T" [1] [("A", [.int 5])]) true] = .ok st1 ∧
    rollback st1 0 0 = .ok st' ∧ st'.stored.length = st'.direct.length := by
  refine ⟨_, _, rfl, rfl, ?_⟩
  rfl

end Grist.Doc
