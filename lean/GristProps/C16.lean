/-
C16  Renames never change formula results.
Property theorems only.  Model: GristModel/FormulaRename.lean; proofs: GristProofs/FormulaRename.lean
(printing, pieces, patches) and GristProofs/FormulaRenameEval.lean (evaluator, typing).

Reading of the property (see also harness/gx/props/c16.py):
  * "formula programs using the supported reference forms" = `FExpr` whose name annotations agree
    with the schema (`HasTy`; decided by `check`, `checked_hasTy`).  That astroid's inference finds
    exactly these occurrences is NOT proved here (modelled-not-verified; tied differentially).
  * "any requested name" = after sanitising/disambiguation (C21) the new id is non-empty and not in
    use: `ρ.new ≠ []`, `Fresh ρ d`.  For the VALUE clause the code additionally needs `ρ.Safe` (new
    column id not `order_by`/`sort_by`, table ids not IF/PREVIOUS/NEXT/RANK): without it the clause is
    false of the code (`rename_to_reserved_keyword_is_false`, `rename_to_function_name_is_false`).
  * "leaves every formula value unchanged" = `rename_preserves_eval`: the renamed formula evaluated in
    the renamed document gives the same value, keyed through the rename (a record of a renamed table
    carries the new table id; nothing else differs: `rename_column_value_identical`,
    `rename_scalar_value_identical`).
  * "are rewritten, and only those name tokens change in the formula text" = `print_rename_eq_patch`
    (what `_prepare_formula_renames` writes back = the print of the renamed tree, for every trivia and
    whatever the order in which occurrences are discovered), `rename_only_denoting_tokens`,
    `rename_text_outside_patches`.
-/
import GristProofs.FormulaRename
import GristProofs.FormulaRenameEval
import GristProps.C37
namespace Grist.FormulaRename
open Grist.Textbuilder (Str Patch applyPatches sortPatches NonOverlapping Ordered slice shift lastEnd
  replacerBuild)

/-! ### (0) the checker used by the driver decides the typing the theorems assume -/

/-- **C16 (checker).**  Whenever the computable `check` (run by the driver on every generated
    formula) accepts, the declarative typing `HasTy` holds. -/
theorem checked_hasTy {d : Doc} {cur : Name} (e : FExpr) (Γ : List (Name × Name)) (τ : Ty)
    (h : check d cur Γ e = some τ) : HasTy d cur Γ e τ :=
  check_sound e Γ τ h

/-! ### (1) values -/

/-- **C16 (rename_preserves_eval).**  For every document, every fresh rename, every well-typed
    formula, every row and every binding of comprehension variables: evaluating the renamed formula
    in the renamed document gives the value of the original formula in the original document, keyed
    through the rename. -/
theorem rename_preserves_eval {ρ : Ren} {d : Doc} (hf : Fresh ρ d) (hs : ρ.Safe) {cur : Name}
    {Γ : List (Name × Name)} {e : FExpr} {τ : Ty} (h : HasTy d cur Γ e τ) (row : Nat)
    (env : List (Name × Name × Nat)) (henv : EnvOk Γ env) :
    eval (renameDoc ρ d) (ρ.tabOf cur) row (renEnv ρ env) (rename ρ e) =
      renameVal ρ (eval d cur row env e) :=
  eval_rename hf hs h row env henv

/-- The run-time table of every record is the statically assigned one (what makes the static
    rewriting correct for Python's dynamic attribute lookup). -/
theorem eval_type_sound {d : Doc} {cur : Name} {Γ : List (Name × Name)} {e : FExpr} {τ : Ty}
    (h : HasTy d cur Γ e τ) (row : Nat) (env : List (Name × Name × Nat)) (henv : EnvOk Γ env) :
    ValHasTy d (eval d cur row env e) τ :=
  eval_sound h row env henv

theorem renAtom_col (T o n : Name) (a : Atom) : renAtom (.col T o n) a = a := by
  cases a <;> rfl

theorem map_eq_self {α : Type} {f : α → α} : ∀ (l : List α), (∀ a ∈ l, f a = a) → l.map f = l
  | [], _ => rfl
  | a :: l, h => by
    rw [List.map_cons, h a (by simp), map_eq_self l (fun b hb => h b (by simp [hb]))]

/-- **C16 (column rename: identical values).**  A column rename leaves every formula value
    literally unchanged (errors included). -/
theorem rename_column_value_identical {T o n : Name} {d : Doc} (hf : Fresh (.col T o n) d)
    (hs : reservedKw n = false)
    {cur : Name} {e : FExpr} {τ : Ty} (h : HasTy d cur [] e τ) (hτ : ∀ t, τ ≠ .kws t) (row : Nat) :
    eval (renameDoc (.col T o n) d) cur row [] (rename (.col T o n) e) = eval d cur row [] e := by
  have h1 := eval_rename hf (show (Ren.col T o n).Safe from hs) h row [] rfl
  have h2 := eval_sound h row [] rfl
  simp only [Ren.tabOf, renEnv, List.map_nil] at h1
  rw [h1]
  cases hv : eval d cur row [] e with
  | atom a => simp only [renameVal, renAtom_col]
  | recs t ids => rfl
  | list as =>
    simp only [renameVal]
    congr 1
    exact map_eq_self as (fun a _ => renAtom_col T o n a)
  | err x => rfl
  | kws t l ob =>
    rw [hv] at h2
    cases τ with
    | kws t' => exact absurd rfl (hτ t')
    | atom a => cases h2
    | recs t' => cases h2
    | list a => cases h2

/-- Result types whose values carry no table id. -/
def Scalar : Ty → Prop
  | .atom (.rcd _) => False
  | .list (.rcd _) => False
  | .atom _ => True
  | .list _ => True
  | _ => False

theorem renAtom_scalar (ρ : Ren) {a : Atom} {τ : ATy} (h : AtomHasTy a τ) (hτ : ∀ t, τ ≠ .rcd t) :
    renAtom ρ a = a := by
  cases a with
  | rcd t id =>
    cases τ with
    | rcd t' => exact absurd rfl (hτ t')
    | int => cases h
    | text => cases h
    | bool => cases h
  | int n => rfl
  | str s => rfl
  | bool b => rfl

/-- **C16 (any rename: identical scalar values).**  Also under a table rename, a formula of type
    Int / Text / Bool (or a list of such) has literally the same value in every row. -/
theorem rename_scalar_value_identical {ρ : Ren} {d : Doc} (hf : Fresh ρ d) (hs : ρ.Safe) {cur : Name}
    {e : FExpr} {τ : Ty} (h : HasTy d cur [] e τ) (hτ : Scalar τ) (row : Nat) :
    eval (renameDoc ρ d) (ρ.tabOf cur) row [] (rename ρ e) = eval d cur row [] e := by
  have h1 := eval_rename (ρ := ρ) hf hs h row [] rfl
  have h2 := eval_sound h row [] rfl
  simp only [renEnv, List.map_nil] at h1
  rw [h1]
  cases hv : eval d cur row [] e with
  | err x => rfl
  | atom a =>
    rw [hv] at h2
    cases τ with
    | atom τa =>
      have : renAtom ρ a = a := renAtom_scalar ρ h2 (by intro t ht; subst ht; exact hτ)
      simp only [renameVal, this]
    | recs t => cases h2
    | list x => cases h2
    | kws t => cases h2
  | list as =>
    rw [hv] at h2
    cases τ with
    | list τa =>
      simp only [renameVal]
      congr 1
      exact map_eq_self as
        (fun a ha => renAtom_scalar ρ (h2 a ha) (by intro t ht; subst ht; exact hτ))
    | recs t => cases h2
    | atom x => cases h2
    | kws t => cases h2
  | recs t ids =>
    rw [hv] at h2
    cases τ with
    | recs t' => cases hτ
    | atom x => cases h2
    | list x => cases h2
    | kws t' => cases h2
  | kws t l ob =>
    rw [hv] at h2
    cases τ with
    | kws t' => cases hτ
    | atom x => cases h2
    | list x => cases h2
    | recs t' => cases h2

/-! ### (2) formula text -/

/-- The patches of `_prepare_formula_renames` for the rendered formula (occurrences discovered in
    any order) are a set of non-overlapping patches, and applying them (sorted, as `Replacer` does)
    gives the rendering of the renamed tree with the SAME trivia. -/
theorem patches_core (ρ : Ren) (hnew : ρ.new ≠ []) (e : FExpr) (triv : List Str) (os : List Occ)
    (hne : ∀ tk ∈ print e, NameNe tk) (hperm : os.Perm (occs 0 triv (print e))) :
    NonOverlapping (render triv (print e)) (makePatches ρ (render triv (print e)) os) ∧
    applyPatches (render triv (print e)) (sortPatches (makePatches ρ (render triv (print e)) os)) =
      render triv (print (rename ρ e)) := by
  have hok : ∀ tk ∈ print e, TokOk tk ∧ NameNe tk := fun tk h => ⟨tokOk_print e tk h, hne tk h⟩
  obtain ⟨s1, s2, s3⟩ := patches_spec ρ hnew (print e) triv [] (render triv (print e)) hok (by simp)
  simp only [List.length_nil, List.nil_append] at s1 s2 s3
  have hp : (makePatches ρ (render triv (print e)) os).Perm
      (makePatches ρ (render triv (print e)) (occs 0 triv (print e))) := by
    unfold makePatches
    exact hperm.filterMap _
  have hno0 : NonOverlapping (render triv (print e))
      (makePatches ρ (render triv (print e)) (occs 0 triv (print e))) := by
    refine ⟨?_, ?_⟩
    · intro q hq
      obtain ⟨a, b, c, dd⟩ := s2 q hq
      exact ⟨by simpa using a, by omega, c, dd⟩
    · exact s3.imp (fun h => Or.inl h)
  have hno : NonOverlapping (render triv (print e)) (makePatches ρ (render triv (print e)) os) := by
    refine ⟨fun q hq => hno0.1 q (hp.mem_iff.mp hq), ?_⟩
    exact hp.symm.pairwise hno0.2 (fun {x y} h => by rcases h with h | h; exact Or.inr h; exact Or.inl h)
  refine ⟨hno, ?_⟩
  have hsorted0 := patches_sorted _ s3 (fun q hq => (s2 q hq).2.1)
  have hsorted : (sortPatches (makePatches ρ (render triv (print e)) os)).Pairwise
      (fun a b => Textbuilder.Patch.le a b = true) :=
    List.pairwise_mergeSort Textbuilder.Patch.le_trans' Textbuilder.Patch.le_total' _
  have hperm2 : (sortPatches (makePatches ρ (render triv (print e)) os)).Perm
      (makePatches ρ (render triv (print e)) (occs 0 triv (print e))) :=
    (List.mergeSort_perm _ _).trans hp
  have heq := List.Perm.eq_of_pairwise (le := fun a b => Textbuilder.Patch.le a b = true)
    (fun a b _ _ h1 h2 => Patch.le_antisymm a b h1 h2) hsorted hsorted0 hperm2
  rw [heq, s1, print_rename]

/-- **C16 (print_rename_eq_patch).**  For every formula tree, every trivia between its pieces and
    every order of the discovered occurrences: `_prepare_formula_renames` succeeds, and the text it
    stores (or the old text, when it stores nothing) is exactly the print of the renamed tree. -/
theorem print_rename_eq_patch (ρ : Ren) (hnew : ρ.new ≠ []) (e : FExpr) (triv : List Str)
    (os : List Occ) (hne : ∀ tk ∈ print e, NameNe tk) (hperm : os.Perm (occs 0 triv (print e))) :
    ∃ r, prepareFormula ρ (render triv (print e)) os = .ok r ∧
      r.getD (render triv (print e)) = render triv (print (rename ρ e)) := by
  obtain ⟨hno, happ⟩ := patches_core ρ hnew e triv os hne hperm
  obtain ⟨tb, hb, htext⟩ := Textbuilder.replacer_text_eq_applyPatches _ _ hno
  unfold prepareFormula
  cases hps : makePatches ρ (render triv (print e)) os with
  | nil =>
    refine ⟨none, rfl, ?_⟩
    rw [hps] at happ
    simpa [sortPatches, applyPatches] using happ
  | cons q qs =>
    rw [hps] at hb htext happ
    simp only [hb]
    exact ⟨some tb.outText, rfl, by simp only [Option.getD_some]; rw [htext, happ]⟩

/-- **C16 (every other character unchanged).**  Split the sorted patches anywhere; every stretch of
    the old text between the patches before and the patches after the split appears unchanged in
    the new text, moved by the length change of the patches before it (C37 `only_patched_changed`). -/
theorem rename_text_outside_patches (ρ : Ren) (hnew : ρ.new ≠ []) (e : FExpr) (triv : List Str)
    (os : List Occ) (hne : ∀ tk ∈ print e, NameNe tk) (hperm : os.Perm (occs 0 triv (print e)))
    (pre post : List Patch) (x y : Int)
    (hsplit : sortPatches (makePatches ρ (render triv (print e)) os) = pre ++ post)
    (hlo : lastEnd 0 pre ≤ x) (hxy : x ≤ y) (hhi : ∀ q ∈ post, y ≤ q.start)
    (hlen : y ≤ (render triv (print e)).length) :
    slice (render triv (print (rename ρ e))) (x + shift pre) (y + shift pre) =
      slice (render triv (print e)) x y := by
  obtain ⟨hno, happ⟩ := patches_core ρ hnew e triv os hne hperm
  obtain ⟨tb, hb, htext⟩ := Textbuilder.replacer_text_eq_applyPatches _ _ hno
  have := Textbuilder.only_patched_changed _ _ pre post x y tb hno hsplit hb hlo hxy hhi hlen
  rw [htext, happ] at this
  exact this

/-- The entity a rename is about, as a denotation. -/
def Ren.target : Ren → Name × Option Name
  | .col T o _ => (T, some o)
  | .tab o _ => (o, none)

theorem renTok_text_of_ne (ρ : Ren) (tk : Tok) (hok : TokOk tk) (hden : tk.den ≠ some ρ.target) :
    (renTok ρ tk).text = tk.text := by
  obtain ⟨text, den⟩ := tk
  cases den with
  | none => rfl
  | some dn =>
    obtain ⟨t, c⟩ := dn
    cases c with
    | none =>
      have ht : text = t := hok
      subst ht
      cases ρ with
      | col T o n => rfl
      | tab o n =>
        have : text ≠ o := by intro h; subst h; exact hden rfl
        simp [renTok, Ren.tabOf, this]
    | some c =>
      have ht : text = c := hok
      subst ht
      cases ρ with
      | tab o n => rfl
      | col T o n =>
        have : ¬ (t = T ∧ text = o) := by rintro ⟨rfl, rfl⟩; exact hden rfl
        simp [renTok, Ren.colOf, this]

/-- **C16 (rename_only_denoting_tokens).**  The renamed formula has the same pieces in the same
    order; a piece that does not denote the renamed entity — a same-named column of another table, a
    comprehension variable, a string, a keyword — keeps its text. -/
theorem rename_only_denoting_tokens (ρ : Ren) (e : FExpr) (i : Nat) (tk : Tok)
    (h : (print e)[i]? = some tk) (hden : tk.den ≠ some ρ.target) :
    (print (rename ρ e)).length = (print e).length ∧
    ((print (rename ρ e))[i]?).map (·.text) = some tk.text := by
  rw [print_rename]
  refine ⟨List.length_map _, ?_⟩
  rw [List.getElem?_map, h]
  simp only [Option.map_some]
  rw [renTok_text_of_ne ρ tk (tokOk_print e tk (List.mem_of_getElem? h)) hden]

/-- …and a piece that does denote it is spelled with the new name. -/
theorem rename_denoting_tokens (ρ : Ren) (e : FExpr) (i : Nat) (tk : Tok)
    (h : (print e)[i]? = some tk) (hden : tk.den = some ρ.target) :
    ((print (rename ρ e))[i]?).map (·.text) = some ρ.new := by
  rw [print_rename, List.getElem?_map, h]
  simp only [Option.map_some]
  obtain ⟨text, den⟩ := tk
  simp only at hden
  subst hden
  cases ρ with
  | col T o n => simp [renTok, Ren.target, Ren.colOf, Ren.new]
  | tab o n => simp [renTok, Ren.target, Ren.tabOf, Ren.new]

/-! ### Non-vacuity: concrete inputs -/

namespace Ex
def Aa : Name := ['A', 'a']
def Bb : Name := ['B', 'b']
def idc : Name := ['i', 'd']
def n : Name := ['n']
def r : Name := ['r']
def pc : Name := ['p']
def m : Name := ['m', '2']
def x : Name := ['x']

/-- Aa(id, n, r: Ref:Bb) with rows 1,2;  Bb(id, n, p: Ref:Aa) with rows 1,2,3. -/
def doc : Doc :=
  [ { name := Aa, ids := [1, 2],
      cols := [⟨idc, .int, [.int 1, .int 2]⟩, ⟨n, .int, [.int 10, .int 20]⟩, ⟨r, .ref Bb, [.ref 2, .ref 0]⟩] },
    { name := Bb, ids := [1, 2, 3],
      cols := [⟨idc, .int, [.int 1, .int 2, .int 3]⟩, ⟨n, .int, [.int 5, .int 6, .int 7]⟩,
               ⟨pc, .ref Aa, [.ref 1, .ref 1, .ref 2]⟩] } ]

/-- `(sum([x.n for x in Bb.lookupRecords(p=$id, order_by="-n")]) + $r.n)` in table Aa. -/
def e1 : FExpr :=
  .binop .add
    (.sum (.compr (.attr (.var x) Bb n) x
      (.lookup false Bb (.kw Bb pc (.dollar Aa idc) (.kwEnd Bb (some ⟨[(true, n)], false, false⟩))))))
    (.attr (.dollar Aa r) Bb n)

/-- `[n.n for n in Bb.all]`: the comprehension variable is spelled like the column. -/
def e2 : FExpr := .compr (.attr (.var n) Bb n) n (.all Bb)

/-- `IF(($n == 1), 0, Bb.lookupOne(n=$n).p.n)` in table Aa: `$n` and the `.n` at the end are Aa.n;
    the keyword `n=` is Bb.n. -/
def e3 : FExpr :=
  .ifE (.binop .eq (.dollar Aa n) (.lit 1)) (.lit 0)
    (.attr (.attr (.lookup true Bb (.kw Bb n (.dollar Aa n) (.kwEnd Bb none))) Bb pc) Aa n)

def ρ1 : Ren := .col Bb n m
def ρ2 : Ren := .tab Bb ['C', 'c']

/-- Bb(id, n) with rows 1, 2. -/
def doc2 : Doc :=
  [ { name := Bb, ids := [1, 2], cols := [⟨idc, .int, [.int 1, .int 2]⟩, ⟨n, .int, [.int 5, .int 6]⟩] } ]
/-- `Bb.lookupOne(n=6).n` -/
def e4 : FExpr := .attr (.lookup true Bb (.kw Bb n (.lit 6) (.kwEnd Bb none))) Bb n
/-- `IF(($n<6),1,2)` -/
def e5 : FExpr := .ifE (.binop .lt (.dollar Bb n) (.lit 6)) (.lit 1) (.lit 2)
def ρ3 : Ren := .col Bb n "order_by".toList
def ρ4 : Ren := .tab Bb "IF".toList
end Ex

/-
-- FULL STATEMENT (unproved): `rename_preserves_eval` without the hypothesis `ρ.Safe`, i.e. for EVERY
-- fresh new id:
--   ∀ ρ d cur e τ row, Fresh ρ d → HasTy d cur [] e τ →
--     eval (renameDoc ρ d) (ρ.tabOf cur) row [] (rename ρ e) = renameVal ρ (eval d cur row [] e)
-- It is FALSE of the code as it is, in two ways (both replayed on the real engine by
-- harness/gx/props/c16.py, recorded findings):
--  * a column renamed to `order_by` (or `sort_by`): `Bb.lookupOne(n=6).n` becomes
--    `Bb.lookupOne(order_by=6).order_by`, where the keyword is the lookup's own sorting parameter;
--  * a table renamed to `IF` (or PREVIOUS / NEXT / RANK): the table class is defined after
--    `from functions import *` and shadows the function every formula calls.
-- (Also outside the model: the live engine's cached sort keys, see the recorded finding about
--  order_by key columns; `eval` is what a freshly loaded engine computes.)
-/
open Ex in
/-- The negation of the full statement, witness 1: new column id `order_by`. -/
theorem rename_to_reserved_keyword_is_false :
    ¬ (∀ (ρ : Ren) (d : Doc) (cur : Name) (e : FExpr) (τ : Ty) (row : Nat), Fresh ρ d →
        HasTy d cur [] e τ →
        eval (renameDoc ρ d) (ρ.tabOf cur) row [] (rename ρ e) = renameVal ρ (eval d cur row [] e)) := by
  intro h
  have := h ρ3 doc2 Bb e4 (.atom .int) 1 (by unfold Fresh ρ3; decide)
    (checked_hasTy e4 [] _ (by decide))
  revert this
  decide

open Ex in
/-- The negation of the full statement, witness 2: new table id `IF`. -/
theorem rename_to_function_name_is_false :
    ¬ (∀ (ρ : Ren) (d : Doc) (cur : Name) (e : FExpr) (τ : Ty) (row : Nat), Fresh ρ d →
        HasTy d cur [] e τ →
        eval (renameDoc ρ d) (ρ.tabOf cur) row [] (rename ρ e) = renameVal ρ (eval d cur row [] e)) := by
  intro h
  have := h ρ4 doc2 Bb e5 (.atom .int) 1 (by unfold Fresh ρ4; decide)
    (checked_hasTy e5 [] _ (by decide))
  revert this
  decide

open Ex in
example : eval doc2 Bb 1 [] e4 = .atom (.int 6) ∧
    eval (renameDoc ρ3 doc2) Bb 1 [] (rename ρ3 e4) = .err .typeError := by decide
open Ex in
example : eval doc2 Bb 1 [] e5 = .atom (.int 1) ∧
    eval (renameDoc ρ4 doc2) (ρ4.tabOf Bb) 1 [] (rename ρ4 e5) = .err .typeError := by decide
open Ex in
example : ρ1.Safe ∧ ρ2.Safe := by unfold ρ1 ρ2 Ren.Safe; decide

open Ex in
example : Fresh ρ1 doc := by unfold Fresh ρ1; decide
open Ex in
example : Fresh ρ2 doc := by unfold Fresh ρ2; decide
open Ex in
example : check doc Aa [] e1 = some (.atom .int) := by decide
open Ex in
example : check doc Aa [] e2 = some (.list .int) := by decide
open Ex in
example : check doc Aa [] e3 = some (.atom .int) := by decide
-- hypotheses of `rename_preserves_eval` / `rename_column_value_identical` for e1, and the values
open Ex in
example : HasTy doc Aa [] e1 (.atom .int) := checked_hasTy e1 [] _ (by decide)
open Ex in
example : eval doc Aa 1 [] e1 = .atom (.int 17) := by decide
open Ex in
example : eval (renameDoc ρ1 doc) Aa 1 [] (rename ρ1 e1) = .atom (.int 17) := by decide
open Ex in
example : eval (renameDoc ρ2 doc) Aa 1 [] (rename ρ2 e1) = .atom (.int 17) := by decide
-- record-valued result under a table rename: keyed through the rename
open Ex in
example : eval doc Aa 1 [] (.dollar Aa r) = .atom (.rcd Bb 2) ∧
    eval (renameDoc ρ2 doc) Aa 1 [] (rename ρ2 (.dollar Aa r)) = .atom (.rcd ['C', 'c'] 2) := by decide
-- an error stays the same error: max([]) in row 2 of Aa (no Bb row points to ... n = 99)
open Ex in
example : eval doc Aa 2 [] (.max (.attr (.lookup false Bb (.kw Bb n (.lit 99) (.kwEnd Bb none))) Bb n))
    = .err .valueError := by decide
-- pieces: e2 printed, and after renaming Bb.n -> m2 only the denoting piece changed
open Ex in
example : (print e2).map (·.text) =
    [['['], n, ['.'], n, ['f', 'o', 'r'], n, ['i', 'n'], Bb, ['.'], ['a', 'l', 'l'], [']']] := by decide
open Ex in
example : (print (rename ρ1 e2)).map (·.text) =
    [['['], n, ['.'], m, ['f', 'o', 'r'], n, ['i', 'n'], Bb, ['.'], ['a', 'l', 'l'], [']']] := by decide
-- e3: renaming Aa.n leaves the keyword `n=` (Bb.n) alone and vice versa
open Ex in
example : (print (rename (.col Aa n m) e3)).map (·.text) =
    [['I', 'F'], ['('], ['('], ['$'], m, ['=', '='], ['1'], [')'], [','], ['0'], [','],
     Bb, ['.'], ['l', 'o', 'o', 'k', 'u', 'p', 'O', 'n', 'e'], ['('], n, ['='], ['$'], m, [')'],
     ['.'], pc, ['.'], m, [')']] := by decide
open Ex in
example : (print (rename ρ1 e3)).map (·.text) =
    [['I', 'F'], ['('], ['('], ['$'], n, ['=', '='], ['1'], [')'], [','], ['0'], [','],
     Bb, ['.'], ['l', 'o', 'o', 'k', 'u', 'p', 'O', 'n', 'e'], ['('], m, ['='], ['$'], n, [')'],
     ['.'], pc, ['.'], n, [')']] := by decide
-- hypotheses of `print_rename_eq_patch`: names non-empty, occurrences in reverse discovery order
open Ex in
example : ∀ tk ∈ print e2, NameNe tk := by decide
open Ex in
example : ((occs 0 [[' ']] (print e2)).reverse).Perm (occs 0 [[' ']] (print e2)) := List.reverse_perm _
open Ex in
example : ∃ r, prepareFormula ρ1 (render [[' ']] (print e2)) (occs 0 [[' ']] (print e2)).reverse = .ok r ∧
    r.getD (render [[' ']] (print e2)) = render [[' ']] (print (rename ρ1 e2)) :=
  print_rename_eq_patch ρ1 (by decide) e2 [[' ']] _ (by decide) (List.reverse_perm _)
open Ex in
example : occs 0 [[' ']] (print e2) = [(4, Bb, some n), (11, Bb, none)] := by decide
-- the patch list of `rename_text_outside_patches` for that input (one patch; the split pre = [],
-- post = [it] gives: the text before position 4 is unchanged, the split pre = [it], post = [] gives:
-- the text from position 5 on is unchanged, moved by shift = +1)
open Ex in
example : makePatches ρ1 (render [[' ']] (print e2)) (occs 0 [[' ']] (print e2)) =
    [⟨4, 5, n, m⟩] := by decide
open Ex in
example : Textbuilder.shift [(⟨4, 5, n, m⟩ : Textbuilder.Patch)] = 1 := by decide
open Ex in
example : ρ1.new ≠ [] := by decide

end Grist.FormulaRename
