/-
C15  Trigger formulas recalculate exactly when configured.
Property theorems only.  Model: GristModel/Trigger.lean (mechanism `runBundle`, specification
`RecalcSet` / `recalcB`, domain `inDomain`); helper development: GristProofs/Trigger.lean.
-/
import GristModel.Trigger
import GristProofs.Trigger
namespace Grist.Trigger

/-! ### unpacking a run -/

theorem runBundle_ok (env : Env) (cfg : Config) (edges alive dirty0 : List Nat) (b : List UA)
    (res : Result) (h : runBundle env cfg edges alive dirty0 b = .ok res) :
    ∃ st', runUAs env { cfg := cfg, edges := edges, alive := alive, dirty := dirty0, prevented := [] } b
        = .ok st' ∧ res.evaluated = evaluatedOf st' ∧ res.next.edges = edgesOf st'.cfg ∧
        res.next.alive = st'.alive := by
  unfold runBundle at h
  cases hs : runUAs env { cfg := cfg, edges := edges, alive := alive, dirty := dirty0, prevented := [] } b with
  | error e => simp [hs, bind, Except.bind] at h
  | ok st' =>
    simp only [hs, bind, Except.bind, pure, Except.pure] at h
    injection h with h
    subst h
    exact ⟨st', rfl, rfl, rfl, rfl⟩

theorem mem_evaluatedOf (st : MState) (r : Nat) :
    r ∈ evaluatedOf st ↔ r ∈ st.dirty ∧ r ∈ st.alive ∧ r ∉ st.prevented := by
  simp [evaluatedOf]

theorem getLast?_split {α : Type} (pre : List α) (x : α) (post : List α) :
    ∃ y, (pre ++ x :: post).getLast? = some y ∧ (post = [] → y = x) ∧ (post ≠ [] → y ∈ post) := by
  cases hp : post.getLast? with
  | none =>
    have : post = [] := by simpa using hp
    subst this
    exact ⟨x, by simp, fun _ => rfl, fun h => absurd rfl h⟩
  | some y =>
    refine ⟨y, ?_, ?_, ?_⟩
    · rw [List.getLast?_append, List.getLast?_cons, hp]; rfl
    · intro h; subst h; simp at hp
    · intro _; exact List.mem_of_getLast? hp

/-! ### the executable form of the specification is the declarative one -/

theorem pendingGo_iff (env : Env) (r : Nat) : ∀ (L : List (Config × UA)) (p : Bool),
    pendingGo env r p L = true ↔
      (∃ pre cu post, L = pre ++ cu :: post ∧ trig env cu.1 r cu.2 = true ∧
          prot env cu.1 r cu.2 = false ∧ ∀ x ∈ post, prot env x.1 r x.2 = false)
      ∨ (p = true ∧ ∀ x ∈ L, prot env x.1 r x.2 = false) := by
  intro L
  induction L with
  | nil => intro p; simp [pendingGo]
  | cons cu rest ih =>
    intro p
    simp only [pendingGo]
    rw [ih]
    constructor
    · rintro (⟨pre, cu', post, hL, h1, h2, h3⟩ | ⟨hp, hall⟩)
      · exact Or.inl ⟨cu :: pre, cu', post, by simp [hL], h1, h2, h3⟩
      · cases hpr : prot env cu.1 r cu.2 with
        | true => simp [hpr] at hp
        | false =>
          simp only [hpr, Bool.false_eq_true, if_false] at hp
          cases htr : trig env cu.1 r cu.2 with
          | true => exact Or.inl ⟨[], cu, rest, rfl, htr, hpr, hall⟩
          | false =>
            simp only [htr, Bool.false_eq_true, if_false] at hp
            right
            refine ⟨hp, ?_⟩
            intro x hx
            simp only [List.mem_cons] at hx
            rcases hx with hx | hx
            · subst hx; exact hpr
            · exact hall x hx
    · rintro (⟨pre, cu', post, hL, h1, h2, h3⟩ | ⟨hp, hall⟩)
      · cases pre with
        | nil =>
          simp only [List.nil_append, List.cons.injEq] at hL
          obtain ⟨hc, hr⟩ := hL
          subst hc; subst hr
          right
          simp only [h2, Bool.false_eq_true, if_false, h1, if_true]
          exact ⟨trivial, h3⟩
        | cons y ys =>
          simp only [List.cons_append, List.cons.injEq] at hL
          exact Or.inl ⟨ys, cu', post, hL.2, h1, h2, h3⟩
      · right
        have h0 := hall cu (by simp)
        simp only [h0, Bool.false_eq_true, if_false, hp]
        refine ⟨by simp, fun x hx => hall x (by simp [hx])⟩

/-- `recalcB` (what the driver prints, what `decide` evaluates) is `RecalcSet`. -/
theorem recalcB_iff_RecalcSet (env : Env) (cfg : Config) (alive : List Nat) (b : List UA) (r : Nat) :
    recalcB env cfg alive b r = true ↔ RecalcSet env cfg alive b r := by
  unfold recalcB RecalcSet
  rw [Bool.and_eq_true, pendingGo_iff]
  simp

example : recalcB ⟨5, [(4, [2])]⟩ ⟨.dflt, [4]⟩ [1, 2] [.update [1, 2] [2, 3] [(1, 2), (2, 3)]] 1 = true := by
  decide


/-! ### completeness: whatever the property wants recalculated is evaluated -/

theorem edgesCurrent_mem (edges : List Nat) (L : List (Config × UA)) (h : edgesCurrent edges L = true)
    (cu : Config × UA) (hcu : cu ∈ L) : edgesOf cu.1 = edges := by
  simp only [edgesCurrent, List.all_eq_true] at h
  simpa using h cu hcu

/-- Every cell in `RecalcSet` is evaluated at the end of the bundle, provided only that, whenever a
    user action of the bundle runs, the dependency edges of the column are those of its live
    configuration (no record edit after a configuration change in the same bundle).  Holds for ANY
    content of the recompute map at the start. -/
theorem recalcSet_subset_mechanism (env : Env) (cfg : Config) (edges alive dirty0 : List Nat)
    (b : List UA) (res : Result)
    (hrun : runBundle env cfg edges alive dirty0 b = .ok res)
    (hE : edgesCurrent edges (annot cfg b) = true) (r : Nat)
    (h : RecalcSet env cfg alive b r) : r ∈ res.evaluated := by
  obtain ⟨st', hs, hev, _, _⟩ := runBundle_ok env cfg edges alive dirty0 b res hrun
  obtain ⟨_, a2, _, l2, p2⟩ := runUAs_char env b _ st' hs
  obtain ⟨hal, pre, cu, post, hL, ht, hp, hpost⟩ := h
  have hcu : cu ∈ annot cfg b := by rw [hL]; simp
  rw [hev, mem_evaluatedOf]
  refine ⟨?_, ?_, ?_⟩
  · apply l2
    right
    refine ⟨cu, hcu, ?_⟩
    have he := edgesCurrent_mem edges _ hE cu hcu
    show rawLo env edges cu.1 r cu.2 = true
    rw [← he]
    exact trig_rawLo env cu.1 r cu.2 ht
  · rw [a2]; exact hal
  · intro hpv
    rw [p2] at hpv
    obtain ⟨y, hy, hy1, hy2⟩ := getLast?_split pre cu post
    have hy' : (annot cfg b).getLast? = some y := by rw [hL]; exact hy
    simp only [hy'] at hpv
    have hpr := prevUA_prot env y.1 r y.2 hpv
    by_cases hpe : post = []
    · rw [hy1 hpe, hp] at hpr; cases hpr
    · rw [hpost y (hy2 hpe)] at hpr; cases hpr

example : RecalcSet ⟨5, []⟩ ⟨.dflt, [2]⟩ [1] [.update [1] [2] [(1, 2)]] 1 :=
  (recalcB_iff_RecalcSet _ _ _ _ _).mp (by decide)

/-! ### soundness on the domain -/

theorem removes_not_added (env : Env) (cfg : Config) (r : Nat) (ua : UA)
    (ha : addOk env cfg ua = true) (hne : (edgesOf cfg).isEmpty = false)
    (hr : removes r ua = true) : r ∉ addedRows ua := by
  cases ua with
  | add rows supplied => simp [removes] at hr
  | update rows cols diff => simp [removes] at hr
  | remove rows => simp [addedRows]
  | setConfig c => simp [removes] at hr
  | schema c => simp [removes] at hr
  | doc steps =>
    intro hmem
    have hany := addedRows_doc_isDocAdd steps r hmem
    simp only [addOk, hany, Bool.not_true, Bool.false_or] at ha
    rw [hne] at ha; cases ha

/-- On the domain `inDomain`, from a drained recompute map, every evaluated cell is in `RecalcSet`. -/
theorem mechanism_subset_recalcSet_partial (env : Env) (cfg : Config) (edges alive : List Nat)
    (b : List UA) (res : Result)
    (hrun : runBundle env cfg edges alive [] b = .ok res)
    (hD : inDomain env cfg edges b = true) (r : Nat)
    (h : r ∈ res.evaluated) : RecalcSet env cfg alive b r := by
  obtain ⟨st', hs, hev, _, _⟩ := runBundle_ok env cfg edges alive [] b res hrun
  obtain ⟨_, a2, u2, _, p2⟩ := runUAs_char env b _ st' hs
  simp only [inDomain, Bool.and_eq_true, List.all_eq_true] at hD
  obtain ⟨⟨⟨hE, hA⟩, hLast⟩, hF⟩ := hD
  rw [hev, mem_evaluatedOf] at h
  obtain ⟨hdirty, halive, hnprev⟩ := h
  rcases u2 r hdirty with hd | ⟨cu, hcu, hraw⟩
  · simp at hd
  have hraw : rawUp env edges cu.1 r cu.2 = true := hraw
  obtain ⟨pre, post, hL⟩ := List.append_of_mem hcu
  have hedge := edgesCurrent_mem edges _ hE cu hcu
  obtain ⟨y, hy, hy1, hy2⟩ := getLast?_split pre cu post
  have hy' : (annot cfg b).getLast? = some y := by rw [hL]; exact hy
  have hnotprev : prevUA env y.1 r y.2 = true → False := by
    intro hp
    apply hnprev
    rw [p2]
    simp only [hy']
    exact hp
  have hment := rawUp_mentions env edges cu.1 r cu.2 hraw
  have hF' : freshOk (pre ++ cu :: post) = true := by rw [← hL]; exact hF
  have hLast' : lastOk env (pre ++ cu :: post) = true := by rw [← hL]; exact hLast
  -- no later user action sets the cell explicitly
  have hB : ∀ x ∈ post, prot env x.1 r x.2 = false := by
    intro x hx
    cases hpx : prot env x.1 r x.2 with
    | false => rfl
    | true =>
      exfalso
      rcases prot_cases env x.1 r x.2 hpx with h1 | ⟨h1, h2⟩
      · have := freshOk_split pre cu post hF' x hx r h1
        rw [hment] at this; cases this
      · obtain ⟨q1, q2, hq⟩ := List.append_of_mem hx
        have hsplit : pre ++ cu :: post = (pre ++ cu :: q1) ++ x :: q2 := by rw [hq]; simp
        have hq2 : q2 = [] := by
          cases q2 with
          | nil => rfl
          | cons z zs =>
            have := lastOk_split env (pre ++ cu :: q1) x (z :: zs) (by rw [← hsplit]; exact hLast')
              (by simp)
            rw [h1] at this; cases this
        subst hq2
        have hyx : y = x := by
          have : (pre ++ cu :: post).getLast? = some x := by
            rw [hsplit, List.getLast?_append]; simp
          rw [hy] at this; injection this
        have hxm : x ∈ annot cfg b := by rw [hL]; simp [hx]
        apply hnotprev
        rw [hyx]
        exact h2 (hA x hxm).2
  rcases rawUp_cases env edges cu.1 r cu.2 hraw with hlo | ⟨hrm, hne⟩
  · rw [← hedge] at hlo
    have hAc := hA cu hcu
    obtain ⟨ht, hprot⟩ := rawLo_trig env cu.1 r cu.2 hAc.1 hAc.2 hlo
    have hp : prot env cu.1 r cu.2 = false := by
      cases hpc : prot env cu.1 r cu.2 with
      | false => rfl
      | true =>
        exfalso
        obtain ⟨hn, hpv⟩ := hprot hpc
        have hpe : post = [] := by
          cases post with
          | nil => rfl
          | cons z zs =>
            have := lastOk_split env pre cu (z :: zs) hLast' (by simp)
            rw [hn] at this; cases this
        apply hnotprev
        rw [hy1 hpe]; exact hpv
    refine ⟨?_, pre, cu, post, hL, ht, hp, hB⟩
    rw [← a2]; exact halive
  · -- dirtiness caused by a removal: the record cannot exist at the end
    exfalso
    have hne' : (edgesOf cu.1).isEmpty = false := by rw [hedge]; exact hne
    have hAc := hA cu hcu
    have hnadd := removes_not_added env cu.1 r cu.2 hAc.1 hne' hrm
    have hal : st'.alive = aliveAfterL (aliveAfterUA (aliveAfterL alive pre) cu.2) post := by
      rw [a2]
      show aliveAfter alive b = _
      rw [← aliveAfter_annot b cfg alive, hL, aliveAfterL_append]
      rfl
    rw [hal] at halive
    refine not_alive_L r post _ (removed_UA r _ cu.2 hrm hnadd) ?_ halive
    intro x hx hmem
    have := freshOk_split pre cu post hF' x hx r hmem
    rw [hment] at this; cases this

/-- **C15, partial.**  On the domain `inDomain` (edges current, no supplied value for a new record
    of a column with dependency edges, explicit values survive trimming, explicit values only in
    the last user action, fresh record ids) and from a drained recompute map, the cells of the
    trigger column evaluated at the end of the bundle are EXACTLY `RecalcSet`. -/
theorem trigger_mechanism_eq_spec_partial (env : Env) (cfg : Config) (edges alive : List Nat)
    (b : List UA) (res : Result)
    (hrun : runBundle env cfg edges alive [] b = .ok res)
    (hD : inDomain env cfg edges b = true) (r : Nat) :
    r ∈ res.evaluated ↔ RecalcSet env cfg alive b r := by
  constructor
  · exact mechanism_subset_recalcSet_partial env cfg edges alive b res hrun hD r
  · have hE : edgesCurrent edges (annot cfg b) = true := by
      simp only [inDomain, Bool.and_eq_true] at hD
      exact hD.1.1.1
    exact recalcSet_subset_mechanism env cfg edges alive [] b res hrun hE r

-- a three-action bundle inside the domain (self-dependent data-cleaning column 5 with a formula
-- dependency 4 reading column 2): row 2 is recalculated because its dependency changes, the new
-- record 3 because its supplied value is a written recalcDeps cell, and row 1 because the explicit
-- value of a self-dependent column triggers its own recalculation
example : inDomain ⟨5, [(4, [2])]⟩ ⟨.dflt, [4, 5]⟩ [4, 5]
    [.update [2] [2] [(2, 2)], .add [3] [5], .update [1] [2, 5] [(1, 2), (1, 5)]] = true := by decide
example : (runBundle ⟨5, [(4, [2])]⟩ ⟨.dflt, [4, 5]⟩ [4, 5] [1, 2] []
    [.update [2] [2] [(2, 2)], .add [3] [5], .update [1] [2, 5] [(1, 2), (1, 5)]]).toOption.map
      (·.evaluated) = some [2, 3, 3, 1] := by decide
-- not self-dependent: the explicit value of the last action is kept, row 2 is recalculated
example : inDomain ⟨5, []⟩ ⟨.dflt, [2]⟩ [2]
    [.update [2] [2] [(2, 2)], .update [1] [2, 5] [(1, 2), (1, 5)]] = true ∧
    (runBundle ⟨5, []⟩ ⟨.dflt, [2]⟩ [2] [1, 2] []
      [.update [2] [2] [(2, 2)], .update [1] [2, 5] [(1, 2), (1, 5)]]).toOption.map (·.evaluated)
      = some [2] := by decide


/-! ### "whenever one of its recalcDeps cells changes value" -/

theorem mustTrig_trig (env : Env) (cfg : Config) (r : Nat) (ua : UA)
    (h : mustTrig env cfg r ua = true) : trig env cfg r ua = true := by
  cases ua with
  | add rows supplied => exact h
  | update rows cols diff =>
    simp only [mustTrig, Bool.and_eq_true, Bool.or_eq_true, List.any_eq_true, beq_iff_eq] at h
    obtain ⟨hr, h⟩ := h
    have hr' : r ∈ rows := by simpa using hr
    have kept : ∀ x, x ∈ cols → diff.contains (r, x) = true →
        x ∈ keptCols rows cols diff ∧ (keptRows rows cols diff).contains r = true := by
      intro x hx hd
      have hk : x ∈ keptCols rows cols diff := by
        simp only [keptCols, List.mem_filter, List.any_eq_true]
        exact ⟨hx, r, hr', hd⟩
      refine ⟨hk, ?_⟩
      simp only [keptRows, List.contains_eq_mem, List.mem_filter, List.any_eq_true, decide_eq_true_eq]
      exact ⟨hr', x, hk, by simpa using hd⟩
    simp only [trig, Bool.and_eq_true, Bool.or_eq_true, beq_iff_eq]
    rcases h with ⟨hw, d, hd, hc, hdf⟩ | ⟨hw, x, hx, hdf⟩
    · have hc' : d ∈ cols := by simpa using hc
      obtain ⟨hk, hkr⟩ := kept d hc' hdf
      refine ⟨hkr, Or.inl ⟨hw, ?_⟩⟩
      simp only [depTouched, List.any_eq_true, Bool.or_eq_true]
      exact ⟨d, hd, Or.inl (by simpa using hk)⟩
    · obtain ⟨_, hkr⟩ := kept x hx hdf
      exact ⟨hkr, Or.inr hw⟩
  | remove rows => simp [mustTrig] at h
  | setConfig c => simp [mustTrig] at h
  | schema c => simp [mustTrig] at h
  | doc steps => simp [mustTrig] at h

/-- If a user action gives a plain recalcDeps cell of row `r` a DIFFERENT value (DEFAULT), or
    changes any value of the row (MANUAL_UPDATES), or adds the record without supplying the column
    (not NEVER), and neither it nor a later user action sets the cell explicitly, the cell is
    evaluated. -/
theorem changed_dep_recalculated (env : Env) (cfg : Config) (edges alive dirty0 : List Nat)
    (b : List UA) (res : Result)
    (hrun : runBundle env cfg edges alive dirty0 b = .ok res)
    (hE : edgesCurrent edges (annot cfg b) = true) (r : Nat)
    (pre post : List (Config × UA)) (cu : Config × UA) (hL : annot cfg b = pre ++ cu :: post)
    (hm : mustTrig env cu.1 r cu.2 = true) (hp : prot env cu.1 r cu.2 = false)
    (hpost : ∀ x ∈ post, prot env x.1 r x.2 = false) (hal : r ∈ aliveAfter alive b) :
    r ∈ res.evaluated :=
  recalcSet_subset_mechanism env cfg edges alive dirty0 b res hrun hE r
    ⟨hal, pre, cu, post, hL, mustTrig_trig env cu.1 r cu.2 hm, hp, hpost⟩

example : mustTrig ⟨5, []⟩ ⟨.dflt, [2]⟩ 1 (.update [1, 2] [2, 3] [(1, 2), (2, 3)]) = true := by decide

/-! ### "schema changes to dependencies never trigger recalculation" -/

theorem annot_snd_mem : ∀ (b : List UA) (cfg : Config) (cu : Config × UA), cu ∈ annot cfg b → cu.2 ∈ b := by
  intro b
  induction b with
  | nil => intro cfg cu h; simp [annot] at h
  | cons ua rest ih =>
    intro cfg cu h
    simp only [annot, List.mem_cons] at h
    rcases h with h | h
    · subst h; simp
    · simp [ih _ cu h]

/-- A bundle made only of schema changes (rename, type change, formula change of any column, via
    `SingleRowsIdentityRelation`) and configuration changes evaluates no cell of the column. -/
theorem schema_only_never_recalculates (env : Env) (cfg : Config) (edges alive : List Nat)
    (b : List UA) (res : Result)
    (hall : ∀ ua ∈ b, (∃ c, ua = .schema c) ∨ (∃ c, ua = .setConfig c))
    (hrun : runBundle env cfg edges alive [] b = .ok res) : res.evaluated = [] := by
  obtain ⟨st', hs, hev, _, _⟩ := runBundle_ok env cfg edges alive [] b res hrun
  obtain ⟨_, _, u2, _, _⟩ := runUAs_char env b _ st' hs
  rw [hev, List.eq_nil_iff_forall_not_mem]
  intro r hr
  rw [mem_evaluatedOf] at hr
  rcases u2 r hr.1 with hd | ⟨cu, hcu, hraw⟩
  · simp at hd
  · rcases hall cu.2 (annot_snd_mem b _ cu hcu) with ⟨c, hc⟩ | ⟨c, hc⟩ <;> simp [hc, rawUp] at hraw

example : (runBundle ⟨5, [(4, [2])]⟩ ⟨.dflt, [2, 4]⟩ [2, 4] [1, 2] []
    [.schema 2, .schema 4, .setConfig ⟨.manual, []⟩]).toOption.map (·.evaluated) = some [] := by decide

/-! ### the unrestricted statement is false: one witness per hypothesis of the partial theorem

FULL STATEMENT (unproved, FALSE of the code as it is):
  ∀ env cfg alive b res, runBundle env cfg (edgesOf cfg) alive [] b = .ok res →
    ∀ r, r ∈ res.evaluated ↔ RecalcSet env cfg alive b r
Every witness below is replayed on the real engine by harness/gx/props/c15.py (`witnesses`). -/

theorem refute (env : Env) (cfg : Config) (edges alive dirty0 : List Nat) (b : List UA) (r : Nat)
    (ev : List Nat)
    (hev : (runBundle env cfg edges alive dirty0 b).toOption.map (·.evaluated) = some ev)
    (hne : decide (r ∈ ev) ≠ recalcB env cfg alive b r) :
    ¬ (∀ res, runBundle env cfg edges alive dirty0 b = .ok res →
        (r ∈ res.evaluated ↔ RecalcSet env cfg alive b r)) := by
  intro h
  cases hr : runBundle env cfg edges alive dirty0 b with
  | error e => rw [hr] at hev; simp [Except.toOption] at hev
  | ok res =>
    rw [hr] at hev
    simp only [Except.toOption, Option.map_some, Option.some.injEq] at hev
    have h1 := h res hr
    rw [hev, ← recalcB_iff_RecalcSet] at h1
    apply hne
    cases hb : recalcB env cfg alive b r with
    | true => rw [hb] at h1; simpa using h1.mpr rfl
    | false =>
      rw [hb] at h1
      simp only [decide_eq_false_iff_not]
      intro hm; exact absurd (h1.mp hm) (by simp)

/-- W-add (H-add): `AddRecord T {A:1, B:50}`, B DEFAULT with recalcDeps=[A]: the supplied value is
    recalculated (docactions.BulkAddRecord has no prevent_recalc). -/
theorem witness_add : ¬ (∀ res, runBundle ⟨5, []⟩ ⟨.dflt, [2]⟩ [2] [] [] [.add [1] [2, 5]] = .ok res →
    (1 ∈ res.evaluated ↔ RecalcSet ⟨5, []⟩ ⟨.dflt, [2]⟩ [] [.add [1] [2, 5]] 1)) :=
  refute _ _ _ _ _ _ 1 [1, 1] (by decide) (by decide)

/-- W-trim (H-trim): `UpdateRecord T 1 {A:5, B:<stored value>}`: B is trimmed away, not exempted. -/
theorem witness_trim : ¬ (∀ res, runBundle ⟨5, []⟩ ⟨.dflt, [2]⟩ [2] [1] []
      [.update [1] [2, 5] [(1, 2)]] = .ok res →
    (1 ∈ res.evaluated ↔ RecalcSet ⟨5, []⟩ ⟨.dflt, [2]⟩ [1] [.update [1] [2, 5] [(1, 2)]] 1)) :=
  refute _ _ _ _ _ _ 1 [1] (by decide) (by decide)

/-- W-last (H-last): `[UpdateRecord T 1 {A:5, B:80}, UpdateRecord T 2 {C:9}]`: the second user action
    clears the exemption of the first, the recalculation happens after both. -/
theorem witness_last : ¬ (∀ res, runBundle ⟨5, []⟩ ⟨.dflt, [2]⟩ [2] [1, 2] []
      [.update [1] [2, 5] [(1, 2), (1, 5)], .update [2] [3] [(2, 3)]] = .ok res →
    (1 ∈ res.evaluated ↔ RecalcSet ⟨5, []⟩ ⟨.dflt, [2]⟩ [1, 2]
      [.update [1] [2, 5] [(1, 2), (1, 5)], .update [2] [3] [(2, 3)]] 1)) :=
  refute _ _ _ _ _ _ 1 [1] (by decide) (by decide)

/-- W-stale (H-edges), too many: `[set recalcWhen=NEVER, UpdateRecord T 1 {A:5}]`: the edge to A
    still exists until the end of the bundle. -/
theorem witness_stale : ¬ (∀ res, runBundle ⟨5, []⟩ ⟨.dflt, [2]⟩ [2] [1] []
      [.setConfig ⟨.never, [2]⟩, .update [1] [2] [(1, 2)]] = .ok res →
    (1 ∈ res.evaluated ↔ RecalcSet ⟨5, []⟩ ⟨.dflt, [2]⟩ [1]
      [.setConfig ⟨.never, [2]⟩, .update [1] [2] [(1, 2)]] 1)) :=
  refute _ _ _ _ _ _ 1 [1] (by decide) (by decide)

/-- W-stale (H-edges), too few: `[set recalcDeps=[C], UpdateRecord T 1 {C:5}]`: no edge to C yet. -/
theorem witness_stale_missing : ¬ (∀ res, runBundle ⟨5, []⟩ ⟨.dflt, [2]⟩ [2] [1] []
      [.setConfig ⟨.dflt, [3]⟩, .update [1] [3] [(1, 3)]] = .ok res →
    (1 ∈ res.evaluated ↔ RecalcSet ⟨5, []⟩ ⟨.dflt, [2]⟩ [1]
      [.setConfig ⟨.dflt, [3]⟩, .update [1] [3] [(1, 3)]] 1)) :=
  refute _ _ _ _ _ _ 1 [] (by decide) (by decide)

/-- W-readd (H-fresh): `[UpdateRecord T 1 {A:5}, RemoveRecord T 1, AddRecord T 1 {B:70}]` with
    recalcWhen MANUAL_UPDATES (no dependency edges, so W-add does not apply): the recompute entry
    made by the update survives the removal and recalculates the value supplied for the new record. -/
theorem witness_readd : ¬ (∀ res, runBundle ⟨5, []⟩ ⟨.manual, []⟩ [] [1] []
      [.update [1] [2] [(1, 2)], .remove [1], .add [1] [5]] = .ok res →
    (1 ∈ res.evaluated ↔ RecalcSet ⟨5, []⟩ ⟨.manual, []⟩ [1]
      [.update [1] [2] [(1, 2)], .remove [1], .add [1] [5]] 1)) :=
  refute _ _ _ _ _ _ 1 [1] (by decide) (by decide)

/-- W-failed (drained recompute map): an entry left by a failed bundle is evaluated by the next
    bundle, here the empty one (`Calculate`). -/
theorem witness_failed : ¬ (∀ res, runBundle ⟨5, []⟩ ⟨.dflt, [2]⟩ [2] [1] [1] [] = .ok res →
    (1 ∈ res.evaluated ↔ RecalcSet ⟨5, []⟩ ⟨.dflt, [2]⟩ [1] [] 1)) :=
  refute _ _ _ _ _ _ 1 [1] (by decide) (by decide)

/-- each witness violates exactly the hypothesis it is named after -/
example : addOk ⟨5, []⟩ ⟨.dflt, [2]⟩ (.add [1] [2, 5]) = false := by decide
example : trimOk ⟨5, []⟩ ⟨.dflt, [2]⟩ (.update [1] [2, 5] [(1, 2)]) = false ∧
    addOk ⟨5, []⟩ ⟨.dflt, [2]⟩ (.update [1] [2, 5] [(1, 2)]) = true := by decide
example : lastOk ⟨5, []⟩ (annot ⟨.dflt, [2]⟩ [.update [1] [2, 5] [(1, 2), (1, 5)], .update [2] [3] [(2, 3)]])
    = false ∧
    (annot ⟨.dflt, [2]⟩ [.update [1] [2, 5] [(1, 2), (1, 5)], .update [2] [3] [(2, 3)]]).all
      (fun cu => addOk ⟨5, []⟩ cu.1 cu.2 && trimOk ⟨5, []⟩ cu.1 cu.2) = true := by decide
example : edgesCurrent [2] (annot ⟨.dflt, [2]⟩ [.setConfig ⟨.never, [2]⟩, .update [1] [2] [(1, 2)]]) = false := by
  decide
example : freshOk (annot ⟨.manual, []⟩ [.update [1] [2] [(1, 2)], .remove [1], .add [1] [5]]) = false ∧
    lastOk ⟨5, []⟩ (annot ⟨.manual, []⟩ [.update [1] [2] [(1, 2)], .remove [1], .add [1] [5]]) = true := by
  decide

/-- **C15, full statement: FALSE.** -/
theorem trigger_mechanism_eq_spec_false :
    ¬ (∀ (env : Env) (cfg : Config) (alive : List Nat) (b : List UA) (res : Result),
        runBundle env cfg (edgesOf cfg) alive [] b = .ok res →
        ∀ r, r ∈ res.evaluated ↔ RecalcSet env cfg alive b r) := by
  intro h
  exact witness_add (fun res hr => h ⟨5, []⟩ ⟨.dflt, [2]⟩ [] [.add [1] [2, 5]] res hr 1)

end Grist.Trigger
