/-
C11  Two-way references stay symmetric.
Property theorems only.  Model: GristModel/Refs.lean (Pair, updateX/updateY, removeX/removeY,
rebuildY); helper lemmas: GristProofs/Refs.lean, GristProofs/RefsTwoWay.lean.
-/
import GristProofs.RefsTwoWay
namespace Grist.Refs

/-- Row `a` of X refers to row `b` of Y in column `x` exactly when row `b` refers to row `a` in
    column `y` — for the rows that exist in the two tables. -/
def SymOn (p : Pair) : Prop :=
  ∀ a ∈ p.rowsX, ∀ b ∈ p.rowsY,
    b ∈ refs p.x.kind (rawGet p.x a) ↔ a ∈ refs p.y.kind (rawGet p.y b)

instance (p : Pair) : Decidable (SymOn p) := by unfold SymOn; infer_instance

theorem symOn_swap {p : Pair} (h : SymOn p) : SymOn p.swap := by
  intro a ha b hb
  exact (h b hb a ha).symm

/-! ### decomposition of a successful update -/

theorem updateX_ok {p p' : Pair} {rows : List Nat} {vals : List Cell}
    (h : updateX p rows vals = .ok p') :
    ∃ adjVals y' x',
      toValues p.y.kind ((affOf p.x rows vals).map (adjustOne p.x.inv)) = .ok adjVals ∧
      rowsExist p.rowsY adjVals = true ∧ applyCells p.y adjVals = .ok y' ∧
      rowsExist p.rowsX (trimUpdate p.x rows vals) = true ∧
      applyCells p.x (trimUpdate p.x rows vals) = .ok x' ∧ p' = { p with x := x', y := y' } := by
  unfold updateX at h
  simp only [reverseAdjustments] at h
  split at h
  · cases h
  · rename_i adjVals hadj
    split at h
    · cases h
    · rename_i hry
      split at h
      · cases h
      · rename_i y' hy'
        split at h
        · cases h
        · rename_i hrx
          split at h
          · cases h
          · rename_i x' hx'
            injection h with h
            exact ⟨adjVals, y', x', hadj, by simpa using hry, hy', by simpa using hrx, hx', h.symm⟩

theorem rowsExist_mem {rows : List Nat} {ups : List (Nat × Cell)} (h : rowsExist rows ups = true)
    {e : Nat × Cell} (he : e ∈ ups) : e.1 ∈ rows := by
  simp only [rowsExist, List.all_eq_true, List.contains_iff_mem] at h
  exact h e he

/-- the cells of `y` after the adjustments have been written -/
theorem adjusted_cell {p : Pair} {rows : List Nat} {vals : List Cell} {adjVals : List (Nat × Cell)}
    (hadj : toValues p.y.kind ((affOf p.x rows vals).map (adjustOne p.x.inv)) = .ok adjVals) (b : Nat) :
    lastVal adjVals b =
      if aHas (affOf p.x rows vals) b then
        some (listToValueD p.y.kind (sortDedup (revVal p.x rows vals b)))
      else none := by
  obtain ⟨hv, _⟩ := toValues_ok hadj
  obtain ⟨_, _, _, hn⟩ := affOf_spec p.x rows vals b
  rw [hv, List.map_map]
  have := lastVal_map_assoc ([], []) (fun en => listToValueD p.y.kind (adjustOne p.x.inv en).2)
    (affOf p.x rows vals) hn b
  simp only [adjustOne] at this
  simp only [Function.comp_def, adjustOne]
  rw [this]
  rfl

/-- **reverse_adjustments_sym (partial: every row named at most once).**
    If the two columns are symmetric, their indexes exact, and an update of `x` naming every row at
    most once is accepted, then after the adjustments to `y` and the update itself the two columns
    are symmetric again (and the indexes exact).  Holds for every bulk update: duplicate targets,
    several rows retargeted at once, Ref or RefList on either side. -/
theorem reverse_adjustments_sym_partial {p p' : Pair} {rows : List Nat} {vals : List Cell}
    (hx : Exact p.x) (hy : Exact p.y) (h0 : 0 ∉ p.rowsX) (hnd : rows.Nodup) (hsym : SymOn p)
    (h : updateX p rows vals = .ok p') :
    SymOn p' ∧ Exact p'.x ∧ Exact p'.y ∧ p'.rowsX = p.rowsX ∧ p'.rowsY = p.rowsY := by
  obtain ⟨adjVals, y', x', hadj, _, hay, _, hax, rfl⟩ := updateX_ok h
  obtain ⟨y2, hy2, hey, hky, hgy⟩ := applyCells_spec adjVals hy
  obtain ⟨x2, hx2, hex, hkx, hgx⟩ := applyCells_spec (trimUpdate p.x rows vals) hx
  rw [hy2] at hay; injection hay with hay; subst hay
  rw [hx2] at hax; injection hax with hax; subst hax
  refine ⟨?_, hex, hey, rfl, rfl⟩
  intro a ha b hb
  have ha0 : a ≠ 0 := fun hh => h0 (hh ▸ ha)
  show b ∈ refs x2.kind (rawGet x2 a) ↔ a ∈ refs y2.kind (rawGet y2 b)
  rw [hkx, hky, hgx, hgy, adjusted_cell hadj b]
  have hcore := mem_revVal hx hnd vals a b
  unfold newVal at hcore
  by_cases hhas : aHas (affOf p.x rows vals) b = true
  · simp only [hhas, if_true, Option.getD_some]
    obtain ⟨_, hok⟩ := toValues_ok hadj
    have hen := mem_of_aHas ([], []) (affOf p.x rows vals) b hhas
    have hok' : ¬ (p.y.kind = .ref ∧ (sortDedup (revVal p.x rows vals b)).length > 1) :=
      hok _ (List.mem_map_of_mem (f := adjustOne p.x.inv) hen)
    rw [mem_refs_listToValueD hok' ha0, mem_sortDedup]
    exact hcore.symm
  · have hhas' : aHas (affOf p.x rows vals) b = false := by simpa using hhas
    simp only [hhas', Bool.false_eq_true, if_false, Option.getD_none]
    rw [← hcore]
    unfold revVal
    rw [aGet_of_not_has _ _ _ hhas']
    simp only [List.foldl_nil]
    rw [hx b a]
    exact hsym a ha b hb

/-- the same for an update of the other side -/
theorem reverse_adjustments_sym_partial_y {p p' : Pair} {rows : List Nat} {vals : List Cell}
    (hx : Exact p.x) (hy : Exact p.y) (h0 : 0 ∉ p.rowsY) (hnd : rows.Nodup) (hsym : SymOn p)
    (h : updateY p rows vals = .ok p') : SymOn p' := by
  unfold updateY at h
  split at h
  · rename_i q hq
    injection h with h; subst h
    exact symOn_swap (reverse_adjustments_sym_partial (p := p.swap) hy hx h0 hnd (symOn_swap hsym) hq).1
  · cases h

-- hypotheses are satisfiable with a non-trivial update: x is Ref, y RefList; rows 1 and 4 are
-- retargeted at once to the same target 3 (duplicate targets), row 2 is named but unchanged.
def exPair : Pair :=
  { x := colOf .ref [.ref 0, .ref 1, .ref 1, .ref 2, .ref 0],
    y := colOf .refList [.none, .refList [1, 2], .refList [3], .none, .none],
    rowsX := [1, 2, 3, 4], rowsY := [1, 2, 3, 4] }

example : Exact exPair.x ∧ Exact exPair.y ∧ 0 ∉ exPair.rowsX ∧ SymOn exPair :=
  ⟨copyFrom_exact _ _, copyFrom_exact _ _, by decide, by decide⟩

example : (match updateX exPair [1, 4, 2] [.ref 3, .ref 3, .ref 1] with
    | .ok p => (p.x.data, p.y.data) | .error _ => ([], [])) =
    ([.ref 0, .ref 3, .ref 1, .ref 2, .ref 3], [.none, .refList [2], .refList [3], .refList [1, 4], .none]) := by
  decide

/-
-- FULL STATEMENT (unproved, FALSE of the code as it is): the same without `rows.Nodup`:
--   ∀ p p' rows vals, Exact p.x → Exact p.y → 0 ∉ p.rowsX → SymOn p →
--     updateX p rows vals = .ok p' → SymOn p'
-- A bulk update naming the same row twice with two different new targets feeds
-- get_reverse_adjustments two additions (one per occurrence) while the column keeps only the last
-- value: BulkUpdateRecord X [1, 1] {x: [3, 4]}  ⇒  y[3] = [1] and y[4] = [1] but x[1] = 4.
-/
theorem reverse_adjustments_sym_full_false :
    ¬ (∀ (p p' : Pair) (rows : List Nat) (vals : List Cell), Exact p.x → Exact p.y → 0 ∉ p.rowsX →
        SymOn p → updateX p rows vals = .ok p' → SymOn p') := by
  intro hall
  have h := hall exPair _ [1, 1] [.ref 3, .ref 4] (copyFrom_exact _ _) (copyFrom_exact _ _)
    (by decide) (by decide) rfl
  revert h
  decide

/-! ### record addition -/

theorem lastVal_zip_eq_newVal {c : Col} {rows : List Nat} (hnd : rows.Nodup) (vals : List Cell) (a : Nat) :
    (lastVal (rows.zip vals) a).getD (rawGet c a) = newVal c rows vals a := by
  have hk : (keys (rows.zip vals)).Nodup := (keys_zip_sublist rows vals).nodup hnd
  have hkt := nodup_keys_trim c rows vals hnd
  unfold newVal
  cases hl : lastVal (rows.zip vals) a with
  | some v =>
    have hv := (lastVal_some_iff _ hk a v).mp hl
    simp only [Option.getD_some]
    by_cases hch : v = rawGet c a
    · have hnone : lastVal (trimUpdate c rows vals) a = none := by
        rw [lastVal_none_iff]
        intro hin
        obtain ⟨e, he, hea⟩ := List.mem_map.mp hin
        simp only [trimUpdate, List.mem_filter, decide_eq_true_eq] at he
        have h2 : (a, e.2) ∈ rows.zip vals := by rw [← hea]; exact he.1
        have := (lastVal_some_iff _ hk a e.2).mpr h2
        rw [hl] at this; injection this with this
        apply he.2; rw [← this, hea]; exact hch
      rw [hnone]; exact hch
    · have : (a, v) ∈ trimUpdate c rows vals := by
        simp only [trimUpdate, List.mem_filter, decide_eq_true_eq]; exact ⟨hv, hch⟩
      rw [(lastVal_some_iff _ hkt a v).mpr this]; rfl
  | none =>
    have hn := (lastVal_none_iff _ a).mp hl
    have hnone : lastVal (trimUpdate c rows vals) a = none := by
      rw [lastVal_none_iff]
      intro hin
      apply hn
      obtain ⟨e, he, hea⟩ := List.mem_map.mp hin
      simp only [trimUpdate, List.mem_filter] at he
      exact List.mem_map.mpr ⟨e, he.1, hea⟩
    rw [hnone]

/-- **add_sym (partial).**  Adding rows to X with values for `x` keeps the pair symmetric PROVIDED no
    cell of `y` already refers to one of the new row ids (no dangling reference to them) and the
    slots of the new rows hold no references. -/
theorem add_sym_partial {p p' : Pair} {rows : List Nat} {vals : List Cell}
    (hx : Exact p.x) (hy : Exact p.y) (h0 : 0 ∉ p.rowsX) (h0' : 0 ∉ rows) (hnd : rows.Nodup)
    (hfresh : ∀ a ∈ rows, refs p.x.kind (rawGet p.x a) = [])
    (hnodangling : ∀ b ∈ p.rowsY, ∀ a ∈ rows, a ∉ refs p.y.kind (rawGet p.y b))
    (hsym : SymOn p) (h : addX p rows vals = .ok p') : SymOn p' := by
  unfold addX at h
  simp only [reverseAdjustments] at h
  split at h
  · cases h
  · rename_i adjVals hadj
    split at h
    · cases h
    · obtain ⟨y2, hy2, _, hky, hgy⟩ := applyCells_spec adjVals hy
      obtain ⟨x2, hx2, _, hkx, hgx⟩ := applyCells_spec (rows.zip vals) hx
      rw [hy2] at h; simp only at h
      rw [hx2] at h; simp only at h
      injection h with h; subst h
      have hadj' : toValues p.y.kind ((affOf p.x rows vals).map (adjustOne p.x.inv)) = .ok adjVals := hadj
      intro a ha b hb
      have ha' : a ∈ p.rowsX ∨ a ∈ rows := List.mem_append.mp ha
      have ha0 : a ≠ 0 := by
        rintro rfl
        rcases ha' with h1 | h1
        · exact h0 h1
        · exact h0' h1
      show b ∈ refs x2.kind (rawGet x2 a) ↔ a ∈ refs y2.kind (rawGet y2 b)
      rw [hkx, hky, hgx, hgy, adjusted_cell hadj' b, lastVal_zip_eq_newVal hnd]
      have hcore := mem_revVal hx hnd vals a b
      by_cases hhas : aHas (affOf p.x rows vals) b = true
      · simp only [hhas, if_true, Option.getD_some]
        obtain ⟨_, hok⟩ := toValues_ok hadj'
        have hen := mem_of_aHas ([], []) (affOf p.x rows vals) b hhas
        have hok' : ¬ (p.y.kind = .ref ∧ (sortDedup (revVal p.x rows vals b)).length > 1) :=
          hok _ (List.mem_map_of_mem (f := adjustOne p.x.inv) hen)
        rw [mem_refs_listToValueD hok' ha0, mem_sortDedup]
        exact hcore.symm
      · have hhas' : aHas (affOf p.x rows vals) b = false := by simpa using hhas
        simp only [hhas', Bool.false_eq_true, if_false, Option.getD_none]
        rw [← hcore]
        unfold revVal
        rw [aGet_of_not_has _ _ _ hhas']
        simp only [List.foldl_nil]
        rw [hx b a]
        rcases ha' with h1 | h1
        · exact hsym a h1 b hb
        · rw [hfresh a h1]
          simp only [List.not_mem_nil, false_iff]
          exact hnodangling b hb a h1

/-
-- FULL STATEMENT (unproved, FALSE of the code as it is): add_sym without `hnodangling`.
-- A reference to a missing row id is a supported value; when a row is later created under that id
-- its reverse cell starts empty: X.c[2] = 5, columns linked, AddRecord Y 5  ⇒  y[5] = None.
-- (stated for the side whose table receives the row: swap of the pair below)
-/
theorem add_sym_full_false :
    ¬ (∀ (p p' : Pair) (rows : List Nat) (vals : List Cell), Exact p.x → Exact p.y → 0 ∉ p.rowsX →
        0 ∉ rows → rows.Nodup → (∀ a ∈ rows, refs p.x.kind (rawGet p.x a) = []) → SymOn p →
        addX p rows vals = .ok p' → SymOn p') := by
  intro hall
  have h := hall
    { x := colOf .refList [.none, .refList [1], .none], y := colOf .ref [.ref 0, .ref 1, .ref 5],
      rowsX := [1, 2], rowsY := [1, 2] } _ [5] [.none]
    (copyFrom_exact _ _) (copyFrom_exact _ _) (by decide) (by decide) (by decide) (by decide) (by decide) rfl
  revert h
  decide

/-! ### the uniqueness check -/

/-- the update touches target `b`: some changed row referred to `b` before or refers to it after. -/
def Touched (c : Col) (rows : List Nat) (vals : List Cell) (b : Nat) : Prop :=
  ∃ e ∈ trimUpdate c rows vals, b ∈ refs c.kind (rawGet c e.1) ∨ b ∈ refs c.kind e.2

theorem length_gt_one_of_two {l : List Nat} {a b : Nat} (ha : a ∈ l) (hb : b ∈ l) (hab : a ≠ b) :
    l.length > 1 := by
  match l, ha, hb with
  | [c], ha, hb => simp at ha hb; omega
  | _ :: _ :: _, _, _ => simp

/-- **unique_rejects.**  An update of `x` (every row named at most once) is rejected with
    UniqueReferenceError exactly when the other side is single-valued (`Ref`) and some target the
    update touches would be referred to by two different rows afterwards. -/
theorem unique_rejects {p : Pair} {rows : List Nat} {vals : List Cell}
    (hx : Exact p.x) (hy : Exact p.y) (hnd : rows.Nodup) :
    updateX p rows vals = .error .uniqueReference ↔
      p.y.kind = .ref ∧ ∃ b a₁ a₂, a₁ ≠ a₂ ∧ Touched p.x rows vals b ∧
        b ∈ refs p.x.kind (newVal p.x rows vals a₁) ∧ b ∈ refs p.x.kind (newVal p.x rows vals a₂) := by
  have hadjdef : reverseAdjustments p.x.kind p.x.inv rows (rows.map (rawGet p.x)) vals
      = (affOf p.x rows vals).map (adjustOne p.x.inv) := rfl
  constructor
  · intro h
    unfold updateX at h
    simp only [hadjdef] at h
    split at h
    · rename_i e he
      injection h with h; subst h
      obtain ⟨_, hk, en, hen, hl⟩ := toValues_err he
      obtain ⟨ent, hent, rfl⟩ := List.mem_map.mp hen
      refine ⟨hk, ent.1, ?_⟩
      obtain ⟨_, _, h3, hn⟩ := affOf_spec p.x rows vals ent.1
      have hget := aGet_of_mem ([], []) _ hn ent hent
      have hl' : (sortDedup (revVal p.x rows vals ent.1)).length > 1 := by
        unfold revVal; rw [hget]; exact hl
      obtain ⟨a₁, a₂, hne, h1, h2⟩ := strictSorted_two (strictSorted_sortDedup _) hl'
      rw [mem_sortDedup, mem_revVal hx hnd] at h1 h2
      refine ⟨a₁, a₂, hne, ?_, h1, h2⟩
      apply h3.mp
      rw [aHas_iff_mem_keys]
      exact List.mem_map_of_mem (f := Prod.fst) hent
    · rename_i adjVals hadj
      split at h
      · cases h
      · obtain ⟨y', hy', _⟩ := applyCells_spec adjVals hy
        rw [hy'] at h
        simp only at h
        split at h
        · cases h
        · obtain ⟨x', hx', _⟩ := applyCells_spec (trimUpdate p.x rows vals) hx
          rw [hx'] at h
          cases h
  · rintro ⟨hk, b, a₁, a₂, hne, htouch, h1, h2⟩
    obtain ⟨_, _, h3, hn⟩ := affOf_spec p.x rows vals b
    have hhas := h3.mpr htouch
    have hen := mem_of_aHas ([], []) (affOf p.x rows vals) b hhas
    rw [← mem_revVal hx hnd, ← mem_sortDedup] at h1 h2
    have hl := length_gt_one_of_two h1 h2 hne
    have hmem : (b, sortDedup (revVal p.x rows vals b)) ∈ (affOf p.x rows vals).map (adjustOne p.x.inv) :=
      List.mem_map_of_mem (f := adjustOne p.x.inv) hen
    unfold updateX
    simp only [hadjdef]
    cases hto : toValues p.y.kind ((affOf p.x rows vals).map (adjustOne p.x.inv)) with
    | ok vs =>
      exact absurd ⟨hk, hl⟩ ((toValues_ok hto).2 _ hmem)
    | error e =>
      obtain ⟨he, _⟩ := toValues_err hto
      subst he; rfl

-- both sides of the iff occur: y is Ref, rows 1 and 2 of x are moved onto target 3 at once
example : updateX { exPair with y := colOf .ref [.ref 0, .ref 1, .ref 3, .ref 0, .ref 0],
                                x := colOf .refList [.none, .refList [1], .none, .refList [2], .none] }
    [1, 2] [.refList [3], .refList [3]] = .error .uniqueReference := by rfl

/-! ### record removal -/

/-- **remove_sym.**  Removing rows `rem` from table X (cells of the removed rows unset, then the
    C10 clean-up of the references to them in `y`, as plain doc actions) keeps the pair symmetric,
    keeps both indexes exact, and leaves no cell of `y` referring to a removed row. -/
theorem remove_sym {p : Pair} {rem : List Nat} (hx : Exact p.x) (hy : Exact p.y) (hsym : SymOn p) :
    ∃ p', removeX p rem = .ok p' ∧ SymOn p' ∧ Exact p'.x ∧ Exact p'.y ∧
      (∀ a, a ∈ p'.rowsX ↔ a ∈ p.rowsX ∧ a ∉ rem) ∧ p'.rowsY = p.rowsY ∧
      (∀ b t, t ∈ refs p'.y.kind (rawGet p'.y b) → t ∉ rem) := by
  obtain ⟨x', hx', hex, hkx, hgx⟩ := unsetRows_spec (rem.filter (fun r => p.rowsX.contains r)) hx
  obtain ⟨y', hy', hey, hky, hgy⟩ := cleanRemoved_spec hy rem
  refine ⟨{ x := x', y := y', rowsX := p.rowsX.filter (fun r => !(rem.contains r)), rowsY := p.rowsY },
    by simp only [removeX, hx', hy'], ?_, hex, hey, ?_, rfl, ?_⟩
  · intro a ha b hb
    have ha : a ∈ p.rowsX ∧ a ∉ rem := by
      have h := ha
      simp only [List.mem_filter] at h
      refine ⟨h.1, ?_⟩
      have h2 := h.2
      intro hin
      simp at h2
      exact h2 hin
    show b ∈ refs x'.kind (rawGet x' a) ↔ a ∈ refs y'.kind (rawGet y' b)
    have hna : a ∉ rem.filter (fun r => p.rowsX.contains r) := by
      simp only [List.mem_filter, not_and]; intro h; exact absurd h ha.2
    rw [hkx, hky, hgx, hgy, if_neg hna, refs_cleanCell]
    rw [hsym a ha.1 b hb]
    constructor
    · intro h; exact ⟨h, ha.2⟩
    · intro h; exact h.1
  · intro a
    simp [List.mem_filter]
  · intro b t ht
    simp only at ht
    rw [hky, hgy, refs_cleanCell] at ht
    exact ht.2

/-- the same for a removal on the other side -/
theorem remove_sym_y {p : Pair} {rem : List Nat} (hx : Exact p.x) (hy : Exact p.y) (hsym : SymOn p) :
    ∃ p', removeY p rem = .ok p' ∧ SymOn p' := by
  obtain ⟨q, hq, hs, _⟩ := remove_sym (p := p.swap) (rem := rem) hy hx (symOn_swap hsym)
  exact ⟨q.swap, by simp only [removeY, hq], symOn_swap hs⟩

example : (match removeX exPair [1, 3] with
    | .ok p => (p.x.data, p.y.data, p.rowsX) | .error _ => ([], [], [])) =
    ([.ref 0, .ref 0, .ref 1, .ref 0, .ref 0], [.none, .refList [2], .none, .none, .none], [2, 4]) := by
  decide

/-! ### rebuild after a Ref<->RefList switch / link creation -/

theorem rebuildY_vals {p : Pair} {vals : List (Nat × Cell)}
    (h : toValues p.y.kind (p.rowsY.map (fun t => (t, sortDedup (invGet p.x.inv t)))) = .ok vals) :
    vals = p.rowsY.map (fun t => (t, listToValueD p.y.kind (sortDedup (invGet p.x.inv t)))) ∧
    ∀ t ∈ p.rowsY, ¬ (p.y.kind = .ref ∧ (sortDedup (invGet p.x.inv t)).length > 1) := by
  obtain ⟨h1, h2⟩ := toValues_ok h
  refine ⟨by rw [h1, List.map_map]; rfl, ?_⟩
  intro t ht
  exact h2 (t, sortDedup (invGet p.x.inv t)) (List.mem_map_of_mem (f := fun t => (t, sortDedup (invGet p.x.inv t))) ht)

/-- **rebuild_sym.**  `recalc_from_reverse_values` (run after the type of `x` was switched between
    Ref and RefList, and when a reverse column is created) makes the pair symmetric whatever `y`
    held before, provided the index of `x` is exact. -/
theorem rebuild_sym {p p' : Pair} (hx : Exact p.x) (hy : Exact p.y) (h0 : 0 ∉ p.rowsX)
    (h : rebuildY p = .ok p') : SymOn p' ∧ Exact p'.y ∧ p'.x = p.x := by
  unfold rebuildY at h
  simp only at h
  split at h
  · cases h
  · rename_i vals hvals
    obtain ⟨hv, hok⟩ := rebuildY_vals hvals
    obtain ⟨y2, hy2, hey, hky, hgy⟩ := applyCells_spec vals hy
    rw [hy2] at h
    injection h with h; subst h
    refine ⟨?_, hey, rfl⟩
    intro a ha b hb
    have ha0 : a ≠ 0 := fun hh => h0 (hh ▸ ha)
    show b ∈ refs p.x.kind (rawGet p.x a) ↔ a ∈ refs y2.kind (rawGet y2 b)
    rw [hky, hgy, hv, lastVal_map (fun t => listToValueD p.y.kind (sortDedup (invGet p.x.inv t)))]
    have hb' : b ∈ p.rowsY := hb
    simp only [hb', if_true, Option.getD_some]
    rw [mem_refs_listToValueD (hok b hb') ha0, mem_sortDedup, hx b a]

/-- ... and it is rejected exactly when `y` is single-valued and some row of Y has two referrers. -/
theorem rebuild_rejects {p : Pair} (hx : Exact p.x) (hy : Exact p.y) :
    rebuildY p = .error .uniqueReference ↔
      p.y.kind = .ref ∧ ∃ b ∈ p.rowsY, ∃ a₁ a₂, a₁ ≠ a₂ ∧
        b ∈ refs p.x.kind (rawGet p.x a₁) ∧ b ∈ refs p.x.kind (rawGet p.x a₂) := by
  constructor
  · intro h
    unfold rebuildY at h
    simp only at h
    split at h
    · rename_i e he
      injection h with h; subst h
      obtain ⟨_, hk, en, hen, hl⟩ := toValues_err he
      obtain ⟨b, hb, rfl⟩ := List.mem_map.mp hen
      obtain ⟨a₁, a₂, hne, h1, h2⟩ := strictSorted_two (strictSorted_sortDedup _) hl
      rw [mem_sortDedup, hx] at h1 h2
      exact ⟨hk, b, hb, a₁, a₂, hne, h1, h2⟩
    · rename_i vals _
      obtain ⟨y', hy', _⟩ := applyCells_spec vals hy
      rw [hy'] at h
      cases h
  · rintro ⟨hk, b, hb, a₁, a₂, hne, h1, h2⟩
    rw [← hx, ← mem_sortDedup] at h1 h2
    have hl := length_gt_one_of_two h1 h2 hne
    unfold rebuildY
    simp only
    cases hto : toValues p.y.kind (p.rowsY.map (fun t => (t, sortDedup (invGet p.x.inv t)))) with
    | ok vs => exact absurd ⟨hk, hl⟩ ((rebuildY_vals hto).2 b hb)
    | error e =>
      obtain ⟨he, _⟩ := toValues_err hto
      subst he; rfl

-- link creation on a column with duplicate targets (the new reverse column is a RefList)
example : (match rebuildY { exPair with y := newCol .refList } with
    | .ok p => p.y.data | .error _ => []) = [.none, .refList [1, 2], .refList [3], .none, .none] := by decide
-- ... and a switch of the reverse side to Ref is refused while row 1 of Y has two referrers
example : rebuildY { exPair with y := newCol .ref } = .error .uniqueReference := by rfl

end Grist.Refs
