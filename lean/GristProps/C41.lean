/-
C41  fetch_table queries return exactly the matching rows.
Property theorems.  Model: GristModel/FetchQuery.lean (engine.Engine.fetch_table).
-/
import GristModel.FetchQuery
namespace Grist.FetchQuery

/-! ## The property's own reading -/

/-- "the stored value is among the requested values" under Python `==` (no sets, no hashing) -/
def among (x : Val) (vs : List Val) : Bool := vs.any (fun v => pyEq x v)

/-- a row matches a query: for EVERY queried column the stored value is among that column's values -/
def specMatches (cols : List Col) (r : Nat) (q : List (Str × List Val)) : Bool :=
  q.all (fun p => match getColumn cols p.1 with
    | some c => among (c.rawGet r) p.2
    | none => false)

/-- the rows of the table: the slots of the id column that hold a positive id -/
def IsRow (idData : List Int) (r : Nat) : Prop := ∃ v, idData[r]? = some v ∧ v > 0

/-! ## Python equality and hashing on the value universe -/

mutual
/-- `==` is symmetric -/
theorem pyEq_symm (a b : Val) : pyEq a b = pyEq b a := by
  cases a <;> cases b <;> simp only [pyEq, numOf] <;>
    first
    | rfl
    | exact pyEqL_symm _ _
    | (rw [Bool.eq_iff_iff]; simp only [beq_iff_eq]; exact eq_comm)
termination_by sizeOf a
theorem pyEqL_symm (a b : List Val) : pyEqL a b = pyEqL b a := by
  cases a <;> cases b <;> simp only [pyEqL]
  rw [pyEq_symm, pyEqL_symm]
termination_by sizeOf a
end

mutual
/-- equal values are either both hashable or both unhashable -/
theorem pyEq_hashable (a b : Val) (h : pyEq a b = true) : hashable a = hashable b := by
  cases a <;> cases b <;> simp only [pyEq, numOf] at h <;> simp only [hashable] <;>
    first
    | rfl
    | exact pyEqL_hashable _ _ h
    | (exfalso; simp at h)
termination_by sizeOf a
theorem pyEqL_hashable (a b : List Val) (h : pyEqL a b = true) : hashableL a = hashableL b := by
  cases a <;> cases b <;> simp only [pyEqL] at h <;> simp only [hashableL]
  · cases h
  · cases h
  · simp only [Bool.and_eq_true] at h
    rw [pyEq_hashable _ _ h.1, pyEqL_hashable _ _ h.2]
termination_by sizeOf a
end

example : pyEq (.bool true) (.int 1) = true ∧ pyEq (.int 1) (.flt 1) = true ∧
    pyEq (.flt 0) (.bool false) = true ∧ pyEq (.str ['1']) (.int 1) = false ∧
    pyEq .none (.int 0) = false ∧ pyEq (.list [.int 1]) (.tuple [.int 1]) = false ∧
    pyEq (.tuple [.bool true, .list [.int 2]]) (.tuple [.flt 1, .list [.flt 2]]) = true := by decide

theorem hashableL_mem : ∀ (vs : List Val), hashableL vs = true → ∀ v ∈ vs, hashable v = true := by
  intro vs
  induction vs with
  | nil => intro _ v hv; cases hv
  | cons a rest ih =>
    intro h v hv
    simp only [hashableL, Bool.and_eq_true] at h
    rcases List.mem_cons.1 hv with g | g
    · rw [g]; exact h.1
    · exact ih h.2 v g

/-- **the try/except dance computes plain membership**: whether `values` became a set or stayed a
    list, and whether or not the lookup raised TypeError, the row passes the column test exactly
    when the stored value is `==` to one of the requested values. -/
theorem cellIn_spec (x : Val) (vs : List Val) :
    (cellIn x (prepValues vs) = some true) ↔ among x vs = true := by
  unfold prepValues among
  by_cases hs : hashableL vs = true
  · simp only [hs, ↓reduceIte, cellIn]
    by_cases hx : hashable x = true
    · simp [hx]
    · simp only [hx, Bool.false_eq_true, ↓reduceIte]
      constructor
      · intro h; cases h
      · intro h
        obtain ⟨v, hv, he⟩ := List.any_eq_true.1 h
        have := pyEq_hashable x v he
        rw [hashableL_mem vs hs v hv] at this
        exact absurd this hx
  · simp only [hs, Bool.false_eq_true, ↓reduceIte, cellIn, Option.some.injEq]
    have : (fun v => pyEq v x) = (fun v => pyEq x v) := by funext v; exact pyEq_symm v x
    rw [this]

/-! ## rows -/

theorem mem_rowIds (idData : List Int) (r : Nat) : r ∈ rowIds idData ↔ IsRow idData r := by
  unfold rowIds IsRow
  rw [List.mem_filter, List.mem_range]
  constructor
  · rintro ⟨h1, h2⟩
    refine ⟨idData[r], by simp [h1], ?_⟩
    simpa [List.getD, h1] using h2
  · rintro ⟨v, h1, h2⟩
    have hr : r < idData.length := (List.getElem?_eq_some_iff.1 h1).1
    refine ⟨hr, ?_⟩
    simp [List.getD, h1, h2]

theorem rowIds_ascending (idData : List Int) : (rowIds idData).Pairwise (· < ·) :=
  List.Pairwise.filter _ List.pairwise_lt_range

theorem queryCols_some (cols : List Col) : ∀ (q : List (Str × List Val)) (qcs : List (Col × Values)),
    queryCols cols q = some qcs →
    ∀ r, rowMatches r qcs = specMatches cols r q := by
  intro q
  induction q with
  | nil => intro qcs h r; simp [queryCols] at h; subst h; simp [rowMatches, specMatches]
  | cons p rest ih =>
    intro qcs h r
    obtain ⟨cid, vs⟩ := p
    unfold queryCols at h
    split at h
    · cases h
    · rename_i c hc
      split at h
      · cases h
      · rename_i qs hqs
        cases h
        have ih' := ih qs hqs r
        simp only [specMatches, List.all_cons, hc] at ih' ⊢
        unfold rowMatches
        by_cases ha : among (c.rawGet r) vs = true
        · rw [(cellIn_spec _ _).2 ha, ih', ha]; simp
        · have hn : cellIn (c.rawGet r) (prepValues vs) ≠ some true := fun g => ha ((cellIn_spec _ _).1 g)
          have ha' : among (c.rawGet r) vs = false := by simpa using ha
          rw [ha']
          split
          · rename_i g; exact absurd g hn
          · simp

theorem queryCols_none (cols : List Col) : ∀ (q : List (Str × List Val)),
    queryCols cols q = none ↔ ∃ p ∈ q, getColumn cols p.1 = none := by
  intro q
  induction q with
  | nil => simp [queryCols]
  | cons p rest ih =>
    obtain ⟨cid, vs⟩ := p
    unfold queryCols
    cases hc : getColumn cols cid with
    | none => simp [hc]
    | some c =>
      cases hq : queryCols cols rest with
      | none =>
        simp only [true_iff]
        obtain ⟨p, hp, g⟩ := ih.1 hq
        exact ⟨p, by simp [hp], g⟩
      | some qs =>
        simp only [reduceCtorEq, false_iff]
        rintro ⟨p, hp, g⟩
        rcases List.mem_cons.1 hp with e | e
        · subst e; simp [hc] at g
        · have := ih.2 ⟨p, e, g⟩
          rw [hq] at this; cases this

theorem isVirtual_iff (id : Str) : isVirtual id = true ↔ id.head? = some '#' := by
  cases id with
  | nil => simp [isVirtual]
  | cons ch tl =>
    by_cases hh : ch = '#'
    · subst hh; simp [isVirtual]
    · simp [isVirtual, hh]

/-! ## C41 -/

/-- **C41 (rows).** A query over existing columns returns exactly the rows of the table — each once,
    in increasing row-id order — whose stored value in EVERY queried column is `==` to one of that
    column's requested values; the set/list fallback and the swallowed TypeError never change the
    answer (unhashable requested values and unhashable cells included). -/
theorem fetch_query_exact (idData : List Int) (cols : List Col) (formulas priv : Bool)
    (q : List (Str × List Val)) (res : Result)
    (h : fetchTable idData cols formulas priv (some q) = some res) :
    res.rows = (rowIds idData).filter (fun r => specMatches cols r q) ∧
    res.rows.Pairwise (· < ·) ∧
    (∀ r, r ∈ res.rows ↔ IsRow idData r ∧ specMatches cols r q = true) := by
  unfold fetchTable at h
  simp only [Option.getD_some] at h
  split at h
  · cases h
  · rename_i qcs hq
    cases h
    have e : (rowIds idData).filter (fun r => rowMatches r qcs)
        = (rowIds idData).filter (fun r => specMatches cols r q) := by
      apply List.filter_congr
      intro r _
      exact queryCols_some cols q qcs hq r
    refine ⟨e, ?_, ?_⟩
    · simp only [e]; exact List.Pairwise.filter _ (rowIds_ascending idData)
    · intro r; simp only [e]; rw [List.mem_filter, mem_rowIds]

example : (fetchTable [0, 1, 2, 0, 4]
      [⟨['i','d'], false, false, [.int 0, .int 1, .int 2, .int 0, .int 4], .int 0⟩,
       ⟨['A'], false, false, [.int 0, .int 1, .bool true, .int 7, .list [.int 1]], .int 0⟩]
      true false (some [(['A'], [.flt 1, .list [.bool true]])])).map (·.rows) = some [1, 2, 4] := by
  decide

/-- an unknown query column is the only way to fail (KeyError), and nothing else is -/
theorem fetch_query_keyerror (idData : List Int) (cols : List Col) (formulas priv : Bool)
    (q : List (Str × List Val)) :
    fetchTable idData cols formulas priv (some q) = none ↔ ∃ p ∈ q, getColumn cols p.1 = none := by
  unfold fetchTable
  simp only [Option.getD_some]
  rw [← queryCols_none]
  cases queryCols cols q <;> simp

example : fetchTable [0, 1] [⟨['i','d'], false, false, [.int 0, .int 1], .int 0⟩] true false
    (some [(['n','o'], [.int 1])]) = none := by
  rw [fetch_query_keyerror]; exact ⟨_, List.mem_singleton.2 rfl, by decide⟩

/-- **C41 (no query).** Without a query (None or an empty dict) every row is returned, ascending. -/
theorem fetch_query_empty (idData : List Int) (cols : List Col) (formulas priv : Bool)
    (q : Option (List (Str × List Val))) (hq : q = none ∨ q = some []) :
    ∃ res, fetchTable idData cols formulas priv q = some res ∧
      res.rows = rowIds idData ∧ res.rows.Pairwise (· < ·) ∧ ∀ r, r ∈ res.rows ↔ IsRow idData r := by
  have : q.getD [] = [] := by rcases hq with g | g <;> simp [g]
  unfold fetchTable
  have e : (rowIds idData).filter (fun _ => true) = rowIds idData :=
    List.filter_eq_self.2 (fun _ _ => rfl)
  simp only [this, queryCols, rowMatches]
  refine ⟨_, rfl, e, ?_, ?_⟩
  · simp only [e]; exact rowIds_ascending idData
  · intro r; simp only [e]; exact mem_rowIds idData r

example : (fetchTable [0, 1, 0, 3] [⟨['i','d'], false, false, [.int 0, .int 1, .int 0, .int 3], .int 0⟩]
    true false none).map (·.rows) = some [1, 3] := by decide

/-- **C41 (columns).** The returned columns are, in table order, exactly the columns that are:
    formula columns only if `formulas`, private columns only if `private`, never `id`, never a
    virtual `#…` column; each comes with one value per returned row, the stored value of that row. -/
theorem fetch_columns_flags (idData : List Int) (cols : List Col) (formulas priv : Bool)
    (q : Option (List (Str × List Val))) (res : Result)
    (h : fetchTable idData cols formulas priv q = some res) :
    res.cols.map (·.1) = (cols.filter (fun c =>
        decide ((formulas = true ∨ c.isFormula = false) ∧ (priv = true ∨ c.isPrivate = false) ∧
          c.id ≠ ['i', 'd'] ∧ c.id.head? ≠ some '#'))).map (·.id) ∧
    (∀ p ∈ res.cols, ∃ c ∈ cols, c.id = p.1 ∧ p.2.length = res.rows.length ∧
        ∀ (k r : Nat), res.rows[k]? = some r → p.2[k]? = some (c.data.getD r c.dflt)) := by
  unfold fetchTable at h
  split at h
  · cases h
  · cases h
    constructor
    · rw [List.map_map]
      have : ∀ c : Col, selected formulas priv c =
          decide ((formulas = true ∨ c.isFormula = false) ∧ (priv = true ∨ c.isPrivate = false) ∧
            c.id ≠ ['i', 'd'] ∧ c.id.head? ≠ some '#') := by
        intro c
        rw [Bool.eq_iff_iff]
        simp only [selected, Bool.and_eq_true, Bool.or_eq_true, Bool.not_eq_true', bne_iff_ne, ne_eq,
          decide_eq_true_eq, ← isVirtual_iff, Bool.not_eq_true, and_assoc]
      exact congrArg _ (List.filter_congr (fun c _ => this c))
    · intro p hp
      simp only [List.mem_map, List.mem_filter] at hp
      obtain ⟨c, ⟨hc, _⟩, rfl⟩ := hp
      refine ⟨c, hc, rfl, by simp, ?_⟩
      intro k r hk
      simp [List.getElem?_map, hk, Col.rawGet]

example : (fetchTable [0, 1] [⟨['i','d'], false, false, [.int 0, .int 1], .int 0⟩,
      ⟨['A'], false, false, [.str [], .str ['x']], .str []⟩,
      ⟨['F'], true, false, [.none, .int 3], .none⟩,
      ⟨['P'], true, true, [.none, .int 4], .none⟩,
      ⟨['#','l'], true, false, [], .none⟩] false true none).map (fun r => r.cols.map (·.1))
    = some [['A']] := by decide

end Grist.FetchQuery
