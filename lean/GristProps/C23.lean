/-
C23  Changing a column's type converts each stored value.
Property theorems about GristModel/PyVal.lean: `modifyCell` (one cell through docactions.ModifyColumn
+ useractions.doModifyColumn), `colSet` (column.set), `colConvert` (column.convert), `strictEq`
(objtypes.strict_equal).  Helper lemmas: GristProofs/PyValColumn.lean.

  modify_type_cells          the cell after the change encodes like colSet τ' (convert τ' old), unless
                             strict_equal(old, converted) holds only through Python's numeric
                             coercions (True == 1, 0.0 == 0): then the unconverted value stays
  modify_type_cells_false    that exclusion is necessary: [True, 2] -> RefList stays [True, 2]
  modify_type_cells_scalar   no exclusion at all for the target types Text, Choice, Bool, Int
  modify_type_range_partial  the new cell is of the new type, an error object or text, unless it is a
                             text in a ChoiceList/RefList column (set() parses those again)
  modify_type_range_false    that exclusion is necessary: 2147483648 -> RefList gives the list
                             [2147483648] (not a valid RefList, not the converted text)
  modify_type_aborts         an int beyond the float range aborts a change to Numeric (OverflowError)
  modify_type_frame          on the table level only the changed column's cells change
-/
import GristProofs.PyValColumn
set_option linter.unusedSimpArgs false
namespace Grist.PyVal

/-! ### each cell -/

/-- strict_equal(old, converted) holds only when the two values are really the same, not merely
    equal through True == 1 / 0.0 == 0 / -0.0 == 0.0 -/
def NoHiddenCoercion (P : Prim) (τ' : ColType) (old : PyVal) : Prop :=
  strictEq old (colConvert P τ' old) = true → exactEq old (colConvert P τ' old) = true

/-- **C23 (each cell is the conversion of its previous value).**  If the type change goes through,
    the cell's reported (encoded) value is that of `colSet τ' (convert τ' old)`: the new type's
    conversion of the previous value, normalised by the new column's `set`. -/
theorem modify_type_cells (P : Prim) (τ' : ColType) (old c : PyVal)
    (h : modifyCell P τ' old = .ok c) (hn : NoHiddenCoercion P τ' old) :
    ∃ c', colSet P τ' (colConvert P τ' old) = .ok c' ∧ encode P c = encode P c' := by
  unfold modifyCell at h
  cases hraw : colSet P τ' old with
  | error e => simp [hraw] at h
  | ok raw =>
    simp only [hraw] at h
    by_cases hse : strictEq old (colConvert P τ' old) = true
    · simp only [hse, if_true, Except.ok.injEq] at h
      subst h
      have hex := hn hse
      have hsc : sameClass old (colConvert P τ' old) = true := by
        unfold strictEq at hse; simp only [Bool.and_eq_true] at hse; exact hse.1
      have := colSet_respects P τ' old (colConvert P τ' old) hex hsc
      rw [hraw] at this
      cases hc : colSet P τ' (colConvert P τ' old) with
      | error e => rw [hc] at this; simp [EncRel] at this
      | ok c' => rw [hc] at this; exact ⟨c', rfl, this⟩
    · simp only [hse, Bool.false_eq_true, if_false] at h
      exact ⟨c, h, rfl⟩

/-- instance: the text "12" in a column changed to Int becomes 12 (given float("12") = 12.0) -/
example (P : Prim) (hf : P.floatOfStr ['1', '2'] = some (.int 12)) :
    modifyCell P .int (.str ['1', '2'] false) = .ok (.int 12 false) := by
  simp [modifyCell, colSet, colConvert, convert, PyVal.isRaised, doConvert, doInt, isEmptyOrNone, pyFloat, hf,
    F.toInt, isShort, two31, strictEq, sameClass]
example (P : Prim) (hf : P.floatOfStr ['1', '2'] = some (.int 12)) :
    NoHiddenCoercion P .int (.str ['1', '2'] false) := by
  intro h
  simp [colConvert, convert, PyVal.isRaised, doConvert, doInt, isEmptyOrNone, pyFloat, hf,
    F.toInt, isShort, two31, strictEq, sameClass] at h

def metaZ : Meta := ⟨none, none, []⟩
/-- parameters for the witnesses -/
def PW : Prim := ⟨fun _ => none, fun _ => none, fun _ => [], fun _ => [],
    fun s => if s = "[2147483648]".toList then some (.list metaZ [.int 2147483648 false]) else none,
    fun _ => none, fun _ => none, fun _ => none, fun _ _ => .error [], fun _ => .error [], fun _ => .none,
    fun _ => .error [],
    fun _ => ⟨some "[2147483648]".toList, some "[2147483648]".toList, "list".toList⟩,
    fun _ => metaZ, fun _ _ => metaZ, fun _ _ => metaZ, fun _ _ _ _ => metaZ⟩

-- FULL STATEMENT (unproved, false of the code as it is):
--   theorem modify_type_cells_full (P) (τ') (old c) (h : modifyCell P τ' old = .ok c) :
--     ∃ c', colSet P τ' (colConvert P τ' old) = .ok c' ∧ encode P c = encode P c'
/-- **Without `NoHiddenCoercion` the statement is false**: the list cell `[True, 2]` changed to
    `RefList:T` converts to `[1, 2]`, which is `==` to the old value, so doModifyColumn leaves the
    unconverted list in place.  (Replayed on the real engine by harness/gx/props/c23.py.) -/
theorem modify_type_cells_false :
    ¬ (∀ (P : Prim) (τ' : ColType) (old c : PyVal), modifyCell P τ' old = .ok c →
        ∃ c', colSet P τ' (colConvert P τ' old) = .ok c' ∧ encode P c = encode P c') := by
  intro h
  obtain ⟨c', h1, h2⟩ := h PW (.refList ['T']) (.list metaZ [.bool true, .int 2 false])
    (.list metaZ [.bool true, .int 2 false]) rfl
  have : c' = .list (PW.listMeta [.int 1 false, .int 2 false]) [.int 1 false, .int 2 false] := by
    have h3 : colSet PW (.refList ['T']) (colConvert PW (.refList ['T']) (.list metaZ [.bool true, .int 2 false]))
        = .ok (.list (PW.listMeta [.int 1 false, .int 2 false]) [.int 1 false, .int 2 false]) := rfl
    rw [h3] at h1; injection h1 with h1; exact h1.symm
  subst this
  simp [encode, encodeL, isShort, two31] at h2

/-- the conversions to Text, Choice, Bool and Int produce None, a bool, an int or a string: for
    those strict_equal never hides a difference -/
theorem noHiddenCoercion_scalar (P : Prim) (τ' : ColType) (old : PyVal)
    (hτ : τ' = .text ∨ τ' = .choice ∨ τ' = .bool ∨ τ' = .int) : NoHiddenCoercion P τ' old := by
  intro hse
  have hconv : colConvert P τ' old = convert P τ' old := by
    rcases hτ with h | h | h | h <;> subst h <;> rfl
  rw [hconv] at hse ⊢
  cases hr : old.isRaised
  · have hsh := convert_shapeOK P τ' old hr (by
      intro hrep; rcases hτ with h | h | h | h <;> subst h <;> simp [reparses] at hrep)
    exact strictEq_exact_of_scalar _ _ (shapeOK_scalar τ' _ hτ hsh) hse
  · rw [convert_raised P τ' old hr] at hse
    cases old <;> simp [PyVal.isRaised] at hr
    simp [strictEq, sameClass] at hse

/-- **C23 for the target types Text, Choice, Bool, Int: no exclusion.** -/
theorem modify_type_cells_scalar (P : Prim) (τ' : ColType) (old c : PyVal)
    (hτ : τ' = .text ∨ τ' = .choice ∨ τ' = .bool ∨ τ' = .int)
    (h : modifyCell P τ' old = .ok c) :
    ∃ c', colSet P τ' (colConvert P τ' old) = .ok c' ∧ encode P c = encode P c' :=
  modify_type_cells P τ' old c h (noHiddenCoercion_scalar P τ' old hτ)

/-! ### the new cell is of the new type, an error, or text -/

/-- **C23 (the new cell is well-typed).**  When doModifyColumn re-sets the cell (old and converted
    value are not strict_equal), the cell is the converted value itself -- of the new type, or an
    error object, or text -- unless it is a text in a ChoiceList / RefList column. -/
theorem modify_type_range_partial (P : Prim) (τ' : ColType) (old c : PyVal)
    (hτ : τ' ≠ .blob) (hs : RowIdsShort old)
    (hne : strictEq old (colConvert P τ' old) = false)
    (hstr : reparses τ' = true → (colConvert P τ' old).isStr = false)
    (h : modifyCell P τ' old = .ok c) :
    c = colConvert P τ' old ∧
    (isRightType τ' c = true ∨ c.isRaised = true ∨ c.isStr = true) := by
  obtain ⟨v', hv', hs'⟩ := colConvert_eq P τ' old
  have hfix : colSet P τ' (colConvert P τ' old) = .ok (colConvert P τ' old) := by
    rw [hv'] at hstr ⊢
    cases hr : v'.isRaised
    · exact colSet_fixed P τ' _ (convert_shapeOK P τ' v' hr (fun hrep => hs' hrep hs)) hstr
    · rw [convert_raised P τ' v' hr]
      cases v' <;> simp [PyVal.isRaised] at hr
      cases τ' <;> simp [colSet, pyEqInt, refListPre]
  unfold modifyCell at h
  cases hraw : colSet P τ' old with
  | error e => simp [hraw] at h
  | ok raw =>
    simp only [hraw, hne, Bool.false_eq_true, if_false, hfix, Except.ok.injEq] at h
    subst h
    refine ⟨rfl, ?_⟩
    rw [hv']
    rcases convert_range_partial' P τ' v' hτ (fun hrep => hs' hrep hs) with h1 | h1 | h1
    · exact Or.inl h1
    · exact Or.inr (Or.inl h1)
    · exact Or.inr (Or.inr h1)
where
  convert_range_partial' (P : Prim) (τ : ColType) (v : PyVal) (hτ : τ ≠ .blob)
      (hs : reparses τ = true → RowIdsShort v) :
      isRightType τ (convert P τ v) = true ∨ (convert P τ v).isRaised = true ∨ (convert P τ v).isStr = true := by
    cases hr : v.isRaised
    · cases h : doConvert P τ v with
      | error e => rw [convert_error P τ v e hr h]; exact Or.inr (Or.inr (altOf_isStr P v))
      | ok r =>
        rw [convert_ok P τ v r hr h]
        have hsh := convert_shapeOK P τ v hr hs
        rw [convert_ok P τ v r hr h] at hsh
        rcases shapeOK_range τ r hτ hsh with h1 | h1
        · exact Or.inl h1
        · exact Or.inr (Or.inr h1)
    · rw [convert_raised P τ v hr]; exact Or.inr (Or.inl hr)

/-- instance: a date text in a column changed to Date (given the ISO parser's answer) -/
example (P : Prim) (s : Str) (hs : s.isEmpty = false) (hp : P.isoDate s = some (.int 1577836800)) :
    modifyCell P .date (.str s false) = .ok (.float (.int 1577836800) false) := by
  simp [modifyCell, colSet, colConvert, convert, PyVal.isRaised, doConvert, doDate, isEmptyOrNone, hs, hp,
    strictEq, sameClass]

-- FULL STATEMENT (unproved, false of the code as it is):
--   the same without the hypothesis `hstr`
/-- **Without `hstr` the statement is false**: the int 2147483648 (in an Any column) changed to
    `RefList:T`: `[2147483648]` fails to convert (not a 32-bit id), the alt-text is the string
    "[2147483648]", and ReferenceListColumn.set parses that string again into the list
    [2147483648], which is neither the conversion nor a valid RefList value. -/
theorem modify_type_range_false :
    ¬ (∀ (P : Prim) (τ' : ColType) (old c : PyVal), τ' ≠ .blob → RowIdsShort old →
        strictEq old (colConvert P τ' old) = false → modifyCell P τ' old = .ok c →
        c = colConvert P τ' old ∧ (isRightType τ' c = true ∨ c.isRaised = true ∨ c.isStr = true)) := by
  intro h
  have h1 := h PW (.refList ['T']) (.int 2147483648 false) (.list metaZ [.int 2147483648 false])
    (by decide) (by intro m xs tid ids hv; cases hv) rfl rfl
  have h2 := h1.2
  simp [isRightType, isRefId, isShort, two31, PyVal.isRaised, PyVal.isStr] at h2

/-- **A change to Numeric is aborted by an int beyond the float range** (`float(int)` raises
    OverflowError inside NumericColumn.set while docactions.ModifyColumn copies the raw values). -/
theorem modify_type_aborts (P : Prim) (n : Int) (hbig : (decide (-two53 ≤ n) && decide (n ≤ two53)) = false)
    (hov : P.floatOfBig n = none) :
    modifyCell P .numeric (.int n false) = .error "OverflowError".toList := by
  simp [modifyCell, colSet, floatOfInt, hbig, hov, exc]

/-! ### nothing else changes -/

/-- a column of a table: its id and its cells (in row order) -/
structure Column where
  id : Str
  cells : List PyVal

def modifyCells (P : Prim) (τ' : ColType) : List PyVal → Except Str (List PyVal)
  | [] => .ok []
  | x :: xs => match modifyCell P τ' x, modifyCells P τ' xs with
    | .ok c, .ok cs => .ok (c :: cs)
    | .error e, _ => .error e
    | _, .error e => .error e

/-- the data effect of the actions a type change emits (ModifyColumn for column `c`, then a
    BulkUpdateRecord that names only column `c`): every column but `c` keeps its cells -/
def modifyTable (P : Prim) (τ' : ColType) (c : Str) : List Column → Except Str (List Column)
  | [] => .ok []
  | col :: rest =>
    match (if col.id = c then (match modifyCells P τ' col.cells with
                               | .ok cs => Except.ok (Column.mk col.id cs) | .error e => .error e)
           else .ok col), modifyTable P τ' c rest with
    | .ok col', .ok rest' => .ok (col' :: rest')
    | .error e, _ => .error e
    | _, .error e => .error e

/-- **C23 (frame).**  After the change the table has the same columns in the same order, and every
    column other than the changed one has exactly the cells it had. -/
theorem modify_type_frame (P : Prim) (τ' : ColType) (c : Str) :
    ∀ (tbl tbl' : List Column), modifyTable P τ' c tbl = .ok tbl' →
      tbl'.map (·.id) = tbl.map (·.id) ∧
      ∀ col ∈ tbl, col.id ≠ c → col ∈ tbl' := by
  intro tbl
  induction tbl with
  | nil => intro tbl' h; simp [modifyTable] at h; subst h; simp
  | cons col rest ih =>
    intro tbl' h
    simp only [modifyTable] at h
    split at h
    · rename_i col' rest' h1 h2
      simp at h; subst h
      obtain ⟨hid, hmem⟩ := ih rest' h2
      have hcol : col'.id = col.id ∧ (col.id ≠ c → col' = col) := by
        by_cases hcid : col.id = c
        · simp only [hcid, if_true] at h1
          split at h1
          · simp at h1; subst h1; exact ⟨hcid.symm ▸ rfl, fun hne => absurd hcid hne⟩
          · simp at h1
        · simp only [hcid, if_false] at h1
          simp at h1; subst h1; exact ⟨rfl, fun _ => rfl⟩
      refine ⟨by simp [hid, hcol.1], ?_⟩
      intro x hx hne
      simp at hx
      rcases hx with hx | hx
      · subst hx; simp [hcol.2 hne]
      · simp [hmem x hx hne]
    · simp at h
    · simp at h

/-- the cells of the changed column are exactly the per-cell results -/
theorem modify_type_column (P : Prim) (τ' : ColType) (c : Str) (col : Column) (rest rest' : List Column)
    (col' : Column) (hc : col.id = c) (h : modifyTable P τ' c (col :: rest) = .ok (col' :: rest')) :
    modifyCells P τ' col.cells = .ok col'.cells := by
  simp only [modifyTable, hc, if_true] at h
  split at h
  · rename_i c1 r1 h1 h2
    simp at h
    cases hm : modifyCells P τ' col.cells with
    | ok cs => rw [hm] at h1; simp at h1; rw [← h.1, ← h1]
    | error e => rw [hm] at h1; simp at h1
  · simp at h
  · simp at h

example (P : Prim) : modifyTable P .text ['A']
    [⟨['A'], [.int 5 false, .none]⟩, ⟨['B'], [.float (.int 2) false, .bool true]⟩] =
    .ok [⟨['A'], [.str ['5'] false, .none]⟩, ⟨['B'], [.float (.int 2) false, .bool true]⟩] := by
  simp [modifyTable, modifyCells, modifyCell, colSet, colConvert, convert, PyVal.isRaised, doConvert, doText,
    pyStr, decInt, decNat, strictEq, sameClass, pyEq, numKey]
  decide

end Grist.PyVal
