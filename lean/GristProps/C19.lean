/-
C19  Invalid formulas are isolated and valid ones mean what they say
     (sandbox/grist/codebuilder.py on top of textbuilder.py).
Property theorems only.  Model: GristModel/Codebuilder.lean; proofs: GristProofs/Codebuilder.lean.

CPython's parser, asttokens' positions and astroid's re-parse are PARAMETERS of the model (`Facts`):
what is proved here is what codebuilder does with whatever they answer.  Vocabulary:
  * `physLines s`   – Python's physical lines of `s`: split at '\n', '\r\n' and lone '\r';
  * `splitNl s`     – the pieces between '\n' characters (what `^` of `re.M` sees); `joinNl` its inverse;
  * `indentLine`    – a line with a non-whitespace character gets the indentation in front;
  * `Documented`    – the five kinds of edits `_do_make_formula_body` makes to a valid formula;
  * `BodyShape`     – the three things `_do_make_formula_body` can return.
-/
import GristProofs.Codebuilder
import GristProps.C37
namespace Grist.Codebuilder
open Grist.Textbuilder

/-! ### `_indent` -/

/-- **C19 (indent_preserves_lines).**  For every text and indentation, `_indent` builds (its
    patches always fit) and produces exactly: every '\n'-delimited line that contains a
    non-whitespace character prefixed with the indentation, every other line unchanged, the line
    structure unchanged (`joinNl (splitNl text) = text`). -/
theorem indent_preserves_lines (text indent : Str) :
    replacerBuild text (indentPatches text indent) = .ok (tablesOf text (indentPatches text indent)) ∧
    (tablesOf text (indentPatches text indent)).outText = joinNl ((splitNl text).map (indentLine indent)) ∧
    joinNl (splitNl text) = text :=
  ⟨(indent_text text indent).1, (indent_text text indent).2, joinNl_splitNl text⟩

/-
-- FULL STATEMENT (unproved): "indentation reaches every line Python sees", i.e. every non-blank
-- PHYSICAL line of the indented text starts with the indentation:
--   ∀ text indent l, l ∈ physLines (tablesOf text (indentPatches text indent)).outText →
--     nonBlank l = true → indent <+: l
-- It is FALSE of the code: `_indent`'s regexp `^` (re.M) only knows '\n', Python's tokenizer also
-- ends a line at a lone '\r'.  Witness 'a\rb' → '    a\rb': the physical line 'b' is not indented,
-- so in the generated module it leaves the function.  Replayed on the real code by c19.py
-- (known finding; an accepted bundle can thereby replace the formulas of OTHER columns).
-/
theorem indent_all_physical_lines_is_false :
    ¬ (∀ (text indent l : Str), l ∈ physLines (tablesOf text (indentPatches text indent)).outText →
        nonBlank l = true → indent <+: l) := by
  intro hall
  have := hall ['a', '\r', 'b'] [' ', ' ', ' ', ' '] ['b'] (by decide) (by decide)
  revert this
  decide

/-! ### The syntax-error stub -/

/-- **C19 (no character of the user's text escapes the comment).**  For ANY text, every physical
    line of the commented-out text starts with "# ". -/
theorem commentize_every_line (s : Str) : ∀ l ∈ physLines (commentize s), StartsHash l :=
  commentize_lines s

/-- **C19 (stub_is_comments_plus_raise).**  For any formula text and any error the parser reported:
    the code returned by `_create_syntax_error_code` consists of physical lines that all start with
    "# ", followed by one last line, the `raise` statement.  (The class name and the `repr`s come
    from Python and contain no line terminators.) -/
theorem stub_is_comments_plus_raise (mapOff : Int → Except CErr Int) (bt input : Str) (lr : List Str)
    (err : SynErr) (code : Str) (h : createSyntaxErrorCode mapOff bt input lr err = .ok code)
    (h1 : NoTerm err.typeName) (h2 : NoTerm err.reprMessage) (h3 : ∀ r ∈ lr, NoTerm r) :
    ∃ ls last, physLines code = ls ++ [last] ∧ (∀ l ∈ ls, StartsHash l) ∧ lit "raise " <+: last ∧ ls ≠ [] :=
  stub_lines mapOff bt input lr err code h h1 h2 h3

/-- **C19 (the stub inside the function).**  After `_indent` with an indentation of `k` spaces every
    physical line of the stub except the last is a comment (optional spaces, then '#') — also the
    lines after a lone '\r', which `_indent` leaves at column 0 — and the last line is the indented
    `raise` statement. -/
theorem indented_stub_is_comments_plus_raise (mapOff : Int → Except CErr Int) (bt input : Str)
    (lr : List Str) (err : SynErr) (code : Str) (k : Nat)
    (h : createSyntaxErrorCode mapOff bt input lr err = .ok code)
    (h1 : NoTerm err.typeName) (h2 : NoTerm err.reprMessage) (h3 : ∀ r ∈ lr, NoTerm r) :
    ∃ ls rest, physLines (tablesOf code (indentPatches code (List.replicate k ' '))).outText
        = ls ++ [List.replicate k ' ' ++ lit "raise " ++ rest] ∧
      (∀ l ∈ ls, IsCommentLine l) ∧ ls ≠ [] :=
  indented_stub_lines mapOff bt input lr err code k h h1 h2 h3

/-- **C19 (stub_total_partial).**  The stub is produced whenever the error carries a line number,
    the position maps back, and the reported line exists in `input_text.splitlines()`. -/
theorem stub_total_partial (mapOff : Int → Except CErr Int) (bt input : Str) (lr : List Str)
    (err : SynErr) (lineno : Int) (hl : err.lineno = some lineno) (off : Int)
    (hoff : mapOff (lineToOffset bt lineno (errCol err)) = .ok off)
    (hidx : ((offsetToLine input off).1 - 1).toNat < lr.length) :
    ∃ code, createSyntaxErrorCode mapOff bt input lr err = .ok code :=
  createSyntaxErrorCode_ok mapOff bt input lr err lineno hl off hoff hidx

/-
-- FULL STATEMENT (unproved): "for every SyntaxError the stub is produced":
--   ∀ mapOff bt input lr err, ∃ code, createSyntaxErrorCode mapOff bt input lr err = .ok code
-- FALSE of the code: for a text containing a NUL character CPython's SyntaxError has lineno None
-- and `line -= 1` in asttokens.LineNumbers.line_to_offset raises TypeError.  Replayed by c19.py.
-/
-- (a second way to fail: the reported line is not among `input_text.splitlines()` → IndexError;
--  known finding 5 of c19.py reaches it through the dedent coordinate mix-up)
example : createSyntaxErrorCode (fun x => .ok x) [] [] [] ⟨[], [], some 1, none⟩ = .error .indexError := by
  decide

theorem stub_fails_without_lineno :
    ¬ (∀ (mapOff : Int → Except CErr Int) (bt input : Str) (lr : List Str) (err : SynErr),
        ∃ code, createSyntaxErrorCode mapOff bt input lr err = .ok code) := by
  intro hall
  obtain ⟨code, hc⟩ := hall (fun x => .ok x) [] [] [] ⟨[], [], none, none⟩
  rw [createSyntaxErrorCode_no_lineno _ _ _ _ _ rfl] at hc
  cases hc

/-! ### Valid formulas: only the documented edits -/

/-- **C19 (body_only_documented_edits, given the parser's facts).**  Whatever the parsers answer,
    `_do_make_formula_body` returns one of: `return <default>` for a blank formula; a syntax-error
    stub (comment + raise, see above); or a Replacer over the (dedented) formula whose patches are
    all of the documented kinds — `$` → `rec.` at a place where the formula has `$name`,
    `lambda: (` / `)` insertions around lazily evaluated arguments, `return ` inserted before the last
    expression statement, `\npass` appended to an empty body.  Nothing else is ever changed. -/
theorem body_only_documented_edits_partial (facts : Facts) (f : Str) (assoc : Nat) (body : Body)
    (h : doMakeFormulaBody facts f assoc = .ok body) : BodyShape facts f assoc body :=
  doMakeFormulaBody_shape facts f assoc body h

/-- A `$` → `rec.` patch sits exactly on a `$` that is followed by an identifier start. -/
theorem dollar_patches_are_dollars (formula : Str) (i : Int) (h : dollarMatchAt formula i = true) :
    0 ≤ i ∧ ∃ d rest, formula.drop i.toNat = '$' :: d :: rest ∧ isIdentStart d = true := by
  unfold dollarMatchAt at h
  split at h
  · cases h
  · rename_i hi
    refine ⟨by omega, ?_⟩
    split at h
    · rename_i c d rest heq
      simp only [Bool.and_eq_true, decide_eq_true_eq] at h
      exact ⟨d, rest, by rw [heq, h.1], h.2⟩
    · cases h

theorem dedent_getText_replacer (f : Str) (assoc : Nat) (formula : Str) (patches : List Patch)
    (hf : getText (dedent (.text f assoc) f) = .ok formula) :
    getText (.replacer (dedent (.text f assoc) f) patches) =
      (match replacerBuild formula patches with | .ok tb => .ok tb.outText | .error e => .error e) := by
  unfold dedent at hf ⊢
  by_cases hs : (commonPrefix (lineIndents (splitNl f))).isEmpty = true
  · simp only [hs, if_true] at hf ⊢
    rw [getText]
    case x_2 => intro s b hh; cases hh
    cases hrb : replacerBuild formula patches <;> simp only [hf, hrb]
  · have hs' : (commonPrefix (lineIndents (splitNl f))).isEmpty = false := by simpa using hs
    simp only [hs', Bool.false_eq_true, if_false] at hf ⊢
    rw [getText]
    case x_2 => intro s b hh; cases hh
    cases hrb : replacerBuild formula patches <;> simp only [hf, hrb]

/-- When the documented patches do not overlap (the parser's positions are sane), the produced text
    is the formula with exactly those patches applied, and (C37 `only_patched_changed`) every
    stretch between them is copied unchanged. -/
theorem edited_body_text (f : Str) (assoc : Nat) (formula : Str) (patches : List Patch)
    (hf : getText (dedent (.text f assoc) f) = .ok formula) (hno : NonOverlapping formula patches) :
    getText (.replacer (dedent (.text f assoc) f) patches) = .ok (applyPatches formula (sortPatches patches)) := by
  obtain ⟨tb, hb, ht⟩ := replacer_text_eq_applyPatches formula patches hno
  rw [dedent_getText_replacer f assoc formula patches hf]
  simp only [hb, ht]

/-! ### Module assembly -/

/-- **C19 (module_isolation).**  In a module assembled by a Combiner from parts (headers, per-column
    bodies, …), the part `b` occupies exactly the range `[off, off + len)` of the module text, and a
    patch of the module text lying inside that range is mapped back through `b` only (shifted by
    `off`): it can never land in another column's formula. -/
theorem module_isolation (bpre : List Builder) (b : Builder) (bpost : List Builder)
    (tpre : List Str) (tb : Str) (tpost : List Str)
    (h1 : getTexts bpre = .ok tpre) (h2 : getText b = .ok tb) (h3 : getTexts bpost = .ok tpost) :
    (∃ T, getText (.combiner (bpre ++ b :: bpost)) = .ok T ∧ T = joinStrs tpre ++ tb ++ joinStrs tpost ∧
      slice T ((joinStrs tpre).length : Nat) (((joinStrs tpre).length + tb.length : Nat) : Int) = tb) ∧
    (∀ (p : Patch), ((joinStrs tpre).length : Int) ≤ p.start → p.end_ ≤ (joinStrs tpre).length + tb.length →
      ((joinStrs tpre).length : Int) < p.end_ → p.start < (joinStrs tpre).length + tb.length →
      slice (joinStrs tpre ++ tb ++ joinStrs tpost) p.start p.end_ = p.oldText →
      mapBack (.combiner (bpre ++ b :: bpost)) p =
        mapBack b ⟨p.start - (joinStrs tpre).length, p.end_ - (joinStrs tpre).length, p.oldText, p.newText⟩) :=
  ⟨combiner_part_range bpre b bpost tpre tb tpost h1 h2 h3,
   fun p r1 r2 r3 r4 hold => combiner_mapBack_inside bpre b bpost tpre tb tpost p h1 h2 h3 r1 r2 r3 r4 hold⟩

/-- A patch of the module text that reaches from one part into the next is refused (C37). -/
theorem module_spanning_refused (bpre bpost : List Builder) (tpre tpost : List Str) (p : Patch)
    (h1 : getTexts bpre = .ok tpre) (h2 : getTexts bpost = .ok tpost) (hne : bpost ≠ [])
    (hs : p.start < (joinStrs tpre).length) (he : ((joinStrs tpre).length : Int) < p.end_) :
    mapBack (.combiner (bpre ++ bpost)) p = .error .valueError :=
  tree_spanning_refused bpre bpost tpre tpost p h1 h2 hne hs he

/-! ### Non-vacuity: concrete inputs -/

-- `_indent` on "x = 1\n\n  y" with two spaces: blank line untouched
example : (tablesOf ['x', '\n', '\n', ' ', 'y'] (indentPatches ['x', '\n', '\n', ' ', 'y'] [' ', ' '])).outText
    = [' ', ' ', 'x', '\n', '\n', ' ', ' ', ' ', 'y'] := by decide

-- the lone-CR witness: the physical line 'b' stays at column 0
example : physLines (tablesOf ['a', '\r', 'b'] (indentPatches ['a', '\r', 'b'] [' ', ' '])).outText
    = [[' ', ' ', 'a'], ['b']] := by decide

-- commentize "1 +\r2\r\n3": every physical line starts with "# " (also after the lone CR)
example : physLines (commentize ['1', ' ', '+', '\r', '2', '\r', '\n', '3'])
    = [['#', ' ', '1', ' ', '+'], ['#', ' ', '2'], ['#', ' ', '3']] := by decide

-- a stub: the error of "1 +" (line 1, offset 4), no `$`: comment line + raise
example : createSyntaxErrorCode (fun x => .ok x) ['1', ' ', '+'] ['1', ' ', '+'] [lit "'1 +'"]
      ⟨lit "SyntaxError", lit "'invalid syntax'", some 1, some 4⟩
    = .ok (lit "# 1 +\nraise SyntaxError('invalid syntax', ('usercode', 1, 4, '1 +'))") := by decide

-- a valid formula "x = $A\nx": the documented patches (`$`→`rec.` at 4, `return ` at 7) do not
-- overlap, so the body is the formula with exactly those applied
example : Documented (lit "x = $A\nx") (patchAt (lit "x = $A\nx") 4 5 (lit "rec.")) :=
  Documented.dollar 4 (by decide)
example : NonOverlapping (lit "x = $A\nx")
    [patchAt (lit "x = $A\nx") 4 5 (lit "rec."), patchAt (lit "x = $A\nx") 7 7 (lit "return ")] := by
  refine ⟨?_, by decide⟩
  intro p hp
  simp only [List.mem_cons, List.mem_nil_iff, or_false] at hp
  rcases hp with rfl | rfl <;> (unfold Patch.Fits; decide)
example : getText (dedent (.text (lit "x = $A\nx") 7) (lit "x = $A\nx")) = .ok (lit "x = $A\nx") := by decide
example : applyPatches (lit "x = $A\nx")
    [patchAt (lit "x = $A\nx") 4 5 (lit "rec."), patchAt (lit "x = $A\nx") 7 7 (lit "return ")]
    = lit "x = rec.A\nreturn x" := by decide

-- module isolation: two bodies between headers
example : getTexts [.raw (lit "def B():\n") false, .text (lit "  return 1") 1] = .ok [lit "def B():\n", lit "  return 1"] := by
  decide

end Grist.Codebuilder
