/-
C33  JSON import reconstructs the input.   Property theorems only.
Model: GristModel/JsonImport.lean (imports/import_json.py).
Vocabulary of the statements (`rowScalars`, `elemsSpec`, `StoredRow`/`StoredElems`/`StoredItems`,
`getRow`, `cellsOf`, `keptElems`, `allScalarsL`, `sameParentTable`) and the inductions behind the
theorems: GristProofs/JsonImportSpec.lean; store lemmas and invariants: GristProofs/JsonImport.lean.

All statements are about `build o name data` (the importer's rows after `for val in data:
tables.add_row(name, val)`) and `dumps o name data` (the emitted tables), for EVERY document `data`,
table name `name` and include/exclude options `o` unless a hypothesis says otherwise.  `norm data`
is the document as Python holds it: repeated keys resolved (last wins), members in sorted key order.
-/
import GristModel.JsonImport
import GristProofs.JsonImport
import GristProofs.JsonImportSpec
namespace Grist.JsonImport

/-! ## Property theorems -/

/-- **C33 (one value per row), one table.**  Whatever rows a table has, every dumped column --
    the value columns and the back-reference column -- has exactly one entry per row, and the
    table keeps its name. -/
theorem columns_equal_length (name : String) (rows : List Row) (t : DTable)
    (h : dumpTable name rows = .ok t) :
    t.name = name ∧ ∀ c ∈ t.cols, c.data.length = rows.length := by
  unfold dumpTable at h
  split at h
  · simp at h; subst h; exact ⟨rfl, transpose_lengths rows⟩
  · dsimp only at h
    split at h
    · simp at h
    · simp at h; subst h
      refine ⟨rfl, ?_⟩
      intro c hc
      simp only [List.mem_append, List.mem_singleton] at hc
      rcases hc with hc | hc
      · exact transpose_lengths rows c hc
      · subst hc; simp

/-- **C33 (one value per row), whole import.**  For every document and all include/exclude
    options: each column of each produced table has one value for every row the importer made
    in that table. -/
theorem dumps_columns_equal_length (o : Opts) (name : String) (data : J) (ts : List DTable)
    (h : dumps o name data = .ok ts) :
    ∀ t ∈ ts, ∀ c ∈ t.cols, c.data.length = (rowsOf (build o name data) t.name).length := by
  intro t ht c hc
  obtain ⟨n, rows, hmem, hd⟩ := dumpAll_tables _ ts h t ht
  obtain ⟨hname, hlen⟩ := columns_equal_length n rows t hd
  rw [hname, rowsOf_of_mem (build_uniq o name data) n rows hmem]
  exact hlen c hc

/-- **C33 (tables).**  The produced tables have pairwise different names (they are the distinct
    '_'-joined key paths that received a row, in order of first use). -/
theorem table_names_distinct (o : Opts) (name : String) (data : J) (ts : List DTable)
    (h : dumps o name data = .ok ts) : (ts.map (·.name)).Nodup := by
  rw [dumpAll_names _ ts h]; exact build_uniq o name data

example : (dumps defaultOpts "t" (.arr [.obj [("a", .sc (.num "1")), ("b", .arr [.sc .null, .sc (.str "x")])],
                                       .obj [("a", .obj [])]])).toOption =
    some [⟨"t", [⟨"a", "Numeric", [.val (.num "1"), .id 1]⟩]⟩,
         ⟨"t_b", [⟨"", "Text", [.none, .val (.str "x")]⟩, ⟨"t", "Ref:t", [.id 1, .id 1]⟩]⟩,
         ⟨"t_a", []⟩] := by decide +kernel

/-- **C33 (row ids).**  In every table the i-th row carries the reference (table, i), so the row
    ids written into cells and back-reference columns are positions in the dumped columns. -/
theorem ids_consecutive (o : Opts) (name : String) (data : J) (T : String) (i : Nat) (row : Row)
    (h : (rowsOf (build o name data) T)[i]? = some row) : row.ref = ⟨T, i + 1⟩ :=
  add_wf.2.1 _ o [] name none WF.nil T i row h

/-- **C33 (the tables hold the input).**  For every document and all options, the top-level items
    have rows in the main table `name` (in increasing row order, without back-reference), and
    each row holds its item in the sense of `StoredRow`: scalars in the cell of their key, nested
    objects as rows of the sub-table referenced from the cell of their key, array elements as
    sub-table rows pointing back to the row -- recursively, subject to the options. -/
theorem import_stores_input (o : Opts) (name : String) (data : J) :
    StoredElems o (build o name data) name none 0 (topItems (norm data)) :=
  add_stored.2.1 _ o [] name none 0 (Nat.zero_le _)

/-- **C33 (every scalar exactly once at its place).**  For every table name `T`, the scalar cells
    of the rows of `T`, row by row, are exactly the kept scalars of the values whose path is `T`,
    value by value in document order (`elemsSpec`, computed from the input alone): no scalar is
    lost, duplicated, moved to another row or table, and no other scalar cell exists. -/
theorem scalars_once (o : Opts) (name : String) (data : J) (T : String) :
    (rowsOf (build o name data) T).map rowScalars = elemsSpec o T name (topItems (norm data)) := by
  have := add_placed.2.1 (topItems (norm data)) o [] name none T
  simpa [rowsOf_nil, build] using this

/-- **C33 (nested objects).**  If a row holds the members `kvs` and one of them is a nested
    object under key `k` whose path is kept, then the row has the cell `(k, Ref(table_k, n))` and
    row `n` of the sub-table `table_k` holds that nested object (and has no back-reference). -/
theorem nested_ref (o : Opts) (st : St) (table : String) (r : Ref) :
    ∀ (kvs : List (String × J)) (vals : List (String × Cell)),
      StoredItems o st table (some r) vals kvs →
      ∀ k kv', (k, J.obj kv') ∈ kvs → isIncluded o (sub table k) = true →
      ∃ n, (k, Cell.ref ⟨sub table k, n⟩) ∈ vals ∧
        StoredRow o st (sub table k) none (some ⟨sub table k, n⟩) (.obj kv')
  | [], _, _, k, kv', hm, _ => by simp at hm
  | (k0, .sc s) :: rest, vals, h, k, kv', hm, hinc => by
    simp only [StoredItems] at h
    obtain ⟨vals', hv, hrest⟩ := h
    have hm' : (k, J.obj kv') ∈ rest := by simpa using hm
    obtain ⟨n, h1, h2⟩ := nested_ref o st table r rest vals' hrest k kv' hm' hinc
    exact ⟨n, by rw [hv]; exact List.mem_append_right _ h1, h2⟩
  | (k0, .arr xs) :: rest, vals, h, k, kv', hm, hinc => by
    simp only [StoredItems] at h
    have hm' : (k, J.obj kv') ∈ rest := by simpa using hm
    exact nested_ref o st table r rest vals h.2 k kv' hm' hinc
  | (k0, .obj kvs0) :: rest, vals, h, k, kv', hm, hinc => by
    simp only [StoredItems] at h
    obtain ⟨child, vals', hok, hst, hv, hrest⟩ := h
    rcases List.mem_cons.mp hm with e | hm'
    · injection e with e1 e2
      subst e1
      injection e2 with e3
      subst e3
      cases child with
      | none => simp only [MeOk] at hok; rw [hok] at hinc; exact absurd hinc (by simp)
      | some c =>
        simp only [MeOk] at hok
        have hc : c = ⟨sub table k, c.rowid⟩ := by cases c; simp at hok ⊢; exact hok.2.1
        refine ⟨c.rowid, ?_, ?_⟩
        · rw [hv, ← hc]; simp [refCell]
        · rw [← hc]; exact hst
    · obtain ⟨n, h1, h2⟩ := nested_ref o st table r rest vals' hrest k kv' hm' hinc
      exact ⟨n, by rw [hv]; exact List.mem_append_right _ h1, h2⟩

/-- the elements of an array member are stored in the sub-table named after its key -/
theorem array_member_elems (o : Opts) (st : St) (table : String) (me : Option Ref) :
    ∀ (kvs : List (String × J)) (vals : List (String × Cell)),
      StoredItems o st table me vals kvs →
      ∀ k xs, (k, J.arr xs) ∈ kvs → StoredElems o st (sub table k) me 0 xs
  | [], _, _, k, xs, hm => by simp at hm
  | (k0, .sc s) :: rest, vals, h, k, xs, hm => by
    simp only [StoredItems] at h
    obtain ⟨vals', _, hrest⟩ := h
    exact array_member_elems o st table me rest vals' hrest k xs (by simpa using hm)
  | (k0, .arr xs0) :: rest, vals, h, k, xs, hm => by
    simp only [StoredItems] at h
    rcases List.mem_cons.mp hm with e | hm'
    · cases e; exact h.1
    · exact array_member_elems o st table me rest vals h.2 k xs hm'
  | (k0, .obj kvs0) :: rest, vals, h, k, xs, hm => by
    simp only [StoredItems] at h
    obtain ⟨child, vals', _, _, _, hrest⟩ := h
    exact array_member_elems o st table me rest vals' hrest k xs (by simpa using hm)

/-- **C33 (array elements).**  If the elements `xs` are stored in table `table` under parent
    `parent` and the path is kept, every element has a row `n` in that table whose back-reference
    is exactly `parent` and which holds the element. -/
theorem array_parent_ref (o : Opts) (st : St) (table : String) (parent : Option Ref)
    (hinc : isIncluded o table = true) :
    ∀ (xs : List J) (lo : Nat), StoredElems o st table parent lo xs →
      ∀ x ∈ xs, ∃ n row, lo < n ∧ getRow st ⟨table, n⟩ = some row ∧ row.parent = parent ∧
        row.ref = ⟨table, n⟩ ∧ StoredRow o st table parent (some ⟨table, n⟩) x
  | [], _, _, x, hx => by simp at hx
  | y :: ys, lo, h, x, hx => by
    simp only [StoredElems] at h
    obtain ⟨child, hok, habove, hst, hrest⟩ := h
    cases child with
    | none => simp only [MeOk] at hok; rw [hok] at hinc; exact absurd hinc (by simp)
    | some c =>
      simp only [MeOk] at hok
      have hc : c = ⟨table, c.rowid⟩ := by cases c; simp at hok ⊢; exact hok.2.1
      have hlo : lo < c.rowid := habove c rfl
      rcases List.mem_cons.mp hx with e | hx'
      · subst e
        rw [hc] at hst
        obtain ⟨row, h1, h2, h3⟩ := storedRow_row o st table parent _ x hst
        exact ⟨c.rowid, row, hlo, h1, h2, h3, hst⟩
      · obtain ⟨n, row, h0, h1, h2, h3, h4⟩ := array_parent_ref o st table parent hinc ys _ hrest x hx'
        simp only [nextLo] at h0
        exact ⟨n, row, by omega, h1, h2, h3, h4⟩

/-- **C33 (items become rows, exactly).**  Processing a list of values at path `table` (the
    top-level items, or the elements of one array) appends to table `table` exactly one row per
    value if the path is kept (none otherwise), each with the given back-reference. -/
theorem addElems_rows_self (o : Opts) (table : String) (parent : Option Ref) :
    ∀ (xs : List J) (st : St), ∃ news,
      rowsOf (addElems o st table parent xs) table = rowsOf st table ++ news ∧
      news.length = (if isIncluded o table = true then xs.length else 0) ∧
      ∀ r ∈ news, r.parent = parent
  | [], st => ⟨[], by simp [addElems]⟩
  | x :: xs, st => by
    simp only [addElems]
    obtain ⟨vals, h1⟩ := addRow_rows_self o st table parent x
    obtain ⟨news, h2, h3, h4⟩ := addElems_rows_self o table parent xs (addRow o st table parent x).1
    refine ⟨(if isIncluded o table = true then [mkRow st table parent vals] else []) ++ news, ?_, ?_, ?_⟩
    · rw [h2, h1, List.append_assoc]
    · rw [List.length_append, h3]; split <;> simp; omega
    · intro r hr
      rcases List.mem_append.mp hr with hr | hr
      · split at hr
        · simp at hr; subst hr; rfl
        · simp at hr
      · exact h4 r hr

/-- **C33 (top-level items become the rows of the main table).**  If the main table's path is
    kept it has exactly one row per top-level item and none of them has a back-reference;
    otherwise it has no rows. -/
theorem main_table_rows (o : Opts) (name : String) (data : J) :
    (rowsOf (build o name data) name).length =
        (if isIncluded o name = true then (topItems (norm data)).length else 0) ∧
    ∀ r ∈ rowsOf (build o name data) name, r.parent = none := by
  obtain ⟨news, h1, h2, h3⟩ := addElems_rows_self o name none (topItems (norm data)) []
  unfold build
  rw [h1, rowsOf_nil, List.nil_append]
  exact ⟨h2, h3⟩

/-- **C33 (cells become column entries).**  In the dump of a table, every key that occurs in one
    of its rows has a column, and that column lists, row by row, the row's cell for the key (a
    scalar as itself, a reference as its row id, nothing as None). -/
theorem dump_value_columns (name : String) (rows : List Row) (t : DTable)
    (h : dumpTable name rows = .ok t) (k : String) (hk : ∃ r ∈ rows, k ∈ r.values.map (·.1)) :
    ∃ c ∈ t.cols, c.id = k ∧ c.data = rows.map (fun r => dumpCell (r.values.lookup k)) := by
  have hmem : k ∈ keyOrder rows := (mem_keyOrder rows k).mpr hk
  have hc : ∃ c ∈ transpose rows, c.id = k ∧ c.data = rows.map (fun r => dumpCell (r.values.lookup k)) := by
    simp only [transpose, List.mem_map]
    exact ⟨_, ⟨k, hmem, rfl⟩, rfl, rfl⟩
  obtain ⟨c, hc1, hc2⟩ := hc
  unfold dumpTable at h
  split at h
  · simp at h; subst h; exact ⟨c, hc1, hc2⟩
  · dsimp only at h
    split at h
    · simp at h
    · simp at h; subst h
      exact ⟨c, List.mem_append_left _ hc1, hc2⟩

/-- **C33 (all scalars, whole import, any options).**  The multiset of scalar cells of all rows of
    all tables is the multiset of the kept scalars of the document. -/
theorem cells_are_kept_scalars (o : Opts) (name : String) (data : J) :
    (cellsOf (build o name data)).Perm (keptElems o name (topItems (norm data))) := by
  have := add_cells.2.1 (topItems (norm data)) o [] name none Uniq.nil
  simpa [cellsOf, build] using this

/-- **C33 (all scalars, default options).**  Without includes/excludes the scalars found in the
    cells of all tables are, as a multiset, exactly the scalars of the document: nothing is lost
    and nothing appears twice. -/
theorem cells_are_input_scalars (name : String) (data : J) :
    ((cellsOf (build defaultOpts name data)).map (·.2)).Perm (allScalarsL (topItems (norm data))) :=
  ((cells_are_kept_scalars defaultOpts name data).map _).trans (kept_default.2.1 _ name)

/-! ### where the dump is weaker than the rows: the two findings -/

/-- **C33 (back-reference column), partial.**  If some row of a table has a back-reference, the
    dump ends with a back-reference column typed `Ref:<table of the first parent>` that lists, row
    by row, the parent's row id; so whenever all parents of the table's rows live in one table
    (`sameParentTable`), the column identifies every row's parent exactly. -/
theorem backref_column_partial (name : String) (rows : List Row) (t : DTable) (q : Ref)
    (hq : rows.findSome? (·.parent) = some q) (h : dumpTable name rows = .ok t) :
    (∃ c, t.cols.getLast? = some c ∧ c.type = "Ref:" ++ q.table ∧
      c.data = rows.map (fun r => match r.parent with
        | some p => DVal.id p.rowid
        | none => DVal.none)) ∧
    (sameParentTable rows = true → ∀ r ∈ rows, ∀ p, r.parent = some p → p.table = q.table) := by
  constructor
  · unfold dumpTable at h
    rw [hq] at h
    dsimp only at h
    split at h
    · simp at h
    · simp at h; subst h
      refine ⟨_, List.getLast?_concat .., rfl, rfl⟩
  · intro hs r hr p hp
    obtain ⟨r0, hr0, hq0⟩ := List.exists_of_findSome?_eq_some hq
    simp only [sameParentTable, List.all_eq_true] at hs
    have := hs r hr r0 hr0
    rw [hp, hq0] at this
    simpa using this

/- FULL STATEMENT (unproved, false): for every document, all back-references of the rows of a
   table point into one table, so that the single back-reference column (typed by the first
   parent) is right for every row:
     ∀ o name data T, sameParentTable (rowsOf (build o name data) T) = true
   Counter-example (a finding, replayed on the real code by harness/gx/props/c33.py):
     {"b": {"c": [1]}, "b_c": [2]}   -- both arrays land in table t_b_c, parents in t_b and in t -/
def collisionWitness : J :=
  .obj [("b", .obj [("c", .arr [.sc (.num "1")])]), ("b_c", .arr [.sc (.num "2")])]

example : ¬ (∀ o name data T, sameParentTable (rowsOf (build o name data) T) = true) := fun h =>
  absurd (h defaultOpts "t" collisionWitness "t_b_c") (by decide +kernel)

-- what the importer emits for it: element 2 claims row 1 of t_b as parent, its parent is row 1 of t
example : (dumps defaultOpts "t" collisionWitness).toOption =
    some [⟨"t", [⟨"b", "Ref:t_b", [.id 1]⟩]⟩,
          ⟨"t_b", []⟩,
          ⟨"t_b_c", [⟨"", "Numeric", [.val (.num "1"), .val (.num "2")]⟩,
                     ⟨"t_b", "Ref:t_b", [.id 1, .id 1]⟩]⟩] := by decide +kernel

/-- **C33 (rows are visible), partial.**  If some row of a table holds a cell or has a
    back-reference, the dumped table has at least one column (and so, by
    `columns_equal_length`, shows every row). -/
theorem dump_shows_rows_partial (name : String) (rows : List Row) (t : DTable)
    (h : dumpTable name rows = .ok t) (hr : ∃ r ∈ rows, r.values ≠ [] ∨ r.parent ≠ none) :
    t.cols ≠ [] := by
  obtain ⟨r, hr, hor⟩ := hr
  rcases hor with hv | hp
  · -- a key exists, hence a value column
    obtain ⟨k, c', c⟩ : ∃ k c, (k, c) ∈ r.values := by
      cases hvs : r.values with
      | nil => exact absurd hvs hv
      | cons p ps => exact ⟨p.1, p.2, by simp⟩
    obtain ⟨col, hcol, _⟩ := dump_value_columns name rows t h k
      ⟨r, hr, List.mem_map.mpr ⟨(k, c'), c, rfl⟩⟩
    intro he; rw [he] at hcol; simp at hcol
  · -- a back-reference exists, hence the back-reference column
    have : ∃ q, rows.findSome? (·.parent) = some q := by
      cases hf : rows.findSome? (·.parent) with
      | some q => exact ⟨q, rfl⟩
      | none =>
        rw [List.findSome?_eq_none_iff] at hf
        exact absurd (hf r hr) hp
    obtain ⟨q, hq⟩ := this
    obtain ⟨⟨c, hc, _⟩, _⟩ := backref_column_partial name rows t q hq h
    intro he; rw [he] at hc; simp at hc

/- FULL STATEMENT (unproved, false): every table that has rows shows them, i.e. is dumped with at
   least one column:
     ∀ o name data T t, rowsOf (build o name data) T ≠ [] →
       (dumpTable T (rowsOf (build o name data) T)).toOption = some t → t.cols ≠ []
   Counter-example (a finding, replayed on the real code): {"a": {}} -- the row of t_a holds no
   cell, t_a is dumped without columns, yet t.a = 1 refers to its row 1. -/
def columnlessWitness : J := .obj [("a", .obj [])]

example : ¬ (∀ o name data T t, rowsOf (build o name data) T ≠ [] →
    (dumpTable T (rowsOf (build o name data) T)).toOption = some t → t.cols ≠ []) := fun h =>
  h defaultOpts "t" columnlessWitness "t_a" ⟨"t_a", []⟩ (by decide +kernel) (by decide +kernel) rfl

example : (dumps defaultOpts "t" columnlessWitness).toOption =
    some [⟨"t", [⟨"a", "Ref:t_a", [.id 1]⟩]⟩, ⟨"t_a", []⟩] := by decide +kernel

-- the same for an array of arrays at top level: the main table has rows but no columns
example : (dumps defaultOpts "t" (.arr [.arr [.sc (.num "1")]])).toOption =
    some [⟨"t", []⟩, ⟨"t_", [⟨"", "Numeric", [.val (.num "1")]⟩, ⟨"t", "Ref:t", [.id 1]⟩]⟩] := by
  decide +kernel

/-! ### Non-vacuity: a document with a nested object, arrays, a null, and options -/

def sampleDoc : J :=
  .arr [.obj [("name", .sc (.str "ann")), ("tags", .arr [.sc (.str "x"), .sc .null]),
              ("addr", .obj [("zip", .sc (.num "12")), ("geo", .arr [.arr [.sc (.num "1.5")]])])],
        .obj [("tags", .arr []), ("name", .sc (.str "bob")), ("name", .sc (.str "bobby"))]]

-- rows of the main table: one per item, keys sorted, the repeated key keeps its last value
example : (rowsOf (build defaultOpts "t" sampleDoc) "t").map (·.values) =
    [[("addr", .ref ⟨"t_addr", 1⟩), ("name", .val (.str "ann"))], [("name", .val (.str "bobby"))]] := by
  decide +kernel
-- `scalars_once` for the array sub-table, computed from the input alone
example : elemsSpec defaultOpts "t_tags" "t" (topItems (norm sampleDoc)) =
    [[("", .str "x")], [("", .null)]] := by decide +kernel
-- `ids_consecutive` / `array_parent_ref`: second element of `tags` is row 2 and points back to t row 1
example : (rowsOf (build defaultOpts "t" sampleDoc) "t_tags")[1]? =
    some ⟨[("", .val .null)], some ⟨"t", 1⟩, ⟨"t_tags", 2⟩⟩ := by decide +kernel
-- nested arrays: the inner array's element points to the row of the outer array's element
example : (rowsOf (build defaultOpts "t" sampleDoc) "t_addr_geo_").map (fun r => (r.values, r.parent)) =
    [([("", .val (.num "1.5"))], some ⟨"t_addr_geo", 1⟩)] := by decide +kernel
-- `cells_are_input_scalars`: six scalars in (after the repeated key is resolved), six cells out
example : ((cellsOf (build defaultOpts "t" sampleDoc)).map (·.2)).length = 6
    ∧ (allScalarsL (topItems (norm sampleDoc))).length = 6 := by decide +kernel
-- with options: excluding the prefix `t_addr` drops the nested object, its link and its sub-tables
example : (build (parseOpts "" ";t_addr;") "t" sampleDoc).map (·.1) = ["t", "t_tags"]
    ∧ (rowsOf (build (parseOpts "" ";t_addr;") "t" sampleDoc) "t").map (·.values) =
        [[("name", .val (.str "ann"))], [("name", .val (.str "bobby"))]] := by decide +kernel
-- including only a sub-table keeps its rows, without back-references (their parents are filtered)
example : (build (parseOpts "t_tags" "") "t" sampleDoc) =
    [("t_tags", [⟨[("", .val (.str "x"))], none, ⟨"t_tags", 1⟩⟩, ⟨[("", .val .null)], none, ⟨"t_tags", 2⟩⟩])] := by
  decide +kernel

end Grist.JsonImport
