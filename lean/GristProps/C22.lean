/-
C22  Cell value conversion is total and idempotent.
Property theorems about GristModel/PyVal.lean: `convert` (usertypes.BaseColumnType.convert),
`doConvert` (the 16 `do_convert` overrides), `isRightType` (the `is_right_type` overrides).
Helper lemmas: GristProofs/PyValConvert.lean.

  convert_total             convert is defined on every value: it is the input error object, or
                            do_convert's result, or (do_convert raised) an alt-text string
  convert_range_partial     for every type but Blob the result is of the type, or the unchanged
                            error object, or a string
  convert_range_false       the full statement is false:  Blob().convert(5) = 5
  convert_idem_partial      convert (convert v) = convert v unless (a) do_convert raised on a
                            non-string whose alt-text is itself convertible, or (b) one of three
                            explicit degenerate inputs of ChoiceList / RefList
  convert_idem_false_*      (a) and each case of (b) really break idempotence (witnesses, replayed
                            on the real code by harness/gx/props/c22.py)
  convert_idem_text, convert_idem_id, convert_idem_int_of_number, convert_idem_str
                            classes on which (a) is discharged: Text/Choice/Any/Blob on everything;
                            Id/Ref whenever the alt-text is non-empty; Int and Bool on every number
                            given the round-trip laws of float()/repr(); every type on strings
-/
import GristProofs.PyValConvert
set_option linter.unusedSimpArgs false
namespace Grist.PyVal

/-! ### Hypotheses of the partial theorems -/

/-- The explicit inputs on which re-conversion is not the identity although do_convert succeeded:
    ChoiceList: text that is an empty JSON list (`"[]"` gives `()`, then None);
    RefList/Attachments: a RecordSet of the table (gives a RecordList, then a plain list / None),
    a list of RecordSets of the table holding no record (gives `[]`, then None). -/
def Degenerate (P : Prim) : ColType → PyVal → Prop
  | .choiceList, v => EmptyJson P v
  | .refList t, v => RefDegenerate t v
  | .attachments, v => RefDegenerate attachmentsTable v
  | _, _ => False

/-- "The alt-text is not itself convertible": if do_convert raises on a value that is not a string,
    then converting the fallback text `str(v)` gives that text back. -/
def AltFixed (P : Prim) (τ : ColType) (v : PyVal) : Prop :=
  v.isStr = false → ∀ e, doConvert P τ v = .error e → convert P τ (altOf P v) = altOf P v

/-! ### C22 (totality) -/

/-- **C22 (never raises).**  `convert` is a total function, and its value is: the input itself when
    that is an error object; otherwise what `do_convert` returns; otherwise, when `do_convert`
    raises (any exception class `e`), the alt-text `str(v)` / `safe_repr(v)`, which is a string. -/
theorem convert_total (P : Prim) (τ : ColType) (v : PyVal) :
    (v.isRaised = true ∧ convert P τ v = v) ∨
    (v.isRaised = false ∧ ∃ r, doConvert P τ v = .ok r ∧ convert P τ v = r) ∨
    (v.isRaised = false ∧ ∃ e, doConvert P τ v = .error e ∧ convert P τ v = altOf P v ∧
      (convert P τ v).isStr = true) := by
  cases hr : v.isRaised
  · right
    cases h : doConvert P τ v with
    | ok r => exact Or.inl ⟨rfl, r, rfl, convert_ok P τ v r hr h⟩
    | error e =>
      have hc := convert_error P τ v e hr h
      exact Or.inr ⟨rfl, e, rfl, hc, by rw [hc]; exact altOf_isStr P v⟩
  · exact Or.inl ⟨rfl, convert_raised P τ v hr⟩

/-- all three cases occur: an error object, a successful conversion, and an alt-text -/
example (P : Prim) : convert P .int (.raised ⟨none, none, []⟩ (.str ['E']) .none .none []) =
    .raised ⟨none, none, []⟩ (.str ['E']) .none .none [] := rfl
example (P : Prim) : convert P .int (.bool true) = .int 1 false := rfl
example (P : Prim) : convert P .int (.list ⟨some ['[', ']'], none, []⟩ []) = .str ['[', ']'] false := rfl

/-! ### C22 (range) -/

theorem doConvert_range (P : Prim) (τ : ColType) (v r : PyVal) (hτ : τ ≠ .blob)
    (hs : RowIdsShort v) (h : doConvert P τ v = .ok r) :
    isRightType τ r = true ∨ r.isStr = true := by
  cases τ
  case blob => exact absurd rfl hτ
  case text =>
    rcases doText_result P v r h with h1 | ⟨s, h1⟩ <;> subst h1 <;> simp [isRightType]
  case choice =>
    rcases doText_result P v r h with h1 | ⟨s, h1⟩ <;> subst h1 <;> simp [isRightType]
  case any => simp [isRightType]
  case bool =>
    obtain ⟨b, h1⟩ := doBool_result v r h; subst h1; simp [isRightType]
  case int =>
    rcases doInt_result P v r h with h1 | ⟨n, h1, hn⟩ <;> subst h1 <;> simp [isRightType, *]
  case numeric =>
    rcases doNumeric_result P _ v r h with h1 | ⟨f, h1⟩ <;> subst h1 <;> simp [isRightType]
  case positionNumber =>
    rcases doNumeric_result P _ v r h with h1 | ⟨f, h1⟩ <;> subst h1 <;> simp [isRightType]
  case manualSortPos =>
    rcases doNumeric_result P _ v r h with h1 | ⟨f, h1⟩ <;> subst h1 <;> simp [isRightType]
  case date =>
    rcases doDate_result P _ v r h with h1 | ⟨f, h1⟩ <;> subst h1 <;> simp [isRightType, isNumeric]
  case dateTime =>
    rcases doDate_result P _ v r h with h1 | ⟨f, h1⟩ <;> subst h1 <;> simp [isRightType, isNumeric]
  case choiceList =>
    rcases doChoiceList_result P v r h with h1 | ⟨h1, hstr⟩ | ⟨ss, h1, _⟩
    · subst h1; simp [isRightType]
    · subst h1; exact Or.inr hstr
    · subst h1; simp [isRightType, strTuple, allStr_strs]
  case id =>
    obtain ⟨n, h1, hn⟩ := doId_result v r h; subst h1; simp [isRightType, isRefId, hn]
  case ref =>
    obtain ⟨n, h1, hn⟩ := doId_result v r h; subst h1; simp [isRightType, isRefId, hn]
  case refList t =>
    rcases doRefList_result P t v r h hs with ⟨_, _, _, h1, _⟩ | h1 | ⟨rs, h1, hil, _⟩
    · subst h1; simp [isRightType]
    · subst h1; simp [isRightType]
    · subst h1; simp only [isRightType]; exact Or.inl (all_isRefId rs hil)
  case attachments =>
    rcases doRefList_result P _ v r h hs with ⟨_, _, _, h1, _⟩ | h1 | ⟨rs, h1, hil, _⟩
    · subst h1; simp [isRightType]
    · subst h1; simp [isRightType]
    · subst h1; simp only [isRightType]; exact Or.inl (all_isRefId rs hil)

/-- **C22 (range), strongest true form.**  For every column type except Blob and every value (whose
    RecordSets, if any, have 32-bit row ids), the result is of the right type for the column, or is
    the unchanged error object, or is an alt-text string. -/
theorem convert_range_partial (P : Prim) (τ : ColType) (v : PyVal) (hτ : τ ≠ .blob)
    (hs : RowIdsShort v) :
    isRightType τ (convert P τ v) = true ∨ (convert P τ v = v ∧ v.isRaised = true) ∨
    (convert P τ v).isStr = true := by
  rcases convert_total P τ v with ⟨hr, hc⟩ | ⟨_, r, h, hc⟩ | ⟨_, e, _, _, hstr⟩
  · exact Or.inr (Or.inl ⟨hc, hr⟩)
  · rw [hc]
    rcases doConvert_range P τ v r hτ hs h with h1 | h1
    · exact Or.inl h1
    · exact Or.inr (Or.inr h1)
  · exact Or.inr (Or.inr hstr)

/-- a non-trivial input used in the examples: `[T.RecordSet([1, 3]), T.RecordSet([3, 4])]` -/
def vEx : PyVal := .list ⟨none, none, []⟩
  [.recordSet ['T'] [1, 3] false [1, 3] [] [], .recordSet ['T'] [3, 4] false [3, 4] [] []]

theorem vEx_ids (tid : Str) (ids : List Int)
    (h : recordSetsIds tid [.recordSet ['T'] [1, 3] false [1, 3] [] [],
                            .recordSet ['T'] [3, 4] false [3, 4] [] []] = some ids) :
    ids = [1, 3, 3, 4] := by
  simp only [recordSetsIds] at h
  split at h
  · simp at h; exact h.symm
  · simp at h

theorem vEx_short : RowIdsShort vEx := by
  intro m xs tid ids hv hflat i hi
  cases hv
  have := vEx_ids _ _ hflat
  subst this
  simp at hi
  rcases hi with rfl | rfl | rfl <;> decide

/-- instance: converted to `RefList:T` the value above becomes `[1, 3, 4]`, a right-type value -/
example (P : Prim) : isRightType (.refList ['T']) (convert P (.refList ['T']) vEx) = true ∨
    (convert P (.refList ['T']) vEx = vEx ∧ vEx.isRaised = true) ∨
    (convert P (.refList ['T']) vEx).isStr = true :=
  convert_range_partial P _ vEx (by decide) vEx_short

/-- Blob: the result is always the input itself (`Blob.do_convert` is the identity). -/
theorem convert_blob (P : Prim) (v : PyVal) : convert P .blob v = v := by
  unfold convert; split <;> simp [doConvert]

-- FULL STATEMENT (unproved, false of the code as it is):
--   theorem convert_range (P : Prim) (τ : ColType) (v : PyVal) :
--     isRightType τ (convert P τ v) = true ∨ (convert P τ v = v ∧ v.isRaised = true) ∨
--     (convert P τ v).isStr = true
/-- **The full range statement is false**: `Blob().convert(5)` is `5`: not bytes/None, not an error
    object, not text.  (Replayed on the real code by harness/gx/props/c22.py.) -/
theorem convert_range_false :
    ¬ (∀ (P : Prim) (τ : ColType) (v : PyVal),
        isRightType τ (convert P τ v) = true ∨ (convert P τ v = v ∧ v.isRaised = true) ∨
        (convert P τ v).isStr = true) := by
  intro h
  have h1 := h ⟨fun _ => none, fun _ => none, fun _ => [], fun _ => [], fun _ => none, fun _ => none,
    fun _ => none, fun _ => none, fun _ _ => .error [], fun _ => .error [], fun _ => .none,
    fun _ => .error [], fun _ => ⟨none, none, []⟩, fun _ => ⟨none, none, []⟩, fun _ _ => ⟨none, none, []⟩,
    fun _ _ => ⟨none, none, []⟩, fun _ _ _ _ => ⟨none, none, []⟩⟩ .blob (.int 5 false)
  simp [convert_blob, isRightType, PyVal.isRaised, PyVal.isStr] at h1

/-! ### C22 (idempotence) -/

theorem any_fix (P : Prim) (v r : PyVal) (h : doConvert P .any v = .ok r) : convert P .any r = r := by
  apply convert_fix
  simp only [doConvert] at h ⊢
  split at h
  · simp at h; subst h; rfl
  · simp at h; subst h
    split
    · simp_all
    · rfl

/-- when do_convert succeeds on a non-degenerate input, its result is a fixpoint of convert -/
theorem convert_fix_of_ok (P : Prim) (τ : ColType) (v r : PyVal) (h : doConvert P τ v = .ok r)
    (hd : ¬ Degenerate P τ v) (hs : RowIdsShort v) : convert P τ r = r := by
  cases τ
  case text => exact convert_fix P _ r (doText_fix P v r h)
  case choice => exact convert_fix P _ r (doText_fix P v r h)
  case blob => exact convert_blob P r
  case any => exact any_fix P v r h
  case bool =>
    obtain ⟨b, h1⟩ := doBool_result v r h; subst h1
    exact convert_fix P _ _ (doBool_bool b)
  case int => exact convert_fix P _ r (doInt_fix P v r h)
  case numeric => exact convert_fix P _ r (doNumeric_fix_none P v r h)
  case positionNumber => exact convert_fix P _ r (doNumeric_fix_inf P v r h)
  case manualSortPos => exact convert_fix P _ r (doNumeric_fix_inf P v r h)
  case date => exact convert_fix P _ r (doDate_fix P false v r h)
  case dateTime => exact convert_fix P _ r (doDate_fix P true v r h)
  case choiceList => exact convert_fix P _ r (doChoiceList_fix P v r h hd)
  case id => exact convert_fix P _ r (doId_fix v r h)
  case ref => exact convert_fix P _ r (doId_fix v r h)
  case refList t => exact convert_fix P _ r (doRefList_fix P t v r h hd hs)
  case attachments => exact convert_fix P _ r (doRefList_fix P _ v r h hd hs)

/-- **C22 (idempotence), strongest true form.**  Converting the result again returns the same
    value (same class, bitwise-equal floats), for every column type and every value, except
    (a) when do_convert raises on a non-string whose fallback text is itself convertible
        (`AltFixed` excludes exactly this), and
    (b) on the three explicit `Degenerate` inputs. -/
theorem convert_idem_partial (P : Prim) (τ : ColType) (v : PyVal)
    (hd : ¬ Degenerate P τ v) (hs : RowIdsShort v) (ha : AltFixed P τ v) :
    convert P τ (convert P τ v) = convert P τ v := by
  rcases convert_total P τ v with ⟨_, hc⟩ | ⟨_, r, h, hc⟩ | ⟨hr, e, h, hc, _⟩
  · rw [hc, hc]
  · rw [hc]; exact convert_fix_of_ok P τ v r h hd hs
  · rw [hc]
    cases hstr : v.isStr
    · exact ha hstr e h
    · -- v is a string (possibly of a subclass): its alt-text is the same text
      cases v <;> simp [PyVal.isStr] at hstr
      rename_i s b _
      rw [altOf_str]
      have h2 := doConvert_str_error P τ s b e h
      rw [convert_error P τ (.str s false) e rfl h2, altOf_str]

/-- non-trivial instance: Int applied to the float 2147483648.5 (alt-text "2147483648.5", which
    float() parses back to the same float, which is again out of range) -/
example (P : Prim) (hrepr : P.floatOfStr (P.reprF (.frac 0x41E0000000100000 2147483648))
      = some (.frac 0x41E0000000100000 2147483648))
    (hne : P.reprF (.frac 0x41E0000000100000 2147483648) ≠ []) :
    AltFixed P .int (.float (.frac 0x41E0000000100000 2147483648) false) := by
  intro _ e _
  have hemp : (P.reprF (.frac 0x41E0000000100000 2147483648)).isEmpty = false := by
    cases hx : P.reprF (.frac 0x41E0000000100000 2147483648) with
    | nil => exact absurd hx hne
    | cons a as => rfl
  simp [altOf, pyStr, convert, PyVal.isRaised, doConvert, doInt, isEmptyOrNone, hemp, pyFloat,
    hrepr, F.toInt, isShort, two31, exc]

/-- a complete instance of `convert_idem_partial`: all three hypotheses hold for `vEx` in a
    `RefList:T` column (result `[1, 3, 4]`) -/
example (P : Prim) :
    convert P (.refList ['T']) (convert P (.refList ['T']) vEx) = convert P (.refList ['T']) vEx := by
  apply convert_idem_partial
  · intro hd
    rcases hd with ⟨rows, tup, ids, gb, sb, h⟩ | ⟨m, xs, ids, hv, hflat, hdd⟩
    · cases h
    · cases hv
      have := vEx_ids _ _ hflat
      subst this
      revert hdd; decide
  · exact vEx_short
  · intro _ e he
    simp [vEx, doConvert, doRefList, refListPre, doRefListCore, truthy, flatIds, recordSetsIds] at he

example (P : Prim) : convert P (.refList ['T']) vEx =
    .list (P.listMeta [.int 1 false, .int 3 false, .int 4 false])
      [.int 1 false, .int 3 false, .int 4 false] := by
  simp [vEx, convert, PyVal.isRaised, doConvert, doRefList, refListPre, doRefListCore, truthy, flatIds,
    recordSetsIds, dedup]

/-! #### the exclusions are necessary: concrete witnesses -/

/-- parameters for the witnesses: every partial primitive fails, except `json.loads("[]") = []` -/
def P0 : Prim := ⟨fun _ => none, fun _ => none, fun _ => [], fun _ => [],
    fun s => if s = ['[', ']'] then some (.list ⟨some ['[', ']'], some ['[', ']'], ['l','i','s','t']⟩ []) else none,
    fun _ => none, fun _ => none, fun _ => none, fun _ _ => .error [], fun _ => .error [], fun _ => .none,
    fun _ => .error [], fun _ => ⟨none, none, []⟩, fun _ => ⟨none, none, []⟩, fun _ _ => ⟨none, none, []⟩,
    fun _ _ => ⟨none, none, []⟩, fun _ _ _ _ => ⟨none, none, []⟩⟩

-- FULL STATEMENT (unproved, false of the code as it is):
--   theorem convert_idem (P : Prim) (τ : ColType) (v : PyVal) :
--     convert P τ (convert P τ v) = convert P τ v
/-- (a) `Int().convert(AltText(''))` is `''`, and `Int().convert('')` is `None`. -/
theorem convert_idem_false_alttext :
    ¬ (∀ (P : Prim) (τ : ColType) (v : PyVal), convert P τ (convert P τ v) = convert P τ v) := by
  intro h
  have h1 := h P0 .int (.altText [])
  change PyVal.none = PyVal.str [] false at h1
  cases h1

/-- (b1) `ChoiceList().convert('[]')` is `()`, and `ChoiceList().convert(())` is `None`;
    `AltFixed` and `RowIdsShort` hold for this input, so `¬ Degenerate` cannot be dropped. -/
theorem convert_idem_false_emptyjson :
    ¬ (∀ (P : Prim) (τ : ColType) (v : PyVal), RowIdsShort v → AltFixed P τ v →
        convert P τ (convert P τ v) = convert P τ v) := by
  intro h
  have h1 := h P0 .choiceList (.str ['[', ']'] false)
    (by intro m xs tid ids hv; cases hv) (by intro hstr; cases hstr)
  change PyVal.none = PyVal.tuple _ [] at h1
  cases h1

/-- (b2) `ReferenceList('T').convert(T.RecordSet([1, 3]))` is a `RecordList`; converting that gives
    the plain list `[1, 3]` (and an empty RecordSet gives `RecordList([])`, then `None`). -/
theorem convert_idem_false_recordset :
    ¬ (∀ (P : Prim) (τ : ColType) (v : PyVal), RowIdsShort v → AltFixed P τ v →
        convert P τ (convert P τ v) = convert P τ v) := by
  intro h
  have h1 := h P0 (.refList ['T']) (.recordSet ['T'] [1, 3] false [1, 3] [] [])
    (by intro m xs tid ids hv; cases hv) (by intro _ e he; simp [doConvert, doRefList, refListPre, doRefListCore] at he)
  change PyVal.list _ [.int 1 false, .int 3 false] = PyVal.recordList [1, 3] [] [] at h1
  cases h1

/-- (b3) `ReferenceList('T').convert([T.RecordSet([])])` is `[]`, and converting `[]` gives `None`. -/
theorem convert_idem_false_emptysets :
    ¬ (∀ (P : Prim) (τ : ColType) (v : PyVal), RowIdsShort v → AltFixed P τ v →
        convert P τ (convert P τ v) = convert P τ v) := by
  intro h
  have h1 := h P0 (.refList ['T']) (.list ⟨none, none, []⟩ [.recordSet ['T'] [] false [] [] []])
    (by
      intro m xs tid ids hv hflat i hi
      simp only [PyVal.list.injEq] at hv
      obtain ⟨_, hxs⟩ := hv
      subst hxs
      simp only [recordSetsIds] at hflat
      split at hflat
      · simp at hflat; subst hflat; simp at hi
      · simp at hflat)
    (by intro _ e he; simp [doConvert, doRefList, refListPre, doRefListCore, truthy, flatIds,
          recordSetsIds, dedup] at he)
  change PyVal.none = PyVal.list _ [] at h1
  cases h1

/-! #### classes of inputs on which hypothesis (a) is discharged -/

/-- **Text, Choice, Any, Blob: idempotent on every value**, no hypothesis at all. -/
theorem convert_idem_text (P : Prim) (τ : ColType) (v : PyVal)
    (hτ : τ = .text ∨ τ = .choice ∨ τ = .any ∨ τ = .blob) :
    convert P τ (convert P τ v) = convert P τ v := by
  rcases convert_total P τ v with ⟨_, hc⟩ | ⟨_, r, h, hc⟩ | ⟨hr, e, h, hc, _⟩
  · rw [hc, hc]
  · rw [hc]
    rcases hτ with h' | h' | h' | h' <;> subst h'
    · exact convert_fix P _ r (doText_fix P v r h)
    · exact convert_fix P _ r (doText_fix P v r h)
    · exact any_fix P v r h
    · exact convert_blob P r
  · rw [hc]
    rcases hτ with h' | h' | h' | h' <;> subst h'
    · unfold altOf; split <;> exact convert_fix P _ _ (doText_str P _ false)
    · unfold altOf; split <;> exact convert_fix P _ _ (doText_str P _ false)
    · simp [doConvert] at h; split at h <;> simp at h
    · simp [doConvert] at h

/-- **Every type is idempotent on strings** (also instances of str subclasses), except ChoiceList
    on the empty JSON list: hypothesis (a) is vacuous for strings. -/
theorem convert_idem_str (P : Prim) (τ : ColType) (s : Str) (b : Bool)
    (hne : τ = .choiceList → ¬ EmptyJson P (.str s b)) :
    convert P τ (convert P τ (.str s b)) = convert P τ (.str s b) := by
  apply convert_idem_partial
  · cases τ <;> simp [Degenerate, RefDegenerate]
    exact hne rfl
  · intro m xs tid ids hv; cases hv
  · intro hstr; cases hstr

example (P : Prim) : convert P (.refList ['T']) (convert P (.refList ['T']) (.str ['[', '1', ']'] true)) =
    convert P (.refList ['T']) (.str ['[', '1', ']'] true) := by
  apply convert_idem_str; intro h; cases h

/-- **Id and Ref are idempotent whenever the fallback text is not the empty string.** -/
theorem convert_idem_id (P : Prim) (τ : ColType) (v : PyVal) (hτ : τ = .id ∨ τ = .ref)
    (hne : altOf P v ≠ .str [] false) :
    convert P τ (convert P τ v) = convert P τ v := by
  have hdo : ∀ x, doConvert P τ x = doId x := by
    intro x; rcases hτ with h | h <;> subst h <;> rfl
  rcases convert_total P τ v with ⟨_, hc⟩ | ⟨_, r, h, hc⟩ | ⟨hr, e, h, hc, _⟩
  · rw [hc, hc]
  · rw [hc]; rw [hdo] at h
    exact convert_fix P τ r (by rw [hdo]; exact doId_fix v r h)
  · rw [hc]
    -- the alt-text is a non-empty string: Id.do_convert raises TypeError on it
    unfold altOf at hne ⊢
    split
    · rename_i s hs
      rw [hs] at hne
      have hs' : s ≠ [] := fun h0 => hne (by rw [h0])
      have : doConvert P τ (.str s false) = .error "TypeError".toList := by
        rw [hdo]
        cases s with
        | nil => exact absurd rfl hs'
        | cons c cs => simp [doId, truthy, idInt, exc]
      rw [convert_error P τ _ _ rfl this, altOf_str]
    · rename_i hs
      rw [hs] at hne
      have hs' : pySafeRepr P v ≠ [] := fun h0 => hne (by rw [h0])
      have : doConvert P τ (.str (pySafeRepr P v) false) = .error "TypeError".toList := by
        rw [hdo]
        cases hx : pySafeRepr P v with
        | nil => exact absurd hx hs'
        | cons c cs => simp [doId, truthy, idInt, exc]
      rw [convert_error P τ _ _ rfl this, altOf_str]

/-- e.g. a float in a Ref column: `Reference('T').convert(1.5)` is `'1.5'` and stays `'1.5'` -/
example (P : Prim) (h : P.reprF (.frac 0x3FF8000000000000 1) = ['1', '.', '5']) :
    convert P .ref (convert P .ref (.float (.frac 0x3FF8000000000000 1) false)) =
    convert P .ref (.float (.frac 0x3FF8000000000000 1) false) := by
  apply convert_idem_id P .ref _ (Or.inr rfl)
  simp [altOf, pyStr, h]

/-- Laws of CPython's `float()` / `repr()` used for numbers (validated by the harness on every
    float and int it sees): repr round-trips, decimal digits of an int parse to `float(int)`. -/
structure FloatLaws (P : Prim) : Prop where
  repr_ne : ∀ f, P.reprF f ≠ []
  repr_finite : ∀ f, f.isFinite = true → P.floatOfStr (P.reprF f) = some f
  repr_nan : ∀ b, ∃ b', P.floatOfStr (P.reprF (.nan b)) = some (.nan b')
  repr_inf : ∀ s, P.floatOfStr (P.reprF (.inf s)) = some (.inf s)
  dec_small : ∀ n, (decide (-two53 ≤ n) && decide (n ≤ two53)) = true →
    P.floatOfStr (decInt n) = some (.int n)
  dec_big : ∀ n f, (decide (-two53 ≤ n) && decide (n ≤ two53)) = false →
    P.floatOfBig n = some f → P.floatOfStr (decInt n) = some f
  big_not_short : ∀ n f m, (decide (-two53 ≤ n) && decide (n ≤ two53)) = false →
    P.floatOfBig n = some f → f.toInt = .ok m → isShort m = false
  dec_huge : ∀ n, (decide (-two53 ≤ n) && decide (n ≤ two53)) = false →
    P.floatOfBig n = none → ∃ s, P.floatOfStr (decInt n) = some (.inf s)

theorem decInt_ne (n : Int) : decInt n ≠ [] := by
  cases n <;> simp [decInt, decNat, Nat.toDigits_ne_nil]

/-- if Int.do_convert raises on a text, that text is a fixpoint of Int's convert -/
theorem int_str_fixed (P : Prim) (s : Str) (e : Str) (h : doInt P (.str s false) = .error e) :
    convert P .int (.str s false) = .str s false := by
  rw [convert_error P .int _ e rfl h, altOf_str]

/-- `int(float(s))` out of range, for a non-empty `s` that `float()` parses to `f` -/
theorem doInt_str_of_float (P : Prim) (s : Str) (f : F) (hs : s ≠ []) (hf : P.floatOfStr s = some f)
    (hbad : ∀ m, f.toInt = .ok m → isShort m = false) : ∃ e, doInt P (.str s false) = .error e := by
  have hemp : s.isEmpty = false := by cases s <;> simp_all
  unfold doInt
  simp only [isEmptyOrNone, hemp, pyFloat, hf]
  cases ht : f.toInt with
  | error e => exact ⟨e, by simp⟩
  | ok m => simp [hbad m ht, exc]

/-- **Int is idempotent on every number** (None, bools, ints of any size, floats incl. NaN, ±inf),
    given the float()/repr() laws; **Bool is idempotent on every number** unconditionally. -/
theorem convert_idem_int_of_number (P : Prim) (hL : FloatLaws P) (v : PyVal)
    (hv : v = .none ∨ isNumeric v = true) :
    convert P .int (convert P .int v) = convert P .int v := by
  apply convert_idem_partial
  · simp [Degenerate]
  · intro m xs tid ids hv'; rcases hv with h | h <;> subst_vars <;> simp [isNumeric] at h
  · intro hstr e he
    simp only [doConvert] at he
    have key : ∀ s f, altOf P v = .str s false → s ≠ [] → P.floatOfStr s = some f →
        (∀ m, f.toInt = .ok m → isShort m = false) → convert P .int (altOf P v) = altOf P v := by
      intro s f ha hs hf hbad
      obtain ⟨e', he'⟩ := doInt_str_of_float P s f hs hf hbad
      rw [ha]; exact int_str_fixed P s e' he'
    rcases hv with h | h
    · subst h; simp [doInt, isEmptyOrNone] at he
    · cases v with
      | bool b => cases b <;> simp [doInt, isEmptyOrNone, pyFloat, floatOfInt, F.toInt, isShort, two31, two53] at he
      | int n sub =>
        simp only [doInt, isEmptyOrNone, pyFloat, floatOfInt] at he
        by_cases hsm : (decide (-two53 ≤ n) && decide (n ≤ two53)) = true
        · simp only [hsm, if_true, F.toInt] at he
          apply key (decInt n) (.int n) (by simp [altOf, pyStr]) (decInt_ne n) (hL.dec_small n hsm)
          intro m hm
          simp [F.toInt] at hm; subst hm
          cases hsh : isShort n
          · rfl
          · simp [hsh] at he
        · have hsm' : (decide (-two53 ≤ n) && decide (n ≤ two53)) = false := by simpa using hsm
          cases hb : P.floatOfBig n with
          | some f =>
            apply key (decInt n) f (by simp [altOf, pyStr]) (decInt_ne n) (hL.dec_big n f hsm' hb)
            intro m hm
            exact hL.big_not_short n f m hsm' hb hm
          | none =>
            obtain ⟨sg, hsg⟩ := hL.dec_huge n hsm' hb
            apply key (decInt n) (.inf sg) (by simp [altOf, pyStr]) (decInt_ne n) hsg
            intro m hm; simp [F.toInt] at hm
      | float f sub =>
        simp only [doInt, isEmptyOrNone, pyFloat] at he
        cases f with
        | nan bts =>
          obtain ⟨b', hb'⟩ := hL.repr_nan bts
          apply key (P.reprF (.nan bts)) (.nan b') (by simp [altOf, pyStr]) (hL.repr_ne _) hb'
          intro m hm; simp [F.toInt] at hm
        | inf sg =>
          apply key (P.reprF (.inf sg)) (.inf sg) (by simp [altOf, pyStr]) (hL.repr_ne _) (hL.repr_inf sg)
          intro m hm; simp [F.toInt] at hm
        | negZero => simp [F.toInt, isShort, two31] at he
        | int n =>
          apply key (P.reprF (.int n)) (.int n) (by simp [altOf, pyStr]) (hL.repr_ne _)
            (hL.repr_finite _ rfl)
          intro m hm
          simp [F.toInt] at hm; subst hm
          cases hsh : isShort n
          · rfl
          · simp [F.toInt, hsh] at he
        | frac bts t =>
          apply key (P.reprF (.frac bts t)) (.frac bts t) (by simp [altOf, pyStr]) (hL.repr_ne _)
            (hL.repr_finite _ rfl)
          intro m hm
          simp [F.toInt] at hm; subst hm
          cases hsh : isShort t
          · rfl
          · simp [F.toInt, hsh] at he
      | _ => simp [isNumeric] at h

theorem convert_idem_bool_of_number (P : Prim) (v : PyVal) (hv : v = .none ∨ isNumeric v = true) :
    convert P .bool (convert P .bool v) = convert P .bool v := by
  apply convert_idem_partial
  · simp [Degenerate]
  · intro m xs tid ids hv'; rcases hv with h | h <;> subst_vars <;> simp [isNumeric] at h
  · intro hstr e he
    simp only [doConvert, doBool] at he
    rcases hv with h | h
    · subst h; simp [truthy] at he
    · cases v with
      | bool b => cases b <;> simp [truthy, isNumeric] at he
      | int n sub => cases hn : (n != 0) <;> simp [truthy, hn, isNumeric] at he
      | float f sub => cases hf : f.truthy <;> simp [truthy, hf, isNumeric] at he
      | _ => simp [isNumeric] at h

/-- e.g. `Int().convert(float('nan'))` is `'nan'` and stays `'nan'`; `Int().convert(2**70)` stays
    its digits; `Int().convert(-0.0)` is `0` -/
example (P : Prim) (hL : FloatLaws P) :
    convert P .int (convert P .int (.float (.nan 0x7FF8000000000000) false)) =
    convert P .int (.float (.nan 0x7FF8000000000000) false) :=
  convert_idem_int_of_number P hL _ (Or.inr rfl)

end Grist.PyVal
