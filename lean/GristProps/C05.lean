/-
C05  Incremental recalculation equals recalculation from scratch.
Model: GristModel/Recalc.lean.  Helper lemmas: GristProofs/Recalc*.lean (see the header of
GristProps/C18.lean for `WFState`, `Good`, `Inv`, `DependsOnSelf`, `Ev.isCalc`).
Second part (L): the bookkeeping BELOW that model -- which referring rows a `_LookupRelation` of
lookup.py hands to `engine.invalidate_records` when keys of a lookup index change, and its
`_invalidated_keys_cache`.  Model: GristModel/LookupRel.lean, helper lemmas: GristProofs/LookupRel.lean.
-/
import GristProofs.RecalcExamples
import GristProofs.LookupRel
namespace Grist.Recalc

/-! ### (U1) the invariant is preserved by every transition -/

/-- `closure` really is closed under readers: it contains the seed, and with a cell every formula
    cell `< n` that may read it (`n` rounds of `readersStep` reach a fixpoint). -/
theorem closure_closed' (p : Prog) (n : Nat) (s : List Nat) :
    (∀ x ∈ s, x < n → x ∈ closure p n s) ∧
    (∀ d ∈ closure p n s, ∀ k, k < n → p.formula k = true → d ∈ p.deps k → k ∈ closure p n s) :=
  ⟨fun _ hx hlt => closure_seed p n s hx hlt,
   fun _ hd _ hk hf hdep => closure_closed p n s hd hk hf hdep⟩

/-- `write`, `eval` and `circ` all preserve `Inv` and `WFState` -/
theorem inv_preserved {p : Prog} (hr : p.Respects) {n : Nat} {st st' : State} {e : Ev}
    (hw : WFState p n st) (hi : Inv p n st) (h : step p n st e = some st') :
    Inv p n st' ∧ WFState p n st' :=
  inv_step hr hw hi h

example : ∃ st', step cycProg 4 cycSt (.write 3 (.num 7)) = some st' ∧
    Inv cycProg 4 st' ∧ WFState cycProg 4 st' :=
  ⟨_, rfl, inv_preserved (e := .write 3 (.num 7)) cycProg_respects cycSt_wf cycSt_inv rfl⟩

/-! ### (U2) quiescent states are consistent -/

/-- after any accepted run from a state with the invariant, a quiescent state has every formula
    cell equal to its formula's value, or `circ` on a dependency cycle -/
theorem quiescent_consistent {p : Prog} (hr : p.Respects) {n : Nat} {st0 st : State}
    {es : List Ev} (hw : WFState p n st0) (hi : Inv p n st0) (h : run p n st0 es = some st)
    (hq : st.dirty = []) :
    ∀ c, c < n → p.formula c = true →
      st.σ c = p.f c st.σ ∨ (st.σ c = V.circ ∧ DependsOnSelf p n c) :=
  inv_quiescent (inv_run hr es hw hi h).1 hq

/-- a write followed by a complete recalculation in the diamond document -/
example : ∃ st, run diaProg 4 diaSt [.eval 1, .eval 2, .eval 3, .write 0 (.num 1),
      .eval 2, .eval 1, .eval 3] = some st ∧ st.dirty = [] ∧ st.σ 3 = V.num 5 :=
  ⟨_, rfl, by decide, by decide⟩

/-! ### (U3) the acyclic case: unique fixpoint, so incremental = from scratch -/

/-- with a rank function, two stores with the same data cells that both satisfy every formula
    agree on all cells `< n` -/
theorem acyclic_unique {p : Prog} (hr : p.Respects) {n : Nat} {rank : Nat → Nat}
    (hdl : ∀ c, c < n → ∀ d ∈ p.deps c, d < n) (hrk : Ranked p n rank) {σ1 σ2 : Nat → V}
    (hdata : ∀ c, c < n → p.formula c = false → σ1 c = σ2 c)
    (h1 : ∀ c, c < n → p.formula c = true → σ1 c = p.f c σ1)
    (h2 : ∀ c, c < n → p.formula c = true → σ2 c = p.f c σ2) :
    ∀ c, c < n → σ1 c = σ2 c :=
  fixpoint_unique hr hdl hrk hdata h1 h2

/-- with a rank function the cycle branch is never enabled -/
theorem circ_never_enabled_acyclic {p : Prog} (hr : p.Respects) {n : Nat} {rank : Nat → Nat}
    {st : State} (hw : WFState p n st) (hrk : Ranked p n rank) (c : Nat) :
    step p n st (.circ c) = none :=
  circ_disabled_of_ranked hr hw hrk c

/-- Two accepted runs (any events) from two states with the invariant — e.g. an incremental
    history and a from-scratch load with every formula cell dirty — that both end quiescent with the
    same data cells hold the same values in all cells `< n`. -/
theorem fresh_run_agrees {p : Prog} (hr : p.Respects) {n : Nat} {rank : Nat → Nat}
    (hrk : Ranked p n rank) {s1 s2 t1 t2 : State} {es1 es2 : List Ev}
    (hw1 : WFState p n s1) (hi1 : Inv p n s1) (hw2 : WFState p n s2) (hi2 : Inv p n s2)
    (r1 : run p n s1 es1 = some t1) (r2 : run p n s2 es2 = some t2)
    (q1 : t1.dirty = []) (q2 : t2.dirty = [])
    (hdata : ∀ c, c < n → p.formula c = false → t1.σ c = t2.σ c) :
    ∀ c, c < n → t1.σ c = t2.σ c := by
  obtain ⟨i1, w1⟩ := inv_run hr es1 hw1 hi1 r1
  obtain ⟨i2, w2⟩ := inv_run hr es2 hw2 hi2 r2
  exact fixpoint_unique hr hw1.deps_lt hrk hdata
    (quiescent_fixpoint_ranked w1 i1 hrk q1) (quiescent_fixpoint_ranked w2 i2 hrk q2)

/-- the same when the runs are recalculations only (eval/circ events): it is enough that the data
    cells agree at the start -/
theorem fresh_recalc_agrees {p : Prog} (hr : p.Respects) {n : Nat} {rank : Nat → Nat}
    (hrk : Ranked p n rank) {s1 s2 t1 t2 : State} {es1 es2 : List Ev}
    (hw1 : WFState p n s1) (hi1 : Inv p n s1) (hw2 : WFState p n s2) (hi2 : Inv p n s2)
    (c1 : ∀ e ∈ es1, e.isCalc = true) (c2 : ∀ e ∈ es2, e.isCalc = true)
    (r1 : run p n s1 es1 = some t1) (r2 : run p n s2 es2 = some t2)
    (q1 : t1.dirty = []) (q2 : t2.dirty = [])
    (hdata : ∀ c, c < n → p.formula c = false → s1.σ c = s2.σ c) :
    ∀ c, c < n → t1.σ c = t2.σ c :=
  fresh_run_agrees hr hrk hw1 hi1 hw2 hi2 r1 r2 q1 q2 (fun c hc hf => by
    rw [calc_run_untouched es1 c1 r1 c (.inl hf), calc_run_untouched es2 c2 r2 c (.inl hf)]
    exact hdata c hc hf)

/-- incremental (load, recalc, write, recalc of the two readers … ) vs from scratch with the new
    datum: the hypotheses are satisfiable and the results agree -/
def diaSt' : State := { σ := fun c => if c = 0 then .num 1 else .num 0, dirty := [3, 2, 1] }

example : ∃ t1 t2,
    run diaProg 4 diaSt [.eval 1, .eval 2, .eval 3, .write 0 (.num 1), .eval 2, .eval 1, .eval 3]
      = some t1 ∧
    run diaProg 4 diaSt' [.eval 1, .eval 2, .eval 3] = some t2 ∧
    ∀ c, c < 4 → t1.σ c = t2.σ c := by
  refine ⟨_, _, rfl, rfl, ?_⟩
  refine fresh_run_agrees diaProg_respects diaProg_ranked diaSt_wf diaSt_inv
    (es1 := [.eval 1, .eval 2, .eval 3, .write 0 (.num 1), .eval 2, .eval 1, .eval 3])
    (es2 := [.eval 1, .eval 2, .eval 3]) (s2 := diaSt') ⟨by decide, by decide, by decide⟩ (Inv.of_all_dirty (by decide)) rfl rfl
    (by decide) (by decide) (by decide)

end Grist.Recalc

/-! ## (L) lookup.py `_LookupRelation`: which referring rows are invalidated

Everything below is about arbitrary operation sequences on one relation, starting from the empty
relation `{}` (a relation is created empty by `_RelationTracker._get_relation`).  `run true` is the
code; `run false` is the variant whose `_add_lookup` does not clear `_invalidated_keys_cache` (the
seeded change seeded/C05-c05).  `handedBy s ks` = the rows `invalidate_affected_keys(ks)` passes to
`engine.invalidate_records` in relation state `s` (`[]` if it does not call the engine). -/
namespace Grist.LookupRel

/-- what the driver prints for an `invalidate` operation is `handedBy` -/
theorem output_invalidate (clear : Bool) (st : St) (ks : List Key) :
    ((step clear st (.invalidate ks)).2).getD [] = handedBy st.rel ks := by
  simp only [step, handedBy]
  split <;> next heq => simp [heq]

/-! ### (L1) frame / exactness: the map is exactly the lookups recorded since each row's last reset -/

/-- `(r, k)` is in `_row_key_map` iff some `_add_lookup(r, k)` was followed by no `reset_rows`
    containing `r`, no `reset_rows(ALL_ROWS)` and no `reset_all` (code and variant alike) -/
theorem lookuprel_map_exact (clear : Bool) (ops : List Op) (r : Row) (k : Key) :
    (r, k) ∈ (run clear {} ops).rel.map ↔
      ∃ pre post, ops = pre ++ Op.add r k :: post ∧ ∀ o ∈ post, o.resets r = false := by
  rw [map_lastWriter]
  constructor
  · rintro (⟨h, _⟩ | h)
    · simp at h
    · exact h
  · exact Or.inr

/-- ... and it holds each pair once -/
theorem lookuprel_map_nodup (clear : Bool) (ops : List Op) : (run clear {} ops).rel.map.Nodup :=
  map_nodup clear {} (by simp) ops

example : (run true {} [.add 1 5, .add 2 5, .add 1 6, .resetRows [1], .add 1 7]).rel.map
    = [(2, 5), (1, 7)] := by decide

example : ∃ pre post, [Op.add 1 5, .add 2 5, .add 1 6, .resetRows [1], .add 1 7]
    = pre ++ Op.add 2 5 :: post ∧ ∀ o ∈ post, o.resets 2 = false :=
  ⟨[.add 1 5], [.add 1 6, .resetRows [1], .add 1 7], rfl, by decide⟩

/-- `get_affected_rows_by_keys` (used by `get_affected_rows` and by `invalidate_affected_keys`):
    exactly the rows mapped to one of the keys; `None` maps to nothing -/
theorem lookuprel_affected_rows (m : List (Row × Key)) (keys : List Key) (r : Row) :
    r ∈ affectedRowsByKeys m keys ↔ ∃ k ∈ keys, k ≠ noneKey ∧ (r, k) ∈ m :=
  mem_affectedRowsByKeys

example : affectedRowsByKeys [(1, 5), (2, 5), (3, 6), (4, 0)] [0, 5] = [1, 2] := by decide

/-! ### (L2) the central safety statement: the cache never suppresses a row that was not already
handed over for that key since the cache was last cleared -/

/-- what `invalidate_affected_keys(ks)` hands over: the rows mapped to a key of `ks` that is neither
    `None` nor in the cache -/
theorem lookuprel_handedBy (s : Rel) (ks : List Key) (r : Row) :
    r ∈ handedBy s ks ↔ ∃ k ∈ ks, k ∉ s.cache ∧ k ≠ noneKey ∧ (r, k) ∈ s.map :=
  mem_handedBy

/-- a key is in the cache iff an `invalidate_affected_keys(ks)` with that key handed rows over and
    no `_add_lookup` / `reset_rows` / `reset_all` came after it -/
theorem lookuprel_cache_exact (ops : List Op) (k : Key) :
    k ∈ (run true {} ops).rel.cache ↔
      ∃ pre ks post, ops = pre ++ Op.invalidate ks :: post ∧ k ∈ ks ∧
        handedBy (run true {} pre).rel ks ≠ [] ∧ ∀ o ∈ post, o.clearsCache = false := by
  rw [cache_lastWriter]
  constructor
  · rintro (⟨h, _⟩ | h)
    · simp at h
    · exact h
  · exact Or.inr

/-- key 5 is cached by the invalidation that handed row 1 over; key 6 (same call) too; the later
    `_add_lookup` clears both -/
example : (run true {} [.add 1 5, .invalidate [5, 6]]).rel.cache = [5, 6] ∧
    (run true {} [.add 1 5, .invalidate [5, 6], .add 2 6]).rel.cache = [] ∧
    handedBy (run true {} [.add 1 5, .invalidate [5, 6]]).rel [5, 6] = [] ∧
    handedBy (run true {} [.add 1 5, .invalidate [5, 6], .add 2 6]).rel [5, 6] = [1, 2] := by decide

/-- SAFETY.  After ANY operation sequence: a referring row `r` that recorded a lookup of key `k`
    and was not reset since is handed to `invalidate_records` by every
    `invalidate_affected_keys(ks)` with `k ∈ ks` -- unless an earlier `invalidate_affected_keys(ks')`
    with `k ∈ ks'` already handed `r` over and since then no lookup was recorded and nothing was
    reset (no operation cleared the cache).  (`ops` is any prefix of any sequence: the statement
    covers the `invalidate` operation at every position; what the driver prints there is `handedBy`,
    see `output_invalidate`.) -/
theorem lookuprel_handed_or_already_handed (ops : List Op) (r : Row) (k : Key) (hk : k ≠ noneKey)
    (hrec : ∃ pre post, ops = pre ++ Op.add r k :: post ∧ ∀ o ∈ post, o.resets r = false)
    (ks : List Key) (hks : k ∈ ks) :
    r ∈ handedBy (run true {} ops).rel ks ∨
    ∃ pre ks' post, ops = pre ++ Op.invalidate ks' :: post ∧ k ∈ ks' ∧
      r ∈ handedBy (run true {} pre).rel ks' ∧ ∀ o ∈ post, o.clearsCache = false := by
  have hm : (r, k) ∈ (run true {} ops).rel.map := (lookuprel_map_exact true ops r k).2 hrec
  by_cases hc : k ∈ (run true {} ops).rel.cache
  · right
    have hh := invA_run invA_empty ops r k hc hk hm
    rcases (handed_lastWriter r k {} ops).1 hh with ⟨h0, _⟩ | ⟨pre, ks', post, heq, hp, hpost⟩
    · simp at h0
    · have hp' := mem_handedPairs.1 hp
      exact ⟨pre, ks', post, heq, hp'.2.1,
        mem_handedBy.2 ⟨k, hp'.2.1, hp'.2.2.1, hp'.2.2.2, hp'.1⟩, hpost⟩
  · left
    exact mem_handedBy.2 ⟨k, hks, hc, hk, hm⟩

/-- both branches occur: row 2 is handed over by the second invalidation (a lookup was recorded in
    between, the cache was cleared); the third one is suppressed for both rows, which were handed
    over by the second one -/
example : outputs true {} [.add 1 5, .invalidate [5], .add 2 5, .invalidate [5], .invalidate [5, 6]]
    = [none, some [1], none, some [1, 2], none] := by decide

example : ∃ pre post, [Op.add 1 5, .invalidate [5], .add 2 5, .invalidate [5]]
    = pre ++ Op.add 2 5 :: post ∧ ∀ o ∈ post, o.resets 2 = false :=
  ⟨[.add 1 5, .invalidate [5]], [.invalidate [5]], rfl, by decide⟩

/-! ### (L3) the same one level up: rows the engine treats as up to date

Ghost fields (GristModel/LookupRel.lean `Ghost`), each characterised below by the operation
sequence alone: `live` = lookups recorded by the latest evaluation the engine began for that row,
`clean` = rows whose latest evaluation began after they were last handed over / reset. -/

/-- `live`: recorded by an `_add_lookup(r, k)` after which no evaluation of `r` began (and the
    relation was not dropped by `reset_all`) -/
theorem lookuprel_live_exact (clear : Bool) (ops : List Op) (r : Row) (k : Key) :
    (r, k) ∈ (run clear {} ops).g.live ↔
      ∃ pre post, ops = pre ++ Op.add r k :: post ∧
        ∀ o ∈ post, o ≠ Op.beginEval r ∧ o ≠ Op.resetAll := by
  rw [live_lastWriter]
  constructor
  · rintro (⟨h, _⟩ | h)
    · simp at h
    · exact h
  · exact Or.inr

/-- `clean`: an evaluation of `r` began, and along the rest of the run `r` was neither reset nor
    handed to `invalidate_records` (`Unclean`) -/
theorem lookuprel_clean_exact (clear : Bool) (ops : List Op) (r : Row) :
    r ∈ (run clear {} ops).g.clean ↔
      ∃ pre post, ops = pre ++ Op.beginEval r :: post ∧
        NoUnset clear (Unclean r) (next clear (run clear {} pre) (Op.beginEval r)) post := by
  rw [clean_lastWriter]
  constructor
  · rintro (⟨h, _⟩ | h)
    · simp at h
    · exact h
  · exact Or.inr

/-- After ANY operation sequence: if the evaluation of `r` that the engine began last looked up
    `k`, and `r` was neither handed over nor reset since that evaluation began, then EVERY
    `invalidate_affected_keys(ks)` with `k ∈ ks` hands `r` over -- the cache never stands in the way. -/
theorem lookuprel_clean_live_handed (ops : List Op) (r : Row) (k : Key) (hk : k ≠ noneKey)
    (hl : (r, k) ∈ (run true {} ops).g.live) (hc : r ∈ (run true {} ops).g.clean)
    (ks : List Key) (hks : k ∈ ks) :
    r ∈ handedBy (run true {} ops).rel ks := by
  have := invB_run invB_empty ops r k hl hc hk
  exact mem_handedBy.2 ⟨k, hks, this.2, hk, this.1⟩

/-- THE EXPLICIT HYPOTHESIS about the engine: `engineSettled` -- at every `settled rows`
    observation of the sequence (the harness makes one at the end of every bundle: the referring
    rows that exist and are not in `recompute_map`), every such row whose latest evaluation recorded
    lookups began that evaluation after it was last handed to `invalidate_records` / passed to
    `reset_rows`.  (`Engine._recompute_step` removes a dirty row from `recompute_map` after
    `_recompute_one_cell`, when the row is absent from the table, or -- the case in which the
    hypothesis fails -- unevaluated when it was already evaluated in the same update.)  Under it: at every such
    observation, every lookup of a settled row's latest evaluation is honoured by every later
    invalidation of that key. -/
theorem lookuprel_settled_rows_handed (ops : List Op) (hyp : engineSettled true {} ops = true)
    (pre post : List Op) (rows : List Row) (heq : ops = pre ++ Op.settled rows :: post)
    (r : Row) (hr : r ∈ rows) (k : Key) (hk : k ≠ noneKey)
    (hl : (r, k) ∈ (run true {} pre).g.live) (ks : List Key) (hks : k ∈ ks) :
    r ∈ handedBy (run true {} pre).rel ks := by
  subst heq
  have hs := settledOk_iff.1 (engineSettled_at hyp) r hr ⟨k, hl⟩
  exact lookuprel_clean_live_handed pre r k hk hl hs ks hks

/-- a sequence of the shape the engine produces (evaluate rows 1 and 2, the index changes key 5,
    both are handed over, re-evaluated, row 2 now looks up key 6; end of bundle): the hypothesis
    holds, and a change of key 6 hands over row 2, a change of key 5 row 1 -/
def okOps : List Op :=
  [.beginEval 1, .add 1 5, .beginEval 2, .add 2 5, .invalidate [5], .resetRows [1, 2],
   .beginEval 1, .add 1 5, .beginEval 2, .add 2 6, .settled [1, 2]]

example : engineSettled true {} okOps = true ∧
    (2, 6) ∈ (run true {} okOps).g.live ∧ 2 ∈ (run true {} okOps).g.clean ∧
    handedBy (run true {} okOps).rel [6] = [2] ∧ handedBy (run true {} okOps).rel [5, 9] = [1] := by
  decide

/-- the theorem applied to that sequence: all its hypotheses hold together -/
example : 2 ∈ handedBy (run true {} (okOps.take 10)).rel [6] :=
  lookuprel_settled_rows_handed okOps (by decide) (okOps.take 10) [] [1, 2] (by decide) 2 (by decide)
    6 (by decide) (by decide) [6] (by decide)

/-- the hypothesis is not vacuous either way: it fails for a sequence in which a handed-over row is
    never evaluated again -/
example : engineSettled true {} [.beginEval 1, .add 1 5, .invalidate [5], .settled [1]] = false := by
  decide

/-! ### (L4) negation witness: without the cache clear in `_add_lookup` all of this fails -/

/-- row 1 looks up key 7 and is handed over (key 7 is cached); then row 2 looks up key 7 -/
def mutOps : List Op := [.beginEval 1, .add 1 7, .invalidate [7], .beginEval 2, .add 2 7]

/-- in the VARIANT (`run false`) row 2's lookup of key 7 is recorded, live, row 2 is clean and was
    never handed over -- yet `invalidate_affected_keys([7])` hands over nothing: the stale cache
    entry suppresses it.  The code (`run true`) hands over rows 1 and 2. -/
theorem lookuprel_variant_suppresses_needed_row :
    (2, 7) ∈ (run false {} mutOps).rel.map ∧ (2, 7) ∈ (run false {} mutOps).g.live ∧
    2 ∈ (run false {} mutOps).g.clean ∧ (2, 7) ∉ (run false {} mutOps).g.handed ∧
    handedBy (run false {} mutOps).rel [7] = [] ∧
    outputs false {} (mutOps ++ [.invalidate [7]]) = [none, none, some [1], none, none, none] ∧
    outputs true {} (mutOps ++ [.invalidate [7]]) = [none, none, some [1], none, none, some [1, 2]] := by
  decide

/-- hence the two invariants behind (L2) and (L3) are false of the variant ... -/
theorem lookuprel_variant_breaks_invariants :
    ¬ (∀ ops, InvA (run false {} ops)) ∧ ¬ (∀ ops, InvB (run false {} ops)) := by
  constructor
  · intro h
    exact absurd (h mutOps 2 7 (by decide) (by decide) (by decide)) (by decide)
  · intro h
    exact absurd (h mutOps 2 7 (by decide) (by decide) (by decide)).2 (by decide)

/-- ... and so is the statement of (L3) itself -/
theorem lookuprel_variant_fails_L3 :
    ¬ (∀ (ops : List Op) (r : Row) (k : Key), k ≠ noneKey → (r, k) ∈ (run false {} ops).g.live →
        r ∈ (run false {} ops).g.clean → ∀ ks, k ∈ ks → r ∈ handedBy (run false {} ops).rel ks) := by
  intro h
  exact absurd (h mutOps 2 7 (by decide) (by decide) (by decide) [7] (by decide)) (by decide)

/-- The variant behaves like the code exactly as long as no lookup is recorded while the cache is
    non-empty (`addsOnEmptyCache`: a `reset_rows` between every invalidation and the next lookup).
    That is what the variant's author assumed of the engine; the engine does not do it (an
    evaluation retried after an OrderError records its lookups again without `reset_rows`; a node
    already started in this update is not reset again) -- the harness counts the recorded traces on
    which `addsOnEmptyCache` fails and those on which the variant would answer differently. -/
theorem lookuprel_variant_agrees_if_adds_on_empty_cache (ops : List Op)
    (h : addsOnEmptyCache false {} ops = true) :
    (run false {} ops).rel = (run true {} ops).rel ∧ outputs false {} ops = outputs true {} ops :=
  variant_agrees_aux ops {} {} rfl h

example : addsOnEmptyCache false {} okOps = true := by decide
example : addsOnEmptyCache false {} mutOps = false := by decide

end Grist.LookupRel
