import GristModel.Recalc
namespace Grist.Recalc
theorem placeholder_C05 : True := trivial
end Grist.Recalc
