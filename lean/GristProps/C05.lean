/-
C05  Incremental recalculation equals recalculation from scratch.
Model: GristModel/Recalc.lean.  Helper lemmas: GristProofs/Recalc*.lean (see the header of
GristProps/C18.lean for `WFState`, `Good`, `Inv`, `DependsOnSelf`, `Ev.isCalc`).
-/
import GristProofs.RecalcExamples
namespace Grist.Recalc

/-! ### (U1) the invariant is preserved by every transition -/

/-- `closure` really is closed under readers: it contains the seed, and with a cell every formula
    cell `< n` that may read it (`n` rounds of `readersStep` reach a fixpoint). -/
theorem closure_closed' (p : Prog) (n : Nat) (s : List Nat) :
    (∀ x ∈ s, x < n → x ∈ closure p n s) ∧
    (∀ d ∈ closure p n s, ∀ k, k < n → p.formula k = true → d ∈ p.deps k → k ∈ closure p n s) :=
  ⟨fun _ hx hlt => closure_seed p n s hx hlt,
   fun _ hd _ hk hf hdep => closure_closed p n s hd hk hf hdep⟩

/-- `write`, `eval` and `circ` all preserve `Inv` and `WFState` -/
theorem inv_preserved {p : Prog} (hr : p.Respects) {n : Nat} {st st' : State} {e : Ev}
    (hw : WFState p n st) (hi : Inv p n st) (h : step p n st e = some st') :
    Inv p n st' ∧ WFState p n st' :=
  inv_step hr hw hi h

example : ∃ st', step cycProg 4 cycSt (.write 3 (.num 7)) = some st' ∧
    Inv cycProg 4 st' ∧ WFState cycProg 4 st' :=
  ⟨_, rfl, inv_preserved (e := .write 3 (.num 7)) cycProg_respects cycSt_wf cycSt_inv rfl⟩

/-! ### (U2) quiescent states are consistent -/

/-- after any accepted run from a state with the invariant, a quiescent state has every formula
    cell equal to its formula's value, or `circ` on a dependency cycle -/
theorem quiescent_consistent {p : Prog} (hr : p.Respects) {n : Nat} {st0 st : State}
    {es : List Ev} (hw : WFState p n st0) (hi : Inv p n st0) (h : run p n st0 es = some st)
    (hq : st.dirty = []) :
    ∀ c, c < n → p.formula c = true →
      st.σ c = p.f c st.σ ∨ (st.σ c = V.circ ∧ DependsOnSelf p n c) :=
  inv_quiescent (inv_run hr es hw hi h).1 hq

/-- a write followed by a complete recalculation in the diamond document -/
example : ∃ st, run diaProg 4 diaSt [.eval 1, .eval 2, .eval 3, .write 0 (.num 1),
      .eval 2, .eval 1, .eval 3] = some st ∧ st.dirty = [] ∧ st.σ 3 = V.num 5 :=
  ⟨_, rfl, by decide, by decide⟩

/-! ### (U3) the acyclic case: unique fixpoint, so incremental = from scratch -/

/-- with a rank function, two stores with the same data cells that both satisfy every formula
    agree on all cells `< n` -/
theorem acyclic_unique {p : Prog} (hr : p.Respects) {n : Nat} {rank : Nat → Nat}
    (hdl : ∀ c, c < n → ∀ d ∈ p.deps c, d < n) (hrk : Ranked p n rank) {σ1 σ2 : Nat → V}
    (hdata : ∀ c, c < n → p.formula c = false → σ1 c = σ2 c)
    (h1 : ∀ c, c < n → p.formula c = true → σ1 c = p.f c σ1)
    (h2 : ∀ c, c < n → p.formula c = true → σ2 c = p.f c σ2) :
    ∀ c, c < n → σ1 c = σ2 c :=
  fixpoint_unique hr hdl hrk hdata h1 h2

/-- with a rank function the cycle branch is never enabled -/
theorem circ_never_enabled_acyclic {p : Prog} (hr : p.Respects) {n : Nat} {rank : Nat → Nat}
    {st : State} (hw : WFState p n st) (hrk : Ranked p n rank) (c : Nat) :
    step p n st (.circ c) = none :=
  circ_disabled_of_ranked hr hw hrk c

/-- Two accepted runs (any events) from two states with the invariant — e.g. an incremental
    history and a from-scratch load with every formula cell dirty — that both end quiescent with the
    same data cells hold the same values in all cells `< n`. -/
theorem fresh_run_agrees {p : Prog} (hr : p.Respects) {n : Nat} {rank : Nat → Nat}
    (hrk : Ranked p n rank) {s1 s2 t1 t2 : State} {es1 es2 : List Ev}
    (hw1 : WFState p n s1) (hi1 : Inv p n s1) (hw2 : WFState p n s2) (hi2 : Inv p n s2)
    (r1 : run p n s1 es1 = some t1) (r2 : run p n s2 es2 = some t2)
    (q1 : t1.dirty = []) (q2 : t2.dirty = [])
    (hdata : ∀ c, c < n → p.formula c = false → t1.σ c = t2.σ c) :
    ∀ c, c < n → t1.σ c = t2.σ c := by
  obtain ⟨i1, w1⟩ := inv_run hr es1 hw1 hi1 r1
  obtain ⟨i2, w2⟩ := inv_run hr es2 hw2 hi2 r2
  exact fixpoint_unique hr hw1.deps_lt hrk hdata
    (quiescent_fixpoint_ranked w1 i1 hrk q1) (quiescent_fixpoint_ranked w2 i2 hrk q2)

/-- the same when the runs are recalculations only (eval/circ events): it is enough that the data
    cells agree at the start -/
theorem fresh_recalc_agrees {p : Prog} (hr : p.Respects) {n : Nat} {rank : Nat → Nat}
    (hrk : Ranked p n rank) {s1 s2 t1 t2 : State} {es1 es2 : List Ev}
    (hw1 : WFState p n s1) (hi1 : Inv p n s1) (hw2 : WFState p n s2) (hi2 : Inv p n s2)
    (c1 : ∀ e ∈ es1, e.isCalc = true) (c2 : ∀ e ∈ es2, e.isCalc = true)
    (r1 : run p n s1 es1 = some t1) (r2 : run p n s2 es2 = some t2)
    (q1 : t1.dirty = []) (q2 : t2.dirty = [])
    (hdata : ∀ c, c < n → p.formula c = false → s1.σ c = s2.σ c) :
    ∀ c, c < n → t1.σ c = t2.σ c :=
  fresh_run_agrees hr hrk hw1 hi1 hw2 hi2 r1 r2 q1 q2 (fun c hc hf => by
    rw [calc_run_untouched es1 c1 r1 c (.inl hf), calc_run_untouched es2 c2 r2 c (.inl hf)]
    exact hdata c hc hf)

/-- incremental (load, recalc, write, recalc of the two readers … ) vs from scratch with the new
    datum: the hypotheses are satisfiable and the results agree -/
def diaSt' : State := { σ := fun c => if c = 0 then .num 1 else .num 0, dirty := [3, 2, 1] }

example : ∃ t1 t2,
    run diaProg 4 diaSt [.eval 1, .eval 2, .eval 3, .write 0 (.num 1), .eval 2, .eval 1, .eval 3]
      = some t1 ∧
    run diaProg 4 diaSt' [.eval 1, .eval 2, .eval 3] = some t2 ∧
    ∀ c, c < 4 → t1.σ c = t2.σ c := by
  refine ⟨_, _, rfl, rfl, ?_⟩
  refine fresh_run_agrees diaProg_respects diaProg_ranked diaSt_wf diaSt_inv
    (es1 := [.eval 1, .eval 2, .eval 3, .write 0 (.num 1), .eval 2, .eval 1, .eval 3])
    (es2 := [.eval 1, .eval 2, .eval 3]) (s2 := diaSt') ⟨by decide, by decide, by decide⟩ (Inv.of_all_dirty (by decide)) rfl rfl
    (by decide) (by decide) (by decide)

end Grist.Recalc
