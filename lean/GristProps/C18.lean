/-
C18  Circular references terminate and are reported on the cycle.
Model: GristModel/Recalc.lean.  Helper lemmas: GristProofs/Recalc*.lean.

Standing notions (GristProofs/RecalcBase.lean):
  `WFState p n st`      dirty cells are formula cells `< n`, listed once; `deps` of cells `< n` are `< n`
  `Good p st c`         no cell read by `c` is dirty ∧ `σ c = f c σ`
  `DependsOnSelf p n c` `onCycle p n (fun _ => true) c = true`  (`c` reaches itself through `deps`)
  `Inv p n st`          every clean formula cell `c < n` is `Good`, or `σ c = circ ∧ DependsOnSelf`
  `Ev.isCalc`           the event is an `eval` or a `circ`
-/
import GristProofs.RecalcExamples
import GristProofs.RecalcCex
import GristProofs.RecalcStrong
namespace Grist.Recalc

/-! ### (T1) termination -/

/-- an `eval` or `circ` step strictly decreases the number of dirty cells -/
theorem step_dirty_decreases {p : Prog} {n : Nat} {st st' : State} {e : Ev}
    (he : e.isCalc = true) (h : step p n st e = some st') :
    st'.dirty.length < st.dirty.length :=
  calc_step_dirty_decreases he h

/-- an accepted run of eval/circ events is no longer than the number of dirty cells it starts with
    (so there is no infinite run) -/
theorem run_length_bound {p : Prog} {n : Nat} {st st' : State} {es : List Ev}
    (hes : ∀ e ∈ es, e.isCalc = true) (h : run p n st es = some st') :
    es.length ≤ st.dirty.length := by
  have := calc_run_length es hes h; omega

example : run cycProg 4 cycSt [.eval 2, .circ 0, .eval 1] ≠ none := by decide

/-! ### (T2) progress: the engine's "not making progress" exceptions are unreachable -/

/-- while cells are dirty, some `eval` or some `circ` event is enabled
    (`Respects` is not needed for this) -/
theorem progress {p : Prog} {n : Nat} {st : State} (hw : WFState p n st) (hne : st.dirty ≠ []) :
    ∃ c, (step p n st (.eval c)).isSome = true ∨ (step p n st (.circ c)).isSome = true :=
  progress_exists hw hne

/-- hence every well-formed state has a complete run: eval/circ events leading to `dirty = []` -/
theorem complete_run {p : Prog} {n : Nat} {st : State} (hw : WFState p n st) :
    ∃ es st', (∀ e ∈ es, e.isCalc = true) ∧ run p n st es = some st' ∧ st'.dirty = [] :=
  complete_run_exists st.dirty.length st (Nat.le_refl _) hw

example : ∃ c, (step cycProg 4 cycSt (.eval c)).isSome = true ∨
    (step cycProg 4 cycSt (.circ c)).isSome = true := progress cycSt_wf (by decide)

/-! ### (T3) the cycle branch fires only on a dependency cycle -/

theorem circ_only_on_cycle {p : Prog} (hr : p.Respects) {n : Nat} {st : State} {c : Nat}
    (h : (step p n st (.circ c)).isSome = true) :
    reaches p (fun _ => true) n c c = true := by
  obtain ⟨st', h'⟩ := Option.isSome_iff_exists.mp h
  obtain ⟨⟨_, hf, _, hb⟩, _⟩ := step_circ_iff.mp h'
  exact reaches_of_blockCycle hr n c hf hb

/-- in the example the 2-cycle cell 0 may take the cycle branch, the acyclic cell 2 may not -/
example : (step cycProg 4 cycSt (.circ 0)).isSome = true ∧
    (step cycProg 4 cycSt (.circ 2)).isSome = false ∧
    reaches cycProg (fun _ => true) 4 0 0 = true := by decide

/-! ### (T4) what a quiescent state looks like -/

/-- An accepted run (any events, also writes) from a well-formed state satisfying the invariant
    that ends with `dirty = []`: every formula cell equals its formula's value in the final store,
    or holds `circ` and lies on a dependency cycle. -/
theorem quiescent_fixpoint {p : Prog} (hr : p.Respects) {n : Nat} {st0 st : State} {es : List Ev}
    (hw : WFState p n st0) (hi : Inv p n st0) (h : run p n st0 es = some st)
    (hq : st.dirty = []) :
    ∀ c, c < n → p.formula c = true →
      st.σ c = p.f c st.σ ∨ (st.σ c = V.circ ∧ reaches p (fun _ => true) n c c = true) :=
  inv_quiescent (inv_run hr es hw hi h).1 hq

example : ∃ st, run cycProg 4 cycSt [.eval 2, .circ 0, .eval 1] = some st ∧ st.dirty = [] ∧
    st.σ 0 = V.circ ∧ st.σ 1 = V.circ ∧ st.σ 2 = V.num 6 :=
  ⟨_, rfl, by decide, by decide, by decide, by decide⟩

/-! ### (T4, strong form) `σ c = f c σ` for ALL formula cells

False for the model as written: `Respects` does not say in which order cells are read, so the first
dirty read (which drives the cycle detection) need not be the read that decides what else is read. -/

/-- counterexample: `cexProg` satisfies `Respects` and `Strict`, the run is accepted from the
    all-dirty state and ends quiescent, yet cell 0 holds `circ` while its formula evaluates to 7 -/
example : cexProg.Respects ∧ cexProg.Strict ∧ WFState cexProg 4 cexSt ∧ Inv cexProg 4 cexSt ∧
    ∃ st, run cexProg 4 cexSt [.circ 0, .eval 2, .eval 1] = some st ∧ st.dirty = [] ∧
      st.σ 0 = V.circ ∧ cexProg.f 0 st.σ = V.num 7 :=
  ⟨cexProg_respects, cexProg_strict, ⟨by decide, by decide, by decide⟩,
   Inv.of_all_dirty (by decide), _, rfl, by decide, by decide, by decide⟩

/-- The strong form holds for recalculation runs (eval/circ events) of programs that moreover read
    cell after cell (`PrefixDet`: having read the same values so far, the same cell is read next),
    from a state with the strengthened invariant `Inv2` (clean cells are good, or hold `circ` and
    are *doomed*: through clean read-prefixes they reach a clean `circ` cell or a dirty doomed
    cell); `Inv2` holds e.g. when every formula cell is dirty (document load). -/
theorem quiescent_fixpoint_strong_partial {p : Prog} (hr : p.Respects) (hs : p.Strict)
    (hp : p.PrefixDet) {n : Nat} {st0 st : State} {es : List Ev} (hi : Inv2 p n st0)
    (hes : ∀ e ∈ es, e.isCalc = true) (h : run p n st0 es = some st) (hq : st.dirty = []) :
    ∀ c, c < n → p.formula c = true → st.σ c = p.f c st.σ :=
  inv2_quiescent hs (inv2_calc_run hr hs hp es hes hi h) hq

/-- the same for arbitrary accepted runs (writes included) from a well-formed state with both
    invariants (e.g. the all-dirty state of a document load, followed by any history) -/
theorem quiescent_fixpoint_strong_partial_runs {p : Prog} (hr : p.Respects) (hs : p.Strict)
    (hp : p.PrefixDet) {n : Nat} {st0 st : State} {es : List Ev} (hw : WFState p n st0)
    (hi : Inv p n st0) (hi2 : Inv2 p n st0) (h : run p n st0 es = some st) (hq : st.dirty = []) :
    ∀ c, c < n → p.formula c = true → st.σ c = p.f c st.σ :=
  inv2_quiescent hs (inv2_run hr hs hp es hw hi hi2 h) hq

/-- load, recalc (cycle reported), then a data write and another recalc -/
example : ∃ st, run cycProg 4 cycSt [.eval 2, .circ 0, .eval 1, .write 3 (.num 8), .eval 2]
      = some st ∧ st.dirty = [] ∧ st.σ 2 = V.num 9 ∧
    ∀ c, c < 4 → cycProg.formula c = true → st.σ c = cycProg.f c st.σ :=
  ⟨_, rfl, by decide, by decide, quiescent_fixpoint_strong_partial_runs (st0 := cycSt)
    (es := [.eval 2, .circ 0, .eval 1, .write 3 (.num 8), .eval 2]) cycProg_respects
    cycProg_strict (sumProg_prefixDet _ _ _) cycSt_wf cycSt_inv (Inv2.of_all_dirty (by decide))
    rfl (by decide)⟩

theorem sumProg_prefixDet' (formula : Nat → Bool) (deps : Nat → List Nat) (konst : Nat → Int) :
    (sumProg formula deps konst).PrefixDet := sumProg_prefixDet formula deps konst

example : ∃ st, run cycProg 4 cycSt [.eval 2, .circ 0, .eval 1] = some st ∧
    ∀ c, c < 4 → cycProg.formula c = true → st.σ c = cycProg.f c st.σ :=
  ⟨_, rfl, quiescent_fixpoint_strong_partial (st0 := cycSt) (es := [.eval 2, .circ 0, .eval 1]) cycProg_respects
    cycProg_strict (sumProg_prefixDet _ _ _) (Inv2.of_all_dirty (by decide)) (by decide) rfl
    (by decide)⟩

/-! ### (T5) the instance the harness uses -/

theorem sumProg_respects' (formula : Nat → Bool) (deps : Nat → List Nat) (konst : Nat → Int) :
    (sumProg formula deps konst).Respects := sumProg_respects formula deps konst

theorem sumProg_strict' (formula : Nat → Bool) (deps : Nat → List Nat) (konst : Nat → Int) :
    (sumProg formula deps konst).Strict := sumProg_strict formula deps konst

/-- the deterministic scheduler on the 4-cell document with a 2-cycle -/
example : (schedule cycProg 4 [0, 1, 2, 3] 4 cycSt).1 = [.eval 2, .circ 0, .eval 1] ∧
    (schedule cycProg 4 [0, 1, 2, 3] 4 cycSt).2.dirty = [] ∧
    (schedule cycProg 4 [0, 1, 2, 3] 4 cycSt).2.σ 0 = V.circ ∧
    (schedule cycProg 4 [0, 1, 2, 3] 4 cycSt).2.σ 1 = V.circ ∧
    (schedule cycProg 4 [0, 1, 2, 3] 4 cycSt).2.σ 2 = V.num 6 := by decide

end Grist.Recalc
