import GristModel.Recalc
namespace Grist.Recalc
theorem placeholder_C18 : True := trivial
end Grist.Recalc
