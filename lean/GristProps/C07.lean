/-
C07  Reopening a saved document changes nothing  -- value level.
Property theorems about GristModel/PyVal.lean: a formula result `v` in a column of type `τ` is kept
as `c = column.convert(v)`; the cell is saved as `encode c`, marshalled, read back by
`_decode_db_value` and `column.set` (`reloadCell`); `Calculate` on the reloaded engine recomputes
`c` and compares it with the reloaded cell.

Which comparison decides whether Calculate emits an action: `Engine._recompute_step` records a change
when `not strict_equal(new, previous)`, and `ActionSummary._changes_to_actions` drops every recorded
change with `equal_encoding(before, after)`.  An action is emitted iff BOTH say "different"; since
strict_equal implies equal_encoding on reloaded values, the deciding comparison is `equal_encoding`
(`equalEncoding` below), and that is what the theorems are about.

  dbDecode_eq_decode        `_decode_db_value` after marshalling is `decode_object` on every encoding
  colSet_idem               column.set normalisations are idempotent (Bool 0/1, Numeric int->float,
                            ChoiceList list/JSON->tuple, Ref float->int, RefList strings)
  reload_encode             the reloaded cell encodes exactly like the saved one
  reload_value_stable       ... hence equal_encoding(reloaded, recomputed) holds: no action, provided
                            no NaN is nested inside a list/dict and the value is not a text that the
                            column's set() parses again
  reload_value_stable_false_nan / _reparse   both exclusions are necessary
-/
import GristProofs.PyValColumn
import GristProps.C24
set_option linter.unusedSimpArgs false
set_option linter.unusedVariables false
namespace Grist.PyVal

/-! ### `_decode_db_value` -/

/-- scalars are stored as themselves and compound encodings as marshalled blobs; either way the
    value handed to `column.set` is `decode_object` of the encoding -/
theorem dbDecode_eq_decode (P : Prim) (e : Enc) : dbDecode P e = decode P e := by
  cases e <;> simp [dbDecode, decode, ofEnc]

/-! ### `column.set` is idempotent -/

theorem refListPre_idem (P : Prim) (v : PyVal) : refListPre P (refListPre P v) = refListPre P v := by
  rcases refListPre_cases P v with h | ⟨m, xs, h, _⟩ | ⟨rows, h⟩
  · rw [h]; exact h
  · rw [h]; simp [refListPre]
  · rw [h]; simp [refListPre]

/-- **the per-type normalisations of `column.set` are idempotent**: Bool (1/1.0 -> True,
    0/0.0 -> False), Numeric/Date/DateTime/PositionNumber (int -> float), ChoiceList (list or JSON
    text -> tuple), Ref (positive integral float -> int), RefList (JSON / RecordList text -> list) -/
theorem colSet_idem (P : Prim) (τ : ColType) (v x : PyVal) (h : colSet P τ v = .ok x) :
    colSet P τ x = .ok x := by
  cases τ
  case bool =>
    simp only [colSet] at h ⊢
    split at h
    · simp at h; subst h; simp [pyEqInt]
    · split at h
      · simp at h; subst h; simp [pyEqInt]
      · simp at h; subst h; simp_all
  case numeric =>
    simp only [colSet] at h ⊢
    split at h
    · split at h <;> simp at h; subst h; rfl
    · simp at h; subst h; split <;> simp_all
  case date =>
    simp only [colSet] at h ⊢
    split at h
    · split at h <;> simp at h; subst h; rfl
    · simp at h; subst h; split <;> simp_all
  case dateTime =>
    simp only [colSet] at h ⊢
    split at h
    · split at h <;> simp at h; subst h; rfl
    · simp at h; subst h; split <;> simp_all
  case positionNumber =>
    simp only [colSet] at h ⊢
    split at h
    · split at h <;> simp at h; subst h; rfl
    · simp at h; subst h; split <;> simp_all
  case manualSortPos =>
    simp only [colSet] at h ⊢
    split at h
    · split at h <;> simp at h; subst h; rfl
    · simp at h; subst h; split <;> simp_all
  case choiceList =>
    simp only [colSet] at h
    split at h
    · split at h
      · split at h
        · split at h
          · simp at h; subst h; simp [colSet]
          · simp at h; subst h; simp [colSet, *]
        · simp at h; subst h; simp [colSet, *]
      · simp at h; subst h; simp [colSet, *]
    · simp at h; subst h; simp [colSet]
    · simp at h; subst h; simp [colSet]
    · simp at h; subst h
      rename_i h1 h2 h3
      cases v <;> simp_all [colSet]
  case ref =>
    simp only [colSet] at h
    split at h
    · split at h
      · simp at h; subst h; simp [colSet]
      · simp at h; subst h; simp [colSet, *]
    · simp at h; subst h
      rename_i h1
      cases v <;> simp_all [colSet]
  case refList t => simp only [colSet] at h ⊢; simp at h; subst h; simp [refListPre_idem]
  case attachments => simp only [colSet] at h ⊢; simp at h; subst h; simp [refListPre_idem]
  all_goals (simp [colSet])

/-! ### equal_encoding of values with the same encoding -/

mutual
/-- `Comparable e`: no NaN inside `e`, and the keys of every dict inside `e` are distinct (they are,
    in a Python dict).  Python's `==` on such a structure and an equal copy of it is True. -/
def Comparable : Enc → Bool
  | .float (.nan _) => false
  | .list xs => ComparableL xs
  | .tuple xs => ComparableL xs
  | .dict ks vs => decide ((ks.map (·.1)).Nodup) && ComparableL vs
  | _ => true
def ComparableL : List Enc → Bool
  | [] => true
  | x :: xs => Comparable x && ComparableL xs
end

/-- looking up the key of the i-th item of a dict with distinct keys finds that item -/
theorem encEqAt_self : ∀ (ks : List (Str × Bool)) (vs : List Enc) (k : Str × Bool) (v : Enc)
    (pre : List (Str × Bool)) (pv : List Enc),
    pre.length = pv.length → (∀ p ∈ pre, p.1 ≠ k.1) →
    encEqAt k.1 v (pre ++ k :: ks) (pv ++ v :: vs) = encEq v v := by
  intro ks vs k v pre
  induction pre with
  | nil => intro pv hl _; cases pv <;> simp at hl; simp [encEqAt]
  | cons p ps ih =>
    intro pv hl hne
    cases pv with
    | nil => simp at hl
    | cons q qs =>
      have h1 : p.1 ≠ k.1 := hne p (by simp)
      simp only [List.cons_append, encEqAt, h1, if_false]
      exact ih qs (by simpa using hl) (fun x hx => hne x (by simp [hx]))

mutual
theorem encEq_refl : ∀ e : Enc, Comparable e = true → encEq e e = true
  | .none, _ => by simp [encEq]
  | .bool b, _ => by cases b <;> simp [encEq, encNumKey]
  | .int n, _ => by simp [encEq, encNumKey]
  | .float f, h => by cases f <;> simp [Comparable] at h <;> simp [encEq, encNumKey]
  | .str s, _ => by simp [encEq]
  | .list xs, h => by simp only [Comparable] at h; simp [encEq, encEqL_refl xs h]
  | .tuple xs, h => by simp only [Comparable] at h; simp [encEq, encEqL_refl xs h]
  | .dict ks vs, h => by
    simp only [Comparable, Bool.and_eq_true, decide_eq_true_eq] at h
    simp only [encEq, decide_true, Bool.true_and]
    exact encEqD_refl [] [] ks vs rfl h.1 h.2
theorem encEqL_refl : ∀ xs : List Enc, ComparableL xs = true → encEqL xs xs = true
  | [], _ => by simp [encEqL]
  | x :: xs, h => by
    simp only [ComparableL, Bool.and_eq_true] at h
    simp [encEqL, encEq_refl x h.1, encEqL_refl xs h.2]
/-- the items after a prefix `pre`/`pv` of a dict all find themselves in the whole dict -/
theorem encEqD_refl : ∀ (pre : List (Str × Bool)) (pv : List Enc) (ks : List (Str × Bool)) (vs : List Enc),
    pre.length = pv.length → ((pre ++ ks).map (·.1)).Nodup → ComparableL vs = true →
    encEqD ks vs (pre ++ ks) (pv ++ vs) = true
  | pre, pv, [], vs, _, _, _ => by cases vs <;> simp [encEqD]
  | pre, pv, k :: ks, [], _, _, _ => by simp [encEqD]
  | pre, pv, k :: ks, v :: vs, hl, hnd, hc => by
    simp only [ComparableL, Bool.and_eq_true] at hc
    simp only [encEqD, Bool.and_eq_true]
    constructor
    · rw [encEqAt_self ks vs k v pre pv hl]
      · exact encEq_refl v hc.1
      · intro p hp heq
        simp only [List.map_append, List.map_cons] at hnd
        have := List.nodup_append.mp hnd
        exact this.2.2 p.1 (List.mem_map.mpr ⟨p, hp, rfl⟩) k.1 (by simp) heq
    · have := encEqD_refl (pre ++ [k]) (pv ++ [v]) ks vs (by simp [hl]) (by simpa using hnd) hc.2
      simpa using this
end

theorem encode_eq_float (P : Prim) (b : PyVal) (f : F) (h : encode P b = .float f) :
    ∃ s, b = .float f s := by
  cases b
  case float g s => simp [encode] at h; subst h; exact ⟨s, rfl⟩
  all_goals (simp only [encode] at h)
  all_goals (repeat' split at h)
  all_goals (first | cases h | simp at h)

theorem encode_eq_bool (P : Prim) (b : PyVal) (x : Bool) (h : encode P b = .bool x) : b = .bool x := by
  cases b
  case bool y => simp [encode] at h; subst h; rfl
  all_goals (simp only [encode] at h)
  all_goals (repeat' split at h)
  all_goals (first | cases h | simp at h)

/-- values with the same encoding are equal for `equal_encoding`, unless a NaN is nested inside a
    list / dict (a top-level NaN is fine: equal_encoding treats two NaNs as equal) -/
theorem equalEncoding_of_encode_eq (P : Prim) (a b : PyVal) (h : encode P a = encode P b)
    (hc : a.isFloat = true ∨ Comparable (encode P a) = true) : equalEncoding P a b = true := by
  cases ha : a.isFloat
  · -- a is not a float; then neither is b
    have hcmp : Comparable (encode P a) = true := by
      rcases hc with h1 | h1
      · rw [ha] at h1; cases h1
      · exact h1
    have hb : b.isFloat = false := by
      cases hb : b.isFloat
      · rfl
      · cases b <;> simp [PyVal.isFloat] at hb
        rename_i g s
        simp only [encode] at h
        obtain ⟨s', hs'⟩ := encode_eq_float P a g h
        subst hs'; simp [PyVal.isFloat] at ha
    by_cases hbool : (a.isBool || b.isBool) = true
    · -- one is a bool: then both are the same bool
      have : ∃ x, a = .bool x ∧ b = .bool x := by
        simp only [Bool.or_eq_true] at hbool
        rcases hbool with h1 | h1
        · cases a <;> simp [PyVal.isBool] at h1
          rename_i x
          exact ⟨x, rfl, encode_eq_bool P b x (by simpa [encode] using h.symm)⟩
        · cases b <;> simp [PyVal.isBool] at h1
          rename_i x
          exact ⟨x, encode_eq_bool P a x (by simpa [encode] using h), rfl⟩
      obtain ⟨x, h1, h2⟩ := this
      subst h1; subst h2
      simp [equalEncoding, PyVal.isBool]
    · have hbool' : (a.isBool || b.isBool) = false := by simpa using hbool
      unfold equalEncoding
      split
      · simp [PyVal.isFloat] at ha
      · simp only [hbool', Bool.false_eq_true, if_false]
        rw [← h]; exact encEq_refl _ hcmp
  · cases a <;> simp [PyVal.isFloat] at ha
    rename_i f s
    simp only [encode] at h
    obtain ⟨s', hs'⟩ := encode_eq_float P b f h.symm
    subst hs'
    cases f <;> simp [equalEncoding, numKey]

/-! ### the reloaded cell -/

theorem raised_reload_shape (P : Prim) (m : Meta) (n ms d : Enc) (ui : List PyVal) :
    ∃ m' ui', decode P (encode P (.raised m n ms d ui)) = .raised m' n ms d ui' := by
  cases ui with
  | nil =>
    cases d <;> cases ms <;>
      simp [encode, encodeUi, encodeArgs, decode, decodeTagged, decodeArgs]
  | cons x xs =>
    simp [encode, encodeUi, encodeArgs, decode, decodeTagged, decodeArgs, decodeU]

theorem colSet_raised (P : Prim) (τ : ColType) (m : Meta) (n ms d : Enc) (ui : List PyVal) :
    colSet P τ (.raised m n ms d ui) = .ok (.raised m n ms d ui) := by
  cases τ <;> simp [colSet, pyEqInt, refListPre]

/-- **The reloaded cell encodes exactly like the saved one.**  `c` is a cell as `convert` leaves it
    (shape of the column type, or an error object) on which `column.set` is the identity. -/
theorem reload_encode (P : Prim) (hP : DateNodeOK P) (τ : ColType) (c : PyVal)
    (hsh : shapeOK τ c = true ∨ c.isRaised = true) (hfix : colSet P τ c = .ok c)
    (hstr : reparses τ = true → c.isStr = false) (hdec : Decodable P c) :
    ∃ x, reloadCell P τ c = .ok x ∧ encode P x = encode P c := by
  unfold reloadCell
  rw [dbDecode_eq_decode]
  have hrt := encode_decode_encode P hP c hdec
  rcases hsh with hsh | hr
  · cases τ
    -- column classes whose set() stores the value as it is
    case text => exact ⟨_, rfl, hrt⟩
    case choice => exact ⟨_, rfl, hrt⟩
    case int => exact ⟨_, rfl, hrt⟩
    case id => exact ⟨_, rfl, hrt⟩
    case any => exact ⟨_, rfl, hrt⟩
    case blob => exact ⟨_, rfl, hrt⟩
    case bool =>
      cases c <;> simp [shapeOK] at hsh
      · rename_i b; cases b <;> exact ⟨_, by simp [encode, decode, colSet, pyEqInt], rfl⟩
      · rename_i s sb; cases sb <;> simp at hsh; exact ⟨_, by simp [encode, decode, colSet, pyEqInt], rfl⟩
    case numeric =>
      cases c <;> simp [shapeOK] at hsh
      · exact ⟨_, by simp [encode, decode, colSet], rfl⟩
      · rename_i f sb; cases sb <;> simp at hsh; exact ⟨_, by simp [encode, decode, colSet], rfl⟩
      · rename_i s sb; cases sb <;> simp at hsh; exact ⟨_, by simp [encode, decode, colSet], rfl⟩
    case date =>
      cases c <;> simp [shapeOK] at hsh
      · exact ⟨_, by simp [encode, decode, colSet], rfl⟩
      · rename_i f sb; cases sb <;> simp at hsh; exact ⟨_, by simp [encode, decode, colSet], rfl⟩
      · rename_i s sb; cases sb <;> simp at hsh; exact ⟨_, by simp [encode, decode, colSet], rfl⟩
    case dateTime =>
      cases c <;> simp [shapeOK] at hsh
      · exact ⟨_, by simp [encode, decode, colSet], rfl⟩
      · rename_i f sb; cases sb <;> simp at hsh; exact ⟨_, by simp [encode, decode, colSet], rfl⟩
      · rename_i s sb; cases sb <;> simp at hsh; exact ⟨_, by simp [encode, decode, colSet], rfl⟩
    case positionNumber =>
      cases c <;> simp [shapeOK] at hsh
      · rename_i f sb; cases sb <;> simp at hsh; exact ⟨_, by simp [encode, decode, colSet], rfl⟩
      · rename_i s sb; cases sb <;> simp at hsh; exact ⟨_, by simp [encode, decode, colSet], rfl⟩
    case manualSortPos =>
      cases c <;> simp [shapeOK] at hsh
      · rename_i f sb; cases sb <;> simp at hsh; exact ⟨_, by simp [encode, decode, colSet], rfl⟩
      · rename_i s sb; cases sb <;> simp at hsh; exact ⟨_, by simp [encode, decode, colSet], rfl⟩
    case ref =>
      cases c <;> simp [shapeOK] at hsh
      · rename_i n sb
        cases sb <;> simp at hsh
        exact ⟨.int n false, by simp [encode, hsh, decode, colSet], by simp [encode, hsh]⟩
      · rename_i s sb; cases sb <;> simp at hsh; exact ⟨_, by simp [encode, decode, colSet], rfl⟩
    case choiceList =>
      have hns := hstr rfl
      cases c <;> simp [shapeOK] at hsh <;> simp [PyVal.isStr] at hns
      · exact ⟨_, by simp [encode, decode, colSet], rfl⟩
      · rename_i m xs
        simp only [Decodable] at hdec
        refine ⟨_, by simp [encode, decode, decodeTagged, colSet] <;> rfl, ?_⟩
        simp [encode, encodeL_decodeL_encodeL P hP xs hdec]
    case refList t =>
      have hns := hstr rfl
      cases c <;> simp [shapeOK] at hsh <;> simp [PyVal.isStr] at hns
      · exact ⟨_, by simp [encode, decode, colSet, refListPre], rfl⟩
      · rename_i m xs
        simp only [Decodable] at hdec
        refine ⟨_, by simp [encode, decode, decodeTagged, colSet, refListPre] <;> rfl, ?_⟩
        simp [encode, encodeL_decodeL_encodeL P hP xs hdec]
      · rename_i rows gb sb
        refine ⟨_, by simp [encode, decode, decodeTagged, colSet, refListPre] <;> rfl, ?_⟩
        simp [encode, rows_roundtrip]
    case attachments =>
      have hns := hstr rfl
      cases c <;> simp [shapeOK] at hsh <;> simp [PyVal.isStr] at hns
      · exact ⟨_, by simp [encode, decode, colSet, refListPre], rfl⟩
      · rename_i m xs
        simp only [Decodable] at hdec
        refine ⟨_, by simp [encode, decode, decodeTagged, colSet, refListPre] <;> rfl, ?_⟩
        simp [encode, encodeL_decodeL_encodeL P hP xs hdec]
      · rename_i rows gb sb
        refine ⟨_, by simp [encode, decode, decodeTagged, colSet, refListPre] <;> rfl, ?_⟩
        simp [encode, rows_roundtrip]
  · cases c <;> simp [PyVal.isRaised] at hr
    rename_i m n ms d ui
    obtain ⟨m', ui', hd⟩ := raised_reload_shape P m n ms d ui
    rw [hd] at hrt ⊢
    exact ⟨_, colSet_raised P τ m' n ms d ui', hrt⟩

/-! ### C07 (value level) -/

/-- **C07: the reloaded cell is indistinguishable from the recomputed one.**  A formula returns `v`
    in a column of type `τ`; the engine keeps `c = column.convert(v)` (on which `column.set` is the
    identity, so `c` is the stored cell); after save and reload the cell is `x`; `Calculate`
    recomputes `c` and `equal_encoding(x, c)` holds, so no action is emitted.  Hypotheses: `c` is
    not a text in a ChoiceList/RefList column, dates inside are real dates and datetimes decode
    (C24's `Decodable`), and no NaN is nested inside a list or dict. -/
theorem reload_value_stable (P : Prim) (hP : DateNodeOK P) (τ : ColType) (v : PyVal)
    (hs : reparses τ = true → RowIdsShort v)
    (hstr : reparses τ = true → (colConvert P τ v).isStr = false)
    (hdec : Decodable P (colConvert P τ v))
    (hcmp : (colConvert P τ v).isFloat = true ∨ Comparable (encode P (colConvert P τ v)) = true) :
    colSet P τ (colConvert P τ v) = .ok (colConvert P τ v) ∧
    ∃ x, reloadCell P τ (colConvert P τ v) = .ok x ∧ equalEncoding P x (colConvert P τ v) = true := by
  obtain ⟨v', hv', hs'⟩ := colConvert_eq P τ v
  have hshape : shapeOK τ (colConvert P τ v) = true ∨ (colConvert P τ v).isRaised = true := by
    rw [hv']
    cases hr : v'.isRaised
    · exact Or.inl (convert_shapeOK P τ v' hr (fun hrep => hs' hrep (hs hrep)))
    · rw [convert_raised P τ v' hr]; exact Or.inr hr
  have hfix : colSet P τ (colConvert P τ v) = .ok (colConvert P τ v) := by
    rcases hshape with h | h
    · exact colSet_fixed P τ _ h hstr
    · generalize colConvert P τ v = c at h
      cases c <;> simp [PyVal.isRaised] at h
      exact colSet_raised P τ _ _ _ _ _
  refine ⟨hfix, ?_⟩
  obtain ⟨x, hx, henc⟩ := reload_encode P hP τ _ hshape hfix hstr hdec
  refine ⟨x, hx, ?_⟩
  have hsym : equalEncoding P (colConvert P τ v) x = true :=
    equalEncoding_of_encode_eq P _ x henc.symm hcmp
  -- equal_encoding is symmetric on values with the same encoding: redo it in the other direction
  have hx' : x.isFloat = true ∨ Comparable (encode P x) = true := by
    rcases hcmp with h | h
    · left
      generalize colConvert P τ v = c at h henc
      cases c <;> simp [PyVal.isFloat] at h
      rename_i f s
      obtain ⟨s', hs''⟩ := encode_eq_float P x f (by simpa [encode] using henc)
      subst hs''; rfl
    · right; rw [henc]; exact h
  exact equalEncoding_of_encode_eq P x _ henc hx'

/-- instance: a formula returning the list `[date(2020,1,1), "a"]` in a ChoiceList column is kept
    as the tuple `("2020-01-01", "a")` and survives a reload -/
example : ∃ x, reloadCell PEx .choiceList (.tuple metaX [.str "2020-01-01".toList false, .str ['a'] false]) = .ok x ∧
    equalEncoding PEx x (.tuple metaX [.str "2020-01-01".toList false, .str ['a'] false]) = true :=
  ⟨_, rfl, by simp [equalEncoding, PyVal.isBool, encode, encodeL, decodeL, decode, encEq, encEqL]⟩

-- FULL STATEMENT (unproved, false of the code as it is):
--   theorem reload_value_stable_full (P) (hP : DateNodeOK P) (τ) (v) (hdec : Decodable P (colConvert P τ v)) :
--     ∃ s x, colSet P τ (colConvert P τ v) = .ok s ∧ reloadCell P τ s = .ok x ∧
--            equalEncoding P x (colConvert P τ v) = true
/-- **A NaN nested in a list breaks it**: a formula returning `[float('nan')]` in an Any column: the
    reloaded cell `[nan]` and the recomputed `[nan]` are different objects, Python's list `==` says
    they differ (nan != nan), `equal_encoding` is False and Calculate emits a BulkUpdateRecord on
    every reopening.  (Replayed on the real engine by harness/gx/props/c07.py.) -/
theorem reload_value_stable_false_nan :
    ¬ (∀ (P : Prim) (τ : ColType) (v : PyVal), DateNodeOK P → Decodable P (colConvert P τ v) →
        ∃ s x, colSet P τ (colConvert P τ v) = .ok s ∧ reloadCell P τ s = .ok x ∧
          equalEncoding P x (colConvert P τ v) = true) := by
  intro h
  obtain ⟨s, x, h1, h2, h3⟩ := h PEx .any (.list metaX [.float (.nan 0x7FF8000000000000) false])
    (fun d => ⟨metaX, .int 0, rfl⟩) (by simp [colConvert, convert, PyVal.isRaised, doConvert, Decodable, DecodableL])
  have hs : s = .list metaX [.float (.nan 0x7FF8000000000000) false] := by
    have : colSet PEx .any (colConvert PEx .any (.list metaX [.float (.nan 0x7FF8000000000000) false]))
        = .ok (.list metaX [.float (.nan 0x7FF8000000000000) false]) := rfl
    rw [this] at h1; injection h1 with h1; exact h1.symm
  subst hs
  have hx : x = .list metaX [.float (.nan 0x7FF8000000000000) false] := by
    have : reloadCell PEx .any (.list metaX [.float (.nan 0x7FF8000000000000) false])
        = .ok (.list metaX [.float (.nan 0x7FF8000000000000) false]) := rfl
    rw [this] at h2; injection h2 with h2; exact h2.symm
  subst hx
  simp [equalEncoding, colConvert, convert, PyVal.isRaised, doConvert, PyVal.isBool, encode, encodeL, encEq,
    encEqL, encNumKey] at h3

/-- parameters for the second witness: `json.loads("[2147483648]") = [2147483648]` -/
def PRe : Prim := ⟨fun _ => none, fun _ => none, fun _ => [], fun _ => [],
    fun s => if s = "[2147483648]".toList then some (.list metaX [.int 2147483648 false]) else none,
    fun _ => none, fun _ => none, fun _ => none, fun _ _ => .error [], fun _ => .error [],
    fun d => .date metaX d (.int 0), fun _ => .error [], fun _ => metaX, fun _ => metaX, fun _ _ => metaX,
    fun _ _ => metaX, fun _ _ _ _ => metaX⟩

/-- **A text that the column's set() parses again breaks it** (hypothesis `hstr`): a formula
    returning the text "[2147483648]" in a RefList column: convert keeps the text (2147483648 is
    not a 32-bit id), ReferenceListColumn.set stores the parsed list [2147483648], and after every
    reload the recomputed text is compared with that list: Calculate emits an action each time. -/
theorem reload_value_stable_false_reparse :
    ¬ (∀ (P : Prim) (τ : ColType) (v : PyVal), DateNodeOK P → Decodable P (colConvert P τ v) →
        Comparable (encode P (colConvert P τ v)) = true →
        ∃ s x, colSet P τ (colConvert P τ v) = .ok s ∧ reloadCell P τ s = .ok x ∧
          equalEncoding P x (colConvert P τ v) = true) := by
  intro h
  have hc : colConvert PRe (.refList ['T']) (.str "[2147483648]".toList false)
      = .str "[2147483648]".toList false := rfl
  obtain ⟨s, x, h1, h2, h3⟩ := h PRe (.refList ['T']) (.str "[2147483648]".toList false)
    (fun d => ⟨metaX, .int 0, rfl⟩) (by rw [hc]; simp [Decodable]) (by rw [hc]; simp [encode, Comparable])
  rw [hc] at h1 h3
  have hs : s = .list metaX [.int 2147483648 false] := by
    have : colSet PRe (.refList ['T']) (.str "[2147483648]".toList false)
        = .ok (.list metaX [.int 2147483648 false]) := rfl
    rw [this] at h1; injection h1 with h1; exact h1.symm
  subst hs
  have hx : ∃ m u, x = .list m [.unmarshallable u (.str "2147483648".toList)] := by
    have : reloadCell PRe (.refList ['T']) (.list metaX [.int 2147483648 false])
        = .ok (.list metaX [.unmarshallable metaX (.str "2147483648".toList)]) := rfl
    rw [this] at h2; injection h2 with h2; exact ⟨_, _, h2.symm⟩
  obtain ⟨m, u, hx⟩ := hx
  subst hx
  simp [equalEncoding, PyVal.isBool, encode, encodeL, encEq] at h3

end Grist.PyVal
