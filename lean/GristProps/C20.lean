/-
C20  Row positions stay unique and order-preserving.
Property theorems only.  Model: GristModel/Relabel.lean (relabeling.py, one transcription generic
over the key type); helper lemmas: GristProofs/Relabel.lean.

Every theorem is about an ARBITRARY lawful linear order `K` (`Std.IsLinearOrder`, `Std.LawfulOrderLT`);
`Float` is never mentioned.  The driver runs the same definitions at `K := Float`.

What is and is not proved
  * `bisect_left_spec`, `group_insertions_spec`, `ungroup_slot`, `ungroup_order`,
    `apply_adjustments_order`: the bookkeeping of `_group_insertions` / `ungroup` / applying adjustments.
  * `checker_sound` / `checker_complete`: the decidable checker `validOutcome` (neighbour comparisons
    only) holds exactly when the clauses of the property (`Outcome`) hold.  The harness evaluates
    `validOutcome` on every real outcome.
  * `prepare_inserts_partial`: a NORMAL return of `prepareInserts` on which no `_adjust_range` /
    `_adjust_all` step ran satisfies `Outcome`, assuming the listed laws of `get_range` etc.
  * NOT proved: totality (the asserts / "This isn't expected" can fire — and do, see the findings of the
    Python check), and the crowded-neighbourhood path (`_adjust_range`), whose correctness rests on
    density properties of IEEE doubles; that path is covered by the bit-for-bit differential test plus
    `validOutcome` on its outputs.
-/
import GristModel.Relabel
import GristProofs.Relabel
set_option linter.unusedSectionVars false
set_option linter.unusedSimpArgs false
namespace Grist.Relabel
open Std

variable {K : Type} [LT K] [LE K] [DecidableLT K] [DecidableLE K] [IsLinearOrder K] [LawfulOrderLT K]

/-- The clauses of C20 for an outcome `(adj, newKeys)` of `prepare_inserts(existing, keys)`;
    `applyAdj existing adj` are the positions of the existing rows afterwards. -/
structure Outcome (isFin : K → Bool) (existing keys : List K) (adj : List (Nat × K))
    (newKeys : List K) : Prop where
  /-- one new position per request -/
  len : newKeys.length = keys.length
  /-- adjustments name distinct existing rows -/
  adj_rows : (adj.map (·.1)).Nodup ∧ ∀ p ∈ adj, p.1 < existing.length
  /-- existing rows keep their order -/
  existing_order : (applyAdj existing adj).Pairwise (· < ·)
  /-- every position written is finite -/
  finite : (∀ p ∈ adj, isFin p.2 = true) ∧ (∀ k ∈ newKeys, isFin k = true)
  /-- all rows end up with pairwise distinct positions -/
  distinct : (applyAdj existing adj ++ newKeys).Nodup
  /-- each new row is placed where its requested key falls: after every existing row with a smaller
      OLD key, before every existing row with an equal or larger OLD key -/
  placement : ∀ (a i : Nat) (q x f s : K), keys[a]? = some q → existing[i]? = some x →
    (applyAdj existing adj)[i]? = some f → newKeys[a]? = some s → (x < q → f < s) ∧ (q ≤ x → s < f)
  /-- new rows keep the order of their requests, ties by request index -/
  request_order : ∀ (a b : Nat) (qa qb sa sb : K), keys[a]? = some qa → keys[b]? = some qb →
    newKeys[a]? = some sa → newKeys[b]? = some sb → (qa < qb ∨ (qa = qb ∧ a < b)) → sa < sb

/-! ### `_group_insertions` -/

/-- **bisect_left**: on a sorted list the bisection point `b` of `k` splits it into the rows `< k`
    and the rows `≥ k` — a key equal to an existing one goes BEFORE it. -/
theorem bisect_left_spec (existing : List K) (k : K) (hs : existing.Pairwise (· ≤ ·)) :
    bisectLeft existing k ≤ existing.length ∧
    ∀ (i : Nat) (x : K), existing[i]? = some x →
      (i < bisectLeft existing k → x < k) ∧ (bisectLeft existing k ≤ i → k ≤ x) :=
  ⟨bisectLeft_le_length existing k,
   fun i x hx => ⟨bisectLeft_lt existing k i x hx, bisectLeft_ge existing k hs i x hx⟩⟩

example : bisectLeft [3, 4, 4, 5] (4 : Int) = 1 := by decide

/-- **group_insertions_spec**: the groups `(index, count)` have strictly increasing indices, positive
    counts, indices within `0..len(existing)`, and the count recorded for index `s` is exactly the number
    of requests whose key bisects `existing` at `s` (so each request is counted at `bisect_left`). -/
theorem group_insertions_spec (existing keys : List K) :
    ((insGroups existing keys).map (·.1)).Pairwise (· < ·) ∧
    (∀ g ∈ insGroups existing keys, 0 < g.2 ∧ g.1 ≤ existing.length) ∧
    ∀ s : Nat, ((insGroups existing keys).lookup s).getD 0
      = (keys.filter (fun k => bisectLeft existing k == s)).length := by
  have hsorted := insKeys_bisect_sorted existing keys
  refine ⟨groupRuns_sorted _ hsorted, ?_, ?_⟩
  · intro g hg
    refine ⟨groupRuns_pos _ g hg, ?_⟩
    -- g.1 occurs among the bisection points
    have hx := groupRuns_expand ((insKeys keys).map (fun p => bisectLeft existing p.1))
    have hp := groupRuns_pos _ g hg
    have hmem : g.1 ∈ (insKeys keys).map (fun p => bisectLeft existing p.1) := by
      rw [← hx]
      simp only [List.mem_flatMap, List.mem_replicate]
      exact ⟨g, hg, by omega, rfl⟩
    obtain ⟨p, _, hp2⟩ := List.mem_map.mp hmem
    rw [← hp2]; exact bisectLeft_le_length _ _
  · intro s
    unfold insGroups
    rw [groupRuns_count _ hsorted s]
    have hperm := (insKeys_perm keys).map (fun p => bisectLeft existing p.1)
    rw [hperm.count_eq s, List.count_eq_length_filter]
    have : keys.zipIdx.map (fun p => bisectLeft existing p.1) = keys.map (bisectLeft existing) := by
      rw [show (fun p : K × Nat => bisectLeft existing p.1) = (bisectLeft existing) ∘ Prod.fst from rfl,
        ← List.map_map, List.zipIdx_map_fst]
    rw [this, List.filter_map, List.length_map]
    rfl

example : insGroups [3, 4, 5] ([3, 3, 4, 5, 6, 4, 6, 4] : List Int) = [(0, 2), (1, 3), (2, 1), (3, 2)] := by
  decide

/-! ### `ungroup` -/

/-- **ungroup_slot**: `ungroup` hands the `p`-th new key (in key order) to the request that has rank `p`
    in `sorted((key, i) …)`. -/
theorem ungroup_slot (keys slots : List K) (hl : slots.length = keys.length) :
    (ungroup (indices keys) slots).length = keys.length ∧
    ∀ (p : Nat) (q : K × Nat) (s : K), (insKeys keys)[p]? = some q → slots[p]? = some s →
      (ungroup (indices keys) slots)[q.2]? = some s :=
  ungroup_insKeys keys slots hl

/-- **ungroup_order**: if the new keys are handed out strictly increasing, the result keeps the order
    of the requests, ties by request index. -/
theorem ungroup_order (keys slots : List K) (hl : slots.length = keys.length)
    (hinc : slots.Pairwise (· < ·)) :
    ∀ (a b : Nat) (qa qb sa sb : K), keys[a]? = some qa → keys[b]? = some qb →
      (ungroup (indices keys) slots)[a]? = some sa → (ungroup (indices keys) slots)[b]? = some sb →
      (qa < qb ∨ (qa = qb ∧ a < b)) → sa < sb := by
  intro a b qa qb sa sb hqa hqb hsa hsb hlt
  obtain ⟨_, hslot⟩ := ungroup_insKeys keys slots hl
  have hpa : (qa, a) ∈ insKeys keys := mem_insKeys.mpr hqa
  have hpb : (qb, b) ∈ insKeys keys := mem_insKeys.mpr hqb
  obtain ⟨pa, hpa'⟩ := List.mem_iff_getElem?.mp hpa
  obtain ⟨pb, hpb'⟩ := List.mem_iff_getElem?.mp hpb
  have hla : pa < slots.length := by
    have := (List.getElem?_eq_some_iff.mp hpa').1; rw [insKeys_length] at this; omega
  have hlb : pb < slots.length := by
    have := (List.getElem?_eq_some_iff.mp hpb').1; rw [insKeys_length] at this; omega
  have ea := hslot pa (qa, a) slots[pa] hpa' (List.getElem?_eq_getElem hla)
  have eb := hslot pb (qb, b) slots[pb] hpb' (List.getElem?_eq_getElem hlb)
  simp only at ea eb
  rw [hsa] at ea; rw [hsb] at eb
  cases ea; cases eb
  -- ranks are ordered like the requests
  have hsorted := insKeys_sorted keys
  rw [List.pairwise_iff_getElem] at hsorted hinc
  have hia := (List.getElem?_eq_some_iff.mp hpa')
  have hib := (List.getElem?_eq_some_iff.mp hpb')
  have hlex : LexLt (qa, a) (qb, b) := hlt
  rcases Nat.lt_trichotomy pa pb with h | h | h
  · exact hinc pa pb hla hlb h
  · subst h
    rw [hpa'] at hpb'
    cases hpb'
    rcases hlt with h | h
    · grind
    · omega
  · have := hsorted pb pa hib.1 hia.1 h
    rw [hia.2, hib.2] at this
    exact absurd this (not_leKI_of_lexLt hlex)

example : ungroup (indices ([4, 5, 6, 5, 4] : List Int)) [1, 2, 3, 4, 5] = [1, 3, 5, 4, 2] := by decide

/-! ### applying adjustments -/

/-- **apply_adjustments_order**: if after writing the adjustments neighbouring existing rows are
    strictly increasing and a new key sits between the neighbours of slot `b` (both are neighbour
    checks), then ALL existing rows are in strictly increasing order and the new key is above every row
    before slot `b` and below every row from slot `b` on. -/
theorem apply_adjustments_order (existing : List K) (adj : List (Nat × K)) (b : Nat) (s : K)
    (hinc : strictlyInc (applyAdj existing adj) = true)
    (hslot : slotOK (applyAdj existing adj) b s = true) :
    (applyAdj existing adj).length = existing.length ∧
    (applyAdj existing adj).Pairwise (· < ·) ∧
    ∀ (i : Nat) (x : K), (applyAdj existing adj)[i]? = some x → (i < b → x < s) ∧ (b ≤ i → s < x) :=
  ⟨applyAdj_length existing adj, (strictlyInc_iff _).mp hinc,
   slot_global ((strictlyInc_iff _).mp hinc) ((slotOK_iff _ _ _).mp hslot)⟩

example : applyAdj ([10, 20, 30] : List Int) [(0, 5), (2, 40)] = [5, 20, 40] := by decide
example : strictlyInc (applyAdj ([10, 20, 30] : List Int) [(0, 5), (2, 40)]) = true ∧
    slotOK (applyAdj ([10, 20, 30] : List Int) [(0, 5), (2, 40)]) 1 7 = true := by decide

/-! ### the checker -/

/-- **checker_sound**: for sorted existing keys, an outcome accepted by the decidable checker
    `validOutcome` (which only compares neighbours) satisfies every clause of the property. -/
theorem checker_sound (isFin : K → Bool) (existing keys : List K) (adj : List (Nat × K))
    (newKeys : List K) (hs : existing.Pairwise (· ≤ ·))
    (hv : validOutcome isFin existing keys adj newKeys = true) :
    Outcome isFin existing keys adj newKeys := by
  unfold validOutcome at hv
  simp only [Bool.and_eq_true, beq_iff_eq, List.all_eq_true, decide_eq_true_eq] at hv
  obtain ⟨⟨⟨⟨⟨hlen, hnd⟩, hadj⟩, hfin⟩, hinc⟩, hrest⟩ := hv
  have hf := (strictlyInc_iff _).mp hinc
  have hfl := applyAdj_length existing adj
  have hcl : (∀ (a i : Nat) (q x f s : K), keys[a]? = some q → existing[i]? = some x →
        (applyAdj existing adj)[i]? = some f → newKeys[a]? = some s → (x < q → f < s) ∧ (q ≤ x → s < f)) ∧
      (∀ (a b : Nat) (qa qb sa sb : K), keys[a]? = some qa → keys[b]? = some qb →
        newKeys[a]? = some sa → newKeys[b]? = some sb → (qa < qb ∨ (qa = qb ∧ a < b)) → sa < sb) ∧
      (applyAdj existing adj ++ newKeys).Nodup := by
    cases hnk : newKeys with
    | nil =>
      subst hnk
      have hk : keys = [] := by simpa using hlen.symm
      subst hk
      refine ⟨?_, ?_, ?_⟩
      · intro a i q x f s hq; simp at hq
      · intro a b qa qb sa sb hq; simp at hq
      · simpa [List.nodup_iff_pairwise_ne] using hf.imp (fun h => by grind)
    | cons d t =>
      rw [hnk] at hrest hlen
      simp only [Bool.and_eq_true, List.all_eq_true] at hrest
      obtain ⟨hslots, hok⟩ := hrest
      have hsl := (strictlyInc_iff _).mp hslots
      rw [List.pairwise_map] at hsl
      rw [← hnk] at hsl hok hlen
      rw [← hnk]
      have hget : ∀ p ∈ insKeys keys, newKeys[p.2]? = some (newKeys.getD p.2 d) := by
        intro p hp
        have hp' := mem_insKeys.mp hp
        have hl := (List.getElem?_eq_some_iff.mp hp').1
        have hl' : p.2 < newKeys.length := by omega
        rw [List.getD_eq_getElem?_getD, List.getElem?_eq_getElem hl']; rfl
      apply clauses_of_slots hs hf hfl hlen
      · have hmem : (insKeys keys).Pairwise (fun p q => p ∈ insKeys keys ∧ q ∈ insKeys keys) :=
          List.pairwise_iff_forall_sublist.mpr (fun hsub =>
            ⟨hsub.subset (by simp), hsub.subset (by simp)⟩)
        refine (hsl.and hmem).imp ?_
        intro p q hpq sp sq hsp hsq
        rw [hget p hpq.2.1] at hsp; rw [hget q hpq.2.2] at hsq
        cases hsp; cases hsq
        exact hpq.1
      · intro p hp s hsp
        rw [hget p hp] at hsp; cases hsp
        exact (slotOK_iff _ _ _).mp (hok p hp)
  exact {
    len := hlen
    adj_rows := ⟨(nodupNat_iff _).mp hnd, fun p hp => (hadj p hp).1⟩
    existing_order := hf
    finite := ⟨fun p hp => (hadj p hp).2, hfin⟩
    distinct := hcl.2.2
    placement := hcl.1
    request_order := hcl.2.1 }

/-- **checker_complete**: conversely every outcome satisfying the clauses is accepted, so for sorted
    existing keys `validOutcome` DECIDES the property's clauses. -/
theorem checker_complete (isFin : K → Bool) (existing keys : List K) (adj : List (Nat × K))
    (newKeys : List K) (hs : existing.Pairwise (· ≤ ·))
    (ho : Outcome isFin existing keys adj newKeys) :
    validOutcome isFin existing keys adj newKeys = true := by
  obtain ⟨hlen, hrows, hord, hfin, _, hplace, hreq⟩ := ho
  have hfl := applyAdj_length existing adj
  unfold validOutcome
  simp only [Bool.and_eq_true, beq_iff_eq, List.all_eq_true, decide_eq_true_eq]
  refine ⟨⟨⟨⟨⟨hlen, (nodupNat_iff _).mpr hrows.1⟩, fun p hp => ⟨hrows.2 p hp, hfin.1 p hp⟩⟩, hfin.2⟩,
    (strictlyInc_iff _).mpr hord⟩, ?_⟩
  cases hnk : newKeys with
  | nil => rfl
  | cons d t =>
    subst hnk
    have hget : ∀ p ∈ insKeys keys, (d :: t)[p.2]? = some ((d :: t).getD p.2 d) := by
      intro p hp
      have hp' := mem_insKeys.mp hp
      have hl := (List.getElem?_eq_some_iff.mp hp').1
      have hl' : p.2 < (d :: t).length := by omega
      rw [List.getD_eq_getElem?_getD, List.getElem?_eq_getElem hl']; rfl
    show (strictlyInc ((insKeys keys).map (fun p => (d :: t).getD p.2 d)) &&
      (insKeys keys).all (fun p => slotOK (applyAdj existing adj) (bisectLeft existing p.1)
        ((d :: t).getD p.2 d))) = true
    rw [Bool.and_eq_true, List.all_eq_true]
    constructor
    · rw [strictlyInc_iff, List.pairwise_map]
      have hnd : (insKeys keys).Nodup := by
        rw [(insKeys_perm keys).nodup_iff]
        have h1 : (keys.zipIdx.map Prod.snd).Nodup := by
          rw [List.zipIdx_map_snd]; exact List.nodup_range'
        rw [List.nodup_iff_pairwise_ne, List.pairwise_map] at h1
        rw [List.nodup_iff_pairwise_ne]
        exact h1.imp (fun h heq => h (congrArg Prod.snd heq))
      have hmem : (insKeys keys).Pairwise (fun p q => p ∈ insKeys keys ∧ q ∈ insKeys keys) :=
        List.pairwise_iff_forall_sublist.mpr (fun hsub =>
          ⟨hsub.subset (by simp), hsub.subset (by simp)⟩)
      refine (((insKeys_sorted keys).and (List.nodup_iff_pairwise_ne.mp hnd)).and hmem).imp ?_
      intro p q hpq
      obtain ⟨⟨hle, hne⟩, hp, hq⟩ := hpq
      apply hreq p.2 q.2 p.1 q.1 _ _ (mem_insKeys.mp hp) (mem_insKeys.mp hq) (hget p hp) (hget q hq)
      unfold leKI at hle
      simp only [Bool.or_eq_true, Bool.and_eq_true, Bool.not_eq_true', decide_eq_true_eq,
        decide_eq_false_iff_not] at hle
      have hne' : p.1 ≠ q.1 ∨ p.2 ≠ q.2 := by
        by_cases h1 : p.1 = q.1
        · by_cases h2 : p.2 = q.2
          · exact absurd (Prod.ext h1 h2) hne
          · exact Or.inr h2
        · exact Or.inl h1
      grind
    · intro p hp
      rw [slotOK_iff]
      have hb := bisectLeft_le_length existing p.1
      refine ⟨by omega, ?_, ?_⟩
      · intro x hpos hx
        have hbl : bisectLeft existing p.1 - 1 < existing.length := by omega
        have hlt := bisectLeft_lt existing p.1 _ _ (List.getElem?_eq_getElem hbl) (by omega)
        exact (hplace p.2 _ p.1 _ x _ (mem_insKeys.mp hp) (List.getElem?_eq_getElem hbl) hx
          (hget p hp)).1 hlt
      · intro y hy
        have hbl : bisectLeft existing p.1 < existing.length := by
          have := (List.getElem?_eq_some_iff.mp hy).1; omega
        have hge := bisectLeft_ge existing p.1 hs _ _ (List.getElem?_eq_getElem hbl) (Nat.le_refl _)
        exact (hplace p.2 _ p.1 _ y _ (mem_insKeys.mp hp) (List.getElem?_eq_getElem hbl) hy
          (hget p hp)).2 hge

-- the outcome of `test_prepare_inserts_simple` (existing 3,4,5; requests 3,3,4,5,6,4,6,4), scaled by 4
example : validOutcome (fun _ => true) ([12, 16, 20] : List Int) [12, 12, 16, 20, 24, 16, 24, 16] []
    [4, 8, 13, 18, 24, 14, 28, 15] = true := by decide
-- an outcome with an adjustment (`test_with_invalid`: existing 0, request 0 ⇒ row 0 moves to 2, new key 1)
example : validOutcome (fun _ => true) ([0] : List Int) [0] [(0, 2)] [1] = true := by decide
-- and the checker does reject: new key placed after the equal existing row
example : validOutcome (fun _ => true) ([0] : List Int) [0] [] [1] = false := by decide

/-! ### `prepare_inserts`, the path without relabeling -/

/-- **prepare_inserts_partial**: let `F` provide the numeric primitives with the laws `Laws F`
    (`get_range` returns `count` keys, weakly increasing, inside `[start, end)` when `start < end`;
    `begin + count + 1 ≥ begin`; the non-infinite keys form an interval containing `0.0`).  For strictly
    increasing existing keys and ANY requested keys, if `prepareInserts` returns normally and no
    `_adjust_range` / `_adjust_all` step ran (ghost counters `relabels = renumbers = 0`), then the
    outcome satisfies every clause of the property, with "finite" = `not math.isinf`. -/
theorem prepare_inserts_partial (F : FloatLike K) (L : Laws F) (existing keys : List K)
    (hs : existing.Pairwise (· < ·)) (r : Result K)
    (h : prepareInserts F existing keys = .ok r) (hplain : r.relabels = 0 ∧ r.renumbers = 0) :
    Outcome (fun k => !F.isInf k) existing keys r.adj r.newKeys := by
  have hsle : existing.Pairwise (· ≤ ·) := hs.imp (fun h => by grind)
  unfold prepareInserts at h
  dsimp only at h
  cases hw : (insGroups existing keys).foldlM (fun w g => prepAt F w g.1 g.2)
      ({ orig := existing, adj := [], ins := [], relabels := 0, renumbers := 0 } : Work K) with
  | error e => rw [hw] at h; simp [bind, Except.bind] at h
  | ok w =>
    rw [hw] at h
    simp only [bind, Except.bind, pure, Except.pure, Except.ok.injEq] at h
    subst h
    simp only at hplain ⊢
    obtain ⟨g1, g2, _⟩ := group_insertions_spec existing keys
    have inv0 : PlainInv F existing
        ({ orig := existing, adj := [], ins := [], relabels := 0, renumbers := 0 } : Work K) [] :=
      ⟨rfl, rfl, rfl, rfl, rfl, by simp, by simp, by simp⟩
    have hinv := foldlM_plain F L hsle (insGroups existing keys) inv0 g1 (by simp) g2 hw hplain
    have htags : ([] : List Nat) ++ (insGroups existing keys).flatMap (fun g => List.replicate g.2 g.1)
        = (insKeys keys).map (fun p => bisectLeft existing p.1) := by
      rw [List.nil_append]; exact groupRuns_expand _
    rw [htags] at hinv
    obtain ⟨_, hadj, _, _, hlen, hinc, hslot, hfin⟩ := hinv
    have hl : w.ins.length = keys.length := by
      rw [← hlen, List.length_map, insKeys_length]
    obtain ⟨hulen, huslot⟩ := ungroup_insKeys keys w.ins hl
    rw [hadj]
    have hfinal : applyAdj existing ([] : List (Nat × K)) = existing := rfl
    -- the new key of the request of rank i is the i-th insertion
    have hrank : ∀ (i : Nat) (p : K × Nat) (s : K), (insKeys keys)[i]? = some p →
        (ungroup (indices keys) w.ins)[p.2]? = some s → w.ins[i]? = some s := by
      intro i p s hp hsp
      have hil := (List.getElem?_eq_some_iff.mp hp).1
      rw [insKeys_length] at hil
      have := huslot i p w.ins[i] hp (List.getElem?_eq_getElem (by omega))
      rw [this] at hsp; cases hsp
      exact List.getElem?_eq_getElem (by omega)
    have hcl := clauses_of_slots (existing := existing) (final := existing) (keys := keys)
      (newKeys := ungroup (indices keys) w.ins) hsle hs rfl hulen ?_ ?_
    · exact {
        len := hulen
        adj_rows := by simp
        existing_order := by rw [hfinal]; exact hs
        finite := by
          refine ⟨by simp, ?_⟩
          intro k hk
          have hk' : k ∈ w.ins := by
            unfold ungroup at hk
            obtain ⟨pr, hpr, rfl⟩ := List.mem_map.mp hk
            have := (isort_perm _ _).mem_iff.mp hpr
            exact (List.of_mem_zip this).2
          simp [hfin k hk']
        distinct := by rw [hfinal]; exact hcl.2.2
        placement := by rw [hfinal]; exact hcl.1
        request_order := hcl.2.1 }
    · rw [List.pairwise_iff_getElem]
      intro i j hi hj hij sp sq hsp hsq
      have h1 := hrank i _ sp (List.getElem?_eq_getElem hi) hsp
      have h2 := hrank j _ sq (List.getElem?_eq_getElem hj) hsq
      exact pairwise_lt_getElem? hinc i j sp sq hij h1 h2
    · intro p hp s hsp
      obtain ⟨i, hi⟩ := List.mem_iff_getElem?.mp hp
      have h1 := hrank i p s hi hsp
      have hmem : (bisectLeft existing p.1, s) ∈
          ((insKeys keys).map (fun p => bisectLeft existing p.1)).zip w.ins := by
        rw [List.mem_iff_getElem?]
        refine ⟨i, List.getElem?_zip_eq_some.mpr ⟨?_, h1⟩⟩
        rw [List.getElem?_map, hi]; rfl
      exact hslot _ hmem

/-- A lawful instance of the primitives over `Int` (keys spaced by 1: `get_range(s, e, c)` = `s+1 … s+c`
    clipped to `e-1`), showing that the hypotheses of `prepare_inserts_partial` are satisfiable and that
    a plain run exists. -/
def intOps : FloatLike Int where
  zero := 0
  negInf := -1000000
  isInf := fun _ => false
  endAfter := fun b c => b + c + 1
  allEnd := fun n m => n + m + 1
  getRange := fun s e c => (List.range' 1 c).map (fun (k : Nat) => min (s + (k : Int)) (e - 1))
  rangeAround := fun x _ => some (x, x + 1)
  sparse := fun _ _ _ => false

theorem intOps_laws : Laws intOps where
  range_length := by intro s e c; simp [intOps]
  range_mono := by
    intro s e c
    simp only [intOps, List.pairwise_map]
    refine (List.pairwise_lt_range' (s := 1) (n := c)).imp ?_
    intro a b hab; omega
  range_bounds := by
    intro s e c hse k hk
    simp only [intOps, List.mem_map, List.mem_range'_1] at hk
    obtain ⟨a, ha, rfl⟩ := hk
    omega
  endAfter_ge := by intro b c; simp [intOps]; omega
  isInf_convex := by intros; rfl
  zero_fin := rfl

example : (prepareInserts intOps [10, 20, 30] [10, 10, 20, 35]).toOption.map
    (fun r => (r.adj, r.newKeys, r.relabels, r.renumbers)) = some ([], [1, 2, 11, 31], 0, 0) := by decide +kernel

-- FULL STATEMENT (unproved):
--   ∀ existing keys, existing strictly increasing (and finite) →
--     ∃ r, prepareInserts F existing keys = .ok r ∧ Outcome (fun k => !F.isInf k) existing keys r.adj r.newKeys
-- for the float primitives `F := Flt.floatOps`.
--  * The totality half is FALSE of the code as it is: on the unchanged tree `relabeling.prepare_inserts`
--    raises AssertionError for (a) existing 1.2, next(1.2), next(next(1.2)) and ONE request next(1.2)
--    (stale post-relabel assert), (b) existing 2^53, request above it (begin + count + 1 == begin),
--    (c) existing 5e-324, 1e-323, request 1e-323 (subnormal neighbourhood).  These are float-level facts;
--    no theorem here mentions `Float`, so the witnesses live in harness/gx/props/c20.py (KNOWN_INPUTS),
--    are replayed on the real code in every run, and the Lean transcription reproduces the same
--    exception class on them (bit-for-bit differential).
--  * The half "normal return ⇒ Outcome" is proved above for runs without relabel/renumber steps; for
--    runs WITH such steps it is neither proved nor refuted here (it depends on how many doubles a
--    dyadic block holds); every such run explored is checked by `validOutcome` (sound by
--    `checker_sound`) and by the independent Python oracle.
-- The laws alone cannot give totality: a lawful instance on which a crowded neighbourhood ends in
-- `raise ValueError("This isn't expected")`:
example : (match prepareInserts intOps [10, 11] [11] with
    | .error e => decide (e = Err.notExpected)
    | .ok _ => false) = true := by decide +kernel

end Grist.Relabel
