/-
C25  Migrations are total and reach the current schema.

Model: GristModel/Lenient.lean (`applyL`/`runL` = table_data_set.py `TableDataSet`, the interpreter
the migrations run against and the one `test_migrations` applies the emitted actions with).
Generated data: Generated/Migrations.lean, written on every run by harness/gx/translate.py
`gen_migrations()` from the REAL `create_migrations`: for each version v = 0..SCHEMA_VERSION the
metadata schema of the version-v document (`startSchemas`), the metadata schema actions emitted for
it (`schemaActs`), the current schema (`currentSchema` = `schema_create_actions()`), and the whole
list emitted for an already-current document (`currentActs`).

What is proved
  (i)   `migrate_schema_reaches_current`: for EVERY version v ≤ SCHEMA_VERSION, EVERY document
        (any data, any user tables) whose metadata schema is the version-v one, and EVERY action list
        whose metadata-schema-action subsequence is the generated one and whose actions each name
        only metadata tables or only user tables: if `TableDataSet` applies the list without raising,
        the metadata schema reached equals the current schema (as Python dicts: key order ignored —
        the order legitimately differs, e.g. `_grist_DocInfo.basketId` was added by migration 13
        after `schemaVersion` but is declared before it in schema.py).
        The per-version facts are the generated obligation `generated_reach` (kernel evaluation).
  (i')  `lenient_schema_data_independent`: the schema a run reaches depends only on the starting
        schema and the schema-action subsequence — for ALL data.
  (ii)  `migrate_frame` (+ `applyL_frame`): actions that name only `_grist_*` tables leave every
        other table untouched (row ids, every cell, schema); `user_schema_action_keeps_cells`: the
        schema actions that some old migrations emit ON user tables (ModifyColumn, AddColumn,
        RemoveColumn, RenameTable) keep the row ids and every cell of every other column.
  (iii) `current_only_version` (generated obligation) + `version_act_only_rewrites_version`: at the
        current version the emitted list is the single `UpdateRecord('_grist_DocInfo', 1,
        {'schemaVersion': SCHEMA_VERSION})`, which changes nothing but cells of that column.
What is NOT proved (searched by harness/gx/props/c25.py): totality of the data-dependent Python
bodies of the migrations (loops over records, JSON parsing), and that the emitted list has the
shape assumed in (i) for every document — both are checked per run on random documents.

-- FULL STATEMENT (unproved): "for any document at any older schema version whose metadata cells hold
-- values of their declared types, creating AND applying the migrations succeeds".  The creating half
-- is about the Python bodies of the 46 migration functions, which are not modelled; it is FALSE of the
-- code as it is: e.g. a version-44 document with a `_grist_Cells` record whose `content` is
-- `{"timeCreated": "yesterday"}` makes migration45 raise TypeError (23 such classes are recorded in
-- known_findings.json and replayed on the real code by harness/gx/props/c25.py on every run).  The
-- strongest true part is proved below: WHENEVER the list is produced and applied, the result is the
-- current schema, user tables are framed, and the shape conditions used are checked per run.
-/
import GristModel.Lenient
import GristProofs.Lenient
import Generated.Migrations
namespace Grist.Doc
open Grist.Generated.Migrations

/-! ### (i') the schema reached is independent of the data -/

/-- The `_schema` after a successful `apply_doc_actions` is the schema-only fold of the
    schema-action subsequence over the starting `_schema`: no cell, row id or record action matters. -/
theorem lenient_schema_of_run {d d' : LDoc} {acts : List LAction} (h : runL d acts = .ok d') :
    runSchema d.schema (acts.filter LAction.isSchema) = .ok d'.schema := by
  rw [← runSchema_filter]; exact runL_schema h

theorem lenient_schema_data_independent {d₁ d₂ d₁' d₂' : LDoc} {as₁ as₂ : List LAction}
    (hs : d₁.schema = d₂.schema)
    (ha : as₁.filter LAction.isSchema = as₂.filter LAction.isSchema)
    (h₁ : runL d₁ as₁ = .ok d₁') (h₂ : runL d₂ as₂ = .ok d₂') :
    d₁'.schema = d₂'.schema := by
  have e₁ := lenient_schema_of_run h₁
  have e₂ := lenient_schema_of_run h₂
  rw [hs, ha, e₂] at e₁
  exact (Except.ok.inj e₁).symm

/-- for the examples: the run succeeds and its result satisfies `p` -/
def okAnd {α : Type} (r : Except String α) (p : α → Bool) : Bool :=
  match r with
  | .ok a => p a
  | .error _ => false

/-- example: the same two schema actions interleaved with different records on different data -/
example :
    let d₁ : LDoc := ⟨[("T", ⟨[some 1], [("a", [.int 5])]⟩)], [("T", [("a", ⟨"Int", false, "", none⟩)])]⟩
    let d₂ : LDoc := ⟨[("T", ⟨[], [("a", [])]⟩)], [("T", [("a", ⟨"Int", false, "", none⟩)])]⟩
    let as₁ : List LAction := [.addColumn "T" "b" ⟨"Text", false, "", none⟩,
      .bulkUpdate "T" [some 1] [("b", [.str "x"])], .modifyColumn "T" "a" { type := some "Numeric" }]
    let as₂ : List LAction := [.bulkAdd "T" [none] [("a", [.int 1])],
      .addColumn "T" "b" ⟨"Text", false, "", none⟩, .modifyColumn "T" "a" { type := some "Numeric" }]
    okAnd (runL d₁ as₁) (fun r₁ => okAnd (runL d₂ as₂) (fun r₂ => r₁.schema == r₂.schema)) = true := by
  decide +kernel

/-! ### (i) every version reaches the current schema -/

def startSchema (v : Nat) : SDoc := startSchemas.getD v []
def emittedSchemaActs (v : Nat) : List LAction := schemaActs.getD v []

/-- the generated obligation for version `v` -/
def reaches (v : Nat) : Bool :=
  match runSchema (startSchema v) (emittedSchemaActs v) with
  | .ok s => schemaEqv s currentSchema
  | .error _ => false

/-- GENERATED OBLIGATIONS, one per version 0..SCHEMA_VERSION, evaluated by the kernel on the data
    extracted from the real `create_migrations` (a single evaluation shares the work). -/
theorem generated_reach : (List.range (schemaVersion + 1)).all reaches = true := by
  decide +kernel

/-- the metadata schema actions of a list: schema actions all of whose table ids are `_grist_*` -/
def metaSchemaActs (acts : List LAction) : List LAction :=
  acts.filter (fun a => a.isSchema && a.targetsMeta)

theorem migrate_schema_reaches_current (v : Nat) (hv : v ≤ schemaVersion)
    (d d' : LDoc) (acts : List LAction)
    (hstart : metaOf d.schema = startSchema v)
    (hacts : metaSchemaActs acts = emittedSchemaActs v)
    (hsep : ∀ a ∈ acts, a.targetsMeta = true ∨ a.targetsUser = true)
    (hrun : runL d acts = .ok d') :
    schemaEqv (metaOf d'.schema) currentSchema = true := by
  have h1 := runSchema_meta hsep (runL_schema hrun)
  rw [runSchema_filter, List.filter_filter, hstart] at h1
  have h2 : (acts.filter fun a => a.isSchema && a.targetsMeta) = emittedSchemaActs v := hacts
  rw [h2] at h1
  have h3 : reaches v = true := by
    have h := generated_reach
    rw [List.all_eq_true] at h
    exact h v (List.mem_range.mpr (Nat.lt_succ_of_le hv))
  unfold reaches at h3
  rw [h1] at h3
  exact h3

/-- what `schemaEqv` says (Python `dict.__eq__` read left to right; lengths equal) -/
theorem schemaEqv_spec {a b : SDoc} (h : schemaEqv a b = true) :
    a.length = b.length ∧
    ∀ t sc, (t, sc) ∈ a → ∃ sc', b.get? t = some sc' ∧ sc.length = sc'.length ∧
      ∀ c ci, (c, ci) ∈ sc → sc'.get? c = some ci := by
  unfold schemaEqv dictEqv at h
  simp only [Bool.and_eq_true, beq_iff_eq, List.all_eq_true] at h
  refine ⟨h.1, ?_⟩
  intro t sc hm
  have h2 := h.2 (t, sc) hm
  simp only at h2
  split at h2
  · rename_i sc' hsc'
    simp only [Bool.and_eq_true, beq_iff_eq, List.all_eq_true] at h2
    refine ⟨sc', hsc', h2.1, ?_⟩
    intro c ci hc
    have h3 := h2.2 (c, ci) hc
    simp only at h3
    split at h3
    · rename_i ci' hci'
      rw [hci']; congr 1; exact (eq_of_beq h3).symm
    · cases h3
  · cases h2

/-- non-trivial instance: the version-0 document of test_migrations.py, with a user table, a record
    action and a user-table schema action mixed in -/
example : ∀ d', runL
      ⟨(startSchema 0).map (fun e => (e.1, (⟨[], e.2.map (fun c => (c.1, []))⟩ : TData))) ++
        [("Table1", ⟨[some 1], [("A", [.int 7])]⟩)],
       startSchema 0 ++ [("Table1", [("A", ⟨"Int", false, "", none⟩)])]⟩
      (.modifyColumn "Table1" "A" { type := some "Any" } ::
        .bulkAdd "_grist_Tables" [some 1] [("tableId", [.str "Table1"])] :: emittedSchemaActs 0) = .ok d' →
    schemaEqv (metaOf d'.schema) currentSchema = true := by
  intro d' h
  refine migrate_schema_reaches_current 0 (by decide) _ d' _ ?_ ?_ ?_ h
  · decide +kernel
  · decide +kernel
  · decide +kernel

/-! ### (ii) frame -/

/-- Actions that name only metadata tables leave every user table untouched: same `TableData`
    (row ids and every cell) and same schema entry — for all documents. -/
theorem migrate_frame {d d' : LDoc} {acts : List LAction} {u : String}
    (hmeta : ∀ a ∈ acts, a.targetsMeta = true) (hu : isMetaTable u = false)
    (hrun : runL d acts = .ok d') :
    d'.allTables.get? u = d.allTables.get? u ∧ d'.schema.get? u = d.schema.get? u := by
  induction acts generalizing d with
  | nil => simp only [runL] at hrun; cases hrun; exact ⟨rfl, rfl⟩
  | cons a rest ih =>
    simp only [runL] at hrun
    split at hrun
    · cases hrun
    · rename_i d1 h1
      have hnot : u ∉ a.targets := by
        intro hin
        have := hmeta a (List.mem_cons_self ..)
        simp only [LAction.targetsMeta, List.all_eq_true] at this
        rw [this u hin] at hu; cases hu
      have f1 := applyL_frame h1 hnot
      have f2 := ih (fun b hb => hmeta b (List.mem_cons_of_mem _ hb)) hrun
      exact ⟨f2.1.trans f1.1, f2.2.trans f1.2⟩

example :
    let d : LDoc := ⟨[("_grist_Pages", ⟨[], [("viewRef", [])]⟩), ("Table1", ⟨[some 1, some 2], [("A", [.int 7, .str "x"])]⟩)],
                     [("_grist_Pages", [("viewRef", ⟨"Ref:_grist_Views", false, "", none⟩)]), ("Table1", [("A", ⟨"Int", false, "", none⟩)])]⟩
    let acts : List LAction := [.addColumn "_grist_Pages" "options" ⟨"Text", false, "", none⟩,
                                .bulkAdd "_grist_Pages" [none] [("viewRef", [.int 3])]]
    (∀ a ∈ acts, a.targetsMeta = true) ∧ isMetaTable "Table1" = false ∧
      okAnd (runL d acts) (fun d' => d'.allTables.get? "Table1" == d.allTables.get? "Table1") = true := by
  decide +kernel

/-- The schema actions that old migrations emit on USER tables keep the rows and cells:
    ModifyColumn (m3, m7, m17, m28) touches no `TableData` at all; AddColumn (m10) and RemoveColumn
    (m7) keep the row ids and every other column; RenameTable (m7, m31) moves the `TableData`
    unchanged to the new id. -/
theorem user_schema_action_keeps_cells {d d' : LDoc} :
    (∀ t c p, applyL d (.modifyColumn t c p) = .ok d' → d'.allTables = d.allTables) ∧
    (∀ t c info td, applyL d (.addColumn t c info) = .ok d' → d.allTables.get? t = some td →
      ∃ td', d'.allTables.get? t = some td' ∧ td'.rowIds = td.rowIds ∧
        ∀ c', c' ≠ c → td'.columns.get? c' = td.columns.get? c') ∧
    (∀ t c td, applyL d (.removeColumn t c) = .ok d' → d.allTables.get? t = some td →
      ∃ td', d'.allTables.get? t = some td' ∧ td'.rowIds = td.rowIds ∧
        ∀ c', c' ≠ c → td'.columns.get? c' = td.columns.get? c') ∧
    (∀ old new, applyL d (.renameTable old new) = .ok d' →
      d'.allTables.get? new = d.allTables.get? old) := by
  refine ⟨?_, ?_, ?_, ?_⟩
  · intro t c p h
    simp only [applyL] at h
    split at h
    · cases h
    · split at h
      · cases h
      · cases h; rfl
  · intro t c info td h htd
    simp only [applyL] at h
    split at h
    · cases h
    · split at h
      · cases h
      · rename_i td0 htd0
        rw [htd] at htd0; cases htd0
        cases h
        refine ⟨_, Dict.get?_set_self _ _ _, rfl, ?_⟩
        intro c' hc'
        exact Dict.get?_set_ne _ _ _ _ hc'
  · intro t c td h htd
    simp only [applyL] at h
    split at h
    · cases h
    · split at h
      · cases h
      · rename_i td0 htd0
        rw [htd] at htd0; cases htd0
        cases h
        refine ⟨_, Dict.get?_set_self _ _ _, rfl, ?_⟩
        intro c' hc'
        exact Dict.get?_erase_ne _ _ _ hc'
  · intro old new h
    simp only [applyL] at h
    split at h
    · cases h
    · rename_i td htd
      split at h
      · cases h
      · cases h
        simp only
        rw [Dict.get?_set_self, htd]

example :
    let d : LDoc := ⟨[("Table1", ⟨[some 1, some 2], [("A", [.int 7, .str "x"]), ("B", [.null, .null])]⟩)],
                     [("Table1", [("A", ⟨"Int", false, "", none⟩), ("B", ⟨"Any", false, "", none⟩)])]⟩
    okAnd (applyL d (.removeColumn "Table1" "B")) (fun d' => d'.allTables ==
      [("Table1", ⟨[some 1, some 2], [("A", [.int 7, .str "x"])]⟩)]) = true := by
  decide +kernel

/-! ### (iii) an already-current document -/

/-- `actions.UpdateRecord('_grist_DocInfo', 1, {'schemaVersion': n})` -/
def versionAct (n : Nat) : LAction :=
  .bulkUpdate "_grist_DocInfo" [some 1] [("schemaVersion", [.int (Int.ofNat n)])]

/-- GENERATED OBLIGATION: what the real `create_migrations` emitted for the current-version document
    is exactly the single schemaVersion update. -/
theorem current_only_version : currentActs = [versionAct schemaVersion] := by
  decide +kernel

theorem updateColumns_single {idx : List Nat} {c : String} {vals : List Val} {cols cs : Dict (List Val)}
    (h : updateColumns idx [(c, vals)] cols = .ok cs) :
    ∀ c', c' ≠ c → cs.get? c' = cols.get? c' := by
  intro c' hc'
  simp only [updateColumns] at h
  split at h
  · cases h; rfl
  · split at h
    · cases h
    · cases h; exact Dict.get?_set_ne _ _ _ _ hc'

/-- That action rewrites nothing but cells of `_grist_DocInfo.schemaVersion`: the schema, every other
    table, the row ids of `_grist_DocInfo` and every other column of it are unchanged (all docs). -/
theorem version_act_only_rewrites_version {d d' : LDoc} {n : Nat}
    (h : applyL d (versionAct n) = .ok d') :
    d'.schema = d.schema ∧
    (∀ u, u ≠ "_grist_DocInfo" → d'.allTables.get? u = d.allTables.get? u) ∧
    (∀ td, d.allTables.get? "_grist_DocInfo" = some td →
      ∃ td', d'.allTables.get? "_grist_DocInfo" = some td' ∧ td'.rowIds = td.rowIds ∧
        ∀ c, c ≠ "schemaVersion" → td'.columns.get? c = td.columns.get? c) := by
  refine ⟨?_, ?_, ?_⟩
  · simp only [versionAct, applyL] at h; exact lBulkUpdate_schema h
  · intro u hu
    exact (applyL_frame h (by simpa [versionAct, LAction.targets] using hu)).1
  · intro td htd
    simp only [versionAct, applyL] at h
    unfold lBulkUpdate at h
    rw [htd] at h
    simp only at h
    split at h
    · cases h
    · split at h
      · cases h
      · rename_i cs hcs
        cases h
        refine ⟨_, Dict.get?_set_self _ _ _, rfl, ?_⟩
        intro c hc
        exact updateColumns_single hcs c hc

example :
    let d : LDoc := ⟨[("_grist_DocInfo", ⟨[some 1], [("docId", [.str "x"]), ("schemaVersion", [.int 46])]⟩)],
                     [("_grist_DocInfo", [("docId", ⟨"Text", false, "", none⟩), ("schemaVersion", ⟨"Int", false, "", none⟩)])]⟩
    okAnd (applyL d (versionAct 46)) (fun d' => d' == d) = true := by
  decide +kernel

end Grist.Doc
