/-
C38  Node and the engine agree on metadata schema and type defaults.

Proof by regeneration: `Generated.*` is the CURRENT tree as data (harness/gx/translate.py,
re-run by every check), so the closed theorems below are re-proved (or fail) for whatever the tree
is at run time.
  * closed, about the current tree:  `schema_ts_matches_python`, `schema_ts_columns_match`,
    `defaults_agree`, `defaults_agree_everywhere`
    (`schema_ts_text_matches` is in GristProps/C38Text.lean: it is the slow one)
  * general, for all schemas / default tables (what the Boolean checks MEAN):
    `agree_iff`, `agree_lookup`, `tsTypeOf_suffix`, `tsDefault_suffix`, `pyDefault_suffix`,
    `defaultsAgree_sound`, `defaultsAgree_total`
Model: GristModel/SchemaGen.lean (gen_js_schema.py, usertypes.get_type_default,
gristTypes.getDefaultForType).  Helper lemmas: GristProofs/SchemaGen.lean.
-/
import GristModel.SchemaGen
import GristProofs.SchemaGen
import Generated.SchemaPy
import Generated.SchemaTs
import Generated.DefaultsPy
import Generated.DefaultsTs
namespace Grist.SchemaGen

/-! ## General: what `agree p t = true` means -/

/-- Table `pt` of the Python schema is rendered as block `st` of `schema` and block `it` of
`SchemaTypes`: same name, same number of columns (nothing extra on either side), and column by
column, in order, the same id with the same Grist type resp. with `get_ts_type` of it. -/
structure TableAgrees (pt : TableSchema) (st it : TsTable) : Prop where
  schemaName : st.tableId = pt.tableId
  ifaceName : it.tableId = pt.tableId
  schemaCount : st.entries.length = pt.columns.length
  ifaceCount : it.entries.length = pt.columns.length
  schemaCol : ∀ (j : Nat) (h : j < pt.columns.length),
    st.entries[j]? = some ⟨pt.columns[j].id, pt.columns[j].type⟩
  ifaceCol : ∀ (j : Nat) (h : j < pt.columns.length),
    it.entries[j]? = some ⟨pt.columns[j].id, tsTypeOf pt.columns[j].type⟩

/-- Same version; same number of tables on both sides, in both TS blocks; table by table in order
`TableAgrees`. -/
structure Agrees (p : PySchema) (t : TsSchema) : Prop where
  version : p.version = t.version
  schemaCount : t.schema.length = p.tables.length
  ifaceCount : t.iface.length = p.tables.length
  tables : ∀ (i : Nat) (h : i < p.tables.length),
    ∃ st it, t.schema[i]? = some st ∧ t.iface[i]? = some it ∧ TableAgrees p.tables[i] st it

/-- The Boolean check is exactly the column-by-column specification (both directions, all inputs). -/
theorem agree_iff (p : PySchema) (t : TsSchema) : agree p t = true ↔ Agrees p t := by
  unfold agree expectedSchema expectedIface
  simp only [Bool.and_eq_true, decide_eq_true_eq]
  constructor
  · rintro ⟨⟨hv, hs⟩, hi⟩
    obtain ⟨hsl, hsx⟩ := (map_eq_iff_index _ _ _).mp hs
    obtain ⟨hil, hix⟩ := (map_eq_iff_index _ _ _).mp hi
    refine ⟨hv, hsl, hil, fun i h => ⟨_, _, hsx i h, hix i h, ?_⟩⟩
    have a := (tsTable_eq_iff p.tables[i].tableId p.tables[i].columns
      (fun c => ⟨c.id, c.type⟩) _).mp rfl
    have b := (tsTable_eq_iff p.tables[i].tableId p.tables[i].columns
      (fun c => ⟨c.id, tsTypeOf c.type⟩) _).mp rfl
    exact ⟨a.1, b.1, a.2.1, b.2.1, a.2.2, b.2.2⟩
  · intro h
    refine ⟨⟨h.version, ?_⟩, ?_⟩
    · refine (map_eq_iff_index _ _ _).mpr ⟨h.schemaCount, fun i hi => ?_⟩
      obtain ⟨st, it, h1, _, ha⟩ := h.tables i hi
      rw [h1]
      exact congrArg some ((tsTable_eq_iff _ _ _ st).mpr ⟨ha.schemaName, ha.schemaCount, ha.schemaCol⟩)
    · refine (map_eq_iff_index _ _ _).mpr ⟨h.ifaceCount, fun i hi => ?_⟩
      obtain ⟨st, it, _, h2, ha⟩ := h.tables i hi
      rw [h2]
      exact congrArg some ((tsTable_eq_iff _ _ _ it).mpr ⟨ha.ifaceName, ha.ifaceCount, ha.ifaceCol⟩)

/-- hypotheses of `agree_iff` are satisfiable non-trivially, and the check is not constantly true:
a stale type, a missing column, a swapped order, a stale version and a wrong TS type all fail. -/
def exPy : PySchema := ⟨46, [⟨"_grist_Tables", [⟨"tableId", "Text", false, ""⟩,
  ⟨"primaryViewId", "Ref:_grist_Views", false, ""⟩, ⟨"onDemand", "Bool", false, ""⟩]⟩,
  ⟨"_grist_Imports", [⟨"parseFormula", "Text", true, "grist.parseImport(rec, table._engine)"⟩,
  ⟨"when", "DateTime:UTC", false, ""⟩, ⟨"x", "Numeric", false, ""⟩]⟩]⟩
def exTs : TsSchema := ⟨46,
  [⟨"_grist_Tables", [⟨"tableId", "Text"⟩, ⟨"primaryViewId", "Ref:_grist_Views"⟩, ⟨"onDemand", "Bool"⟩]⟩,
   ⟨"_grist_Imports", [⟨"parseFormula", "Text"⟩, ⟨"when", "DateTime:UTC"⟩, ⟨"x", "Numeric"⟩]⟩],
  [⟨"_grist_Tables", [⟨"tableId", "string"⟩, ⟨"primaryViewId", "number"⟩, ⟨"onDemand", "boolean"⟩]⟩,
   ⟨"_grist_Imports", [⟨"parseFormula", "string"⟩, ⟨"when", "number"⟩, ⟨"x", "CellValue"⟩]⟩]⟩
example : agree exPy exTs = true := by decide +kernel
example : agree exPy { exTs with version := 45 } = false := by decide +kernel
example : agree { exPy with tables := exPy.tables.reverse } exTs = false := by decide +kernel
example : agree exPy { exTs with schema := exTs.schema.map fun t => { t with entries := t.entries.drop 1 } } = false := by
  decide +kernel
example : agree exPy { exTs with iface := exTs.iface.map fun t =>
    { t with entries := t.entries.map fun e => if e.id = "x" then ⟨"x", "number"⟩ else e } } = false := by
  decide +kernel

/-- Consequence by NAME, for every table and column name whatsoever (so also: a name unknown to
Python is unknown to `schema.ts` and conversely): `schema` gives the Python column type and
`SchemaTypes` gives `get_ts_type` of it. -/
theorem agree_lookup (p : PySchema) (t : TsSchema) (h : agree p t = true) (tbl col : String) :
    tsColType t.schema tbl col = pyColType p tbl col ∧
    tsColType t.iface tbl col = (pyColType p tbl col).map tsTypeOf := by
  unfold agree at h
  simp only [Bool.and_eq_true, decide_eq_true_eq] at h
  obtain ⟨⟨_, hs⟩, hi⟩ := h
  rw [← hs, ← hi]
  unfold expectedSchema expectedIface
  rw [tsColType_map _ (fun _ => rfl), tsColType_map _ (fun _ => rfl)]
  unfold pyColType
  refine ⟨rfl, ?_⟩
  cases p.tables.find? (·.tableId == tbl) with
  | none => rfl
  | some pt =>
    simp only [Option.bind_some]
    cases pt.columns.find? (·.id == col) <;> rfl

example : tsColType exTs.iface "_grist_Imports" "when" = some "number" ∧
    tsColType exTs.schema "_grist_Imports" "nope" = none := by decide +kernel

/-- `get_ts_type` ignores everything after the first colon (`Ref:<table>`, `DateTime:<tz>`), for
every colon-free base type and every suffix. -/
theorem tsTypeOf_suffix (b s : String) (hb : ':' ∉ b.toList) : tsTypeOf (b ++ ":" ++ s) = tsTypeOf b := by
  unfold tsTypeOf
  rw [pureType_suffix b s hb, pureType_of_no_colon b hb]

example : tsTypeOf "Ref:_grist_Tables:x" = "number" ∧ tsTypeOf "Reference" = "CellValue" := by decide +kernel

/-! ## General: what `defaultsAgree = true` means -/

/-- `getDefaultForType('Ref:Foo') = getDefaultForType('Ref')`, generally. -/
theorem tsDefault_suffix (ts : DefaultTable) (b s : String) (hb : ':' ∉ b.toList) :
    tsDefault ts (b ++ ":" ++ s) = tsDefault ts b := by
  rw [← tsDefault_pure, pureType_suffix b s hb]

theorem pyDefault_suffix (py : DefaultTable) (b s : String) (hb : ':' ∉ b.toList) :
    pyDefault py (b ++ ":" ++ s) = pyDefault py b := by
  rw [← pyDefault_pure, pureType_suffix b s hb]

/-- The Boolean check implies agreement of the two default functions on every type named by
either table and on every probed column type. -/
theorem defaultsAgree_sound (py ts : DefaultTable) (extra : List String)
    (h : defaultsAgree py ts extra = true) (ty : String)
    (hty : ty ∈ py.map (·.1) ∨ ty ∈ ts.map (·.1) ∨ ty ∈ extra) :
    tsDefault ts ty = some (pyDefault py ty) := by
  unfold defaultsAgree at h
  rw [List.all_eq_true] at h
  have := h ty (by
    simp only [List.mem_append]
    rcases hty with a | a | a
    · exact Or.inl (Or.inl a)
    · exact Or.inl (Or.inr a)
    · exact Or.inr a)
  exact of_decide_eq_true this

/-- ... and, when the probe set contains one type name unknown to both tables, on EVERY column
type string (known, unknown, with or without a `:suffix`): `getDefaultForType` and
`get_type_default` are the same function. -/
theorem defaultsAgree_total (py ts : DefaultTable) (extra : List String)
    (h : defaultsAgree py ts extra = true) (u : String) (hu : u ∈ extra)
    (hupy : pureType u ∉ py.map (·.1)) (huts : pureType u ∉ ts.map (·.1)) (ty : String) :
    tsDefault ts ty = some (pyDefault py ty) := by
  rw [← tsDefault_pure, ← pyDefault_pure]
  by_cases hk : pureType ty ∈ py.map (·.1) ∨ pureType ty ∈ ts.map (·.1)
  · exact defaultsAgree_sound py ts extra h _ (hk.elim Or.inl (fun a => Or.inr (Or.inl a)))
  · have hk1 : pureType ty ∉ py.map (·.1) := fun x => hk (Or.inl x)
    have hk2 : pureType ty ∉ ts.map (·.1) := fun x => hk (Or.inr x)
    have hu' := defaultsAgree_sound py ts extra h u (Or.inr (Or.inr hu))
    unfold tsDefault pyDefault at hu' ⊢
    rw [pureType_idem, lookup_none_of_not_mem_keys _ _ hk1, lookup_none_of_not_mem_keys _ _ hk2]
    rw [lookup_none_of_not_mem_keys _ _ hupy, lookup_none_of_not_mem_keys _ _ huts] at hu'
    exact hu'

def exPyDef : DefaultTable := [("Any", .null), ("Int", .num 0), ("Numeric", .num 0), ("Text", .str ""),
  ("ManualSortPos", .posInf), ("Bool", .bool false)]
def exTsDef : DefaultTable := [("Bool", .bool false), ("Any", .null), ("Int", .num 0), ("Text", .str ""),
  ("ManualSortPos", .posInf), ("Numeric", .num 0)]
example : defaultsAgree exPyDef exTsDef ["Zzz", "Int:x"] = true ∧ pureType "Zzz" ∉ exPyDef.map (·.1) ∧
    pureType "Zzz" ∉ exTsDef.map (·.1) := by decide +kernel
-- not constantly true: `0` vs `false`, `''` vs `null`, a non-null `Any` fallback all fail
example : defaultsAgree exPyDef (("Int", .bool false) :: exTsDef.drop 3 ++ exTsDef.take 2) [] = false := by decide +kernel
example : defaultsAgree (("Text", .null) :: exPyDef) exTsDef [] = false := by decide +kernel
example : defaultsAgree [("Any", .num 0)] [("Any", .num 0)] ["Zzz"] = false := by decide +kernel

/-! ## Closed: the current tree (regenerated data) -/
open Grist.Generated

/-- app/common/schema.ts (parsed) carries the version, tables, columns and types of schema.py,
and its `SchemaTypes` carries `get_ts_type` of them. -/
theorem schema_ts_matches_python : agree pySchema tsSchema = true := by decide +kernel

/-- ... spelled out column by column. -/
theorem schema_ts_columns_match : Agrees pySchema tsSchema :=
  (agree_iff _ _).mp schema_ts_matches_python

/-- every type named by usertypes.py or by gristTypes.ts, every column type of the metadata
schema, and one unknown type name, have equal defaults. -/
theorem defaults_agree : defaultsAgree pyDefaults tsDefaults (unknownType :: colTypes) = true := by
  decide +kernel

/-- hence `getDefaultForType(t)` (gristTypes.ts) equals `get_type_default(t)` (usertypes.py) for
every string `t`. -/
theorem defaults_agree_everywhere (ty : String) :
    tsDefault tsDefaults ty = some (pyDefault pyDefaults ty) :=
  defaultsAgree_total _ _ _ defaults_agree unknownType (by simp)
    (by decide +kernel) (by decide +kernel) ty

end Grist.SchemaGen
