/-
C37  Text patches map back to the right source positions  (sandbox/grist/textbuilder.py).
Property theorems only.  Model: GristModel/Textbuilder.lean; proofs: GristProofs/Textbuilder.lean.

Reading of the property:
  * a "set of non-overlapping patches" of a text `t` = `NonOverlapping t ps`: every patch is in range
    with a fitting `old_text`, and any two of them are disjoint (touching allowed; several
    insertions at one point allowed).  Python's `sorted` then yields an ascending list
    (`sorted_is_ascending`).
  * "applying the patches directly" = `applyPatches` (splice one patch at a time, last one first).
  * "the corresponding source characters" of a patch of the produced text = the relation `Traces`
    (GristProofs/Textbuilder.lean): at every Replacer the patch lies inside a segment COPIED from the
    input, at every Combiner inside one part.  For patches that touch text a Replacer produced there
    are no corresponding source characters; what the code does then is covered by the universal
    theorems `tree_mapback_sound` / `tree_mapback_never_asserts`.
-/
import GristProofs.Textbuilder
namespace Grist.Textbuilder

/-- A set of non-overlapping patches of `t`. -/
def NonOverlapping (t : Str) (ps : List Patch) : Prop :=
  (∀ p ∈ ps, p.Fits t) ∧ ps.Pairwise (fun p q => p.end_ ≤ q.start ∨ q.end_ ≤ p.start)

/-- Python's `sorted` turns a set of non-overlapping patches into an ascending list in which every
    patch ends no later than every later one starts. -/
theorem sorted_is_ascending (t : Str) (ps : List Patch) (h : NonOverlapping t ps) :
    Ordered (sortPatches ps) ∧ ∀ p, p ∈ sortPatches ps ↔ p ∈ ps :=
  ⟨ordered_sortPatches ps (fun p hp => (h.1 p hp).2.1) h.2, mem_sortPatches ps⟩

/-! ### (1) A Replacer's text is the patches applied directly -/

/-- **C37 (produced text).**  For every text and every set of non-overlapping patches the Replacer
    is constructed without error and its text equals applying the (sorted) patches directly. -/
theorem replacer_text_eq_applyPatches (t : Str) (ps : List Patch) (h : NonOverlapping t ps) :
    ∃ tb, replacerBuild t ps = .ok tb ∧ tb.outText = applyPatches t (sortPatches ps) := by
  refine ⟨_, replacerBuild_ok t ps (fun p hp => (h.1 p hp).2.2.2), ?_⟩
  exact tablesOf_text t _ (fun p hp => h.1 p ((mem_sortPatches ps p).mp hp)) (sorted_is_ascending t ps h).1

/-- A patch whose `old_text` is not what the text has at its range makes the constructor raise
    ValueError (whatever the other patches are). -/
theorem replacer_refuses_stale_patch (t : Str) (ps : List Patch) (p : Patch) (hp : p ∈ ps)
    (h : slice t p.start p.end_ ≠ p.oldText) : replacerBuild t ps = .error .valueError :=
  replacerBuild_error t ps p hp h

/-- **C37 (characters outside the patches are unchanged).**  Split the sorted patches anywhere into
    `pre ++ post`.  Every stretch `[x, y)` of the input between the end of the last patch of `pre`
    and the start of the first patch of `post` appears unchanged in the produced text, moved by
    the total length change of `pre`. -/
theorem only_patched_changed (t : Str) (ps pre post : List Patch) (x y : Int) (tb : Tables)
    (h : NonOverlapping t ps) (hsplit : sortPatches ps = pre ++ post)
    (hb : replacerBuild t ps = .ok tb)
    (hlo : lastEnd 0 pre ≤ x) (hxy : x ≤ y) (hhi : ∀ q ∈ post, y ≤ q.start) (hlen : y ≤ t.length) :
    slice tb.outText (x + shift pre) (y + shift pre) = slice t x y := by
  obtain ⟨rfl, _⟩ := replacerBuild_inv t ps tb hb
  have hord := (sorted_is_ascending t ps h).1
  rw [hsplit] at hord ⊢
  have hfit : ∀ p ∈ pre ++ post, 0 ≤ p.start ∧ p.start ≤ p.end_ ∧ p.end_ ≤ t.length := by
    intro p hp; rw [← hsplit] at hp
    have := h.1 p ((mem_sortPatches ps p).mp hp)
    exact ⟨this.1, this.2.1, this.2.2.1⟩
  exact outText_copied t pre post x y hfit hord hlo hxy hhi hlen

/-! ### (2) Mapping back inside a copied segment -/

/-- **C37 (input_pos_exact).**  With `pre`/`post` as above, the output position `x + shift pre` of an
    input position `x` of the copied segment is mapped back to exactly `x` — provided no remaining
    patch is a pure deletion starting at `x` (see `input_pos_at_deletion` for that case). -/
theorem input_pos_exact (t : Str) (ps pre post : List Patch) (x : Int) (tb : Tables)
    (h : NonOverlapping t ps) (hsplit : sortPatches ps = pre ++ post)
    (hb : replacerBuild t ps = .ok tb)
    (hlo : lastEnd 0 pre ≤ x) (hhi : ∀ q ∈ post, x ≤ q.start)
    (hdel : ∀ q ∈ post, q.start = x → q.newText = [] → q.end_ = q.start) :
    getInputPos tb (x + shift pre) = .ok x := by
  obtain ⟨rfl, _⟩ := replacerBuild_inv t ps tb hb
  have hord := (sorted_is_ascending t ps h).1
  rw [hsplit] at hord ⊢
  have hfit : ∀ p ∈ pre ++ post, p.Fits t := by
    intro p hp; rw [← hsplit] at hp; exact h.1 p ((mem_sortPatches ps p).mp hp)
  exact getInputPos_copied t pre post x _ (fun p hp => (hfit p hp).2.1)
    (fun p hp => (hfit p (by simp [hp])).1) hord hlo hhi hdel

/-- **C37 (map-back step of a Replacer).**  A patch `[x + shift pre, y + shift pre)` of the produced
    text lying in a copied segment (and fitting the produced text) is mapped to the patch `[x, y)`
    of the input, whose characters are identical: `t[x:y] = old_text`. -/
theorem replacer_mapback_copied (t : Str) (ps pre post : List Patch) (x y : Int) (p : Patch) (tb : Tables)
    (h : NonOverlapping t ps) (hsplit : sortPatches ps = pre ++ post)
    (hb : replacerBuild t ps = .ok tb)
    (hlo : lastEnd 0 pre ≤ x) (hxy : x ≤ y) (hhi : ∀ q ∈ post, y ≤ q.start) (hlen : y ≤ t.length)
    (hdel : ∀ q ∈ post, q.start = y → q.newText = [] → q.end_ = q.start)
    (hs : p.start = x + shift pre) (he : p.end_ = y + shift pre)
    (hold : slice tb.outText p.start p.end_ = p.oldText) :
    replacerInPatch t tb p = .ok ⟨x, y, p.oldText, p.newText⟩ ∧ slice t x y = p.oldText := by
  obtain ⟨rfl, _⟩ := replacerBuild_inv t ps tb hb
  have hord := (sorted_is_ascending t ps h).1
  rw [hsplit] at hord hold ⊢
  have hfit : ∀ p ∈ pre ++ post, p.Fits t := by
    intro p hp; rw [← hsplit] at hp; exact h.1 p ((mem_sortPatches ps p).mp hp)
  exact replacerInPatch_copied t pre post x y p hfit hord hlo hxy hhi hlen hdel hs he hold

/-- **What the code does at the excluded point.**  If the first remaining patch `d` is a pure
    deletion starting at `x` (and the patch after it is not again a pure deletion starting where `d`
    ends), the output position of `x` is mapped back to the END of the deleted range: a patch of the
    produced text that ends exactly there gets the deleted source characters added to its range. -/
theorem input_pos_at_deletion (t : Str) (ps pre : List Patch) (d : Patch) (rest : List Patch) (tb : Tables)
    (h : NonOverlapping t ps) (hsplit : sortPatches ps = pre ++ d :: rest)
    (hb : replacerBuild t ps = .ok tb)
    (hd : d.newText = [])
    (hrest : ∀ q ∈ rest, q.start = d.end_ → q.newText = [] → q.end_ = q.start) :
    getInputPos tb (d.start + shift pre) = .ok d.end_ := by
  have hsplit' : sortPatches ps = (pre ++ [d]) ++ rest := by rw [hsplit]; simp
  have hord := (sorted_is_ascending t ps h).1
  rw [hsplit'] at hord
  have := input_pos_exact t ps (pre ++ [d]) rest d.end_ tb h hsplit' hb
    (by rw [lastEnd_append_singleton]; exact Int.le_refl _)
    (by
      intro q hq
      have := (List.pairwise_append.mp hord).2.2 d (by simp) q hq
      exact this)
    hrest
  rw [shift_append] at this
  simp only [shift, hd, List.length_nil] at this
  have e : d.end_ + (shift pre + ((((0 : Nat) : Int) - (d.end_ - d.start)) + 0)) = d.start + shift pre := by omega
  rw [e] at this
  exact this

/-
-- FULL STATEMENT (unproved): `input_pos_exact` without the hypothesis `hdel`, i.e. "every position
-- of a copied segment, including its right end, is mapped back to the corresponding input position":
--   ∀ t ps pre post x tb, NonOverlapping t ps → sortPatches ps = pre ++ post →
--     replacerBuild t ps = .ok tb → lastEnd 0 pre ≤ x → (∀ q ∈ post, x ≤ q.start) →
--     getInputPos tb (x + shift pre) = .ok x
-- It is FALSE of the code: text 'abcd', one patch deleting 'c'; the right end 2 of the copied
-- segment 'ab' is mapped back to 3, so the patch (1,2,'b','X') of the produced text 'abd' comes
-- back as (1,3,'bc','X').  Witness below; replayed on the real code by harness/gx/props/c37.py.
-/
def witnessText : Str := ['a', 'b', 'c', 'd']
def witnessPatches : List Patch := [⟨2, 3, ['c'], []⟩]

theorem witness_sorted : sortPatches witnessPatches = [] ++ witnessPatches := by
  simp [sortPatches, witnessPatches]

theorem witness_nonoverlapping : NonOverlapping witnessText witnessPatches := by
  refine ⟨?_, by simp [witnessPatches]⟩
  intro p hp
  simp only [witnessPatches, List.mem_singleton] at hp
  subst hp
  unfold Patch.Fits
  decide

theorem witness_tables : replacerBuild witnessText witnessPatches = .ok ⟨[0, 3], [0, 2], ['a', 'b', 'd']⟩ := by
  rw [replacerBuild_ok _ _ (fun p hp => (witness_nonoverlapping.1 p hp).2.2.2)]
  rw [witness_sorted]
  decide

/-- The negation of the full statement. -/
theorem input_pos_exact_full_is_false :
    ¬ (∀ (t : Str) (ps pre post : List Patch) (x : Int) (tb : Tables),
        NonOverlapping t ps → sortPatches ps = pre ++ post → replacerBuild t ps = .ok tb →
        lastEnd 0 pre ≤ x → (∀ q ∈ post, x ≤ q.start) →
        getInputPos tb (x + shift pre) = .ok x) := by
  intro hall
  have := hall witnessText witnessPatches [] witnessPatches 2 _ witness_nonoverlapping witness_sorted
    witness_tables (by decide) (by decide)
  revert this
  decide

/-- The same witness at the level of `Replacer.map_back_patch`: the patch replacing 'b' comes back as
    a patch replacing 'bc'. -/
theorem witness_mapback :
    mapBack (.replacer (.text witnessText 1) witnessPatches) ⟨1, 2, ['b'], ['X']⟩ =
      .ok (some (witnessText, 1, ⟨1, 3, ['b', 'c'], ['X']⟩)) := by
  rw [mapBack_replacer_eq _ _ _ witnessText _ ⟨1, 3, ['b', 'c'], ['X']⟩ rfl witness_tables (by decide)]
  decide

/-! ### (3) Combiner -/

/-- **C37 (Combiner, inside one part).**  A patch that fits the combined text and lies inside the
    part `part` (non-empty and within it, or empty and strictly inside it) is accepted: the result
    is that part's index and the patch shifted by the part's offset, and the shifted patch fits the
    part's text. -/
theorem combiner_inside (tpre : List Str) (part : Str) (tpost : List Str) (p : Patch)
    (h1 : ((joinStrs tpre).length : Int) ≤ p.start)
    (h2 : p.end_ ≤ (joinStrs tpre).length + part.length)
    (h3 : ((joinStrs tpre).length : Int) < p.end_)
    (h4 : p.start < (joinStrs tpre).length + part.length)
    (hold : slice (joinStrs (tpre ++ [part] ++ tpost)) p.start p.end_ = p.oldText) :
    combLocate (tpre ++ [part] ++ tpost) p =
      .ok (tpre.length, ⟨p.start - (joinStrs tpre).length, p.end_ - (joinStrs tpre).length,
                         p.oldText, p.newText⟩) ∧
    slice part (p.start - (joinStrs tpre).length) (p.end_ - (joinStrs tpre).length) = p.oldText := by
  refine ⟨combLocate_inside tpre part tpost p h1 h2 h3 h4 hold, ?_⟩
  rw [slice_inside_part (joinStrs tpre) part (joinStrs tpost) p h1 h2 (by omega), ← hold,
    joinStrs_append, joinStrs_append]
  simp [joinStrs]

/-- **C37 (Combiner, spanning parts is refused).**  If some part starts strictly inside the patch
    (after its first character and at or before its last one) the patch is refused with ValueError. -/
theorem combiner_spanning_refused (tpre tpost : List Str) (p : Patch) (hne : tpost ≠ [])
    (h1 : p.start < (joinStrs tpre).length) (h2 : ((joinStrs tpre).length : Int) < p.end_) :
    combLocate (tpre ++ tpost) p = .error .valueError :=
  combLocate_spanning tpre tpost p hne h1 (by omega)

/-- **C37 (Combiner, every accepted patch is sound).**  For ANY integers: if the Combiner accepts a
    patch, the index is that of a part, the patch is shifted by that part's offset, it fits that
    part's text, and it fitted the combined text. -/
theorem combiner_accept_sound (texts : List Str) (p : Patch) (i : Nat) (q : Patch)
    (h : combLocate texts p = .ok (i, q)) :
    ∃ tpre part tpost, texts = tpre ++ [part] ++ tpost ∧ i = tpre.length ∧
      q = ⟨p.start - (joinStrs tpre).length, p.end_ - (joinStrs tpre).length, p.oldText, p.newText⟩ ∧
      slice part q.start q.end_ = q.oldText ∧
      slice (joinStrs texts) p.start p.end_ = p.oldText :=
  combLocate_sound texts p i q h

/-! ### (4) Nested builder trees -/

/-- **C37 (builder_tree_mapback, exactness).**  For every builder tree and every patch of its text
    whose characters are copied all the way down from one leaf (`Traces`), `map_back_patch` returns
    that leaf and the patch in the leaf's coordinates; the range has the same length and covers
    exactly the identical characters: `leaf[start:end] = old_text` (unchanged), `new_text` unchanged. -/
theorem tree_mapback_exact (b : Builder) (p : Patch) (s : Str) (v : Nat) (q : Patch) (T : Str)
    (h : Traces b p s v q) (hT : getText b = .ok T) (hold : slice T p.start p.end_ = p.oldText) :
    buildAndMapBack b p = .ok (some (s, v, q)) ∧ Leaf b s v ∧
    q.oldText = p.oldText ∧ q.newText = p.newText ∧
    q.end_ - q.start = p.end_ - p.start ∧ slice s q.start q.end_ = p.oldText := by
  obtain ⟨g1, g2, g3, g4, g5⟩ := mapBack_traces h T hT hold
  refine ⟨by unfold buildAndMapBack; rw [hT]; exact g1, (mapBack_sound b p s v q g1).1, g2, g3, g4, g5⟩

/-- **C37 (builder_tree_mapback, soundness for every patch).**  Whatever patch is mapped back through
    whatever tree (also one touching replacement text): a returned triple names a `Text` leaf of the
    tree, the returned `old_text` is that leaf's text at the returned range, `new_text` is kept. -/
theorem tree_mapback_sound (b : Builder) (p : Patch) (s : Str) (v : Nat) (q : Patch)
    (h : mapBack b p = .ok (some (s, v, q))) :
    Leaf b s v ∧ slice s q.start q.end_ = q.oldText ∧ q.newText = p.newText :=
  mapBack_sound b p s v q h

/-- **C37 (no internal failure).**  On a constructed tree a patch fitting the produced text never
    trips `Text.map_back_patch`'s assert and never indexes outside an offset table. -/
theorem tree_mapback_never_asserts (b : Builder) (p : Patch) (T : Str) (hT : getText b = .ok T)
    (hold : slice T p.start p.end_ = p.oldText) :
    mapBack b p ≠ .error .assertionError ∧ mapBack b p ≠ .error .indexError :=
  mapBack_safe b p T hT hold

/-- **C37 (tree level: spanning two parts of a Combiner is refused).** -/
theorem tree_spanning_refused (bpre bpost : List Builder) (tpre tpost : List Str) (p : Patch)
    (h1 : getTexts bpre = .ok tpre) (h2 : getTexts bpost = .ok tpost) (hne : bpost ≠ [])
    (hs : p.start < (joinStrs tpre).length) (he : ((joinStrs tpre).length : Int) < p.end_) :
    mapBack (.combiner (bpre ++ bpost)) p = .error .valueError := by
  have hts : getTexts (bpre ++ bpost) = .ok (tpre ++ tpost) := by
    clear hs he
    induction bpre generalizing tpre with
    | nil => simp only [getTexts, Except.ok.injEq] at h1; subst h1; simpa using h2
    | cons x xs ih =>
      obtain ⟨t, ts', ht, hts', rfl⟩ := getTexts_cons_ok x xs tpre h1
      have := ih ts' hts'
      simp only [List.cons_append]
      rw [getTexts, ht, this]
  have hne' : tpost ≠ [] := by
    intro hnil
    subst hnil
    cases bpost with
    | nil => exact hne rfl
    | cons y ys => obtain ⟨_, _, _, _, hh⟩ := getTexts_cons_ok y ys [] h2; cases hh
  rw [mapBack]
  simp only [hts, combiner_spanning_refused tpre tpost p hne' hs he]

/-- **C37 (map_back_offset).**  Through a chain of Replacers, a position of the produced text that
    lies at every level in a copied segment (`OffTraces`) is mapped by `Replacer.map_back_offset`
    to the corresponding position of the chain's input. -/
theorem map_back_offset_exact (b : Builder) (X x : Int) (h : OffTraces b X x) :
    mapBackOffset b X = .ok x :=
  mapBackOffset_traces h

/-! ### Non-vacuity: concrete inputs satisfying the hypotheses -/

-- two insertions at one point, a deletion and a replacement: NonOverlapping, and the sorted order
example : NonOverlapping ['a', 'b', 'c', 'd', 'e']
    [⟨3, 4, ['d'], ['X', 'Y']⟩, ⟨1, 1, [], ['Q']⟩, ⟨1, 3, ['b', 'c'], []⟩, ⟨1, 1, [], ['P']⟩] := by
  refine ⟨?_, by decide⟩
  intro p hp
  simp only [List.mem_cons, List.mem_nil_iff, or_false] at hp
  rcases hp with rfl | rfl | rfl | rfl <;> (unfold Patch.Fits; decide)

-- applyPatches on that set (already sorted): 'a' + 'P' + 'Q' + '' + 'XY' + 'e'
example : applyPatches ['a', 'b', 'c', 'd', 'e']
    [⟨1, 1, [], ['P']⟩, ⟨1, 1, [], ['Q']⟩, ⟨1, 3, ['b', 'c'], []⟩, ⟨3, 4, ['d'], ['X', 'Y']⟩]
    = ['a', 'P', 'Q', 'X', 'Y', 'e'] := by decide

-- the Replacer loop on it: tables and text (module docstring style example)
example : tablesOf ['a', 'b', 'c', 'd', 'e']
    [⟨1, 1, [], ['P']⟩, ⟨1, 1, [], ['Q']⟩, ⟨1, 3, ['b', 'c'], []⟩, ⟨3, 4, ['d'], ['X', 'Y']⟩]
    = ⟨[0, 1, 1, 3, 4], [0, 2, 3, 3, 5], ['a', 'P', 'Q', 'X', 'Y', 'e']⟩ := by decide

-- copied segment 'e' (after all four patches, shift = +1): output position 5 ↦ input 4, 6 ↦ 5
example : getInputPos ⟨[0, 1, 1, 3, 4], [0, 2, 3, 3, 5], ['a', 'P', 'Q', 'X', 'Y', 'e']⟩ 5 = .ok 4 := by decide
example : shift [⟨1, 1, [], ['P']⟩, ⟨1, 1, [], ['Q']⟩, ⟨1, 3, ['b', 'c'], []⟩, ⟨3, 4, ['d'], ['X', 'Y']⟩] = 1 := by decide

-- Combiner ['ab', 'cd', '', 'ef']: inside 'cd' accepted and shifted, spanning 'cd'/'ef' refused,
-- insertion at a part boundary refused, at position 0 refused
example : combLocate [['a', 'b'], ['c', 'd'], [], ['e', 'f']] ⟨3, 4, ['d'], ['N']⟩
    = .ok (1, ⟨1, 2, ['d'], ['N']⟩) := by decide
example : combLocate [['a', 'b'], ['c', 'd'], [], ['e', 'f']] ⟨3, 5, ['d', 'e'], ['N']⟩
    = .error .valueError := by decide
example : combLocate [['a', 'b'], ['c', 'd'], [], ['e', 'f']] ⟨2, 2, [], ['N']⟩ = .error .valueError := by decide
example : combLocate [['a', 'b'], ['c', 'd'], [], ['e', 'f']] ⟨0, 0, [], ['N']⟩ = .error .valueError := by decide

-- a two-level tree: Combiner(['ab', Replacer(Text('cdef'), [(1,2,'d'→'XYZ')])]); the patch (6,7,'f')
-- of 'abcXYZef' traces to (3,4) of the leaf 'cdef'
example : Traces
    (.combiner ([.raw ['a', 'b'] false] ++ .replacer (.text ['c', 'd', 'e', 'f'] 7) [⟨1, 2, ['d'], ['X', 'Y', 'Z']⟩] :: []))
    ⟨7, 8, ['f'], ['N']⟩ ['c', 'd', 'e', 'f'] 7 ⟨3, 4, ['f'], ['N']⟩ := by
  refine Traces.combiner [.raw ['a', 'b'] false] _ [] [['a', 'b']] ['c', 'X', 'Y', 'Z', 'e', 'f'] _ _ _ _
    (by rfl) ?_ (by decide) (by decide) (by decide) (by decide) ?_
  · rw [getText]
    case x_2 => intro s b hh; cases hh
    simp only [getText]
    rw [replacerBuild_ok _ _ (by intro p hp; simp only [List.mem_singleton] at hp; subst hp; decide)]
    simp only [sortPatches, List.mergeSort_singleton]
    decide
  · refine Traces.replacer _ _ ['c', 'd', 'e', 'f'] [⟨1, 2, ['d'], ['X', 'Y', 'Z']⟩] [] 3 4 _ _ _ _
      rfl ?_ (by simp [sortPatches]) (by simp [Ordered]) (by decide) (by decide) (by simp) (by decide)
      (by simp) (by decide) (by decide) (Traces.text _ _ _)
    intro p hp
    simp only [List.mem_singleton] at hp
    subst hp
    unfold Patch.Fits
    decide

-- a chain of two Replacers over 'abcd': inner deletes 'b', outer inserts 'XY' at 0; the position 4
-- (of 'd') of 'XYacd' traces to 2+... : outer shift +2, inner shift -1  ⇒ 4 ↦ 2 ↦ 3
example : OffTraces
    (.replacer (.replacer (.text ['a', 'b', 'c', 'd'] 1) [⟨1, 2, ['b'], []⟩]) [⟨0, 0, [], ['X', 'Y']⟩]) (2 + 2) 3 := by
  have hin : getText (.replacer (.text ['a', 'b', 'c', 'd'] 1) [⟨1, 2, ['b'], []⟩]) = .ok ['a', 'c', 'd'] := by
    simp only [getText]
    rw [replacerBuild_ok _ _ (by intro p hp; simp only [List.mem_singleton] at hp; subst hp; decide)]
    simp only [sortPatches, List.mergeSort_singleton]
    decide
  refine OffTraces.step _ _ _ ['a', 'c', 'd'] [⟨0, 0, [], ['X', 'Y']⟩] [] 2 3 hin ?_ (by simp [sortPatches])
    (by simp [Ordered]) (by decide) (by simp) (by simp) ?_
  · intro p hp
    simp only [List.mem_singleton] at hp
    subst hp
    unfold Patch.Fits
    decide
  · have : OffTraces (.replacer (.text ['a', 'b', 'c', 'd'] 1) [⟨1, 2, ['b'], []⟩]) (3 + shift [⟨1, 2, ['b'], []⟩]) 3 := by
      refine OffTraces.last _ _ ['a', 'b', 'c', 'd'] [⟨1, 2, ['b'], []⟩] [] 3 (by intro i p h; cases h) rfl ?_
        (by simp [sortPatches]) (by simp [Ordered]) (by decide) (by simp) (by simp)
      intro p hp
      simp only [List.mem_singleton] at hp
      subst hp
      unfold Patch.Fits
      decide
    exact this

end Grist.Textbuilder
