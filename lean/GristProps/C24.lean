/-
C24  Everything sent to Node is marshal-safe and round-trips.
Property theorems about GristModel/PyVal.lean: `encode` (objtypes.encode_object), `decode`
(objtypes.decode_object), `MarshalSafe` (what marshal.dumps(x, 2) and app/common/marshal.ts accept).

  encode_marshal_safe_partial   every value without a str-SUBCLASS dict key encodes marshal-safe
  encode_marshal_safe_false     the full statement is false: `{S('k'): 1}` (S a subclass of str)
  encode_decode_encode          encode (decode (encode v)) = encode v for every value whose dates
                                are real dates and whose encodable datetimes decode again
  encode_decode_encode_false    without that hypothesis the statement is false (datetime.max)
-/
import GristModel.PyVal
namespace Grist.PyVal

/-! ### Hypotheses -/

mutual
/-- `Clean v`: no dict inside `v` that the encoder accepts (all keys are `str`) has a key that is an
    instance of a proper SUBCLASS of str; and the already-marshalled payloads carried by objects
    that only `decode_object` creates (RecordStub, RecordSetStub, UnmarshallableValue, the
    name/message/details of a RaisedException) are themselves marshal-safe. -/
def Clean : PyVal → Bool
  | .list _ xs => CleanL xs
  | .tuple _ xs => CleanL xs
  | .dict _ ks vs =>
    (match allStrKeys ks with
     | some keys => keys.all (fun k => !k.2) && CleanL vs
     | none => true)
  | .raised _ n m d ui => MarshalSafe n && MarshalSafe m && MarshalSafe d && CleanL ui
  | .recordStub _ t r => MarshalSafe t && MarshalSafe r
  | .recordSetStub _ t r => MarshalSafe t && MarshalSafe r
  | .unmarshallable _ r => MarshalSafe r
  | _ => true
def CleanL : List PyVal → Bool
  | [] => true
  | x :: xs => Clean x && CleanL xs
end

mutual
/-- `Decodable P v`: every `datetime.date` inside `v` lies in date.min..date.max, and every
    datetime that the encoder can encode (`dt_to_ts` and the zone name exist) is decoded by
    `moment.ts_to_dt(ts, Zone(name))` to a datetime with the same stamp and zone name. -/
def Decodable (P : Prim) : PyVal → Prop
  | .list _ xs => DecodableL P xs
  | .tuple _ xs => DecodableL P xs
  | .dict _ _ vs => DecodableL P vs
  | .raised _ _ _ _ ui => DecodableL P ui
  | .date _ d _ => minDays ≤ d ∧ d ≤ maxDays
  | .datetime _ _ _ (some ts) (some z) =>
      ∃ m ld zts, P.tsToDt (.float ts) (.str z) = .ok (.datetime m ld zts (some ts) (some z))
  | _ => True
def DecodableL (P : Prim) : List PyVal → Prop
  | [] => True
  | x :: xs => Decodable P x ∧ DecodableL P xs
end

/-- The parameter `dateNode d` really is the date `d` days after the epoch. -/
def DateNodeOK (P : Prim) : Prop := ∀ d, ∃ m z, P.dateNode d = .date m d z

/-! ### helper lemmas -/

theorem safe_rows_int (rows : List Int) : MarshalSafeL (rows.map Enc.int) = true := by
  induction rows with
  | nil => simp [MarshalSafeL]
  | cons r rs ih => simp [MarshalSafeL, MarshalSafe, ih]

theorem safe_rows_enc (rows : List Int) :
    MarshalSafeL (rows.map (fun r => if isShort r then Enc.int r else .list [.str ['U'], .str (decInt r)])) = true := by
  induction rows with
  | nil => simp [MarshalSafeL]
  | cons r rs ih =>
    simp only [List.map_cons, MarshalSafeL, ih, Bool.and_true]
    split <;> simp [MarshalSafe, MarshalSafeL]

theorem safe_encodeArgs (n m d : Enc) (u : Option Enc) (hn : MarshalSafe n = true)
    (hm : MarshalSafe m = true) (hd : MarshalSafe d = true) (hu : ∀ x, u = some x → MarshalSafe x = true) :
    MarshalSafeL (encodeArgs n m d u) = true := by
  unfold encodeArgs
  cases u with
  | some x => simp [MarshalSafeL, MarshalSafe, hn, hm, hd, hu x rfl]
  | none =>
    cases d <;> cases m <;> simp_all [MarshalSafeL, MarshalSafe]

/-! ### C24 (marshal safety) -/

mutual
/-- **C24 (safe), strongest true form.**  For every value in which no encodable dict has a
    str-subclass key, the encoded form is accepted by the marshal transport. -/
theorem encode_marshal_safe_partial (P : Prim) : ∀ v : PyVal, Clean v = true → MarshalSafe (encode P v) = true
  | .none, _ => by simp [encode, MarshalSafe]
  | .bool _, _ => by simp [encode, MarshalSafe]
  | .int n _, _ => by
    simp only [encode]; split <;> simp [MarshalSafe, MarshalSafeL]
  | .float _ _, _ => by simp [encode, MarshalSafe]
  | .str _ _, _ => by simp [encode, MarshalSafe]
  | .bytes _ _ u _, _ => by
    cases u <;> simp [encode, MarshalSafe, MarshalSafeL]
  | .list _ xs, h => by
    simp only [Clean] at h
    simp [encode, MarshalSafe, MarshalSafeL, encodeL_marshal_safe P xs h]
  | .tuple _ xs, h => by
    simp only [Clean] at h
    simp [encode, MarshalSafe, MarshalSafeL, encodeL_marshal_safe P xs h]
  | .dict _ ks vs, h => by
    simp only [Clean] at h
    simp only [encode]
    cases hk : allStrKeys ks with
    | none => simp [MarshalSafe, MarshalSafeL]
    | some keys =>
      rw [hk] at h
      simp only [Bool.and_eq_true] at h
      simp [MarshalSafe, MarshalSafeL, h.1, encodeL_marshal_safe P vs h.2]
  | .set _ _, _ => by simp [encode, MarshalSafe, MarshalSafeL]
  | .date _ _ _, _ => by simp [encode, MarshalSafe, MarshalSafeL]
  | .datetime _ _ _ ets z, _ => by
    cases ets <;> cases z <;> simp [encode, MarshalSafe, MarshalSafeL]
  | .record _ _, _ => by simp [encode, MarshalSafe, MarshalSafeL]
  | .recordSet _ rows tup _ _ _, _ => by
    cases tup <;> simp [encode, MarshalSafe, MarshalSafeL, safe_rows_int]
  | .recordList rows _ _, _ => by
    simp [encode, MarshalSafe, MarshalSafeL, safe_rows_enc]
  | .altText _, _ => by simp [encode, MarshalSafe]
  | .raised _ n m d ui, h => by
    simp only [Clean, Bool.and_eq_true] at h
    obtain ⟨⟨⟨hn, hm⟩, hd⟩, hui⟩ := h
    simp only [encode, MarshalSafe, MarshalSafeL, Bool.true_and]
    apply safe_encodeArgs _ _ _ _ hn hm hd
    intro x hx
    cases ui with
    | nil => simp [encodeUi] at hx
    | cons y ys =>
      simp only [encodeUi, Option.some.injEq] at hx
      simp only [CleanL, Bool.and_eq_true] at hui
      rw [← hx]; exact encode_marshal_safe_partial P y hui.1
  | .recordStub _ t r, h => by
    simp only [Clean, Bool.and_eq_true] at h
    simp [encode, MarshalSafe, MarshalSafeL, h.1, h.2]
  | .recordSetStub _ t r, h => by
    simp only [Clean, Bool.and_eq_true] at h
    simp [encode, MarshalSafe, MarshalSafeL, h.1, h.2]
  | .unmarshallable _ r, h => by
    simp only [Clean] at h
    simp [encode, MarshalSafe, MarshalSafeL, h]
  | .pending _, _ => by simp [encode, MarshalSafe, MarshalSafeL]
  | .censored _, _ => by simp [encode, MarshalSafe, MarshalSafeL]
  | .opaque _ _, _ => by simp [encode, MarshalSafe, MarshalSafeL]
theorem encodeL_marshal_safe (P : Prim) : ∀ xs : List PyVal, CleanL xs = true → MarshalSafeL (encodeL P xs) = true
  | [], _ => by simp [encodeL, MarshalSafeL]
  | x :: xs, h => by
    simp only [CleanL, Bool.and_eq_true] at h
    simp [encodeL, MarshalSafeL, encode_marshal_safe_partial P x h.1, encodeL_marshal_safe P xs h.2]
end

def metaX : Meta := { str := none, repr := none, tname := [] }

/-- a non-trivial value satisfying the hypothesis: `[{"k": (1, 2**40)}, b'\xff', {1: S('x')}]` -/
example : Clean (.list metaX [.dict metaX [.str ['k'] false] [.tuple metaX [.int 1 false, .int 1099511627776 false]],
                              .bytes metaX [255] none none,
                              .dict metaX [.int 1 false] [.str ['x'] true]]) = true := by decide

-- FULL STATEMENT (unproved, false of the code as it is):
--   theorem encode_marshal_safe (P : Prim) (v : PyVal) : MarshalSafe (encode P v) = true
/-- **The full statement is false**: `{S('k'): 1}` with `S` a subclass of `str` is encoded as
    `['O', {S('k'): 1}]` — the key is checked with isinstance but not cast — and marshal rejects it.
    (Replayed on the real code by harness/gx/props/c24.py.) -/
theorem encode_marshal_safe_false :
    ¬ (∀ (P : Prim) (v : PyVal), MarshalSafe (encode P v) = true) := by
  intro h
  have h1 := h ⟨fun _ => none, fun _ => none, fun _ => [], fun _ => [], fun _ => none, fun _ => none,
    fun _ => none, fun _ => none, fun _ _ => .error [], fun _ => .error [], fun _ => .none,
    fun _ => .error [], fun _ => metaX, fun _ => metaX, fun _ _ => metaX, fun _ _ => metaX,
    fun _ _ _ _ => metaX⟩ (.dict metaX [.str ['k'] true] [.int 1 false])
  revert h1
  decide

/-! ### C24 (round trip) -/

theorem allStrKeys_map (keys : List (Str × Bool)) :
    allStrKeys (keys.map (fun k => PyVal.str k.1 k.2)) = some keys := by
  induction keys with
  | nil => simp [allStrKeys]
  | cons k ks ih => simp [allStrKeys, ih]

theorem rows_roundtrip (P : Prim) (rows : List Int) :
    encodeL P (decodeL P (rows.map (fun r => if isShort r then Enc.int r else .list [.str ['U'], .str (decInt r)])))
      = rows.map (fun r => if isShort r then Enc.int r else .list [.str ['U'], .str (decInt r)]) := by
  induction rows with
  | nil => simp [decodeL, encodeL]
  | cons r rs ih =>
    simp only [List.map_cons, decodeL, encodeL, ih]
    congr 1
    by_cases h : isShort r = true
    · simp [h, decode, encode]
    · have h' : isShort r = false := by simpa using h
      simp [h', decode, decodeTagged, encode]

theorem encodeArgs_roundtrip (P : Prim) (n m d : Enc) :
    encode P (decodeArgs P (encodeArgs n m d none)) = .list (.str ['E'] :: encodeArgs n m d none) := by
  unfold encodeArgs
  cases d <;> cases m <;> simp [decodeArgs, encode, encodeArgs, encodeUi]

mutual
/-- **C24 (round trip).**  Decoding the encoded form yields a value that encodes to the same form,
    for every finite value whose dates are in range and whose encodable datetimes decode. -/
theorem encode_decode_encode (P : Prim) (hP : DateNodeOK P) :
    ∀ v : PyVal, Decodable P v → encode P (decode P (encode P v)) = encode P v
  | .none, _ => by simp [encode, decode]
  | .bool _, _ => by simp [encode, decode]
  | .int n _, _ => by
    by_cases h : isShort n = true
    · simp [encode, h, decode]
    · have h' : isShort n = false := by simpa using h
      simp [encode, h', decode, decodeTagged]
  | .float _ _, _ => by simp [encode, decode]
  | .str _ _, _ => by simp [encode, decode]
  | .bytes _ _ u _, _ => by
    cases u <;> simp [encode, decode, decodeTagged]
  | .list _ xs, h => by
    simp only [Decodable] at h
    simp [encode, decode, decodeTagged, encodeL_decodeL_encodeL P hP xs h]
  | .tuple _ xs, h => by
    simp only [Decodable] at h
    simp [encode, decode, decodeTagged, encodeL_decodeL_encodeL P hP xs h]
  | .dict _ ks vs, h => by
    simp only [Decodable] at h
    cases hk : allStrKeys ks with
    | none => simp [encode, hk, decode, decodeTagged]
    | some keys =>
      simp [encode, hk, decode, decodeTagged, allStrKeys_map, encodeL_decodeL_encodeL P hP vs h]
  | .set _ _, _ => by simp [encode, decode, decodeTagged]
  | .date _ d _, h => by
    simp only [Decodable] at h
    obtain ⟨m, z, hd⟩ := hP d
    have hdiv : d * 86400 / 86400 = d := Int.mul_ediv_cancel d (by decide)
    simp [encode, decode, decodeTagged, tsToDate, daysOfSeconds, hdiv, h.1, h.2, hd]
  | .datetime _ _ _ ets z, h => by
    cases ets with
    | none => cases z <;> simp [encode, decode, decodeTagged]
    | some ts =>
      cases z with
      | none => simp [encode, decode, decodeTagged]
      | some zn =>
        simp only [Decodable] at h
        obtain ⟨m, ld, zts, hd⟩ := h
        simp [encode, decode, decodeTagged, hd]
  | .record _ _, _ => by simp [encode, decode, decodeTagged]
  | .recordSet _ _ tup _ _ _, _ => by
    cases tup <;> simp [encode, decode, decodeTagged]
  | .recordList rows _ _, _ => by
    simp [encode, decode, decodeTagged, rows_roundtrip]
  | .altText _, _ => by simp [encode, decode]
  | .raised _ n m d ui, h => by
    simp only [Decodable] at h
    cases ui with
    | nil =>
      simp only [encode, encodeUi, decode, decodeTagged]
      exact encodeArgs_roundtrip P n m d
    | cons x xs =>
      simp only [DecodableL] at h
      have ih := encode_decode_encode P hP x h.1
      simp [encode, encodeUi, encodeArgs, decode, decodeTagged, decodeArgs, decodeU, ih]
  | .recordStub _ _ _, _ => by simp [encode, decode, decodeTagged]
  | .recordSetStub _ _ _, _ => by simp [encode, decode, decodeTagged]
  | .unmarshallable _ _, _ => by simp [encode, decode, decodeTagged]
  | .pending _, _ => by simp [encode, decode, decodeTagged]
  | .censored _, _ => by simp [encode, decode, decodeTagged]
  | .opaque _ _, _ => by simp [encode, decode, decodeTagged]
theorem encodeL_decodeL_encodeL (P : Prim) (hP : DateNodeOK P) :
    ∀ xs : List PyVal, DecodableL P xs → encodeL P (decodeL P (encodeL P xs)) = encodeL P xs
  | [], _ => by simp [encodeL, decodeL]
  | x :: xs, h => by
    simp only [DecodableL] at h
    simp [encodeL, decodeL, encode_decode_encode P hP x h.1, encodeL_decodeL_encodeL P hP xs h.2]
end

/-- the hypotheses are satisfiable by a non-trivial value: a list holding a date, a datetime that
    cannot be encoded, a big int and an error with user input -/
example (P : Prim) : Decodable P (.list metaX [.date metaX 18262 (.int 0), .datetime metaX 0 none none none,
    .int 1099511627776 false, .raised metaX (.str ['E']) .none .none [.dict metaX [.int 1 false] [.none]]]) := by
  simp [Decodable, DecodableL, minDays, maxDays]

/-- parameters satisfying `DateNodeOK` -/
def PEx : Prim := ⟨fun _ => none, fun _ => none, fun _ => [], fun _ => [], fun _ => none, fun _ => none,
    fun _ => none, fun _ => none, fun _ _ => .error [], fun _ => .error [], fun d => .date metaX d (.int 0),
    fun _ => .error [], fun _ => metaX, fun _ => metaX, fun _ _ => metaX, fun _ _ => metaX,
    fun _ _ _ _ => metaX⟩

example : DateNodeOK PEx := fun _ => ⟨metaX, .int 0, rfl⟩

/-- a complete instance: `[date(2020,1,1), 2**40, {"k": (None, b'\xff')}]` round-trips -/
example : encode PEx (decode PEx (encode PEx (.list metaX [.date metaX 18262 (.int 0), .int 1099511627776 false,
      .dict metaX [.str ['k'] false] [.tuple metaX [.none, .bytes metaX [255] none none]]]))) =
    encode PEx (.list metaX [.date metaX 18262 (.int 0), .int 1099511627776 false,
      .dict metaX [.str ['k'] false] [.tuple metaX [.none, .bytes metaX [255] none none]]]) := by
  apply encode_decode_encode PEx (fun d => ⟨metaX, .int 0, rfl⟩)
  simp [Decodable, DecodableL, minDays, maxDays]

-- FULL STATEMENT (unproved, false of the code as it is):
--   theorem encode_decode_encode_full (P : Prim) (v : PyVal) : encode P (decode P (encode P v)) = encode P v
/-- **Without `Decodable` the statement is false**: a datetime whose stamp `ts_to_dt` rejects
    (real instance: `datetime(9999,12,31,23,59,59,999999)`, whose float stamp 253402300800.0 is
    already in year 10000; `ts_to_dt` raises OverflowError) re-encodes as `['E', 'OverflowError']`.
    (Replayed on the real code by harness/gx/props/c24.py.) -/
theorem encode_decode_encode_false :
    ¬ (∀ (P : Prim) (v : PyVal), encode P (decode P (encode P v)) = encode P v) := by
  intro h
  have h1 := h ⟨fun _ => none, fun _ => none, fun _ => [], fun _ => [], fun _ => none, fun _ => none,
    fun _ => none, fun _ => none, fun _ _ => .error "OverflowError".toList, fun _ => .error [], fun _ => .none,
    fun _ => .error [], fun _ => metaX, fun _ => metaX, fun _ _ => metaX, fun _ _ => metaX,
    fun _ _ _ _ => metaX⟩ (.datetime metaX 2932896 none (some (.int 253402300800)) (some ['U','T','C']))
  simp [encode, decode, decodeTagged, failedS, encodeArgs, encodeUi] at h1

end Grist.PyVal
