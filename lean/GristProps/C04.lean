import GristModel.DocSpec
namespace Grist.Doc
theorem placeholder_C04 : True := trivial
end Grist.Doc
