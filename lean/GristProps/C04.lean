/-
C04  Failed bundles leave no trace.

`Engine._undo_to_checkpoint` (model: `rollback`) replays the undo actions recorded since the
checkpoint, in reverse, as doc steps, then truncates `stored` / `direct` / `undo` to the checkpoint
lengths.  Theorems of this file (names live in `Grist.Doc.C04` because `GristProps.C01` already
has `Grist.Doc.rollback_restores`):

  C04.rollback_restores                    the document comes back (up to `Same`), lists exactly
  C04.rollback_restores_after_failed_step  same when the bundle ends with a doc step that fails
  C04.rollback_lists_exact                 the list bookkeeping alone, for ANY state

Hypotheses `Normal`, `colsDistinct`, `undoExactRun`: see GristProps/C01.lean (counterexamples there).
-/
import GristProps.C01
import GristProofs.DocRedo
namespace Grist.Doc.C04

theorem rollback_restores {st st' : EState} {steps : List (DocAction × Bool)}
    (hwf : WF st.doc) (hn : Normal st.doc) (hlen : st.stored.length = st.direct.length)
    (hargs : ∀ ab ∈ steps, ab.1.rowsPositive ∧ ab.1.colsDistinct)
    (hex : undoExactRun st.doc (steps.map (·.1)))
    (h : stepDocs st steps = .ok st') :
    ∃ st'', rollback st' st.stored.length st.undo.length = .ok st'' ∧ Same st''.doc st.doc ∧
      st''.stored = st.stored ∧ st''.direct = st.direct ∧ st''.undo = st.undo :=
  rollback_restores_full hwf hn hlen hargs hex h

/-- A later action fails after earlier ones succeeded: in the model a failing `stepDoc` returns
    `.error` and leaves the state `st'` reached by the successful prefix as it was (nothing is
    appended), so the rollback from `st'` restores the checkpoint state. -/
theorem rollback_restores_after_failed_step {st st' : EState} {steps : List (DocAction × Bool)}
    {a : DocAction} {b : Bool} {e : String}
    (hwf : WF st.doc) (hn : Normal st.doc) (hlen : st.stored.length = st.direct.length)
    (hargs : ∀ ab ∈ steps, ab.1.rowsPositive ∧ ab.1.colsDistinct)
    (hex : undoExactRun st.doc (steps.map (·.1)))
    (h : stepDocs st steps = .ok st') (_hfail : stepDoc st' a b = .error e) :
    stepDocs st (steps ++ [(a, b)]) = .error e ∧
    ∃ st'', rollback st' st.stored.length st.undo.length = .ok st'' ∧ Same st''.doc st.doc ∧
      st''.stored = st.stored ∧ st''.direct = st.direct ∧ st''.undo = st.undo := by
  refine ⟨?_, rollback_restores_full hwf hn hlen hargs hex h⟩
  simp only [stepDocs, List.foldlM_append, List.foldlM_cons, List.foldlM_nil] at h ⊢
  rw [h]
  simp only [bind, Except.bind, _hfail]

/-- The list bookkeeping of a rollback, for any state (no well-formedness needed): whatever the
    replay appended is cut off again. -/
theorem rollback_lists_exact {st st'' : EState} {ls lu : Nat}
    (h : rollback st ls lu = .ok st'') (h1 : ls ≤ st.stored.length) (h2 : ls ≤ st.direct.length)
    (h3 : lu ≤ st.undo.length) :
    st''.stored = st.stored.take ls ∧ st''.direct = st.direct.take ls ∧
      st''.undo = st.undo.take lu :=
  rollback_lists_exact_full h h1 h2 h3

/-! ### non-vacuity: the example document of C01, six successful steps, then a failing one -/

example : ∃ st' e st'', stepDocs { doc := exDoc } (exActs.map (·, true)) = .ok st' ∧
    stepDoc st' (.addColumn "T" "C" exInfo) true = .error e ∧
    rollback st' 0 0 = .ok st'' ∧ Same st''.doc exDoc ∧ st''.stored = [] ∧ st''.direct = [] ∧
    st''.undo = [] ∧
    st''.stored = st'.stored.take 0 := by
  have h : stepDocs { doc := exDoc } (exActs.map (·, true)) = .ok _ := rfl
  have hargs : ∀ ab ∈ exActs.map (·, true), ab.1.rowsPositive ∧ ab.1.colsDistinct := by
    intro ab hab
    obtain ⟨a, ha, rfl⟩ := List.mem_map.1 hab
    exact exActs_args a ha
  have hex : undoExactRun exDoc ((exActs.map (·, true)).map (·.1)) := by
    apply undoExactRun_of_safe
    intro a ha
    simp only [List.map_map, List.mem_map, Function.comp_apply] at ha
    obtain ⟨b, hb, rfl⟩ := ha
    exact exActs_safe b hb
  have hfail : stepDoc _ (.addColumn "T" "C" exInfo) true = .error "AssertionError" :=
    (rfl : stepDoc (match stepDocs { doc := exDoc } (exActs.map (·, true)) with
      | .ok s => s | .error _ => { doc := [] }) (.addColumn "T" "C" exInfo) true = _)
  obtain ⟨_, st'', h1, h2, h3, h4, h5⟩ :=
    rollback_restores_after_failed_step (st := { doc := exDoc }) exDoc_WF exDoc_Normal rfl hargs hex
      h hfail
  have hl := rollback_lists_exact h1 (Nat.zero_le _) (Nat.zero_le _) (Nat.zero_le _)
  exact ⟨_, _, st'', h, hfail, h1, h2, h3, h4, h5, hl.1⟩

end Grist.Doc.C04
