/-
C30  Outputs are deterministic across processes: Python dict/set iteration order must not influence
replies.  For the calc flush of the data engine (`flushAll` = `ActionSummary.convert_deltas_to_actions`,
`Summary.changesToActions` = `_changes_to_actions`, `stepFinish` = `ActionGroup.flush_calc_changes`):
the emitted stored / undo actions do not depend on the insertion order of any dict of the action
summary (the association lists of the model).  Helper lemmas: GristProofs/FlushOrder.lean.

  `Summary.KeysNodup s`   every association list of `s` has distinct keys (it stands for a dict)
  `Summary.Equiv s s'`    `tableRenames` permuted; `tables` permuted, and per table `presentBefore`,
                          `presentAfter`, `colRenames` permuted, `colDeltas` permuted with every
                          column's row-delta list permuted
-/
import GristProofs.FlushOrder
namespace Grist.Doc

/-- `_changes_to_actions` does not depend on the order of the summary's dicts nor of the row dict -/
theorem changesToActions_order_invariant {s s' : Summary} (hn : s.KeysNodup) (h : s.Equiv s')
    (tk ck : String) {delta delta' : List (Nat × Val × Val)} (hd : delta.Perm delta')
    (hdn : (delta.map (·.1)).Nodup) :
    s.changesToActions tk ck delta = s'.changesToActions tk ck delta' :=
  changesToActions_perm_invariant h hn tk ck hd hdn

/-- the flush does not depend on the order of any dict of the summary
    (distinct keys are needed on one side only; the other side inherits them) -/
theorem flushAll_perm_invariant' {s s' : Summary} (hn : s.KeysNodup) (h : s.Equiv s')
    (stored undo : List DocAction) : flushAll s stored undo = flushAll s' stored undo :=
  flushAll_perm_invariant hn h stored undo

/-- `flush_calc_changes`: the whole resulting engine state is the same -/
theorem stepFinish_perm_invariant {st : EState} {s' : Summary} (hn : st.summary.KeysNodup)
    (h : st.summary.Equiv s') : stepFinish st = stepFinish { st with summary := s' } := by
  simp only [stepFinish, flushAll_perm_invariant hn h]

/-! ### non-vacuity: the same summary built in two different insertion orders -/

def c30A : TableDelta :=
  { presentBefore := [(7, true), (8, false)], presentAfter := [(7, false), (8, true)],
    colRenames := [("x", some "x0"), ("y", none)],
    colDeltas := [("x", [(1, .int 1, .int 2), (2, .int 0, .int 0)]),
                  ("y", [(3, .null, .null), (2, .str "p", .str "q")])] }
def c30A' : TableDelta :=
  { presentBefore := [(8, false), (7, true)], presentAfter := [(8, true), (7, false)],
    colRenames := [("y", none), ("x", some "x0")],
    colDeltas := [("y", [(2, .str "p", .str "q"), (3, .null, .null)]),
                  ("x", [(2, .int 0, .int 0), (1, .int 1, .int 2)])] }
def c30B : TableDelta := { colDeltas := [("z", [(4, .int 0, .int 1)])] }

def c30S : Summary :=
  { tables := [("T", c30A), ("U", c30B)], tableRenames := [("T", some "T0"), ("V", none)] }
def c30S' : Summary :=
  { tables := [("U", c30B), ("T", c30A')], tableRenames := [("V", none), ("T", some "T0")] }

theorem c30S_keys : c30S.KeysNodup := by
  refine ⟨by decide, by decide, ?_⟩
  intro t ht
  simp only [c30S, List.mem_cons, List.not_mem_nil, or_false] at ht
  rcases ht with rfl | rfl
  · exact ⟨by decide, by decide, by decide, by decide, by decide⟩
  · exact ⟨by decide, by decide, by decide, by decide, by decide⟩

theorem c30A_equiv : c30A.Equiv c30A' := by
  refine ⟨by decide, by decide, by decide, ?_⟩
  refine ⟨[("y", [(3, .null, .null), (2, .str "p", .str "q")]),
           ("x", [(1, .int 1, .int 2), (2, .int 0, .int 0)])],
          List.Perm.swap _ _ _, ?_⟩
  exact .cons ⟨rfl, by decide⟩ (.cons ⟨rfl, by decide⟩ .nil)

theorem c30B_equiv : c30B.Equiv c30B :=
  ⟨.refl _, .refl _, .refl _, ⟨_, .refl _, .cons ⟨rfl, .refl _⟩ .nil⟩⟩

theorem c30S_equiv : c30S.Equiv c30S' := by
  refine ⟨by decide, [("U", c30B), ("T", c30A)], List.Perm.swap _ _ _, ?_⟩
  exact .cons ⟨rfl, c30B_equiv⟩ (.cons ⟨rfl, c30A_equiv⟩ .nil)

/-- the theorem applies … -/
example : flushAll c30S [] [] = flushAll c30S' [] [] :=
  flushAll_perm_invariant' c30S_keys c30S_equiv [] []

/-! … and indeed both orders evaluate to the same non-trivial flush.  (The kernel cannot unfold
`List.mergeSort` on lists of two or more elements, so the three key sorts are rewritten first.) -/

theorem sortTU : (["T","U"].mergeSort (fun a b => decide (a ≤ b))) = ["T","U"] := by
  simp [List.mergeSort]
theorem sortUT : (["U","T"].mergeSort (fun a b => decide (a ≤ b))) = ["T","U"] := by
  simp [List.mergeSort]
theorem sortxy : (["x","y"].mergeSort (fun a b => decide (a ≤ b))) = ["x","y"] := by
  simp [List.mergeSort]
theorem sortyx : (["y","x"].mergeSort (fun a b => decide (a ≤ b))) = ["x","y"] := by
  simp [List.mergeSort]

def c30Expected : List DocAction × List DocAction :=
  ([updateAction "T" "x" [1] [.int 2], updateAction "T" "y" [2] [.str "q"],
    updateAction "U" "z" [4] [.int 1]],
   [updateAction "T" "x" [1] [.int 1], updateAction "U" "z" [4] [.int 0]])

example : flushAll c30S [] [] = c30Expected := by
  unfold flushAll
  have k0 : c30S.tables.map (·.1) = ["T","U"] := by decide +kernel
  have k1 : (c30S.get "T").colDeltas.map (·.1) = ["x","y"] := by decide +kernel
  rw [k0, sortTU]
  simp only [List.foldl_cons, List.foldl_nil]
  rw [k1, sortxy]
  decide +kernel

example : flushAll c30S' [] [] = c30Expected := by
  unfold flushAll
  have k0 : c30S'.tables.map (·.1) = ["U","T"] := by decide +kernel
  have k1 : (c30S'.get "T").colDeltas.map (·.1) = ["y","x"] := by decide +kernel
  rw [k0, sortUT]
  simp only [List.foldl_cons, List.foldl_nil]
  rw [k1, sortyx]
  decide +kernel

end Grist.Doc
