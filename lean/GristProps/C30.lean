import GristModel.Engine
namespace Grist.Doc
theorem placeholder_C30 : True := trivial
end Grist.Doc
