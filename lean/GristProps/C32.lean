/-
C32  CSV import keeps every cell.
Property theorems.  Model: GristModel/CsvPost.lean (everything `import_csv._parse_open_file` does
after `csv.reader`; the reader's rows and `_is_numeric` are parameters).  Helper lemmas:
GristProofs/CsvPost.lean.

The grid as written = `rows` (what `csv.reader` yields for it, checked by oracle in c32.py);
`incl` = the explicit `include_col_names_as_headers`.  With headers on, row 0 is the header row and
the data rows are `rows.drop 1`; with headers off every row is a data row.
A cell is *non-empty* when it has a non-whitespace character (`blank t = false`,
`import_utils.empty`).  Empty columns may be removed, so "at its column" is: grid column `c` is the
`k`-th exported column where `k` = number of kept columns before `c`.
-/
import GristModel.CsvPost
import GristProofs.CsvPost
namespace Grist.CsvPost

/-! ### the statement -/

/-- the data rows of the grid under the explicit headers setting -/
def dataRows (incl : Bool) (rows : List Row) : List Row := if incl then rows.drop 1 else rows

/-- Every non-empty data cell `(r, c)` appears at row `r` of grid column `c`; that column is kept,
    has one entry per data row, and is exported at its place among the kept columns. -/
def CellsKept (isNum : Cell → Bool) (incl : Bool) (rows : List Row) : Prop :=
  ∀ (r c : Nat) (t : Cell), ((dataRows incl rows)[r]?.bind (·[c]?)) = some t → blank t = false →
    ∃ col, (allColumns isNum incl rows)[c]? = some col ∧ keepCol col = true ∧
      col.data[r]? = some t ∧ col.data.length = (dataRows incl rows).length ∧
      (parse isNum incl rows)[((allColumns isNum incl rows).take c).countP keepCol]? = some col

/-- Every non-empty header cell (headers on) names the kept column at its place. -/
def HeadersKept (isNum : Cell → Bool) (rows : List Row) : Prop :=
  ∀ (c : Nat) (h : Cell), (rows[0]?.bind (·[c]?)) = some h → blank h = false →
    ∃ col, (allColumns isNum true rows)[c]? = some col ∧ keepCol col = true ∧ col.id = strip h ∧
      (parse isNum true rows)[((allColumns isNum true rows).take c).countP keepCol]? = some col

/-- `max` of `_count_nonempty` over rows -/
def maxCn (rows : List Row) : Nat := (rows.map countNonempty).foldl max 0

/-- HYPOTHESIS 1: no row beyond the 100-row sample is wider (last non-empty cell) than every
    sampled row. -/
def noWideLate (rows : List Row) : Bool :=
  (rows.drop sampleLen).all (fun r => decide (countNonempty r ≤ maxCn (rows.take sampleLen)))

/-- HYPOTHESIS 2: no short preamble row precedes the first full row, i.e. the FIRST row already
    reaches the modal count of non-empty cells of the sample minus the tolerance 1; with headers off
    it must moreover have a non-empty cell (a blank first line is skipped as well). -/
def noPreamble (incl : Bool) (rows : List Row) : Bool :=
  match rows with
  | [] => true
  | r0 :: _ => decide (columnCountModal (rows.take sampleLen) ≤ countNonempty r0 + 1) &&
               (incl || decide (0 < countNonempty r0))

/-! ### what `plan` computes when the first row is not skipped -/

/-- Under HYPOTHESIS 2 the data offset is exactly the headers setting and the table is at least as
    wide as every sampled row. -/
theorem plan_of_noPreamble (isNum : Cell → Bool) (incl : Bool) (rows : List Row)
    (hpre : noPreamble incl rows = true) :
    rows.drop (plan isNum incl rows).1 = dataRows incl rows ∧
    (∀ ρ ∈ rows.take sampleLen, countNonempty ρ ≤ (plan isNum incl rows).2.length) ∧
    (incl = true → ∀ r0 S', rows.take sampleLen = r0 :: S' →
        (plan isNum incl rows).2 = expandHeaders r0 1 (r0 :: S')) := by
  cases rows with
  | nil => cases incl <;> simp [dataRows]
  | cons r0 rest =>
    have hS : (r0 :: rest).take sampleLen = r0 :: rest.take 99 := by simp [sampleLen]
    simp only [noPreamble, Bool.and_eq_true, decide_eq_true_eq, Bool.or_eq_true] at hpre
    obtain ⟨hmod, hpos⟩ := hpre
    rw [hS] at hmod
    have hf := find_first_of_le hmod
    cases incl with
    | true =>
      have hp := plan_incl isNum hf (r0 :: rest) hS
      refine ⟨by simp [hp, dataRows], ?_, ?_⟩
      · intro ρ hρ
        rw [hp, hS] at *
        simp only [expandHeaders_length]
        rcases List.mem_cons.mp hρ with rfl | hρ'
        · exact Nat.le_trans (countNonempty_le_length _) (foldl_max_ge_init _ _)
        · apply foldl_max_ge_mem
          simp only [List.drop_succ_cons, List.drop_zero, List.mem_map]
          exact ⟨ρ, hρ', rfl⟩
      · intro _ r0' S' hS'
        rw [hS] at hS'
        cases hS'
        exact congrArg Prod.snd hp
    | false =>
      have hpos' : 0 < countNonempty r0 := by simpa using hpos
      obtain ⟨W, hp, hW⟩ := plan_noincl isNum hf hpos' (r0 :: rest) hS
      refine ⟨by simp [hp, dataRows], ?_, by intro h; cases h⟩
      intro ρ hρ
      rw [hp, hS] at *
      simpa using hW ρ hρ

/-! ### THE THEOREMS -/

/-- CLAUSE "columns of equal length", unconditional: every exported column has exactly one entry
    per row the importer treats as data (`rows[data_offset:]`). -/
theorem columns_equal_length (isNum : Cell → Bool) (incl : Bool) (rows : List Row) :
    ∀ col ∈ parse isNum incl rows,
      col.data.length = (rows.drop (plan isNum incl rows).1).length := by
  intro col hm
  exact mem_allColumns isNum incl rows col (List.mem_filter.mp hm).1

example : ∀ col ∈ parse (fun _ => false) false [[['a'], ['x']], [['b'], ['c'], ['d']], []],
    col.data.length = 3 := by decide

/-- CLAUSE "one entry per data row", partial: when the first row is not skipped as preamble, every
    exported column has one entry per data row of the grid. -/
theorem one_entry_per_data_row_partial (isNum : Cell → Bool) (incl : Bool) (rows : List Row)
    (hpre : noPreamble incl rows = true) :
    ∀ col ∈ parse isNum incl rows, col.data.length = (dataRows incl rows).length := by
  intro col hm
  rw [columns_equal_length isNum incl rows col hm, (plan_of_noPreamble isNum incl rows hpre).1]

example : noPreamble true [[['i', 'd'], ['n']], [['1'], ['x']], [['2']]] = true := by decide

/-- every row of the grid fits in the table when both hypotheses hold -/
theorem width_covers_all_rows (isNum : Cell → Bool) (incl : Bool) (rows : List Row)
    (hpre : noPreamble incl rows = true) (hwide : noWideLate rows = true) :
    ∀ ρ ∈ rows, countNonempty ρ ≤ (plan isNum incl rows).2.length := by
  have hS := (plan_of_noPreamble isNum incl rows hpre).2.1
  intro ρ hρ
  rw [← List.take_append_drop sampleLen rows] at hρ
  rcases List.mem_append.mp hρ with h | h
  · exact hS ρ h
  · simp only [noWideLate, List.all_eq_true, decide_eq_true_eq] at hwide
    refine Nat.le_trans (hwide ρ h) ?_
    apply foldl_max_le _ _ _ (Nat.zero_le _)
    intro x hx
    obtain ⟨ρ', hρ', rfl⟩ := List.mem_map.mp hx
    exact hS ρ' hρ'

/-- CLAUSE "every non-empty cell's text appears at its row and column", partial:
    holds when no row beyond the sample is wider than the sample and the first row is not skipped
    as preamble. -/
theorem csv_cells_kept_partial (isNum : Cell → Bool) (incl : Bool) (rows : List Row)
    (hpre : noPreamble incl rows = true) (hwide : noWideLate rows = true) :
    CellsKept isNum incl rows := by
  intro r c t hcell ht
  obtain ⟨hdata, _, _⟩ := plan_of_noPreamble isNum incl rows hpre
  -- the row and the cell
  cases hρ : (dataRows incl rows)[r]? with
  | none => simp [hρ] at hcell
  | some ρ =>
    simp only [hρ, Option.bind_some] at hcell
    have hmemd : ρ ∈ dataRows incl rows := List.mem_of_getElem? hρ
    have hmem : ρ ∈ rows := by
      unfold dataRows at hmemd
      split at hmemd
      · exact List.mem_of_mem_drop hmemd
      · exact hmemd
    have hw := width_covers_all_rows isNum incl rows hpre hwide ρ hmem
    have hcW : c < (plan isNum incl rows).2.length := Nat.lt_of_lt_of_le (lt_countNonempty hcell ht) hw
    obtain ⟨h, hh⟩ : ∃ h, (plan isNum incl rows).2[c]? = some h :=
      ⟨_, List.getElem?_eq_getElem hcW⟩
    have hcol := allColumns_getElem? isNum incl rows c h hh
    rw [hdata] at hcol
    have hrt : ((dataRows incl rows).map
        (fun r => (tableRow (plan isNum incl rows).2.length r).getD c []))[r]? = some t := by
      simp [List.getElem?_map, hρ, tableRow_getElem? hcell hcW]
    have hkeep : keepCol ⟨h, (dataRows incl rows).map
        (fun r => (tableRow (plan isNum incl rows).2.length r).getD c [])⟩ = true := by
      have htm := List.mem_of_getElem? hrt
      have hne : t ≠ [] := blank_nil_ne ht
      simp only [keepCol, Bool.not_eq_true', Bool.and_eq_false_iff]
      right
      rw [List.all_eq_false]
      exact ⟨t, htm, by simpa using hne⟩
    exact ⟨_, hcol, hkeep, hrt, by simp, getElem?_filter_countP keepCol _ c _ hcol hkeep⟩

example : noPreamble false [[['a'], ['b']], [['c']], [[], ['d']]] = true ∧
    noWideLate [[['a'], ['b']], [['c']], [[], ['d']]] = true := by decide

set_option maxRecDepth 20000 in
/-- a grid crossing the sample boundary that satisfies both hypotheses (row 100 is narrower) -/
example : noPreamble true (List.replicate 100 [['a'], ['b']] ++ [[['c']]]) = true ∧
    noWideLate (List.replicate 100 [['a'], ['b']] ++ [[['c']]]) = true := by decide

/-- CLAUSE "columns with a header are kept", partial (headers on): every non-empty header cell of
    row 0 names (stripped) the kept column at its place. -/
theorem csv_headers_kept_partial (isNum : Cell → Bool) (rows : List Row)
    (hpre : noPreamble true rows = true) : HeadersKept isNum rows := by
  intro c h hcell hb
  cases rows with
  | nil => simp at hcell
  | cons r0 rest =>
    simp only [List.getElem?_cons_zero, Option.bind_some] at hcell
    have hS : (r0 :: rest).take sampleLen = r0 :: rest.take 99 := by simp [sampleLen]
    have hp := (plan_of_noPreamble isNum true (r0 :: rest) hpre).2.2 rfl r0 _ hS
    have hne : h ≠ [] := blank_nil_ne hb
    have hh : (plan isNum true (r0 :: rest)).2[c]? = some (strip h) := by
      rw [hp, expandHeaders_getElem? r0 1 _ c h hcell]
      simp [hne]
    have hcol := allColumns_getElem? isNum true (r0 :: rest) c (strip h) hh
    have hkeep : keepCol ⟨strip h, ((r0 :: rest).drop (plan isNum true (r0 :: rest)).1).map
        (fun r => (tableRow (plan isNum true (r0 :: rest)).2.length r).getD c [])⟩ = true := by
      simp [keepCol, strip_ne_nil hb]
    exact ⟨_, hcol, hkeep, rfl, getElem?_filter_countP keepCol _ c _ hcol hkeep⟩

example : noPreamble true [[[' ', 'i', 'd'], ['n']], [['1'], ['x']]] = true := by decide

/-! ### the full statement is FALSE of the code as it is -/

-- FULL STATEMENT (unproved, refuted below):
--   theorem csv_cells_kept (isNum) (incl) (rows) : CellsKept isNum incl rows
--   theorem one_entry_per_data_row (isNum) (incl) (rows) :
--     ∀ col ∈ parse isNum incl rows, col.data.length = (dataRows incl rows).length

/-- Witness A (replayed on the real code by c32.py): 100 one-cell rows, then a two-cell row. -/
def witnessLateWide : List Row := List.replicate 100 [['a']] ++ [[['b'], ['c']]]

/-- Witness B (replayed on the real code by c32.py): a one-cell title row before a 3-column table. -/
def witnessPreamble : List Row :=
  [[['t', 'i', 't', 'l', 'e']], [['a'], ['b'], ['c']], [['d'], ['e'], ['f']]]

set_option maxRecDepth 20000 in
theorem witnessLateWide_one_column :
    (allColumns (fun _ => false) false witnessLateWide).length = 1 := by decide

/-- Hypothesis 1 cannot be dropped: the first row is full, yet cell (100, 1) = "c" is lost. -/
theorem csv_cells_kept_full_false_late_wide_row :
    ¬ ∀ (isNum : Cell → Bool) (incl : Bool) (rows : List Row),
        noPreamble incl rows = true → CellsKept isNum incl rows := by
  intro hall
  have hpre : noPreamble false witnessLateWide = true := by decide
  obtain ⟨col, hc, _⟩ := hall (fun _ => false) false witnessLateWide hpre 100 1 ['c']
    (by decide) (by decide)
  have hlen := witnessLateWide_one_column
  have : (allColumns (fun _ => false) false witnessLateWide)[1]? = none := by
    rw [List.getElem?_eq_none_iff]; omega
  rw [this] at hc
  cases hc

/-- Hypothesis 2 cannot be dropped: no late row at all, yet the title row is lost (2 entries per
    column for 3 data rows, and cell (0,0) = "title" is not at row 0 of column 0). -/
theorem csv_cells_kept_full_false_preamble :
    ¬ ∀ (isNum : Cell → Bool) (incl : Bool) (rows : List Row),
        noWideLate rows = true → CellsKept isNum incl rows := by
  intro hall
  obtain ⟨col, hc, _, hcell, _⟩ := hall (fun _ => false) false witnessPreamble (by decide) 0 0
    ['t', 'i', 't', 'l', 'e'] (by decide) (by decide)
  have h0 : (allColumns (fun _ => false) false witnessPreamble)[0]? =
      some ⟨[], [['a'], ['d']]⟩ := by decide
  rw [h0] at hc
  cases hc
  revert hcell
  decide

theorem one_entry_per_data_row_full_false :
    ¬ ∀ (isNum : Cell → Bool) (incl : Bool) (rows : List Row),
        ∀ col ∈ parse isNum incl rows, col.data.length = (dataRows incl rows).length := by
  intro hall
  have := hall (fun _ => false) false witnessPreamble ⟨[], [['a'], ['d']]⟩ (by decide)
  revert this
  decide

end Grist.CsvPost
