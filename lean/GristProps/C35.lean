/-
C35  SCHEDULE yields exactly the scheduled occurrences.
Property theorems only.  Model: GristModel/Schedule.lean (functions/schedule.py + DATE of
functions/date.py).  Helper developments: GristProofs/ScheduleCivil.lean (calendar),
GristProofs/Schedule.lean (the loop as list algebra), GristProofs/ScheduleUnits.lean,
GristProofs/ScheduleParse.lean (error class of the parser).

Vocabulary used in the statements
  datetime            one `Int`, microseconds since 1970-01-01T00:00 (naive local time)
  `fom i`             day number of the 1st of month `i = 12*year + (month-1)`
  `day1900`           day number of 1900-01-01 (`DATE` adds 1900 to earlier years: see bottom)
  `upTo stop t`       `not (end is not None and t > end)`
  `iterB sch b k`     the boundary after `k` applications of `interval.add_to`
  `FixedWF sch n`     `n-week/day/hour/minute/second`, n ≥ 1, slots = increasing offsets in [0, n units)
  `MonthWF sch M`     interval of M ≥ 1 months (years: M = 12n), slots = increasing (months, offset)
                      with months < M and offset < 28 days
  `InOrder sch b`     the property's precondition read on the model: in every pass the slot times
                      are strictly increasing and lie in [boundary, next boundary)
  `SmallNumbers spec` every numeric field the recognisers extract from the string is <= 10^7
-/
import GristProofs.ScheduleUnits
import GristProofs.ScheduleParse
namespace Grist.Schedule

/-! ### the unit boundary at or before `start` -/

/-- **C35 (boundary, fixed units).** `_round_down_to_unit` returns the last multiple of the unit
    (weeks: the last Sunday 00:00) at or before `start`. -/
theorem boundary_fixed (t : Int) (u : TUnit) (hu : u ≠ .years ∧ u ≠ .months) :
    roundDown t u ≤ t ∧ t < roundDown t u + u.us ∧
    (match u with
      | .weeks => roundDown t u % usDay = 0 ∧ (dayOf (roundDown t u) + 4) % 7 = 0
      | _ => roundDown t u % u.us = 0) :=
  roundDown_fixed t u hu

example : roundDown 1536069600000000 .weeks = 1535846400000000 := by decide  -- Tue 2018-09-04 14:00 -> Sun 09-02

/-- **C35 (boundary, month and year units).** The boundary is the first of the month (years: of
    January) at 00:00 at or before `start`, and `start` is before the next interval. -/
theorem boundary_monthly (sch : Sched) (M : Int) (iv : MonthIv sch M) (t : Int) :
    ∃ i, roundDown t sch.unit = fom i * usDay ∧ fom i * usDay ≤ t ∧ t < fom (i + M) * usDay ∧
      (sch.unit = .years → i % 12 = 0) :=
  roundDown_monthly sch M iv t

/-! ### the generated series -/

/-- candidates of the first `K` intervals for a fixed-length unit: boundary + k·interval + slot -/
def fixedOcc (sch : Sched) (n b : Int) (K : Nat) : List Int :=
  (List.range K).flatMap (fun (k : Nat) => sch.slots.map (fun s => b + (k : Int) * (n * sch.unit.us) + s.us))

/-- candidates of the first `K` intervals for month-based units: the first of month
    `i + k·M + slot.months`, plus the slot's offset -/
def monthOcc (sch : Sched) (M i : Int) (K : Nat) : List Int :=
  (List.range K).flatMap (fun (k : Nat) => sch.slots.map
    (fun s => fom (i + (k : Int) * M + s.months) * usDay + s.us))

theorem occFrom_fixed {sch : Sched} {n : Int} (wf : FixedWF sch n) (b : Int)
    (hb : day1900 ≤ dayOf b) (K : Nat) : occFrom sch b K = fixedOcc sch n b K := by
  rw [occFrom_eq_flatMap, fixedOcc]
  congr 1; funext k; exact wf.outs_eq b hb k

theorem occFrom_month {sch : Sched} {M : Int} (wf : MonthWF sch M) (i : Int)
    (hb : day1900 ≤ fom i) (K : Nat) : occFrom sch (fom i * usDay) K = monthOcc sch M i K := by
  rw [occFrom_eq_flatMap, monthOcc]
  congr 1; funext k; exact wf.outs_eq i hb k

theorem fixed_start_lt {sch : Sched} {n : Int} (iv : FixedIv sch n) (start : Int)
    (h1900 : day1900 ≤ dayOf (roundDown start sch.unit)) :
    start ≤ sch.interval.addTo (roundDown start sch.unit) := by
  rw [iv.interval_eq, addTo_fixed _ _ rfl h1900]
  have := roundDown_fixed start sch.unit iv.unit_fixed
  have := iv.period_ge
  show start ≤ _ + n * sch.unit.us
  omega

/-- **C35 (series, fixed-length units).** For `n-week/day/hour/minute/second` schedules with
    `n ≥ 1` and slots increasing inside one interval, for every start (boundary not before 1900),
    end and count, every run with at least `count + 2` passes of fuel terminates and returns
    exactly the first `count` elements, in order, of
    `{boundary + k·n·unit + slot | k ≥ 0} ∩ [start, end]`. -/
theorem series_spec_fixed (sch : Sched) (n : Int) (wf : FixedWF sch n) (start : Int)
    (stop : Option Int) (count : Int) (fuel K : Nat)
    (h1900 : day1900 ≤ dayOf (roundDown start sch.unit))
    (hf : count.toNat + 2 ≤ fuel) (hK : count.toNat + 2 ≤ K) :
    series sch start stop count fuel =
      some (((fixedOcc sch n (roundDown start sch.unit) K).filter
        (fun t => decide (start ≤ t) && upTo stop t)).take count.toNat) := by
  unfold series
  rw [seriesFuel_ordered sch start stop _ _ wf.slots_ne (wf.inOrder _ h1900)
    (fixed_start_lt wf.toFixedIv start h1900) fuel K hf hK, occFrom_fixed wf _ h1900]

/-- `2-day: 12am, 4pm, +1d 8am` (docstring) satisfies the hypotheses -/
example : FixedWF ⟨.days, ⟨0, 2 * usDay⟩, [⟨0, 0⟩, ⟨0, 16 * usHour⟩, ⟨0, usDay + 8 * usHour⟩]⟩ 2 :=
  { unit_fixed := by decide, n_pos := by decide, interval_eq := by decide, slots_ne := by decide,
    slots_months := by decide, slots_window := by decide, slots_sorted := by decide }

/-- **C35 (series, month and year units).** Same for intervals of `M ≥ 1` months. -/
theorem series_spec_months (sch : Sched) (M : Int) (wf : MonthWF sch M) (start : Int)
    (stop : Option Int) (count : Int) (fuel K : Nat)
    (h1900 : day1900 ≤ dayOf (roundDown start sch.unit))
    (hf : count.toNat + 2 ≤ fuel) (hK : count.toNat + 2 ≤ K) :
    ∃ i, roundDown start sch.unit = fom i * usDay ∧ fom i * usDay ≤ start ∧
      series sch start stop count fuel =
        some (((monthOcc sch M i K).filter
          (fun t => decide (start ≤ t) && upTo stop t)).take count.toNat) := by
  obtain ⟨i, hi, h1, h2, _⟩ := roundDown_monthly sch M wf.toMonthIv start
  refine ⟨i, hi, h1, ?_⟩
  have hb : day1900 ≤ fom i := by rw [hi, dayOf_fom] at h1900; exact h1900
  unfold series
  rw [hi, seriesFuel_ordered sch start stop _ _ wf.slots_ne (wf.inOrder i hb)
    (by rw [wf.interval_eq, addTo_fom _ _ hb]; show start ≤ fom (i + M) * usDay + 0; omega)
    fuel K hf hK, occFrom_month wf i hb]

/-- `3-months: /10, +1m /20` (docstring) satisfies the hypotheses -/
example : MonthWF ⟨.months, ⟨3, 0⟩, [⟨0, 9 * usDay⟩, ⟨1, 19 * usDay⟩]⟩ 3 :=
  { unit_month := by decide, m_pos := by decide, interval_eq := by decide, slots_ne := by decide,
    slots_window := by decide, slots_sorted := by decide }

/-- **C35 (series, the property's own precondition).** Whatever the unit: if the slot times of
    every interval are strictly increasing and inside that interval (`InOrder`), and `start` is
    before the second boundary, the result is the first `count` candidates in `[start, end]`,
    strictly increasing, and nothing in `[start, end]` is skipped: a candidate that is missing is
    later than everything returned and the result is then full. -/
theorem series_exact (sch : Sched) (start : Int) (stop : Option Int) (count : Int)
    (hne : sch.slots ≠ []) (hord : InOrder sch (roundDown start sch.unit))
    (hb : start ≤ sch.interval.addTo (roundDown start sch.unit)) :
    ∃ r : List Int,
      (∀ fuel, count.toNat + 2 ≤ fuel → series sch start stop count fuel = some r) ∧
      r.Pairwise (· < ·) ∧ r.length ≤ count.toNat ∧
      (∀ x ∈ r, start ≤ x ∧ upTo stop x = true ∧
        ∃ k : Nat, ∃ s ∈ sch.slots, x = s.addTo (iterB sch (roundDown start sch.unit) k)) ∧
      (∀ (k : Nat) (s : Delta), s ∈ sch.slots →
        start ≤ s.addTo (iterB sch (roundDown start sch.unit) k) →
        upTo stop (s.addTo (iterB sch (roundDown start sch.unit) k)) = true →
        s.addTo (iterB sch (roundDown start sch.unit) k) ∈ r ∨
          (r.length = count.toNat ∧
            ∀ y ∈ r, y < s.addTo (iterB sch (roundDown start sch.unit) k))) :=
  seriesFuel_exact sch start stop _ _ hne hord hb

/-- the precondition of `series_exact` holds for the two syntactic classes above -/
theorem inOrder_fixed (sch : Sched) (n : Int) (wf : FixedWF sch n) (start : Int)
    (h1900 : day1900 ≤ dayOf (roundDown start sch.unit)) :
    InOrder sch (roundDown start sch.unit) ∧
      start ≤ sch.interval.addTo (roundDown start sch.unit) :=
  ⟨wf.inOrder _ h1900, fixed_start_lt wf.toFixedIv start h1900⟩

theorem inOrder_months (sch : Sched) (M : Int) (wf : MonthWF sch M) (start : Int)
    (h1900 : day1900 ≤ dayOf (roundDown start sch.unit)) :
    InOrder sch (roundDown start sch.unit) ∧
      start ≤ sch.interval.addTo (roundDown start sch.unit) := by
  obtain ⟨i, hi, h1, h2, _⟩ := roundDown_monthly sch M wf.toMonthIv start
  have hb : day1900 ≤ fom i := by rw [hi, dayOf_fom] at h1900; exact h1900
  rw [hi]
  refine ⟨wf.inOrder i hb, ?_⟩
  rw [wf.interval_eq, addTo_fom _ _ hb]; show start ≤ fom (i + M) * usDay + 0; omega

/-- the elements of `series_exact` in closed form (fixed units) -/
theorem candidate_fixed (sch : Sched) (n : Int) (wf : FixedWF sch n) (b : Int)
    (hb : day1900 ≤ dayOf b) (k : Nat) (s : Delta) (hs : s ∈ sch.slots) :
    s.addTo (iterB sch b k) = b + (k : Int) * (n * sch.unit.us) + s.us := by
  have := wf.outs_eq b hb k
  have h2 : s.addTo (iterB sch b k) ∈ outsAt sch (iterB sch b k) := List.mem_map_of_mem hs
  have hP := wf.toFixedIv.period_ge
  have hL := unit_us_pos wf.unit_fixed
  have hk : 0 ≤ (k : Int) * (n * sch.unit.us) := Int.mul_nonneg (by omega) (by omega)
  rw [wf.toFixedIv.iterB_eq b hb k,
    addTo_fixed _ _ (wf.slots_months s hs) (Int.le_trans hb (dayOf_mono (by omega)))]

/-- the elements of `series_exact` in closed form (month-based units) -/
theorem candidate_months (sch : Sched) (M : Int) (wf : MonthWF sch M) (i : Int)
    (hb : day1900 ≤ fom i) (k : Nat) (s : Delta) :
    s.addTo (iterB sch (fom i * usDay) k) = fom (i + (k : Int) * M + s.months) * usDay + s.us := by
  have hk : 0 ≤ (k : Int) * M := Int.mul_nonneg (by omega) (by have := wf.m_pos; omega)
  have hm := @fom_mono i (i + (k : Int) * M) (by omega)
  rw [wf.toMonthIv.iterB_eq i hb k, addTo_fom _ _ (by omega)]

/-! ### termination -/

/-- **C35 (termination, fixed units).** With an interval of `n ≥ 1` units and slots that are
    non-negative offsets (no order, no window needed), `count + 2` passes always suffice. -/
theorem series_terminates_fixed (sch : Sched) (n : Int) (iv : FixedIv sch n)
    (hne : sch.slots ≠ []) (hslots : ∀ s ∈ sch.slots, s.months = 0 ∧ 0 ≤ s.us)
    (start : Int) (stop : Option Int) (count : Int) (fuel : Nat)
    (h1900 : day1900 ≤ dayOf (roundDown start sch.unit)) (hf : count.toNat + 2 ≤ fuel) :
    (series sch start stop count fuel).isSome = true := by
  have hb := fixed_start_lt iv start h1900
  have hP := iv.period_ge
  have hL := unit_us_pos iv.unit_fixed
  have e : sch.interval.addTo (roundDown start sch.unit)
      = roundDown start sch.unit + n * sch.unit.us := by
    rw [iv.interval_eq, addTo_fixed _ _ rfl h1900]
  have hp : Progress sch start (sch.interval.addTo (roundDown start sch.unit)) :=
    iv.progress _ start (by rw [e]; exact Int.le_trans h1900 (dayOf_mono (by omega))) hb hslots
  have := seriesFuel_terminates sch start stop hne (roundDown start sch.unit) count.toNat hp
  obtain ⟨r, hr⟩ := Option.isSome_iff_exists.mp this
  unfold series
  rw [seriesFuel_mono sch start stop _ _ _ _ hr fuel hf]; rfl

/-- **C35 (termination, month-based units).** -/
theorem series_terminates_months (sch : Sched) (M : Int) (iv : MonthIv sch M)
    (hne : sch.slots ≠ []) (hslots : ∀ s ∈ sch.slots, 0 ≤ s.months ∧ 0 ≤ s.us)
    (start : Int) (stop : Option Int) (count : Int) (fuel : Nat)
    (h1900 : day1900 ≤ dayOf (roundDown start sch.unit)) (hf : count.toNat + 2 ≤ fuel) :
    (series sch start stop count fuel).isSome = true := by
  obtain ⟨i, hi, h1, h2, _⟩ := roundDown_monthly sch M iv start
  have hb : day1900 ≤ fom i := by rw [hi, dayOf_fom] at h1900; exact h1900
  have e : sch.interval.addTo (fom i * usDay) = fom (i + M) * usDay := by
    rw [iv.interval_eq, addTo_fom _ _ hb]; show fom (i + M) * usDay + 0 = _; omega
  have hm := @fom_mono i (i + M) (by have := iv.m_pos; omega)
  have hp : Progress sch start (sch.interval.addTo (fom i * usDay)) := by
    rw [e]; exact iv.progress (i + M) start (by omega) (by omega) hslots
  have := seriesFuel_terminates sch start stop hne (fom i * usDay) count.toNat hp
  obtain ⟨r, hr⟩ := Option.isSome_iff_exists.mp this
  unfold series
  rw [hi, seriesFuel_mono sch start stop _ _ _ _ hr fuel hf]; rfl

/-- **C35 (an interval of 0 units never terminates).** If the interval is zero and every slot
    time of the boundary's unit lies before `start`, no amount of fuel ends the loop.
    `SCHEDULE("0-day: 1am", start=02:00)` is such an input: the real code hangs. -/
theorem zero_interval_diverges (sch : Sched) (start : Int) (stop : Option Int) (count : Int)
    (hz : sch.interval = { months := 0, us := 0 }) (hc : 0 < count)
    (h1900 : day1900 ≤ dayOf (roundDown start sch.unit))
    (hall : ∀ s ∈ sch.slots, s.addTo (roundDown start sch.unit) < start) :
    ∀ fuel, series sch start stop count fuel = none := by
  intro fuel
  unfold series
  exact seriesFuel_stuck sch start stop _ _ (by omega)
    (by rw [hz, addTo_fixed _ _ rfl h1900]; show _ + 0 = _; omega) hall fuel

/-! ### where the code as it is violates the property (witnesses, replayed on the real code by
    harness/gx/props/c35.py) -/

deriving instance DecidableEq for Except

/-- 2018-09-04T00:00 -/
def d20180904 : Int := 17778 * usDay

-- (1) An interval of 0 units is accepted by the parser and never advances.
-- FULL STATEMENT (unproved): every schedule the parser accepts terminates:
--   ∀ spec sch start stop count, parse spec = .ok sch → ∃ fuel, (series sch start stop count fuel).isSome
/-- the parser accepts `0-day: 1am` -/
theorem zero_interval_accepted :
    parse "0-day: 1am".toList = .ok ⟨.days, ⟨0, 0⟩, [⟨0, usHour⟩]⟩ := by decide

/-- `SCHEDULE("0-day: 1am", start=2018-09-04 02:00, count=1)` runs forever -/
theorem zero_interval_witness :
    ¬ ∃ fuel, (series ⟨.days, ⟨0, 0⟩, [⟨0, usHour⟩]⟩ (d20180904 + 2 * usHour) none 1 fuel).isSome := by
  rintro ⟨fuel, h⟩
  rw [zero_interval_diverges _ _ none 1 rfl (by decide) (by decide) (by decide) fuel] at h
  cases h

/-- ... and with `start=00:00, count=3` it returns the same time three times (not increasing) -/
example : series ⟨.days, ⟨0, 0⟩, [⟨0, usHour⟩]⟩ d20180904 none 3 5
    = some [d20180904 + usHour, d20180904 + usHour, d20180904 + usHour] := by decide

-- (2) `DATE` adds 1900 to years below 1900, so a boundary before 1900-01-01 jumps to 3750.
-- FULL STATEMENT (unproved): `series_spec_fixed` / `series_spec_months` / the termination
--   theorems without the hypothesis `day1900 ≤ dayOf (roundDown start sch.unit)`.
/-- `SCHEDULE("daily: 07:30", start=1850-09-04 14:00, count=2)` = 3750-09-04 07:30, 3750-09-05 07:30
    although `daily: 07:30` satisfies `FixedWF` -/
theorem before_1900_witness :
    FixedWF ⟨.days, ⟨0, usDay⟩, [⟨0, 27000000000⟩]⟩ 1 ∧
    series ⟨.days, ⟨0, usDay⟩, [⟨0, 27000000000⟩]⟩ (daysFromCivil 1850 9 4 * usDay + 14 * usHour) none 2 4
      = some [daysFromCivil 3750 9 4 * usDay + 27000000000,
              daysFromCivil 3750 9 5 * usDay + 27000000000] ∧
    ¬ series ⟨.days, ⟨0, usDay⟩, [⟨0, 27000000000⟩]⟩ (daysFromCivil 1850 9 4 * usDay + 14 * usHour) none 2 4
      = some (((fixedOcc ⟨.days, ⟨0, usDay⟩, [⟨0, 27000000000⟩]⟩ 1
          (roundDown (daysFromCivil 1850 9 4 * usDay + 14 * usHour) .days) 4).filter
          (fun t => decide (daysFromCivil 1850 9 4 * usDay + 14 * usHour ≤ t) && upTo none t)).take 2) := by
  refine ⟨{ unit_fixed := by decide, n_pos := by decide, interval_eq := by decide,
            slots_ne := by decide, slots_months := by decide, slots_window := by decide,
            slots_sorted := by decide }, by decide, by decide⟩

/-- a week-based schedule started on Wed 1900-01-03 rounds down to Sun 1899-12-31 and jumps too -/
example : series ⟨.weeks, ⟨0, usWeek⟩, [⟨0, 0⟩]⟩ (daysFromCivil 1900 1 3 * usDay) none 1 3
    = some [daysFromCivil 3799 12 31 * usDay] := by decide

-- (3) A numeral too large for `timedelta` raises OverflowError, not ValueError.
-- FULL STATEMENT (unproved): ∀ spec e, parse spec = .error e → e = .value
theorem overflow_witness :
    ¬ ∀ spec e, parse spec = .error e → e = .value := by
  intro h
  have := h "daily: +99999999999d".toList .overflow (by decide)
  cases this

/-- **C35 (invalid strings raise ValueError, partial).** Every string either parses or is rejected
    (`parse` is a total function into `Except`); if every numeric field that the recognisers
    extract from the string (`SmallNumbers`: the interval multiple and the counts of all slot
    parts) is at most 10^7, the rejection is a `ValueError`.  (Larger numerals can overflow
    `timedelta`: `overflow_witness`.) -/
theorem parse_error_value_partial (spec : List Char) (hs : SmallNumbers spec) (e : Err)
    (h : parse spec = .error e) : e = .value := by
  unfold parse at h
  split at h
  · cases h; rfl
  · rename_i a b hsp
    cases hi : parseInterval (strip a) with
    | error e' => rw [hi] at h; cases h; exact parseInterval_error _ _ hi
    | ok nu =>
      obtain ⟨n, unit⟩ := nu
      rw [hi] at h
      obtain ⟨hn, hslots⟩ := hs a b hsp n unit hi
      obtain ⟨iv, hiv, _⟩ := addInterval_small {} (n : Int) unit
        ⟨by simp only [numBound]; omega, hn⟩ (by decide)
      simp only [hiv] at h
      cases h2 : parseSlots unit (splitOn ',' b) with
      | error e' => rw [h2] at h; cases h; exact parseSlots_small unit _ hslots _ h2
      | ok ds => rw [h2] at h; cases h

/-- `daily: 9:30am +2H` (rejected: the hour is given twice) satisfies the hypothesis -/
example : SmallNumbers "daily: 9:30am +2H".toList ∧
    parse "daily: 9:30am +2H".toList = .error .value := by
  refine ⟨?_, by decide⟩
  intro a b h n unit hi
  have h' : splitColon "daily: 9:30am +2H".toList = some ("daily".toList, " 9:30am +2H".toList) := by
    decide
  rw [h'] at h
  obtain ⟨rfl, rfl⟩ : "daily".toList = a ∧ " 9:30am +2H".toList = b := by
    simpa using h
  have hi' : parseInterval (strip "daily".toList) = .ok (1, .days) := by decide
  rw [hi'] at hi
  obtain ⟨rfl, rfl⟩ : 1 = n ∧ TUnit.days = unit := by simpa using hi
  refine ⟨by decide, ?_⟩
  intro slot hslot part hpart items hc it hit
  have e1 : splitOn ',' " 9:30am +2H".toList = [" 9:30am +2H".toList] := by decide
  rw [e1] at hslot
  have : slot = " 9:30am +2H".toList := by simpa using hslot
  subst this
  have e2 : words " 9:30am +2H".toList = ["9:30am".toList, "+2H".toList] := by decide
  rw [e2] at hpart
  have : part = "9:30am".toList ∨ part = "+2H".toList := by simpa using hpart
  rcases this with rfl | rfl
  · have e3 : classifyPart .days "9:30am".toList = .ok [(9, .hours), (30, .minutes)] := by decide
    rw [e3] at hc
    have : items = [(9, .hours), (30, .minutes)] := by simpa using hc.symm
    subst this
    have : it = (9, .hours) ∨ it = (30, .minutes) := by simpa using hit
    rcases this with rfl | rfl <;> decide
  · have e3 : classifyPart .days "+2H".toList = .ok [(2, .hours)] := by decide
    rw [e3] at hc
    have : items = [(2, .hours)] := by simpa using hc.symm
    subst this
    have : it = (2, .hours) := by simpa using hit
    subst this; decide

/-- parsing of the docstring examples -/
example : parse "3-months: /10, +1m /20".toList
    = .ok ⟨.months, ⟨3, 0⟩, [⟨0, 9 * usDay⟩, ⟨1, 19 * usDay⟩]⟩ := by decide
example : parse "weekly: Mo 9am, Tu 9am, Fr 2pm".toList
    = .ok ⟨.weeks, ⟨0, usWeek⟩, [⟨0, usDay + 9 * usHour⟩, ⟨0, 2 * usDay + 9 * usHour⟩,
        ⟨0, 5 * usDay + 14 * usHour⟩]⟩ := by decide
example : parse "annual: Jan-15, Apr-15".toList
    = .ok ⟨.years, ⟨12, 0⟩, [⟨0, 14 * usDay⟩, ⟨3, 14 * usDay⟩]⟩ := by decide
example : parse "9:30am +2H".toList = .error .value := by decide
example : parse "daily 9am".toList = .error .value := by decide

end Grist.Schedule
