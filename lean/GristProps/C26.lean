/-
C26  Temporary row ids resolve consistently within a bundle.
Property theorems only.  Model: GristModel/RowIds.lean (action_summary.update_new_rows_map /
translate_new_row_ids, column.py prepare_new_values / _reject_unresolved_temp_ids,
useractions.doBulkAddOrReplace / doBulkUpdateRecord / doBulkRemoveRecord).

Reading of "stand for the rows actually allocated" when a temporary id is used more than once (twice
in one request, or in two adds of one bundle): the id stands for the row allocated at its LATEST use
(documented in update_new_rows_map: "If a negative row_id was already used, its mapping will be
overridden").

  translate_after_update         after an add, a negative id maps to the id filled in at its last
                                 position in the request; ids not in the request keep their mapping
  translate_identity_on_positive only negative ids are ever keys: non-negative ids translate to themselves
  temp_id_is_allocated_row       after an accepted add the temp id translates to a row that exists now
                                 and did not exist before
  update_by_temp_id / remove_by_temp_id   Update passes the doc action's existence assertion on that
                                 row; Remove removes exactly that row
  ref_values_translated          accepted Ref / RefList values: every negative id replaced by the row
                                 it stands for, everything else unchanged, nothing negative left
  unknown_temp_rejected          a negative id without mapping anywhere in the values ⇒ ValueError
  prepare_ref_ok_iff             ... and that is the only reason for rejection
-/
import GristModel.RowIds
import GristProps.C27
namespace Grist.RowIds

/-! ### vocabulary -/

/-- all keys of the temp map are negative (invariant of `update_new_rows_map`: `if a and a < 0`) -/
def KeysNeg (m : TempMap) : Prop := ∀ p ∈ m, p.1 < 0

/-- What a row id in a later action / reference value stands for: a negative id stands for the row
    recorded for it (nothing if none was), any other id for itself. -/
def resolve (m : TempMap) (i : Int) : Option Int :=
  if i < 0 then (m.lookup i).map (fun (b : Nat) => (b : Int)) else some i

/-- element-wise relation between two lists of equal length -/
inductive AllRel {α β : Type} (R : α → β → Prop) : List α → List β → Prop
  | nil : AllRel R [] []
  | cons {a : α} {b : β} {as : List α} {bs : List β} : R a b → AllRel R as bs → AllRel R (a :: as) (b :: bs)

/-- `out` is `inp` with every id replaced by what it stands for. -/
def CellResolves (m : TempMap) : Cell → Cell → Prop
  | .ref i, .ref j => resolve m i = some j
  | .refs l, .refs l' => AllRel (fun i j => resolve m i = some j) l l'
  | .other, .other => True
  | _, _ => False

/-- the ints held by a cell -/
def Cell.ids : Cell → List Int
  | .ref i => [i]
  | .refs l => l
  | .other => []

def Cell.refShape : Cell → Bool
  | .refs _ => false
  | _ => true

def Cell.refListShape : Cell → Bool
  | .ref _ => false
  | _ => true

/-! ### the map -/

theorem keysNeg_nil : KeysNeg [] := by intro p hp; simp at hp

theorem keysNeg_update : ∀ (temp : List (Option Int)) (final : List Nat) (m : TempMap),
    KeysNeg m → KeysNeg (updateNewRowsMap m temp final) := by
  intro temp
  induction temp with
  | nil => intro final m h; simpa [updateNewRowsMap] using h
  | cons a ts ih =>
    intro final m h
    cases final with
    | nil => cases a <;> simpa [updateNewRowsMap] using h
    | cons b fs =>
      cases a with
      | none => simpa [updateNewRowsMap] using ih fs m h
      | some a =>
        simp only [updateNewRowsMap]
        apply ih
        split
        · rename_i ha
          intro p hp
          rcases List.mem_cons.mp hp with hp | hp
          · subst hp; exact ha
          · exact h p hp
        · exact h

/-- an id that the request does not mention keeps its mapping -/
theorem translate_unmentioned : ∀ (temp : List (Option Int)) (final : List Nat) (m : TempMap) (a : Int),
    some a ∉ temp → translate1 (updateNewRowsMap m temp final) a = translate1 m a := by
  intro temp
  induction temp with
  | nil => intro final m a _; simp [updateNewRowsMap]
  | cons x ts ih =>
    intro final m a hn
    have hts : some a ∉ ts := fun h => hn (List.mem_cons_of_mem _ h)
    cases final with
    | nil => cases x <;> simp [updateNewRowsMap]
    | cons b fs =>
      cases x with
      | none => simpa [updateNewRowsMap] using ih fs m a hts
      | some a' =>
        simp only [updateNewRowsMap]
        rw [ih fs _ a hts]
        split
        · have hne : a ≠ a' := fun h => hn (by simp [h])
          have hbeq : (a == a') = false := by simpa using hne
          simp [translate1, List.lookup_cons, hbeq]
        · rfl

/-- **translate_after_update**: after `update_new_rows_map(table, temp, final)`,
    (i) a negative id `a` whose LAST position in `temp` is `k` translates to `final[k]`
        (whatever it was mapped to before: the latest add wins);
    (ii) an id that `temp` does not mention translates as before. -/
theorem translate_after_update (m : TempMap) (temp : List (Option Int)) (final : List Nat)
    (a : Int) (ha : a < 0) :
    (∀ (k : Nat) (b : Nat), temp[k]? = some (some a) → (∀ j, k < j → temp[j]? ≠ some (some a)) →
        final[k]? = some b → translate1 (updateNewRowsMap m temp final) a = (b : Int)) ∧
    (some a ∉ temp → translate1 (updateNewRowsMap m temp final) a = translate1 m a) := by
  refine ⟨?_, translate_unmentioned temp final m a⟩
  revert final m
  induction temp with
  | nil => intro m final k b hk; simp at hk
  | cons x ts ih =>
    intro m final k b hk hlast hb
    cases k with
    | zero =>
      simp only [List.getElem?_cons_zero, Option.some.injEq] at hk
      subst hk
      cases final with
      | nil => simp at hb
      | cons b0 fs =>
        simp only [List.getElem?_cons_zero, Option.some.injEq] at hb
        subst hb
        have hts : some a ∉ ts := by
          intro hmem
          obtain ⟨j, hj, hjv⟩ := List.getElem_of_mem hmem
          have := hlast (j + 1) (by omega)
          simp only [List.getElem?_cons_succ] at this
          exact this (by rw [List.getElem?_eq_getElem hj, hjv])
        simp only [updateNewRowsMap, ha, if_true]
        rw [translate_unmentioned ts fs _ a hts]
        simp [translate1]
    | succ k =>
      simp only [List.getElem?_cons_succ] at hk
      cases final with
      | nil => simp at hb
      | cons b0 fs =>
        simp only [List.getElem?_cons_succ] at hb
        have hlast' : ∀ j, k < j → ts[j]? ≠ some (some a) := by
          intro j hj
          have := hlast (j + 1) (by omega)
          simpa only [List.getElem?_cons_succ] using this
        cases x with
        | none => simpa [updateNewRowsMap] using ih m fs k b hk hlast' hb
        | some a' =>
          simp only [updateNewRowsMap]
          exact ih _ fs k b hk hlast' hb

/-- two adds in one bundle reusing -1: the second add's row wins -/
example : translate (updateNewRowsMap (updateNewRowsMap [] [some (-1), some (-2)] [6, 7]) [none, some (-1)] [8, 9])
    [-1, -2, 4] = [9, 7, 4] := by decide
/-- the id repeated inside one request: the later position wins -/
example : translate (updateNewRowsMap [] [some (-1), some (-1)] [6, 7]) [-1] = [7] := by decide

/-- **translate_identity_on_positive**: non-negative ids are never keys, they translate to themselves. -/
theorem translate_identity_on_positive (m : TempMap) (hm : KeysNeg m) (r : Int) (hr : 0 ≤ r) :
    translate1 m r = r := by
  have : m.lookup r = none := by
    rw [List.lookup_eq_none_iff]
    intro p hp
    have := hm p hp
    simp only [bne_iff_ne, ne_eq]
    intro h; omega
  simp [translate1, this]

theorem translate_identity_on_positive_list (m : TempMap) (hm : KeysNeg m) (ids : List Int)
    (h : ∀ r ∈ ids, 0 ≤ r) : translate m ids = ids := by
  simp only [translate]
  conv => rhs; rw [← List.map_id ids]
  apply List.map_congr_left
  intro r hr
  simpa using translate_identity_on_positive m hm r (h r hr)

example : KeysNeg (updateNewRowsMap [] [some 3, some (-1), none, some 0] [3, 4, 5, 0]) ∧
    translate (updateNewRowsMap [] [some 3, some (-1), none, some 0] [3, 4, 5, 0]) [3, 0, 4, 5] = [3, 0, 4, 5] := by
  refine ⟨keysNeg_update _ _ _ keysNeg_nil, by decide⟩

/-- translation is exactly `resolve` when the id stands for something, and leaves an unknown
    negative id negative -/
theorem translate1_eq_resolve (m : TempMap) (hm : KeysNeg m) (i : Int) :
    (∀ j, resolve m i = some j → translate1 m i = j ∧ 0 ≤ j) ∧
    (resolve m i = none → translate1 m i = i ∧ i < 0) := by
  by_cases hi : i < 0
  · simp only [resolve, hi, if_true, translate1]
    cases hl : m.lookup i with
    | none => simp
    | some b => simp
  · have h0 : 0 ≤ i := by omega
    simp only [resolve, hi, if_false]
    refine ⟨?_, by simp⟩
    intro j hj
    simp only [Option.some.injEq] at hj
    subst hj
    exact ⟨translate_identity_on_positive m hm i h0, h0⟩

/-! ### adds, then Update / Remove by temporary id -/

/-- **temp_id_is_allocated_row**: after an accepted BulkAddRecord, a negative id `a` of the request
    (last position `k`) translates to the id `b` returned at that position, and `b` is a row that
    exists now and did not exist before. -/
theorem temp_id_is_allocated_row (rows : List Nat) (m : TempMap) (req : List (Option Int))
    (res : AddResult) (h : addRequest rows m req = .ok res)
    (a : Int) (ha : a < 0) (k : Nat) (hk : req[k]? = some (some a))
    (hlast : ∀ j, k < j → req[j]? ≠ some (some a)) :
    ∃ b : Nat, res.ids[k]? = some b ∧ translate res.map [a] = [(b : Int)] ∧ b ∈ res.rows ∧ b ∉ rows := by
  simp only [addRequest] at h
  split at h
  · cases h
  · rename_i ids hids
    split at h
    · cases h
    · rename_i rows' hadd
      cases h
      simp only
      have hlen := fill_length req _ ids hids
      have hklt : k < req.length := by
        rcases Nat.lt_or_ge k req.length with h | h
        · exact h
        · rw [List.getElem?_eq_none h] at hk; cases hk
      have hk2 : k < ids.length := by omega
      refine ⟨ids[k], List.getElem?_eq_getElem hk2, ?_, ?_, ?_⟩
      · have := (translate_after_update m req ids a ha).1 k ids[k] hk hlast (List.getElem?_eq_getElem hk2)
        simp [translate, this]
      · have hspec := fill_go_spec req _ ids hids k (some a) ids[k] hk (List.getElem?_eq_getElem hk2)
        have hge := (hspec.2 (by simp [isAuto, ha])).1
        have hrows' : rows' = addRows rows ids := by
          simp only [docBulkAdd] at hadd
          split at hadd
          · cases hadd
          · cases hadd; rfl
        rw [hrows', mem_addRows]
        right
        refine ⟨List.getElem_mem hk2, ?_⟩
        simp only [nextRowId] at hge; omega
      · intro hin
        have hspec := fill_go_spec req _ ids hids k (some a) ids[k] hk (List.getElem?_eq_getElem hk2)
        have hge := (hspec.2 (by simp [isAuto, ha])).1
        have := lt_nextRowId rows _ hin
        omega

example : addRequest [2, 5] [(-1, 1)] [some (-1), some 3, some (-1)]
    = .ok { ids := [6, 3, 8], rows := [2, 5, 6, 3, 8], map := [(-1, 8), (-1, 6), (-1, 1)] } := by decide

/-- **update_by_temp_id**: an Update naming the temporary id (among rows that exist) passes
    `DocActions.BulkUpdateRecord`'s existence assertion, on the translated — allocated — row. -/
theorem update_by_temp_id (rows : List Nat) (m : TempMap) (a : Int) (b : Nat)
    (htr : translate m [a] = [(b : Int)]) (hb : b ∈ rows) (hpos : 0 < b) :
    docBulkUpdate rows (translate m [a]) = .ok () := by
  rw [htr]
  simp [docBulkUpdate, hb, hpos]

example : translate [(-1, 8), (-1, 6)] [-1] = [((8 : Nat) : Int)] ∧ (8 : Nat) ∈ [2, 5, 6, 3, 8] ∧
    docBulkUpdate [2, 5, 6, 3, 8] (translate [(-1, 8), (-1, 6)] [-1]) = .ok () := by decide

/-- **remove_by_temp_id**: a Remove naming the temporary id removes the allocated row and no other. -/
theorem remove_by_temp_id (rows : List Nat) (m : TempMap) (a : Int) (b : Nat)
    (htr : translate m [a] = [(b : Int)]) :
    ∀ x, x ∈ docBulkRemove rows (translate m [a]) ↔ x ∈ rows ∧ x ≠ b := by
  intro x
  rw [htr]
  simp only [docBulkRemove, List.mem_filter, List.contains_cons, List.contains_nil, Bool.or_false,
    Bool.not_eq_true', beq_eq_false_iff_ne, ne_eq]
  constructor
  · rintro ⟨h1, h2⟩; exact ⟨h1, fun h => h2 (by rw [h])⟩
  · rintro ⟨h1, h2⟩; exact ⟨h1, fun h => h2 (by omega)⟩

example : docBulkRemove [2, 5, 6, 3, 8] (translate [(-1, 8), (-1, 6)] [-1]) = [2, 5, 6, 3] := by decide

/-! ### reference values -/

theorem rejectUnresolved_ok (vs : List Cell) :
    rejectUnresolved vs = .ok () ↔ ∀ c ∈ vs, c.hasNeg = false := by
  simp only [rejectUnresolved]
  split
  · rename_i h
    simp only [reduceCtorEq, false_iff]
    intro hall
    rw [List.any_eq_true] at h
    obtain ⟨c, hc, hn⟩ := h
    rw [hall c hc] at hn; cases hn
  · rename_i h
    simp only [true_iff]
    intro c hc
    cases hcn : c.hasNeg with
    | false => rfl
    | true => exact absurd (List.any_eq_true.mpr ⟨c, hc, hcn⟩) h

theorem prepareRef_ok (m : TempMap) (values out : List Cell) :
    prepareRef m values = .ok out ↔
      out = values.map (trRefCell m) ∧ ∀ c ∈ values, (trRefCell m c).hasNeg = false := by
  simp only [prepareRef]
  split
  · rename_i h
    rw [rejectUnresolved_ok] at h
    constructor
    · intro e; cases e
      exact ⟨rfl, fun c hc => h _ (List.mem_map_of_mem hc)⟩
    · rintro ⟨e, _⟩; rw [e]
  · rename_i e h
    constructor
    · intro h'; cases h'
    · rintro ⟨_, hall⟩
      have : rejectUnresolved (values.map (trRefCell m)) = .ok () := by
        rw [rejectUnresolved_ok]
        intro c hc
        obtain ⟨c0, hc0, rfl⟩ := List.mem_map.mp hc
        exact hall c0 hc0
      rw [this] at h; cases h

theorem prepareRefList_ok (m : TempMap) (values out : List Cell) :
    prepareRefList m values = .ok out ↔
      out = values.map (trRefListCell m) ∧ ∀ c ∈ values, (trRefListCell m c).hasNeg = false := by
  simp only [prepareRefList]
  split
  · rename_i h
    rw [rejectUnresolved_ok] at h
    constructor
    · intro e; cases e
      exact ⟨rfl, fun c hc => h _ (List.mem_map_of_mem hc)⟩
    · rintro ⟨e, _⟩; rw [e]
  · rename_i e h
    constructor
    · intro h'; cases h'
    · rintro ⟨_, hall⟩
      have : rejectUnresolved (values.map (trRefListCell m)) = .ok () := by
        rw [rejectUnresolved_ok]
        intro c hc
        obtain ⟨c0, hc0, rfl⟩ := List.mem_map.mp hc
        exact hall c0 hc0
      rw [this] at h; cases h

/-- a list whose translation holds no negative id is resolved element by element -/
theorem list_resolves (m : TempMap) (hm : KeysNeg m) : ∀ (l : List Int),
    (translate m l).any (fun r => decide (r < 0)) = false →
    AllRel (fun i j => resolve m i = some j) l (translate m l) := by
  intro l
  induction l with
  | nil => intro _; exact AllRel.nil
  | cons i rest ih =>
    intro h
    simp only [translate, List.map_cons, List.any_cons, Bool.or_eq_false_iff, decide_eq_false_iff_not] at h
    refine AllRel.cons ?_ (ih (by simpa [translate] using h.2))
    obtain ⟨h1, h2⟩ := translate1_eq_resolve m hm i
    cases hr : resolve m i with
    | none => have := h2 hr; omega
    | some j => rw [(h1 j hr).1]

theorem hasNeg_false_of_nonneg (l : List Int) (h : l.any (fun r => decide (r < 0)) = false) :
    ∀ i ∈ l, 0 ≤ i := by
  intro i hi
  cases hd : decide (i < 0) with
  | false => simpa using hd
  | true =>
    have : l.any (fun r => decide (r < 0)) = true := List.any_eq_true.mpr ⟨i, hi, hd⟩
    rw [h] at this; cases this

/-- **ref_values_translated**: when `prepare_new_values` accepts the values of a Ref column
    (`kind = ref`) or RefList column, the values written are the given ones with every id replaced
    by what it stands for — a negative id by the row recorded for it by the latest add in the target
    table, anything else unchanged — and no negative id is left. -/
theorem ref_values_translated (m : TempMap) (hm : KeysNeg m) (values out : List Cell) :
    (prepareRef m values = .ok out → (∀ c ∈ values, c.refShape = true) →
        AllRel (CellResolves m) values out ∧ ∀ c ∈ out, c.hasNeg = false) ∧
    (prepareRefList m values = .ok out → (∀ c ∈ values, c.refListShape = true) →
        AllRel (CellResolves m) values out ∧ ∀ c ∈ out, c.hasNeg = false) := by
  constructor
  · intro h hshape
    obtain ⟨rfl, hall⟩ := (prepareRef_ok m values out).mp h
    refine ⟨?_, ?_⟩
    · clear h
      induction values with
      | nil => exact AllRel.nil
      | cons c rest ih =>
        refine AllRel.cons ?_ (ih (fun c hc => hshape c (List.mem_cons_of_mem _ hc))
          (fun c hc => hall c (List.mem_cons_of_mem _ hc)))
        have hc := hall c (by simp)
        have hs := hshape c (by simp)
        cases c with
        | ref i =>
          simp only [trRefCell, Cell.hasNeg, decide_eq_false_iff_not] at hc
          simp only [trRefCell, CellResolves]
          obtain ⟨h1, h2⟩ := translate1_eq_resolve m hm i
          cases hr : resolve m i with
          | none => have := h2 hr; omega
          | some j => rw [(h1 j hr).1]
        | refs l => simp [Cell.refShape] at hs
        | other => simp [trRefCell, CellResolves]
    · intro c hc
      obtain ⟨c0, hc0, rfl⟩ := List.mem_map.mp hc
      exact hall c0 hc0
  · intro h hshape
    obtain ⟨rfl, hall⟩ := (prepareRefList_ok m values out).mp h
    refine ⟨?_, ?_⟩
    · clear h
      induction values with
      | nil => exact AllRel.nil
      | cons c rest ih =>
        refine AllRel.cons ?_ (ih (fun c hc => hshape c (List.mem_cons_of_mem _ hc))
          (fun c hc => hall c (List.mem_cons_of_mem _ hc)))
        have hc := hall c (by simp)
        have hs := hshape c (by simp)
        cases c with
        | ref i => simp [Cell.refListShape] at hs
        | refs l =>
          simp only [trRefListCell] at hc ⊢
          split
          · rename_i hany
            simp only [hany, if_true, Cell.hasNeg] at hc
            exact list_resolves m hm l hc
          · rename_i hany
            have hany' : l.any (fun r => decide (r < 0)) = false := by simpa using hany
            have hnn := hasNeg_false_of_nonneg l hany'
            simp only [CellResolves]
            clear hc hs hany hany' ih hall hshape
            induction l with
            | nil => exact AllRel.nil
            | cons i rest ihl =>
              refine AllRel.cons ?_ (ihl (fun i hi => hnn i (List.mem_cons_of_mem _ hi)))
              have := hnn i (by simp)
              simp [resolve]; omega
        | other => simp [trRefListCell, CellResolves]
    · intro c hc
      obtain ⟨c0, hc0, rfl⟩ := List.mem_map.mp hc
      exact hall c0 hc0

example : prepareRef [(-1, 8), (-2, 7)] [.ref (-1), .ref 4, .other, .ref 0, .ref (-2)]
    = .ok [.ref 8, .ref 4, .other, .ref 0, .ref 7] := by decide
example : prepareRefList [(-1, 8), (-2, 7)] [.refs [-1, 3, -2], .other, .refs [5]]
    = .ok [.refs [8, 3, 7], .other, .refs [5]] := by decide

/-- **unknown_temp_rejected**: a negative id with no mapping in the target table's map, anywhere in
    the values (Ref int or RefList element), makes `prepare_new_values` raise ValueError
    (`_reject_unresolved_temp_ids`); the engine then reverts the whole bundle. -/
theorem unknown_temp_rejected (m : TempMap) (values : List Cell) (c : Cell) (i : Int)
    (hc : c ∈ values) (hi : i ∈ c.ids) (hneg : i < 0) (hunk : m.lookup i = none) :
    prepareRef m values = .error "ValueError" ∧ prepareRefList m values = .error "ValueError" := by
  have htr : translate1 m i = i := by simp [translate1, hunk]
  have key : ∀ (f : Cell → Cell), (f c).hasNeg = true →
      rejectUnresolved (values.map f) = .error "ValueError" := by
    intro f hf
    have : (values.map f).any Cell.hasNeg = true :=
      List.any_eq_true.mpr ⟨f c, List.mem_map_of_mem hc, hf⟩
    simp [rejectUnresolved, this]
  have h1 : (trRefCell m c).hasNeg = true := by
    cases c with
    | ref j =>
      simp only [Cell.ids, List.mem_singleton] at hi; subst hi
      simp [trRefCell, Cell.hasNeg, htr, hneg]
    | refs l =>
      simp only [Cell.ids] at hi
      simp only [trRefCell, Cell.hasNeg]
      exact List.any_eq_true.mpr ⟨i, hi, by simpa using hneg⟩
    | other => simp [Cell.ids] at hi
  have h2 : (trRefListCell m c).hasNeg = true := by
    cases c with
    | ref j =>
      simp only [Cell.ids, List.mem_singleton] at hi; subst hi
      simp [trRefListCell, Cell.hasNeg, hneg]
    | refs l =>
      simp only [Cell.ids] at hi
      have hany : l.any (fun r => decide (r < 0)) = true :=
        List.any_eq_true.mpr ⟨i, hi, by simpa using hneg⟩
      simp only [trRefListCell, hany, if_true, Cell.hasNeg, translate]
      exact List.any_eq_true.mpr ⟨translate1 m i, List.mem_map_of_mem hi, by rw [htr]; simpa using hneg⟩
    | other => simp [Cell.ids] at hi
  constructor
  · simp only [prepareRef]; rw [key _ h1]
  · simp only [prepareRefList]; rw [key _ h2]

example : prepareRef [(-1, 8)] [.ref (-1), .ref (-2)] = .error "ValueError" := by decide
example : prepareRefList [(-1, 8)] [.refs [1, -1, -3]] = .error "ValueError" := by decide

/-- **prepare_ref_ok_iff**: for well-shaped values, acceptance is EXACTLY "every negative id has a
    mapping" (so nothing else is ever rejected here, and nothing unresolved is ever accepted). -/
theorem prepare_ref_ok_iff (m : TempMap) (hm : KeysNeg m) (values : List Cell) :
    ((∀ c ∈ values, c.refShape = true) →
      ((∃ out, prepareRef m values = .ok out) ↔ ∀ c ∈ values, ∀ i ∈ c.ids, i < 0 → (m.lookup i).isSome)) ∧
    ((∀ c ∈ values, c.refListShape = true) →
      ((∃ out, prepareRefList m values = .ok out) ↔ ∀ c ∈ values, ∀ i ∈ c.ids, i < 0 → (m.lookup i).isSome)) := by
  constructor
  · intro hshape
    constructor
    · rintro ⟨out, h⟩ c hc i hi hneg
      cases hl : m.lookup i with
      | some b => rfl
      | none =>
        have := (unknown_temp_rejected m values c i hc hi hneg hl).1
        rw [h] at this; cases this
    · intro hall
      refine ⟨values.map (trRefCell m), (prepareRef_ok m values _).mpr ⟨rfl, ?_⟩⟩
      intro c hc
      have hs := hshape c hc
      cases c with
      | ref i =>
        simp only [trRefCell, Cell.hasNeg, decide_eq_false_iff_not]
        by_cases hneg : i < 0
        · have := hall _ hc i (by simp [Cell.ids]) hneg
          cases hl : m.lookup i with
          | none => rw [hl] at this; cases this
          | some b => simp [translate1, hl]
        · rw [translate_identity_on_positive m hm i (by omega)]; exact hneg
      | refs l => simp [Cell.refShape] at hs
      | other => rfl
  · intro hshape
    constructor
    · rintro ⟨out, h⟩ c hc i hi hneg
      cases hl : m.lookup i with
      | some b => rfl
      | none =>
        have := (unknown_temp_rejected m values c i hc hi hneg hl).2
        rw [h] at this; cases this
    · intro hall
      refine ⟨values.map (trRefListCell m), (prepareRefList_ok m values _).mpr ⟨rfl, ?_⟩⟩
      intro c hc
      have hs := hshape c hc
      cases c with
      | ref i => simp [Cell.refListShape] at hs
      | refs l =>
        simp only [trRefListCell]
        split
        · simp only [Cell.hasNeg, translate]
          rw [Bool.eq_false_iff]
          intro hany
          obtain ⟨x, hx, hxn⟩ := List.any_eq_true.mp hany
          obtain ⟨i, hi, rfl⟩ := List.mem_map.mp hx
          have hxn' : translate1 m i < 0 := by simpa using hxn
          by_cases hneg : i < 0
          · have := hall _ hc i (by simpa [Cell.ids] using hi) hneg
            cases hl : m.lookup i with
            | none => rw [hl] at this; cases this
            | some b => simp [translate1, hl] at hxn'; omega
          · rw [translate_identity_on_positive m hm i (by omega)] at hxn'; exact hneg hxn'
        · rename_i hany
          simpa [Cell.hasNeg] using hany
      | other => rfl

/-- both sides: all negative ids mapped ⇒ accepted; one unmapped ⇒ not -/
example : (∃ out, prepareRefList [(-1, 8)] [.refs [-1, 3], .other] = .ok out) ∧
    ¬ (∃ out, prepareRefList [(-1, 8)] [.refs [-1, -2]] = .ok out) := by
  refine ⟨⟨[.refs [8, 3], .other], by decide⟩, ?_⟩
  rintro ⟨out, h⟩
  have := (unknown_temp_rejected [(-1, 8)] [.refs [-1, -2]] (.refs [-1, -2]) (-2) (by simp) (by simp [Cell.ids])
    (by decide) (by decide)).2
  rw [h] at this; cases this

end Grist.RowIds
