/-
C21  Generated identifiers are valid and unique.
Property theorems only.  Model: GristModel/Identifiers.lean (sandbox/grist/identifiers.py);
helper lemmas: GristProofs/Identifiers.lean; keyword list: Generated/Keywords.lean (regenerated
from Python's `keyword.kwlist` on every run).

Reading of the property (DESIGN.md App. B):
* "valid" = Grist's ASCII identifier shape `[A-Za-z][A-Za-z0-9_]*` (`identShape`) — hence a valid
  Python identifier that starts with neither a digit nor an underscore — and not a keyword;
  table ids start with `A`…`Z` (`startsUpper`);
* "differs case-insensitively" = the upper-cased forms differ, which is how the code compares
  (`ident.upper() not in _uppercase(avoid)`); the functions below receive the avoid set already
  upper-cased (see the parameters listed at the top of the model), so the claim reads
  `upperStr r ∉ avoid` for EVERY list `avoid`;
* the requested name `s` is the text after `str()`, NFKD normalisation and removal of combining
  characters (parameter); the theorems hold for every `s : List Char`.
All results are `some r`: the fuel given to the three loops always suffices, i.e. the real
`while` loops terminate.
-/
import GristModel.Identifiers
import GristProofs.Identifiers
import Generated.Keywords
namespace Grist.Identifiers

/-- Python's keyword list (generated). -/
abbrev pyKw : List Str := Grist.Generated.pyKeywordChars

/-- The two facts about Python's keywords the proofs rely on, checked on the generated list:
    no keyword ends in a digit and no keyword consists of upper-case letters only. -/
theorem keywords_ok : kwOK pyKw = true := by decide

/-! ### termination of the unbounded loops -/

/-- **`_add_suffix` terminates** for every base, avoid set and starting suffix: fuel `|avoid|+1`
    suffices because the `|avoid|+1` candidates `base1, base2, …` are pairwise different after
    upper-casing (pigeonhole).  The result is the FIRST candidate `base' ++ str(m)`, `m ≥ next`,
    whose upper-case form is not in `avoid`, where `base'` is `base` (plus `_` if it ends in a
    digit); at most `|avoid|` candidates are skipped. -/
theorem add_suffix_terminates (base : Str) (avoid : List Str) (next : Nat) :
    ∃ m, addSuffix base avoid next = some (withSuffix (suffixBase base) m) ∧
      next ≤ m ∧ m ≤ next + avoid.length ∧
      upperStr (withSuffix (suffixBase base) m) ∉ avoid ∧
      ∀ j, next ≤ j → j < m → upperStr (withSuffix (suffixBase base) j) ∈ avoid :=
  addSuffix_spec base avoid next

example : addSuffix ['a','1'] [['A','1','_','2'], ['A','1','_','3']] 2 = some ['a','1','_','4'] := by
  decide

/-- **`_gen_ident` terminates** and returns the first of A, B, …, Z, AA, AB, … not in `avoid`;
    it has the identifier shape, starts upper-case and is not a keyword. -/
theorem gen_ident_fresh (avoid : List Str) :
    ∃ i, genIdent avoid = some (letters i) ∧ i ≤ avoid.length ∧
      letters i ∉ avoid ∧ (∀ j, j < i → letters j ∈ avoid) ∧
      identShape (letters i) = true ∧ startsUpper (letters i) = true ∧ letters i ∉ pyKw ∧
      upperStr (letters i) = letters i := by
  obtain ⟨i, h1, h2, h3, h4⟩ := genIdent_spec avoid
  have hu := letters_all_upper i
  have hs := shape_of_all_upper (letters_ne_nil i) hu
  exact ⟨i, h1, h2, h3, h4, hs.1, hs.2, not_mem_kws_of_all_upper keywords_ok hu,
    upperStr_of_all_upper hu⟩

-- (kernel evaluation: `lettersRev` is defined by well-founded recursion)
example : genIdent [['A'], ['C'], ['B']] = some ['D'] := by decide +kernel
example : letters 26 = ['A','A'] ∧ letters 701 = ['Z','Z'] ∧ letters 702 = ['A','A','A'] := by
  decide +kernel

/-- the generated names are pairwise different (so the search cannot cycle) -/
theorem gen_ident_letters_injective (a b : Nat) (h : letters a = letters b) : a = b :=
  letters_inj a b h

/-- **`_sanitize_ident` terminates** (the `while iskeyword` loop, for any prefix of identifier
    shape such as "c" and "T") and returns either "" or a non-keyword of identifier shape; with
    `capitalize=True` and an upper-case prefix the result starts with an upper-case letter. -/
theorem sanitize_shape (s pre : Str) (cap : Bool) (hpre : identShape pre = true) :
    ∃ r, sanitizeIdent pyKw s pre cap = some r ∧
      (r = [] ∨ (identShape r = true ∧ r ∉ pyKw ∧
        (cap = true → startsUpper pre = true → startsUpper r = true))) :=
  sanitize_spec pyKw s pre cap hpre

example : sanitizeIdent pyKw ['1',' ','-','i','f','!'] ['c'] false = some ['c','1','_','i','f','_'] := by
  decide
example : sanitizeIdent pyKw ['n','o','n','e'] ['T'] true = some ['T','N','o','n','e'] := by decide
example : sanitizeIdent pyKw ['_',' ','_'] ['c'] false = some [] := by decide

/-! ### one identifier -/

/-- **C21, columns.** For every requested name and every set of existing (upper-cased) names,
    `pick_col_ident` returns an identifier of shape `[A-Za-z][A-Za-z0-9_]*` that is not a keyword
    and whose upper-case form is not among the existing names. -/
theorem pick_col_valid (s : Str) (avoid : List Str) :
    ∃ r, pickColIdent pyKw s avoid = some r ∧
      identShape r = true ∧ r ∉ pyKw ∧ upperStr r ∉ avoid :=
  pickColIdent_good keywords_ok s avoid

example : pickColIdent pyKw ['i','f'] [['C','I','F'], ['C','I','F','2']] = some ['c','i','f','3'] := by
  decide

/-- **C21, tables.** Same for `pick_table_ident`, and the table id starts with `A`…`Z`. -/
theorem pick_table_valid (s : Str) (avoid : List Str) :
    ∃ r, pickTableIdent pyKw s avoid = some r ∧
      identShape r = true ∧ r ∉ pyKw ∧ upperStr r ∉ avoid ∧ startsUpper r = true := by
  obtain ⟨r, h1, ⟨h2, h3, h4⟩, h5⟩ := pickTableIdent_good keywords_ok s avoid
  exact ⟨r, h1, h2, h3, h4, h5⟩

example : pickTableIdent pyKw [] [['T','A','B','L','E','1']] = some ['T','a','b','l','e','2'] := by
  decide
example : pickTableIdent pyKw ['9',' ','x'] [['T','9','_','X']] = some ['T','9','_','x','2'] := by
  decide

/-- **C21, "already valid and unused is kept as is" (columns).** -/
theorem pick_col_fixpoint (s : Str) (avoid : List Str) (hs : identShape s = true)
    (hk : s ∉ pyKw) (ha : upperStr s ∉ avoid) : pickColIdent pyKw s avoid = some s :=
  pickColIdent_id pyKw s avoid hs hk ha

example : identShape ['m','y','_','C','o','l','2'] = true ∧ ['m','y','_','C','o','l','2'] ∉ pyKw ∧
    upperStr ['m','y','_','C','o','l','2'] ∉ [['M','Y','_','C','O','L']] := by decide

/-- **C21, "already valid and unused is kept as is" (tables: valid includes the upper-case
    first letter).** -/
theorem pick_table_fixpoint (s : Str) (avoid : List Str) (hs : identShape s = true)
    (hu : startsUpper s = true) (hk : s ∉ pyKw) (ha : upperStr s ∉ avoid) :
    pickTableIdent pyKw s avoid = some s :=
  pickTableIdent_id pyKw s avoid hs hu hk ha

example : identShape ['P','e','o','p','l','e'] = true ∧ startsUpper ['P','e','o','p','l','e'] = true ∧
    ['P','e','o','p','l','e'] ∉ pyKw ∧ upperStr ['P','e','o','p','l','e'] ∉ [['P','E','O','P','L','E','2']] := by
  decide

/-! ### a batch -/

/-- **C21, batches.** `pick_col_ident_list` returns one identifier per requested name; each is
    valid, not a keyword and not (case-insensitively) an existing name, and the chosen identifiers
    are pairwise different case-insensitively. -/
theorem pick_list_valid (idents : List Str) (avoid : List Str) :
    ∃ rs, pickColIdentList pyKw idents avoid = some rs ∧ rs.length = idents.length ∧
      (∀ r ∈ rs, identShape r = true ∧ r ∉ pyKw ∧ upperStr r ∉ avoid) ∧
      rs.Pairwise (fun a b => upperStr a ≠ upperStr b) :=
  pickColIdentList_good keywords_ok idents avoid

example : pickColIdentList pyKw [['a'], ['A'], [], ['a','2'], ['1']] [['A','2']]
    = some [['a'], ['A','3'], ['B'], ['a','2','_','2'], ['c','1']] := by
  decide +kernel   -- (kernel evaluation: `lettersRev` is defined by well-founded recursion)

/-- **C21, batches keep valid names.** A batch of valid, non-keyword names that are pairwise
    different case-insensitively and unused is returned unchanged. -/
theorem pick_list_fixpoint (idents : List Str) (avoid : List Str)
    (hall : ∀ s ∈ idents, identShape s = true ∧ s ∉ pyKw ∧ upperStr s ∉ avoid)
    (hd : idents.Pairwise (fun a b => upperStr a ≠ upperStr b)) :
    pickColIdentList pyKw idents avoid = some idents :=
  pickColIdentList_id pyKw idents avoid hall hd

/-- The batch is the left-to-right iteration of `pick_col_ident`, each chosen id joining the
    avoid set in upper case (so "kept as is" applies to each element relative to the names chosen
    before it). -/
theorem pick_list_step (s : Str) (rest : List Str) (avoid : List Str) (r : Str) (rs : List Str) :
    pickColIdentList pyKw (s :: rest) avoid = some (r :: rs) ↔
      pickColIdent pyKw s avoid = some r ∧
      pickColIdentList pyKw rest (upperStr r :: avoid) = some rs := by
  simp only [pickColIdentList]
  cases h1 : pickColIdent pyKw s avoid with
  | none => simp
  | some r' =>
    simp only [Option.some.injEq]
    constructor
    · intro h
      cases h2 : pickColIdentList pyKw rest (upperStr r' :: avoid) with
      | none => simp [h2] at h
      | some rs' =>
        simp only [h2, Option.some.injEq, List.cons.injEq] at h
        obtain ⟨rfl, rfl⟩ := h
        exact ⟨rfl, h2⟩
    · rintro ⟨rfl, h⟩
      simp [h]

end Grist.Identifiers
